// Package fakereg14 is an in-process fake OCI registry (http.RoundTripper) for
// the C14 harness: manifests by tag and digest, two profiles (with and without
// the Referrers API) and a gate through which the harness controls the release
// order of HTTP exchanges and injects failures.
package fakereg14

import (
	"bytes"
	"context"
	"encoding/json"
	"io"
	"net/http"
	"sort"
	"strconv"
	"strings"
	"sync"

	"github.com/opencontainers/go-digest"
)

type Profile int

const (
	// TagSchema: no Referrers API, GET /referrers/ answers 404.
	TagSchema Profile = iota
	// ReferrersAPI: the registry lists referrers itself.
	ReferrersAPI
)

const MediaTypeIndex = "application/vnd.oci.image.index.v1+json"
const MediaTypeImage = "application/vnd.oci.image.manifest.v1+json"

type Stored struct {
	MediaType string
	Content   []byte
}

// Exchange describes one HTTP request as seen by the gate.
type Exchange struct {
	Seq       int
	Op        string
	Method    string
	Repo      string
	Kind      string // manifest | referrers | blob | other
	Ref       string
	ByDigest  bool
	Body      []byte
	MediaType string
}

type Decision struct {
	Fail   bool
	Status int
	// AfterEffect: the request takes effect in the registry, but the client is answered
	// Status (the response got lost / was replaced by a gateway error)
	AfterEffect bool
}

// Gate is consulted at the start of every exchange, before any effect.
type Gate interface {
	Enter(ex *Exchange) Decision
}

type Registry struct {
	Profile Profile
	Gate    Gate
	// Done, when set, is told the status every exchange was answered with.
	Done func(ex *Exchange, status int)

	mu   sync.Mutex
	seq  int
	man  map[string]map[digest.Digest]Stored
	tags map[string]map[string]digest.Digest
	// Ever records every digest that was ever stored under a tag by PUT <tag>.
	ever map[digest.Digest]bool
}

func New(p Profile) *Registry {
	return &Registry{Profile: p, man: map[string]map[digest.Digest]Stored{}, tags: map[string]map[string]digest.Digest{},
		ever: map[digest.Digest]bool{}}
}

type opKey struct{}

func WithOp(ctx context.Context, op string) context.Context {
	return context.WithValue(ctx, opKey{}, op)
}
func OpOf(ctx context.Context) string {
	s, _ := ctx.Value(opKey{}).(string)
	return s
}

func (r *Registry) repo(name string) (map[digest.Digest]Stored, map[string]digest.Digest) {
	if r.man[name] == nil {
		r.man[name] = map[digest.Digest]Stored{}
		r.tags[name] = map[string]digest.Digest{}
	}
	return r.man[name], r.tags[name]
}

// PutManifest stores a manifest directly (no gate).
func (r *Registry) PutManifest(repo, mediaType string, content []byte, tags ...string) digest.Digest {
	r.mu.Lock()
	defer r.mu.Unlock()
	m, t := r.repo(repo)
	d := digest.FromBytes(content)
	m[d] = Stored{mediaType, append([]byte(nil), content...)}
	for _, tg := range tags {
		t[tg] = d
		r.ever[d] = true
	}
	return d
}

func (r *Registry) Has(repo string, d digest.Digest) bool {
	r.mu.Lock()
	defer r.mu.Unlock()
	m, _ := r.repo(repo)
	_, ok := m[d]
	return ok
}

func (r *Registry) Manifests(repo string) map[digest.Digest]Stored {
	r.mu.Lock()
	defer r.mu.Unlock()
	m, _ := r.repo(repo)
	out := map[digest.Digest]Stored{}
	for k, v := range m {
		out[k] = v
	}
	return out
}

func (r *Registry) Tags(repo string) map[string]digest.Digest {
	r.mu.Lock()
	defer r.mu.Unlock()
	_, t := r.repo(repo)
	out := map[string]digest.Digest{}
	for k, v := range t {
		out[k] = v
	}
	return out
}

// WasTagged reports whether d was ever stored through PUT/PutManifest under a tag.
func (r *Registry) WasTagged(d digest.Digest) bool {
	r.mu.Lock()
	defer r.mu.Unlock()
	return r.ever[d]
}

func resp(req *http.Request, status int, hdr map[string]string, body []byte) *http.Response {
	h := http.Header{}
	for k, v := range hdr {
		h.Set(k, v)
	}
	h.Set("Content-Length", strconv.Itoa(len(body)))
	b := body
	if req.Method == http.MethodHead {
		b = nil
	}
	return &http.Response{Status: strconv.Itoa(status) + " " + http.StatusText(status), StatusCode: status,
		Proto: "HTTP/1.1", ProtoMajor: 1, ProtoMinor: 1, Header: h, Body: io.NopCloser(bytes.NewReader(b)),
		ContentLength: int64(len(body)), Request: req}
}

func errBody(code, msg string) []byte {
	return []byte(`{"errors":[{"code":"` + code + `","message":"` + msg + `"}]}`)
}

func (r *Registry) RoundTrip(req *http.Request) (*http.Response, error) {
	ex, rsp, err := r.roundTrip(req)
	if r.Done != nil && ex != nil {
		st := 0
		if rsp != nil {
			st = rsp.StatusCode
		}
		r.Done(ex, st)
	}
	return rsp, err
}

func (r *Registry) roundTrip(req *http.Request) (*Exchange, *http.Response, error) {
	var body []byte
	if req.Body != nil {
		var err error
		body, err = io.ReadAll(req.Body)
		req.Body.Close()
		if err != nil {
			return nil, nil, err
		}
	}
	ex := &Exchange{Op: OpOf(req.Context()), Method: req.Method, Body: body, MediaType: req.Header.Get("Content-Type"), Kind: "other"}
	path := req.URL.Path
	if strings.HasPrefix(path, "/v2/") {
		rest := path[len("/v2/"):]
		for _, k := range []string{"manifests", "referrers", "blobs"} {
			if i := strings.LastIndex(rest, "/"+k+"/"); i >= 0 {
				ex.Repo = rest[:i]
				ex.Ref = rest[i+len(k)+2:]
				ex.Kind = map[string]string{"manifests": "manifest", "referrers": "referrers", "blobs": "blob"}[k]
				break
			}
		}
	}
	if d, err := digest.Parse(ex.Ref); err == nil && d.Validate() == nil {
		ex.ByDigest = true
	}
	r.mu.Lock()
	r.seq++
	ex.Seq = r.seq
	r.mu.Unlock()
	lost := 0
	if r.Gate != nil {
		if dec := r.Gate.Enter(ex); dec.Fail && dec.AfterEffect {
			lost = dec.Status
			if lost == 0 {
				lost = 500
			}
		} else if dec.Fail {
			st := dec.Status
			if st == 0 {
				st = 500
			}
			return ex, resp(req, st, map[string]string{"Content-Type": "application/json"}, errBody("UNKNOWN", "injected failure")), nil
		}
	}
	if err := req.Context().Err(); err != nil {
		return ex, nil, err
	}
	r.mu.Lock()
	defer r.mu.Unlock()
	if lost != 0 && ex.Kind == "manifest" {
		r.manifest(req, ex)
		return ex, resp(req, lost, map[string]string{"Content-Type": "application/json"}, errBody("UNKNOWN", "injected failure after effect")), nil
	}
	switch ex.Kind {
	case "manifest":
		return ex, r.manifest(req, ex), nil
	case "referrers":
		return ex, r.referrers(req, ex), nil
	case "blob":
		return ex, resp(req, 404, map[string]string{"Content-Type": "application/json"}, errBody("BLOB_UNKNOWN", "blob unknown")), nil
	}
	if path == "/v2/" {
		return ex, resp(req, 200, nil, []byte("{}")), nil
	}
	return ex, resp(req, 404, nil, nil), nil
}

func (r *Registry) manifest(req *http.Request, ex *Exchange) *http.Response {
	m, t := r.repo(ex.Repo)
	notFound := func() *http.Response {
		return resp(req, 404, map[string]string{"Content-Type": "application/json"}, errBody("MANIFEST_UNKNOWN", "manifest unknown"))
	}
	resolve := func() (digest.Digest, bool) {
		if ex.ByDigest {
			d := digest.Digest(ex.Ref)
			_, ok := m[d]
			return d, ok
		}
		d, ok := t[ex.Ref]
		if ok {
			_, ok = m[d]
		}
		return d, ok
	}
	switch req.Method {
	case http.MethodGet, http.MethodHead:
		d, ok := resolve()
		if !ok {
			return notFound()
		}
		s := m[d]
		return resp(req, 200, map[string]string{"Content-Type": s.MediaType, "Docker-Content-Digest": d.String()}, s.Content)
	case http.MethodPut:
		d := digest.FromBytes(ex.Body)
		if ex.ByDigest && digest.Digest(ex.Ref) != d {
			return resp(req, 400, map[string]string{"Content-Type": "application/json"}, errBody("DIGEST_INVALID", "digest mismatch"))
		}
		m[d] = Stored{ex.MediaType, ex.Body}
		if !ex.ByDigest {
			t[ex.Ref] = d
			r.ever[d] = true
		}
		h := map[string]string{"Docker-Content-Digest": d.String(), "Location": req.URL.Path}
		if r.Profile == ReferrersAPI {
			var mf struct {
				Subject *struct {
					Digest string `json:"digest"`
				} `json:"subject"`
			}
			if json.Unmarshal(ex.Body, &mf) == nil && mf.Subject != nil {
				h["OCI-Subject"] = mf.Subject.Digest
			}
		}
		return resp(req, 201, h, nil)
	case http.MethodDelete:
		if !ex.ByDigest {
			if _, ok := t[ex.Ref]; !ok {
				return notFound()
			}
			delete(t, ex.Ref)
			return resp(req, 202, nil, nil)
		}
		d := digest.Digest(ex.Ref)
		if _, ok := m[d]; !ok {
			return notFound()
		}
		delete(m, d)
		for tg, td := range t {
			if td == d {
				delete(t, tg)
			}
		}
		return resp(req, 202, nil, nil)
	}
	return resp(req, 405, nil, nil)
}

// Referrer is the descriptor the Referrers API lists for a manifest.
type Referrer struct {
	MediaType    string            `json:"mediaType"`
	Digest       digest.Digest     `json:"digest"`
	Size         int64             `json:"size"`
	Annotations  map[string]string `json:"annotations,omitempty"`
	ArtifactType string            `json:"artifactType,omitempty"`
}

func (r *Registry) referrers(req *http.Request, ex *Exchange) *http.Response {
	if r.Profile == TagSchema || req.Method != http.MethodGet {
		return resp(req, 404, map[string]string{"Content-Type": "text/plain"}, []byte("404 page not found\n"))
	}
	m, _ := r.repo(ex.Repo)
	want := req.URL.Query().Get("artifactType")
	list := []Referrer{}
	for d, s := range m {
		var mf struct {
			MediaType    string            `json:"mediaType"`
			ArtifactType string            `json:"artifactType"`
			Annotations  map[string]string `json:"annotations"`
			Config       *struct {
				MediaType string `json:"mediaType"`
			} `json:"config"`
			Subject *struct {
				Digest string `json:"digest"`
			} `json:"subject"`
		}
		if json.Unmarshal(s.Content, &mf) != nil || mf.Subject == nil || mf.Subject.Digest != ex.Ref {
			continue
		}
		at := mf.ArtifactType
		if at == "" && s.MediaType == MediaTypeImage && mf.Config != nil {
			at = mf.Config.MediaType
		}
		if want != "" && at != want {
			continue
		}
		list = append(list, Referrer{MediaType: s.MediaType, Digest: d, Size: int64(len(s.Content)), Annotations: mf.Annotations, ArtifactType: at})
	}
	sort.Slice(list, func(i, j int) bool { return list[i].Digest < list[j].Digest })
	idx := struct {
		SchemaVersion int        `json:"schemaVersion"`
		MediaType     string     `json:"mediaType"`
		Manifests     []Referrer `json:"manifests"`
	}{2, MediaTypeIndex, list}
	body, _ := json.Marshal(idx)
	h := map[string]string{"Content-Type": MediaTypeIndex}
	if want != "" {
		h["OCI-Filters-Applied"] = "artifactType"
	}
	return resp(req, 200, h, body)
}
