// Package crashkit kills a child process at a chosen system-call boundary with
// strace's fault injection and reads recorded system-call traces.
//
// Usage pattern (see harness/cmd/c18/crash.go):
//
//	child:  call crashkit.ChildInit() from an init() function (locks the main
//	        goroutine to the main thread), run the set-up, crashkit.Mark(), run
//	        the operation under test, crashkit.Mark(), exit.  The parent starts
//	        it with crashkit.ChildEnv() (GOMAXPROCS=1 ...).
//	parent: tr := crashkit.Record(cmd)          one run under `strace -f`
//	        win := tr.Window()                  system calls of the main thread between the marks
//	        for k := range win: crashkit.KillBefore(cmd, tr, win[k])
//
// strace (6.1) counts `when=` per system-call name and per thread, so the k-th
// call of the window is addressed as (name, ordinal of that name on the main
// thread since exec).  Every killing run is itself traced and verified: the
// killed call must be the expected one at the expected position, otherwise the
// run is reported as Unaligned and must not be judged.
package crashkit

import (
	"bufio"
	"context"
	"fmt"
	"os"
	"os/exec"
	"path/filepath"
	"regexp"
	"runtime"
	"strconv"
	"strings"
	"syscall"
	"time"
)

// MarkPath is the path probed by Mark; it delimits the window in the trace.
const MarkPath = "/VERIF_MARK"

// TraceSet is the set of traced (and killable) system calls: everything that
// touches paths or descriptors, without mmap (issued by the allocator at
// unpredictable moments).
const TraceSet = "openat,openat2,open,creat,mkdir,mkdirat,rename,renameat,renameat2,unlink,unlinkat,rmdir," +
	"link,linkat,symlink,symlinkat,chmod,fchmod,fchmodat,chown,fchown,fchownat,truncate,ftruncate," +
	"write,pwrite64,writev,read,pread64,close,fsync,fdatasync,sync_file_range,lseek,dup,dup2,dup3,fcntl,flock," +
	"stat,lstat,fstat,newfstatat,statx,access,faccessat,faccessat2,readlink,readlinkat,getdents64,utimensat," +
	"epoll_ctl,pipe2,getcwd,chdir,fchdir,execve"

// ChildInit must be called from an init() function of the child.
func ChildInit() { runtime.LockOSThread() }

// Mark issues the marker system call.
func Mark() { _ = syscall.Access(MarkPath, 0) }

// ChildEnv is the environment a child must run with.
func ChildEnv(extra ...string) []string {
	env := append(os.Environ(), "GOMAXPROCS=1", "GODEBUG=asyncpreemptoff=1")
	return append(env, extra...)
}

// Call is one line of a trace.
type Call struct {
	Tid  int
	Name string
	Args string // text between the outer parentheses
	Ret  string // text after " = " ("?" when the call did not return)
	Line string
}

// Trace is a recorded run.
type Trace struct {
	Calls   []Call
	MainTid int
	Killed  bool // "+++ killed by SIGKILL +++" seen for the main thread
	Exit    int  // exit status of the main thread when it exited normally (-1 otherwise)
}

var lineRE = regexp.MustCompile(`^(\d+)\s+([a-z_0-9]+)\((.*)\)\s+= (.*)$`)
var unfinishedRE = regexp.MustCompile(`^(\d+)\s+([a-z_0-9]+)\((.*) <unfinished \.\.\.>$`)
var resumedRE = regexp.MustCompile(`^(\d+)\s+<\.\.\. ([a-z_0-9]+) resumed>(.*)\)\s+= (.*)$`)

func parseTrace(path string) (*Trace, error) {
	f, err := os.Open(path)
	if err != nil {
		return nil, err
	}
	defer f.Close()
	tr := &Trace{Exit: -1}
	pending := map[int]*Call{}
	sc := bufio.NewScanner(f)
	sc.Buffer(make([]byte, 1<<20), 1<<26)
	for sc.Scan() {
		l := sc.Text()
		if m := lineRE.FindStringSubmatch(l); m != nil {
			tid, _ := strconv.Atoi(m[1])
			if tr.MainTid == 0 {
				tr.MainTid = tid
			}
			tr.Calls = append(tr.Calls, Call{Tid: tid, Name: m[2], Args: m[3], Ret: strings.TrimSpace(m[4]), Line: l})
			continue
		}
		if m := unfinishedRE.FindStringSubmatch(l); m != nil {
			tid, _ := strconv.Atoi(m[1])
			if tr.MainTid == 0 {
				tr.MainTid = tid
			}
			tr.Calls = append(tr.Calls, Call{Tid: tid, Name: m[2], Args: m[3], Ret: "?", Line: l})
			pending[tid] = &tr.Calls[len(tr.Calls)-1]
			continue
		}
		if m := resumedRE.FindStringSubmatch(l); m != nil {
			tid, _ := strconv.Atoi(m[1])
			// find the pending call of this thread (slices may have been reallocated: search backwards)
			for i := len(tr.Calls) - 1; i >= 0; i-- {
				if tr.Calls[i].Tid == tid && tr.Calls[i].Name == m[2] && tr.Calls[i].Ret == "?" {
					tr.Calls[i].Args += m[3]
					tr.Calls[i].Ret = strings.TrimSpace(m[4])
					break
				}
			}
			continue
		}
		fields := strings.Fields(l)
		if len(fields) >= 2 {
			tid, _ := strconv.Atoi(fields[0])
			if strings.Contains(l, "+++ killed by SIGKILL +++") && (tid == tr.MainTid || tr.MainTid == 0) {
				tr.Killed = true
			}
			if strings.Contains(l, "+++ exited with") && tid == tr.MainTid {
				fmt.Sscanf(l[strings.Index(l, "exited with")+len("exited with"):], "%d", &tr.Exit)
			}
		}
	}
	return tr, sc.Err()
}

// Cmd describes how to start the child.
type Cmd struct {
	Path string
	Args []string
	Env  []string
	Dir  string
	// Scratch is a directory for trace files.
	Scratch string
}

var seq int

func (c Cmd) strace(extra ...string) (*Trace, error) {
	seq++
	out := filepath.Join(c.Scratch, fmt.Sprintf("trace-%d-%d.txt", os.Getpid(), seq))
	args := []string{"-f", "-q", "-s", "0", "-o", out, "-e", "trace=" + TraceSet}
	args = append(args, extra...)
	args = append(args, c.Path)
	args = append(args, c.Args...)
	cmd := exec.Command("strace", args...)
	cmd.Env = c.Env
	cmd.Dir = c.Dir
	cmd.Stdout = nil
	cmd.Stderr = nil
	_ = cmd.Run() // the child is killed on purpose in injection runs
	defer os.Remove(out)
	return parseTrace(out)
}

// Record runs the child once under strace without injection.
func Record(c Cmd) (*Trace, error) {
	tr, err := c.strace()
	if err != nil {
		return nil, err
	}
	if tr.Killed || tr.Exit != 0 {
		return tr, fmt.Errorf("recorded run did not exit cleanly (killed=%v exit=%d)", tr.Killed, tr.Exit)
	}
	return tr, nil
}

// Window returns the indices (into tr.Calls) of the main thread's calls
// strictly between the first two markers.
func (tr *Trace) Window() []int {
	var out []int
	marks := 0
	for i, c := range tr.Calls {
		if c.Tid != tr.MainTid {
			continue
		}
		if strings.Contains(c.Args, MarkPath) {
			marks++
			if marks == 2 {
				break
			}
			continue
		}
		if marks == 1 {
			out = append(out, i)
		}
	}
	if marks < 2 {
		return nil
	}
	return out
}

// ordinal returns the 1-based position of call idx among the main thread's
// calls of the same name.
func (tr *Trace) ordinal(idx int) int {
	n := 0
	for i := 0; i <= idx; i++ {
		if tr.Calls[i].Tid == tr.MainTid && tr.Calls[i].Name == tr.Calls[idx].Name {
			n++
		}
	}
	return n
}

// mainCalls returns the main thread's calls.
func (tr *Trace) mainCalls() []Call {
	var out []Call
	for _, c := range tr.Calls {
		if c.Tid == tr.MainTid {
			out = append(out, c)
		}
	}
	return out
}

// KillResult describes an injection run.
type KillResult struct {
	Aligned bool   // the child was killed at the entry of exactly the intended call
	Why     string // when not aligned
	Trace   *Trace
}

// KillBefore re-runs the child and kills it at the entry of the call that the
// recorded trace rec has at index idx (an index returned by Window).
func KillBefore(c Cmd, rec *Trace, idx int) (KillResult, error) {
	name := rec.Calls[idx].Name
	when := rec.ordinal(idx)
	tr, err := c.strace("-e", fmt.Sprintf("inject=%s:signal=KILL:when=%d", name, when))
	if err != nil {
		return KillResult{}, err
	}
	res := KillResult{Trace: tr}
	if !tr.Killed {
		res.Why = "child was not killed"
		return res, nil
	}
	// the main thread's call sequence must be the recorded one up to idx, names equal
	want := 0
	for i := 0; i <= idx; i++ {
		if rec.Calls[i].Tid == rec.MainTid {
			want++
		}
	}
	got := tr.mainCalls()
	if len(got) != want {
		res.Why = fmt.Sprintf("killed after %d main-thread calls, expected %d", len(got), want)
		return res, nil
	}
	recMain := rec.mainCalls()
	for i := 0; i < want; i++ {
		if got[i].Name != recMain[i].Name {
			res.Why = fmt.Sprintf("call %d is %s, recorded %s", i, got[i].Name, recMain[i].Name)
			return res, nil
		}
	}
	if got[want-1].Ret != "?" {
		res.Why = "the killed call returned: " + got[want-1].Line
		return res, nil
	}
	res.Aligned = true
	return res, nil
}

// FailResult describes an error-injection run (the child is NOT killed: the chosen
// system call fails with the given errno and the child carries on).
type FailResult struct {
	Aligned bool   // exactly the intended call failed with the injected error
	Why     string // when not aligned
	Exit    int    // exit status of the child (-1: did not exit normally)
	Trace   *Trace
}

// FailAt re-runs the child and makes the call that the recorded trace rec has at
// index idx fail with errno (e.g. "EIO", "ENOSPC").
func FailAt(c Cmd, rec *Trace, idx int, errno string) (FailResult, error) {
	name := rec.Calls[idx].Name
	when := rec.ordinal(idx)
	tr, err := c.strace("-e", fmt.Sprintf("inject=%s:error=%s:when=%d", name, errno, when))
	if err != nil {
		return FailResult{}, err
	}
	res := FailResult{Trace: tr, Exit: tr.Exit}
	if tr.Killed {
		res.Why = "child was killed"
		return res, nil
	}
	want := 0
	for i := 0; i <= idx; i++ {
		if rec.Calls[i].Tid == rec.MainTid {
			want++
		}
	}
	got := tr.mainCalls()
	if len(got) < want {
		res.Why = fmt.Sprintf("only %d main-thread calls, expected at least %d", len(got), want)
		return res, nil
	}
	recMain := rec.mainCalls()
	for i := 0; i < want; i++ {
		if got[i].Name != recMain[i].Name {
			res.Why = fmt.Sprintf("call %d is %s, recorded %s", i, got[i].Name, recMain[i].Name)
			return res, nil
		}
	}
	if !strings.Contains(got[want-1].Ret, "INJECTED") {
		res.Why = "the intended call was not the injected one: " + got[want-1].Line
		return res, nil
	}
	res.Aligned = true
	return res, nil
}

// Available reports whether strace injection works in this environment.
func Available() bool {
	cmd := exec.Command("strace", "-qq", "-o", "/dev/null", "-e", "trace=getpid", "-e", "inject=getpid:signal=KILL:when=65535", "true")
	return cmd.Run() == nil
}

// RetInt parses a numeric return value (-1 when it is not a plain number).
func (c Call) RetInt() int {
	f := strings.Fields(c.Ret)
	if len(f) == 0 {
		return -1
	}
	n, err := strconv.Atoi(f[0])
	if err != nil {
		return -1
	}
	return n
}

// RunDelayed runs the child under `strace -f` with a delay of delayUs
// microseconds injected at the ENTRY of the when-th call of the named system
// call on every thread (strace counts per thread), and returns the child's
// standard output and exit status (-1: killed by a signal); timedOut reports
// that the run exceeded limit and was killed.
func RunDelayed(c Cmd, name string, when, delayUs int, limit time.Duration) (out []byte, status int, timedOut bool, err error) {
	names := name
	switch name {
	case "renameat":
		names = "rename,renameat,renameat2"
	case "fchmod":
		names = "fchmod,fchmodat,chmod"
	}
	args := []string{"-f", "-qq", "-o", "/dev/null", "-e", "trace=" + names,
		"-e", fmt.Sprintf("inject=%s:delay_enter=%d:when=%d", names, delayUs, when), c.Path}
	args = append(args, c.Args...)
	ctx, cancel := context.WithTimeout(context.Background(), limit)
	defer cancel()
	cmd := exec.CommandContext(ctx, "strace", args...)
	cmd.Env = c.Env
	cmd.Dir = c.Dir
	cmd.SysProcAttr = &syscall.SysProcAttr{Setpgid: true}
	cmd.Cancel = func() error { return syscall.Kill(-cmd.Process.Pid, syscall.SIGKILL) }
	out, err = cmd.Output()
	if ctx.Err() != nil {
		return out, -1, true, nil
	}
	if err != nil {
		if ee, ok := err.(*exec.ExitError); ok {
			return out, exitStatus(ee), false, nil
		}
		return nil, 0, false, err
	}
	return out, 0, false, nil
}

func exitStatus(ee *exec.ExitError) int {
	if ws, ok := ee.Sys().(syscall.WaitStatus); ok {
		if ws.Signaled() {
			return -1
		}
		return ws.ExitStatus()
	}
	return ee.ExitCode()
}
