module verifharness

go 1.23.0

require oras.land/oras-go/v2 v2.0.0

require (
	github.com/opencontainers/go-digest v1.0.0
	github.com/opencontainers/image-spec v1.1.1
	golang.org/x/sync v0.13.0
)

replace oras.land/oras-go/v2 => /repo
