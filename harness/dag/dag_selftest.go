package dag

import (
	"bytes"
	"context"
	"fmt"

	ocispec "github.com/opencontainers/image-spec/specs-go/v1"
	"oras.land/oras-go/v2/content"
	"oras.land/oras-go/v2/content/memory"
)

// SelfTest checks the generator's ground truth against content.Successors on a
// memory store: used by harnesses as a generator sanity check (a disagreement
// is reported by the caller as a correspondence failure, not assumed away).
func (g *Graph) SelfTest() error {
	ctx := context.Background()
	st := memory.New()
	for _, n := range g.Nodes {
		if n.Foreign() {
			continue
		}
		if err := st.Push(ctx, n.Desc, bytes.NewReader(n.Bytes)); err != nil {
			return fmt.Errorf("push %d: %w", n.ID, err)
		}
	}
	for _, n := range g.Nodes {
		if n.Foreign() {
			continue
		}
		succ, err := content.Successors(ctx, st, n.Desc)
		if err != nil {
			return fmt.Errorf("successors %d: %w", n.ID, err)
		}
		if len(succ) != len(n.Succ) {
			return fmt.Errorf("node %d (%s): %d successors, generator says %d", n.ID, n.Kind, len(succ), len(n.Succ))
		}
		for i, s := range succ {
			w := g.Nodes[n.Succ[i]].Desc
			if s.Digest != w.Digest || s.MediaType != w.MediaType || s.Size != w.Size {
				return fmt.Errorf("node %d successor %d: %v, generator says %v", n.ID, i, s, w)
			}
		}
	}
	return nil
}

var _ = ocispec.Descriptor{}
