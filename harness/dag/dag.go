// Package dag generates random Merkle DAGs of OCI/Docker content with real
// bytes: blobs, configs, image manifests, Docker manifests, indexes, Docker
// manifest lists and ORAS artifact manifests, with subjects (referrers),
// shared nodes, a blob listed twice, empty blobs, foreign layers and,
// optionally, "twins" (the same bytes under two media types).
//
// The generator keeps its own ground truth (ordered successor lists exactly as
// content.Successors must report them), independent of the code under test.
package dag

import (
	"encoding/json"
	"fmt"
	"sort"

	"github.com/opencontainers/go-digest"
	"github.com/opencontainers/image-spec/specs-go"
	ocispec "github.com/opencontainers/image-spec/specs-go/v1"
	"verifharness/common"
)

const (
	MTDockerManifest     = "application/vnd.docker.distribution.manifest.v2+json"
	MTDockerManifestList = "application/vnd.docker.distribution.manifest.list.v2+json"
	MTDockerForeignLayer = "application/vnd.docker.image.rootfs.foreign.diff.tar.gzip"
	MTArtifactManifest   = "application/vnd.oci.artifact.manifest.v1+json"
	MTDockerConfig       = "application/vnd.docker.container.image.v1+json"
	MTDockerLayer        = "application/vnd.docker.image.rootfs.diff.tar.gzip"
)

// Kind of a node.
const (
	KBlob     = "blob"     // layer / arbitrary blob
	KConfig   = "config"   // config blob
	KForeign  = "foreign"  // foreign (non-distributable) layer: referenced, never stored
	KImage    = "image"    // OCI image manifest
	KDocker   = "docker"   // Docker v2 manifest
	KIndex    = "index"    // OCI image index
	KDockerL  = "dockerl"  // Docker manifest list
	KArtifact = "artifact" // ORAS artifact manifest
)

type Node struct {
	ID    int
	Kind  string
	Desc  ocispec.Descriptor // plain descriptor (media type, digest, size)
	Bytes []byte
	// Succ is the ordered successor list exactly as content.Successors reports it
	// (subject first where the kind has one; duplicates kept; foreign layers included).
	Succ []int
	// Subject is the node ID of the subject or -1.
	Subject int
	// ArtifactType as written into the manifest ("" if none); ConfigMT the config media type.
	ArtifactType string
	Annotations  map[string]string
	// TwinOf: this node has the same bytes as node TwinOf but another media type (-1 if none).
	TwinOf int
	// SuccTitles (only with Options.LayerTitles): parallel to Succ for image/docker manifests, the
	// org.opencontainers.image.title annotation written on that successor entry ("" = none).
	SuccTitles []string
}

func (n *Node) IsManifest() bool {
	switch n.Kind {
	case KImage, KDocker, KIndex, KDockerL, KArtifact:
		return true
	}
	return false
}

func (n *Node) Foreign() bool { return n.Kind == KForeign }

type Graph struct {
	Nodes []*Node // successors always have a smaller index
}

type Options struct {
	MinNodes, MaxNodes int
	Subjects           bool // generate subject links (referrers)
	Foreign            bool // generate foreign layers
	Twins              bool // generate same-bytes-two-media-types pairs
	DockerKinds        bool
	ArtifactKinds      bool
	Indexes            bool
	Annotations        bool
	// BlobSize bounds for generated blobs (0..MaxBlob bytes)
	MaxBlob int
	// LayerTitles: when non-empty, about a third of the layer entries of image/docker manifests
	// carry a title annotation drawn from this list (no extra PRNG draws when empty).
	LayerTitles []string
}

func DefaultOptions() Options {
	return Options{MinNodes: 3, MaxNodes: 12, Subjects: true, Foreign: true, DockerKinds: true,
		ArtifactKinds: true, Indexes: true, Annotations: true, MaxBlob: 64}
}

func descOf(mt string, b []byte) ocispec.Descriptor {
	return ocispec.Descriptor{MediaType: mt, Digest: digest.FromBytes(b), Size: int64(len(b))}
}

// Random builds a random graph.  Every blob's bytes are unique (they embed the
// node id and a PRNG value) except deliberate empty blobs and twins.
func Random(r *common.Rand, o Options) *Graph {
	g := &Graph{}
	n := o.MinNodes + r.Intn(o.MaxNodes-o.MinNodes+1)
	emptyUsed := false
	for len(g.Nodes) < n {
		id := len(g.Nodes)
		var blobs, manifests, all []int
		for _, m := range g.Nodes {
			switch {
			case m.Kind == KForeign:
			case m.IsManifest():
				manifests = append(manifests, m.ID)
				all = append(all, m.ID)
			default:
				blobs = append(blobs, m.ID)
				all = append(all, m.ID)
			}
		}
		kinds := []string{KBlob, KBlob, KConfig}
		if len(blobs) >= 1 {
			kinds = append(kinds, KImage, KImage, KImage)
			if o.DockerKinds {
				kinds = append(kinds, KDocker)
			}
			if o.ArtifactKinds {
				kinds = append(kinds, KArtifact)
			}
		}
		if len(manifests) >= 1 && o.Indexes {
			kinds = append(kinds, KIndex, KIndex)
			if o.DockerKinds {
				kinds = append(kinds, KDockerL)
			}
		}
		if o.Foreign && r.Chance(1, 12) {
			kinds = []string{KForeign}
		}
		if o.Twins && len(manifests) >= 1 && r.Chance(1, 8) {
			// twin: same bytes as an existing manifest, as a plain blob
			src := g.Nodes[common.Pick(r, manifests)]
			has := false
			for _, m := range g.Nodes {
				if m.TwinOf == src.ID {
					has = true
				}
			}
			if has {
				continue
			}
			g.Nodes = append(g.Nodes, &Node{ID: id, Kind: KBlob, Bytes: src.Bytes,
				Desc: descOf("application/octet-stream", src.Bytes), Subject: -1, TwinOf: src.ID})
			continue
		}
		kind := common.Pick(r, kinds)
		nd := &Node{ID: id, Kind: kind, Subject: -1, TwinOf: -1}
		pickSubject := func() *ocispec.Descriptor {
			if o.Subjects && len(all) > 0 && r.Chance(1, 3) {
				cands := all
				if len(manifests) > 0 && r.Chance(3, 4) {
					cands = manifests
				}
				s := common.Pick(r, cands)
				nd.Subject = s
				nd.Succ = append(nd.Succ, s)
				d := g.Nodes[s].Desc
				return &d
			}
			return nil
		}
		annotations := func() map[string]string {
			if o.Annotations && r.Chance(1, 3) {
				nd.Annotations = map[string]string{"verif.key": common.Pick(r, []string{"alpha", "beta", "gamma"})}
				return nd.Annotations
			}
			return nil
		}
		switch kind {
		case KBlob, KConfig:
			if !emptyUsed && r.Chance(1, 10) {
				emptyUsed = true
				nd.Bytes = []byte{}
			} else {
				sz := r.Intn(o.MaxBlob + 1)
				nd.Bytes = []byte(fmt.Sprintf("blob-%d-%x-", id, r.U64()))
				for len(nd.Bytes) < sz {
					nd.Bytes = append(nd.Bytes, byte('a'+r.Intn(26)))
				}
			}
			mt := ocispec.MediaTypeImageLayer
			if kind == KConfig {
				mt = common.Pick(r, []string{ocispec.MediaTypeImageConfig, "application/vnd.verif.config.v1+json", "application/vnd.verif.other+json"})
				if len(nd.Bytes) == 0 {
					nd.Bytes = []byte("{}")
				}
			} else if r.Chance(1, 4) {
				mt = common.Pick(r, []string{ocispec.MediaTypeImageLayerGzip, "application/octet-stream", MTDockerLayer})
			}
			nd.Desc = descOf(mt, nd.Bytes)
		case KForeign:
			b := []byte(fmt.Sprintf("foreign-%d-%x", id, r.U64()))
			mt := common.Pick(r, []string{ocispec.MediaTypeImageLayerNonDistributable, ocispec.MediaTypeImageLayerNonDistributableGzip,
				ocispec.MediaTypeImageLayerNonDistributableZstd, MTDockerForeignLayer})
			nd.Bytes = b
			nd.Desc = descOf(mt, b)
		case KImage, KDocker:
			var m ocispec.Manifest
			m.SchemaVersion = 2
			if kind == KImage {
				m.MediaType = ocispec.MediaTypeImageManifest
				m.Subject = pickSubject()
				if r.Chance(1, 3) {
					m.ArtifactType = common.Pick(r, []string{"application/vnd.verif.sbom", "application/vnd.verif.sig", "application/vnd.verif.doc"})
					nd.ArtifactType = m.ArtifactType
				}
				m.Annotations = annotations()
			} else {
				m.MediaType = MTDockerManifest
			}
			cfg := common.Pick(r, blobs)
			m.Config = g.Nodes[cfg].Desc
			nd.Succ = append(nd.Succ, cfg)
			var foreign []int
			for _, x := range g.Nodes {
				if x.Kind == KForeign {
					foreign = append(foreign, x.ID)
				}
			}
			nl := r.Intn(4)
			m.Layers = []ocispec.Descriptor{}
			for len(o.LayerTitles) > 0 && len(nd.SuccTitles) < len(nd.Succ) {
				nd.SuccTitles = append(nd.SuccTitles, "")
			}
			layerDesc := func(l int) ocispec.Descriptor {
				d := g.Nodes[l].Desc
				if len(o.LayerTitles) > 0 {
					title := ""
					if r.Chance(1, 3) {
						title = common.Pick(r, o.LayerTitles)
						d.Annotations = map[string]string{ocispec.AnnotationTitle: title}
					}
					nd.SuccTitles = append(nd.SuccTitles, title)
				}
				return d
			}
			for i := 0; i < nl; i++ {
				var l int
				if len(foreign) > 0 && r.Chance(1, 4) {
					l = common.Pick(r, foreign)
				} else {
					l = common.Pick(r, blobs)
				}
				m.Layers = append(m.Layers, layerDesc(l))
				nd.Succ = append(nd.Succ, l)
				if r.Chance(1, 6) { // same blob twice
					m.Layers = append(m.Layers, layerDesc(l))
					nd.Succ = append(nd.Succ, l)
				}
			}
			nd.Bytes = mustJSON(m)
			nd.Desc = descOf(m.MediaType, nd.Bytes)
		case KArtifact:
			a := artifact{MediaType: MTArtifactManifest}
			a.ArtifactType = common.Pick(r, []string{"application/vnd.verif.sbom", "application/vnd.verif.sig"})
			nd.ArtifactType = a.ArtifactType
			if s := pickSubject(); s != nil {
				a.Subject = s
			}
			nb := r.Intn(3)
			for i := 0; i < nb; i++ {
				l := common.Pick(r, blobs)
				a.Blobs = append(a.Blobs, g.Nodes[l].Desc)
				nd.Succ = append(nd.Succ, l)
			}
			a.Annotations = annotations()
			nd.Bytes = mustJSON(a)
			nd.Desc = descOf(MTArtifactManifest, nd.Bytes)
		case KIndex, KDockerL:
			var ix ocispec.Index
			ix.SchemaVersion = 2
			if kind == KIndex {
				ix.MediaType = ocispec.MediaTypeImageIndex
				ix.Subject = pickSubject()
				if r.Chance(1, 4) {
					ix.ArtifactType = "application/vnd.verif.idx"
					nd.ArtifactType = ix.ArtifactType
				}
				ix.Annotations = annotations()
			} else {
				ix.MediaType = MTDockerManifestList
			}
			nm := 1 + r.Intn(3)
			ix.Manifests = []ocispec.Descriptor{}
			for i := 0; i < nm; i++ {
				m := common.Pick(r, manifests)
				d := g.Nodes[m].Desc
				if r.Chance(1, 2) {
					d.Platform = &ocispec.Platform{Architecture: common.Pick(r, []string{"amd64", "arm64"}), OS: "linux"}
				}
				ix.Manifests = append(ix.Manifests, d)
				nd.Succ = append(nd.Succ, m)
			}
			nd.Bytes = mustJSON(ix)
			nd.Desc = descOf(ix.MediaType, nd.Bytes)
		}
		dup := false
		for _, m := range g.Nodes {
			if m.Desc.Digest == nd.Desc.Digest {
				dup = true // identical bytes generated twice: draw again (twins are deliberate, above)
			}
		}
		if dup {
			continue
		}
		g.Nodes = append(g.Nodes, nd)
	}
	return g
}

type artifact struct {
	MediaType    string               `json:"mediaType"`
	ArtifactType string               `json:"artifactType"`
	Blobs        []ocispec.Descriptor `json:"blobs,omitempty"`
	Subject      *ocispec.Descriptor  `json:"subject,omitempty"`
	Annotations  map[string]string    `json:"annotations,omitempty"`
}

var _ = specs.Versioned{}

func mustJSON(v any) []byte {
	b, err := json.Marshal(v)
	if err != nil {
		panic(err)
	}
	return b
}

// Reach returns the set of node IDs reachable from root through Succ, not
// descending into (but including) nothing: foreign layers are excluded entirely.
func (g *Graph) Reach(root int) map[int]bool {
	seen := map[int]bool{}
	var rec func(int)
	rec = func(i int) {
		if seen[i] || g.Nodes[i].Foreign() {
			return
		}
		seen[i] = true
		for _, s := range g.Nodes[i].Succ {
			rec(s)
		}
	}
	rec(root)
	return seen
}

// Preds returns, for node i, the sorted IDs of nodes that list i as a successor.
func (g *Graph) Preds(i int) []int {
	var out []int
	for _, n := range g.Nodes {
		for _, s := range n.Succ {
			if s == i {
				out = append(out, n.ID)
				break
			}
		}
	}
	sort.Ints(out)
	return out
}

// Closed reports whether set is closed under Succ (foreign layers excepted).
func (g *Graph) Closed(set map[int]bool) bool {
	for i := range set {
		for _, s := range g.Nodes[i].Succ {
			if !g.Nodes[s].Foreign() && !set[s] {
				return false
			}
		}
	}
	return true
}

// RandomClosedSubset picks a random successor-closed subset of the non-foreign nodes.
func (g *Graph) RandomClosedSubset(r *common.Rand, density int) map[int]bool {
	set := map[int]bool{}
	for _, n := range g.Nodes {
		if n.Foreign() || !r.Chance(density, 100) {
			continue
		}
		for k := range g.Reach(n.ID) {
			set[k] = true
		}
	}
	return set
}

// Roots are nodes without predecessors.
func (g *Graph) Roots() []int {
	var out []int
	for _, n := range g.Nodes {
		if len(g.Preds(n.ID)) == 0 && !n.Foreign() {
			out = append(out, n.ID)
		}
	}
	return out
}

// Describe renders the graph compactly for samples / replays.
func (g *Graph) Describe() []string {
	var out []string
	for _, n := range g.Nodes {
		out = append(out, fmt.Sprintf("%d:%s%v", n.ID, n.Kind, n.Succ))
	}
	return out
}

// Encode returns a JSON-able form sufficient to rebuild the graph exactly.
type Encoded struct {
	Kind         string            `json:"kind"`
	MediaType    string            `json:"mediaType"`
	Bytes        []byte            `json:"bytes"`
	Succ         []int             `json:"succ"`
	Subject      int               `json:"subject"`
	TwinOf       int               `json:"twinOf"`
	ArtifactType string            `json:"artifactType,omitempty"`
	Annotations  map[string]string `json:"annotations,omitempty"`
}

func (g *Graph) Encode() []Encoded {
	var out []Encoded
	for _, n := range g.Nodes {
		out = append(out, Encoded{Kind: n.Kind, MediaType: n.Desc.MediaType, Bytes: n.Bytes, Succ: n.Succ,
			Subject: n.Subject, TwinOf: n.TwinOf, ArtifactType: n.ArtifactType, Annotations: n.Annotations})
	}
	return out
}

func Decode(es []Encoded) *Graph {
	g := &Graph{}
	for i, e := range es {
		g.Nodes = append(g.Nodes, &Node{ID: i, Kind: e.Kind, Desc: descOf(e.MediaType, e.Bytes), Bytes: e.Bytes,
			Succ: e.Succ, Subject: e.Subject, TwinOf: e.TwinOf, ArtifactType: e.ArtifactType, Annotations: e.Annotations})
	}
	return g
}
