// C07 harness: Predecessors is exact for every push order, after deletes, GC and reopen.
//
// Part A ("raw"): internal/graph.Memory, reached through the tagged hook package
// verifhooks, is driven with random Index / Remove / IndexAll / Predecessors /
// Exists histories over a random OCI DAG whose manifests are served by a fetcher
// that gains and loses content.  Every output is compared with the extracted Coq
// model (Model/GraphMem.v) and, independently, with the generator's ground truth.
//
// Part B ("store"): the memory, OCI-layout and file stores are driven through
// their public API only: random subset and permutation of pushes (children first,
// parents first, shuffled; sequential or concurrent), then Delete (with and
// without AutoGC), Tag, GC, re-push and reopen (oci.New, oci.NewFromFS(os.DirFS),
// oci.NewFromTar).  After every step Predecessors of every node of the universe
// (stored, deleted, never pushed, foreign) is compared with the inverse of the
// generator's edge list restricted to the parents that are stored (for OCI:
// whose blob file is on disk).  The same history, translated to graph operations,
// is also run through the Coq model.
//
// Case line for the model: "<nuniv> <content-table> <ops> <origin>".
package main

import (
	"archive/tar"
	"bytes"
	"context"
	_ "crypto/sha256"
	_ "crypto/sha512"
	"encoding/json"
	"errors"
	"fmt"
	"io"
	"os"
	"os/exec"
	"path/filepath"
	"sort"
	"strconv"
	"strings"
	"sync"
	"sync/atomic"
	"time"

	"github.com/opencontainers/go-digest"
	ocispec "github.com/opencontainers/image-spec/specs-go/v1"
	"oras.land/oras-go/v2/content"
	"oras.land/oras-go/v2/content/file"
	"oras.land/oras-go/v2/content/memory"
	"oras.land/oras-go/v2/content/oci"
	"oras.land/oras-go/v2/errdef"
	"oras.land/oras-go/v2/verifhooks"
	"verifharness/common"
	"verifharness/dag"
)

var run *common.Run
var ctx = context.Background()

// f1Present: the unchanged tree hangs in Store.GC (defect F1, property C09) when an
// untagged manifest's subject is not in the rebuilt graph.  Probed at start-up in a
// child process; when present, GC is only issued on histories that cannot trigger it.
var f1Present = true

type key struct {
	mt   string
	dg   string
	size int64
}

func keyOf(d ocispec.Descriptor) key { return key{d.MediaType, string(d.Digest), d.Size} }

type universe struct {
	g   *dag.Graph
	ids map[key]int
}

func newUniverse(g *dag.Graph) *universe {
	u := &universe{g: g, ids: map[key]int{}}
	for _, n := range g.Nodes {
		u.ids[keyOf(n.Desc)] = n.ID
	}
	return u
}

// ctString renders the ordered successor table for the model.
func (u *universe) ctString() string {
	var sb strings.Builder
	for i, n := range u.g.Nodes {
		if i > 0 {
			sb.WriteByte(';')
		}
		sb.WriteString(strconv.Itoa(n.ID))
		sb.WriteByte(':')
		for j, s := range n.Succ {
			if j > 0 {
				sb.WriteByte(',')
			}
			sb.WriteString(strconv.Itoa(s))
		}
	}
	return sb.String()
}

// showDescs: sorted ids, "?" for descriptors that are not a key of the universe
// (e.g. the zero descriptor of a missing m.nodes entry), duplicates kept.
func (u *universe) showDescs(ds []ocispec.Descriptor) (string, []int, int) {
	var ids []int
	unknown := 0
	for _, d := range ds {
		if id, ok := u.ids[keyOf(d)]; ok {
			ids = append(ids, id)
		} else {
			unknown++
		}
	}
	sort.Ints(ids)
	parts := make([]string, 0, len(ds))
	for _, i := range ids {
		parts = append(parts, strconv.Itoa(i))
	}
	for i := 0; i < unknown; i++ {
		parts = append(parts, "?")
	}
	return strings.Join(parts, ","), ids, unknown
}

func showInts(xs []int) string {
	ys := append([]int(nil), xs...)
	sort.Ints(ys)
	parts := make([]string, len(ys))
	for i, y := range ys {
		parts[i] = strconv.Itoa(y)
	}
	return strings.Join(parts, ",")
}

// expectedPreds: the property's right-hand side from the generator's ground truth.
func (u *universe) expectedPreds(stored map[int]bool, n int) []int {
	var out []int
	for _, p := range u.g.Nodes {
		if !stored[p.ID] {
			continue
		}
		for _, s := range p.Succ {
			if s == n {
				out = append(out, p.ID)
				break
			}
		}
	}
	sort.Ints(out)
	return out
}

// judgePreds compares one Predecessors answer with the ground truth.
// Returns "" or the failing clause.
func judgePreds(got []int, unknown int, want []int) (string, string) {
	if unknown > 0 {
		return "pred-unknown", fmt.Sprintf("%d returned descriptors are not descriptors of any pushed content (zero descriptor?)", unknown)
	}
	for i := 1; i < len(got); i++ {
		if got[i] == got[i-1] {
			return "pred-dup", fmt.Sprintf("node %d returned twice", got[i])
		}
	}
	ws := map[int]bool{}
	for _, w := range want {
		ws[w] = true
	}
	gs := map[int]bool{}
	for _, g := range got {
		gs[g] = true
		if !ws[g] {
			return "pred-extra", fmt.Sprintf("node %d returned but is not a stored parent", g)
		}
	}
	for _, w := range want {
		if !gs[w] {
			return "pred-missing", fmt.Sprintf("stored parent %d omitted", w)
		}
	}
	return "", ""
}

// ------------------------------------------------------------------ part A

// mapFetcher serves the bytes of the nodes in have.
type mapFetcher struct {
	u    *universe
	have map[int]bool
}

func (f *mapFetcher) Fetch(_ context.Context, d ocispec.Descriptor) (io.ReadCloser, error) {
	id, ok := f.u.ids[keyOf(d)]
	if !ok || !f.have[id] {
		return nil, fmt.Errorf("%s: %w", d.Digest, errdef.ErrNotFound)
	}
	return io.NopCloser(bytes.NewReader(f.u.g.Nodes[id].Bytes)), nil
}

type rawReplay struct {
	Kind  string        `json:"kind"`
	Graph []dag.Encoded `json:"graph"`
	Ops   string        `json:"ops"`
}

// genRawOps draws a random graph.Memory history.
func genRawOps(r *common.Rand, g *dag.Graph, n int) []string {
	var ops []string
	var manifests []int
	for _, nd := range g.Nodes {
		if nd.IsManifest() {
			manifests = append(manifests, nd.ID)
		}
	}
	// most manifests fetchable at the beginning, some never
	for _, m := range manifests {
		if r.Chance(4, 5) {
			ops = append(ops, fmt.Sprintf("+%d", m))
		}
	}
	any := func() int { return r.Intn(len(g.Nodes)) }
	for i := 0; i < n; i++ {
		x := r.Intn(100)
		switch {
		case x < 4:
			// a block of Index calls issued from several goroutines
			k := 2 + r.Intn(3)
			groups := make([]string, k)
			for j := 0; j < 3+r.Intn(6); j++ {
				w := r.Intn(k)
				if groups[w] != "" {
					groups[w] += "."
				}
				groups[w] += strconv.Itoa(any())
			}
			ops = append(ops, "C"+strings.Join(groups, "|"))
		case x < 7 && len(g.Nodes) >= 4:
			// Index, Remove and Predecessors calls on pairwise distinct nodes from as many goroutines:
			// the final graph does not depend on the interleaving (the danglings and the concurrent
			// answers do: not compared)
			perm := make([]int, len(g.Nodes))
			for j := range perm {
				perm[j] = j
			}
			common.Shuffle(r, perm)
			k := 3 + r.Intn(len(perm)-2)
			var items []string
			for j, nd := range perm[:k] {
				switch (j + r.Intn(2)) % 3 {
				case 0:
					items = append(items, fmt.Sprintf("i%d", nd))
				case 1:
					items = append(items, fmt.Sprintf("r%d", nd))
				default:
					items = append(items, fmt.Sprintf("q%d", nd))
				}
			}
			ops = append(ops, "M"+strings.Join(items, "|"))
		case x < 32:
			ops = append(ops, fmt.Sprintf("I%d", any()))
		case x < 48:
			ops = append(ops, fmt.Sprintf("R%d", any()))
		case x < 58:
			ops = append(ops, fmt.Sprintf("A%d", any()))
		case x < 78:
			ops = append(ops, fmt.Sprintf("Q%d", any()))
		case x < 84:
			ops = append(ops, fmt.Sprintf("E%d", any()))
		case x < 97:
			if len(manifests) > 0 {
				m := common.Pick(r, manifests)
				if r.Bool() {
					ops = append(ops, fmt.Sprintf("+%d", m))
				} else {
					ops = append(ops, fmt.Sprintf("-%d", m))
				}
			}
		default:
			ops = append(ops, "Z")
		}
	}
	// final sweep
	for _, nd := range g.Nodes {
		ops = append(ops, fmt.Sprintf("Q%d", nd.ID), fmt.Sprintf("E%d", nd.ID))
	}
	return ops
}

// runRaw executes a history on the real graph.Memory, records the observable for the
// correspondence and judges every answer against the ground truth.
func runRaw(g *dag.Graph, ops []string, origin string) {
	u := newUniverse(g)
	id := run.NewID()
	rep := rawReplay{Kind: "raw", Graph: g.Encode(), Ops: strings.Join(ops, ",")}
	mem := verifhooks.NewGraphMemory()
	have := map[int]bool{}
	for _, n := range g.Nodes {
		if !n.IsManifest() {
			have[n.ID] = true // irrelevant for Successors (no fetch), kept for symmetry with the model's "+"
		}
	}
	f := &mapFetcher{u: u, have: have}
	present := map[int]bool{} // ground truth: nodes in the graph
	sok := func(i int) bool { return !g.Nodes[i].IsManifest() || have[i] }
	var toks []string
	failed := false
	fail := func(sig, msg string) {
		if !failed {
			failed = true
			run.OracleFail(id, sig, "graph.Memory: "+msg+" graph="+strings.Join(g.Describe(), " ")+" ops="+rep.Ops, rep)
		}
	}
	nontrivial := false
	for _, o := range ops {
		arg := 0
		if len(o) > 1 {
			arg, _ = strconv.Atoi(o[1:])
		}
		if o != "Z" && o[0] != 'C' && o[0] != 'M' && (arg < 0 || arg >= len(g.Nodes)) {
			continue
		}
		switch o[0] {
		case 'M':
			items := strings.Split(o[1:], "|")
			errs := make([]error, len(items))
			answers := make([][]ocispec.Descriptor, len(items))
			mayBe := map[int]bool{} // present before the block or indexed inside it
			for i := range present {
				mayBe[i] = true
			}
			for _, it := range items {
				if i, cerr := strconv.Atoi(it[1:]); cerr == nil && it[0] == 'i' && i >= 0 && i < len(g.Nodes) {
					mayBe[i] = true
				}
			}
			var wg sync.WaitGroup
			start := make(chan struct{})
			for k, it := range items {
				i, cerr := strconv.Atoi(it[1:])
				if cerr != nil || i < 0 || i >= len(g.Nodes) {
					continue
				}
				wg.Add(1)
				go func(k int, kind byte, i int) {
					defer wg.Done()
					<-start
					switch kind {
					case 'i':
						errs[k] = mem.Index(ctx, f, g.Nodes[i].Desc)
					case 'r':
						mem.Remove(g.Nodes[i].Desc)
					case 'q':
						answers[k], _ = mem.Predecessors(ctx, g.Nodes[i].Desc)
					}
				}(k, it[0], i)
			}
			close(start)
			wg.Wait()
			for k, it := range items {
				i, cerr := strconv.Atoi(it[1:])
				if cerr != nil || i < 0 || i >= len(g.Nodes) {
					continue
				}
				switch it[0] {
				case 'i':
					switch {
					case errs[k] == nil && sok(i):
						toks = append(toks, "ok")
						present[i] = true
					case errors.Is(errs[k], errdef.ErrNotFound) && !sok(i):
						toks = append(toks, "nf")
					default:
						toks = append(toks, "err")
						fail("index-error", fmt.Sprintf("concurrent Index(%d): %v (fetchable=%v)", i, errs[k], sok(i)))
					}
				case 'r':
					delete(present, i)
				case 'q':
					// an answer given while other operations run: never a node that does not reference
					// the queried one or that was neither present nor being indexed, never twice
					_, ids, unk := u.showDescs(answers[k])
					seen := map[int]bool{}
					for _, p := range ids {
						refs := false
						for _, sc := range g.Nodes[p].Succ {
							if sc == i {
								refs = true
							}
						}
						if !refs || !mayBe[p] || seen[p] {
							fail("pred-anytime-extra", fmt.Sprintf("concurrent Predecessors(%d) returned %v", i, ids))
						}
						seen[p] = true
					}
					if unk > 0 {
						fail("pred-anytime-extra", fmt.Sprintf("concurrent Predecessors(%d) returned %d unknown descriptors", i, unk))
					}
				}
			}
			run.Count("raw-concurrent-mixed-block")
		case 'C':
			groups := parseGroups(o[1:], len(g.Nodes))
			res := make([][]error, len(groups))
			var wg sync.WaitGroup
			for gi, grp := range groups {
				res[gi] = make([]error, len(grp))
				wg.Add(1)
				go func(gi int, grp []int) {
					defer wg.Done()
					for k, i := range grp {
						res[gi][k] = mem.Index(ctx, f, g.Nodes[i].Desc)
					}
				}(gi, grp)
			}
			wg.Wait()
			for gi, grp := range groups {
				for k, i := range grp {
					err := res[gi][k]
					switch {
					case err == nil && sok(i):
						toks = append(toks, "ok")
						present[i] = true
					case errors.Is(err, errdef.ErrNotFound) && !sok(i):
						toks = append(toks, "nf")
					default:
						toks = append(toks, "err")
						fail("index-error", fmt.Sprintf("concurrent Index(%d): %v (fetchable=%v)", i, err, sok(i)))
					}
				}
			}
			run.Count("raw-concurrent-index-block")
		case '+':
			have[arg] = true
		case '-':
			if g.Nodes[arg].IsManifest() {
				delete(have, arg)
			}
		case 'Z':
			mem = verifhooks.NewGraphMemory()
			present = map[int]bool{}
		case 'I':
			err := mem.Index(ctx, f, g.Nodes[arg].Desc)
			switch {
			case err == nil:
				toks = append(toks, "ok")
				present[arg] = true
				if !sok(arg) {
					fail("index-ok-without-content", fmt.Sprintf("Index(%d) succeeded although the content is not fetchable", arg))
				}
			case errors.Is(err, errdef.ErrNotFound):
				toks = append(toks, "nf")
				if sok(arg) {
					fail("index-notfound", fmt.Sprintf("Index(%d) failed with not found although the content is fetchable", arg))
				}
			default:
				toks = append(toks, "err")
				fail("index-error", fmt.Sprintf("Index(%d): %v", arg, err))
			}
		case 'R', 'D':
			// ground truth danglings: present successors of a present node whose only present parent is the node
			var want []int
			if present[arg] {
				seen := map[int]bool{}
				for _, s := range g.Nodes[arg].Succ {
					if seen[s] || !present[s] {
						continue
					}
					seen[s] = true
					ps := u.expectedPreds(present, s)
					if len(ps) == 1 && ps[0] == arg {
						want = append(want, s)
					}
				}
			}
			d := mem.Remove(g.Nodes[arg].Desc)
			s, ids, unk := u.showDescs(d)
			if o[0] == 'R' {
				toks = append(toks, "d:"+s)
			}
			if unk > 0 || showInts(ids) != showInts(want) {
				fail("danglings", fmt.Sprintf("Remove(%d) returned danglings [%s], expected [%s]", arg, s, showInts(want)))
			}
			if len(d) > 0 {
				nontrivial = true
			}
			delete(present, arg)
		case 'A':
			err := mem.IndexAll(ctx, f, g.Nodes[arg].Desc)
			if err != nil {
				toks = append(toks, "err")
				fail("indexall-error", fmt.Sprintf("IndexAll(%d): %v", arg, err))
			} else {
				toks = append(toks, "ok")
			}
			// ground truth: everything reachable through fetchable nodes
			var rec func(int)
			seen := map[int]bool{}
			rec = func(i int) {
				if seen[i] {
					return
				}
				seen[i] = true
				if !sok(i) {
					return
				}
				present[i] = true
				for _, s := range g.Nodes[i].Succ {
					rec(s)
				}
			}
			rec(arg)
		case 'Q':
			ds, err := mem.Predecessors(ctx, g.Nodes[arg].Desc)
			if err != nil {
				toks = append(toks, "err")
				fail("pred-error", fmt.Sprintf("Predecessors(%d): %v", arg, err))
				continue
			}
			s, ids, unk := u.showDescs(ds)
			toks = append(toks, "p:"+s)
			if sig, msg := judgePreds(ids, unk, u.expectedPreds(present, arg)); sig != "" {
				fail(sig, fmt.Sprintf("Predecessors(%d) = [%s], expected %v: %s", arg, s, u.expectedPreds(present, arg), msg))
			}
			if len(ids) > 0 && !present[arg] {
				nontrivial = true
			}
		case 'E':
			e := mem.Exists(g.Nodes[arg].Desc)
			if e {
				toks = append(toks, "t")
			} else {
				toks = append(toks, "f")
			}
			if e != present[arg] {
				fail("exists", fmt.Sprintf("Exists(%d) = %v, expected %v", arg, e, present[arg]))
			}
		}
	}
	// model "+" for blobs: Successors never fails for them
	var pre []string
	for _, n := range g.Nodes {
		if !n.IsManifest() {
			pre = append(pre, fmt.Sprintf("+%d", n.ID))
		}
	}
	mops := append(pre, filterModelOps(g, ops)...)
	run.Case(id, fmt.Sprintf("%d %s %s %s", len(g.Nodes), u.ctString(), strings.Join(mops, ","), origin), strings.Join(toks, " "))
	run.Count("raw")
	run.Count(fmt.Sprintf("raw-nodes-%02d", len(g.Nodes)/4*4))
	if nontrivial {
		run.Nontrivial("raw " + u.ctString() + " " + rep.Ops)
	}
	if nontrivial && len(g.Nodes) >= 5 && len(run.Samples) < 2 {
		run.Sample(map[string]any{"part": "raw", "graph": g.Describe(), "ops": rep.Ops, "observed": strings.Join(toks, " ")})
	}
}

func parseGroups(s string, n int) [][]int {
	var out [][]int
	for _, g := range strings.Split(s, "|") {
		var grp []int
		for _, p := range strings.Split(g, ".") {
			if v, err := strconv.Atoi(p); err == nil && v >= 0 && v < n {
				grp = append(grp, v)
			}
		}
		out = append(out, grp)
	}
	return out
}

// filterModelOps drops "-b" for blobs (the fetcher state of a non-manifest is unobservable).
func filterModelOps(g *dag.Graph, ops []string) []string {
	var out []string
	for _, o := range ops {
		if o == "Z" {
			out = append(out, o)
			continue
		}
		if o[0] == 'M' {
			// operations on pairwise distinct nodes commute: the model runs them in the listed order
			for _, it := range strings.Split(o[1:], "|") {
				i, err := strconv.Atoi(it[1:])
				if err != nil || i < 0 || i >= len(g.Nodes) {
					continue
				}
				switch it[0] {
				case 'i':
					out = append(out, fmt.Sprintf("I%d", i))
				case 'r':
					out = append(out, fmt.Sprintf("D%d", i))
				}
			}
			continue
		}
		if o[0] == 'C' {
			// any interleaving of atomic index() calls: the model runs them in the listed order
			for _, grp := range parseGroups(o[1:], len(g.Nodes)) {
				for _, i := range grp {
					out = append(out, fmt.Sprintf("I%d", i))
				}
			}
			continue
		}
		arg, err := strconv.Atoi(o[1:])
		if err != nil || arg < 0 || arg >= len(g.Nodes) {
			continue
		}
		if o[0] == '-' && !g.Nodes[arg].IsManifest() {
			continue
		}
		out = append(out, o)
	}
	return out
}

// ------------------------------------------------------------------ part B

type storeReplay struct {
	Kind   string        `json:"kind"`
	Store  string        `json:"store"`
	AutoGC bool          `json:"autogc"`
	Graph  []dag.Encoded `json:"graph"`
	Script []string      `json:"script"`
}

type target interface {
	content.Storage
	content.PredecessorFinder
}

type xstore struct {
	u      *universe
	kind   string // memory | oci | file
	autoGC bool
	root   string
	st     content.ReadOnlyGraphStorage
	push   content.Pusher
	ociSt  *oci.Store
	fileSt *file.Store
	names  map[int]string // file store: title annotation
	stored map[int]bool
	tags   map[string]int
	script []string
	mops   []string
	toks   []string
	id     string
	failed bool
	sawGC, sawDelete, sawReopen, sawCascade bool
	gcHung bool
	origin string
	autoSaveOff bool // Store.AutoSaveIndex was set to false on the current store
	nameIDs     map[string]int
	// store-level model (Model/GraphStore.v): operations and observations
	sops, stoks, lastSweep []string
}

func (e *xstore) replay() storeReplay {
	return storeReplay{Kind: "store", Store: e.kind, AutoGC: e.autoGC, Graph: e.u.g.Encode(), Script: e.script}
}

func (e *xstore) fail(sig, msg string) {
	if e.failed {
		return
	}
	e.failed = true
	run.OracleFail(e.id, sig, fmt.Sprintf("%s store (autogc=%v): %s graph=%s script=%s", e.kind, e.autoGC, msg,
		strings.Join(e.u.g.Describe(), " "), strings.Join(e.script, " ")), e.replay())
}

func (e *xstore) desc(i int) ocispec.Descriptor {
	d := e.u.g.Nodes[i].Desc
	if nm, ok := e.names[i]; ok {
		d.Annotations = map[string]string{ocispec.AnnotationTitle: nm}
	}
	return d
}

func (e *xstore) blobPath(i int) string {
	dg := e.u.g.Nodes[i].Desc.Digest
	return filepath.Join(e.root, "blobs", dg.Algorithm().String(), dg.Encoded())
}

// refreshStored: for the OCI store the stored set is what is on disk.
func (e *xstore) refreshStored() (vanished []int) {
	if e.kind != "oci" {
		return nil
	}
	for _, n := range e.u.g.Nodes {
		_, err := os.Stat(e.blobPath(n.ID))
		on := err == nil
		if e.stored[n.ID] && !on {
			vanished = append(vanished, n.ID)
			delete(e.stored, n.ID)
		} else if !e.stored[n.ID] && on {
			e.stored[n.ID] = true
		}
	}
	for t, i := range e.tags {
		if !e.stored[i] {
			delete(e.tags, t)
		}
	}
	return vanished
}

// sweep queries every node and judges the answers.
// blockWatch queries Predecessors WHILE a concurrent block runs (theorem
// C07_concurrent_anytime): at every moment every answer must consist of stored-or-being-pushed
// nodes that do reference the queried node, without duplicates; and it must contain every
// referencing node that was stored before the block or whose Push had already returned when
// the query started (unless the block deletes).
type blockWatch struct {
	e         *xstore
	pre       map[int]bool
	inBlock   map[int]bool
	done      []atomic.Bool
	noMissing bool
	stop      chan struct{}
	fin       chan struct{}
	queries   int
	bad       string
	badSig    string
}

func (e *xstore) watchBlock(pushIDs []int, hasDelete bool) *blockWatch {
	w := &blockWatch{e: e, pre: map[int]bool{}, inBlock: map[int]bool{}, done: make([]atomic.Bool, len(e.u.g.Nodes)),
		noMissing: hasDelete, stop: make(chan struct{}), fin: make(chan struct{})}
	for i, ok := range e.stored {
		if ok {
			w.pre[i] = true
		}
	}
	for _, i := range pushIDs {
		w.inBlock[i] = true
	}
	st := e.st
	go func() {
		defer close(w.fin)
		g := e.u.g
		for k := 0; ; k++ {
			select {
			case <-w.stop:
				return
			default:
			}
			n := g.Nodes[k%len(g.Nodes)]
			var completed []int
			for i := range w.done {
				if w.done[i].Load() {
					completed = append(completed, i)
				}
			}
			ds, err := st.Predecessors(ctx, n.Desc)
			w.queries++
			if err != nil || w.bad != "" {
				continue
			}
			_, ids, unk := e.u.showDescs(ds)
			if unk > 0 {
				w.bad, w.badSig = fmt.Sprintf("Predecessors(%d) during the block returned %d unknown descriptors", n.ID, unk), "pred-anytime-extra"
				continue
			}
			got := map[int]bool{}
			for _, p := range ids {
				refs := false
				for _, s := range g.Nodes[p].Succ {
					if s == n.ID {
						refs = true
					}
				}
				switch {
				case got[p]:
					w.bad, w.badSig = fmt.Sprintf("Predecessors(%d) during the block returned %d twice", n.ID, p), "pred-anytime-dup"
				case !refs || !(w.pre[p] || w.inBlock[p]):
					w.bad, w.badSig = fmt.Sprintf("Predecessors(%d) during the block returned %d, which does not reference it or was never pushed", n.ID, p), "pred-anytime-extra"
				}
				got[p] = true
			}
			if w.noMissing {
				continue
			}
			must := func(p int, why string) {
				for _, s := range g.Nodes[p].Succ {
					if s == n.ID && !got[p] && w.bad == "" {
						w.bad, w.badSig = fmt.Sprintf("Predecessors(%d) during the block omitted %d (%s)", n.ID, p, why), "pred-anytime-missing"
					}
				}
			}
			for p := range w.pre {
				must(p, "stored before the block")
			}
			for _, p := range completed {
				must(p, "its Push had returned before the query started")
			}
		}
	}()
	return w
}

func (w *blockWatch) pushed(i int) { w.done[i].Store(true) }

func (w *blockWatch) finish() {
	close(w.stop)
	<-w.fin
	run.Count("anytime-blocks")
	if w.queries > 0 {
		run.Count("anytime-blocks-with-queries")
	}
	if w.bad != "" {
		w.e.fail(w.badSig, w.bad)
	}
}

// storeObs: the observation compared with the store-level model after a sweep:
// the stored set and every Predecessors answer.
func (e *xstore) storeObs() []string {
	var ids []int
	for i, ok := range e.stored {
		if ok {
			ids = append(ids, i)
		}
	}
	out := []string{"b:" + showInts(ids)}
	if e.kind == "oci" {
		// the index.json on disk right now: which contents it lists, which of them under a name
		listed, named, err := e.indexEntries()
		if err != nil {
			out = append(out, "i:err", "t:err")
		} else {
			out = append(out, "i:"+showInts(listed), "t:"+showInts(named))
		}
	}
	return append(out, e.lastSweep...)
}

// sMarker: the observe operation of the store-level model: "S" also compares index.json.
func (e *xstore) sMarker() string {
	if e.kind == "oci" {
		return "S"
	}
	return "s"
}

// indexEntries reads index.json with the harness's own decoder: distinct listed node ids and
// the ones listed with a ref.name annotation.
func (e *xstore) indexEntries() (listed, named []int, err error) {
	data, err := os.ReadFile(filepath.Join(e.root, "index.json"))
	if err != nil {
		return nil, nil, err
	}
	var ix struct {
		Manifests []ocispec.Descriptor `json:"manifests"`
	}
	if err := json.Unmarshal(data, &ix); err != nil {
		return nil, nil, err
	}
	l, n := map[int]bool{}, map[int]bool{}
	for _, d := range ix.Manifests {
		id, ok := e.u.ids[keyOf(d)]
		if !ok {
			return nil, nil, fmt.Errorf("index.json names unknown content %s", d.Digest)
		}
		l[id] = true
		if d.Annotations[ocispec.AnnotationRefName] != "" {
			n[id] = true
		}
	}
	for i := range l {
		listed = append(listed, i)
	}
	for i := range n {
		named = append(named, i)
	}
	return listed, named, nil
}

func (e *xstore) sweep(st content.PredecessorFinder, exister content.ReadOnlyStorage, what string, mops *[]string, toks *[]string) {
	e.lastSweep = nil
	for _, n := range e.u.g.Nodes {
		ds, err := st.Predecessors(ctx, n.Desc)
		*mops = append(*mops, fmt.Sprintf("Q%d", n.ID))
		if err != nil {
			*toks = append(*toks, "err")
			e.lastSweep = append(e.lastSweep, "err")
			e.fail("pred-error", fmt.Sprintf("%s: Predecessors(%d): %v", what, n.ID, err))
			continue
		}
		s, ids, unk := e.u.showDescs(ds)
		*toks = append(*toks, "p:"+s)
		e.lastSweep = append(e.lastSweep, "p:"+s)
		want := e.u.expectedPreds(e.stored, n.ID)
		if sig, msg := judgePreds(ids, unk, want); sig != "" {
			e.fail(sig, fmt.Sprintf("%s: Predecessors(%d) = [%s], expected %v: %s", what, n.ID, s, want, msg))
		}
		if len(ids) > 0 && !e.stored[n.ID] {
			run.Count("query-absent-node-with-preds")
		}
	}
	// the store's own Exists must agree with the harness's stored set (sanity of the ground truth)
	for _, n := range e.u.g.Nodes {
		ok, err := exister.Exists(ctx, e.desc(n.ID))
		if err == nil && ok != e.stored[n.ID] {
			e.fail("stored-set", fmt.Sprintf("%s: Exists(%d) = %v but the harness believes stored=%v", what, n.ID, ok, e.stored[n.ID]))
		}
	}
}

func (e *xstore) open() error {
	e.stored = map[int]bool{}
	e.tags = map[string]int{}
	e.names = map[int]string{}
	switch e.kind {
	case "memory":
		m := memory.New()
		e.st, e.push = m, m
	case "file":
		dir, err := os.MkdirTemp("", "c07file")
		if err != nil {
			return err
		}
		e.root = dir
		f, err := file.New(dir)
		if err != nil {
			return err
		}
		e.fileSt = f
		e.st, e.push = f, f
	case "oci":
		dir, err := os.MkdirTemp("", "c07oci")
		if err != nil {
			return err
		}
		e.root = dir
		s, err := oci.New(dir)
		if err != nil {
			return err
		}
		s.AutoGC = e.autoGC
		e.ociSt = s
		e.st, e.push = s, s
	}
	return nil
}

func (e *xstore) close() {
	if e.fileSt != nil {
		e.fileSt.Close()
	}
	if e.root != "" {
		os.RemoveAll(e.root)
	}
}

func (e *xstore) pushOne(i int) error {
	n := e.u.g.Nodes[i]
	return e.push.Push(ctx, e.desc(i), bytes.NewReader(n.Bytes))
}

func parseInts(s string) []int {
	var out []int
	for _, p := range strings.Split(s, ",") {
		if p == "" {
			continue
		}
		v, err := strconv.Atoi(p)
		if err == nil {
			out = append(out, v)
		}
	}
	return out
}

func (e *xstore) valid(i int) bool { return i >= 0 && i < len(e.u.g.Nodes) }

// closure: nodes an IndexAll from the roots puts into a fresh graph (ground truth).
func (e *xstore) closure(roots []int) map[int]bool {
	seen := map[int]bool{}
	in := map[int]bool{}
	var rec func(int)
	rec = func(i int) {
		if seen[i] {
			return
		}
		seen[i] = true
		if e.u.g.Nodes[i].IsManifest() && !e.stored[i] {
			return
		}
		in[i] = true
		for _, s := range e.u.g.Nodes[i].Succ {
			rec(s)
		}
	}
	for _, r := range roots {
		rec(r)
	}
	return in
}

// nameID numbers the tag names of a case for the model.
func (e *xstore) nameID(nm string) int {
	if e.nameIDs == nil {
		e.nameIDs = map[string]int{}
	}
	if id, ok := e.nameIDs[nm]; ok {
		return id
	}
	e.nameIDs[nm] = len(e.nameIDs)
	return e.nameIDs[nm]
}

func (e *xstore) hasName(i int) bool {
	for _, j := range e.tags {
		if j == i {
			return true
		}
	}
	return false
}

func (e *xstore) taggedRoots() []int {
	set := map[int]bool{}
	for _, i := range e.tags {
		set[i] = true
	}
	var out []int
	for i := range set {
		out = append(out, i)
	}
	sort.Ints(out)
	return out
}

// gcPlan decides whether GC can be judged on the current state and which roots
// gcIndex keeps.  safe=false: the outcome depends on Go's map order or triggers F1.
func (e *xstore) gcPlan() (roots []int, safe bool) {
	if !f1Present {
		// GC always returns; the model is fed the observed survivors, so any outcome can be judged
		return nil, true
	}
	tagged := e.taggedRoots()
	base := e.closure(tagged)
	isTagged := map[int]bool{}
	for _, t := range tagged {
		isTagged[t] = true
	}
	var cand []int // untagged stored manifests with a subject
	for _, n := range e.u.g.Nodes {
		if n.IsManifest() && e.stored[n.ID] && !isTagged[n.ID] && n.Subject >= 0 && subjectVisible(n) {
			cand = append(cand, n.ID)
		}
	}
	all := e.closure(append(append([]int(nil), tagged...), cand...))
	roots = append(roots, tagged...)
	for _, c := range cand {
		s := e.u.g.Nodes[c].Subject
		if base[s] {
			roots = append(roots, c)
			continue
		}
		if f1Present {
			return nil, false
		}
		// repaired subject walk: safe only if the chain never meets anything that may be indexed
		cur := c
		for {
			n := e.u.g.Nodes[cur]
			if !(n.IsManifest() && e.stored[cur] && n.Subject >= 0 && subjectVisible(n)) {
				break
			}
			if all[n.Subject] {
				return nil, false
			}
			cur = n.Subject
		}
	}
	return roots, true
}

// subjectVisible: manifestutil.Subject reads the subject of OCI image manifests,
// OCI indexes and artifact manifests only.
func subjectVisible(n *dag.Node) bool {
	return n.Kind == dag.KImage || n.Kind == dag.KIndex || n.Kind == dag.KArtifact
}

func (e *xstore) do(op string) {
	e.script = append(e.script, op)
	name, arg, _ := strings.Cut(op, ":")
	switch name {
	case "push", "cpush":
		var groups [][]int
		for _, g := range strings.Split(arg, "|") {
			var ok []int
			for _, i := range parseInts(g) {
				if e.valid(i) && !e.u.g.Nodes[i].Foreign() {
					ok = append(ok, i)
				}
			}
			groups = append(groups, ok)
		}
		errs := map[int]error{}
		var mu sync.Mutex
		var wg sync.WaitGroup
		start := make(chan struct{})
		if name != "cpush" {
			close(start)
		}
		var watch *blockWatch
		if name == "cpush" {
			var all []int
			for _, g := range groups {
				all = append(all, g...)
			}
			watch = e.watchBlock(all, false)
		}
		for _, g := range groups {
			wg.Add(1)
			work := func(g []int) {
				defer wg.Done()
				<-start // all goroutines of a concurrent block start together
				for _, i := range g {
					err := e.pushOne(i)
					if watch != nil && (err == nil || errors.Is(err, errdef.ErrAlreadyExists)) && e.kind != "file" {
						watch.pushed(i)
					}
					mu.Lock()
					errs[i] = err
					mu.Unlock()
				}
			}
			if name == "cpush" {
				go work(g)
			} else {
				work(g)
			}
		}
		if name == "cpush" {
			close(start)
		}
		wg.Wait()
		if watch != nil {
			watch.finish()
		}
		for _, g := range groups {
			for _, i := range g {
				err := errs[i]
				if e.kind == "file" {
					// The file store can refuse a Push after having stored the content (restoring a
					// duplicate under an unwritable name, ...) and can accept one without storing
					// (IgnoreNoName): what is stored is asked from Exists; the outcome of Push itself
					// is not judged here (C06/C11/C12), Predecessors against the stored set is.
					ex, xerr := e.fileSt.Exists(ctx, e.desc(i))
					switch {
					case err == nil && ex:
					case err == nil:
						run.Count("file-push-ok-not-stored")
					case errors.Is(err, errdef.ErrAlreadyExists):
						run.Count("file-push-already-exists")
					case ex:
						run.Count("file-push-error-but-stored")
					default:
						run.Count("file-push-error-not-stored")
					}
					if xerr == nil && ex && !e.stored[i] {
						e.stored[i] = true
						e.mops = append(e.mops, fmt.Sprintf("+%d", i), fmt.Sprintf("I%d", i))
						e.toks = append(e.toks, "ok")
						e.sops = append(e.sops, fmt.Sprintf("P%d", i))
					}
					continue
				}
				switch {
				case err == nil:
					if e.stored[i] {
						e.fail("push-twice", fmt.Sprintf("Push(%d) succeeded although the content was stored", i))
					}
					e.stored[i] = true
					e.mops = append(e.mops, fmt.Sprintf("+%d", i), fmt.Sprintf("I%d", i))
					e.toks = append(e.toks, "ok")
					e.sops = append(e.sops, fmt.Sprintf("P%d", i))
				case errors.Is(err, errdef.ErrAlreadyExists) && e.stored[i]:
					// refused: no change
				default:
					e.fail("push-error", fmt.Sprintf("Push(%d): %v", i, err))
				}
			}
		}
	case "badpush":
		// a manifest media type with bytes that do not decode: Push must fail and leave nothing
		// behind (storage.Push, graph.Index fails, the blob is removed again)
		i, err := strconv.Atoi(arg)
		if e.ociSt == nil || err != nil || !e.valid(i) {
			return
		}
		perr := e.pushOne(i)
		if perr == nil {
			run.Count("bad-manifest-push-accepted-not-judged")
		} else {
			run.Count("bad-manifest-push-refused")
		}
		e.refreshStored()
		e.sops = append(e.sops, fmt.Sprintf("K%d", i))
	case "alg":
		// the node is addressed by another digest algorithm (its descriptor, as embedded in the
		// manifests that reference it, was built with it)
		a, alg, _ := strings.Cut(arg, ":")
		i, err := strconv.Atoi(a)
		if err != nil || !e.valid(i) || !digest.Algorithm(alg).Available() {
			return
		}
		e.u.g.Nodes[i].Desc.Digest = digest.Algorithm(alg).FromBytes(e.u.g.Nodes[i].Bytes)
		e.u = newUniverse(e.u.g)
		return
	case "autosave":
		if e.ociSt == nil {
			return
		}
		e.ociSt.AutoSaveIndex = arg == "on"
		wasOff := e.autoSaveOff
		e.autoSaveOff = arg != "on"
		if e.autoSaveOff {
			e.sops = append(e.sops, "Y0")
		} else {
			e.sops = append(e.sops, "Y1")
		}
		run.Count("autosave-" + arg)
		if wasOff && !e.autoSaveOff {
			// switching the flag back on does not write the index: the caller saves what
			// accumulated while it was off
			e.do("saveindex")
		}
		return
	case "saveindex":
		if e.ociSt == nil {
			return
		}
		if err := e.ociSt.SaveIndex(); err != nil {
			e.fail("saveindex-error", fmt.Sprintf("SaveIndex: %v", err))
		}
		e.sops = append(e.sops, "W")
		run.Count("saveindex")
		return
	case "foreign":
		if e.ociSt != nil && e.autoSaveOff {
			// the layout is closed properly before somebody else rewrites its index; the store that
			// opens it afterwards starts with AutoSaveIndex on
			e.do("saveindex")
			e.autoSaveOff = false
			e.sops = append(e.sops, "Y1")
		}
		// index.json rewritten the way other tools write a layout (and the way oras-go left it
		// after GC before 34cefcb): only the tagged manifests and the manifests without a stored
		// parent are listed; nested manifests are reachable through them only.  Followed by a reopen.
		if e.ociSt == nil {
			return
		}
		var entries []ocispec.Descriptor
		var names []string
		for nm := range e.tags {
			names = append(names, nm)
		}
		sort.Strings(names)
		for _, nm := range names {
			d := e.u.g.Nodes[e.tags[nm]].Desc
			d.Annotations = map[string]string{ocispec.AnnotationRefName: nm}
			entries = append(entries, d)
		}
		var roots []string
		for _, n := range e.u.g.Nodes {
			if !n.IsManifest() || !e.stored[n.ID] || e.hasName(n.ID) {
				continue
			}
			hasParent := false
			for _, p := range e.u.expectedPreds(e.stored, n.ID) {
				if e.u.g.Nodes[p].IsManifest() {
					hasParent = true
				}
			}
			if !hasParent {
				entries = append(entries, n.Desc)
				roots = append(roots, strconv.Itoa(n.ID))
			}
		}
		ix := ocispec.Index{MediaType: ocispec.MediaTypeImageIndex, Manifests: entries}
		ix.SchemaVersion = 2
		if len(entries) == 0 {
			ix.Manifests = []ocispec.Descriptor{}
		}
		data, _ := json.Marshal(ix)
		if err := os.WriteFile(filepath.Join(e.root, "index.json"), data, 0o644); err != nil {
			panic(err)
		}
		e.sops = append(e.sops, "F"+strings.Join(roots, "."))
		run.Count("foreign-roots-only-index")
		return
	case "opt":
		if e.fileSt != nil {
			switch arg {
			case "forcecas":
				e.fileSt.ForceCAS = true
			case "ignorenoname":
				e.fileSt.IgnoreNoName = true
			case "nooverwrite":
				e.fileSt.DisableOverwrite = true
			}
		}
		return
	case "pre":
		// a file that exists in the working directory before the store writes it
		if e.fileSt != nil && !strings.ContainsAny(arg, "/\\") {
			os.WriteFile(filepath.Join(e.root, arg), []byte("pre-existing"), 0o644)
		}
		return
	case "cmix":
		// one goroutine per item, started together: <id> = Push, t<id>=<name> = Tag, u=<name> = Untag,
		// x<id> = Delete.  Every name is touched by one item only and a deleted node is neither
		// tagged nor untagged in the block, so the final resolver state is determined; what a
		// Delete with AutoGC takes along depends on the interleaving and is read off the disk.
		if e.ociSt == nil {
			return
		}
		items := strings.Split(arg, "|")
		errs := make([]error, len(items))
		var wg sync.WaitGroup
		start := make(chan struct{})
		st := e.ociSt
		var blockPushes []int
		blockDeletes := false
		for _, it := range items {
			if strings.HasPrefix(it, "x") {
				blockDeletes = true
			} else if i, err := strconv.Atoi(it); err == nil && e.valid(i) {
				blockPushes = append(blockPushes, i)
			}
		}
		watch := e.watchBlock(blockPushes, blockDeletes)
		for k, it := range items {
			wg.Add(1)
			go func(k int, it string) {
				defer wg.Done()
				<-start
				switch {
				case strings.HasPrefix(it, "t"):
					a, nm, _ := strings.Cut(it[1:], "=")
					if i, err := strconv.Atoi(a); err == nil && e.valid(i) {
						errs[k] = st.Tag(ctx, e.u.g.Nodes[i].Desc, nm)
					}
				case strings.HasPrefix(it, "u="):
					errs[k] = st.Untag(ctx, it[2:])
				case strings.HasPrefix(it, "x"):
					if i, err := strconv.Atoi(it[1:]); err == nil && e.valid(i) {
						errs[k] = st.Delete(ctx, e.u.g.Nodes[i].Desc)
					}
				default:
					if i, err := strconv.Atoi(it); err == nil && e.valid(i) && !e.u.g.Nodes[i].Foreign() {
						errs[k] = e.pushOne(i)
						if errs[k] == nil || errors.Is(errs[k], errdef.ErrAlreadyExists) {
							watch.pushed(i)
						}
					}
				}
			}(k, it)
		}
		close(start)
		wg.Wait()
		watch.finish()
		for k, it := range items {
			err := errs[k]
			switch {
			case strings.HasPrefix(it, "t"):
				a, nm, _ := strings.Cut(it[1:], "=")
				i, cerr := strconv.Atoi(a)
				if cerr != nil || !e.valid(i) {
					continue
				}
				if err == nil {
					e.tags[nm] = i
					e.sops = append(e.sops, fmt.Sprintf("N%d=%d", i, e.nameID(nm)))
				} else if e.stored[i] {
					e.fail("tag-error", fmt.Sprintf("concurrent Tag(%d,%s): %v", i, nm, err))
				}
			case strings.HasPrefix(it, "x"):
				if err != nil {
					run.Count("delete-error")
				}
				e.sawDelete = true
			case strings.HasPrefix(it, "u="):
				nm := it[2:]
				i, had := e.tags[nm]
				if had && err != nil {
					e.fail("untag-error", fmt.Sprintf("concurrent Untag(%s): %v", nm, err))
				}
				if had && err == nil {
					delete(e.tags, nm)
					e.sops = append(e.sops, fmt.Sprintf("M%d", e.nameID(nm)))
				}
				_ = i
			default:
				i, cerr := strconv.Atoi(it)
				if cerr != nil || !e.valid(i) || e.u.g.Nodes[i].Foreign() {
					continue
				}
				switch {
				case err == nil:
					if e.stored[i] {
						e.fail("push-twice", fmt.Sprintf("Push(%d) succeeded although the content was stored", i))
					}
					e.stored[i] = true
					e.mops = append(e.mops, fmt.Sprintf("+%d", i), fmt.Sprintf("I%d", i))
					e.toks = append(e.toks, "ok")
					e.sops = append(e.sops, fmt.Sprintf("P%d", i))
				case errors.Is(err, errdef.ErrAlreadyExists) && e.stored[i]:
				default:
					e.fail("push-error", fmt.Sprintf("concurrent Push(%d): %v", i, err))
				}
			}
		}
		for _, v := range e.refreshStored() {
			e.mops = append(e.mops, fmt.Sprintf("D%d", v), fmt.Sprintf("-%d", v))
			e.sops = append(e.sops, fmt.Sprintf("X%d", v))
		}
	case "tag":
		a, nm, _ := strings.Cut(arg, ":")
		i, _ := strconv.Atoi(a)
		if e.ociSt == nil || !e.valid(i) {
			return
		}
		if err := e.ociSt.Tag(ctx, e.u.g.Nodes[i].Desc, nm); err == nil {
			e.tags[nm] = i
			// the model keeps the reference -> node map itself (a name that moves is taken from
			// the node that had it)
			e.sops = append(e.sops, fmt.Sprintf("N%d=%d", i, e.nameID(nm)))
		} else if e.stored[i] {
			e.fail("tag-error", fmt.Sprintf("Tag(%d,%s): %v", i, nm, err))
		}
	case "untag":
		if e.ociSt == nil {
			return
		}
		i, had := e.tags[arg]
		err := e.ociSt.Untag(ctx, arg)
		if had && err != nil {
			e.fail("untag-error", fmt.Sprintf("Untag(%s): %v", arg, err))
		}
		if had && err == nil {
			delete(e.tags, arg)
			e.sops = append(e.sops, fmt.Sprintf("M%d", e.nameID(arg)))
		}
		_ = i
	case "delete":
		i, _ := strconv.Atoi(arg)
		if e.ociSt == nil || !e.valid(i) {
			return
		}
		was := e.stored[i]
		err := e.ociSt.Delete(ctx, e.u.g.Nodes[i].Desc)
		if err != nil {
			run.Count("delete-error")
		}
		e.sawDelete = true
		vanished := e.refreshStored()
		// what Delete removes is property C09; here only counted, the sweep below judges
		// Predecessors against whatever is on disk afterwards
		if was && e.stored[i] {
			run.Count("delete-kept-not-judged")
		}
		if !e.autoGC && (len(vanished) > 1 || (len(vanished) == 1 && vanished[0] != i)) {
			run.Count("delete-extra-not-judged")
		}
		if len(vanished) > 1 {
			e.sawCascade = true
		}
		for _, v := range vanished {
			e.mops = append(e.mops, fmt.Sprintf("D%d", v), fmt.Sprintf("-%d", v))
			e.sops = append(e.sops, fmt.Sprintf("X%d", v))
		}
	case "gc":
		if e.ociSt == nil {
			return
		}
		_, safe := e.gcPlan()
		if !safe {
			run.Count("gc-skipped-unsafe-shape")
			e.script = e.script[:len(e.script)-1]
			return
		}
		done := make(chan error, 1)
		st := e.ociSt
		go func() { done <- st.GC(ctx) }()
		select {
		case err := <-done:
			if err != nil {
				// GC refusing to run (e.g. index.json still naming blobs an earlier GC swept: F2,
				// properties C08/C09) is not a statement about Predecessors: gcIndex returns
				// before replacing the graph.  Not judged; the sweep below still checks the state.
				if f1Present {
					run.Count("gc-error-not-judged")
				} else {
					// with the known GC defects repaired a GC that refuses to run on a layout this
					// store wrote itself makes "after GC" unreachable: reported
					e.fail("gc-error", fmt.Sprintf("GC: %v", err))
				}
				e.script[len(e.script)-1] = "gc"
				e.sweep(e.st, e.st, "after failed gc", &e.mops, &e.toks)
				e.sops = append(e.sops, e.sMarker())
				e.stoks = append(e.stoks, e.storeObs()...)
				return
			}
		case <-time.After(15 * time.Second):
			// a hang is C09's business (F1): not judged here; stop using this store
			e.gcHung = true
			if f1Present {
				run.Count("gc-hang-not-judged")
			} else if os.Getenv("C07_NO_CONFIRM") == "" && confirmHang(e.replay()) {
				e.fail("gc-hang", "GC did not return within 15 s, and again not within 60 s in a fresh process replaying the same history")
				// the stuck goroutine cannot be stopped: report what was recorded and stop
				run.Finish()
				os.Exit(0)
			} else {
				run.Count("gc-hang-not-reproduced")
			}
			return
		}
		e.sawGC = true
		// The model is told which blobs the sweep removed and rebuilds the graph by IndexAll
		// over every manifest that survived: GC keeps exactly the blobs of the rebuilt graph,
		// so the surviving manifests are the rebuilt graph's manifests whatever root order
		// gcIndex iterated in.
		for _, v := range e.refreshStored() {
			e.mops = append(e.mops, fmt.Sprintf("-%d", v))
		}
		e.mops = append(e.mops, "Z")
		isTagged := map[int]bool{}
		for _, i := range e.tags {
			isTagged[i] = true
		}
		var kept []string
		for _, n := range e.u.g.Nodes {
			if n.IsManifest() && e.stored[n.ID] {
				e.mops = append(e.mops, fmt.Sprintf("A%d", n.ID))
				e.toks = append(e.toks, "ok")
				if !isTagged[n.ID] {
					kept = append(kept, strconv.Itoa(n.ID))
				}
			}
		}
		// store-level model: which untagged manifests gcIndex kept as roots.  With AutoSaveIndex on
		// GC has just written index.json: its entries without a name are exactly those (plus the
		// restored digest references, which the model adds itself).  Otherwise: the survivors.
		savedAfterGC := false
		if e.autoSaveOff {
			// GC did not write index.json; save it now so that the roots gcIndex kept can be read
			// (the model gets the SaveIndex step right after the GC step)
			if err := e.ociSt.SaveIndex(); err != nil {
				e.fail("saveindex-error", fmt.Sprintf("SaveIndex after GC: %v", err))
			}
			savedAfterGC = true
		}
		{
			if listed, named, err := e.indexEntries(); err == nil {
				isNamed := map[int]bool{}
				for _, i := range named {
					isNamed[i] = true
				}
				kept = nil
				sort.Ints(listed)
				for _, i := range listed {
					if !isNamed[i] {
						kept = append(kept, strconv.Itoa(i))
					}
				}
			}
		}
		e.sops = append(e.sops, "G"+strings.Join(kept, "."))
		if savedAfterGC {
			e.sops = append(e.sops, "W")
		}
	case "reopen":
		if e.ociSt == nil {
			return
		}
		if e.autoSaveOff {
			// the caller's duty with AutoSaveIndex off: save before the layout is read again
			e.script = e.script[:len(e.script)-1]
			e.do("saveindex")
			e.script = append(e.script, op)
		}
		e.sawReopen = true
		roots, err := e.indexRoots()
		if err != nil {
			e.fail("index-json", fmt.Sprintf("cannot read index.json: %v", err))
			return
		}
		switch arg {
		case "dir":
			s, err := oci.New(e.root)
			if err != nil {
				e.fail("reopen-error", fmt.Sprintf("oci.New: %v", err))
				return
			}
			s.AutoGC = e.autoGC
			e.ociSt = s
			e.st, e.push = s, s
			if e.autoSaveOff {
				e.autoSaveOff = false // a new Store starts with AutoSaveIndex = true
				e.sops = append(e.sops, "Y1")
			}
			e.mops = append(e.mops, "Z")
			for _, r := range roots {
				e.mops = append(e.mops, fmt.Sprintf("A%d", r))
				e.toks = append(e.toks, "ok")
			}
			e.sops = append(e.sops, "O")
		case "fs", "tar":
			var ro *oci.ReadOnlyStore
			if arg == "fs" {
				ro, err = oci.NewFromFS(ctx, os.DirFS(e.root))
			} else {
				tp := filepath.Join(e.root+"-tar", "layout.tar")
				os.MkdirAll(filepath.Dir(tp), 0o755)
				defer os.RemoveAll(filepath.Dir(tp))
				if err = writeTar(e.root, tp); err == nil {
					ro, err = oci.NewFromTar(ctx, tp)
				}
			}
			if err != nil {
				e.fail("reopen-error", fmt.Sprintf("reopen %s: %v", arg, err))
				return
			}
			// a separate model case: fresh graph, IndexAll over the roots of index.json
			var mops, toks []string
			for _, n := range e.u.g.Nodes {
				if !n.IsManifest() || e.stored[n.ID] {
					mops = append(mops, fmt.Sprintf("+%d", n.ID))
				}
			}
			for _, r := range roots {
				mops = append(mops, fmt.Sprintf("A%d", r))
				toks = append(toks, "ok")
			}
			e.sweep(ro, ro, "reopened("+arg+")", &mops, &toks)
			id := run.NewID()
			run.Case(id, fmt.Sprintf("%d %s %s reopen%s-%s", len(e.u.g.Nodes), e.u.ctString(), strings.Join(mops, ","), arg, e.origin),
				strings.Join(toks, " "))
			run.Count("reopen-" + arg)
			// store-level model: the history so far, then a reopen
			sid := run.NewID()
			sops := append(append([]string(nil), e.sops...), "O", e.sMarker())
			stoks := append(append([]string(nil), e.stoks...), e.storeObs()...)
			run.Case(sid, e.storeCaseLine(sops, "reopen"+arg+"-"+e.origin), strings.Join(stoks, " "))
			return
		}
		run.Count("reopen-" + arg)
	}
	if !e.gcHung {
		e.sweep(e.st, e.st, "after "+op, &e.mops, &e.toks)
		e.sops = append(e.sops, e.sMarker())
		e.stoks = append(e.stoks, e.storeObs()...)
	}
}

// storeCaseLine: "S <nuniv> <content-table> <manifest ids> <ops> <origin>" for Model/GraphStore.v.
func (e *xstore) storeCaseLine(sops []string, origin string) string {
	var mans []string
	for _, n := range e.u.g.Nodes {
		if n.IsManifest() {
			mans = append(mans, strconv.Itoa(n.ID))
		}
	}
	ms := strings.Join(mans, ",")
	if ms == "" {
		ms = "-"
	}
	os := strings.Join(sops, ",")
	if os == "" {
		os = "-"
	}
	return fmt.Sprintf("S %d %s %s %s %s", len(e.u.g.Nodes), e.u.ctString(), ms, os, origin)
}

// indexRoots reads index.json with the harness's own decoder.
func (e *xstore) indexRoots() ([]int, error) {
	data, err := os.ReadFile(filepath.Join(e.root, "index.json"))
	if err != nil {
		return nil, err
	}
	var ix struct {
		Manifests []ocispec.Descriptor `json:"manifests"`
	}
	if err := json.Unmarshal(data, &ix); err != nil {
		return nil, err
	}
	var out []int
	for _, d := range ix.Manifests {
		if id, ok := e.u.ids[keyOf(d)]; ok {
			out = append(out, id)
		} else {
			return nil, fmt.Errorf("index.json names unknown content %s", d.Digest)
		}
	}
	return out, nil
}

func writeTar(root, path string) error {
	f, err := os.Create(path)
	if err != nil {
		return err
	}
	defer f.Close()
	tw := tar.NewWriter(f)
	err = filepath.Walk(root, func(p string, fi os.FileInfo, err error) error {
		if err != nil {
			return err
		}
		if !fi.Mode().IsRegular() {
			return nil
		}
		rel, _ := filepath.Rel(root, p)
		data, err := os.ReadFile(p)
		if err != nil {
			return err
		}
		if err := tw.WriteHeader(&tar.Header{Name: filepath.ToSlash(rel), Mode: 0o644, Size: int64(len(data)), Typeflag: tar.TypeReg}); err != nil {
			return err
		}
		_, err = tw.Write(data)
		return err
	})
	if err != nil {
		return err
	}
	return tw.Close()
}

func (e *xstore) finish(origin string) {
	var pre []string
	for _, n := range e.u.g.Nodes {
		if !n.IsManifest() {
			pre = append(pre, fmt.Sprintf("+%d", n.ID))
		}
	}
	mops := append(pre, e.mops...)
	run.Case(e.id, fmt.Sprintf("%d %s %s %s", len(e.u.g.Nodes), e.u.ctString(), strings.Join(mops, ","), origin), strings.Join(e.toks, " "))
	if !e.gcHung {
		run.Case(run.NewID(), e.storeCaseLine(e.sops, origin), strings.Join(e.stoks, " "))
	}
	run.Count("store-" + e.kind)
	canon := e.kind + " " + e.u.ctString() + " " + strings.Join(e.script, " ")
	if e.sawDelete || e.sawGC || e.sawReopen || strings.Contains(canon, "cpush") {
		run.Nontrivial(canon)
	}
	if e.sawGC {
		run.Count("history-with-gc")
	}
	if e.sawDelete {
		run.Count("history-with-delete")
	}
	if e.sawCascade {
		run.Count("history-with-autogc-cascade")
	}
	if e.sawReopen {
		run.Count("history-with-reopen")
	}
	if e.sawGC && e.sawReopen && e.sawDelete && len(run.Samples) < 5 || e.kind == "file" && len(run.Samples) < 3 {
		run.Sample(map[string]any{"part": "store", "store": e.kind, "autogc": e.autoGC, "graph": e.u.g.Describe(), "script": e.script})
	}
}

// genStore draws and executes one end-to-end history.
func genStore(r *common.Rand, kind string, origin string) {
	o := dag.DefaultOptions()
	o.MinNodes, o.MaxNodes = 3, 11
	if run.Thorough() {
		o.MaxNodes = 14
	}
	g := dag.Random(r, o)
	e := &xstore{u: newUniverse(g), kind: kind, autoGC: r.Bool(), id: run.NewID(), origin: origin}
	if err := e.open(); err != nil {
		panic(err)
	}
	defer e.close()
	if kind == "file" {
		for _, n := range g.Nodes {
			if !n.IsManifest() && !n.Foreign() && r.Chance(1, 3) {
				e.names[n.ID] = fmt.Sprintf("f%d.bin", n.ID)
				e.script = append(e.script, fmt.Sprintf("name:%d:f%d.bin", n.ID, n.ID))
			}
		}
	}
	// phase 1: a subset, in some order
	var sel []int
	for _, n := range g.Nodes {
		if !n.Foreign() && r.Chance(5, 6) {
			sel = append(sel, n.ID)
		}
	}
	orderKind := r.Intn(3)
	switch orderKind {
	case 0:
		run.Count("order-children-first")
	case 1:
		run.Count("order-parents-first")
		for i, j := 0, len(sel)-1; i < j; i, j = i+1, j-1 {
			sel[i], sel[j] = sel[j], sel[i]
		}
	default:
		run.Count("order-shuffled")
		common.Shuffle(r, sel)
	}
	if r.Chance(1, 3) && len(sel) > 1 {
		run.Count("push-concurrent")
		k := 2 + r.Intn(3)
		groups := make([][]string, k)
		for _, i := range sel {
			w := r.Intn(k)
			groups[w] = append(groups[w], strconv.Itoa(i))
		}
		var gs []string
		for _, g := range groups {
			gs = append(gs, strings.Join(g, ","))
		}
		e.do("cpush:" + strings.Join(gs, "|"))
	} else {
		run.Count("push-sequential")
		for _, i := range sel {
			e.do(fmt.Sprintf("push:%d", i))
		}
	}
	// phase 2
	steps := r.Intn(run.Scale(8, 14))
	tagN := 0
	for s := 0; s < steps && !e.gcHung && !e.failed; s++ {
		var storedIDs, absent, storedManifests []int
		for _, n := range g.Nodes {
			if n.Foreign() {
				continue
			}
			if e.stored[n.ID] {
				storedIDs = append(storedIDs, n.ID)
				if n.IsManifest() {
					storedManifests = append(storedManifests, n.ID)
				}
			} else {
				absent = append(absent, n.ID)
			}
		}
		x := r.Intn(100)
		if kind != "oci" {
			if len(storedIDs) > 0 && x < 30 {
				e.do(fmt.Sprintf("push:%d", common.Pick(r, storedIDs))) // refused: already exists
			} else if len(absent) > 0 {
				e.do(fmt.Sprintf("push:%d", common.Pick(r, absent)))
			}
			continue
		}
		switch {
		case x < 27 && len(storedIDs) > 0:
			e.do(fmt.Sprintf("delete:%d", common.Pick(r, storedIDs)))
		case x < 30:
			// Delete of content that is not stored (deleted before, never pushed, foreign layer)
			run.Count("delete-absent")
			var cand []int
			for _, n := range g.Nodes {
				if !e.stored[n.ID] {
					cand = append(cand, n.ID)
				}
			}
			if len(cand) > 0 {
				e.do(fmt.Sprintf("delete:%d", common.Pick(r, cand)))
			}
		case x < 45 && len(absent) > 0:
			if len(absent) >= 2 && r.Chance(1, 3) {
				// a concurrent block in the middle of a history (after Delete / GC / reopen)
				run.Count("phase2-concurrent-push")
				common.Shuffle(r, absent)
				k := 2 + r.Intn(len(absent)-1)
				var gs []string
				for _, i := range absent[:k] {
					gs = append(gs, strconv.Itoa(i))
				}
				e.do("cpush:" + strings.Join(gs, "|"))
				break
			}
			e.do(fmt.Sprintf("push:%d", common.Pick(r, absent)))
		case x < 57 && len(storedManifests) > 0:
			tagN++
			if r.Chance(1, 5) {
				// Tag accepts any stored content: a layer or config becomes a root of the index
				var blobs []int
				for _, i := range storedIDs {
					if !g.Nodes[i].IsManifest() {
						blobs = append(blobs, i)
					}
				}
				if len(blobs) > 0 {
					run.Count("tag-non-manifest")
					e.do(fmt.Sprintf("tag:%d:b%d", common.Pick(r, blobs), tagN%2))
					break
				}
			}
			e.do(fmt.Sprintf("tag:%d:t%d", common.Pick(r, storedManifests), tagN%3))
		case x < 60 && len(e.tags) > 0:
			var names []string
			for nm := range e.tags {
				names = append(names, nm)
			}
			sort.Strings(names)
			e.do("untag:" + common.Pick(r, names))
		case x < 78:
			// make the state safe for GC (see gcPlan) by tagging, then GC
			for tries := 0; tries < 6; tries++ {
				if _, safe := e.gcPlan(); safe {
					break
				}
				tagged := map[int]bool{}
				for _, i := range e.tags {
					tagged[i] = true
				}
				base := e.closure(e.taggedRoots())
				for _, n := range g.Nodes {
					if n.IsManifest() && e.stored[n.ID] && !tagged[n.ID] && n.Subject >= 0 && subjectVisible(n) && !base[n.Subject] {
						tagN++
						sub := g.Nodes[n.Subject]
						if sub.IsManifest() && e.stored[sub.ID] && r.Bool() {
							e.do(fmt.Sprintf("tag:%d:g%d", sub.ID, tagN))
						} else {
							e.do(fmt.Sprintf("tag:%d:g%d", n.ID, tagN))
						}
						break
					}
				}
			}
			e.do("gc")
			if e.sawGC && r.Chance(1, 2) {
				// chains GC -> [reopen] -> Delete(tagged root) -> reopen: what GC left in
				// index.json only matters once the store has been reloaded from it
				if r.Bool() {
					e.do("reopen:dir")
				}
				if tr := e.taggedRoots(); len(tr) > 0 {
					e.do(fmt.Sprintf("delete:%d", common.Pick(r, tr)))
					e.do("reopen:" + common.Pick(r, []string{"dir", "fs", "tar"}))
				}
			}
		case x < 84:
			if e.autoSaveOff {
				e.do(common.Pick(r, []string{"autosave:on", "saveindex", "saveindex"}))
			} else {
				e.do("autosave:off")
			}
		case x < 87:
			e.do("foreign")
			e.do("reopen:dir") // the model's foreign step includes the reopen of the directory
			if r.Chance(1, 3) {
				e.do("reopen:" + common.Pick(r, []string{"fs", "tar"}))
			}
		default:
			e.do("reopen:" + common.Pick(r, []string{"dir", "dir", "fs", "tar"}))
		}
	}
	e.finish(origin)
}

func replayStore(rep storeReplay) {
	g := dag.Decode(rep.Graph)
	e := &xstore{u: newUniverse(g), kind: rep.Store, autoGC: rep.AutoGC, id: run.NewID(), origin: "store-replay"}
	if err := e.open(); err != nil {
		panic(err)
	}
	defer e.close()
	// file names are part of push ops in the script ("name:<id>:<file>")
	for _, op := range rep.Script {
		if strings.HasPrefix(op, "name:") {
			p := strings.Split(op, ":")
			i, _ := strconv.Atoi(p[1])
			e.names[i] = p[2]
			e.script = append(e.script, op)
			continue
		}
		if e.gcHung {
			break
		}
		e.do(op)
	}
	e.finish("store-" + rep.Store + "-replay")
}

// confirmHang replays a history in a fresh child process (a slow machine must not be
// reported as a hanging GC): true iff the child does not finish within 60 s.
func confirmHang(rep storeReplay) bool {
	self, err := os.Executable()
	if err != nil {
		return false
	}
	dir, err := os.MkdirTemp("", "c07hang")
	if err != nil {
		return false
	}
	defer os.RemoveAll(dir)
	js, _ := json.Marshal(map[string]any{"cases": []any{rep}})
	rp := filepath.Join(dir, "replay.json")
	if os.WriteFile(rp, js, 0o644) != nil {
		return false
	}
	cmd := exec_Command(self, "-seed", "1", "-tier", "quick", "-dir", filepath.Join(dir, "out"), "-replay", rp)
	cmd.Env = append(os.Environ(), "C07_NO_CONFIRM=1")
	if cmd.Start() != nil {
		return false
	}
	done := make(chan error, 1)
	go func() { done <- cmd.Wait() }()
	select {
	case <-done:
		return false
	case <-time.After(60 * time.Second):
		cmd.Process.Kill()
		<-done
		return true
	}
}

// ------------------------------------------------------------------ F1 probe

// f1Probe builds the smallest layout on which the unchanged tree's GC does not
// return (untagged manifest whose subject is an untagged manifest) and runs GC.
func f1Probe(dir string) {
	r := common.NewRand(7)
	_ = r
	s, err := oci.New(dir)
	if err != nil {
		os.Exit(3)
	}
	s.AutoGC = false
	push := func(mt string, b []byte) ocispec.Descriptor {
		d := content.NewDescriptorFromBytes(mt, b)
		if err := s.Push(ctx, d, bytes.NewReader(b)); err != nil {
			os.Exit(3)
		}
		return d
	}
	cfg := push(ocispec.MediaTypeImageConfig, []byte("{}"))
	m1, _ := json.Marshal(ocispec.Manifest{MediaType: ocispec.MediaTypeImageManifest, Config: cfg, Layers: []ocispec.Descriptor{}})
	d1 := push(ocispec.MediaTypeImageManifest, m1)
	m2, _ := json.Marshal(ocispec.Manifest{MediaType: ocispec.MediaTypeImageManifest, Config: cfg, Layers: []ocispec.Descriptor{}, Subject: &d1})
	push(ocispec.MediaTypeImageManifest, m2)
	if err := s.GC(ctx); err != nil {
		os.Exit(3)
	}
	os.Exit(0)
}

func detectF1() bool {
	self, err := os.Executable()
	if err != nil {
		return true
	}
	dir, err := os.MkdirTemp("", "c07f1")
	if err != nil {
		return true
	}
	defer os.RemoveAll(dir)
	cmd := exec_Command(self, "-f1probe", dir)
	if err := cmd.Start(); err != nil {
		return true
	}
	done := make(chan error, 1)
	go func() { done <- cmd.Wait() }()
	select {
	case err := <-done:
		return err != nil
	case <-time.After(8 * time.Second):
		cmd.Process.Kill()
		<-done
		return true
	}
}

var exec_Command = exec.Command

// ------------------------------------------------------------------ main

// caseFromSeed runs one generated case under a watchdog: a case that does not return (a lock
// never released, a goroutine waiting for ever) becomes an oracle failure with a replay
// instead of a hanging check.  A slow machine is told apart by re-running the case in a fresh
// child process before anything is reported.
func caseFromSeed(part string, seed uint64) {
	if os.Getenv("C07_NO_CONFIRM") != "" {
		// confirmation child: the parent holds the clock
		caseFromSeedBody(part, seed)
		return
	}
	done := make(chan struct{})
	go func() {
		defer close(done)
		caseFromSeedBody(part, seed)
	}()
	limit := 20 * time.Second
	select {
	case <-done:
		return
	case <-time.After(limit):
	}
	rep := map[string]any{"kind": "seed", "part": part, "seed": strconv.FormatUint(seed, 10)}
	t0 := time.Now()
	wedged := confirmWedge(rep)
	how := "and again not in a fresh process"
	if !wedged {
		// A fresh process got through the same case (a wedge inside a concurrent block depends on
		// the schedule), so the machine is not simply slow: the original gets three times the
		// child's time on top, then it is reported.
		select {
		case <-done:
			run.Count("watchdog-slow-case")
			return
		case <-time.After(3*time.Since(t0) + 10*time.Second):
		}
		how = "while a fresh process completed the same case in the meantime (schedule dependent)"
	}
	run.OracleFail(run.NewID(), "case-wedged", fmt.Sprintf("the %s case of seed %d did not return within %v, %s", part, seed, limit, how), rep)
	run.Finish()
	os.Exit(0) // the stuck goroutine cannot be stopped; what was recorded so far is judged
}

// confirmWedge replays a case in a child process: true iff it does not finish within 60 s.
func confirmWedge(rep map[string]any) bool {
	self, err := os.Executable()
	if err != nil {
		return true
	}
	dir, err := os.MkdirTemp("", "c07wedge")
	if err != nil {
		return true
	}
	defer os.RemoveAll(dir)
	js, _ := json.Marshal(map[string]any{"cases": []any{rep}})
	rp := filepath.Join(dir, "replay.json")
	if os.WriteFile(rp, js, 0o644) != nil {
		return true
	}
	cmd := exec_Command(self, "-seed", "1", "-tier", run.Tier, "-dir", filepath.Join(dir, "out"), "-replay", rp)
	cmd.Env = append(os.Environ(), "C07_NO_CONFIRM=1")
	if cmd.Start() != nil {
		return true
	}
	done := make(chan error, 1)
	go func() { done <- cmd.Wait() }()
	select {
	case <-done:
		return false
	case <-time.After(60 * time.Second):
		cmd.Process.Kill()
		<-done
		return true
	}
}

func caseFromSeedBody(part string, seed uint64) {
	r := common.NewRand(seed)
	origin := fmt.Sprintf("%s-seed-%d", part, seed)
	switch part {
	case "raw":
		o := dag.DefaultOptions()
		o.MinNodes, o.MaxNodes = 2, 10
		o.Twins = true
		if r.Chance(1, 4) {
			o.MaxNodes = 16
		}
		g := dag.Random(r, o)
		runRaw(g, genRawOps(r, g, 10+r.Intn(run.Scale(40, 80))), origin)
	case "memory", "oci", "file":
		genStore(r, part, origin)
	case "perm":
		permCases(r, origin)
	case "burst":
		genBurst(r, origin)
	case "chain":
		genChain(r, origin)
	case "ftitle":
		genFileTitles(r, origin)
	case "links":
		genLinks(r, origin)
	}
}

// genLinks: content.Successors itself.  A document of a random media type carrying ALL of
// subject / config / layers / manifests / blobs (also the members its media type does not
// read: an index with layers, a Docker manifest with a subject, a manifest listed as a
// blob, a blob listed as a manifest, the same descriptor twice) is handed to the real
// function; the result is compared with the model (Model/Links.v) and with the clause of the
// property text evaluated by the harness.
func genLinks(r *common.Rand, origin string) {
	salt := r.U64()
	mts := []string{ocispec.MediaTypeImageLayer, ocispec.MediaTypeImageConfig, ocispec.MediaTypeImageManifest,
		ocispec.MediaTypeImageIndex, dag.MTArtifactManifest, dag.MTDockerManifest, "application/octet-stream"}
	var univ []ocispec.Descriptor
	ids := map[key]int{}
	for i := 0; i < 4+r.Intn(4); i++ {
		d := content.NewDescriptorFromBytes(common.Pick(r, mts), []byte(fmt.Sprintf("u-%d-%x", i, salt)))
		ids[keyOf(d)] = i
		if r.Chance(1, 3) {
			d.Annotations = map[string]string{"k": "v"}
		}
		if r.Chance(1, 4) {
			d.Platform = &ocispec.Platform{Architecture: "amd64", OS: "linux"}
		}
		univ = append(univ, d)
	}
	pickList := func() []int {
		var out []int
		for i := 0; i < r.Intn(4); i++ {
			x := r.Intn(len(univ))
			out = append(out, x)
			if r.Chance(1, 5) {
				out = append(out, x)
			}
		}
		return out
	}
	kinds := []struct{ name, mt string }{
		{"dockermanifest", dag.MTDockerManifest}, {"imagemanifest", ocispec.MediaTypeImageManifest},
		{"dockerlist", dag.MTDockerManifestList}, {"imageindex", ocispec.MediaTypeImageIndex},
		{"artifact", dag.MTArtifactManifest}, {"other", common.Pick(r, []string{ocispec.MediaTypeImageLayer, ocispec.MediaTypeImageConfig, "application/json", ""})},
	}
	k := common.Pick(r, kinds)
	subject := -1
	if r.Bool() {
		subject = r.Intn(len(univ))
	}
	cfg := r.Intn(len(univ))
	layers, mans, blobs := pickList(), pickList(), pickList()
	descs := func(xs []int) []ocispec.Descriptor {
		out := []ocispec.Descriptor{}
		for _, x := range xs {
			out = append(out, univ[x])
		}
		return out
	}
	doc := map[string]any{"schemaVersion": 2, "mediaType": k.mt, "config": univ[cfg],
		"layers": descs(layers), "manifests": descs(mans), "blobs": descs(blobs), "artifactType": "application/vnd.verif"}
	if subject >= 0 {
		doc["subject"] = univ[subject]
	}
	body, _ := json.Marshal(doc)
	dd := content.NewDescriptorFromBytes(k.mt, body)
	fetched := false
	f := content.FetcherFunc(func(_ context.Context, d ocispec.Descriptor) (io.ReadCloser, error) {
		fetched = true
		if d.Digest != dd.Digest {
			return nil, errdef.ErrNotFound
		}
		return io.NopCloser(bytes.NewReader(body)), nil
	})
	got, err := content.Successors(ctx, f, dd)
	id := run.NewID()
	var toks []string
	for _, d := range got {
		if i, ok := ids[keyOf(d)]; ok {
			toks = append(toks, strconv.Itoa(i))
		} else {
			toks = append(toks, "?")
		}
	}
	// the property's clause, evaluated here
	var want []string
	app := func(xs ...int) {
		for _, x := range xs {
			want = append(want, strconv.Itoa(x))
		}
	}
	sub := func() {
		if subject >= 0 {
			app(subject)
		}
	}
	switch k.name {
	case "dockermanifest":
		app(cfg)
		app(layers...)
	case "imagemanifest":
		sub()
		app(cfg)
		app(layers...)
	case "dockerlist":
		app(mans...)
	case "imageindex":
		sub()
		app(mans...)
	case "artifact":
		sub()
		app(blobs...)
	}
	obs := "s:" + strings.Join(toks, ",")
	if err != nil {
		obs = "err"
	}
	rep := map[string]any{"kind": "seed", "part": "links", "seed": strings.TrimPrefix(origin, "links-seed-")}
	if err != nil || strings.Join(toks, ",") != strings.Join(want, ",") {
		run.OracleFail(id, "successors-links", fmt.Sprintf("content.Successors of a %s document = [%s] (err %v), the referenced subject/config/layers/manifests/blobs are [%s]",
			k.name, strings.Join(toks, ","), err, strings.Join(want, ",")), rep)
	}
	if k.name == "other" && fetched {
		run.OracleFail(id, "successors-fetch-non-manifest", "content.Successors fetched a non-manifest", rep)
	}
	ls := func(xs []int) string {
		if len(xs) == 0 {
			return "-"
		}
		var p []string
		for _, x := range xs {
			p = append(p, strconv.Itoa(x))
		}
		return strings.Join(p, ",")
	}
	ss := "-"
	if subject >= 0 {
		ss = strconv.Itoa(subject)
	}
	run.Case(id, fmt.Sprintf("L %s %s %d %s %s %s %s", k.name, ss, cfg, ls(layers), ls(mans), ls(blobs), origin), obs)
	run.Count("links-" + k.name)
	if len(want) > 0 {
		run.Nontrivial("links " + k.name + " " + ss + " " + strings.Join(want, ","))
	}
}

// genFileTitles: the file store with manifests whose successor descriptors carry titles:
// the blob's own name, a second name for the same content (restoreDuplicates writes it), a
// name that cannot be written (path traversal, DisableOverwrite + existing file), with
// ForceCAS / IgnoreNoName / DisableOverwrite, any push order and retries.
func genFileTitles(r *common.Rand, origin string) {
	var enc []dag.Encoded
	add := func(kind, mt string, b []byte, succ []int) int {
		enc = append(enc, dag.Encoded{Kind: kind, MediaType: mt, Bytes: b, Succ: succ, Subject: -1, TwinOf: -1})
		return len(enc) - 1
	}
	descOf := func(i int) ocispec.Descriptor {
		return content.NewDescriptorFromBytes(enc[i].MediaType, enc[i].Bytes)
	}
	salt := r.U64()
	names := map[int]string{}
	cfg := add(dag.KConfig, ocispec.MediaTypeImageConfig, []byte(fmt.Sprintf(`{"verif":"%x"}`, salt)), nil)
	if r.Bool() {
		names[cfg] = "config.json"
	}
	var layers []int
	for i := 0; i < 1+r.Intn(3); i++ {
		l := add(dag.KBlob, ocispec.MediaTypeImageLayer, []byte(fmt.Sprintf("layer-%d-%x", i, salt)), nil)
		layers = append(layers, l)
		if r.Chance(2, 3) {
			names[l] = fmt.Sprintf("f%d.bin", l)
		}
	}
	nooverwrite := r.Chance(1, 4)
	titled := func(i int, mi, k int, class *string) ocispec.Descriptor {
		d := descOf(i)
		switch x := r.Intn(12); {
		case x < 3 && names[i] != "":
			d.Annotations = map[string]string{ocispec.AnnotationTitle: names[i]}
		case x < 7:
			d.Annotations = map[string]string{ocispec.AnnotationTitle: fmt.Sprintf("dup-%d-%d-%d.bin", mi, k, i)}
			*class = "alt"
		case x < 8:
			d.Annotations = map[string]string{ocispec.AnnotationTitle: fmt.Sprintf("../escape-%d-%d.txt", mi, k)}
			*class = "bad"
		case x < 9 && nooverwrite:
			d.Annotations = map[string]string{ocispec.AnnotationTitle: "pre.txt"}
			*class = "pre"
		}
		return d
	}
	var manifests []int
	for mi := 0; mi < 1+r.Intn(4); mi++ {
		class := "plain"
		m := ocispec.Manifest{MediaType: ocispec.MediaTypeImageManifest, Layers: []ocispec.Descriptor{},
			Annotations: map[string]string{"verif.id": fmt.Sprintf("%d-%x", mi, salt)}}
		m.SchemaVersion = 2
		m.Config = titled(cfg, mi, 0, &class)
		succ := []int{cfg}
		for k, l := range layers {
			if r.Chance(2, 3) {
				m.Layers = append(m.Layers, titled(l, mi, k+1, &class))
				succ = append(succ, l)
			}
		}
		b, _ := json.Marshal(m)
		id := add(dag.KImage, ocispec.MediaTypeImageManifest, b, succ)
		manifests = append(manifests, id)
		if r.Chance(1, 4) {
			names[id] = fmt.Sprintf("m%d.json", id)
		}
		run.Count("ftitle-manifest-" + class)
	}
	g := dag.Decode(enc)
	e := &xstore{u: newUniverse(g), kind: "file", id: run.NewID(), origin: origin}
	if err := e.open(); err != nil {
		panic(err)
	}
	defer e.close()
	for i, nm := range names {
		e.names[i] = nm
	}
	var ids []int
	for i := range enc {
		ids = append(ids, i)
		if nm, ok := names[i]; ok {
			e.script = append(e.script, fmt.Sprintf("name:%d:%s", i, nm))
		}
	}
	if nooverwrite {
		e.do("opt:nooverwrite")
		e.do("pre:pre.txt")
	}
	if r.Chance(1, 6) {
		e.do("opt:forcecas")
	}
	if r.Chance(1, 6) {
		e.do("opt:ignorenoname")
	}
	switch r.Intn(3) {
	case 1:
		for i, j := 0, len(ids)-1; i < j; i, j = i+1, j-1 {
			ids[i], ids[j] = ids[j], ids[i]
		}
	case 2:
		common.Shuffle(r, ids)
	}
	for _, i := range ids {
		e.do(fmt.Sprintf("push:%d", i))
	}
	// retries of everything (already exists / now restorable)
	common.Shuffle(r, ids)
	for _, i := range ids {
		if r.Bool() {
			e.do(fmt.Sprintf("push:%d", i))
		}
	}
	run.Count("ftitle")
	e.finish(origin)
}

// genChain: nested manifests under one tagged root, then GC, reopen, Delete of the root
// (and of further parents) with reopens in between and at the end: the index.json written
// by each step is the only thing the next reopen sees.
func genChain(r *common.Rand, origin string) {
	var enc []dag.Encoded
	add := func(kind, mt string, b []byte, succ []int, subject int) int {
		enc = append(enc, dag.Encoded{Kind: kind, MediaType: mt, Bytes: b, Succ: succ, Subject: subject, TwinOf: -1})
		return len(enc) - 1
	}
	// some nodes are addressed by sha512 / sha384 digests: other blob directory, blob paths
	// longer than a classic tar header name (PAX records in the archive read by NewFromTar)
	algs := map[int]digest.Algorithm{}
	longDigests := r.Chance(1, 2)
	descOf := func(i int) ocispec.Descriptor {
		d := content.NewDescriptorFromBytes(enc[i].MediaType, enc[i].Bytes)
		if a, ok := algs[i]; ok {
			d.Digest = a.FromBytes(enc[i].Bytes)
		}
		return d
	}
	pickAlg := func(i int) {
		if longDigests && r.Chance(1, 2) {
			algs[i] = common.Pick(r, []digest.Algorithm{digest.SHA512, digest.SHA512, digest.SHA384})
		}
	}
	salt := r.U64()
	cfg := add(dag.KConfig, ocispec.MediaTypeImageConfig, []byte(fmt.Sprintf(`{"verif":"%x"}`, salt)), nil, -1)
	pickAlg(cfg)
	layer := add(dag.KBlob, ocispec.MediaTypeImageLayer, []byte(fmt.Sprintf("layer-%x", salt)), nil, -1)
	pickAlg(layer)
	var images []int
	for i := 0; i < 1+r.Intn(3); i++ {
		m := ocispec.Manifest{MediaType: ocispec.MediaTypeImageManifest, Config: descOf(cfg), Layers: []ocispec.Descriptor{descOf(layer)},
			Annotations: map[string]string{"verif.id": fmt.Sprintf("%d-%x", i, salt)}}
		m.SchemaVersion = 2
		b, _ := json.Marshal(m)
		id := add(dag.KImage, ocispec.MediaTypeImageManifest, b, []int{cfg, layer}, -1)
		pickAlg(id)
		images = append(images, id)
	}
	// a tower of indexes: level k lists the level below
	level := images
	var tower []int
	for d := 0; d < 1+r.Intn(3); d++ {
		ix := ocispec.Index{MediaType: ocispec.MediaTypeImageIndex, Manifests: []ocispec.Descriptor{},
			Annotations: map[string]string{"verif.level": fmt.Sprintf("%d-%x", d, salt)}}
		ix.SchemaVersion = 2
		var succ []int
		for _, m := range level {
			ix.Manifests = append(ix.Manifests, descOf(m))
			succ = append(succ, m)
		}
		b, _ := json.Marshal(ix)
		id := add(dag.KIndex, ocispec.MediaTypeImageIndex, b, succ, -1)
		pickAlg(id)
		tower = append(tower, id)
		level = []int{id}
	}
	top := tower[len(tower)-1]
	// a manifest that does not decode (never stored: its Push must fail cleanly)
	bad := add(dag.KBlob, ocispec.MediaTypeImageManifest, []byte(fmt.Sprintf("{not json %x", salt)), nil, -1)
	g := dag.Decode(enc)
	e := &xstore{u: newUniverse(g), kind: "oci", autoGC: r.Chance(1, 5), id: run.NewID(), origin: origin}
	if err := e.open(); err != nil {
		panic(err)
	}
	defer e.close()
	for i := 0; i < len(enc); i++ {
		if a, ok := algs[i]; ok {
			e.do(fmt.Sprintf("alg:%d:%s", i, a))
		}
	}
	if len(algs) > 0 {
		run.Count("chain-with-sha512-or-sha384")
	}
	var order []int
	for i := range enc {
		if i != bad {
			order = append(order, i)
		}
	}
	if r.Bool() {
		common.Shuffle(r, order)
	}
	if r.Chance(1, 3) {
		// everything below with AutoSaveIndex off: index.json is written by SaveIndex only
		// (issued before every reopen)
		e.do("autosave:off")
	}
	badAt := -1
	if r.Bool() {
		badAt = r.Intn(len(order))
	}
	for k, i := range order {
		if k == badAt {
			e.do(fmt.Sprintf("badpush:%d", bad))
		}
		e.do(fmt.Sprintf("push:%d", i))
	}
	e.do(fmt.Sprintf("tag:%d:root", top))
	if r.Chance(1, 3) {
		e.do(fmt.Sprintf("badpush:%d", bad))
	}
	reopen := func() { e.do("reopen:" + common.Pick(r, []string{"dir", "dir", "fs", "tar"})) }
	if r.Chance(1, 3) {
		// the same layout as another tool would have written it
		e.do("foreign")
		e.do("reopen:dir")
	} else {
		e.do("gc")
		if r.Chance(3, 4) {
			e.do("reopen:dir")
		}
	}
	// delete the parents from the top, sometimes reopening in between
	for k := len(tower) - 1; k >= 0 && !e.failed; k-- {
		e.do(fmt.Sprintf("delete:%d", tower[k]))
		if r.Chance(2, 3) || k == 0 {
			reopen()
		}
		if r.Chance(1, 4) {
			e.do("gc")
			if r.Bool() {
				e.do("reopen:dir")
			}
		}
	}
	e.do("reopen:dir")
	reopen()
	run.Count("chain")
	e.finish(origin)
}

// genBurst: persistence of index.json under concurrent pushes.  Many goroutines push
// distinct manifests that share children into one OCI store (AutoSaveIndex), optionally
// together with Tag / Untag calls; immediately afterwards the layout is reopened in the
// three ways and every node is queried against the inverse edge list restricted to the
// blobs on disk.  A saveIndex that can write an older snapshot of the resolver over a newer
// one drops a manifest from index.json: the live graph is exact, the reopened one is not.
func genBurst(r *common.Rand, origin string) {
	var enc []dag.Encoded
	add := func(kind, mt string, b []byte, succ []int, subject int) int {
		enc = append(enc, dag.Encoded{Kind: kind, MediaType: mt, Bytes: b, Succ: succ, Subject: subject, TwinOf: -1})
		return len(enc) - 1
	}
	descOf := func(i int) ocispec.Descriptor {
		return content.NewDescriptorFromBytes(enc[i].MediaType, enc[i].Bytes)
	}
	salt := r.U64()
	nShared := 2 + r.Intn(3)
	var shared []int
	cfg := add(dag.KConfig, ocispec.MediaTypeImageConfig, []byte(fmt.Sprintf(`{"verif":"%x"}`, salt)), nil, -1)
	for i := 0; i < nShared; i++ {
		shared = append(shared, add(dag.KBlob, ocispec.MediaTypeImageLayer, []byte(fmt.Sprintf("layer-%d-%x", i, salt)), nil, -1))
	}
	image := func(id int, subject int) int {
		m := ocispec.Manifest{MediaType: ocispec.MediaTypeImageManifest, Config: descOf(cfg), Layers: []ocispec.Descriptor{},
			Annotations: map[string]string{"verif.id": fmt.Sprintf("%d-%x", id, salt)}}
		m.SchemaVersion = 2
		var succ []int
		if subject >= 0 {
			d := descOf(subject)
			m.Subject = &d
			succ = append(succ, subject)
		}
		succ = append(succ, cfg)
		for _, l := range shared {
			if r.Chance(1, 2) {
				m.Layers = append(m.Layers, descOf(l))
				succ = append(succ, l)
			}
		}
		b, _ := json.Marshal(m)
		return add(dag.KImage, ocispec.MediaTypeImageManifest, b, succ, subject)
	}
	index := func(id int, ms []int) int {
		ix := ocispec.Index{MediaType: ocispec.MediaTypeImageIndex, Manifests: []ocispec.Descriptor{},
			Annotations: map[string]string{"verif.id": fmt.Sprintf("%d-%x", id, salt)}}
		ix.SchemaVersion = 2
		var succ []int
		for _, m := range ms {
			ix.Manifests = append(ix.Manifests, descOf(m))
			succ = append(succ, m)
		}
		b, _ := json.Marshal(ix)
		return add(dag.KIndex, ocispec.MediaTypeImageIndex, b, succ, -1)
	}
	var pre []int
	for i := 0; i < 1+r.Intn(3); i++ {
		pre = append(pre, image(len(enc), -1))
	}
	// a manifest deleted inside some mixed blocks; never tagged or untagged
	victim := image(len(enc), -1)
	refs := append(append([]int(nil), pre...), victim)
	nBurst := 16 + r.Intn(17)
	var burst []int
	for i := 0; i < nBurst; i++ {
		switch x := r.Intn(10); {
		case x < 6:
			burst = append(burst, image(len(enc), -1))
		case x < 8:
			burst = append(burst, image(len(enc), common.Pick(r, refs))) // a referrer
		default:
			burst = append(burst, index(len(enc), []int{common.Pick(r, refs), common.Pick(r, pre)}))
		}
	}
	g := dag.Decode(enc)
	e := &xstore{u: newUniverse(g), kind: "oci", autoGC: r.Bool(), id: run.NewID(), origin: origin}
	if err := e.open(); err != nil {
		panic(err)
	}
	defer e.close()
	e.do(fmt.Sprintf("push:%d", cfg))
	for _, l := range shared {
		e.do(fmt.Sprintf("push:%d", l))
	}
	for _, m := range refs {
		e.do(fmt.Sprintf("push:%d", m))
	}
	mixed := r.Chance(1, 3)
	var items []string
	for _, m := range burst {
		items = append(items, strconv.Itoa(m))
	}
	if mixed {
		run.Count("burst-push-tag-untag")
		// names tagged beforehand are untagged inside the block, fresh names are tagged inside it
		for k, m := range pre {
			nm := fmt.Sprintf("old%d", k)
			e.do(fmt.Sprintf("tag:%d:%s", m, nm))
			items = append(items, "u="+nm)
		}
		for k := 0; k < 2+r.Intn(4); k++ {
			items = append(items, fmt.Sprintf("t%d=new%d", common.Pick(r, pre), k))
		}
		if r.Bool() {
			run.Count("burst-with-delete")
			items = append(items, fmt.Sprintf("x%d", victim))
		}
		common.Shuffle(r, items)
		e.do("cmix:" + strings.Join(items, "|"))
	} else {
		run.Count("burst-push")
		common.Shuffle(r, items)
		e.do("cpush:" + strings.Join(items, "|"))
	}
	run.Count(fmt.Sprintf("burst-goroutines-%02d", len(items)/8*8))
	for _, how := range []string{"fs", "tar", "dir"} {
		e.do("reopen:" + how)
	}
	e.finish(origin)
}

// permCases: every permutation of the push order of a small graph, on the raw
// graph.Memory and on the memory store through its public API.
func permCases(r *common.Rand, origin string) {
	o := dag.DefaultOptions()
	o.MinNodes, o.MaxNodes = 3, run.Scale(4, 6)
	o.Foreign = false
	g := dag.Random(r, o)
	var ids []int
	for _, n := range g.Nodes {
		ids = append(ids, n.ID)
	}
	var pre []string
	for _, n := range g.Nodes {
		if n.IsManifest() {
			pre = append(pre, fmt.Sprintf("+%d", n.ID))
		}
	}
	var sweep []string
	for _, n := range g.Nodes {
		sweep = append(sweep, fmt.Sprintf("Q%d", n.ID), fmt.Sprintf("E%d", n.ID))
	}
	var rec func(k int)
	perm := append([]int(nil), ids...)
	rec = func(k int) {
		if k == len(perm) {
			ops := append([]string(nil), pre...)
			for _, i := range perm {
				ops = append(ops, fmt.Sprintf("I%d", i))
			}
			runRaw(g, append(ops, sweep...), origin)
			run.Count("perm-raw")
			if len(perm) <= 5 {
				e := &xstore{u: newUniverse(g), kind: "memory", id: run.NewID(), origin: origin}
				if err := e.open(); err != nil {
					panic(err)
				}
				for _, i := range perm {
					e.do(fmt.Sprintf("push:%d", i))
				}
				e.finish(origin)
				e.close()
				run.Count("perm-memory-store")
			}
			return
		}
		for i := k; i < len(perm); i++ {
			perm[k], perm[i] = perm[i], perm[k]
			rec(k + 1)
			perm[k], perm[i] = perm[i], perm[k]
		}
	}
	rec(0)
}

func main() {
	if len(os.Args) == 3 && os.Args[1] == "-f1probe" {
		f1Probe(os.Args[2])
		return
	}
	run = common.Start("C07")
	run.Rule = "distinct (graph, history) pairs in which a Remove returned danglings or a node absent from the graph had predecessors (graph.Memory histories), or a store history containing a Delete, GC, reopen or concurrent push"
	f1Present = detectF1()
	run.Extra["gc_hang_F1_present"] = f1Present
	if run.Replay != "" {
		replay(run.Replay)
		run.Finish()
		return
	}
	nRaw := run.Scale(1500, 40000)
	nStore := run.Scale(360, 15000)
	for i := 0; i < nRaw; i++ {
		caseFromSeed("raw", run.Rand.U64())
	}
	for i := 0; i < run.Scale(4, 25); i++ {
		caseFromSeed("perm", run.Rand.U64())
	}
	for i := 0; i < run.Scale(150, 1500); i++ {
		caseFromSeed("burst", run.Rand.U64())
	}
	for i := 0; i < run.Scale(40, 1500); i++ {
		caseFromSeed("chain", run.Rand.U64())
	}
	for i := 0; i < run.Scale(120, 4000); i++ {
		caseFromSeed("ftitle", run.Rand.U64())
	}
	for i := 0; i < run.Scale(600, 20000); i++ {
		caseFromSeed("links", run.Rand.U64())
	}
	kinds := []string{"oci", "oci", "oci", "oci", "memory", "file"}
	for i := 0; i < nStore; i++ {
		caseFromSeed(kinds[i%len(kinds)], run.Rand.U64())
	}
	short := coverageFloors()
	run.Extra["coverage_floor_failures"] = short
	run.Finish()
	if len(short) > 0 {
		// a stream that silently stopped producing cases must not look like a pass
		fmt.Fprintln(os.Stderr, "coverage floors not met: "+strings.Join(short, "; "))
		os.Exit(3)
	}
}

// coverageFloors: minimum counts per stream / history feature (quick-tier values; the
// thorough tier produces far more).  Returns the unmet ones.
func coverageFloors() []string {
	floors := map[string]int{
		"raw": 1000, "raw-concurrent-index-block": 300, "raw-concurrent-mixed-block": 300, "perm-raw": 10, "perm-memory-store": 10,
		"burst-push": 50, "burst-push-tag-untag": 20, "chain": 30, "ftitle": 100,
		"file-push-error-but-stored": 10, "ftitle-manifest-alt": 30, "ftitle-manifest-bad": 10,
		"store-oci": 200, "store-memory": 40, "store-file": 40,
		"history-with-gc": 40, "history-with-delete": 60, "history-with-reopen": 60,
		"history-with-autogc-cascade": 5, "reopen-dir": 40, "reopen-fs": 15, "reopen-tar": 15,
		"foreign-roots-only-index": 10, "push-concurrent": 40, "order-parents-first": 40,
		"order-children-first": 40, "order-shuffled": 40, "query-absent-node-with-preds": 500,
		"chain-with-sha512-or-sha384": 8, "bad-manifest-push-refused": 10, "anytime-blocks-with-queries": 150, "tag-non-manifest": 5, "delete-absent": 5, "phase2-concurrent-push": 10, "autosave-off": 12, "saveindex": 8,
		"links-dockermanifest": 40, "links-imagemanifest": 40, "links-dockerlist": 40, "links-imageindex": 40,
		"links-artifact": 40, "links-other": 40,
	}
	var keys []string
	for k := range floors {
		keys = append(keys, k)
	}
	sort.Strings(keys)
	var short []string
	for _, k := range keys {
		if run.Dist[k] < floors[k] {
			short = append(short, fmt.Sprintf("%s=%d<%d", k, run.Dist[k], floors[k]))
		}
	}
	// GC outcomes that were not judged must stay a small minority
	if nj := run.Dist["gc-error-not-judged"] + run.Dist["gc-hang-not-judged"] + run.Dist["gc-hang-not-reproduced"] + run.Dist["gc-skipped-unsafe-shape"]; nj*2 > run.Dist["history-with-gc"] {
		short = append(short, fmt.Sprintf("gc-not-judged=%d vs history-with-gc=%d", nj, run.Dist["history-with-gc"]))
	}
	return short
}

func replay(path string) {
	for _, c := range common.ReadReplay(path) {
		switch c["kind"] {
		case "raw":
			if c["graph"] != "" {
				var enc []dag.Encoded
				if err := json.Unmarshal([]byte(c["graph"]), &enc); err != nil {
					panic(err)
				}
				runRaw(dag.Decode(enc), strings.Split(c["ops"], ","), "raw-replay")
			}
		case "store":
			var rep storeReplay
			rep.Kind, rep.Store = "store", c["store"]
			rep.AutoGC = c["autogc"] == "true"
			if err := json.Unmarshal([]byte(c["graph"]), &rep.Graph); err != nil {
				panic(err)
			}
			if err := json.Unmarshal([]byte(c["script"]), &rep.Script); err != nil {
				panic(err)
			}
			// a history with a concurrent block is schedule dependent: repeat it until it fails
			// (or 60 times)
			reps := 1
			for _, op := range rep.Script {
				if strings.HasPrefix(op, "cpush:") || strings.HasPrefix(op, "cmix:") {
					reps = 60
				}
			}
			before := run.OracleFails
			for k := 0; k < reps && run.OracleFails == before; k++ {
				replayStore(rep)
			}
		case "seed":
			s, _ := strconv.ParseUint(c["seed"], 10, 64)
			caseFromSeed(c["part"], s)
		}
	}
}
