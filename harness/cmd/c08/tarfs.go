// tarfs unit cases of C08: internal/fs/tarfs (through the verifhooks re-export) against
// Model/TarFS.v on random archives with "./"-style, unclean and duplicate names,
// directory / link entries and long names.
//
// case:  F <format> <clean id of raw name 0,1,..> E <raw:kind:content>* Q <cleaned path id>*
// obs:   per query D<content> | N (fs.ErrNotExist) | U (errdef.ErrUnsupported) | X...
package main

import (
	"archive/tar"
	"errors"
	"fmt"
	"io"
	"io/fs"
	"os"
	"path"
	"path/filepath"
	"strconv"
	"strings"

	"oras.land/oras-go/v2/errdef"
	"oras.land/oras-go/v2/verifhooks"
	"verifharness/common"
)

var rawNames = []string{
	"a", "./a", "a/", "d/b", "d//b", "./d/./b", "d/../a", "d", "d/", "./d/", "d/c/../b", "e",
	"blobs/sha256/" + strings.Repeat("0", 64), "./blobs/sha256/" + strings.Repeat("0", 64),
	"blobs/sha512/" + strings.Repeat("1", 128), "./blobs//sha512/" + strings.Repeat("1", 128),
	"index.json", "./index.json", "x/../index.json", "/a", "../a", "a/../../a", ".",
}

type tarEntry struct {
	Raw, Content int
	Kind         byte // r regular, d directory, s symlink, h hard link
}

func tarfsCase(rnd *common.Rand) {
	var es []tarEntry
	n := 1 + rnd.Intn(8)
	for i := 0; i < n; i++ {
		e := tarEntry{Raw: rnd.Intn(len(rawNames)), Content: 1 + rnd.Intn(6), Kind: 'r'}
		switch rnd.Intn(8) {
		case 0:
			e.Kind = 'd'
		case 1:
			e.Kind = 's'
		case 2:
			e.Kind = 'h'
		}
		if strings.HasSuffix(rawNames[e.Raw], "/") || rawNames[e.Raw] == "." {
			e.Kind = 'd' // archive/tar refuses other entries with a trailing slash
		}
		es = append(es, e)
	}
	runTarfsCase(es, rnd.Intn(3))
}

func runTarfsCase(es []tarEntry, format int) {
	id := run.NewID()
	// cleaned names -> ids
	cleanID := map[string]int{}
	var cleaned []string
	idOf := func(s string) int {
		if i, ok := cleanID[s]; ok {
			return i
		}
		cleanID[s] = len(cleaned)
		cleaned = append(cleaned, s)
		return len(cleaned) - 1
	}
	var cl []string
	for _, r := range rawNames {
		cl = append(cl, strconv.Itoa(idOf(path.Clean(r))))
	}
	absent := idOf("zz/absent")
	_ = absent
	dir, err := os.MkdirTemp("", "c08tar-")
	if err != nil {
		panic(err)
	}
	defer os.RemoveAll(dir)
	tp := filepath.Join(dir, "a.tar")
	f, err := os.Create(tp)
	if err != nil {
		panic(err)
	}
	tw := tar.NewWriter(f)
	var etoks []string
	for _, e := range es {
		data := []byte(fmt.Sprintf("content-%d", e.Content))
		h := &tar.Header{Name: rawNames[e.Raw], Mode: 0o644}
		switch format {
		case 1:
			h.Format = tar.FormatPAX
		case 2:
			h.Format = tar.FormatGNU
		}
		switch e.Kind {
		case 'r':
			h.Typeflag, h.Size = tar.TypeReg, int64(len(data))
		case 'd':
			h.Typeflag, h.Mode = tar.TypeDir, 0o755
		case 's':
			h.Typeflag, h.Linkname = tar.TypeSymlink, "a"
		case 'h':
			h.Typeflag, h.Linkname = tar.TypeLink, "a"
		}
		if err := tw.WriteHeader(h); err != nil {
			panic(fmt.Sprintf("tar header %q: %v", h.Name, err))
		}
		if e.Kind == 'r' {
			if _, err := tw.Write(data); err != nil {
				panic(err)
			}
		}
		etoks = append(etoks, fmt.Sprintf("%d:%c:%d", e.Raw, e.Kind, e.Content))
	}
	tw.Close()
	f.Close()
	fsys, err := verifhooks.NewTarFS(tp)
	if err != nil {
		run.Case(id, fmt.Sprintf("F %d ", format)+strings.Join(cl, ",")+" E "+strings.Join(etoks, " ")+" Q", "!new-"+errTok(err))
		return
	}
	var qs, out []string
	for i, p := range cleaned {
		if !fs.ValidPath(p) {
			continue
		}
		qs = append(qs, strconv.Itoa(i))
		tok := ""
		fi, serr := fs.Stat(fsys, p)
		fh, oerr := fsys.Open(p)
		switch {
		case oerr == nil && serr == nil:
			b, rerr := io.ReadAll(fh)
			fh.Close()
			var c int
			if rerr == nil && strings.HasPrefix(string(b), "content-") && fi.Size() == int64(len(b)) {
				c, _ = strconv.Atoi(string(b[len("content-"):]))
				tok = fmt.Sprintf("D%d", c)
			} else {
				tok = fmt.Sprintf("X-read-%v-%q-size%d", rerr, b, fi.Size())
			}
		case errors.Is(oerr, fs.ErrNotExist) && errors.Is(serr, fs.ErrNotExist):
			tok = "N"
		case errors.Is(oerr, errdef.ErrUnsupported) && errors.Is(serr, errdef.ErrUnsupported):
			tok = "U"
		default:
			tok = "X-" + strings.ReplaceAll(fmt.Sprintf("%v/%v", oerr, serr), " ", "_")
		}
		out = append(out, tok)
	}
	run.Case(id, fmt.Sprintf("F %d ", format)+strings.Join(cl, ",")+" E "+strings.Join(etoks, " ")+" Q "+strings.Join(qs, " "), strings.Join(out, " "))
	run.Count(fmt.Sprintf("tarfs:format%d", format))
	if len(es) <= 3 {
		run.Sample(map[string]any{"tarfs_entries": etoks, "format": format})
	}
}

// replayTarfs re-runs a case line "F <format> <clean> E <entries> Q ...".
func replayTarfs(line string) {
	f := strings.Fields(line)
	if len(f) < 4 || f[0] != "F" {
		return
	}
	format, _ := strconv.Atoi(f[1])
	var es []tarEntry
	for _, t := range f[4:] {
		if t == "Q" {
			break
		}
		p := strings.Split(t, ":")
		if len(p) != 3 {
			continue
		}
		r, _ := strconv.Atoi(p[0])
		c, _ := strconv.Atoi(p[2])
		es = append(es, tarEntry{Raw: r, Content: c, Kind: p[1][0]})
	}
	runTarfsCase(es, format)
}
