// C08 harness: an OCI-layout store on a real directory is driven through random
// histories of Push/Tag/Untag/Delete/GC/SaveIndex/reopen; at check points the
// directory is reopened three ways (oci.New, NewFromFS(os.DirFS), NewFromTar of a
// tar written here) and every public observation of the original and of the
// reopened stores is taken.
//
//   - cases.txt / impl.txt: the history and the canonical observations, compared
//     with the extracted Coq model (Model/OciIndex.v) by bin/check;
//   - oracle.txt: the property's own statement, independent of the model: at every
//     check point where index.json is supposed to be current (AutoSaveIndex, or
//     right after SaveIndex) each reopened store must answer exactly like the
//     original (tags, tag->descriptor up to the ref-name annotation, Resolve by
//     digest, Exists, Fetch, Predecessors), predecessors must equal the
//     generator's inverse edge list restricted to the stored manifests, and the
//     raw directory must be a valid image layout (own JSON + digest code).
package main

import (
	"archive/tar"
	"bytes"
	"context"
	_ "crypto/sha256"
	_ "crypto/sha512"
	"encoding/json"
	"errors"
	"fmt"
	"io"
	"io/fs"
	"os"
	"os/exec"
	"path/filepath"
	"reflect"
	"sort"
	"strconv"
	"strings"
	"testing/fstest"
	"time"

	"github.com/opencontainers/go-digest"
	ocispec "github.com/opencontainers/image-spec/specs-go/v1"
	"oras.land/oras-go/v2/content/oci"
	"oras.land/oras-go/v2/errdef"
	"verifharness/common"
	"verifharness/dag"
)

var run *common.Run
var ctx = context.Background()

// tag names: sorted (Go string order) so that the pool index order is the order
// in which Tags() must list them.  None of them is a digest string of a node.
var tagPool = func() []string {
	p := []string{"latest", "v1", "v1.0", "a tag with spaces", "<a&b>\"q\"", "sha256:abc", "ünï/çødé:tag", "UPPER_lower-0.9",
		"long-" + strings.Repeat("x", 300), "ctl\ttab\nnewline\x01\x7f", "\u2028sep\u00a0nbsp\U0001F600"}
	sort.Strings(p)
	return p
}()

const nExtra = 7

// a reference name that is not valid UTF-8 (op token B): encoding/json cannot store it
const badUTF8Name = "bad\xffutf8\xc0"

// Tags(last): two cursors, a pool name and a string that is no tag; lastFrom[i] is the pool
// index of the first name greater than lastNames[i]
var lastNames = []string{tagPool[1], "m"}
var lastFrom = func() []int {
	var out []int
	for _, l := range lastNames {
		n := 0
		for _, t := range tagPool {
			if t <= l {
				n++
			}
		}
		out = append(out, n)
	}
	return out
}()

// applyExtra returns the descriptor of a node with the x-th variant of
// "everything else a descriptor can carry".
func applyExtra(d ocispec.Descriptor, x int) ocispec.Descriptor {
	switch x {
	case 1:
		d.Annotations = map[string]string{"verif.k": "v1"}
	case 2:
		d.Annotations = map[string]string{"verif.k": "v2", "verif.html": "<&> "}
	case 3:
		d.Platform = &ocispec.Platform{Architecture: "arm64", OS: "linux"}
		d.ArtifactType = "application/vnd.verif.thing"
	case 4:
		d.Annotations = map[string]string{"org.opencontainers.image.title": "t.txt"}
		d.URLs = []string{"https://example.invalid/x?a=1&b=2"}
	case 5:
		d.Data = []byte("verif-embedded-data\x00\xff")
		d.Platform = &ocispec.Platform{Architecture: "arm", OS: "linux", Variant: "v7", OSVersion: "10.0", OSFeatures: []string{"win32k"}}
	case 6: // empty, non-nil containers: the same JSON as variant 0
		d.Annotations = map[string]string{}
		d.URLs = []string{}
	}
	return d
}

type history struct {
	AutoSave bool          `json:"autosave"`
	AutoGC   bool          `json:"autogc"`
	Graph    []dag.Encoded `json:"graph"`
	SHA512   []int         `json:"sha512"`          // nodes addressed by sha512 digests
	Bad      []int         `json:"bad,omitempty"`   // nodes with a manifest media type whose bytes are no JSON
	Holey    int           `json:"holey,omitempty"` // node with a long run of zeros (0 = none; node 0 is never it)
	Ops      []string      `json:"ops"`
	Meta     string        `json:"meta,omitempty"`
}

func buildGraph(h *history) *dag.Graph {
	g := dag.Decode(h.Graph)
	for _, i := range h.SHA512 {
		n := g.Nodes[i]
		n.Desc.Digest = digest.SHA512.FromBytes(n.Bytes)
	}
	return g
}

type target interface {
	Resolve(ctx context.Context, reference string) (ocispec.Descriptor, error)
	Exists(ctx context.Context, target ocispec.Descriptor) (bool, error)
	Fetch(ctx context.Context, target ocispec.Descriptor) (io.ReadCloser, error)
	Predecessors(ctx context.Context, node ocispec.Descriptor) ([]ocispec.Descriptor, error)
	Tags(ctx context.Context, last string, fn func(tags []string) error) error
}

// observation of one store, field by field (strings are canonical tokens)
type obs struct {
	Tags []string          // pool indices
	From []string          // Tags(last) for the cursors of lastNames
	RT   map[string]string // tag index -> "k.x" (descriptor up to the ref-name annotation)
	RTa  map[string]string // tag index -> ref-name annotation token
	RD   []string          // per node: D | B | N | X...
	E    []string          // per node: e0 | e1 (+ fetch anomalies)
	P    []string          // per node: sorted predecessor ids joined by '.'
}

func (o *obs) String() string {
	var b strings.Builder
	b.WriteString("tags=" + strings.Join(o.Tags, ","))
	for i, f := range o.From {
		fmt.Fprintf(&b, ";tf%d=%s", lastFrom[i], f)
	}
	keys := make([]int, 0, len(o.RT))
	for k := range o.RT {
		i, _ := strconv.Atoi(k)
		keys = append(keys, i)
	}
	sort.Ints(keys)
	for _, i := range keys {
		k := strconv.Itoa(i)
		fmt.Fprintf(&b, ";rt%s=%s.%s", k, o.RT[k], o.RTa[k])
	}
	for k := range o.RD {
		fmt.Fprintf(&b, ";k%d=%s,%s,p%s", k, o.RD[k], o.E[k], o.P[k])
	}
	return b.String()
}

type world struct {
	g      *dag.Graph
	byDgst map[digest.Digest]int
	tagIdx map[string]int
	bad    map[int]bool
}

func newWorld(g *dag.Graph) *world {
	w := &world{g: g, byDgst: map[digest.Digest]int{}, tagIdx: map[string]int{}}
	for _, n := range g.Nodes {
		w.byDgst[n.Desc.Digest] = n.ID
	}
	for i, t := range tagPool {
		w.tagIdx[t] = i
	}
	return w
}

func errTok(err error) string {
	switch {
	case err == nil:
		return "ok"
	case errors.Is(err, errdef.ErrAlreadyExists):
		return "exists"
	case errors.Is(err, errdef.ErrNotFound):
		return "notfound"
	case errors.Is(err, errdef.ErrInvalidReference):
		return "invalidref"
	case errors.Is(err, errdef.ErrMissingReference):
		return "missingref"
	}
	s := err.Error()
	if len(s) > 40 {
		s = s[:40]
	}
	return "err:" + strings.ReplaceAll(s, " ", "_")
}

func normAnn(m map[string]string) map[string]string {
	if len(m) == 0 {
		return nil
	}
	return m
}

// classify maps a resolved descriptor to "k.x" and the ref-name annotation token.
func (w *world) classify(d ocispec.Descriptor) (string, string) {
	k, ok := w.byDgst[d.Digest]
	if !ok {
		return "?digest", "?"
	}
	ann := "-"
	rest := map[string]string{}
	for a, v := range d.Annotations {
		if a == ocispec.AnnotationRefName {
			if i, ok := w.tagIdx[v]; ok {
				ann = "t" + strconv.Itoa(i)
			} else {
				ann = "?" + common.Hex(v)
			}
			continue
		}
		rest[a] = v
	}
	d.Annotations = normAnn(rest)
	// descriptors are compared as JSON documents (empty and absent containers are one value)
	js, _ := json.Marshal(d)
	for x := 0; x < nExtra; x++ {
		e := applyExtra(w.g.Nodes[k].Desc, x)
		e.Annotations = normAnn(e.Annotations)
		if ej, _ := json.Marshal(e); bytes.Equal(ej, js) {
			return fmt.Sprintf("%d.%d", k, x), ann
		}
	}
	return fmt.Sprintf("%d.?%s", k, common.Hex(string(js))), ann
}

func (w *world) observe(t target) *obs {
	o := &obs{RT: map[string]string{}, RTa: map[string]string{}}
	var names []string
	if err := t.Tags(ctx, "", func(tags []string) error { names = append(names, tags...); return nil }); err != nil {
		o.Tags = []string{"!" + errTok(err)}
	}
	for _, n := range names {
		if i, ok := w.tagIdx[n]; ok {
			o.Tags = append(o.Tags, strconv.Itoa(i))
		} else {
			o.Tags = append(o.Tags, "?"+common.Hex(n))
		}
	}
	for _, l := range lastNames {
		var after []string
		if err := t.Tags(ctx, l, func(tags []string) error { after = append(after, tags...); return nil }); err != nil {
			after = []string{"!" + errTok(err)}
		}
		var ids []string
		for _, n := range after {
			if i, ok := w.tagIdx[n]; ok {
				ids = append(ids, strconv.Itoa(i))
			} else {
				ids = append(ids, "?"+common.Hex(n))
			}
		}
		o.From = append(o.From, strings.Join(ids, ","))
	}
	for i, n := range tagPool {
		d, err := t.Resolve(ctx, n)
		if err != nil {
			if !errors.Is(err, errdef.ErrNotFound) {
				o.RT[strconv.Itoa(i)], o.RTa[strconv.Itoa(i)] = "!"+errTok(err), "-"
			}
			continue
		}
		o.RT[strconv.Itoa(i)], o.RTa[strconv.Itoa(i)] = w.classify(d)
	}
	for _, n := range w.g.Nodes {
		// Resolve by digest
		d, err := t.Resolve(ctx, n.Desc.Digest.String())
		switch {
		case err != nil && errors.Is(err, errdef.ErrNotFound):
			o.RD = append(o.RD, "N")
		case err != nil:
			o.RD = append(o.RD, "!"+errTok(err))
		case reflect.DeepEqual(d, n.Desc):
			o.RD = append(o.RD, "D")
		case reflect.DeepEqual(d, ocispec.Descriptor{MediaType: "application/octet-stream", Digest: n.Desc.Digest, Size: n.Desc.Size}):
			o.RD = append(o.RD, "B")
		default:
			js, _ := json.Marshal(d)
			o.RD = append(o.RD, "X"+common.Hex(string(js)))
		}
		// Exists + Fetch
		ex, err := t.Exists(ctx, n.Desc)
		e := "e0"
		if err != nil {
			e = "e!" + errTok(err)
		} else if ex {
			e = "e1"
		}
		rc, ferr := t.Fetch(ctx, n.Desc)
		if ferr == nil {
			got, rerr := io.ReadAll(rc)
			rc.Close()
			if rerr != nil || !bytes.Equal(got, n.Bytes) {
				e += "!fetch-bytes"
			} else if !ex {
				e += "!fetch-ok"
			}
		} else if ex || !errors.Is(ferr, errdef.ErrNotFound) {
			e += "!fetch-" + errTok(ferr)
		}
		o.E = append(o.E, e)
		// Predecessors
		ps, err := t.Predecessors(ctx, n.Desc)
		if err != nil {
			o.P = append(o.P, "!"+errTok(err))
			continue
		}
		var ids []int
		for _, p := range ps {
			if k, ok := w.byDgst[p.Digest]; ok && p.MediaType == w.g.Nodes[k].Desc.MediaType && p.Size == w.g.Nodes[k].Desc.Size {
				ids = append(ids, k)
			} else {
				ids = append(ids, 9999)
			}
		}
		sort.Ints(ids)
		ss := make([]string, len(ids))
		for i, k := range ids {
			ss[i] = strconv.Itoa(k)
		}
		o.P = append(o.P, strings.Join(ss, "."))
	}
	return o
}

// ---------- raw directory validation (own JSON + digest code) ----------

type rawIndex struct {
	SchemaVersion *int `json:"schemaVersion"`
	Manifests     []struct {
		MediaType   string            `json:"mediaType"`
		Digest      string            `json:"digest"`
		Size        *int64            `json:"size"`
		Annotations map[string]string `json:"annotations"`
	} `json:"manifests"`
}

// validateLayout returns (all index entries point to existing blobs, list of (signature, message)).
func validateLayout(dir string, ignore map[string]bool) (bool, [][2]string) {
	var bad [][2]string
	add := func(sig, msg string) { bad = append(bad, [2]string{sig, msg}) }
	lb, err := os.ReadFile(filepath.Join(dir, "oci-layout"))
	var lay struct {
		V string `json:"imageLayoutVersion"`
	}
	if err != nil || json.Unmarshal(lb, &lay) != nil || lay.V != "1.0.0" {
		add("layout-oci-layout", fmt.Sprintf("oci-layout unreadable or wrong version: %v %q", err, lb))
	}
	ib, err := os.ReadFile(filepath.Join(dir, "index.json"))
	var idx rawIndex
	if err != nil {
		add("layout-index-parse", "index.json unreadable: "+fmt.Sprint(err))
		return false, bad
	}
	dec := json.NewDecoder(bytes.NewReader(ib))
	if err := dec.Decode(&idx); err != nil || idx.SchemaVersion == nil || *idx.SchemaVersion != 2 {
		add("layout-index-parse", fmt.Sprintf("index.json does not parse as an image index: %v %q", err, ib))
		return false, bad
	}
	if dec.More() {
		add("layout-index-parse", "index.json has trailing data")
	}
	// nothing but the layout: no temporary files of interrupted or finished writes
	if top, err := os.ReadDir(dir); err == nil {
		for _, e := range top {
			switch e.Name() {
			case "oci-layout", "index.json", "blobs":
			case "ingest":
				if left, _ := os.ReadDir(filepath.Join(dir, "ingest")); len(left) > 0 {
					add("layout-leftover-file", fmt.Sprintf("ingest/ holds %d file(s) at a quiescent point, e.g. %s", len(left), left[0].Name()))
				}
			default:
				add("layout-leftover-file", "unexpected entry in the layout directory: "+e.Name())
			}
		}
	}
	// blobs: name = digest of bytes
	sizes := map[string]int64{}
	blobsDir := filepath.Join(dir, "blobs")
	algs, _ := os.ReadDir(blobsDir)
	for _, a := range algs {
		if !a.IsDir() || ignore[filepath.Join(blobsDir, a.Name())] {
			continue
		}
		alg := digest.Algorithm(a.Name())
		files, _ := os.ReadDir(filepath.Join(blobsDir, a.Name()))
		for _, f := range files {
			if ignore[filepath.Join(blobsDir, a.Name(), f.Name())] {
				continue
			}
			data, err := os.ReadFile(filepath.Join(blobsDir, a.Name(), f.Name()))
			if err != nil {
				add("layout-blob-read", f.Name()+": "+err.Error())
				continue
			}
			if !alg.Available() || alg.FromBytes(data).Encoded() != f.Name() {
				add("layout-blob-digest", fmt.Sprintf("blob file %s/%s is not named by the digest of its bytes", a.Name(), f.Name()))
			}
			sizes[a.Name()+":"+f.Name()] = int64(len(data))
		}
	}
	all := true
	seenRef := map[string]bool{}
	for _, m := range idx.Manifests {
		sz, ok := sizes[m.Digest]
		ref, named := m.Annotations[ocispec.AnnotationRefName]
		if !ok {
			all = false
		}
		if named {
			if !ok {
				add("layout-named-entry-missing-blob", fmt.Sprintf("index.json entry %q -> %s: no such blob", ref, m.Digest))
			} else if m.Size == nil || *m.Size != sz {
				add("layout-named-entry-size", fmt.Sprintf("index.json entry %q -> %s: recorded size differs from the blob's %d", ref, m.Digest, sz))
			}
			if seenRef[ref] {
				add("layout-duplicate-ref", fmt.Sprintf("index.json has two entries named %q", ref))
			}
			seenRef[ref] = true
		}
	}
	return all, bad
}

// ---------- tar of a layout directory ----------

// writeTar archives the layout directory in one of several styles a tar of an image layout
// comes in (internal/fs/tarfs must give the same view for all of them):
//
//	0 plain names, format chosen by archive/tar (USTAR; PAX for the long sha512 names)
//	1 "./"-prefixed names with directory entries (tar -C dir .)
//	2 PAX forced for every entry, no directory entries
//	3 GNU format (long names through ././@LongLink)
//	4 like 0, preceded by stale copies of index.json and oci-layout (appended archives: the last entry wins)
//	5 like 1 with "//" and "/./" inside names (path.Clean)
//
// styles 6.. are archives made by the tar tools of the machine (GNU tar, bsdtar): default
// formats and sparse members (-S; zero runs found by reading) in PAX 1.0, PAX 0.1 and old GNU
// form.  A missing GNU tar is a failure of the run, not a silent pass; bsdtar is not part of the
// base system (on this image it only exists inside a conda prefix that a login shell does not put
// on PATH), so without it style 10 falls back to style 9 and the run records "tar:style10-unavailable".
const nTarStyles = 11

var toolArgs = map[int][]string{
	6:  {"tar", "--format=gnu"},
	7:  {"tar", "-S", "--hole-detection=raw", "--format=posix"},
	8:  {"tar", "-S", "--hole-detection=raw", "--format=posix", "--sparse-version=0.1"},
	9:  {"tar", "-S", "--hole-detection=raw", "--format=gnu"},
	10: {"bsdtar"},
}

func writeTarTool(dir, out string, style int) error {
	a := toolArgs[style]
	if a[0] == "bsdtar" {
		if _, err := exec.LookPath("bsdtar"); err != nil {
			run.Count("tar:style10-unavailable(bsdtar)")
			return writeTarTool(dir, out, 9)
		}
	}
	src := dir
	if a[0] == "bsdtar" {
		// bsdtar finds holes with lseek: archive a copy whose zero runs are real holes
		src = out + ".copy"
		os.RemoveAll(src)
		if o, err := exec.Command("cp", "-a", "--sparse=always", dir, src).CombinedOutput(); err != nil {
			return fmt.Errorf("cp --sparse: %v %s", err, o)
		}
		defer os.RemoveAll(src)
	}
	args := append(append([]string{}, a[1:]...), "-cf", out, "-C", src, "--exclude=./ingest", ".")
	cmd := exec.Command(a[0], args...)
	cmd.Env = append(os.Environ(), "LC_ALL=C")
	if o, err := cmd.CombinedOutput(); err != nil {
		return fmt.Errorf("%s %v: %v %s", a[0], args, err, o)
	}
	run.Count(fmt.Sprintf("tar:style%d(%s)", style, strings.Join(a, "_")))
	return nil
}

func writeTar(dir, out string, style int) error {
	if style >= 6 {
		return writeTarTool(dir, out, style)
	}
	f, err := os.Create(out)
	if err != nil {
		return err
	}
	defer f.Close()
	tw := tar.NewWriter(f)
	run.Count(fmt.Sprintf("tar:style%d", style))
	if style == 4 {
		for _, st := range [][2]string{{"index.json", `{"schemaVersion":2,"manifests":[{"mediaType":"application/vnd.oci.image.manifest.v1+json","digest":"sha256:0000000000000000000000000000000000000000000000000000000000000000","size":7,"annotations":{"org.opencontainers.image.ref.name":"stale"}}]}`},
			{"oci-layout", `{"imageLayoutVersion":"0.9.0"}`}} {
			if err := tw.WriteHeader(&tar.Header{Typeflag: tar.TypeReg, Name: st[0], Mode: 0o644, Size: int64(len(st[1]))}); err != nil {
				return err
			}
			if _, err := tw.Write([]byte(st[1])); err != nil {
				return err
			}
		}
	}
	err = filepath.WalkDir(dir, func(p string, d fs.DirEntry, err error) error {
		if err != nil {
			return err
		}
		rel, _ := filepath.Rel(dir, p)
		if rel == "." {
			return nil
		}
		if rel == "ingest" {
			return filepath.SkipDir
		}
		fi, err := d.Info()
		if err != nil {
			return err
		}
		if fi.IsDir() && (style == 2 || style == 3) {
			return nil
		}
		hdr, err := tar.FileInfoHeader(fi, "")
		if err != nil {
			return err
		}
		hdr.Name = filepath.ToSlash(rel)
		if len(hdr.Name) > 100 && fi.Mode().IsRegular() {
			run.Count("tar:blob-name-over-100-bytes")
		}
		switch style {
		case 1:
			hdr.Name = "./" + hdr.Name
		case 2:
			hdr.Format = tar.FormatPAX
			hdr.PAXRecords = map[string]string{"VERIF.note": "x"}
		case 3:
			hdr.Format = tar.FormatGNU
		case 5:
			hdr.Name = "./" + strings.Replace(hdr.Name, "/", "//", 1)
			hdr.Name = strings.Replace(hdr.Name, "//", "/.//", 1)
		}
		if fi.IsDir() {
			hdr.Name += "/"
		}
		if err := tw.WriteHeader(hdr); err != nil {
			return err
		}
		if fi.Mode().IsRegular() {
			data, err := os.ReadFile(p)
			if err != nil {
				return err
			}
			if _, err := tw.Write(data); err != nil {
				return err
			}
		}
		return nil
	})
	if err != nil {
		return err
	}
	return tw.Close()
}

// ---------- running one history ----------

type runner struct {
	h      *history
	w      *world
	dir    string
	store  *oci.Store
	synced bool // index.json is supposed to be current
	truth  bool // predecessor ground truth applicable
	id     string
	out    []string
	failed map[string]bool
	hung   bool
	strays []strayFile // files put under blobs/ that are no content of the store
	// watchdog confirmation run / case without verdict (timeout not confirmed)
	confirming, dropped bool
	// a descriptor that does not describe the stored content was passed (outside the property)
	unjudged bool
	autogc   bool // current value of Store.AutoGC
}

const gcWatchdog = 300 * time.Second

// confirmHang drives a fresh store through the history so far (check points left out);
// true if its last operation (the GC) times out again.
func (r *runner) confirmHang() bool {
	h := *r.h
	ops := h.Ops
	h.Ops = nil
	c := newRunner(&h)
	c.confirming = true
	defer os.RemoveAll(filepath.Dir(c.dir))
	for _, op := range ops {
		if op[0] == 'C' {
			continue
		}
		c.h.Ops = append(c.h.Ops, op)
		c.exec(op)
		if c.hung {
			return true
		}
	}
	return false
}

type strayFile struct {
	tok  string // x<kind><id>
	path string
}

func (r *runner) fail(sig, msg string) {
	if r.unjudged && sig != "gc-hang" {
		return
	}
	if r.failed[sig] {
		return
	}
	r.failed[sig] = true
	h := *r.h
	run.OracleFail(r.id, sig, msg, &h)
}

func (r *runner) open() error {
	s, err := oci.New(r.dir)
	if err != nil {
		return err
	}
	s.AutoSaveIndex = r.h.AutoSave
	s.AutoGC = r.autogc
	r.store = s
	return nil
}

func (r *runner) present(k int) bool {
	ok, _ := r.store.Exists(ctx, r.w.g.Nodes[k].Desc)
	return ok
}

// exec runs one op token against the implementation; returns the result token.
func (r *runner) exec(op string) string {
	g := r.w.g
	arg := op[1:]
	switch op[0] {
	case 'P', 'Q': // Q: the pushed descriptor carries annotations etc. (and maybe a ref name)
		f := strings.Split(arg, ":")
		k, _ := strconv.Atoi(f[0])
		n := g.Nodes[k]
		pd := n.Desc
		if op[0] == 'Q' {
			x, _ := strconv.Atoi(f[1])
			pd = applyExtra(n.Desc, x)
			if f[2] != "-" {
				a, _ := strconv.Atoi(f[2])
				ann := map[string]string{}
				for kk, v := range pd.Annotations {
					ann[kk] = v
				}
				ann[ocispec.AnnotationRefName] = tagPool[a]
				pd.Annotations = ann
			}
		}
		err := r.store.Push(ctx, pd, bytes.NewReader(n.Bytes))
		res := errTok(err)
		if err != nil && r.w.bad[k] && !errors.Is(err, errdef.ErrAlreadyExists) {
			res = "badcontent" // content.Successors cannot decode the manifest
		}
		if !r.h.AutoSave && res == "ok" && n.IsManifest() {
			r.synced = false
		}
		return res
	case 'T':
		f := strings.Split(arg, ":")
		k, _ := strconv.Atoi(f[0])
		x, _ := strconv.Atoi(f[1])
		d := applyExtra(g.Nodes[k].Desc, x)
		if f[2] != "-" {
			a, _ := strconv.Atoi(f[2])
			ann := map[string]string{}
			for kk, v := range d.Annotations {
				ann[kk] = v
			}
			ann[ocispec.AnnotationRefName] = tagPool[a]
			d.Annotations = ann
		}
		ref := d.Digest.String()
		if f[3] == "B" {
			ref = badUTF8Name
		} else if f[3][0] == 'D' { // the digest string of other content (node j; j = #nodes: a digest of nothing)
			j, _ := strconv.Atoi(f[3][1:])
			if j < len(g.Nodes) {
				ref = g.Nodes[j].Desc.Digest.String()
			} else {
				ref = digest.FromString("outside the universe").String()
			}
		} else if f[3] != "d" {
			t, _ := strconv.Atoi(f[3])
			ref = tagPool[t]
		}
		res := errTok(r.store.Tag(ctx, d, ref))
		if !r.h.AutoSave && res == "ok" {
			r.synced = false
		}
		return res
	case 'U', 'V':
		var ref string
		k, _ := strconv.Atoi(arg)
		if op[0] == 'U' {
			ref = tagPool[k]
		} else {
			ref = g.Nodes[k].Desc.Digest.String()
		}
		res := errTok(r.store.Untag(ctx, ref))
		if !r.h.AutoSave && res == "ok" {
			r.synced = false
		}
		return res
	case 'D':
		k, _ := strconv.Atoi(arg)
		res := errTok(r.store.Delete(ctx, g.Nodes[k].Desc))
		if !r.h.AutoSave {
			r.synced = false
		}
		return res
	case 'G':
		done := make(chan error, 1)
		st := r.store
		go func() { done <- st.GC(ctx) }()
		select {
		case err := <-done:
			if !r.h.AutoSave {
				r.synced = false
			}
			return errTok(err)
		case <-time.After(gcWatchdog):
			// GC works for milliseconds; the bound is generous because a loaded machine
			// stalled a run for more than 20 s once, and a timeout is only reported when
			// a fresh store driven through the same history times out again
			r.hung = true
			if !r.confirming && r.confirmHang() {
				r.fail("gc-hang", fmt.Sprintf("GC did not return within %v, twice (fresh store, same history)", gcWatchdog))
			} else if !r.confirming {
				run.Count("gc-watchdog-fired-not-confirmed(case dropped)")
				r.dropped = true
			}
			return "hang"
		}
	case 'S':
		res := errTok(r.store.SaveIndex())
		if res == "ok" {
			r.synced = true
		}
		return res
	case 'R':
		if !r.synced {
			r.truth = false
		}
		if err := r.open(); err != nil {
			r.fail("reopen-error", "oci.New on the store's own directory: "+err.Error())
			return "err:" + errTok(err)
		}
		return "ok"
	case 'C':
		return r.checkpoint()
	case 'A': // assignment to the public field
		r.autogc = arg == "1"
		r.store.AutoGC = r.autogc
		return "ok"
	case 'W', 'M': // Tag with a descriptor of the wrong size / another media type: not judged
		f := strings.Split(arg, ":")
		k, _ := strconv.Atoi(f[0])
		t, _ := strconv.Atoi(f[1])
		d := g.Nodes[k].Desc
		if op[0] == 'W' {
			d.Size += 1 + int64(t)
		} else if d.MediaType == "application/octet-stream" {
			d.MediaType = ocispec.MediaTypeImageManifest
		} else {
			d.MediaType = "application/octet-stream"
		}
		r.unjudged = true
		r.synced = false
		return errTok(r.store.Tag(ctx, d, tagPool[t]))
	case 'I': // node bytes written as a blob file behind the store's back
		k, _ := strconv.Atoi(arg)
		n := g.Nodes[k]
		p := filepath.Join(r.dir, "blobs", n.Desc.Digest.Algorithm().String(), n.Desc.Digest.Encoded())
		if _, err := os.Stat(p); err != nil {
			if err := os.MkdirAll(filepath.Dir(p), 0o777); err != nil {
				panic(err)
			}
			if err := os.WriteFile(p, n.Bytes, 0o444); err != nil {
				panic(err)
			}
		}
		return "ok"
	case 'X': // a file under blobs/ that is no content
		id := arg[1:]
		var p string
		blobs := filepath.Join(r.dir, "blobs")
		switch arg[0] {
		case 'v':
			p = filepath.Join(blobs, "sha256", digest.FromString("stray-valid-"+id).Encoded())
		case 'i':
			p = filepath.Join(blobs, "sha256", "stray-"+id+".tmp")
		case 'a':
			p = filepath.Join(blobs, "sha999", digest.FromString("stray-alg-"+id).Encoded())
			r.strays = append(r.strays, strayFile{"-", filepath.Dir(p)})
		case 'f':
			p = filepath.Join(blobs, "stray-"+id)
		}
		if err := os.MkdirAll(filepath.Dir(p), 0o777); err != nil {
			panic(err)
		}
		if err := os.WriteFile(p, []byte("not content "+id), 0o444); err != nil {
			panic(err)
		}
		r.strays = append(r.strays, strayFile{"x" + arg, p})
		return "ok"
	}
	panic("bad op " + op)
}

func (r *runner) checkpoint() string {
	w := r.w
	orig := w.observe(r.store)
	parts := []string{orig.String()}
	type way struct {
		name string
		open func() (target, error)
	}
	tarPath := r.dir + ".tar"
	ways := []way{
		{"oci.New", func() (target, error) { return oci.New(r.dir) }},
		{"NewFromFS(os.DirFS)", func() (target, error) { return oci.NewFromFS(ctx, os.DirFS(r.dir)) }},
		{"NewFromFS(fstest.MapFS)", func() (target, error) {
			m := fstest.MapFS{}
			err := filepath.WalkDir(r.dir, func(p string, d fs.DirEntry, err error) error {
				if err != nil || d.IsDir() {
					return err
				}
				rel, _ := filepath.Rel(r.dir, p)
				data, err := os.ReadFile(p)
				if err != nil {
					return err
				}
				m[filepath.ToSlash(rel)] = &fstest.MapFile{Data: data, Mode: 0o444}
				return nil
			})
			if err != nil {
				panic(err)
			}
			return oci.NewFromFS(ctx, m)
		}},
		{"NewFromTar", func() (target, error) {
			style := len(r.h.Ops) % nTarStyles
			if err := writeTar(r.dir, tarPath, style); err != nil {
				panic(err)
			}
			if style >= 7 && r.h.Holey > 0 && r.present(r.h.Holey) {
				run.Count("tar:sparse-member-archived")
			}
			return oci.NewFromTar(ctx, tarPath)
		}},
	}
	indexBefore, _ := os.ReadFile(filepath.Join(r.dir, "index.json"))
	// ground truth for predecessors: stored manifests that list the node
	var truth []string
	for _, n := range w.g.Nodes {
		var ids []string
		for _, p := range w.g.Preds(n.ID) {
			if w.g.Nodes[p].IsManifest() && r.present(p) {
				ids = append(ids, strconv.Itoa(p))
			}
		}
		truth = append(truth, strings.Join(ids, "."))
	}
	if r.synced && r.truth {
		for k := range truth {
			if orig.P[k] != truth[k] {
				r.fail("preds-truth", fmt.Sprintf("original store: Predecessors(node %d) = [%s], stored manifests listing it = [%s]", k, orig.P[k], truth[k]))
			}
		}
	}
	for _, wy := range ways {
		t, err := wy.open()
		if err != nil {
			parts = append(parts, "!open-"+errTok(err))
			if r.synced {
				r.fail("reopen-error", wy.name+": "+err.Error())
			}
			continue
		}
		o := w.observe(t)
		parts = append(parts, o.String())
		run.Count("reopen:" + wy.name)
		if !r.synced {
			continue
		}
		cmp := func(sig string, a, b any) {
			if !reflect.DeepEqual(a, b) {
				r.fail(sig, fmt.Sprintf("%s differs from the original store: reopened %v, original %v", wy.name, a, b))
			}
		}
		cmp("reopen-tags", o.Tags, orig.Tags)
		cmp("reopen-tags-last", o.From, orig.From)
		cmp("reopen-resolve-tag", o.RT, orig.RT)
		cmp("reopen-resolve-digest", o.RD, orig.RD)
		cmp("reopen-exists-fetch", o.E, orig.E)
		cmp("reopen-predecessors", o.P, orig.P)
		for k, e := range o.E {
			if strings.Contains(e, "!") {
				r.fail("fetch", fmt.Sprintf("%s: node %d: %s", wy.name, k, e))
			}
		}
		if r.truth {
			for k := range truth {
				if o.P[k] != truth[k] {
					r.fail("preds-truth", fmt.Sprintf("%s: Predecessors(node %d) = [%s], stored manifests listing it = [%s]", wy.name, k, o.P[k], truth[k]))
				}
			}
		}
	}
	os.Remove(tarPath)
	if after, _ := os.ReadFile(filepath.Join(r.dir, "index.json")); !bytes.Equal(after, indexBefore) {
		r.fail("reopen-rewrites-index", fmt.Sprintf("opening the directory changed index.json: %q -> %q", indexBefore, after))
	}
	ignore := map[string]bool{}
	var xs []string
	for _, st := range r.strays {
		ignore[st.path] = true
		if st.tok == "-" {
			continue
		}
		if _, err := os.Stat(st.path); err == nil {
			xs = append(xs, st.tok+"=1")
		} else {
			xs = append(xs, st.tok+"=0")
		}
	}
	all, bad := validateLayout(r.dir, ignore)
	if r.synced {
		for _, b := range bad {
			r.fail(b[0], b[1])
		}
		run.Count("checkpoint:synced")
	} else {
		run.Count("checkpoint:unsynced")
	}
	v := "v0"
	if all {
		v = "v1"
	}
	return "C[" + strings.Join(parts, "|") + "|" + v + "|x:" + strings.Join(xs, ",") + "]"
}

// ---------- generator ----------

// gcClosure mirrors what a GC keeps in its graph from a set of roots (ground truth edges).
func (r *runner) closure(roots []int) map[int]bool {
	seen := map[int]bool{}
	var rec func(int)
	rec = func(k int) {
		if seen[k] {
			return
		}
		n := r.w.g.Nodes[k]
		if n.IsManifest() {
			if !r.present(k) {
				return
			}
			seen[k] = true
			for _, s := range n.Succ {
				rec(s)
			}
		} else {
			seen[k] = true
		}
	}
	for _, k := range roots {
		rec(k)
	}
	return seen
}

func (r *runner) taggedNodes() []int {
	var out []int
	for _, t := range tagPool {
		if d, err := r.store.Resolve(ctx, t); err == nil {
			if k, ok := r.w.byDgst[d.Digest]; ok {
				out = append(out, k)
			}
		}
	}
	return out
}

// gcOffenders: stored manifests without a tag whose subject is outside the tagged
// closure (the trigger of the GC hang owned by C09; never generated here).
func (r *runner) gcOffenders() []int {
	tg := r.taggedNodes()
	cl := r.closure(tg)
	isTagged := map[int]bool{}
	for _, k := range tg {
		isTagged[k] = true
	}
	var out []int
	for _, n := range r.w.g.Nodes {
		if n.IsManifest() && n.Subject >= 0 && !isTagged[n.ID] && r.present(n.ID) && !cl[n.Subject] {
			out = append(out, n.ID)
		}
	}
	return out
}

func (r *runner) do(op string) {
	r.h.Ops = append(r.h.Ops, op) // before exec: a replay written by the oracle includes the failing check point
	res := r.exec(op)
	r.out = append(r.out, res)
	if op[0] == 'W' || op[0] == 'M' {
		run.Count("unjudged:tag-with-inconsistent-descriptor(" + op[:1] + ")")
	} else if op[0] == 'X' {
		run.Count("op:X" + op[1:2])
	} else if op[0] != 'C' {
		run.Count("op:" + op[:1] + ":" + strings.SplitN(res, ":", 2)[0])
	}
}

func (r *runner) generate(rnd *common.Rand, nops int) {
	g := r.w.g
	var real []int
	for _, n := range g.Nodes {
		if !n.Foreign() {
			real = append(real, n.ID)
		}
	}
	pickPresent := func() (int, bool) {
		var ps []int
		for _, k := range real {
			if r.present(k) {
				ps = append(ps, k)
			}
		}
		if len(ps) == 0 {
			return 0, false
		}
		return common.Pick(rnd, ps), true
	}
	for len(r.h.Ops) < nops && !r.hung {
		c := rnd.Intn(100)
		switch {
		case c < 40: // push
			k := common.Pick(rnd, real)
			if rnd.Chance(1, 3) {
				// closure, children first
				var order []int
				seen := map[int]bool{}
				var rec func(int)
				rec = func(i int) {
					if seen[i] || g.Nodes[i].Foreign() {
						return
					}
					seen[i] = true
					for _, s := range g.Nodes[i].Succ {
						rec(s)
					}
					order = append(order, i)
				}
				rec(k)
				for _, i := range order {
					if !r.present(i) || i == k {
						r.do(fmt.Sprintf("P%d", i))
					}
				}
			} else if rnd.Chance(1, 6) {
				a := "-"
				if rnd.Chance(1, 4) {
					a = strconv.Itoa(rnd.Intn(len(tagPool)))
				}
				r.do(fmt.Sprintf("Q%d:%d:%s", k, 1+rnd.Intn(nExtra-1), a))
			} else {
				r.do(fmt.Sprintf("P%d", k))
			}
		case c < 61: // tag
			k := common.Pick(rnd, real)
			if p, ok := pickPresent(); ok && rnd.Chance(9, 10) {
				k = p
			}
			x := 0
			if rnd.Chance(2, 5) {
				x = 1 + rnd.Intn(nExtra-1)
			}
			a := "-"
			if rnd.Chance(1, 5) {
				a = strconv.Itoa(rnd.Intn(len(tagPool)))
			}
			t := rnd.Intn(len(tagPool))
			ref := strconv.Itoa(t)
			if rnd.Chance(1, 10) {
				ref = "d"
			} else if rnd.Chance(1, 25) {
				ref = "B"
				run.Count("tag:invalid-utf8-reference")
			} else if rnd.Chance(1, 12) {
				j := rnd.Intn(len(g.Nodes) + 1)
				if j != k {
					ref = fmt.Sprintf("D%d", j)
					run.Count("tag:foreign-digest-reference")
				}
			}
			r.do(fmt.Sprintf("T%d:%d:%s:%s", k, x, a, ref))
		case c < 69: // untag
			if rnd.Chance(1, 8) {
				r.do(fmt.Sprintf("V%d", common.Pick(rnd, real)))
			} else {
				t := rnd.Intn(len(tagPool))
				var have []int
				for i, n := range tagPool {
					if _, err := r.store.Resolve(ctx, n); err == nil {
						have = append(have, i)
					}
				}
				if len(have) > 0 && rnd.Chance(4, 5) {
					t = common.Pick(rnd, have)
				}
				r.do(fmt.Sprintf("U%d", t))
			}
		case c < 79: // delete
			{
				k := common.Pick(rnd, real)
				if p, ok := pickPresent(); ok && rnd.Chance(4, 5) {
					k = p
				}
				if r.autogc {
					for _, p := range g.Preds(k) {
						if g.Nodes[p].Subject == k && r.present(p) {
							run.Count("delete:autogc-with-stored-referrer")
							break
						}
					}
				}
				r.do(fmt.Sprintf("D%d", k))
			}
		case c < 83: // GC
			if len(r.gcOffenders()) > 0 {
				// untagged manifests whose subject is outside the tagged closure (subject
				// chains, referrers of referrers, referrers of garbage)
				run.Count("gc:with-untagged-subject-chains")
			}
			r.do("G")
		case c < 87: // SaveIndex
			r.do("S")
		case c < 90: // reopen read-write (only when index.json is current)
			if r.synced {
				r.do("R")
			}
		case c < 91 && rnd.Chance(1, 3): // AutoGC is a public field
			if r.autogc {
				r.do("A0")
			} else {
				r.do("A1")
			}
		case c < 91 && rnd.Chance(1, 4): // caller inconsistency (not judged, must not crash or hang)
			if p, ok := pickPresent(); ok {
				r.do(fmt.Sprintf("%s%d:%d", common.Pick(rnd, []string{"W", "M"}), p, rnd.Intn(len(tagPool))))
			}
		case c < 92: // a layer appears in blobs/ without Push
			var ls []int
			for _, k := range real {
				if !g.Nodes[k].IsManifest() {
					ls = append(ls, k)
				}
			}
			if len(ls) > 0 {
				r.do(fmt.Sprintf("I%d", common.Pick(rnd, ls)))
			}
		case c < 94: // stray file under blobs/
			r.do(fmt.Sprintf("X%s%d", common.Pick(rnd, []string{"v", "v", "i", "a", "f"}), len(r.strays)))
		default:
			r.do("C")
		}
	}
	if r.hung {
		return
	}
	if !r.h.AutoSave {
		r.do("S")
	}
	r.do("C")
}

func isBad(h *history, k int) bool {
	for _, b := range h.Bad {
		if b == k {
			return true
		}
	}
	return false
}

func caseLine(h *history, g *dag.Graph) string {
	var b strings.Builder
	bit := func(x bool) string {
		if x {
			return "1"
		}
		return "0"
	}
	meta := h.Meta
	if meta == "" {
		meta = "-"
	}
	fmt.Fprintf(&b, "H %s %s %s %d %d %d,%d", meta, bit(h.AutoSave), bit(h.AutoGC), len(g.Nodes), len(tagPool), lastFrom[0], lastFrom[1])
	for _, n := range g.Nodes {
		fl := "b"
		if n.IsManifest() {
			fl = "m"
		}
		if n.Desc.MediaType == "application/octet-stream" {
			fl += "d"
		} else {
			fl += "-"
		}
		switch n.Desc.MediaType {
		case ocispec.MediaTypeImageManifest, ocispec.MediaTypeImageIndex, dag.MTArtifactManifest:
			fl += "s"
		default:
			fl += "-"
		}
		if isBad(h, n.ID) {
			fl += "x"
		} else {
			fl += "-"
		}
		su := "-"
		if len(n.Succ) > 0 {
			ss := make([]string, len(n.Succ))
			for i, s := range n.Succ {
				ss[i] = strconv.Itoa(s)
			}
			su = strings.Join(ss, ",")
		}
		sb := "-"
		if n.Subject >= 0 {
			sb = strconv.Itoa(n.Subject)
		}
		fmt.Fprintf(&b, " %s:%s:%s", fl, su, sb)
	}
	for _, op := range h.Ops {
		b.WriteString(" " + op)
	}
	return b.String()
}

func newRunner(h *history) *runner {
	g := buildGraph(h)
	dir, err := os.MkdirTemp("", "c08-")
	if err != nil {
		panic(err)
	}
	w := newWorld(g)
	w.bad = map[int]bool{}
	for _, b := range h.Bad {
		w.bad[b] = true
	}
	r := &runner{h: h, w: w, autogc: h.AutoGC, dir: filepath.Join(dir, "layout"), synced: true, truth: true,
		id: run.NewID(), failed: map[string]bool{}}
	if err := r.open(); err != nil {
		panic(err)
	}
	return r
}

func (r *runner) finish() {
	g := r.w.g
	if r.dropped {
		os.RemoveAll(filepath.Dir(r.dir))
		return
	}
	run.Case(r.id, caseLine(r.h, g), strings.Join(r.out, " "))
	os.RemoveAll(filepath.Dir(r.dir))
	os.Remove(r.dir + ".tar")
	canon := caseLine(r.h, g)
	interesting := false
	for _, op := range r.h.Ops {
		switch op[0] {
		case 'U', 'D', 'G', 'R':
			interesting = true
		}
	}
	if interesting {
		run.Nontrivial(canon)
	}
	if interesting && len(r.h.Ops) <= 14 {
		run.Sample(map[string]any{"autosave": r.h.AutoSave, "autogc": r.h.AutoGC, "graph": g.Describe(), "ops": r.h.Ops})
	}
}

func generateHistory(seed uint64, index int, thorough bool) {
	// per-history stream: the seed of NewRand is linear in its argument (consecutive arguments
	// give shifted copies of one stream), so go through one mixed output first
	rnd := common.NewRand(common.NewRand(seed*1000003+uint64(index)).U64() ^ uint64(index)*0x2545F4914F6CDD1D)
	h := &history{AutoSave: rnd.Chance(7, 10), AutoGC: rnd.Chance(2, 5)}
	if index%16 == 15 { // small scope
		h.AutoSave, h.AutoGC = index%32 == 15, false
	}
	o := dag.DefaultOptions()
	o.MinNodes, o.MaxNodes = 3, 11
	if index%16 == 15 {
		o.MinNodes, o.MaxNodes = 2, 5
	}
	g := dag.Random(rnd, o)
	// descriptor-consistent universe: a digest is used under one media type only (no twins);
	// one or two extra blobs are addressed by sha512 (long names: PAX headers in the tar)
	nx := 1 + rnd.Intn(2)
	for i := 0; i < nx; i++ {
		id := len(g.Nodes)
		bts := []byte(fmt.Sprintf("sha512-blob-%d-%x", id, rnd.U64()))
		g.Nodes = append(g.Nodes, &dag.Node{ID: id, Kind: dag.KBlob, Bytes: bts, Subject: -1, TwinOf: -1,
			Desc: ocispec.Descriptor{MediaType: ocispec.MediaTypeImageLayer, Digest: digest.SHA512.FromBytes(bts), Size: int64(len(bts))}})
		h.SHA512 = append(h.SHA512, id)
	}
	// a blob with a manifest media type that is no JSON manifest, and an index listing it
	if rnd.Chance(1, 4) {
		id := len(g.Nodes)
		bts := []byte(fmt.Sprintf("{not a manifest %x", rnd.U64()))
		bad := &dag.Node{ID: id, Kind: dag.KImage, Bytes: bts, Subject: -1, TwinOf: -1,
			Desc: ocispec.Descriptor{MediaType: ocispec.MediaTypeImageManifest, Digest: digest.FromBytes(bts), Size: int64(len(bts))}}
		ix := ocispec.Index{MediaType: ocispec.MediaTypeImageIndex, Manifests: []ocispec.Descriptor{bad.Desc}}
		ix.SchemaVersion = 2
		ib, _ := json.Marshal(ix)
		g.Nodes = append(g.Nodes, bad, &dag.Node{ID: id + 1, Kind: dag.KIndex, Bytes: ib, Succ: []int{id}, Subject: -1, TwinOf: -1,
			Desc: ocispec.Descriptor{MediaType: ocispec.MediaTypeImageIndex, Digest: digest.FromBytes(ib), Size: int64(len(ib))}})
		h.Bad = append(h.Bad, id)
	}
	// a layer with a long run of zero bytes: real tar tools store it as a sparse member
	if rnd.Chance(1, 3) {
		id := len(g.Nodes)
		bts := append([]byte(fmt.Sprintf("holey-%d-%x", id, rnd.U64())), make([]byte, 24576)...)
		bts = append(bts, []byte("-tail")...)
		g.Nodes = append(g.Nodes, &dag.Node{ID: id, Kind: dag.KBlob, Bytes: bts, Subject: -1, TwinOf: -1,
			Desc: ocispec.Descriptor{MediaType: ocispec.MediaTypeImageLayer, Digest: digest.FromBytes(bts), Size: int64(len(bts))}})
		h.Holey = id
	}
	h.Graph = g.Encode()
	tier := "q"
	if thorough {
		tier = "t"
	}
	h.Meta = fmt.Sprintf("%d.%s.%d", seed, tier, index)
	r := newRunner(h)
	run.Count(fmt.Sprintf("cfg:autosave=%v,autogc=%v", h.AutoSave, h.AutoGC))
	run.Count(fmt.Sprintf("nodes:%d", len(g.Nodes)))
	nops := 30
	if thorough {
		nops = 80
	}
	if index%16 == 15 {
		nops = 10
	}
	r.generate(rnd, nops)
	r.finish()
}

func replayHistory(h *history) {
	ops := h.Ops
	h.Ops = nil
	r := newRunner(h)
	for _, op := range ops {
		if r.hung {
			break
		}
		r.do(op)
	}
	r.finish()
}

func replay(path string) {
	for _, c := range common.ReadReplay(path) {
		if _, ok := c["ops"]; ok {
			h := &history{AutoSave: c["autosave"] == "true", AutoGC: c["autogc"] == "true"}
			if err := json.Unmarshal([]byte(c["graph"]), &h.Graph); err != nil {
				panic(err)
			}
			if s, ok := c["sha512"]; ok && s != "null" {
				if err := json.Unmarshal([]byte(s), &h.SHA512); err != nil {
					panic(err)
				}
			}
			if v, ok := c["bad"]; ok && v != "null" {
				if err := json.Unmarshal([]byte(v), &h.Bad); err != nil {
					panic(err)
				}
			}
			if v, ok := c["holey"]; ok {
				h.Holey, _ = strconv.Atoi(v)
			}
			if err := json.Unmarshal([]byte(c["ops"]), &h.Ops); err != nil {
				panic(err)
			}
			replayHistory(h)
		} else if t, ok := c["tarfs"]; ok {
			replayTarfs(t)
		} else if m, ok := c["meta"]; ok {
			f := strings.Split(m, ".")
			seed, _ := strconv.ParseUint(f[0], 10, 64)
			idx, _ := strconv.Atoi(f[2])
			generateHistory(seed, idx, f[1] == "t")
		}
	}
}

var coverageFloor = []string{
	"checkpoint:synced", "checkpoint:unsynced", "cfg:autosave=false,autogc=false", "cfg:autosave=false,autogc=true",
	"cfg:autosave=true,autogc=false", "cfg:autosave=true,autogc=true",
	"reopen:oci.New", "reopen:NewFromFS(os.DirFS)", "reopen:NewFromFS(fstest.MapFS)", "reopen:NewFromTar",
	"tar:style0", "tar:style1", "tar:style2", "tar:style3", "tar:style4", "tar:style5", "tar:style6(", "tar:style7(",
	"tar:style8(", "tar:style9(", "tar:style10", "tar:sparse-member-archived", "tar:blob-name-over-100-bytes",
	"op:P:ok", "op:Q:ok", "op:P:exists", "op:P:badcontent", "op:T:ok", "op:T:notfound", "op:T:invalidref", "op:U:ok", "op:U:notfound",
	"op:V:invalidref", "op:A:ok", "op:D:ok", "op:D:notfound", "op:G:ok", "op:S:ok", "op:R:ok", "op:I:ok",
	"op:Xv", "op:Xi", "op:Xa", "op:Xf", "tag:foreign-digest-reference", "tag:invalid-utf8-reference",
	"gc:with-untagged-subject-chains", "delete:autogc-with-stored-referrer",
	"tarfs:format0", "tarfs:format1", "tarfs:format2", "unjudged:tag-with-inconsistent-descriptor",
}

func main() {
	run = common.Start("C08")
	defer run.Finish()
	run.Rule = "one case = one history (random DAG, AutoSaveIndex/AutoGC setting, 10-80 operations with check points that reopen the directory three ways); distinct = distinct (universe, history); non-trivial = the history contains at least one Untag, Delete, GC or read-write reopen"
	if run.Replay != "" {
		replay(run.Replay)
		return
	}
	n := run.Scale(1200, 8000)
	for i := 0; i < n; i++ {
		generateHistory(run.Seed, i, run.Thorough())
	}
	// internal/fs/tarfs on its own (Model/TarFS.v)
	trnd := common.NewRand(common.NewRand(run.Seed).U64() ^ 0x7a7f5)
	for i := 0; i < run.Scale(1500, 30000); i++ {
		tarfsCase(trnd)
	}
	// coverage floors: a run in which one of the streams produced nothing is a failed run
	var missing []string
	for _, pre := range coverageFloor {
		n := 0
		for k, v := range run.Dist {
			if strings.HasPrefix(k, pre) {
				n += v
			}
		}
		if n == 0 {
			missing = append(missing, pre)
		}
	}
	if len(missing) > 0 {
		run.Extra["coverage_floor_missing"] = missing
		run.Finish()
		fmt.Fprintln(os.Stderr, "coverage floor not reached, no case of:", strings.Join(missing, ", "))
		os.Exit(3)
	}
}
