// Concurrent batches of C08 histories: "&op|op|..." runs its operations in goroutines that
// are released together.  The store's locks decide the order; once all have returned the
// store is quiescent again and the history goes on (a check point follows every batch).
//
//   - oracle: the check point after the batch (reopened == live, layout valid) - a lost or
//     stale index.json write, a reference registered for content that a concurrent Delete/GC
//     removed, ... show there;
//   - correspondence: the case line carries the results and the live observation of the batch;
//     the extracted model must ACCEPT it: some sequential order of the batch, run by the model
//     from the state before, gives exactly these results and this live state (the store's
//     operations are atomic under its RWMutex / resolver lock); the model line is then "&LIN".
package main

import (
	"fmt"
	"runtime"
	"strings"
	"sync"
	"time"

	"oras.land/oras-go/v2/content/oci"
)

// a wedge (deadlock) is reported within about a minute, but only after a fresh store driven
// through the same history wedges again (a stall of the loaded machine is not a finding)
const batchWatchdog = 15 * time.Second

func (r *runner) batch(tok string) {
	ops := strings.Split(tok[1:], "|")
	res := make([]string, len(ops))
	start := make(chan struct{})
	var wg sync.WaitGroup
	for i, op := range ops {
		wg.Add(1)
		go func(i int, op string) {
			defer wg.Done()
			<-start
			for j := 0; j < i%3; j++ {
				runtime.Gosched()
			}
			if op == "G" {
				res[i] = errTok(r.store.GC(ctx))
				r.setSynced(r.h.AutoSave)
				return
			}
			res[i] = r.exec(op)
		}(i, op)
	}
	done := make(chan struct{})
	go func() { wg.Wait(); close(done) }()
	close(start)
	select {
	case <-done:
	case <-time.After(batchWatchdog):
		r.hung = true
		if !r.confirming && r.confirmHang() {
			r.fail("conc-wedge", fmt.Sprintf("concurrent operations %v did not all return within %v, twice (fresh store, same history)", ops, batchWatchdog))
		} else if !r.confirming {
			run.Count("batch-watchdog-fired-not-confirmed(case dropped)")
			r.dropped = true
		}
		r.h.caseOps = append(r.h.caseOps, tok+"=hang@-@-")
		r.out = append(r.out, "&HANG")
		return
	}
	// with AutoSaveIndex off the batch leaves index.json behind unless a SaveIndex came last
	if !r.h.AutoSave {
		r.setSynced(false)
	}
	// the live state and what index.json now holds (the store reopened read-write)
	live := r.w.observe(r.store)
	re := "!open"
	if t, err := oci.New(r.dir); err == nil {
		re = r.w.observe(t).String()
	}
	r.h.caseOps = append(r.h.caseOps, tok+"="+strings.Join(res, "|")+"@"+live.String()+"@"+re)
	r.out = append(r.out, "&LIN")
	run.Count(fmt.Sprintf("batch:size%d", len(ops)))
	for i, op := range ops {
		run.Count("batch-op:" + op[:1] + ":" + strings.SplitN(res[i], ":", 2)[0])
	}
}
