// C09 harness: content/oci Store.Delete (with and without AutoGC) and Store.GC.
//
// For every generated case (a random OCI DAG with referrer chains, indexes,
// shared blobs and stray files + a history of Push/Tag/Untag/Delete/GC/AutoGC
// operations) it
//   - runs the history on a real oci.Store in a scratch directory (Delete and GC
//     under a watchdog),
//   - writes the model input (cases.txt) and the projected observable state after
//     every operation (impl.txt) for the comparison with the extracted Coq model,
//   - evaluates the property itself with an independent reference
//     (mark-and-sweep / least-fixed-point cascade computed from the generator's
//     own edges and its own record of the tagging history): oracle.txt.
package main

import (
	"bytes"
	"context"
	_ "crypto/sha256"
	_ "crypto/sha512"
	"encoding/json"
	"errors"
	"fmt"
	"os"
	"path/filepath"
	"sort"
	"strconv"
	"strings"
	"sync/atomic"
	"time"

	"github.com/opencontainers/go-digest"
	ocispec "github.com/opencontainers/image-spec/specs-go/v1"
	"oras.land/oras-go/v2/content/oci"
	"oras.land/oras-go/v2/errdef"
	"verifharness/common"
	"verifharness/dag"
)

var run *common.Run

const nTags = 4

var hangs int

// ---------- operations ----------

type op struct {
	K       byte // P T U D G A S R F V I C
	N, T    int  // node, tag / stray kind bits / C: number of ctx.Done() calls before the context is done
	A, B, C int
	// Model is the token the model gets for a C op: what the cancelled GC was observed to do
	// ("G" it completed, "Ke" cancelled before the index was rebuilt, "K<k>:<order>" cancelled in
	// the sweep after k entries of the directory order); set when the op has run
	Model string
}

// ModelString is the op as the model reads it.
func (o op) ModelString() string {
	switch o.K {
	case 'C':
		if o.Model == "" {
			return "Ke"
		}
		return o.Model
	case 'G':
		if o.Model != "" {
			return o.Model // "Q<k>:<order>": the sweep met an entry it cannot remove
		}
	case 'X':
		return fmt.Sprintf("S%d.0.1", blockerID(o.N)) // for the model: a stray with a valid digest name
	}
	return o.String()
}

// blockerID: the stray id of the j-th "blocker", a non-empty DIRECTORY with a valid digest name
// under blobs/sha256 (os.Remove fails on it: an I/O error in the middle of the sweep)
func blockerID(j int) int { return 600 + 6*j }

func isBlocker(id int) bool { return id >= 600 }

func (o op) String() string {
	switch o.K {
	case 'P', 'D', 'Y':
		return fmt.Sprintf("%c%d", o.K, o.N)
	case 'T':
		return fmt.Sprintf("T%d.%d", o.N, o.T)
	case 'U':
		return fmt.Sprintf("U%d", o.T)
	case 'G':
		return "G"
	case 'R':
		return "R"
	case 'F':
		return "F"
	case 'I':
		return "I"
	case 'B':
		return fmt.Sprintf("B%d", o.N)
	case 'X':
		return fmt.Sprintf("X%d", o.N)
	case 'V':
		return fmt.Sprintf("V%d", o.N)
	case 'C':
		return fmt.Sprintf("C%d", o.N)
	case 'A':
		return fmt.Sprintf("A%d", o.N)
	case 'S':
		_, v := strayKind(o.N)
		return fmt.Sprintf("S%d.%d.%d", o.N, strayAlg(o.N), b2i(v))
	}
	panic("op")
}

func b2i(b bool) int {
	if b {
		return 1
	}
	return 0
}

func parseOps(s string) []op {
	var out []op
	for _, f := range strings.Fields(s) {
		arg := f[1:]
		ints := func() []int {
			var r []int
			for _, p := range strings.Split(arg, ".") {
				if p == "" {
					continue
				}
				v, err := strconv.Atoi(p)
				if err != nil {
					panic(err)
				}
				r = append(r, v)
			}
			return r
		}
		switch f[0] {
		case 'P', 'D', 'Y':
			out = append(out, op{K: f[0], N: ints()[0]})
		case 'T':
			out = append(out, op{K: 'T', N: ints()[0], T: ints()[1]})
		case 'U':
			out = append(out, op{K: 'U', T: ints()[0]})
		case 'G':
			out = append(out, op{K: 'G'})
		case 'R':
			out = append(out, op{K: 'R'})
		case 'F':
			out = append(out, op{K: 'F'})
		case 'I':
			out = append(out, op{K: 'I'})
		case 'V', 'C', 'B', 'X':
			out = append(out, op{K: f[0], N: ints()[0]})
		case 'A', 'S':
			out = append(out, op{K: f[0], N: ints()[0]})
		default:
			panic("bad op " + f)
		}
	}
	return out
}

func opsString(ops []op) string {
	var s []string
	for _, o := range ops {
		s = append(s, o.String())
	}
	return strings.Join(s, " ")
}

// stray files: id -> (algorithm-directory code for the model, known algorithm directory,
// valid digest name) and path below blobs/
func strayAlg(id int) int {
	switch id % 6 {
	case 0, 1:
		return 0 // sha256
	case 3:
		return 1 // sha512
	case 5:
		return 2 // sha384
	default:
		return 3 // unknown directory / plain file under blobs/
	}
}

func strayKind(id int) (known, valid bool) {
	switch id % 6 {
	case 0, 3, 5:
		return true, true
	case 1:
		return true, false
	default:
		return false, id%6 == 2 // unknown algorithm directory (name looks valid) / plain file under blobs/
	}
}

func strayPath(id int) string {
	hexn := func(n int) string {
		s := fmt.Sprintf("%08x", 0x5eed0000+id)
		return strings.Repeat(s, n/8)
	}
	switch id % 6 {
	case 0:
		return filepath.Join("sha256", hexn(64))
	case 1:
		return filepath.Join("sha256", fmt.Sprintf("not-a-digest-%d", id))
	case 2:
		return filepath.Join("md5x", hexn(64))
	case 3:
		return filepath.Join("sha512", hexn(128))
	case 5:
		return filepath.Join("sha384", hexn(96))
	default:
		return fmt.Sprintf("strayfile-%d", id)
	}
}

// ---------- ground truth kept by the oracle ----------

type truth struct {
	g      *dag.Graph
	stored map[int]bool
	known  map[int]bool // nodes of the store's graph (= stored unless the store was reopened: a reopened store knows what index.json reaches)
	tags   map[int]int  // tag -> node
	digidx map[int]bool // nodes whose digest is a reference of the store
	strays map[int]bool
	autogc bool
	// index.json as the reference expects it: entries with a tag, digest-only entries
	autosave bool
	diskTags map[int]int
	diskDigs map[int]bool
}

func newTruth(g *dag.Graph) *truth {
	return &truth{g: g, known: map[int]bool{}, stored: map[int]bool{}, tags: map[int]int{}, digidx: map[int]bool{}, strays: map[int]bool{}, autogc: true,
		autosave: true, diskTags: map[int]int{}, diskDigs: map[int]bool{}}
}

func (t *truth) tagged(n int) bool {
	for _, m := range t.tags {
		if m == n {
			return true
		}
	}
	return false
}

// predecessors of n among the nodes the store knows
func (t *truth) preds(n int) []int {
	var out []int
	for _, p := range t.g.Preds(n) {
		if t.known[p] {
			out = append(out, p)
		}
	}
	return out
}

// closure through stored content
func (t *truth) closure(root int, into map[int]bool) {
	if !t.stored[root] || into[root] {
		return
	}
	into[root] = true
	for _, s := range t.g.Nodes[root].Succ {
		t.closure(s, into)
	}
}

// live set of GC: closure of tagged nodes; digest-indexed untagged manifests whose
// subject chain reaches a live node, with their closures; least fixed point.
func (t *truth) live() (live map[int]bool, keptRef map[int]bool) {
	live, keptRef = map[int]bool{}, map[int]bool{}
	for _, n := range t.tags {
		t.closure(n, live)
	}
	for changed := true; changed; {
		changed = false
		for r := range t.digidx {
			if t.tagged(r) || keptRef[r] {
				continue
			}
			c := r
			for t.stored[c] {
				s := t.g.Nodes[c].Subject
				if s < 0 {
					break
				}
				if live[s] && t.g.Nodes[s].IsManifest() {
					keptRef[r] = true
					t.closure(r, live)
					changed = true
					break
				}
				c = s
			}
		}
	}
	return
}

// the set Delete(x) must remove when AutoGC is on: least set containing x, closed under
// "untagged stored manifest whose subject (a manifest) was removed and that no surviving
// node lists (subject links of its own referrers do not count)" and
// "untagged stored node that had predecessors, all of which were removed".
func (t *truth) gone(x int) map[int]bool {
	gone := map[int]bool{x: true}
	for changed := true; changed; {
		changed = false
		for _, n := range t.g.Nodes {
			i := n.ID
			if gone[i] || !t.known[i] || t.tagged(i) {
				continue
			}
			ps := t.preds(i)
			if n.Subject >= 0 && gone[n.Subject] && t.g.Nodes[n.Subject].IsManifest() {
				// a referrer goes with its subject unless a surviving node lists it
				// (links of its own referrers, i.e. subject links, do not hold it)
				held := false
				for _, p := range ps {
					if !gone[p] && lists(t.g, p, i) {
						held = true
					}
				}
				if !held {
					gone[i] = true
					changed = true
					continue
				}
			}
			all := len(ps) > 0
			for _, p := range ps {
				if !gone[p] {
					all = false
				}
			}
			if all {
				gone[i] = true
				changed = true
			}
		}
	}
	return gone
}

// lists: p links to y other than through its subject field (entries of manifests / layers /
// config / blobs; a node that is both the subject and an entry is listed)
func lists(g *dag.Graph, p, y int) bool {
	n := 0
	for _, s := range g.Nodes[p].Succ {
		if s == y {
			n++
		}
	}
	if g.Nodes[p].Subject == y {
		n--
	}
	return n > 0
}

// ---------- observation of the real store ----------

type obs struct {
	blobs  []int
	tags   map[int]int
	digs   []int
	preds  map[int][]int
	strays []int
	disk   string // index.json: t<tag>><node> per tagged entry, d<node> per digest-only entry
	bad    string // anything that could not be interpreted
}

func (o *obs) String() string {
	var i []string
	for t := 0; t < nTags; t++ {
		if n, ok := o.tags[t]; ok {
			i = append(i, fmt.Sprintf("t%d>%d", t, n))
		}
	}
	for _, n := range o.digs {
		i = append(i, fmt.Sprintf("d%d", n))
	}
	var p []string
	var keys []int
	for k := range o.preds {
		keys = append(keys, k)
	}
	sort.Ints(keys)
	for _, k := range keys {
		if len(o.preds[k]) > 0 {
			p = append(p, fmt.Sprintf("%d<%s", k, joinInts(o.preds[k])))
		}
	}
	s := fmt.Sprintf("B:%s/I:%s/P:%s/S:%s/J:%s", joinInts(o.blobs), strings.Join(i, ","), strings.Join(p, ";"), joinInts(o.strays), o.disk)
	if o.bad != "" {
		s += "/BAD:" + strings.ReplaceAll(o.bad, " ", "_")
	}
	return s
}

func joinInts(xs []int) string {
	var s []string
	for _, x := range xs {
		s = append(s, strconv.Itoa(x))
	}
	return strings.Join(s, ",")
}

type world struct {
	g       *dag.Graph
	byDig   map[digest.Digest]int
	root    string
	store   *oci.Store
	strayID map[string]int
}

// readDisk renders index.json: t<tag>><node> for entries with a reference name, d<node> for
// digest-only entries (sorted).
func (w *world) readDisk() (string, string) {
	data, err := os.ReadFile(filepath.Join(w.root, "index.json"))
	if err != nil {
		return "", "index.json: " + err.Error()
	}
	var ix ocispec.Index
	if err := json.Unmarshal(data, &ix); err != nil {
		return "", "index.json: " + err.Error()
	}
	var tags, digs []string
	bad := ""
	for _, d := range ix.Manifests {
		id, ok := w.byDig[d.Digest]
		if !ok || d.MediaType != w.g.Nodes[id].Desc.MediaType || d.Size != w.g.Nodes[id].Desc.Size {
			bad += "index.json entry of unknown/inconsistent descriptor;"
			continue
		}
		if ref := d.Annotations[ocispec.AnnotationRefName]; ref != "" {
			var t int
			if _, err := fmt.Sscanf(ref, "tag%d", &t); err != nil {
				bad += "index.json entry with unknown reference " + ref + ";"
				continue
			}
			tags = append(tags, fmt.Sprintf("t%d>%d", t, id))
		} else {
			digs = append(digs, fmt.Sprintf("%06d", id))
		}
	}
	sort.Strings(tags)
	sort.Strings(digs)
	for i, d := range digs {
		n, _ := strconv.Atoi(d)
		digs[i] = fmt.Sprintf("d%d", n)
	}
	return strings.Join(append(tags, digs...), ","), bad
}

// sweepOrder lists blobs/<known alg>/ as the GC sweep walks it: b<node> for content of the
// universe, s<id> for stray files (entries the sweep tests the context for).
func (w *world) sweepOrder(everStray map[int]bool) []string {
	var out []string
	blobsDir := filepath.Join(w.root, "blobs")
	strayAt := map[string]int{}
	for id := range everStray {
		strayAt[strayPath(id)] = id
	}
	for _, alg := range []digest.Algorithm{digest.SHA256, digest.SHA384, digest.SHA512} { // = directory order
		ents, _ := os.ReadDir(filepath.Join(blobsDir, alg.String()))
		for _, e := range ents {
			if id, ok := w.byDig[digest.NewDigestFromEncoded(alg, e.Name())]; ok {
				out = append(out, fmt.Sprintf("b%d", id))
			} else if id, ok := strayAt[filepath.Join(alg.String(), e.Name())]; ok {
				out = append(out, fmt.Sprintf("s%d", id))
			}
		}
	}
	return out
}

// countCtx is a context that is done from its n-th Done() call on (nil channel before: the
// standard library does not even register children then).
type countCtx struct {
	context.Context
	left  int64
	fired int32
}

var closedChan = func() chan struct{} { c := make(chan struct{}); close(c); return c }()

func (c *countCtx) Done() <-chan struct{} {
	if atomic.AddInt64(&c.left, -1) < 0 {
		atomic.StoreInt32(&c.fired, 1)
		return closedChan
	}
	return nil
}

func (c *countCtx) Err() error {
	if atomic.LoadInt32(&c.fired) == 1 {
		return context.Canceled
	}
	return nil
}

// gcCancelled runs GC with a context that is done from the n-th Done() call on and reports what
// the model needs: the token and the error.
func (w *world) gcCancelled(n int, everStray map[int]bool) (token string, err error, hung bool) {
	order := w.sweepOrder(everStray)
	before := map[string]bool{}
	for _, e := range order {
		before[e] = true
	}
	var gctx context.Context = context.Background()
	if n >= 0 {
		gctx = &countCtx{Context: context.Background(), left: int64(n)}
	}
	err, hung = w.guarded(func(context.Context) error { return w.store.GC(gctx) })
	if hung {
		return "", nil, true
	}
	if err == nil {
		return "G", nil, false
	}
	if !errors.Is(err, context.Canceled) {
		// an entry the sweep cannot remove (a non-empty directory with a digest name): the sweep
		// stopped there, the entries before it were handled
		for i, e := range order {
			var id int
			if _, serr := fmt.Sscanf(e, "s%d", &id); serr == nil && isBlocker(id) {
				return fmt.Sprintf("Q%d:%s", i, strings.Join(order, ",")), err, false
			}
		}
		return "G", err, false
	}
	if strings.Contains(err.Error(), "unable to reload index") {
		return "Ke", err, false
	}
	after := map[string]bool{}
	for _, e := range w.sweepOrder(everStray) {
		after[e] = true
	}
	k := 0
	for i, e := range order {
		if !after[e] {
			k = i + 1
		}
	}
	return fmt.Sprintf("K%d:%s", k, strings.Join(order, ",")), err, false
}

func (w *world) observe(ctx context.Context, strayIDs map[int]bool) *obs {
	o := &obs{tags: map[int]int{}, preds: map[int][]int{}}
	var dbad string
	o.disk, dbad = w.readDisk()
	o.bad += dbad
	blobsDir := filepath.Join(w.root, "blobs")
	for id := range strayIDs {
		if _, err := os.Stat(filepath.Join(blobsDir, strayPath(id))); err == nil {
			o.strays = append(o.strays, id)
		}
	}
	sort.Ints(o.strays)
	for _, alg := range []digest.Algorithm{digest.SHA256, digest.SHA384, digest.SHA512} {
		ents, _ := os.ReadDir(filepath.Join(blobsDir, alg.String()))
		for _, e := range ents {
			d := digest.NewDigestFromEncoded(alg, e.Name())
			if id, ok := w.byDig[d]; ok {
				o.blobs = append(o.blobs, id)
			}
		}
	}
	sort.Ints(o.blobs)
	for t := 0; t < nTags; t++ {
		d, err := w.store.Resolve(ctx, fmt.Sprintf("tag%d", t))
		if err != nil {
			if !errors.Is(err, errdef.ErrNotFound) {
				o.bad += fmt.Sprintf("resolve tag%d: %v;", t, err)
			}
			continue
		}
		id, ok := w.byDig[d.Digest]
		if !ok || d.MediaType != w.g.Nodes[id].Desc.MediaType || d.Size != w.g.Nodes[id].Desc.Size {
			o.bad += fmt.Sprintf("tag%d resolves to unknown/inconsistent descriptor;", t)
			continue
		}
		o.tags[t] = id
	}
	for _, n := range w.g.Nodes {
		if n.Desc.MediaType != "application/octet-stream" {
			d, err := w.store.Resolve(ctx, n.Desc.Digest.String())
			if err == nil && d.MediaType == n.Desc.MediaType {
				o.digs = append(o.digs, n.ID)
			}
		}
		ps, err := w.store.Predecessors(ctx, n.Desc)
		if err != nil {
			o.bad += fmt.Sprintf("predecessors %d: %v;", n.ID, err)
		}
		var ids []int
		for _, p := range ps {
			id, ok := w.byDig[p.Digest]
			if !ok || p.MediaType != w.g.Nodes[id].Desc.MediaType {
				o.bad += fmt.Sprintf("predecessor of %d unknown;", n.ID)
				continue
			}
			ids = append(ids, id)
		}
		sort.Ints(ids)
		if len(ids) > 0 {
			o.preds[n.ID] = ids
		}
	}
	return o
}

func errName(err error) string {
	switch {
	case err == nil:
		return "ok"
	case errors.Is(err, errdef.ErrNotFound):
		return "notfound"
	case errors.Is(err, errdef.ErrAlreadyExists):
		return "exists"
	case errors.Is(err, context.Canceled):
		return "canceled"
	default:
		return "other"
	}
}

// watchdog: run f in a child goroutine with a cancellable context.
func (w *world) guarded(f func(ctx context.Context) error) (err error, hung bool) {
	ctx, cancel := context.WithCancel(context.Background())
	defer cancel()
	done := make(chan error, 1)
	go func() { done <- f(ctx) }()
	limit := 30 * time.Second
	select {
	case err = <-done:
		return err, false
	case <-time.After(limit):
		cancel()
		select {
		case err = <-done:
			return err, true
		case <-time.After(2 * time.Second):
		}
		// the goroutine ignores cancellation: take the files away so that its next
		// read fails and it unwinds instead of spinning for the rest of the run
		os.RemoveAll(w.root)
		select {
		case <-done:
		case <-time.After(5 * time.Second):
		}
		return nil, true
	}
}

// ---------- one case ----------

type replayCase struct {
	Graph []dag.Encoded `json:"graph"`
	Ops   string        `json:"ops"`
	// digest algorithm of the nodes that are not sha256 (dag.Decode recomputes sha256)
	Algs map[string]string `json:"algs,omitempty"`
}

func algsOf(g *dag.Graph) map[string]string {
	m := map[string]string{}
	for _, n := range g.Nodes {
		if a := n.Desc.Digest.Algorithm(); a != digest.SHA256 {
			m[strconv.Itoa(n.ID)] = a.String()
		}
	}
	return m
}

func applyAlgs(g *dag.Graph, algs map[string]string) {
	for k, a := range algs {
		id, err := strconv.Atoi(k)
		if err != nil || id < 0 || id >= len(g.Nodes) {
			continue
		}
		g.Nodes[id].Desc.Digest = digest.Algorithm(a).FromBytes(g.Nodes[id].Bytes)
	}
}

// altDigest re-addresses the node that was appended last under sha512 or sha384 (nothing
// refers to it yet, so no other node's bytes change)
func altDigest(r *common.Rand, g *dag.Graph) {
	n := g.Nodes[len(g.Nodes)-1]
	alg := digest.SHA512
	if r.Chance(1, 3) {
		alg = digest.SHA384
	}
	n.Desc.Digest = alg.FromBytes(n.Bytes)
}

func modelInput(g *dag.Graph, ops []op, seed uint64) string {
	var sb strings.Builder
	fmt.Fprintf(&sb, "s%d k%d n%d", seed, b2i(keepLiveDigests), len(g.Nodes))
	for _, n := range g.Nodes {
		k := map[string]string{dag.KImage: "1", dag.KDocker: "2", dag.KIndex: "3", dag.KDockerL: "4", dag.KArtifact: "5"}[n.Kind]
		if k == "" {
			k = "0"
		}
		sub := "-"
		if n.Subject >= 0 {
			sub = strconv.Itoa(n.Subject)
		}
		sc := "-"
		if len(n.Succ) > 0 {
			var s []string
			for _, x := range n.Succ {
				s = append(s, strconv.Itoa(x))
			}
			sc = strings.Join(s, ".")
		}
		fmt.Fprintf(&sb, " %s,%s,%s", k, sub, sc)
	}
	sb.WriteString(" : ")
	var ms []string
	for _, o := range ops {
		ms = append(ms, o.ModelString())
	}
	sb.WriteString(strings.Join(ms, " "))
	return sb.String()
}

func setDiff(a, b map[int]bool) []int {
	var out []int
	for k := range a {
		if a[k] && !b[k] {
			out = append(out, k)
		}
	}
	sort.Ints(out)
	return out
}

func toSet(xs []int) map[int]bool {
	m := map[int]bool{}
	for _, x := range xs {
		m[x] = true
	}
	return m
}

func runCase(g *dag.Graph, ops []op, seed uint64) { runCaseAttempt(g, ops, seed, 0) }

func runCaseAttempt(g *dag.Graph, ops []op, seed uint64, attempt int) {
	id := run.NewID()
	rep := replayCase{Graph: g.Encode(), Ops: opsString(ops), Algs: algsOf(g)}
	fail := func(sig, msg string) {
		run.OracleFail(id, sig, msg+" graph="+strings.Join(g.Describe(), " ")+" ops="+rep.Ops, rep)
	}
	root, err := os.MkdirTemp("", "c09-")
	if err != nil {
		panic(err)
	}
	defer os.RemoveAll(root)
	store, err := oci.New(root)
	if err != nil {
		panic(err)
	}
	w := &world{g: g, byDig: map[digest.Digest]int{}, root: root, store: store}
	for _, n := range g.Nodes {
		w.byDig[n.Desc.Digest] = n.ID
	}
	tr := newTruth(g)
	ctx := context.Background()
	everStray := map[int]bool{} // every stray file ever written (observed whether or not it is expected to exist)
	var out []string
	nontrivial := false
	failed := false

	for oi, o := range ops {
		var err error
		hung := false
		// expectation of the reference, computed before the operation
		expStored := map[int]bool{}
		for k, v := range tr.stored {
			if v {
				expStored[k] = true
			}
		}
		expKnown := map[int]bool{}
		for k, v := range tr.known {
			if v {
				expKnown[k] = true
			}
		}
		expTags := map[int]int{}
		for k, v := range tr.tags {
			expTags[k] = v
		}
		expDig := map[int]bool{}
		for k, v := range tr.digidx {
			if v {
				expDig[k] = true
			}
		}
		expStrays := map[int]bool{}
		for k := range tr.strays {
			expStrays[k] = true
		}
		expRes := "ok"
		kind := ""
		var cascade map[int]bool
		doSave := false // the store is expected to write index.json in this operation
		expDiskTags := map[int]int{}
		for k, v := range tr.diskTags {
			expDiskTags[k] = v
		}
		expDiskDigs := map[int]bool{}
		for k := range tr.diskDigs {
			expDiskDigs[k] = true
		}
		// what the reference expects of a (completed, or cancelled after the entries [handled] of
		// the sweep) GC
		expectGC := func(handled map[string]bool) {
			live, kept := tr.live()
			for k := range expStored {
				if !live[k] && (handled == nil || handled[fmt.Sprintf("b%d", k)]) {
					delete(expStored, k)
					nontrivial = true
				}
			}
			expKnown = map[int]bool{}
			for k := range live {
				expKnown[k] = true
			}
			// graph.Exists of the rebuilt graph also holds for a layer/config that a live manifest
			// lists although its content is not stored (IndexAll records leaves by reference)
			listedAbsentLeaf := func(k int) bool {
				if tr.stored[k] || g.Nodes[k].IsManifest() {
					return false
				}
				for _, p := range g.Preds(k) {
					if live[p] {
						return true
					}
				}
				return false
			}
			for k := range expDig {
				if !tr.tagged(k) && !kept[k] && !(keepLiveDigests && (live[k] || listedAbsentLeaf(k))) {
					delete(expDig, k)
				}
			}
			for k := range expStrays {
				if kn, v := strayKind(k); kn && v && (handled == nil || handled[fmt.Sprintf("s%d", k)]) {
					delete(expStrays, k)
				}
			}
			doSave = tr.autosave
		}
		// a new Store on the directory: references and graph come from index.json
		expectReload := func() {
			expTags = map[int]int{}
			expDig = map[int]bool{}
			expKnown = map[int]bool{}
			for t, n := range expDiskTags {
				expTags[t] = n
				expDig[n] = true
			}
			for n := range expDiskDigs {
				expDig[n] = true
			}
			for n := range expDig {
				tr.closure(n, expKnown)
			}
			tr.autogc = true
			tr.autosave = true
		}
		switch o.K {
		case 'P':
			n := g.Nodes[o.N]
			err = store.Push(ctx, n.Desc, bytes.NewReader(n.Bytes))
			if tr.stored[o.N] {
				expRes = "exists"
			} else {
				expStored[o.N] = true
				expKnown[o.N] = true
				if n.IsManifest() {
					expDig[o.N] = true
					doSave = tr.autosave
				}
			}
			kind = "push"
		case 'T':
			err = store.Tag(ctx, g.Nodes[o.N].Desc, fmt.Sprintf("tag%d", o.T))
			if tr.stored[o.N] {
				expTags[o.T] = o.N
				expDig[o.N] = true
				if g.Nodes[o.N].IsManifest() {
					expKnown[o.N] = true // Store.Tag indexes a manifest before naming it in index.json
				}
				doSave = tr.autosave
			} else {
				expRes = "notfound"
			}
			kind = "tag"
		case 'U':
			err = store.Untag(ctx, fmt.Sprintf("tag%d", o.T))
			if _, ok := tr.tags[o.T]; ok {
				delete(expTags, o.T)
				doSave = tr.autosave
			} else {
				expRes = "notfound"
			}
			kind = "untag"
		case 'A':
			store.AutoGC = o.N == 1
			tr.autogc = o.N == 1
			kind = "autogc"
		case 'S':
			p := filepath.Join(root, "blobs", strayPath(o.N))
			os.MkdirAll(filepath.Dir(p), 0o755)
			if werr := os.WriteFile(p, []byte(fmt.Sprintf("stray %d", o.N)), 0o644); werr != nil {
				panic(werr)
			}
			expStrays[o.N] = true
			everStray[o.N] = true
			kind = "stray"
		case 'B':
			// malformed stream: a blob with a manifest media type that does not decode: Push stores
			// it, cannot index it and must take it away again
			bd, bb := badManifest(o.N)
			err = store.Push(ctx, bd, bytes.NewReader(bb))
			expRes = "other"
			kind = "push-undecodable"
			if _, serr := os.Stat(filepath.Join(root, "blobs", "sha256", bd.Digest.Encoded())); serr == nil {
				fail("push-left-garbage", fmt.Sprintf("op %d (%s): the failed Push left its blob in the storage", oi, o))
				failed = true
			}
		case 'X':
			bid := blockerID(o.N)
			p := filepath.Join(root, "blobs", strayPath(bid))
			if werr := os.MkdirAll(p, 0o755); werr != nil {
				panic(werr)
			}
			if werr := os.WriteFile(filepath.Join(p, "inside"), []byte("x"), 0o644); werr != nil {
				panic(werr)
			}
			expStrays[bid] = true
			everStray[bid] = true
			kind = "stray-directory"
		case 'V':
			store.AutoSaveIndex = o.N == 1
			tr.autosave = o.N == 1
			kind = "autosave"
		case 'I':
			err = store.SaveIndex()
			doSave = true
			kind = "saveindex"
		case 'R':
			// reopen: a new Store on the same directory: what it knows is what index.json holds
			// (unsaved changes of the reference map are lost); AutoGC/AutoSaveIndex are the defaults
			ns, nerr := oci.New(root)
			if nerr != nil {
				err = nerr
			} else {
				store = ns
				w.store = ns
			}
			kind = "reopen"
			expectReload()
		case 'F':
			// the layout as other tools write it: index.json names only the tagged descriptors;
			// then a new Store on the directory
			if ferr := stripIndex(root); ferr != nil {
				panic(ferr)
			}
			ns, nerr := oci.New(root)
			if nerr != nil {
				err = nerr
			} else {
				store = ns
				w.store = ns
			}
			kind = "foreign-index"
			expDiskDigs = map[int]bool{}
			expectReload()
		case 'C':
			var token string
			token, err, hung = w.gcCancelled(o.N, everStray)
			ops[oi].Model, o.Model = token, token
			kind = "gc-cancelled"
			switch {
			case hung:
			case token == "G":
				expectGC(nil)
				run.Count("gc-cancel:completed")
			case token == "Ke":
				expRes = "canceled" // nothing may have changed
				run.Count("gc-cancel:before-rebuild")
			case strings.HasPrefix(token, "Q"):
				expRes = "other"
				handled := map[string]bool{}
				var k int
				var rest string
				fmt.Sscanf(token, "Q%d:%s", &k, &rest)
				for i, e := range strings.Split(rest, ",") {
					if i < k {
						handled[e] = true
					}
				}
				expectGC(handled)
				run.Count("gc-cancel:blocked")
			default:
				expRes = "canceled"
				handled := map[string]bool{}
				var k int
				var rest string
				fmt.Sscanf(token, "K%d:%s", &k, &rest)
				for i, e := range strings.Split(rest, ",") {
					if i < k {
						handled[e] = true
					}
				}
				expectGC(handled)
				run.Count("gc-cancel:in-sweep")
			}
		case 'Y':
			// Delete of a layer/config with the descriptor Resolve(<digest>) gives for a blob
			// (application/octet-stream): clause 1 of the property - the content and the references
			// to it go; the graph does not know this descriptor, nothing cascades
			alt := g.Nodes[o.N].Desc
			alt.MediaType = "application/octet-stream"
			err, hung = w.guarded(func(c context.Context) error { return store.Delete(c, alt) })
			kind = "delete-by-blob-descriptor"
			if !tr.stored[o.N] {
				expRes = "notfound"
			}
			delete(expStored, o.N)
			delete(expDig, o.N)
			for t, n := range tr.tags {
				if n == o.N {
					delete(expTags, t)
				}
			}
			if tr.autosave {
				doSave = len(expTags) != len(tr.tags) || len(expDig) != len(tr.digidx)
			}
		case 'D':
			err, hung = w.guarded(func(c context.Context) error { return store.Delete(c, g.Nodes[o.N].Desc) })
			kind = "delete"
			if !tr.stored[o.N] {
				// delete() drops the references to the target before the storage reports not found
				// (only after an unsaved index was reloaded can a reference name a blob that is gone)
				expRes = "notfound"
				for t, n := range tr.tags {
					if n == o.N {
						delete(expTags, t)
					}
				}
				delete(expDig, o.N)
			} else {
				gone := map[int]bool{o.N: true}
				if tr.autogc {
					gone = tr.gone(o.N)
					cascade = gone
					if len(gone) > 1 {
						nontrivial = true
					}
				}
				// a surviving manifest that lost its last predecessor stays listed by its digest
				for _, n := range g.Nodes {
					if !tr.known[n.ID] || gone[n.ID] || !n.IsManifest() {
						continue
					}
					ps := tr.preds(n.ID)
					all := len(ps) > 0
					for _, p := range ps {
						if !gone[p] {
							all = false
						}
					}
					if all {
						expDig[n.ID] = true
					}
				}
				for k := range gone {
					delete(expStored, k)
					delete(expKnown, k)
					delete(expDig, k)
				}
				if len(tr.known) != len(tr.stored) {
					// after a reopen at an arbitrary point the graph is smaller than the storage:
					// Delete is judged against the graph (C09_delete_exact), blobs the store does
					// not know are outside C09's quantifier (they wait for GC)
					run.Count("unjudged:delete-with-blobs-unknown-to-the-graph")
				}
				for t, n := range tr.tags {
					if n == o.N {
						delete(expTags, t)
					}
				}
			}
		case 'G':
			var token string
			token, err, hung = w.gcCancelled(-1, everStray)
			kind = "gc"
			if strings.HasPrefix(token, "Q") {
				// I/O error in the sweep: judged like a sweep that stopped there
				ops[oi].Model, o.Model = token, token
				expRes = "other"
				handled := map[string]bool{}
				var k int
				var rest string
				fmt.Sscanf(token, "Q%d:%s", &k, &rest)
				for i, e := range strings.Split(rest, ",") {
					if i < k {
						handled[e] = true
					}
				}
				expectGC(handled)
				kind = "gc-blocked"
			} else {
				expectGC(nil)
			}
		}
		if o.K == 'D' && tr.autosave {
			// delete() saves when it removed or added a reference
			changed := len(expTags) != len(tr.tags) || len(expDig) != len(tr.digidx)
			for k := range expDig {
				if !tr.digidx[k] {
					changed = true
				}
			}
			doSave = changed
		}
		if doSave {
			expDiskTags = map[int]int{}
			expDiskDigs = map[int]bool{}
			named := map[int]bool{}
			for t, n := range expTags {
				expDiskTags[t] = n
				named[n] = true
			}
			for n := range expDig {
				if !named[n] {
					expDiskDigs[n] = true
				}
			}
		}
		run.Count("op:" + kind)
		if hung {
			// a hang must reproduce on a fresh store; a one-off stall of the (shared, loaded)
			// machine beyond the watchdog is not a finding: the case is run again from scratch
			if _, again := execOnly(g, ops[:oi+1]); !again {
				run.Count("watchdog-stall")
				if attempt < 2 {
					runCaseAttempt(g, ops, seed, attempt+1)
					return
				}
				// three runs of the same history exceeded the watchdog and none of the fresh
				// replays did: not a machine stall any more, an intermittent (e.g. iteration-order
				// dependent) hang; the case is reported, never dropped silently
				hangs++
				fail(kind+"-hang-intermittent", fmt.Sprintf("op %d (%s) exceeded the watchdog in 3 runs of the history, the fresh replays returned", oi, o))
				return
			}
			hangs++
			out = append(out, o.ModelString()+"=hang")
			fail(kind+"-hang", fmt.Sprintf("op %d (%s) did not return within the watchdog (reproduced on a fresh store)", oi, o))
			failed = true
			break
		}
		res := errName(err)
		ob := w.observe(ctx, everStray)
		out = append(out, o.ModelString()+"="+res+"/"+ob.String())
		if failed {
			// the reference is no longer aligned with the store: keep recording the
			// implementation's observable for the comparison with the model, judge nothing
			continue
		}

		// ---- the oracle: the property's statement on the real store ----
		if ob.bad != "" {
			fail(kind+"-observe", ob.bad)
			failed = true
		}
		if res != expRes {
			fail(kind+"-result", fmt.Sprintf("op %d (%s) returned %s (%v), expected %s", oi, o, res, err, expRes))
			failed = true
		}
		got := toSet(ob.blobs)
		if extra := setDiff(expStored, got); len(extra) > 0 {
			// something that must survive is gone
			sig := kind + "-removed-live"
			for _, x := range extra {
				if tr.tagged(x) && !(o.K == 'D' && x == o.N) {
					sig = kind + "-removed-tagged"
				}
			}
			fail(sig, fmt.Sprintf("op %d (%s): blobs %v must survive but are gone", oi, o, extra))
			failed = true
		}
		if left := setDiff(got, expStored); len(left) > 0 {
			fail(kind+"-left-garbage", fmt.Sprintf("op %d (%s): blobs %v must be removed but are still there", oi, o, left))
			failed = true
		}
		tagsOK := len(ob.tags) == len(expTags)
		for t, n := range expTags {
			if m, ok := ob.tags[t]; !ok || m != n {
				tagsOK = false
			}
		}
		if !tagsOK {
			fail(kind+"-tags", fmt.Sprintf("op %d (%s): tags are %v, expected %v", oi, o, ob.tags, expTags))
			failed = true
		}
		var wantStrays []int
		for k := range expStrays {
			wantStrays = append(wantStrays, k)
		}
		sort.Ints(wantStrays)
		if joinInts(wantStrays) != joinInts(ob.strays) {
			fail(kind+"-strays", fmt.Sprintf("op %d (%s): stray files %v, expected %v", oi, o, ob.strays, wantStrays))
			failed = true
		}
		// digest-only references (which ones GC keeps is the probed parameter kl)
		var wantDigs []int
		for _, n := range g.Nodes {
			if expDig[n.ID] && n.Desc.MediaType != "application/octet-stream" {
				wantDigs = append(wantDigs, n.ID)
			}
		}
		if joinInts(wantDigs) != joinInts(ob.digs) {
			fail(kind+"-digest-index", fmt.Sprintf("op %d (%s): digest references %v, expected %v", oi, o, ob.digs, wantDigs))
			failed = true
		}
		// index.json: exactly what saveIndex writes for the references at the last save
		{
			var tg, dg []string
			for t, n := range expDiskTags {
				tg = append(tg, fmt.Sprintf("t%d>%d", t, n))
			}
			var ids []int
			for n := range expDiskDigs {
				ids = append(ids, n)
			}
			sort.Strings(tg)
			sort.Ints(ids)
			for _, n := range ids {
				dg = append(dg, fmt.Sprintf("d%d", n))
			}
			if want := strings.Join(append(tg, dg...), ","); want != ob.disk {
				fail(kind+"-index-json", fmt.Sprintf("op %d (%s): index.json holds %q, expected %q", oi, o, ob.disk, want))
				failed = true
			}
		}
		// predecessor relation: exactly the nodes of the store's graph that list n
		if !failed {
			tr.stored, tr.known = expStored, expKnown
			for _, n := range g.Nodes {
				want := tr.preds(n.ID)
				if joinInts(want) != joinInts(ob.preds[n.ID]) {
					fail(kind+"-preds", fmt.Sprintf("op %d (%s): predecessors of %d are %v, expected %v", oi, o, n.ID, ob.preds[n.ID], want))
					failed = true
					break
				}
			}
		}
		if failed {
			continue // the reference state is no longer aligned with the store
		}
		// never a node that a surviving node still lists: a removed node (other than the
		// target) has no surviving predecessor except referrers of its own (a subject link
		// does not keep the subject alive; a tagged referrer survives its subject)
		for y := range cascade {
			if y == o.N {
				continue
			}
			for _, p := range g.Preds(y) {
				if expKnown[p] && lists(g, p, y) {
					fail("delete-removed-linked", fmt.Sprintf("op %d (%s): node %d was removed although surviving node %d lists it", oi, o, y, p))
					failed = true
				}
			}
		}
		if failed {
			continue
		}
		tr.stored, tr.known, tr.tags, tr.digidx, tr.strays = expStored, expKnown, expTags, expDig, expStrays
		tr.diskTags, tr.diskDigs = expDiskTags, expDiskDigs
	}
	in := modelInput(g, ops, seed)
	run.Case(id, in, strings.Join(out, " "))
	// the same history again on fresh stores: only Go's map iteration order differs between
	// the runs, so the observable outcome must be identical
	if !failed {
		for k := 1; k < repeats; k++ {
			again, hung := execOnly(g, ops)
			if hung {
				// reproduce before reporting (see above)
				again, hung = execOnly(g, ops)
			}
			if hung {
				hangs++
				fail("order-hang", fmt.Sprintf("repetition %d did not return within the watchdog", k))
				break
			}
			if again != strings.Join(out, " ") {
				fail("order-dependent", fmt.Sprintf("repetition %d of the same history gave %q, first run gave %q", k, again, strings.Join(out, " ")))
				break
			}
			run.Count("repetitions")
		}
	}
	if nontrivial {
		run.Nontrivial(in)
	}
	run.Count(fmt.Sprintf("nodes:%02d", len(g.Nodes)))
	if nontrivial {
		run.Sample(map[string]any{"graph": g.Describe(), "ops": rep.Ops})
	}
}

// stripIndex rewrites index.json so that it names only the entries that carry a reference
// name (what a tool that lists just the tagged top-level manifests writes).
func stripIndex(root string) error {
	p := filepath.Join(root, "index.json")
	data, err := os.ReadFile(p)
	if err != nil {
		return err
	}
	var ix ocispec.Index
	if err := json.Unmarshal(data, &ix); err != nil {
		return err
	}
	kept := []ocispec.Descriptor{}
	for _, d := range ix.Manifests {
		if d.Annotations[ocispec.AnnotationRefName] != "" {
			kept = append(kept, d)
		}
	}
	ix.Manifests = kept
	out, err := json.Marshal(ix)
	if err != nil {
		return err
	}
	return os.WriteFile(p, out, 0o644)
}

// badManifest: bytes that do not decode under an image-manifest media type
func badManifest(id int) (ocispec.Descriptor, []byte) {
	b := []byte(fmt.Sprintf("{\"schemaVersion\": 2, \"undecodable\": %d, ", id))
	return ocispec.Descriptor{MediaType: ocispec.MediaTypeImageManifest, Digest: digest.FromBytes(b), Size: int64(len(b))}, b
}

var repeats = 1

// keepLiveDigests: does GC keep the digest-only reference of a descriptor that stays in the
// rebuilt graph without being tagged or a kept referrer?  Both behaviours satisfy the
// property (C09 does not speak about digest-only references); which one the store has is
// probed once and passed to the model and to the reference.
var keepLiveDigests bool

func probeKeepLiveDigests() (keeps bool, definite bool) {
	root, err := os.MkdirTemp("", "c09p-")
	if err != nil {
		panic(err)
	}
	defer os.RemoveAll(root)
	store, err := oci.New(root)
	if err != nil {
		panic(err)
	}
	ctx := context.Background()
	push := func(mt string, body []byte) ocispec.Descriptor {
		d := ocispec.Descriptor{MediaType: mt, Digest: digest.FromBytes(body), Size: int64(len(body))}
		if err := store.Push(ctx, d, bytes.NewReader(body)); err != nil {
			panic(err)
		}
		return d
	}
	cfg := push(ocispec.MediaTypeImageConfig, []byte("{}"))
	var m ocispec.Manifest
	m.SchemaVersion = 2
	m.MediaType = ocispec.MediaTypeImageManifest
	m.Config = cfg
	m.Layers = []ocispec.Descriptor{}
	mb, _ := json.Marshal(m)
	md := push(ocispec.MediaTypeImageManifest, mb)
	var ix ocispec.Index
	ix.SchemaVersion = 2
	ix.MediaType = ocispec.MediaTypeImageIndex
	ix.Manifests = []ocispec.Descriptor{md}
	ib, _ := json.Marshal(ix)
	id := push(ocispec.MediaTypeImageIndex, ib)
	if err := store.Tag(ctx, id, "probe"); err != nil {
		panic(err)
	}
	w := &world{root: root, store: store}
	if err, hung := w.guarded(func(c context.Context) error { return store.GC(c) }); err != nil || hung {
		return false, !hung // a probe that exceeded the watchdog says nothing
	}
	d, err := store.Resolve(ctx, md.Digest.String())
	return err == nil && d.MediaType == ocispec.MediaTypeImageManifest, true
}

// execOnly runs the history on a fresh store and returns the observable string only.
func execOnly(g *dag.Graph, ops []op) (string, bool) {
	root, err := os.MkdirTemp("", "c09r-")
	if err != nil {
		panic(err)
	}
	defer os.RemoveAll(root)
	store, err := oci.New(root)
	if err != nil {
		panic(err)
	}
	w := &world{g: g, byDig: map[digest.Digest]int{}, root: root, store: store}
	for _, n := range g.Nodes {
		w.byDig[n.Desc.Digest] = n.ID
	}
	ctx := context.Background()
	strays := map[int]bool{}
	var out []string
	for _, o := range ops {
		var err error
		hung := false
		switch o.K {
		case 'P':
			err = store.Push(ctx, g.Nodes[o.N].Desc, bytes.NewReader(g.Nodes[o.N].Bytes))
		case 'T':
			err = store.Tag(ctx, g.Nodes[o.N].Desc, fmt.Sprintf("tag%d", o.T))
		case 'U':
			err = store.Untag(ctx, fmt.Sprintf("tag%d", o.T))
		case 'A':
			store.AutoGC = o.N == 1
		case 'S':
			p := filepath.Join(root, "blobs", strayPath(o.N))
			os.MkdirAll(filepath.Dir(p), 0o755)
			os.WriteFile(p, []byte(fmt.Sprintf("stray %d", o.N)), 0o644)
			strays[o.N] = true
		case 'B':
			bd, bb := badManifest(o.N)
			err = store.Push(ctx, bd, bytes.NewReader(bb))
		case 'V':
			store.AutoSaveIndex = o.N == 1
		case 'I':
			err = store.SaveIndex()
		case 'C':
			var token string
			token, err, hung = w.gcCancelled(o.N, strays)
			o.Model = token
		case 'R', 'F':
			if o.K == 'F' {
				if ferr := stripIndex(root); ferr != nil {
					panic(ferr)
				}
			}
			ns, nerr := oci.New(root)
			if nerr != nil {
				err = nerr
			} else {
				store = ns
				w.store = ns
			}
		case 'Y':
			alt := g.Nodes[o.N].Desc
			alt.MediaType = "application/octet-stream"
			err, hung = w.guarded(func(c context.Context) error { return store.Delete(c, alt) })
		case 'D':
			err, hung = w.guarded(func(c context.Context) error { return store.Delete(c, g.Nodes[o.N].Desc) })
		case 'G':
			var token string
			token, err, hung = w.gcCancelled(-1, strays)
			if strings.HasPrefix(token, "Q") {
				o.Model = token
			}
		case 'X':
			bid := blockerID(o.N)
			p := filepath.Join(root, "blobs", strayPath(bid))
			os.MkdirAll(p, 0o755)
			os.WriteFile(filepath.Join(p, "inside"), []byte("x"), 0o644)
			strays[bid] = true
		}
		if hung {
			return "", true
		}
		out = append(out, o.ModelString()+"="+errName(err)+"/"+w.observe(ctx, strays).String())
	}
	return strings.Join(out, " "), false
}

// ---------- generator ----------

func genCase(r *common.Rand) (*dag.Graph, []op) {
	o := dag.DefaultOptions()
	o.Twins = false
	o.MinNodes, o.MaxNodes = 3, 11
	if r.Chance(1, 3) {
		// small scope: few base nodes, referrers on top
		o.MinNodes, o.MaxNodes = 2, 5
	}
	o.MaxBlob = 24
	if r.Chance(1, 2) {
		o.Foreign = false
	}
	var g *dag.Graph
	for {
		g = dag.Random(r, o)
		okg := false
		for _, n := range g.Nodes {
			if !n.Foreign() {
				okg = true // something can be pushed
			}
		}
		// subjects that are not manifests (a layer or config named as subject, stored or never
		// pushed) are generated too: such a "referrer" has no manifest to refer to, so nothing
		// keeps it alive in GC and nothing cascades to it in Delete
		if okg {
			break
		}
	}
	if r.Chance(1, 3) {
		addAltBlob(r, g)
	}
	addReferrers(r, g, r.Intn(5))
	if r.Chance(1, 4) {
		addHeldCluster(r, g)
	}
	if keepLiveDigests && r.Chance(1, 6) {
		if cg, cops, ok := genUnindexedChain(r, g); ok {
			return cg, cops
		}
	}
	var pushable, manifests []int
	for _, n := range g.Nodes {
		if n.Foreign() {
			continue
		}
		pushable = append(pushable, n.ID)
		if n.IsManifest() {
			manifests = append(manifests, n.ID)
		}
	}
	var ops []op
	// phase 1: push (mostly everything bottom-up, sometimes shuffled / with holes)
	order := append([]int(nil), pushable...)
	if r.Chance(1, 4) {
		common.Shuffle(r, order)
	}
	// sometimes the store is reopened in the middle of the pushes: blobs pushed before and
	// not yet referenced by an indexed manifest are then unknown to the new store's graph
	restartAt := -1
	if keepLiveDigests && r.Chance(1, 6) {
		restartAt = r.Intn(len(order) + 1)
	}
	for i, n := range order {
		if i == restartAt {
			ops = append(ops, op{K: 'R'})
		}
		if r.Chance(1, 12) {
			continue
		}
		ops = append(ops, op{K: 'P', N: n})
	}
	// nodes of media type application/octet-stream are never tagged: Resolve(digest) could
	// not tell the reference from the blob fallback
	// layers/configs whose own media type is not application/octet-stream: Delete with the
	// descriptor Resolve(<digest>) returns for them is a different descriptor
	var altable []int
	for _, n := range pushable {
		if !g.Nodes[n].IsManifest() && g.Nodes[n].Desc.MediaType != "application/octet-stream" {
			altable = append(altable, n)
		}
	}
	var named []int
	for _, n := range pushable {
		if g.Nodes[n].Desc.MediaType != "application/octet-stream" {
			named = append(named, n)
		}
	}
	taggable := manifests
	if len(taggable) == 0 {
		taggable = named
	}
	pickTaggable := func() int {
		if r.Chance(1, 8) {
			return common.Pick(r, named)
		}
		return common.Pick(r, taggable)
	}
	nt := r.Intn(4)
	if len(taggable) == 0 {
		nt = 0
	}
	for i := 0; i < nt; i++ {
		ops = append(ops, op{K: 'T', N: pickTaggable(), T: r.Intn(nTags)})
	}
	// phase 2: mixed history
	steps := 2 + r.Intn(7)
	if run.Thorough() && r.Chance(1, 4) {
		steps += r.Intn(16) // long histories
	}
	for i := 0; i < steps; i++ {
		switch x := r.Intn(100); {
		case x < 30:
			n := common.Pick(r, pushable)
			if r.Chance(2, 3) && len(manifests) > 0 {
				n = common.Pick(r, manifests)
			}
			ops = append(ops, op{K: 'D', N: n})
		case x < 50:
			if r.Chance(1, 4) {
				// GC with a context that is done after a number of Done() calls: before the index
				// is rebuilt, somewhere in the sweep, or never
				ops = append(ops, op{K: 'C', N: r.Intn(14)})
				continue
			}
			ops = append(ops, op{K: 'G'})
			if keepLiveDigests && r.Chance(1, 3) {
				// GC saves index.json on this tree: reopen and carry on
				ops = append(ops, op{K: 'R'})
			}
		case x < 65:
			if len(taggable) == 0 {
				continue
			}
			ops = append(ops, op{K: 'T', N: pickTaggable(), T: r.Intn(nTags)})
		case x < 73:
			ops = append(ops, op{K: 'U', T: r.Intn(nTags)})
		case x < 83:
			ops = append(ops, op{K: 'P', N: common.Pick(r, pushable)})
		case x < 90:
			ops = append(ops, op{K: 'S', N: r.Intn(12)})
		default:
			ops = append(ops, op{K: 'A', N: r.Intn(2)})
		}
		if r.Chance(1, 25) {
			ops = append(ops, op{K: 'B', N: r.Intn(4)})
		}
		if len(altable) > 0 && r.Chance(1, 20) {
			ops = append(ops, op{K: 'Y', N: common.Pick(r, altable)})
		}
		if r.Chance(1, 40) {
			// a non-empty directory with a digest name: every later GC fails there
			ops = append(ops, op{K: 'X', N: r.Intn(3)})
		}
		if r.Chance(1, 14) {
			// AutoSaveIndex off / on / an explicit SaveIndex
			ops = append(ops, common.Pick(r, []op{{K: 'V', N: 0}, {K: 'V', N: 0}, {K: 'V', N: 1}, {K: 'I'}}))
		}
		if keepLiveDigests && r.Chance(1, 12) {
			// reopen at an arbitrary point (index.json is kept current by AutoSaveIndex)
			ops = append(ops, op{K: 'R'})
		}
		if keepLiveDigests && r.Chance(1, 16) {
			// a layout whose index names only the tagged manifests, then often a Delete
			// with AutoGC off: nested manifests that lose their last predecessor must stay listed
			ops = append(ops, op{K: 'F'})
			if r.Chance(2, 3) {
				ops = append(ops, op{K: 'A', N: r.Intn(2)})
				if len(manifests) > 0 {
					ops = append(ops, op{K: 'D', N: common.Pick(r, manifests)})
				}
			}
		}
	}
	if r.Chance(1, 2) {
		ops = append(ops, op{K: 'G'})
		if keepLiveDigests && r.Chance(1, 3) {
			ops = append(ops, op{K: 'R'})
		}
	}
	return g, ops
}

// genUnindexedChain: a referrer chain base <- mid <- ... <- tip of manifests in which an
// INTERMEDIATE manifest is in blobs/ but has no entry in index.json (pushed through a handle with
// AutoSaveIndex off that never saved, or dropped from the index by another tool), while the tip
// is pushed - and so indexed - afterwards.  GC must follow the chain through the storage: the
// tip's chain ends in a reachable manifest, so tip and the intermediate ones stay.
func genUnindexedChain(r *common.Rand, g *dag.Graph) (*dag.Graph, []op, bool) {
	var blobs, manifests []int
	for _, n := range g.Nodes {
		if n.Foreign() {
			continue
		}
		if n.IsManifest() {
			manifests = append(manifests, n.ID)
		} else {
			blobs = append(blobs, n.ID)
		}
	}
	if len(manifests) == 0 || len(blobs) == 0 {
		return nil, nil, false
	}
	base := common.Pick(r, manifests)
	if g.Nodes[base].Desc.MediaType == "application/octet-stream" {
		return nil, nil, false
	}
	length := 2 + r.Intn(3) // mids + tip
	chain := []int{}
	prev := base
	for i := 0; i < length; i++ {
		id := appendManifest(g, r.Chance(1, 4), prev, common.Pick(r, blobs), nil, "c")
		chain = append(chain, id)
		prev = id
	}
	tip := chain[len(chain)-1]
	mids := chain[:len(chain)-1]
	isChain := map[int]bool{}
	for _, c := range chain {
		isChain[c] = true
	}
	var ops []op
	for _, n := range g.Nodes {
		if n.Foreign() || isChain[n.ID] {
			continue
		}
		ops = append(ops, op{K: 'P', N: n.ID})
	}
	// the base is tagged, or held by a tagged manifest that lists / refers to it, or (sometimes) not
	// reachable at all: then the whole chain is garbage
	switch r.Intn(6) {
	case 0:
	default:
		ops = append(ops, op{K: 'T', N: base, T: r.Intn(nTags)})
	}
	switch r.Intn(3) {
	case 0:
		// the mids are pushed and then dropped from index.json by another tool
		for _, m := range mids {
			ops = append(ops, op{K: 'P', N: m})
		}
		ops = append(ops, op{K: 'F'})
	case 1:
		// the mids are pushed through a handle that never saves; a new handle pushes the tip
		ops = append(ops, op{K: 'V', N: 0})
		for _, m := range mids {
			ops = append(ops, op{K: 'P', N: m})
		}
		ops = append(ops, op{K: 'R'})
	default:
		// only the first mid is unindexed
		ops = append(ops, op{K: 'V', N: 0}, op{K: 'P', N: mids[0]}, op{K: 'R'})
		for _, m := range mids[1:] {
			ops = append(ops, op{K: 'P', N: m})
		}
	}
	ops = append(ops, op{K: 'P', N: tip})
	if r.Chance(1, 4) {
		ops = append(ops, op{K: 'S', N: r.Intn(12)})
	}
	if r.Chance(1, 4) {
		ops = append(ops, op{K: 'T', N: tip, T: r.Intn(nTags)}, op{K: 'U', T: r.Intn(nTags)})
	}
	if r.Chance(1, 5) {
		ops = append(ops, op{K: 'A', N: r.Intn(2)}, op{K: 'D', N: common.Pick(r, chain)})
	}
	ops = append(ops, op{K: 'G'})
	if r.Chance(1, 2) {
		ops = append(ops, op{K: 'R'})
		if r.Chance(1, 2) {
			ops = append(ops, op{K: 'G'})
		}
	}
	run.Count("template:unindexed-chain")
	return g, ops, true
}

// appendManifest adds an image manifest (config = blob cfg) or an index (listing lists) with an
// optional subject on top of g and returns its id.
func appendManifest(g *dag.Graph, index bool, subject int, cfg int, lists []int, note string) int {
	id := len(g.Nodes)
	nd := &dag.Node{ID: id, Subject: subject, TwinOf: -1}
	var subj *ocispec.Descriptor
	if subject >= 0 {
		d := g.Nodes[subject].Desc
		subj = &d
		nd.Succ = append(nd.Succ, subject)
	}
	ann := map[string]string{"verif.extra": note + strconv.Itoa(id)}
	var body []byte
	var mt string
	if index {
		nd.Kind, mt = dag.KIndex, ocispec.MediaTypeImageIndex
		var ix ocispec.Index
		ix.SchemaVersion, ix.MediaType, ix.Subject, ix.Annotations = 2, mt, subj, ann
		ix.Manifests = []ocispec.Descriptor{}
		for _, m := range lists {
			ix.Manifests = append(ix.Manifests, g.Nodes[m].Desc)
			nd.Succ = append(nd.Succ, m)
		}
		body, _ = json.Marshal(ix)
	} else {
		nd.Kind, mt = dag.KImage, ocispec.MediaTypeImageManifest
		var m ocispec.Manifest
		m.SchemaVersion, m.MediaType, m.Subject, m.Annotations = 2, mt, subj, ann
		m.Config = g.Nodes[cfg].Desc
		m.Layers = []ocispec.Descriptor{}
		nd.Succ = append(nd.Succ, cfg)
		body, _ = json.Marshal(m)
	}
	nd.Bytes = body
	nd.Desc = ocispec.Descriptor{MediaType: mt, Digest: digest.FromBytes(body), Size: int64(len(body))}
	g.Nodes = append(g.Nodes, nd)
	return id
}

// addAltBlob: a layer addressed by sha512/sha384 and an image manifest using it as its
// config (content under blobs/sha512, blobs/sha384 must be swept and kept like any other)
func addAltBlob(r *common.Rand, g *dag.Graph) {
	id := len(g.Nodes)
	body := []byte(fmt.Sprintf("alt-blob-%d-%x", id, r.U64()))
	g.Nodes = append(g.Nodes, &dag.Node{ID: id, Kind: dag.KBlob, Bytes: body, Subject: -1, TwinOf: -1,
		Desc: ocispec.Descriptor{MediaType: ocispec.MediaTypeImageLayer, Digest: digest.FromBytes(body), Size: int64(len(body))}})
	altDigest(r, g)
	appendManifest(g, false, -1, id, nil, "a")
	if r.Chance(1, 2) {
		altDigest(r, g)
	}
}

// addHeldCluster: a referrer X of some manifest m that an index R lists (R is itself a
// referrer of m, or of nothing) and that has a referrer of its own: X must wait for R and
// is never "dangling" while its own referrer exists.
func addHeldCluster(r *common.Rand, g *dag.Graph) {
	var blobs, manifests []int
	for _, n := range g.Nodes {
		if n.Foreign() {
			continue
		}
		if n.IsManifest() {
			manifests = append(manifests, n.ID)
		} else {
			blobs = append(blobs, n.ID)
		}
	}
	if len(manifests) == 0 || len(blobs) == 0 {
		return
	}
	m := common.Pick(r, manifests)
	c := common.Pick(r, blobs)
	x := appendManifest(g, false, m, c, nil, "x")
	if r.Chance(1, 3) {
		altDigest(r, g)
	}
	rs := -1
	switch r.Intn(3) {
	case 0:
		rs = m
	case 1:
		rs = common.Pick(r, manifests)
	}
	appendManifest(g, true, rs, 0, []int{x}, "r")
	if r.Chance(2, 3) {
		appendManifest(g, false, x, c, nil, "s")
	}
}

// addReferrers puts k more manifests on top of g: image manifests and indexes whose
// subject is an existing manifest (referrer chains, referrers listed by other
// referrers, referrers reachable only through another referrer).
func addReferrers(r *common.Rand, g *dag.Graph, k int) {
	for i := 0; i < k; i++ {
		var blobs, manifests []int
		for _, n := range g.Nodes {
			if n.Foreign() {
				continue
			}
			if n.IsManifest() {
				manifests = append(manifests, n.ID)
			} else {
				blobs = append(blobs, n.ID)
			}
		}
		if len(manifests) == 0 || len(blobs) == 0 {
			return
		}
		pickM := func() int {
			if r.Chance(1, 2) && len(manifests) > 2 {
				return manifests[len(manifests)-1-r.Intn(2)]
			}
			return common.Pick(r, manifests)
		}
		id := len(g.Nodes)
		nd := &dag.Node{ID: id, Subject: -1, TwinOf: -1}
		withSubject := r.Chance(4, 5)
		var subj *ocispec.Descriptor
		if withSubject {
			sj := pickM()
			nd.Subject = sj
			nd.Succ = append(nd.Succ, sj)
			d := g.Nodes[sj].Desc
			subj = &d
		}
		var body []byte
		var mt string
		if r.Chance(1, 2) {
			nd.Kind = dag.KImage
			mt = ocispec.MediaTypeImageManifest
			var m ocispec.Manifest
			m.SchemaVersion = 2
			m.MediaType = mt
			m.Subject = subj
			c := common.Pick(r, blobs)
			m.Config = g.Nodes[c].Desc
			nd.Succ = append(nd.Succ, c)
			m.Layers = []ocispec.Descriptor{}
			m.Annotations = map[string]string{"verif.extra": strconv.Itoa(id)}
			body, _ = json.Marshal(m)
		} else {
			nd.Kind = dag.KIndex
			mt = ocispec.MediaTypeImageIndex
			var ix ocispec.Index
			ix.SchemaVersion = 2
			ix.MediaType = mt
			ix.Subject = subj
			ix.Manifests = []ocispec.Descriptor{}
			nm := 1 + r.Intn(2)
			for j := 0; j < nm; j++ {
				m := pickM()
				ix.Manifests = append(ix.Manifests, g.Nodes[m].Desc)
				nd.Succ = append(nd.Succ, m)
			}
			ix.Annotations = map[string]string{"verif.extra": strconv.Itoa(id)}
			body, _ = json.Marshal(ix)
		}
		nd.Bytes = body
		nd.Desc = ocispec.Descriptor{MediaType: mt, Digest: digest.FromBytes(body), Size: int64(len(body))}
		g.Nodes = append(g.Nodes, nd)
		if r.Chance(1, 4) {
			altDigest(r, g)
		}
	}
}

// ---------- small-scope exhaustive enumeration (thorough tier) ----------

// shape of one manifest of an enumerated graph: image (config = blob 0) or index (listing
// one or two earlier manifests), optional subject among the earlier manifests.
type mshape struct {
	index   bool
	subject int   // node id or -1
	lists   []int // index only
}

func buildSmall(shapes []mshape) *dag.Graph {
	g := &dag.Graph{}
	blob := []byte("small-scope-blob")
	g.Nodes = append(g.Nodes, &dag.Node{ID: 0, Kind: dag.KConfig, Bytes: blob, Subject: -1, TwinOf: -1,
		Desc: ocispec.Descriptor{MediaType: ocispec.MediaTypeImageConfig, Digest: digest.FromBytes(blob), Size: int64(len(blob))}})
	for _, sh := range shapes {
		id := len(g.Nodes)
		nd := &dag.Node{ID: id, Subject: sh.subject, TwinOf: -1}
		var subj *ocispec.Descriptor
		if sh.subject >= 0 {
			d := g.Nodes[sh.subject].Desc
			subj = &d
			nd.Succ = append(nd.Succ, sh.subject)
		}
		var body []byte
		var mt string
		ann := map[string]string{"verif.small": strconv.Itoa(id)}
		if sh.index {
			nd.Kind, mt = dag.KIndex, ocispec.MediaTypeImageIndex
			var ix ocispec.Index
			ix.SchemaVersion, ix.MediaType, ix.Subject, ix.Annotations = 2, mt, subj, ann
			ix.Manifests = []ocispec.Descriptor{}
			for _, m := range sh.lists {
				ix.Manifests = append(ix.Manifests, g.Nodes[m].Desc)
				nd.Succ = append(nd.Succ, m)
			}
			body, _ = json.Marshal(ix)
		} else {
			nd.Kind, mt = dag.KImage, ocispec.MediaTypeImageManifest
			var m ocispec.Manifest
			m.SchemaVersion, m.MediaType, m.Subject, m.Annotations = 2, mt, subj, ann
			m.Config = g.Nodes[0].Desc
			m.Layers = []ocispec.Descriptor{}
			nd.Succ = append(nd.Succ, 0)
			body, _ = json.Marshal(m)
		}
		nd.Bytes = body
		nd.Desc = ocispec.Descriptor{MediaType: mt, Digest: digest.FromBytes(body), Size: int64(len(body))}
		g.Nodes = append(g.Nodes, nd)
	}
	return g
}

// every shape the next manifest can take on top of k existing nodes (node 0 is the blob)
func nextShapes(k int) []mshape {
	var out []mshape
	subjects := []int{-1}
	for m := 1; m < k; m++ {
		subjects = append(subjects, m)
	}
	for _, sj := range subjects {
		out = append(out, mshape{subject: sj})
	}
	for a := 1; a < k; a++ {
		for _, sj := range subjects {
			out = append(out, mshape{index: true, subject: sj, lists: []int{a}})
		}
		for b := a + 1; b < k; b++ {
			for _, sj := range subjects {
				out = append(out, mshape{index: true, subject: sj, lists: []int{a, b}})
			}
		}
	}
	return out
}

func enumShapes(manifests int, cur []mshape, visit func([]mshape)) {
	if len(cur) == manifests {
		visit(cur)
		return
	}
	for _, sh := range nextShapes(len(cur) + 1) {
		enumShapes(manifests, append(append([]mshape(nil), cur...), sh), visit)
	}
}

// historiesFor: push everything, tag the manifests of the subset (tag i-1 on manifest i),
// then one of the Delete/GC arrangements.
func smallHistory(n int, tagMask int, target int, variant int) []op {
	var ops []op
	for i := 0; i < n; i++ {
		ops = append(ops, op{K: 'P', N: i})
	}
	for m := 1; m < n; m++ {
		if tagMask&(1<<(m-1)) != 0 {
			ops = append(ops, op{K: 'T', N: m, T: m - 1})
		}
	}
	d := op{K: 'D', N: target}
	gc := op{K: 'G'}
	switch variant {
	case 0:
		ops = append(ops, d)
	case 1:
		ops = append(ops, gc, d, gc)
	case 2:
		ops = append(ops, d, gc)
	default:
		ops = append(ops, op{K: 'A', N: 0}, d, gc)
	}
	return ops
}

// exhaustive: all graphs of a blob and up to 3 manifests x all tag subsets x every delete
// target x 4 Delete/GC arrangements; for 4 manifests every graph with a PRNG-chosen sample
// of 8 (tags, target, arrangement) combinations.
func exhaustive() {
	saved := repeats
	repeats = 1
	defer func() { repeats = saved }()
	for manifests := 1; manifests <= 4 && hangs < 2; manifests++ {
		enumShapes(manifests, nil, func(shapes []mshape) {
			if hangs >= 2 {
				return
			}
			g := buildSmall(shapes)
			n := len(g.Nodes)
			run.Count(fmt.Sprintf("exhaustive:graphs-%d", n))
			if manifests <= 2 {
				// GC cancelled at EVERY point: the context is done from its T-th Done() call on, for
				// every T up to the number of calls a complete GC makes (before the rebuild, before
				// each directory entry, never), then a GC that must finish the job
				for mask := 0; mask < 1<<manifests; mask++ {
					for t := 0; t <= manifests+n+3; t++ {
						ops := smallHistory(n, mask, 0, 0)
						ops = ops[:len(ops)-1] // without the Delete
						ops = append(ops, op{K: 'S', N: 0}, op{K: 'S', N: 1}, op{K: 'C', N: t}, op{K: 'G'})
						runCase(g, ops, 0)
						run.Count("exhaustive:cancel-points")
					}
				}
			}
			if manifests <= 3 {
				for mask := 0; mask < 1<<manifests; mask++ {
					for target := 0; target < n; target++ {
						for v := 0; v < 4; v++ {
							runCase(g, smallHistory(n, mask, target, v), 0)
							run.Count("exhaustive:histories")
						}
					}
				}
				return
			}
			for k := 0; k < 8; k++ {
				runCase(g, smallHistory(n, run.Rand.Intn(1<<manifests), run.Rand.Intn(n), run.Rand.Intn(4)), 0)
				run.Count("exhaustive:histories")
			}
		})
	}
}

// coverageFloors: a run whose streams silently produced (almost) nothing must not pass.
func coverageFloors(n int) {
	if n < 500 || hangs > 0 || run.OracleFails > 0 {
		return
	}
	need := map[string]int{"op:delete": n / 4, "op:gc": n / 4, "op:tag": n / 2, "op:push": 2 * n, "op:stray": n / 20, "repetitions": n / 2,
		"gc-cancel:in-sweep": n / 50, "gc-cancel:before-rebuild": n / 100, "gc-cancel:completed": n / 100,
		"op:autosave": n / 20, "op:saveindex": n / 50, "op:push-undecodable": n / 20, "op:gc-blocked": n / 50, "op:delete-by-blob-descriptor": n / 20}
	if keepLiveDigests {
		need["op:reopen"] = n / 20
		need["template:unindexed-chain"] = n / 12
	}
	if run.Thorough() {
		need["exhaustive:cancel-points"] = 50
		need["exhaustive:histories"] = 10000
	}
	var missing []string
	for k, v := range need {
		if run.Dist[k] < v {
			missing = append(missing, fmt.Sprintf("%s=%d<%d", k, run.Dist[k], v))
		}
	}
	if len(missing) > 0 {
		sort.Strings(missing)
		fmt.Fprintln(os.Stderr, "C09 harness: coverage floor not reached:", strings.Join(missing, " "))
		os.Exit(3)
	}
}

func main() {
	run = common.Start("C09")
	run.Rule = "distinct (graph, history) pairs in which a Delete cascaded beyond its target or a GC removed at least one blob"
	// (a stalled probe says nothing: ask again; give up - as a harness failure - after 5 stalls)
	answered := false
	for i := 0; i < 5 && !answered; i++ {
		keepLiveDigests, answered = probeKeepLiveDigests()
	}
	if !answered {
		fmt.Fprintln(os.Stderr, "C09 harness: the start-up probe (GC on a 3-node store) exceeded the watchdog 5 times")
		os.Exit(4)
	}
	run.Extra["gc_keeps_live_digest_refs"] = keepLiveDigests
	if run.Replay != "" {
		for _, c := range common.ReadReplay(run.Replay) {
			if cs, ok := c["caseseed"]; ok {
				v, _ := strconv.ParseUint(cs, 10, 64)
				g, ops := genCase(common.NewRand(v))
				runCase(g, ops, v)
				continue
			}
			var es []dag.Encoded
			if err := json.Unmarshal([]byte(c["graph"]), &es); err != nil {
				continue
			}
			rg := dag.Decode(es)
			if a, ok := c["algs"]; ok {
				algs := map[string]string{}
				if json.Unmarshal([]byte(a), &algs) == nil {
					applyAlgs(rg, algs)
				}
			}
			runCase(rg, parseOps(c["ops"]), 0)
		}
		run.Finish()
		return
	}
	repeats = run.Scale(2, 3)
	if run.Thorough() {
		exhaustive()
	}
	n := run.Scale(1000, 8000)
	if os.Getenv("C09_ONLY_EXHAUSTIVE") != "" { // manual testing aid
		n = 0
	}
	defer coverageFloors(n)
	for i := 0; i < n && hangs < 2; i++ {
		cs := run.Rand.U64()
		g, ops := genCase(common.NewRand(cs))
		run.Extra["last_caseseed"] = cs
		runCase(g, ops, cs)
	}
	run.Finish()
}
