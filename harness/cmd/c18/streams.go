package main

// Dedicated generator streams for two bug classes that must not depend on luck:
//
//  legacy-get: a document whose auths hold only legacy spellings of a host
//    (https://host/, http://host/v1/ ...); Get by the bare host (answered
//    through the legacy scan) BEFORE a Put/Delete of another entry saves the
//    file.  A Get that caches / writes its match under the bare host shows up
//    as an entry nobody stored (delete-not-removed) and in the model diff.
//  old-mode: a pre-existing config file with permission bits 0640 0644 0664
//    0666 0604 0660 0400 0755 0600; a Put or a Delete of an existing entry must
//    leave it 0600 whatever the old bits were (mode).

import (
	"fmt"

	"verifharness/common"
)

func legacyDoc(r *common.Rand, host string, forms []string) string {
	d := &jv{k: jObj}
	a := &jv{k: jObj}
	for _, f := range forms {
		o := opx{U: genUser(r), P: genPart(r)}
		if o.U == "" && o.P == "" {
			o.U = "legacy"
		}
		e := expectedEntry(o)
		if r.Intn(3) == 0 {
			e.set("email", jstr("x@y"))
		}
		if r.Intn(4) == 0 { // legacy username/password fields instead of auth
			e = &jv{k: jObj}
			e.set("username", jstr("lu"))
			e.set("password", jstr("lp:with:colons"))
		}
		a.set(fmt.Sprintf(f, host), e)
	}
	other := common.Pick(r, []string{"other.example", "zz.example:5000"})
	a.set(other, expectedEntry(opx{U: "o", P: "p"}))
	d.set("auths", a)
	if r.Bool() {
		d.set("HttpHeaders", genValue(r, 1))
	}
	return d.text(r)
}

func legacyStream(r *common.Rand, n int) {
	formSets := [][]string{
		{"https://%s/"}, {"http://%s/v1/"}, {"https://%s/v1/"}, {"https://%s"},
		{"https://%s/", "http://%s/v1/"}, {"http://%s", "https://%s/v2/"},
	}
	for i := 0; i < n; i++ {
		host := common.Pick(r, hostPool)
		forms := formSets[i%len(formSets)]
		t := legacyDoc(r, host, forms)
		other := "other.example"
		if d, ok := parseJSON([]byte(t)); ok && d.get("auths").get("zz.example:5000") != nil {
			other = "zz.example:5000"
		}
		hc := histCase{Kind: "H", Init: &t, Mode: 0o600}
		hc.Ops = append(hc.Ops, opx{Op: "G", Addr: host})
		switch i % 4 {
		case 0: // a Put of an unrelated address saves
			hc.Ops = append(hc.Ops, opx{Op: "P", Addr: "new.example", U: "u", P: "p"})
		case 1: // a Delete of an existing unrelated entry saves
			hc.Ops = append(hc.Ops, opx{Op: "D", Addr: other})
		case 2: // Delete by bare host is a no-op (exact keys only), then a saving Put
			hc.Ops = append(hc.Ops, opx{Op: "D", Addr: host}, opx{Op: "G", Addr: host},
				opx{Op: "P", Addr: other, U: "u2", P: "p2", R: "rt"})
		default: // a refused Put, a second Get, then the save
			hc.Ops = append(hc.Ops, opx{Op: "P", Addr: host, U: "a:b", P: "p"}, opx{Op: "G", Addr: host},
				opx{Op: "D", Addr: other})
		}
		hc.Ops = append(hc.Ops, opx{Op: "G", Addr: host}, opx{Op: "G", Addr: fmt.Sprintf(forms[0], host)})
		run.Count("stream:legacy-get")
		runHistory(hc)
	}
}

var oldModes = []uint32{0o640, 0o644, 0o664, 0o666, 0o604, 0o660, 0o400, 0o755, 0o600}

func modeStream(r *common.Rand, rounds int) {
	for k := 0; k < rounds; k++ {
		for _, m := range oldModes {
			t := legacyDoc(r, "reg.example.com:5000", []string{"%s"})
			for _, first := range []opx{
				{Op: "P", Addr: "fresh.example", U: "u", P: "p"},
				{Op: "D", Addr: "reg.example.com:5000"},
				{Op: "P", Addr: "reg.example.com:5000", U: "", P: "", A: "tok"},
			} {
				hc := histCase{Kind: "H", Init: &t, Mode: m, Ops: []opx{{Op: "G", Addr: "reg.example.com:5000"}, first,
					{Op: "G", Addr: first.Addr}}}
				run.Count(fmt.Sprintf("stream:old-mode-%o", m))
				runHistory(hc)
			}
		}
	}
}

// plainStream: histories on a missing config over plain host addresses only: the
// FileStore must answer like the in-memory Store.
func plainStream(r *common.Rand, n int) {
	for i := 0; i < n; i++ {
		hc := histCase{Kind: "H", SubDir: r.Intn(4) == 0, Depth: 1 + r.Intn(2)}
		hosts := []string{common.Pick(r, hostPool), common.Pick(r, hostPool), common.Pick(r, hostPool)}
		for j := 0; j < 12; j++ {
			a := common.Pick(r, hosts)
			switch r.Intn(6) {
			case 0, 1:
				hc.Ops = append(hc.Ops, opx{Op: "P", Addr: a, U: genUser(r), P: genPart(r), R: common.Pick(r, []string{"", "", genPart(r)})})
			case 2:
				hc.Ops = append(hc.Ops, opx{Op: "D", Addr: a})
			default:
				hc.Ops = append(hc.Ops, opx{Op: "G", Addr: a})
			}
		}
		run.Count("stream:plain-vs-memory")
		runHistory(hc)
	}
}
