package main

// Controlled concurrent schedules.  testing/synctest cannot be used here: the
// FileStore blocks on sync.RWMutex (not "durably blocked" for synctest) and on
// file-system calls, and it offers no injection point.  Instead the callers run
// in a child process, one OS thread each (runtime.LockOSThread), under strace
// with a DELAY injected at the entry of a chosen system call of the save
// (renameat / fchmod / write): the delayed caller sits inside its save for
// DelayMs while the other callers issue their operations.  With the write lock
// held across the save they simply wait; if the lock is released before (or
// during) the save, the late rename overwrites their update and no sequential
// order explains the outcome (oracle signature nonserial) -- deterministically.

import (
	"context"
	"encoding/json"
	"path/filepath"
	"strings"
	"os"
	"os/exec"
	"runtime"
	"sync"
	"time"

	"oras.land/oras-go/v2/registry/remote/credentials"
	"verifharness/common"
	"verifharness/crashkit"
)

type delayedChildSpec struct {
	Path     string  `json:"path"`
	Threads  [][]opx `json:"threads"`
	OffsetMs int     `json:"offset_ms"`
	Free     bool    `json:"free"` // free-running goroutines instead of the controlled schedule
	Dynamic  bool    `json:"dynamic"`
}

// concChildMain: C18_CONCCHILD=<file with a JSON array of delayedChildSpec>; one JSON
// array of results (null = the store did not open) on stdout.
func concChildMain() {
	data, err := os.ReadFile(os.Getenv("C18_CONCCHILD"))
	var specs []delayedChildSpec
	if err != nil || json.Unmarshal(data, &specs) != nil {
		os.Exit(3)
	}
	all := make([][][]string, len(specs))
	for k, spec := range specs {
		var fs credentials.Store
		var err error
		if spec.Dynamic {
			fs, err = credentials.NewStore(spec.Path, credentials.StoreOptions{AllowPlaintextPut: true})
		} else {
			fs, err = credentials.NewFileStore(spec.Path)
		}
		if err != nil {
			continue
		}
		if spec.Free {
			all[k] = runFree(fs, spec.Threads)
		} else {
			all[k] = runControlled(fs, spec)
		}
	}
	js, _ := json.Marshal(childOutput{Results: all, SlowStart: slowStart, SlowEnd: slowEnd, OtherStarts: otherStarts, OtherEnds: otherEnds})
	os.Stdout.Write(js)
	os.Exit(0)
}

// time stamps of the last controlled run (child side), reported to the parent
var (
	slowStart, slowEnd     int64
	otherStarts, otherEnds []int64
	mu                     sync.Mutex
)

func runControlled(fs credentials.Store, spec delayedChildSpec) [][]string {
	results := make([][]string, len(spec.Threads))
	warm := make(chan struct{}) // closed when the warm-up operations are done
	var warmWG, wg sync.WaitGroup
	for i, ops := range spec.Threads {
		results[i] = make([]string, len(ops))
		wg.Add(1)
		if i > 0 {
			warmWG.Add(1)
		}
		go func(i int, ops []opx) {
			defer wg.Done()
			runtime.LockOSThread() // this goroutine owns one OS thread: strace counts per thread
			if i == 0 {
				<-warm
				slowStart = time.Now().UnixNano()
				for j, o := range ops {
					results[i][j] = doOp(fs, o)
				}
				slowEnd = time.Now().UnixNano()
				return
			}
			if len(ops) > 0 {
				results[i][0] = doOp(fs, ops[0]) // warm-up: consumes this thread's delayed call
			}
			warmWG.Done()
			<-warm
			time.Sleep(time.Duration(spec.OffsetMs) * time.Millisecond)
			for j := 1; j < len(ops); j++ {
				t := time.Now().UnixNano()
				results[i][j] = doOp(fs, ops[j])
				mu.Lock()
				otherStarts = append(otherStarts, t)
				otherEnds = append(otherEnds, time.Now().UnixNano())
				mu.Unlock()
			}
		}(i, ops)
	}
	warmWG.Wait()
	close(warm)
	wg.Wait()
	return results
}

func childCmd(specs []delayedChildSpec) (crashkit.Cmd, string) {
	js, _ := json.Marshal(specs)
	f, err := os.CreateTemp(run.Dir, "concspec-*.json")
	if err != nil {
		panic(err)
	}
	f.Write(js)
	f.Close()
	exe, _ := os.Executable()
	return crashkit.Cmd{Path: exe, Env: append(os.Environ(), "C18_CONCCHILD="+f.Name()), Dir: run.Dir, Scratch: run.Dir}, f.Name()
}

type childOutput struct {
	Results     [][][]string `json:"results"`
	SlowStart   int64        `json:"slow_start"`
	SlowEnd     int64        `json:"slow_end"`
	OtherStarts []int64      `json:"other_starts"`
	OtherEnds   []int64      `json:"other_ends"`
}

var lastChild childOutput

func decodeChild(out []byte, status int, timedOut bool, err error, n int) ([][][]string, string) {
	switch {
	case timedOut:
		return nil, "hang"
	case err != nil:
		return nil, "exec-failed"
	case status == 3:
		return nil, "child-setup"
	case status == 66:
		return nil, "race"
	case status != 0:
		return nil, "crashed"
	}
	lastChild = childOutput{}
	if json.Unmarshal(out, &lastChild) != nil || len(lastChild.Results) != n {
		return nil, "bad-output"
	}
	return lastChild.Results, ""
}

// raceChild is this harness rebuilt with the Go race detector ("" = not available).
var (
	raceChild      string
	raceChildTried bool
	lastRaceReport string
)

// buildRaceChild rebuilds cmd/c18 with -race (needs cgo); the module file written by
// bin/check next to the harness binary is reused.
func buildRaceChild() {
	if raceChildTried {
		return
	}
	raceChildTried = true
	_, src, _, ok := runtime.Caller(0)
	exe, err := os.Executable()
	if !ok || err != nil {
		return
	}
	srcDir := filepath.Dir(src) // .../harness/cmd/c18
	modfile := filepath.Join(filepath.Dir(exe), "harness.mod")
	out := filepath.Join(run.Dir, "hx_c18_race") // per run: concurrent checks must not overwrite a running binary
	ctx, cancel := context.WithTimeout(context.Background(), 5*time.Minute)
	defer cancel()
	cmd := exec.CommandContext(ctx, "go1.26.8", "build", "-race", "-modfile", modfile, "-tags", "verif", "-o", out, ".")
	cmd.Dir = srcDir
	cmd.Env = append(os.Environ(), "CGO_ENABLED=1", "GOFLAGS=-mod=mod", "GOPROXY=off", "GOSUMDB=off", "GOTOOLCHAIN=local")
	if msg, err := cmd.CombinedOutput(); err != nil {
		run.Extra["race_detector"] = "race build failed: " + strings.TrimSpace(string(msg))
		return
	}
	raceChild = out
	run.Extra["race_detector"] = "free-running concurrent cases run in a child built with -race"
}

// execFree runs free-running cases in one child process (no tracing), built
// with the race detector when possible.
func execFree(ps []concPrep) ([][][]string, string) {
	buildRaceChild()
	specs := make([]delayedChildSpec, len(ps))
	for i, p := range ps {
		specs[i] = delayedChildSpec{Path: p.path, Threads: p.cc.Threads, Free: true, Dynamic: p.cc.Dynamic}
	}
	c, specFile := childCmd(specs)
	defer os.Remove(specFile)
	limit := time.Duration(30+len(ps)/4) * time.Second
	ctx, cancel := context.WithTimeout(context.Background(), limit)
	defer cancel()
	path := c.Path
	if raceChild != "" {
		path = raceChild
	}
	cmd := exec.CommandContext(ctx, path)
	cmd.Env, cmd.Dir = append(c.Env, "GORACE=halt_on_error=1 exitcode=66"), c.Dir
	var stderr strings.Builder
	cmd.Stderr = &stderr
	out, err := cmd.Output()
	status := 0
	if ee, ok := err.(*exec.ExitError); ok {
		status, err = ee.ExitCode(), nil
		if status == 0 {
			status = -1
		}
	}
	if status == 66 {
		r := stderr.String()
		if i := strings.Index(r, "WARNING: DATA RACE"); i >= 0 {
			r = r[i:]
		}
		if len(r) > 1200 {
			r = r[:1200]
		}
		lastRaceReport = strings.Join(strings.Fields(r), " ")
	}
	return decodeChild(out, status, ctx.Err() != nil, err, len(ps))
}

func execDelayed(cc concCase, path string) ([][]string, string) {
	c, specFile := childCmd([]delayedChildSpec{{Path: path, Threads: cc.Threads, OffsetMs: cc.Delay.OffsetMs}})
	defer os.Remove(specFile)
	out, status, timedOut, err := crashkit.RunDelayed(c, cc.Delay.Syscall, 1, cc.Delay.DelayMs*1000, 30*time.Second)
	all, why := decodeChild(out, status, timedOut, err, 1)
	if all == nil {
		return nil, why
	}
	if all[0] == nil {
		return nil, "child-setup"
	}
	// the schedule is only "controlled" when it really happened: thread 0's program took at least
	// most of the injected delay and another caller STARTED an operation inside it
	stretch := lastChild.SlowEnd - lastChild.SlowStart
	inside := 0
	for _, t := range lastChild.OtherStarts {
		if t > lastChild.SlowStart && t < lastChild.SlowEnd {
			inside++
		}
	}
	if stretch >= int64(cc.Delay.DelayMs)*1000000*8/10 && inside > 0 {
		run.Count("conc:controlled-overlap-verified")
	} else {
		run.Count("conc:controlled-degenerate")
	}
	return all[0], ""
}

// genDelayed: thread 0 is the stretched writer; the others each start with a
// saving warm-up Put and then operate inside thread 0's save.
func genDelayed(r *common.Rand) concCase {
	addrs := []string{"a.example", "b.example:5000", "c"}
	cc := genConc(r)
	cc.Init = nil
	if r.Bool() {
		d := &jv{k: jObj}
		a := &jv{k: jObj}
		a.set("c", expectedEntry(opx{U: "old", P: "entry"}))
		d.set("auths", a)
		d.set("keep", genValue(r, 1))
		t := d.text(r)
		cc.Init = &t
	}
	cc.Threads = nil
	slow := opx{Op: "P", Addr: common.Pick(r, addrs), U: "slow", P: "writer"}
	if cc.Init != nil && r.Intn(3) == 0 {
		slow = opx{Op: "D", Addr: "c"}
	}
	cc.Threads = append(cc.Threads, []opx{slow})
	for i := 1 + r.Intn(2); i > 0; i-- {
		ops := []opx{{Op: "P", Addr: common.Pick(r, []string{"w1.example", "w2.example"}), U: "warm", P: "up"}}
		for j := 1 + r.Intn(2); j > 0; j-- {
			a := common.Pick(r, addrs)
			switch r.Intn(6) {
			case 0, 1, 2:
				ops = append(ops, opx{Op: "P", Addr: a, U: common.Pick(r, []string{"u1", "u2"}), P: common.Pick(r, []string{"p1", "p:2"})})
			case 3:
				ops = append(ops, opx{Op: "D", Addr: common.Pick(r, []string{a, ops[0].Addr})})
			default:
				ops = append(ops, opx{Op: "G", Addr: a})
			}
		}
		cc.Threads = append(cc.Threads, ops)
	}
	cc.Delay = &delaySpec{Syscall: common.Pick(r, []string{"renameat", "renameat", "fchmod", "write", "openat", "newfstatat"}), DelayMs: 300, OffsetMs: 80}
	return cc
}

func fixedDelayed() []concCase {
	return []concCase{
		{Kind: "S", Threads: [][]opx{{{Op: "P", Addr: "a.example", U: "slow", P: "writer"}},
			{{Op: "P", Addr: "w.example", U: "warm", P: "up"}, {Op: "P", Addr: "b.example", U: "u", P: "p"}, {Op: "G", Addr: "a.example"}}},
			Delay: &delaySpec{Syscall: "renameat", DelayMs: 300, OffsetMs: 80}},
		{Kind: "S", Threads: [][]opx{{{Op: "P", Addr: "a.example", U: "slow", P: "writer"}},
			{{Op: "P", Addr: "w.example", U: "warm", P: "up"}, {Op: "D", Addr: "w.example"}},
			{{Op: "P", Addr: "w2.example", U: "warm", P: "up"}, {Op: "P", Addr: "c", U: "u", P: "p"}}},
			Delay: &delaySpec{Syscall: "fchmod", DelayMs: 300, OffsetMs: 80}},
	}
}

