package main

// DB cases: histories through the DynamicStore of store.go (credentials.NewStore,
// DetectDefaultNativeStore off) on documents that sometimes configure a
// credential helper or a credsStore (with names of programs that do not exist).
// Judged by the model that reads the bytes of the file (Model/JsonRead.v
// open_dynamic, Model/CredFile.v ds_step); oracle: an operation routed to a
// native helper never changes the file; a Put that went to the file reads back.

import (
	"context"
	"errors"
	"fmt"
	"os"
	"path/filepath"
	"strings"

	"oras.land/oras-go/v2/registry/remote/auth"
	"oras.land/oras-go/v2/registry/remote/credentials"
	"verifharness/common"
)

type dynCase struct {
	Kind  string  `json:"kind"` // "DB"
	Init  *string `json:"init"`
	Allow bool    `json:"allow"`
	Ops   []opx   `json:"ops"`
}

func genDynamic(r *common.Rand) dynCase {
	hc := genHistory(r, 8)
	dc := dynCase{Kind: "DB", Allow: r.Intn(4) != 0}
	var ops []opx
	for _, o := range hc.Ops {
		if o.Op != "C" {
			ops = append(ops, o)
		}
	}
	dc.Ops = ops
	if hc.Init != nil {
		if d, ok := parseJSON([]byte(*hc.Init)); ok && d.k == jObj {
			// helper / store names of programs that certainly do not exist
			if h := d.get("credHelpers"); h != nil && h.k == jObj {
				for i := range h.obj {
					if h.obj[i].val.k == jStr && h.obj[i].val.s != "" {
						h.obj[i].val = jstr("verif-no-such-helper")
					}
				}
			} else if r.Intn(4) == 0 && len(ops) > 0 {
				h := &jv{k: jObj}
				h.set(ops[r.Intn(len(ops))].Addr, jstr(common.Pick(r, []string{"verif-no-such-helper", ""})))
				d.set("credHelpers", h)
			}
			if cs := d.get("credsStore"); cs != nil && cs.k == jStr && cs.s != "" {
				d.set("credsStore", jstr("verif-no-such-store"))
			}
			t := d.text(r)
			dc.Init = &t
		}
	}
	return dc
}

func runDynamic(dc dynCase) {
	if wedged >= 3 {
		return
	}
	id := run.NewID()
	base, err := os.MkdirTemp("", "c18d")
	if err != nil {
		panic(err)
	}
	defer os.RemoveAll(base)
	path := filepath.Join(base, "config.json")
	initHex := "ABSENT"
	if dc.Init != nil {
		os.WriteFile(path, []byte(*dc.Init), 0o600)
		initHex = common.Hex(*dc.Init)
		if *dc.Init == "" {
			initHex = "EMPTY"
		}
	}
	allow := "0"
	if dc.Allow {
		allow = "1"
	}
	ds, err := credentials.NewStore(path, credentials.StoreOptions{AllowPlaintextPut: dc.Allow})
	if err != nil {
		if dc.Init != nil && *dc.Init != "" {
			run.Case(id, fmt.Sprintf("DB %s %s 0", allow, initHex), "LOADERR")
		}
		run.Count("dynamic:loaderror")
		return
	}
	ctx := context.Background()
	fail := func(sig, msg string) { run.OracleFail(id, sig, msg, dc) }
	var results, sums, modelOps []string
	for _, o := range dc.Ops {
		before, _ := os.ReadFile(path)
		var res string
		var opErr error
		var got auth.Credential
		pan := guard(func() {
			switch o.Op {
			case "G":
				got, opErr = ds.Get(ctx, o.Addr)
			case "P":
				opErr = ds.Put(ctx, o.Addr, o.cred())
			case "D":
				opErr = ds.Delete(ctx, o.Addr)
			}
		})
		if pan != nil {
			fail(sigOf(pan), fmt.Sprintf("DynamicStore %s(%q) panicked or hung: %v", o.Op, o.Addr, pan))
			return
		}
		native := opErr != nil && !errors.Is(opErr, credentials.ErrBadCredentialFormat) &&
			!errors.Is(opErr, credentials.ErrPlaintextPutDisabled) && !isFormatErr(opErr)
		switch {
		case native:
			res = "native"
			run.Count("dynamic:native-routed")
			if after, _ := os.ReadFile(path); string(after) != string(before) {
				fail("native-touched-file", fmt.Sprintf("%s(%q) was routed to a native helper and changed the config file", o.Op, o.Addr))
			}
		case o.Op == "G" && opErr == nil:
			res = credStr(got)
		default:
			res = resultStr(nil, opErr)
		}
		switch o.Op {
		case "G":
			modelOps = append(modelOps, fmt.Sprintf("G %s %s", common.Hex(o.Addr), res))
		case "P":
			modelOps = append(modelOps, fmt.Sprintf("P %s %s %s %s %s", common.Hex(o.Addr), common.Hex(o.U), common.Hex(o.P), common.Hex(o.R), common.Hex(o.A)))
			if opErr == nil {
				run.Count("dynamic:put-to-file")
				if c, e := ds.Get(ctx, o.Addr); e != nil || c != o.cred() {
					fail("roundtrip", fmt.Sprintf("DynamicStore: Get(%q) after Put = %v %v", o.Addr, c, e))
				}
			}
		case "D":
			modelOps = append(modelOps, "D "+common.Hex(o.Addr))
		}
		results = append(results, res)
		if raw, err := os.ReadFile(path); err != nil {
			sums = append(sums, "absent")
		} else if dc.Init != nil && string(raw) == *dc.Init {
			sums = append(sums, "orig")
		} else {
			sums = append(sums, md5hex(string(raw)))
		}
	}
	line := strings.Join(strings.Fields(fmt.Sprintf("DB %s %s %d %s", allow, initHex, len(modelOps), strings.Join(modelOps, " "))), " ")
	run.Case(id, line, fmt.Sprintf("RES %s BYTES %s", strings.Join(results, " "), strings.Join(sums, " ")))
	run.Count("dynamic:histories")
}
