package main

import (
	"encoding/base64"

	"verifharness/common"
)

func stdB64(s string) string { return base64.StdEncoding.EncodeToString([]byte(s)) }

func runExtra(r *common.Rand)            {}
func replayExtra(c map[string]string) {}
