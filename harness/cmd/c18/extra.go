package main

import (
	"encoding/base64"
	"encoding/json"
	"fmt"
	"os"

	"verifharness/common"
	"verifharness/crashkit"
)

func stdB64(s string) string { return base64.StdEncoding.EncodeToString([]byte(s)) }

func runExtra(r *common.Rand) {
	runCodec(r)
	nc := run.Scale(300, 20000)
	for i := 0; i < nc; i += 100 {
		var batch []concCase
		for j := i; j < nc && j < i+100; j++ {
			batch = append(batch, genConc(r))
		}
		runConcBatch(batch)
	}
	// the same callers through the DynamicStore of store.go, with IsAuthConfigured calls mixed in
	nd := run.Scale(100, 2000)
	for i := 0; i < nd; i += 100 {
		var batch []concCase
		for j := i; j < nd && j < i+100; j++ {
			cc := genConc(r)
			cc.Dynamic = true
			for t := range cc.Threads {
				at := r.Intn(len(cc.Threads[t]) + 1)
				ops := append([]opx{}, cc.Threads[t][:at]...)
				ops = append(ops, opx{Op: "I"})
				cc.Threads[t] = append(ops, cc.Threads[t][at:]...)
			}
			batch = append(batch, cc)
		}
		runConcBatch(batch)
	}
	if crashkit.Available() {
		for _, cc := range fixedDelayed() {
			runConc(cc)
		}
		for i := run.Scale(5, 60); i > 0; i-- {
			runConc(genDelayed(r))
		}
	}
	if !crashkit.Available() {
		run.Extra["crash_injection"] = "strace injection unavailable: K cases skipped"
		run.Count("crash:strace-unavailable")
	} else {
		ioErrBudget = run.Scale(4, 40)
		for _, cc := range fixedCrashes() {
			runCrash(cc)
		}
		n := run.Scale(5, 120)
		for i := 0; i < n; i++ {
			runCrash(genCrash(r))
		}
	}
}

func fixedCrashes() []crashCase {
	doc := `{"auths":{"https://registry.example.com/":{"auth":"dXNlcjpwYXNz","email":"x@y"}},"HttpHeaders":{"User-Agent":"x"},"big":123456789012345678901234567890}`
	return []crashCase{
		{Kind: "K", K: -1, Init: &doc, Mode: 0o644, Op: opx{Op: "P", Addr: "registry.example.com", U: "u", P: "p:q", R: "rt"}},
		{Kind: "K", K: -1, SubDir: true, Depth: 3, Op: opx{Op: "P", Addr: "localhost:5000", U: "user", P: "secret"}},
		{Kind: "K", K: -1, Init: &doc, Mode: 0o664, Symlink: true, Op: opx{Op: "P", Addr: "registry.example.com", U: "u", P: "p"}},
		{Kind: "K", K: -1, Init: &doc, Mode: 0o600, Op: opx{Op: "D", Addr: "https://registry.example.com/"}},
	}
}

func replayExtra(c map[string]string) {
	if replayCodec(c) {
		return
	}
	switch c["kind"] {
	case "DB":
		dc := dynCase{Kind: "DB", Allow: c["allow"] == "true"}
		if v, ok := c["init"]; ok && v != "null" {
			s := v
			dc.Init = &s
		}
		if err := json.Unmarshal([]byte(c["ops"]), &dc.Ops); err != nil {
			fmt.Fprintln(os.Stderr, "bad replay ops:", err)
			os.Exit(2)
		}
		runDynamic(dc)
	case "S":
		cc := concCase{Kind: "S"}
		if v, ok := c["init"]; ok && v != "null" {
			s := v
			cc.Init = &s
		}
		if err := json.Unmarshal([]byte(c["threads"]), &cc.Threads); err != nil {
			fmt.Fprintln(os.Stderr, "bad replay threads:", err)
			os.Exit(2)
		}
		cc.Dynamic = c["dynamic"] == "true"
		if d, ok := c["delay"]; ok && d != "null" && d != "" {
			cc.Delay = &delaySpec{}
			if err := json.Unmarshal([]byte(d), cc.Delay); err != nil {
				fmt.Fprintln(os.Stderr, "bad replay delay:", err)
				os.Exit(2)
			}
			if crashkit.Available() {
				runConc(cc)
			}
			return
		}
		for i := 0; i < 4; i++ { // schedules are not controlled: repeat
			batch := make([]concCase, 50)
			for j := range batch {
				batch[j] = cc
			}
			runConcBatch(batch)
		}
	case "K", "KE":
		cc := crashCase{Kind: c["kind"], K: -1}
		if v, ok := c["init"]; ok && v != "null" {
			s := v
			cc.Init = &s
		}
		fmt.Sscanf(c["mode"], "%d", &cc.Mode)
		cc.SubDir = c["subdir"] == "true"
		fmt.Sscanf(c["depth"], "%d", &cc.Depth)
		cc.Symlink = c["symlink"] == "true"
		if err := json.Unmarshal([]byte(c["cop"]), &cc.Op); err != nil {
			fmt.Fprintln(os.Stderr, "bad replay op:", err)
			os.Exit(2)
		}
		fmt.Sscanf(c["k"], "%d", &cc.K)
		if crashkit.Available() {
			runCrash(cc)
		}
	}
}
