package main

// Sequential histories on one FileStore: implementation observations for the
// model correspondence and the independent oracle (the property's own clauses
// evaluated with the generator's ground truth and Go's own base64).

import (
	"context"
	"time"
	"encoding/json"
	"unicode/utf8"
	"crypto/md5"
	"encoding/base64"
	"encoding/hex"
	"errors"
	"fmt"
	"os"
	"path/filepath"
	"strings"

	"oras.land/oras-go/v2/registry/remote/auth"
	"oras.land/oras-go/v2/registry/remote/credentials"
	"verifharness/common"
)

type opx struct {
	Op   string `json:"op"` // G P D
	Addr string `json:"addr"`
	U    string `json:"u,omitempty"`
	P    string `json:"p,omitempty"`
	R    string `json:"r,omitempty"`
	A    string `json:"a,omitempty"`
}

// opx travels through JSON replay files; strings that are not valid UTF-8 would be
// mangled by encoding/json, so such an operation is written with hex fields.
type opxWire struct {
	Op   string `json:"op"`
	Hex  bool   `json:"hex,omitempty"`
	Addr string `json:"addr"`
	U    string `json:"u,omitempty"`
	P    string `json:"p,omitempty"`
	R    string `json:"r,omitempty"`
	A    string `json:"a,omitempty"`
}

func (o opx) MarshalJSON() ([]byte, error) {
	w := opxWire{Op: o.Op, Addr: o.Addr, U: o.U, P: o.P, R: o.R, A: o.A}
	if !utf8.ValidString(o.Addr + o.U + o.P + o.R + o.A) || !utf8.ValidString(o.Addr) || !utf8.ValidString(o.U) ||
		!utf8.ValidString(o.P) || !utf8.ValidString(o.R) || !utf8.ValidString(o.A) {
		h := func(s string) string { return hex.EncodeToString([]byte(s)) }
		w = opxWire{Op: o.Op, Hex: true, Addr: h(o.Addr), U: h(o.U), P: h(o.P), R: h(o.R), A: h(o.A)}
	}
	return json.Marshal(w)
}

func (o *opx) UnmarshalJSON(data []byte) error {
	var w opxWire
	if err := json.Unmarshal(data, &w); err != nil {
		return err
	}
	if w.Hex {
		d := func(s string) string { b, _ := hex.DecodeString(s); return string(b) }
		w.Addr, w.U, w.P, w.R, w.A = d(w.Addr), d(w.U), d(w.P), d(w.R), d(w.A)
	}
	*o = opx{Op: w.Op, Addr: w.Addr, U: w.U, P: w.P, R: w.R, A: w.A}
	return nil
}

type histCase struct {
	Kind   string  `json:"kind"` // "H"
	Init   *string `json:"init"` // text of the pre-existing file; null = no file
	Mode   uint32  `json:"mode"` // mode of the pre-existing file
	SubDir bool    `json:"subdir"`
	// Depth: number of directory levels between the base and the config file when SubDir
	// (0 = 1); they are missing when Init == nil, so MkdirAll has to create all of them.
	Depth int `json:"depth,omitempty"`
	// Symlink: the config path is a symbolic link to the real file (only with Init != nil).
	Symlink bool `json:"symlink,omitempty"`
	// DisablePut: FileStore.DisablePut = true.
	DisablePut bool `json:"disable_put,omitempty"`
	Ops    []opx   `json:"ops"`
}

func (o opx) cred() auth.Credential {
	return auth.Credential{Username: o.U, Password: o.P, RefreshToken: o.R, AccessToken: o.A}
}

func credStr(c auth.Credential) string {
	return fmt.Sprintf("c:%s:%s:%s:%s", common.Hex(c.Username), common.Hex(c.Password), common.Hex(c.RefreshToken), common.Hex(c.AccessToken))
}

func resultStr(c *auth.Credential, err error) string {
	switch {
	case err == nil && c != nil:
		return credStr(*c)
	case err == nil:
		return "ok"
	case errors.Is(err, credentials.ErrBadCredentialFormat):
		return "badcred"
	case errors.Is(err, credentials.ErrPlaintextPutDisabled):
		return "putdisabled"
	case isFormatErr(err):
		return "efmt"
	}
	return "other:" + strings.ReplaceAll(err.Error(), " ", "_")
}

// config.ErrInvalidConfigFormat lives in an internal package and is not
// re-exported, so it is recognised by its text.
func isFormatErr(err error) bool {
	for e := err; e != nil; e = errors.Unwrap(e) {
		if e.Error() == "invalid config format" {
			return true
		}
	}
	return err != nil && strings.Contains(err.Error(), "invalid config format")
}

// guarded calls: a panic inside the library is an observation, not a harness crash,
// and neither is a wedge (a lock that is never released, a blocked channel): every
// library call runs under a watchdog and a call that does not return within
// opTimeout becomes an oracle failure "hang" with the history as replay.
const opTimeout = 10 * time.Second

// wedged counts calls that did not return; after a few of them the run stops generating
// (each further case would wait for the watchdog again) and reports what it has.
var wedged int

type hung struct{}

func (hung) String() string { return "the call did not return within 10s (wedged: lock never released?)" }

// guard runs f; pan is the recovered panic value, or hung{} when f did not return.
func guard(f func()) (pan any) {
	done := make(chan any, 1)
	go func() {
		defer func() { done <- recover() }()
		f()
	}()
	select {
	case p := <-done:
		return p
	case <-time.After(opTimeout):
		wedged++
		return hung{}
	}
}

// sigOf names the oracle signature of a guarded call that did not end normally.
func sigOf(pan any) string {
	if _, ok := pan.(hung); ok {
		return "hang"
	}
	return "panic"
}

func safeGet(fs *credentials.FileStore, a string) (c auth.Credential, err error, pan any) {
	pan = guard(func() { c, err = fs.Get(context.Background(), a) })
	if pan != nil {
		c, err = auth.EmptyCredential, nil
	}
	return
}
func safePut(fs *credentials.FileStore, a string, c auth.Credential) (err error, pan any) {
	pan = guard(func() { err = fs.Put(context.Background(), a, c) })
	return
}
func safeDelete(fs *credentials.FileStore, a string) (err error, pan any) {
	pan = guard(func() { err = fs.Delete(context.Background(), a) })
	return
}

func md5hex(s string) string {
	h := md5.Sum([]byte(s))
	return hex.EncodeToString(h[:])
}

// readDoc parses the file at path (nil = absent); bad=true when it is not a
// single JSON document.
func readDoc(path string) (d *jv, mode os.FileMode, bad bool) {
	data, err := os.ReadFile(path)
	if err != nil {
		return nil, 0, !os.IsNotExist(err)
	}
	st, _ := os.Stat(path)
	v, ok := parseJSON(data)
	if !ok {
		return nil, st.Mode().Perm(), true
	}
	return v, st.Mode().Perm(), false
}

func tempsIn(dir string) []string {
	ents, _ := os.ReadDir(dir)
	var out []string
	for _, e := range ents {
		if strings.HasPrefix(e.Name(), "oras_credstore_temp_") {
			out = append(out, e.Name())
		}
	}
	return out
}

// expectedEntry is the entry the property's round trip needs on disk, built
// with Go's own base64 (independent of the model).
func expectedEntry(o opx) *jv {
	e := &jv{k: jObj}
	if o.U != "" || o.P != "" {
		e.set("auth", jstr(base64.StdEncoding.EncodeToString([]byte(o.U+":"+o.P))))
	}
	if o.R != "" {
		e.set("identitytoken", jstr(o.R))
	}
	if o.A != "" {
		e.set("registrytoken", jstr(o.A))
	}
	return e
}

func toHostnameOracle(addr string) string {
	addr = strings.TrimPrefix(addr, "http://")
	addr = strings.TrimPrefix(addr, "https://")
	if i := strings.IndexByte(addr, '/'); i >= 0 {
		addr = addr[:i]
	}
	return addr
}

// runHistory executes one history against the real FileStore.
// runHistory runs one history; a call that did not return within the watchdog limit is
// re-confirmed on a fresh run of the same history before it is reported (a loaded host).
func runHistory(hc histCase) {
	if wedged >= 3 {
		return
	}
	confirmHang = false
	before := wedged
	runHistory1(hc)
	if wedged > before && !confirmHang {
		// first sighting: not reported yet (see failHang); run again, now reporting
		wedged = before
		confirmHang = true
		runHistory1(hc)
		confirmHang = false
	}
}

// confirmHang: the current run is the confirmation run of a history that wedged once
var confirmHang bool

func runHistory1(hc histCase) {
	id := run.NewID()
	base, err := os.MkdirTemp("", "c18h")
	if err != nil {
		panic(err)
	}
	defer os.RemoveAll(base)
	dir, levels := subDirs(base, hc.SubDir, hc.Depth)
	path := filepath.Join(dir, "config.json")
	target := "" // the real file when the config path is a symbolic link
	var initDoc *jv
	if hc.Init != nil {
		if hc.SubDir {
			os.MkdirAll(dir, 0o755)
		}
		mode := os.FileMode(hc.Mode)
		if mode == 0 {
			mode = 0o644
		}
		real := path
		if hc.Symlink {
			os.Mkdir(filepath.Join(base, "real"), 0o755)
			target = filepath.Join(base, "real", "target.json")
			real = target
		}
		if err := os.WriteFile(real, []byte(*hc.Init), mode); err != nil {
			panic(err)
		}
		os.Chmod(real, mode)
		if hc.Symlink {
			if err := os.Symlink(target, path); err != nil {
				panic(err)
			}
			run.Count("init:symlinked-path")
		}
		var ok bool
		initDoc, ok = parseJSON([]byte(*hc.Init))
		if !ok {
			run.Count("init:unparseable")
			// not ONE well-formed JSON document for the harness's strict reader (duplicate keys, trailing
			// garbage, BOM, empty file ...): there is no ground truth for preservation.  Checked: opening
			// does not change the file; when encoding/json does load it, a stored credential reads back,
			// also after reopening, and the file is one JSON document afterwards.
			fs, err := credentials.NewFileStore(path)
			after, _ := os.ReadFile(path)
			if string(after) != *hc.Init {
				run.OracleFail(id, "load-damaged", "opening an unparseable config changed it", hc)
			}
			run.Evaluations++
			if err != nil {
				run.Count("init:unparseable-refused")
				if *hc.Init != "" {
					run.Case(run.NewID(), "HB "+common.Hex(*hc.Init)+" 0 MODE 600", "LOADERR")
					run.Evaluations--
				}
				return
			}
			run.Count("init:unparseable-but-loaded")
			want := auth.Credential{Username: "u", Password: "p:q", RefreshToken: "r"}
			if perr, pan := safePut(fs, "lenient.example", want); pan != nil || perr != nil {
				run.OracleFail(id, "put-error", fmt.Sprintf("Put on a leniently loaded config: %v %v", perr, pan), hc)
				return
			}
			if c, gerr, _ := safeGet(fs, "lenient.example"); gerr != nil || c != want {
				run.OracleFail(id, "roundtrip", fmt.Sprintf("leniently loaded config: Get = %v %v", c, gerr), hc)
			}
			if _, _, bad := readDoc(path); bad {
				run.OracleFail(id, "file-unparseable", "after a save the leniently loaded config is still not one JSON document", hc)
			}
			// the model reads these bytes the way encoding/json does (last duplicate wins, what follows
			// the first value is ignored): results and the exact bytes written
			if raw, err := os.ReadFile(path); err == nil && *hc.Init != "" {
				sum := md5hex(string(raw))
				run.Case(run.NewID(), fmt.Sprintf("HB %s 2 P %s %s %s %s - G %s %s MODE %o", common.Hex(*hc.Init), common.Hex("lenient.example"),
					common.Hex(want.Username), common.Hex(want.Password), common.Hex(want.RefreshToken), common.Hex("lenient.example"), credStr(want), hc.Mode),
					fmt.Sprintf("RES ok %s MODE 600 BYTES %s %s REOPEN same", credStr(want), sum, sum))
				run.Count("file-bytes:lenient-read-by-model")
				run.Evaluations--
			}
			if fs2, err := credentials.NewFileStore(path); err != nil {
				run.OracleFail(id, "reload", "the saved file does not load: "+err.Error(), hc)
			} else if c, gerr := fs2.Get(context.Background(), "lenient.example"); gerr != nil || c != want {
				run.OracleFail(id, "reload-roundtrip", fmt.Sprintf("reopened: Get = %v %v", c, gerr), hc)
			}
			return
		}
	}
	initTok, judged := docTokens(initDoc)
	if initDoc != nil && initDoc.k == jNull {
		// the JSON document "null": an empty configuration
		initTok, judged = "DOC 0", true
		run.Count("init:null-document")
	} else if initDoc != nil && initDoc.k != jObj {
		run.Count("init:not-an-object")
	}
	fail := func(sig, msg string) {
		if sig == "hang" && !confirmHang {
			return // reported only when it happens again on a fresh run
		}
		run.OracleFail(id, sig, msg, hc)
	}

	fs, err := credentials.NewFileStore(path)
	if err == nil && hc.DisablePut {
		fs.DisablePut = true
		run.Count("store:disable-put")
	}
	if err != nil {
		run.Count("init:loaderror")
		if !isFormatErr(err) {
			fail("load-error-kind", "NewFileStore: "+err.Error())
		}
		after, _ := os.ReadFile(path)
		if hc.Init == nil || string(after) != *hc.Init {
			fail("load-damaged", "a failed load changed the config file")
		}
		if judged {
			run.Case(id, "H "+initTok+" 0", "LOADERR")
		}
		if hc.Init != nil && *hc.Init != "" {
			run.Case(run.NewID(), "HB "+common.Hex(*hc.Init)+" 0 MODE 600", "LOADERR")
			run.Evaluations--
		}
		return
	}

	// ---- ground truth of the oracle ----
	wantCS := ""                      // the original credsStore string
	wantTop := map[string]string{}    // other top-level keys -> canonical value
	wantEntry := map[string]string{}  // address -> canonical JSON of the entry that must be on disk
	touched := map[string]bool{}      // addresses Put or Deleted so far
	lastPut := map[string]*opx{}      // address -> last successful Put since the last Delete
	legacyKeys := map[string]bool{}   // every key that ever was in auths
	saved := false
	if initDoc != nil && initDoc.k == jObj {
		for _, kv := range initDoc.obj {
			switch {
			case kv.key == "auths":
				if kv.val.k == jObj {
					for _, e := range kv.val.obj {
						wantEntry[e.key] = e.val.canon()
						legacyKeys[e.key] = true
					}
				}
			case kv.key == "credsStore" && (kv.val.k != jStr || kv.val.s == ""):
				// an empty / null credsStore is "omitempty" for docker and this library: not asserted
			default:
				if kv.key == "credsStore" {
					wantCS = kv.val.s
				}
				wantTop[kv.key] = kv.val.canon()
			}
		}
	}

	ctx := context.Background()
	// reference: the in-memory Store of the same package, when the history starts from a missing
	// config and uses plain host addresses only (C18_refines_memory_store)
	var mem credentials.Store
	if hc.Init == nil && !hc.DisablePut {
		mem = credentials.NewMemoryStore()
		for _, o := range hc.Ops {
			if toHostnameOracle(o.Addr) != o.Addr {
				mem = nil
				break
			}
		}
		if mem != nil {
			run.Count("ref:memory-store")
		}
	}
	var results, digests, byteSums []string
	var modelOps []string
	finalCanon := canonDoc(initDoc)
	nontrivial := false
	for _, o := range hc.Ops {
		var res string
		switch o.Op {
		case "G":
			c, err, pan := safeGet(fs, o.Addr)
			if pan != nil {
				fail(sigOf(pan), fmt.Sprintf("Get(%q) panicked or hung: %v", o.Addr, pan))
				run.Evaluations++
				return
			} else if err != nil {
				res = resultStr(nil, err)
			} else {
				res = credStr(c)
			}
			modelOps = append(modelOps, fmt.Sprintf("G %s %s", common.Hex(o.Addr), res))
			if mem != nil {
				if mc, merr := mem.Get(ctx, o.Addr); merr != nil || err != nil || mc != c {
					fail("differs-from-memory-store", fmt.Sprintf("Get(%q): file store %v %v, memory store %v %v", o.Addr, c, err, mc, merr))
				}
			}
			// oracle: read back what was stored / nothing after a delete
			if p := lastPut[o.Addr]; p != nil {
				if err != nil || c != p.cred() {
					fail("roundtrip", fmt.Sprintf("Get(%q) after Put returned %v %v, stored %v", o.Addr, c, err, p.cred()))
				}
				nontrivial = true
			} else if touched[o.Addr] {
				// deleted: only a legacy key naming the same host may still answer
				legacy := false
				for k := range legacyKeys {
					if k != o.Addr && toHostnameOracle(k) == o.Addr {
						legacy = true
					}
				}
				if !legacy && (err != nil || c != auth.EmptyCredential) {
					fail("get-after-delete", fmt.Sprintf("Get(%q) after Delete returned %v %v", o.Addr, c, err))
				}
			}
		case "P":
			beforePut, _ := os.ReadFile(path)
			err, pan := safePut(fs, o.Addr, o.cred())
			res = resultStr(nil, err)
			if pan != nil {
				fail(sigOf(pan), fmt.Sprintf("Put(%q) panicked or hung: %v", o.Addr, pan))
				run.Evaluations++
				return
			}
			modelOps = append(modelOps, fmt.Sprintf("P %s %s %s %s %s", common.Hex(o.Addr), common.Hex(o.U), common.Hex(o.P), common.Hex(o.R), common.Hex(o.A)))
			if hc.DisablePut {
				if !errors.Is(err, credentials.ErrPlaintextPutDisabled) {
					fail("disable-put-ignored", fmt.Sprintf("Put(%q) with DisablePut returned %v", o.Addr, err))
				}
				if after, _ := os.ReadFile(path); string(after) != string(beforePut) {
					fail("disable-put-wrote", fmt.Sprintf("Put(%q) with DisablePut changed the config file", o.Addr))
				}
			} else if strings.Contains(o.U, ":") {
				if !errors.Is(err, credentials.ErrBadCredentialFormat) {
					fail("colon-accepted", fmt.Sprintf("Put with user %q returned %v", o.U, err))
				}
				run.Count("put:refused")
			} else if lossy := !utf8.ValidString(o.Addr) || !utf8.ValidString(o.R) || !utf8.ValidString(o.A); lossy && errors.Is(err, credentials.ErrBadCredentialFormat) {
				// an address or token that JSON cannot hold: refusing it (and changing nothing) is fine;
				// accepting it obliges the store to give it back, also after a reload (below)
				run.Count("put:invalid-utf8")
				run.Count("put:refused")
				if after, _ := os.ReadFile(path); string(after) != string(beforePut) {
					fail("refused-put-wrote", fmt.Sprintf("the refused Put(%q) changed the config file", o.Addr))
				}
			} else {
				if lossy {
					run.Count("put:invalid-utf8")
				}
				if !utf8.ValidString(o.U) || !utf8.ValidString(o.P) {
					run.Count("put:invalid-utf8-userpass")
				}
				if err != nil {
					fail("put-error", fmt.Sprintf("Put(%q) failed: %v", o.Addr, err))
				} else {
					if mem != nil {
						mem.Put(ctx, o.Addr, o.cred())
					}
					oo := o
					lastPut[o.Addr] = &oo
					touched[o.Addr] = true
					legacyKeys[o.Addr] = true
					wantEntry[o.Addr] = expectedEntry(o).canon()
					saved = true
				}
			}
		case "C": // Config.SetCredentialsStore(o.Addr)
			var err error
			var pan any
			pan = guard(func() { err = credentials.VerifSetCredentialsStore(fs, o.Addr) })
			if pan != nil {
				fail(sigOf(pan), fmt.Sprintf("SetCredentialsStore(%q) panicked or hung: %v", o.Addr, pan))
				run.Evaluations++
				return
			}
			res = resultStr(nil, err)
			modelOps = append(modelOps, "C "+common.Hex(o.Addr))
			if err != nil {
				fail("setcs-error", fmt.Sprintf("SetCredentialsStore(%q) failed: %v", o.Addr, err))
			} else {
				saved = true
				nontrivial = true
				wantCS = o.Addr
				if o.Addr != "" {
					wantTop["credsStore"] = jstr(o.Addr).canon()
				} else {
					delete(wantTop, "credsStore")
				}
			}
		case "D":
			_, had := wantEntry[o.Addr]
			err, pan := safeDelete(fs, o.Addr)
			res = resultStr(nil, err)
			if pan != nil {
				fail(sigOf(pan), fmt.Sprintf("Delete(%q) panicked or hung: %v", o.Addr, pan))
				run.Evaluations++
				return
			}
			modelOps = append(modelOps, "D "+common.Hex(o.Addr))
			if err != nil {
				fail("delete-error", fmt.Sprintf("Delete(%q) failed: %v", o.Addr, err))
			} else {
				if mem != nil {
					mem.Delete(ctx, o.Addr)
				}
				delete(wantEntry, o.Addr)
				delete(lastPut, o.Addr)
				touched[o.Addr] = true
				if had {
					saved = true
					nontrivial = true
				}
			}
		}
		run.Count("op:" + o.Op)
		results = append(results, res)

		// ---- the file after this step ----
		doc, mode, bad := readDoc(path)
		if bad {
			fail("file-unparseable", "config file is not a JSON document after "+o.Op)
			digests = append(digests, "BAD")
			continue
		}
		finalCanon = canonDoc(doc)
		digests = append(digests, md5hex(finalCanon))
		// the exact bytes of the file (model: Model/JsonDoc.v render_file)
		if raw, err := os.ReadFile(path); err != nil {
			byteSums = append(byteSums, "absent")
		} else if hc.Init != nil && string(raw) == *hc.Init {
			byteSums = append(byteSums, "orig")
		} else {
			byteSums = append(byteSums, md5hex(string(raw)))
		}
		// the exact bytes Put wrote for its entry (json.Marshal(AuthConfig), re-indented by
		// MarshalIndent): compared with the model's entry_bytes
		if o.Op == "P" && lastPut[o.Addr] != nil && *lastPut[o.Addr] == o && doc != nil && doc.k == jObj {
			if a := doc.get("auths"); a != nil && a.k == jObj {
				if e := a.get(o.Addr); e != nil && e.k == jObj {
					bid := run.NewID()
					run.Case(bid, fmt.Sprintf("FB %s %s %s %s", common.Hex(o.U), common.Hex(o.P), common.Hex(o.R), common.Hex(o.A)),
						"BYTES "+common.Hex(stripSpace(e.src)))
					run.Count("put:entry-bytes-compared")
					run.Evaluations--
				}
			}
		}
		if doc == nil {
			if saved {
				fail("file-missing", "config file missing after a save")
			}
			continue
		}
		if doc.k == jNull && !saved {
			continue // the untouched document "null"
		}
		if doc.k != jObj {
			fail("file-unparseable", "config file is not a JSON object")
			continue
		}
		lossyImage := map[string]bool{} // names that are the U+FFFD image of a key with a lone surrogate
		for k, want := range wantTop {
			got := doc.get(k)
			switch {
			case got == nil && hasLoneSurrogate(k) && doc.get(goString(k)) != nil && doc.get(goString(k)).canon() == want:
				// KNOWN FINDING, matched by mechanism: the key differs from the original exactly by
				// lone surrogate -> U+FFFD and its value is intact
				lossyImage[goString(k)] = true
				fail("lone-surrogate-rewritten", fmt.Sprintf("top-level key %q was renamed to %q by the save (encoding/json reads a lone surrogate escape as U+FFFD)", k, goString(k)))
			case got == nil:
				fail("top-key-lost", fmt.Sprintf("top-level key %q disappeared after %s %q", k, o.Op, o.Addr))
			case got.canon() != want && k == "credsStore" && got.k == jStr && hasLoneSurrogate(wantCS) && got.s == goString(wantCS):
				fail("lone-surrogate-rewritten", fmt.Sprintf("credsStore %q was rewritten as %q by the save", wantCS, got.s))
			case got.canon() != want:
				fail("top-key-changed", fmt.Sprintf("top-level key %q changed after %s %q: %s -> %s", k, o.Op, o.Addr, want, got.canon()))
			}
		}
		if saved {
			for _, kv := range doc.obj {
				if _, ok := wantTop[kv.key]; !ok && kv.key != "auths" && kv.key != "credsStore" && !lossyImage[kv.key] {
					fail("top-key-invented", fmt.Sprintf("top-level key %q appeared", kv.key))
				}
			}
			auths := doc.get("auths")
			if auths == nil || auths.k != jObj {
				fail("auths-missing", "no auths object after a save")
			} else {
				for a, want := range wantEntry {
					got := auths.get(a)
					sig := "other-entry"
					if touched[a] {
						sig = "put-entry"
					}
					if got == nil && !touched[a] && hasLoneSurrogate(a) && auths.get(goString(a)) != nil && auths.get(goString(a)).canon() == want {
						lossyImage[goString(a)] = true
						fail("lone-surrogate-rewritten", fmt.Sprintf("auths key %q was renamed to %q by the save", a, goString(a)))
					} else if got == nil {
						fail(sig+"-lost", fmt.Sprintf("auths entry %q disappeared after %s %q", a, o.Op, o.Addr))
					} else if got.canon() != want && !touched[a] {
						// (the on-disk form of an entry written by Put is not prescribed by the property: it is
						// checked by the model correspondence and by the reload round trip below)
						fail(sig+"-changed", fmt.Sprintf("auths entry %q after %s %q: want %s got %s", a, o.Op, o.Addr, want, got.canon()))
					}
				}
				for _, e := range auths.obj {
					if _, ok := wantEntry[e.key]; !ok && !lossyImage[e.key] {
						fail("delete-not-removed", fmt.Sprintf("auths entry %q present although deleted / never stored", e.key))
					}
				}
			}
			if mode != 0o600 {
				fail("mode", fmt.Sprintf("config file mode %o after a save", mode))
			}
		}
		if t := tempsIn(dir); len(t) > 0 {
			fail("temp-left", "ingest file left behind: "+strings.Join(t, ","))
		}
	}
	if saved && hc.SubDir && hc.Init == nil {
		for _, l := range levels {
			if st, err := os.Stat(l); err != nil || st.Mode().Perm() != 0o700 {
				fail("dir-mode", fmt.Sprintf("config directory level %s created by the save: %v, want mode 700", strings.TrimPrefix(l, base), st))
			}
		}
		run.Count(fmt.Sprintf("init:missing-dir-levels=%d", len(levels)))
	}
	if target != "" {
		// a symlinked config path.  The code replaces the NAME (the link disappears, the target keeps
		// the old document); keeping the link and replacing the target atomically would be just as
		// good for the property, so the oracle accepts both: the target holds the complete old
		// document or exactly what the path now reads -- never anything else.
		tgt, terr := os.ReadFile(target)
		cur, _ := os.ReadFile(path)
		if terr != nil || (string(tgt) != *hc.Init && string(tgt) != string(cur)) {
			fail("symlink-target-damaged", "the file the config symlink pointed to is neither the old document nor the current one")
		}
		if li, err := os.Lstat(path); err == nil && !saved && li.Mode()&os.ModeSymlink == 0 {
			fail("symlink-replaced-without-save", "the config symlink was replaced although nothing was saved")
		}
	}
	// reopening the file gives the same answers (the secrets really are in the file)
	if saved {
		fs2, err := credentials.NewFileStore(path)
		if err != nil {
			fail("reload", "the saved file does not load: "+err.Error())
		} else {
			for a, p := range lastPut {
				c, err := fs2.Get(ctx, a)
				if err != nil || c != p.cred() {
					fail("reload-roundtrip", fmt.Sprintf("reopened store: Get(%q) = %v %v, stored %v", a, c, err, p.cred()))
				}
			}
		}
	}
	if hc.Init == nil {
		run.Count("init:absent")
	} else {
		run.Count("init:doc")
	}
	if judged {
		initMode, finalMode := "-", "-"
		if hc.Init != nil {
			m := hc.Mode
			if m == 0 {
				m = 0o644
			}
			initMode = fmt.Sprintf("%o", m)
		}
		if st, err := os.Stat(path); err == nil {
			finalMode = fmt.Sprintf("%o", st.Mode().Perm())
		}
		line := fmt.Sprintf("H %s %d %s", initTok, len(modelOps), strings.Join(modelOps, " "))
		line = strings.TrimSpace(line) + " MODE " + initMode
		if hc.DisablePut {
			line += " DP 1"
		}
		// source texts of the values the library does not interpret (what json.RawMessage holds)
		var srcT, srcE []string
		if initDoc != nil && initDoc.k == jObj {
			for _, kv := range initDoc.obj {
				srcT = append(srcT, common.Hex(goString(kv.key))+" "+common.Hex(kv.val.src))
				if kv.key == "auths" && kv.val.k == jObj {
					for _, e := range kv.val.obj {
						srcE = append(srcE, common.Hex(goString(e.key))+" "+common.Hex(e.val.src))
					}
				}
			}
		}
		line += fmt.Sprintf(" SRC %d %s %d %s", len(srcT), strings.Join(srcT, " "), len(srcE), strings.Join(srcE, " "))
		line = strings.Join(strings.Fields(line), " ")
		obs := fmt.Sprintf("RES %s FILES %s FINAL %s MODE %s BYTES %s", strings.Join(results, " "), strings.Join(digests, " "), finalCanon, finalMode, strings.Join(byteSums, " "))
		run.Case(id, line, obs)
		run.Count("file-bytes:histories-compared")
	} else {
		run.Count("unjudged:case-variant-field")
		run.Evaluations++
	}
	// the same history judged by the model that READS THE BYTES of the file itself
	// (Model/JsonRead.v): no harness-side classification of the document
	{
		initMode, finalMode := "-", "-"
		initHex := "ABSENT"
		if hc.Init != nil {
			m := hc.Mode
			if m == 0 {
				m = 0o644
			}
			initMode = fmt.Sprintf("%o", m)
			initHex = common.Hex(*hc.Init)
			if *hc.Init == "" {
				initHex = "EMPTY"
			}
		}
		if st, err := os.Stat(path); err == nil {
			finalMode = fmt.Sprintf("%o", st.Mode().Perm())
		}
		line := fmt.Sprintf("HB %s %d %s MODE %s", initHex, len(modelOps), strings.Join(modelOps, " "), initMode)
		if hc.DisablePut {
			line += " DP 1"
		}
		line = strings.Join(strings.Fields(line), " ")
		reopen := "n/a"
		if saved {
			reopen = "same" // the implementation's own reload was checked by the oracle above (reload, reload-roundtrip)
		}
		run.Case(run.NewID(), line, fmt.Sprintf("RES %s MODE %s BYTES %s REOPEN %s", strings.Join(results, " "), finalMode, strings.Join(byteSums, " "), reopen))
		run.Count("file-bytes:read-by-model")
		run.Evaluations--
	}
	if nontrivial {
		js := fmt.Sprintf("%v|%v", hc.Init != nil, hc.Ops)
		if hc.Init != nil {
			js += *hc.Init
		}
		run.Nontrivial(js)
		run.Sample(hc)
	}
}

// subDirs returns the config directory and the directory levels below base
// (outermost first) for a sub-directory configuration.
func subDirs(base string, sub bool, depth int) (string, []string) {
	if !sub {
		return base, nil
	}
	if depth < 1 {
		depth = 1
	}
	names := []string{"cfgdir", "l2", "l3", "l4"}
	dir := base
	var levels []string
	for i := 0; i < depth && i < len(names); i++ {
		dir = filepath.Join(dir, names[i])
		levels = append(levels, dir)
	}
	return dir, levels
}
