package main

// Pure-function cases: encodeAuth/decodeAuth (base64 + colon rule) and
// ToHostname against the extracted model, with Go's own base64 / strings as the
// independent oracle.

import (
	"encoding/base64"
	"encoding/json"
	"unicode/utf8"
	"fmt"
	"strings"

	"oras.land/oras-go/v2/registry/remote/credentials"
	"verifharness/common"
)

func codecEncode(u, p string) {
	id := run.NewID()
	a := credentials.VerifEncodeAuth(u, p)
	du, dp, err := credentials.VerifDecodeAuth(a)
	obs := fmt.Sprintf("ENC %s DEC ", common.Hex(a))
	if err != nil {
		obs += "ERR"
	} else {
		obs += fmt.Sprintf("%s %s", common.Hex(du), common.Hex(dp))
	}
	run.Case(id, fmt.Sprintf("E %s %s", common.Hex(u), common.Hex(p)), obs)
	run.Count("codec:encode")
	// oracle: the colon rule
	if !strings.Contains(u, ":") && (err != nil || du != u || dp != p) {
		run.OracleFail(id, "codec-roundtrip", fmt.Sprintf("decodeAuth(encodeAuth(%q,%q)) = %q %q %v", u, p, du, dp, err),
			map[string]string{"kind": "E", "u": u, "p": p})
	}
	if (u != "" || p != "") && a != base64.StdEncoding.EncodeToString([]byte(u+":"+p)) {
		run.OracleFail(id, "codec-format", fmt.Sprintf("encodeAuth(%q,%q) = %q is not base64(user:pass)", u, p, a),
			map[string]string{"kind": "E", "u": u, "p": p})
	}
}

func codecDecode(a string) {
	id := run.NewID()
	du, dp, err := credentials.VerifDecodeAuth(a)
	obs := "ERR"
	if err == nil {
		obs = fmt.Sprintf("OK %s %s", common.Hex(du), common.Hex(dp))
		run.Nontrivial("X|" + a)
	}
	run.Case(id, "X "+common.Hex(a), obs)
	run.Count("codec:decode")
	// oracle: whatever decodes is base64 of user:pass per the standard library
	if err == nil && a != "" {
		raw, e2 := base64.StdEncoding.DecodeString(a)
		if e2 != nil || string(raw) != du+":"+dp || strings.Contains(du, ":") {
			run.OracleFail(id, "codec-decode", fmt.Sprintf("decodeAuth(%q) = %q %q but base64 gives %q %v", a, du, dp, raw, e2),
				map[string]string{"kind": "X", "auth": a})
		}
	}
}

func codecHost(addr string) {
	id := run.NewID()
	h := credentials.VerifToHostname(addr)
	run.Case(id, "HOST "+common.Hex(addr), "HOST "+common.Hex(h))
	run.Count("codec:hostname")
	if h != toHostnameOracle(addr) {
		run.OracleFail(id, "hostname", fmt.Sprintf("ToHostname(%q) = %q", addr, h), map[string]string{"kind": "HOST", "addr": addr})
	}
}

// jsonStringCase: encoding/json's string codec against Model/Json.v.  s is used twice:
// as a Go string that is marshalled (JQ) and as the raw text between the quotes of
// a JSON string that is unmarshalled (JU).
func jsonStringCase(s string) {
	id := run.NewID()
	q, err := json.Marshal(s)
	quoted := "ERR"
	if err == nil && len(q) >= 2 {
		quoted = common.Hex(string(q[1 : len(q)-1]))
	}
	var back string
	un := "ERR"
	if e := json.Unmarshal([]byte("\""+s+"\""), &back); e == nil {
		un = "OK:" + common.Hex(back)
	}
	run.Case(id, "J "+common.Hex(s), "JQ "+quoted+" JU "+un)
	run.Count("codec:json-string")
	if un != "ERR" {
		run.Nontrivial("J|" + s)
	}
	// oracle: the round trip law itself, on the real codec
	if utf8.ValidString(s) && err == nil {
		var rt string
		if e := json.Unmarshal(q, &rt); e != nil || rt != s {
			run.OracleFail(id, "json-string-roundtrip", fmt.Sprintf("json round trip of %q gives %q %v", s, rt, e), map[string]string{"kind": "J", "hex": common.Hex(s)})
		}
	}
}

func genJSONString(r *common.Rand) string {
	var b strings.Builder
	for n := r.Intn(10); n > 0; n-- {
		b.WriteString(common.Pick(r, []string{"a", "Z", "0", " ", "\\", "\\\\", "\\u", "\\u00", "\\u0041", "\\ud83d", "\\udd11", "\\ud800", "\\udc00", "\\uD83D\\uDD11",
			"\\n", "\\t", "\\/", "\\b", "\\f", "\\r", "\\\"", "\\x", "\\U", "\"", "\n", "\t", "\x00", "\x1f", "\x7f", "<", ">", "&", "\u2028", "\u2029", "é", "中", "\U0001F511",
			"\xff", "\xc0\x80", "\xed\xa0\x80", "\x80", "\xe2\x80", "\xf4\x90\x80\x80", "\ufffd", "\U0010ffff", "1f", "d8", "\\u202", "\\u2028", "\\u003c", "\\uFFFD", "\\uffff"}))
	}
	return b.String()
}

func mutateB64(r *common.Rand, s string) string {
	bs := []byte(s)
	for n := 1 + r.Intn(2); n > 0; n-- {
		pos := 0
		if len(bs) > 0 {
			pos = r.Intn(len(bs) + 1)
		}
		switch r.Intn(5) {
		case 0, 1: // insert
			c := common.Pick(r, []byte{'\n', '\r', ' ', '=', '-', '_', 'A', '/', '+', 0xc3, '.', '\t'})
			bs = append(bs[:pos:pos], append([]byte{c}, bs[pos:]...)...)
		case 2: // delete
			if pos < len(bs) {
				bs = append(bs[:pos:pos], bs[pos+1:]...)
			}
		case 3: // replace
			if pos < len(bs) {
				bs[pos] = common.Pick(r, []byte{'=', 'Q', 'R', 'z', '9', '\n', '*'})
			}
		default: // truncate
			bs = bs[:pos]
		}
	}
	return string(bs)
}

func runCodec(r *common.Rand) {
	if wedged >= 3 {
		return
	}
	for _, u := range partPool {
		for _, p := range partPool[:12] {
			codecEncode(u, p)
		}
	}
	n := run.Scale(3000, 400000)
	for i := 0; i < n; i++ {
		u, p := genPart(r), genPart(r)
		switch r.Intn(3) {
		case 0:
			codecEncode(u, p)
		default:
			s := u
			if r.Intn(4) != 0 {
				s = u + ":" + p
			}
			a := base64.StdEncoding.EncodeToString([]byte(s))
			if r.Intn(3) != 0 {
				a = mutateB64(r, a)
			}
			codecDecode(a)
		}
	}
	for _, a := range []string{"", "=", "==", "====", "Og==", "Og", "Og=", "Oh==", "OjE=", "OjF=", "\n", "Og==\n", "O\ng=\r=", "Og==Og==", "dTpw", "dTpw\n\n", " dTpw", "dTpw ", "dTp", "dT", "d"} {
		codecDecode(a)
	}
	for _, p := range partPool {
		jsonStringCase(p)
	}
	for i := 0; i < run.Scale(3000, 100000); i++ {
		if r.Intn(4) == 0 {
			jsonStringCase(genPart(r))
		} else {
			jsonStringCase(genJSONString(r))
		}
	}
	for i := 0; i < run.Scale(1500, 50000); i++ {
		a := genAddr(r)
		if r.Intn(3) == 0 {
			a = common.Pick(r, []string{"http://", "https://", "HTTP://", "http:/", "https:///", "ftp://", "", "/", "//"}) + a
		}
		codecHost(a)
	}
}

func replayCodec(c map[string]string) bool {
	switch c["kind"] {
	case "E":
		codecEncode(c["u"], c["p"])
	case "X":
		codecDecode(c["auth"])
	case "HOST":
		codecHost(c["addr"])
	case "J":
		jsonStringCase(common.UnHex(c["hex"]))
	default:
		return false
	}
	return true
}
