package main

// A small JSON tree of the harness's own: generator ground truth, canonical
// (sorted, compact, minimally escaped) text, randomly formatted text, and the
// classification the Coq model takes as input.

import (
	"fmt"
	"sort"
	"strings"
	"unicode/utf8"

	"verifharness/common"
)

const (
	jNull = iota
	jBool
	jNum
	jStr
	jArr
	jObj
)

type jv struct {
	src string // values read by parseJSON: the source text of the value
	k   int
	b   bool
	s   string // string value or number text
	arr []*jv
	obj []jkv // insertion order; keys unique
}

type jkv struct {
	key string
	val *jv
}

func jstr(s string) *jv { return &jv{k: jStr, s: s} }
func jnull() *jv         { return &jv{k: jNull} }

func (v *jv) get(key string) *jv {
	for _, kv := range v.obj {
		if kv.key == key {
			return kv.val
		}
	}
	return nil
}

func (v *jv) set(key string, val *jv) {
	for i, kv := range v.obj {
		if kv.key == key {
			v.obj[i].val = val
			return
		}
	}
	v.obj = append(v.obj, jkv{key, val})
}

func (v *jv) del(key string) {
	for i, kv := range v.obj {
		if kv.key == key {
			v.obj = append(v.obj[:i:i], v.obj[i+1:]...)
			return
		}
	}
}

// writeCanonStr: byte-wise (a string may hold a lone surrogate in generalized form)
func writeCanonStr(b *strings.Builder, s string) {
	b.WriteByte('"')
	for i := 0; i < len(s); i++ {
		c := s[i]
		switch {
		case c == '"' || c == '\\':
			b.WriteByte('\\')
			b.WriteByte(c)
		case c < 0x20:
			fmt.Fprintf(b, "\\u%04x", c)
		default:
			b.WriteByte(c)
		}
	}
	b.WriteByte('"')
}

func (v *jv) canonTo(b *strings.Builder) {
	switch v.k {
	case jNull:
		b.WriteString("null")
	case jBool:
		if v.b {
			b.WriteString("true")
		} else {
			b.WriteString("false")
		}
	case jNum:
		b.WriteString(v.s)
	case jStr:
		writeCanonStr(b, v.s)
	case jArr:
		b.WriteByte('[')
		for i, e := range v.arr {
			if i > 0 {
				b.WriteByte(',')
			}
			e.canonTo(b)
		}
		b.WriteByte(']')
	case jObj:
		kvs := append([]jkv(nil), v.obj...)
		sort.Slice(kvs, func(i, j int) bool { return kvs[i].key < kvs[j].key })
		b.WriteByte('{')
		for i, kv := range kvs {
			if i > 0 {
				b.WriteByte(',')
			}
			writeCanonStr(b, kv.key)
			b.WriteByte(':')
			kv.val.canonTo(b)
		}
		b.WriteByte('}')
	}
}

func (v *jv) canon() string {
	var b strings.Builder
	v.canonTo(&b)
	return b.String()
}

// render writes v with random (legal) white space and random escaping choices.
func (v *jv) render(r *common.Rand, b *strings.Builder, depth int) {
	ws := func() {
		if r == nil {
			return
		}
		switch r.Intn(6) {
		case 0:
			b.WriteByte(' ')
		case 1:
			b.WriteString("\n" + strings.Repeat("  ", depth))
		case 2:
			b.WriteByte('\t')
		}
	}
	str := func(s string) {
		b.WriteByte('"')
		for i := 0; i < len(s); {
			if s[i] == 0xED && i+2 < len(s) && s[i+1] >= 0xA0 && s[i+1] <= 0xBF {
				// a lone surrogate can only be written as an escape
				fmt.Fprintf(b, "\\u%04x", 0xD000|int(s[i+1]&0x3F)<<6|int(s[i+2]&0x3F))
				i += 3
				continue
			}
			c, n := utf8.DecodeRuneInString(s[i:])
			i += n
			switch {
			case c == '"' || c == '\\':
				b.WriteByte('\\')
				b.WriteRune(c)
			case c < 0x20:
				fmt.Fprintf(b, "\\u%04x", c)
			case r != nil && c < 0x7f && r.Intn(12) == 0:
				fmt.Fprintf(b, "\\u%04x", c) // gratuitous escape
			case r != nil && c > 0xFFFF && r.Bool():
				c -= 0x10000
				fmt.Fprintf(b, "\\u%04x\\u%04x", 0xD800+(c>>10), 0xDC00+(c&0x3FF)) // surrogate pair
			case c == '/' && r != nil && r.Bool():
				b.WriteString("\\/")
			default:
				b.WriteRune(c)
			}
		}
		b.WriteByte('"')
	}
	switch v.k {
	case jStr:
		str(v.s)
	case jArr:
		b.WriteByte('[')
		for i, e := range v.arr {
			if i > 0 {
				b.WriteByte(',')
			}
			ws()
			e.render(r, b, depth+1)
			ws()
		}
		b.WriteByte(']')
	case jObj:
		kvs := append([]jkv(nil), v.obj...)
		if r != nil {
			common.Shuffle(r, kvs)
		}
		b.WriteByte('{')
		for i, kv := range kvs {
			if i > 0 {
				b.WriteByte(',')
			}
			ws()
			str(kv.key)
			ws()
			b.WriteByte(':')
			ws()
			kv.val.render(r, b, depth+1)
			ws()
		}
		if len(kvs) == 0 {
			ws()
		}
		b.WriteByte('}')
	default:
		v.canonTo(b)
	}
}

func (v *jv) text(r *common.Rand) string {
	var b strings.Builder
	v.render(r, &b, 0)
	if r != nil && r.Bool() {
		b.WriteByte('\n')
	}
	return b.String()
}

// parseJSON is the harness's OWN JSON reader (RFC 8259 grammar, recursive
// descent) -- independent of encoding/json, which reads strings lossily.
// Numbers are kept as text.  Strings are decoded to BYTES: escapes resolved,
// surrogate pairs combined, and a LONE surrogate escape (\ud800) kept as its
// 3-byte generalized UTF-8 form (ED A0..BF 80..BF) so that it stays distinct
// from U+FFFD.  ok=false when the text is not exactly one JSON value (white
// space around it allowed), is not valid UTF-8, or an object has a duplicate key.
func parseJSON(data []byte) (*jv, bool) {
	if !utf8.Valid(data) {
		return nil, false
	}
	p := &jparser{d: data}
	p.ws()
	v, ok := p.value(0)
	if !ok {
		return nil, false
	}
	p.ws()
	if p.i != len(p.d) {
		return nil, false
	}
	return v, true
}

type jparser struct {
	d []byte
	i int
}

func (p *jparser) ws() {
	for p.i < len(p.d) && (p.d[p.i] == ' ' || p.d[p.i] == '\t' || p.d[p.i] == '\n' || p.d[p.i] == '\r') {
		p.i++
	}
}

func (p *jparser) lit(s string) bool {
	if strings.HasPrefix(string(p.d[p.i:min(len(p.d), p.i+len(s))]), s) {
		p.i += len(s)
		return true
	}
	return false
}

// value parses one value and records its source text.
func (p *jparser) value(depth int) (*jv, bool) {
	start := p.i
	v, ok := p.value1(depth)
	if ok && v != nil {
		v.src = string(p.d[start:p.i])
	}
	return v, ok
}

func (p *jparser) value1(depth int) (*jv, bool) {
	if p.i >= len(p.d) || depth > 200 {
		return nil, false
	}
	switch c := p.d[p.i]; {
	case c == 'n':
		return jnull(), p.lit("null")
	case c == 't':
		return &jv{k: jBool, b: true}, p.lit("true")
	case c == 'f':
		return &jv{k: jBool}, p.lit("false")
	case c == '"':
		s, ok := p.str()
		return jstr(s), ok
	case c == '[':
		p.i++
		v := &jv{k: jArr}
		p.ws()
		if p.i < len(p.d) && p.d[p.i] == ']' {
			p.i++
			return v, true
		}
		for {
			p.ws()
			e, ok := p.value(depth + 1)
			if !ok {
				return nil, false
			}
			v.arr = append(v.arr, e)
			p.ws()
			if p.i >= len(p.d) {
				return nil, false
			}
			if p.d[p.i] == ',' {
				p.i++
				continue
			}
			if p.d[p.i] == ']' {
				p.i++
				return v, true
			}
			return nil, false
		}
	case c == '{':
		p.i++
		v := &jv{k: jObj}
		seen := map[string]bool{}
		p.ws()
		if p.i < len(p.d) && p.d[p.i] == '}' {
			p.i++
			return v, true
		}
		for {
			p.ws()
			if p.i >= len(p.d) || p.d[p.i] != '"' {
				return nil, false
			}
			key, ok := p.str()
			if !ok || seen[key] {
				return nil, false
			}
			seen[key] = true
			p.ws()
			if p.i >= len(p.d) || p.d[p.i] != ':' {
				return nil, false
			}
			p.i++
			p.ws()
			e, ok := p.value(depth + 1)
			if !ok {
				return nil, false
			}
			v.obj = append(v.obj, jkv{key, e})
			p.ws()
			if p.i >= len(p.d) {
				return nil, false
			}
			if p.d[p.i] == ',' {
				p.i++
				continue
			}
			if p.d[p.i] == '}' {
				p.i++
				return v, true
			}
			return nil, false
		}
	case c == '-' || (c >= '0' && c <= '9'):
		j := p.i
		if p.d[j] == '-' {
			j++
		}
		if j >= len(p.d) {
			return nil, false
		}
		if p.d[j] == '0' {
			j++
		} else if p.d[j] >= '1' && p.d[j] <= '9' {
			for j < len(p.d) && p.d[j] >= '0' && p.d[j] <= '9' {
				j++
			}
		} else {
			return nil, false
		}
		if j < len(p.d) && p.d[j] == '.' {
			j++
			k := j
			for j < len(p.d) && p.d[j] >= '0' && p.d[j] <= '9' {
				j++
			}
			if j == k {
				return nil, false
			}
		}
		if j < len(p.d) && (p.d[j] == 'e' || p.d[j] == 'E') {
			j++
			if j < len(p.d) && (p.d[j] == '+' || p.d[j] == '-') {
				j++
			}
			k := j
			for j < len(p.d) && p.d[j] >= '0' && p.d[j] <= '9' {
				j++
			}
			if j == k {
				return nil, false
			}
		}
		v := &jv{k: jNum, s: string(p.d[p.i:j])}
		p.i = j
		return v, true
	}
	return nil, false
}

func hex4(b []byte) (int, bool) {
	if len(b) < 4 {
		return 0, false
	}
	n := 0
	for _, c := range b[:4] {
		switch {
		case c >= '0' && c <= '9':
			n = n*16 + int(c-'0')
		case c >= 'a' && c <= 'f':
			n = n*16 + int(c-'a') + 10
		case c >= 'A' && c <= 'F':
			n = n*16 + int(c-'A') + 10
		default:
			return 0, false
		}
	}
	return n, true
}

// wtf8 appends code point r; a surrogate is written in the generalized 3-byte form.
func wtf8(out []byte, r int) []byte {
	if r >= 0xD800 && r <= 0xDFFF {
		return append(out, byte(0xE0|r>>12), byte(0x80|(r>>6)&0x3F), byte(0x80|r&0x3F))
	}
	return utf8.AppendRune(out, rune(r))
}

func (p *jparser) str() (string, bool) {
	p.i++ // opening quote
	var out []byte
	for p.i < len(p.d) {
		c := p.d[p.i]
		switch {
		case c == '"':
			p.i++
			return string(out), true
		case c < 0x20:
			return "", false
		case c == '\\':
			if p.i+1 >= len(p.d) {
				return "", false
			}
			e := p.d[p.i+1]
			p.i += 2
			switch e {
			case '"', '\\', '/':
				out = append(out, e)
			case 'b':
				out = append(out, '\b')
			case 'f':
				out = append(out, '\f')
			case 'n':
				out = append(out, '\n')
			case 'r':
				out = append(out, '\r')
			case 't':
				out = append(out, '\t')
			case 'u':
				r, ok := hex4(p.d[p.i:])
				if !ok {
					return "", false
				}
				p.i += 4
				if r >= 0xD800 && r <= 0xDBFF && p.i+6 <= len(p.d) && p.d[p.i] == '\\' && p.d[p.i+1] == 'u' {
					if lo, ok := hex4(p.d[p.i+2:]); ok && lo >= 0xDC00 && lo <= 0xDFFF {
						p.i += 6
						out = utf8.AppendRune(out, rune(0x10000+(r-0xD800)<<10+(lo-0xDC00)))
						continue
					}
				}
				out = wtf8(out, r)
			default:
				return "", false
			}
		default:
			out = append(out, c)
			p.i++
		}
	}
	return "", false
}

// goString is the Go string encoding/json produces for a JSON string the own
// reader decoded to s: a lone surrogate becomes ONE U+FFFD (other invalid bytes
// cannot occur: the file is valid UTF-8).  Written independently of Model/Utf8.v.
func goString(s string) string {
	if utf8.ValidString(s) {
		return s
	}
	var b strings.Builder
	for i := 0; i < len(s); {
		if s[i] == 0xED && i+2 < len(s) && s[i+1] >= 0xA0 && s[i+1] <= 0xBF && s[i+2] >= 0x80 && s[i+2] <= 0xBF {
			b.WriteString("\uFFFD")
			i += 3
			continue
		}
		r, n := utf8.DecodeRuneInString(s[i:])
		if r == utf8.RuneError && n == 1 {
			b.WriteString("\uFFFD")
		} else {
			b.WriteString(s[i : i+n])
		}
		i += n
	}
	return b.String()
}

func hasLoneSurrogate(s string) bool { return goString(s) != s }

// ---------- classification for the model ----------

func kindOf(v *jv) string {
	switch v.k {
	case jNull:
		return "null"
	case jStr:
		return "str"
	case jObj:
		// "objstr": what json.Unmarshal accepts into a map[string]string -- every member a
		// string or null (a null member leaves the zero value)
		for _, kv := range v.obj {
			if kv.val.k != jStr && kv.val.k != jNull {
				return "obj"
			}
		}
		return "objstr"
	}
	return "other"
}

// freshShape reports whether e has exactly the shape Put writes: an object whose
// keys are among auth/identitytoken/registrytoken with non-empty string values.
func freshShape(e *jv) (auth, idtok, regtok string, ok bool) {
	if e.k != jObj {
		return
	}
	for _, kv := range e.obj {
		if kv.val.k != jStr || kv.val.s == "" || hasLoneSurrogate(kv.val.s) {
			return "", "", "", false
		}
		switch kv.key {
		case "auth":
			auth = kv.val.s
		case "identitytoken":
			idtok = kv.val.s
		case "registrytoken":
			regtok = kv.val.s
		default:
			return "", "", "", false
		}
	}
	return auth, idtok, regtok, true
}

var authFields = []string{"auth", "identitytoken", "registrytoken", "username", "password"}

// entryToken is the model's view of one auths entry (see ml/c18_main.ml).
func entryToken(e *jv) string {
	if a, i, r, ok := freshShape(e); ok {
		return fmt.Sprintf("F %s %s %s", common.Hex(a), common.Hex(i), common.Hex(r))
	}
	raw := common.Hex(e.canon())
	switch e.k {
	case jNull:
		return fmt.Sprintf("O %s V - - - - -", raw)
	case jObj:
		vals := make([]string, len(authFields))
		for _, kv := range e.obj {
			for i, f := range authFields {
				if strings.EqualFold(kv.key, f) {
					if kv.key != f {
						return "" // case-variant field names are not judged
					}
					switch kv.val.k {
					case jStr:
						vals[i] = goString(kv.val.s) // as encoding/json decodes it
					case jNull:
					default:
						return fmt.Sprintf("O %s E", raw)
					}
				}
			}
		}
		hs := make([]string, len(vals))
		for i, s := range vals {
			hs[i] = common.Hex(s)
		}
		return fmt.Sprintf("O %s V %s", raw, strings.Join(hs, " "))
	}
	return fmt.Sprintf("O %s E", raw)
}

// canonEntry is the canonical observable of one entry, shared by the model
// driver and the harness.
func canonEntry(e *jv) string {
	if a, i, r, ok := freshShape(e); ok {
		return fmt.Sprintf("F:%s:%s:%s", common.Hex(a), common.Hex(i), common.Hex(r))
	}
	return "O:" + common.Hex(e.canon())
}

func sortedObj(v *jv) []jkv {
	kvs := append([]jkv(nil), v.obj...)
	sort.Slice(kvs, func(i, j int) bool { return common.Hex(kvs[i].key) < common.Hex(kvs[j].key) })
	return kvs
}

// canonDoc is the canonical observable of a whole config document.
func canonDoc(d *jv) string {
	if d == nil {
		return "ABSENT"
	}
	if d.k == jNull {
		return "{}" // the document "null" is an empty configuration
	}
	if d.k != jObj {
		return "NOTOBJECT:" + common.Hex(d.canon())
	}
	var parts []string
	for _, kv := range sortedObj(d) {
		parts = append(parts, common.Hex(kv.key)+"="+canonTop(kv.key, kv.val))
	}
	return "{" + strings.Join(parts, ";") + "}"
}

func canonTop(key string, v *jv) string {
	switch {
	case key == "auths" && v.k == jObj:
		var es []string
		for _, kv := range sortedObj(v) {
			es = append(es, common.Hex(kv.key)+"="+canonEntry(kv.val))
		}
		return "A[" + strings.Join(es, ",") + "]"
	case key == "credsStore" && v.k == jStr:
		return "C:" + common.Hex(v.s)
	}
	return "R:" + kindOf(v) + ":" + common.Hex(v.canon())
}

// docTokens is the model input for an initial document; ok=false when some part
// is outside what the model judges.
func docTokens(d *jv) (string, bool) {
	if d == nil {
		return "ABSENT", true
	}
	if d.k != jObj {
		return "", false
	}
	var b strings.Builder
	fmt.Fprintf(&b, "DOC %d", len(d.obj))
	for _, kv := range d.obj {
		fmt.Fprintf(&b, " %s ", common.Hex(kv.key))
		switch {
		case kv.key == "auths" && kv.val.k == jObj:
			fmt.Fprintf(&b, "A %d", len(kv.val.obj))
			for _, e := range kv.val.obj {
				t := entryToken(e.val)
				if t == "" {
					return "", false
				}
				fmt.Fprintf(&b, " %s %s", common.Hex(e.key), t)
			}
		case kv.key == "credsStore" && kv.val.k == jStr:
			fmt.Fprintf(&b, "C %s", common.Hex(kv.val.s))
		default:
			fmt.Fprintf(&b, "R %s %s", kindOf(kv.val), common.Hex(kv.val.canon()))
		}
	}
	return b.String(), true
}

// stripSpace removes the insignificant white space of a JSON text (outside strings):
// what json.Indent added to a compact text.
func stripSpace(t string) string {
	var b strings.Builder
	in := false
	for i := 0; i < len(t); i++ {
		c := t[i]
		switch {
		case in:
			b.WriteByte(c)
			if c == '\\' && i+1 < len(t) {
				i++
				b.WriteByte(t[i])
			} else if c == '"' {
				in = false
			}
		case c == '"':
			in = true
			b.WriteByte(c)
		case c == ' ' || c == '\t' || c == '\n' || c == '\r':
		default:
			b.WriteByte(c)
		}
	}
	return b.String()
}
