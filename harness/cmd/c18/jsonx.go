package main

// A small JSON tree of the harness's own: generator ground truth, canonical
// (sorted, compact, minimally escaped) text, randomly formatted text, and the
// classification the Coq model takes as input.

import (
	"bytes"
	"encoding/json"
	"fmt"
	"sort"
	"strings"
	"unicode/utf8"

	"verifharness/common"
)

const (
	jNull = iota
	jBool
	jNum
	jStr
	jArr
	jObj
)

type jv struct {
	k   int
	b   bool
	s   string // string value or number text
	arr []*jv
	obj []jkv // insertion order; keys unique
}

type jkv struct {
	key string
	val *jv
}

func jstr(s string) *jv { return &jv{k: jStr, s: s} }
func jnull() *jv         { return &jv{k: jNull} }

func (v *jv) get(key string) *jv {
	for _, kv := range v.obj {
		if kv.key == key {
			return kv.val
		}
	}
	return nil
}

func (v *jv) set(key string, val *jv) {
	for i, kv := range v.obj {
		if kv.key == key {
			v.obj[i].val = val
			return
		}
	}
	v.obj = append(v.obj, jkv{key, val})
}

func (v *jv) del(key string) {
	for i, kv := range v.obj {
		if kv.key == key {
			v.obj = append(v.obj[:i:i], v.obj[i+1:]...)
			return
		}
	}
}

func writeCanonStr(b *strings.Builder, s string) {
	b.WriteByte('"')
	for _, r := range s {
		switch {
		case r == '"' || r == '\\':
			b.WriteByte('\\')
			b.WriteRune(r)
		case r < 0x20:
			fmt.Fprintf(b, "\\u%04x", r)
		default:
			b.WriteRune(r)
		}
	}
	b.WriteByte('"')
}

func (v *jv) canonTo(b *strings.Builder) {
	switch v.k {
	case jNull:
		b.WriteString("null")
	case jBool:
		if v.b {
			b.WriteString("true")
		} else {
			b.WriteString("false")
		}
	case jNum:
		b.WriteString(v.s)
	case jStr:
		writeCanonStr(b, v.s)
	case jArr:
		b.WriteByte('[')
		for i, e := range v.arr {
			if i > 0 {
				b.WriteByte(',')
			}
			e.canonTo(b)
		}
		b.WriteByte(']')
	case jObj:
		kvs := append([]jkv(nil), v.obj...)
		sort.Slice(kvs, func(i, j int) bool { return kvs[i].key < kvs[j].key })
		b.WriteByte('{')
		for i, kv := range kvs {
			if i > 0 {
				b.WriteByte(',')
			}
			writeCanonStr(b, kv.key)
			b.WriteByte(':')
			kv.val.canonTo(b)
		}
		b.WriteByte('}')
	}
}

func (v *jv) canon() string {
	var b strings.Builder
	v.canonTo(&b)
	return b.String()
}

// render writes v with random (legal) white space and random escaping choices.
func (v *jv) render(r *common.Rand, b *strings.Builder, depth int) {
	ws := func() {
		if r == nil {
			return
		}
		switch r.Intn(6) {
		case 0:
			b.WriteByte(' ')
		case 1:
			b.WriteString("\n" + strings.Repeat("  ", depth))
		case 2:
			b.WriteByte('\t')
		}
	}
	str := func(s string) {
		b.WriteByte('"')
		for _, c := range s {
			switch {
			case c == '"' || c == '\\':
				b.WriteByte('\\')
				b.WriteRune(c)
			case c < 0x20:
				fmt.Fprintf(b, "\\u%04x", c)
			case r != nil && c < 0x7f && r.Intn(12) == 0:
				fmt.Fprintf(b, "\\u%04x", c) // gratuitous escape
			case c == '/' && r != nil && r.Bool():
				b.WriteString("\\/")
			default:
				b.WriteRune(c)
			}
		}
		b.WriteByte('"')
	}
	switch v.k {
	case jStr:
		str(v.s)
	case jArr:
		b.WriteByte('[')
		for i, e := range v.arr {
			if i > 0 {
				b.WriteByte(',')
			}
			ws()
			e.render(r, b, depth+1)
			ws()
		}
		b.WriteByte(']')
	case jObj:
		kvs := append([]jkv(nil), v.obj...)
		if r != nil {
			common.Shuffle(r, kvs)
		}
		b.WriteByte('{')
		for i, kv := range kvs {
			if i > 0 {
				b.WriteByte(',')
			}
			ws()
			str(kv.key)
			ws()
			b.WriteByte(':')
			ws()
			kv.val.render(r, b, depth+1)
			ws()
		}
		if len(kvs) == 0 {
			ws()
		}
		b.WriteByte('}')
	default:
		v.canonTo(b)
	}
}

func (v *jv) text(r *common.Rand) string {
	var b strings.Builder
	v.render(r, &b, 0)
	if r != nil && r.Bool() {
		b.WriteByte('\n')
	}
	return b.String()
}

// parseJSON parses with encoding/json (numbers kept as text).  ok=false when the
// text is not exactly one JSON value or an object has a duplicate key.
func parseJSON(data []byte) (*jv, bool) {
	if !utf8.Valid(data) {
		return nil, false
	}
	dec := json.NewDecoder(bytes.NewReader(data))
	dec.UseNumber()
	v, ok := parseValue(dec)
	if !ok {
		return nil, false
	}
	if _, err := dec.Token(); err == nil {
		return nil, false // trailing value
	}
	return v, true
}

func parseValue(dec *json.Decoder) (*jv, bool) {
	t, err := dec.Token()
	if err != nil {
		return nil, false
	}
	switch x := t.(type) {
	case nil:
		return jnull(), true
	case bool:
		return &jv{k: jBool, b: x}, true
	case json.Number:
		return &jv{k: jNum, s: string(x)}, true
	case string:
		return jstr(x), true
	case json.Delim:
		switch x {
		case '[':
			v := &jv{k: jArr}
			for dec.More() {
				e, ok := parseValue(dec)
				if !ok {
					return nil, false
				}
				v.arr = append(v.arr, e)
			}
			if _, err := dec.Token(); err != nil {
				return nil, false
			}
			return v, true
		case '{':
			v := &jv{k: jObj}
			seen := map[string]bool{}
			for dec.More() {
				kt, err := dec.Token()
				if err != nil {
					return nil, false
				}
				key, isStr := kt.(string)
				if !isStr || seen[key] {
					return nil, false
				}
				seen[key] = true
				e, ok := parseValue(dec)
				if !ok {
					return nil, false
				}
				v.obj = append(v.obj, jkv{key, e})
			}
			if _, err := dec.Token(); err != nil {
				return nil, false
			}
			return v, true
		}
	}
	return nil, false
}

// ---------- classification for the model ----------

func kindOf(v *jv) string {
	switch v.k {
	case jNull:
		return "null"
	case jStr:
		return "str"
	case jObj:
		// "objstr": what json.Unmarshal accepts into a map[string]string -- every member a
		// string or null (a null member leaves the zero value)
		for _, kv := range v.obj {
			if kv.val.k != jStr && kv.val.k != jNull {
				return "obj"
			}
		}
		return "objstr"
	}
	return "other"
}

// freshShape reports whether e has exactly the shape Put writes: an object whose
// keys are among auth/identitytoken/registrytoken with non-empty string values.
func freshShape(e *jv) (auth, idtok, regtok string, ok bool) {
	if e.k != jObj {
		return
	}
	for _, kv := range e.obj {
		if kv.val.k != jStr || kv.val.s == "" {
			return "", "", "", false
		}
		switch kv.key {
		case "auth":
			auth = kv.val.s
		case "identitytoken":
			idtok = kv.val.s
		case "registrytoken":
			regtok = kv.val.s
		default:
			return "", "", "", false
		}
	}
	return auth, idtok, regtok, true
}

var authFields = []string{"auth", "identitytoken", "registrytoken", "username", "password"}

// entryToken is the model's view of one auths entry (see ml/c18_main.ml).
func entryToken(e *jv) string {
	if a, i, r, ok := freshShape(e); ok {
		return fmt.Sprintf("F %s %s %s", common.Hex(a), common.Hex(i), common.Hex(r))
	}
	raw := common.Hex(e.canon())
	switch e.k {
	case jNull:
		return fmt.Sprintf("O %s V - - - - -", raw)
	case jObj:
		vals := make([]string, len(authFields))
		for _, kv := range e.obj {
			for i, f := range authFields {
				if strings.EqualFold(kv.key, f) {
					if kv.key != f {
						return "" // case-variant field names are not judged
					}
					switch kv.val.k {
					case jStr:
						vals[i] = kv.val.s
					case jNull:
					default:
						return fmt.Sprintf("O %s E", raw)
					}
				}
			}
		}
		hs := make([]string, len(vals))
		for i, s := range vals {
			hs[i] = common.Hex(s)
		}
		return fmt.Sprintf("O %s V %s", raw, strings.Join(hs, " "))
	}
	return fmt.Sprintf("O %s E", raw)
}

// canonEntry is the canonical observable of one entry, shared by the model
// driver and the harness.
func canonEntry(e *jv) string {
	if a, i, r, ok := freshShape(e); ok {
		return fmt.Sprintf("F:%s:%s:%s", common.Hex(a), common.Hex(i), common.Hex(r))
	}
	return "O:" + common.Hex(e.canon())
}

func sortedObj(v *jv) []jkv {
	kvs := append([]jkv(nil), v.obj...)
	sort.Slice(kvs, func(i, j int) bool { return common.Hex(kvs[i].key) < common.Hex(kvs[j].key) })
	return kvs
}

// canonDoc is the canonical observable of a whole config document.
func canonDoc(d *jv) string {
	if d == nil {
		return "ABSENT"
	}
	if d.k == jNull {
		return "{}" // the document "null" is an empty configuration
	}
	if d.k != jObj {
		return "NOTOBJECT:" + common.Hex(d.canon())
	}
	var parts []string
	for _, kv := range sortedObj(d) {
		parts = append(parts, common.Hex(kv.key)+"="+canonTop(kv.key, kv.val))
	}
	return "{" + strings.Join(parts, ";") + "}"
}

func canonTop(key string, v *jv) string {
	switch {
	case key == "auths" && v.k == jObj:
		var es []string
		for _, kv := range sortedObj(v) {
			es = append(es, common.Hex(kv.key)+"="+canonEntry(kv.val))
		}
		return "A[" + strings.Join(es, ",") + "]"
	case key == "credsStore" && v.k == jStr:
		return "C:" + common.Hex(v.s)
	}
	return "R:" + kindOf(v) + ":" + common.Hex(v.canon())
}

// docTokens is the model input for an initial document; ok=false when some part
// is outside what the model judges.
func docTokens(d *jv) (string, bool) {
	if d == nil {
		return "ABSENT", true
	}
	if d.k != jObj {
		return "", false
	}
	var b strings.Builder
	fmt.Fprintf(&b, "DOC %d", len(d.obj))
	for _, kv := range d.obj {
		fmt.Fprintf(&b, " %s ", common.Hex(kv.key))
		switch {
		case kv.key == "auths" && kv.val.k == jObj:
			fmt.Fprintf(&b, "A %d", len(kv.val.obj))
			for _, e := range kv.val.obj {
				t := entryToken(e.val)
				if t == "" {
					return "", false
				}
				fmt.Fprintf(&b, " %s %s", common.Hex(e.key), t)
			}
		case kv.key == "credsStore" && kv.val.k == jStr:
			fmt.Fprintf(&b, "C %s", common.Hex(kv.val.s))
		default:
			fmt.Fprintf(&b, "R %s %s", kindOf(kv.val), common.Hex(kv.val.canon()))
		}
	}
	return b.String(), true
}
