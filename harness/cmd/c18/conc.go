package main

// S cases: concurrent Get/Put/Delete callers on ONE FileStore.  The oracle
// searches, with its own map semantics, for a sequential order of the
// operations (respecting each caller's program order) that explains every
// returned value and the final file; the model does the same search with the
// extracted step function (trace acceptance).

import (
	"context"
	"encoding/json"
	"fmt"
	"os"
	"path/filepath"
	"runtime"
	"sort"
	"strings"
	"sync"

	"oras.land/oras-go/v2/registry/remote/auth"
	"oras.land/oras-go/v2/registry/remote/credentials"
	"verifharness/common"
)

type concCase struct {
	Kind    string  `json:"kind"` // "S"
	Init    *string `json:"init"`
	Threads [][]opx `json:"threads"`
	// Delay != nil: a CONTROLLED schedule (see delayed.go).  The run happens in a child
	// process under strace; every worker is locked to its own OS thread; the first
	// <Syscall> of each thread is delayed by DelayMs at its entry.  Thread 1.. first run
	// their first operation (its delay is harmless: nobody else is active), then thread 0
	// starts its program (its first <Syscall> is stretched to DelayMs), and OffsetMs later
	// the other threads run the rest of theirs -- inside thread 0's stretched operation.
	Delay *delaySpec `json:"delay,omitempty"`
	// Dynamic: the callers go through credentials.NewStore (DynamicStore, AllowPlaintextPut) on the
	// config path instead of a FileStore; operations "I" (IsAuthConfigured) are executed (the race
	// detector watches them) but not judged -- they are not Get/Put/Delete.
	Dynamic bool `json:"dynamic,omitempty"`
}

type delaySpec struct {
	Syscall  string `json:"syscall"`
	DelayMs  int    `json:"delay_ms"`
	OffsetMs int    `json:"offset_ms"`
}

func genConc(r *common.Rand) concCase {
	addrs := []string{"a.example", "b.example:5000", "c"}
	creds := func() opx {
		return opx{U: common.Pick(r, []string{"u1", "u2", "", "bad:user"}), P: common.Pick(r, []string{"p1", "p:2", ""}),
			R: common.Pick(r, []string{"", "", "rt"})}
	}
	cc := concCase{Kind: "S"}
	if r.Intn(4) != 0 {
		d := &jv{k: jObj}
		a := &jv{k: jObj}
		for _, ad := range addrs {
			if r.Bool() {
				o := creds()
				o.U = strings.ReplaceAll(o.U, ":", "")
				a.set(ad, expectedEntry(o))
			}
		}
		d.set("auths", a)
		d.set("keep", genValue(r, 1))
		t := d.text(r)
		cc.Init = &t
	}
	nt := 2 + r.Intn(2)
	for i := 0; i < nt; i++ {
		var ops []opx
		for j := 1 + r.Intn(3); j > 0; j-- {
			a := common.Pick(r, addrs)
			switch r.Intn(5) {
			case 0, 1:
				o := creds()
				o.Op, o.Addr = "P", a
				ops = append(ops, o)
			case 2:
				ops = append(ops, opx{Op: "D", Addr: a})
			default:
				ops = append(ops, opx{Op: "G", Addr: a})
			}
		}
		cc.Threads = append(cc.Threads, ops)
	}
	return cc
}

// a prepared case: its own directory with the initial file
type concPrep struct {
	cc      concCase
	base    string
	path    string
	initDoc *jv
}

func prepConc(cc concCase) concPrep {
	base, err := os.MkdirTemp("", "c18s")
	if err != nil {
		panic(err)
	}
	p := concPrep{cc: cc, base: base, path: filepath.Join(base, "config.json")}
	if cc.Init != nil {
		os.WriteFile(p.path, []byte(*cc.Init), 0o600)
		p.initDoc, _ = parseJSON([]byte(*cc.Init))
	}
	return p
}

// runConc runs one case (controlled when cc.Delay is set, free-running otherwise).
func runConc(cc concCase) { runConcBatch([]concCase{cc}) }

// runConcBatch: the callers run in a CHILD process (a data race inside the
// library can kill or hang the process: fatal "concurrent map writes", a
// corrupted map).  Free-running cases share one child, built with the race
// detector when the toolchain allows; a crash, hang or reported data race is
// re-confirmed and pinned to a case by re-running the batch's cases one by
// one on fresh directories -- only a re-confirmed failure is reported.
func runConcBatch(cases []concCase) {
	if wedged >= 3 {
		return
	}
	var free []concPrep
	for _, cc := range cases {
		p := prepConc(cc)
		if cc.Delay != nil {
			id := run.NewID()
			results, why := execDelayed(cc, p.path)
			if results == nil && (why == "crashed" || why == "hang") {
				// re-confirm on a fresh directory before reporting (a loaded host can exceed the limit)
				os.RemoveAll(p.base)
				p = prepConc(cc)
				var why2 string
				results, why2 = execDelayed(cc, p.path)
				if results == nil && why2 != why {
					why = "unconfirmed-" + why
				}
			}
			switch {
			case results != nil:
				run.Count("conc:controlled-" + cc.Delay.Syscall)
				judgeConc(id, p, results)
			case why == "crashed" || why == "hang":
				run.OracleFail(id, "conc-"+why, "the process died or hung under concurrent Get/Put/Delete calls on one store (twice)", cc)
			default:
				run.Count("conc:delayed-run-" + why)
			}
			os.RemoveAll(p.base)
			continue
		}
		free = append(free, p)
	}
	if len(free) == 0 {
		return
	}
	defer func() {
		for _, p := range free {
			os.RemoveAll(p.base)
		}
	}()
	all, why := execFree(free)
	if all != nil {
		for i, p := range free {
			id := run.NewID()
			if all[i] == nil {
				run.Count("conc:loaderror")
				continue
			}
			run.Count("conc:free-cases-judged")
			if raceChild != "" {
				run.Count("conc:race-detector-cases")
			}
			judgeConc(id, p, all[i])
		}
		return
	}
	if why != "crashed" && why != "hang" && why != "race" {
		run.Count("conc:free-run-" + why)
		return
	}
	// re-confirm and pin the failure
	for _, p := range free {
		for try := 0; try < 3; try++ {
			q := prepConc(p.cc)
			_, w := execFree([]concPrep{q})
			os.RemoveAll(q.base)
			if w == "crashed" || w == "hang" || w == "race" {
				msg := "the process died or hung under concurrent Get/Put/Delete calls on one store"
				if w == "race" {
					msg = "the Go race detector reports a data race inside the credentials store under concurrent Get/Put/Delete calls: " + lastRaceReport
				}
				run.OracleFail(run.NewID(), "conc-"+w, msg, p.cc)
				return
			}
		}
	}
	// not reproduced one by one: an infrastructure hiccup (loaded host), not a finding
	run.Count("conc:unconfirmed-" + why)
}

func judgeConc(id string, p concPrep, results [][]string) {
	if p.cc.Dynamic {
		// not judged: IsAuthConfigured calls
		cc2 := p.cc
		cc2.Threads = nil
		var res2 [][]string
		for i, ops := range p.cc.Threads {
			var o2 []opx
			var r2 []string
			for j, o := range ops {
				if o.Op != "I" {
					o2 = append(o2, o)
					r2 = append(r2, results[i][j])
				}
			}
			cc2.Threads = append(cc2.Threads, o2)
			res2 = append(res2, r2)
		}
		p.cc, results = cc2, res2
		run.Count("conc:dynamic-store")
	}
	cc, base, path, initDoc := p.cc, p.base, p.path, p.initDoc
	ctx := context.Background()
	fail := func(sig, msg string) { run.OracleFail(id, sig, msg, cc) }
	doc, mode, bad := readDoc(path)
	if bad {
		fail("file-unparseable", "config file is not a JSON document after concurrent calls")
		return
	}
	if t := tempsIn(base); len(t) > 0 {
		fail("temp-left", "ingest file left behind: "+strings.Join(t, ","))
	}
	final := canonDoc(doc)

	// ---- oracle: own sequential semantics over a map ----
	type ent struct {
		c     auth.Credential
		canon string
	}
	init := map[string]ent{}
	keep := ""
	if initDoc != nil {
		if k := initDoc.get("keep"); k != nil {
			keep = k.canon()
		}
		if a := initDoc.get("auths"); a != nil {
			for _, e := range a.obj {
				// entries were generated by expectedEntry: decode with the public API once, sequentially
				init[e.key] = ent{canon: e.val.canon()}
			}
		}
	}
	// initial credentials: re-read from a pristine copy
	if cc.Init != nil {
		p0 := filepath.Join(base, "pristine.json")
		os.WriteFile(p0, []byte(*cc.Init), 0o600)
		if fs0, err := credentials.NewFileStore(p0); err == nil {
			for k, e := range init {
				c, _ := fs0.Get(ctx, k)
				e.c = c
				init[k] = e
			}
		}
	}
	writes := 0
	for _, ops := range cc.Threads {
		for _, o := range ops {
			if o.Op != "G" {
				writes++
			}
		}
	}
	anySave := false
	var search func(pos []int, st map[string]ent, saved bool) bool
	search = func(pos []int, st map[string]ent, saved bool) bool {
		doneAll := true
		for i := range cc.Threads {
			if pos[i] < len(cc.Threads[i]) {
				doneAll = false
			}
		}
		if doneAll {
			// final file must be the map (when anything was saved) or the untouched document
			if !saved {
				return final == canonDoc(initDoc)
			}
			if doc == nil || doc.k != jObj {
				return false
			}
			a := doc.get("auths")
			if a == nil || a.k != jObj || len(a.obj) != len(st) {
				return false
			}
			for k, e := range st {
				g := a.get(k)
				if g == nil || g.canon() != e.canon {
					return false
				}
			}
			if keep != "" && (doc.get("keep") == nil || doc.get("keep").canon() != keep) {
				return false
			}
			anySave = true
			return true
		}
		for i := range cc.Threads {
			if pos[i] >= len(cc.Threads[i]) {
				continue
			}
			o := cc.Threads[i][pos[i]]
			got := results[i][pos[i]]
			st2, saved2 := st, saved
			switch o.Op {
			case "G":
				want := auth.EmptyCredential
				if e, ok := st[o.Addr]; ok {
					want = e.c
				}
				if credStr(want) != got {
					continue
				}
			case "P":
				if strings.Contains(o.U, ":") {
					if got != "badcred" {
						continue
					}
				} else {
					if got != "ok" {
						continue
					}
					st2 = map[string]ent{}
					for k, v := range st {
						st2[k] = v
					}
					st2[o.Addr] = ent{c: o.cred(), canon: expectedEntry(o).canon()}
					saved2 = true
				}
			case "D":
				if got != "ok" {
					continue
				}
				if _, ok := st[o.Addr]; ok {
					st2 = map[string]ent{}
					for k, v := range st {
						if k != o.Addr {
							st2[k] = v
						}
					}
					saved2 = true
				}
			}
			pos[i]++
			ok := search(pos, st2, saved2)
			pos[i]--
			if ok {
				return true
			}
		}
		return false
	}
	if !search(make([]int, len(cc.Threads)), init, false) {
		fail("nonserial", fmt.Sprintf("no sequential order of the callers' operations explains results %v and the final file", results))
	} else if anySave && mode != 0o600 {
		fail("mode", fmt.Sprintf("config file mode %o after concurrent saves", mode))
	}
	run.Count(fmt.Sprintf("conc:threads=%d", len(cc.Threads)))

	// ---- model input ----
	initTok, judged := docTokens(initDoc)
	if judged {
		var b strings.Builder
		fmt.Fprintf(&b, "S %s %d", initTok, len(cc.Threads))
		for i, ops := range cc.Threads {
			fmt.Fprintf(&b, " %d", len(ops))
			for j, o := range ops {
				switch o.Op {
				case "G":
					fmt.Fprintf(&b, " G %s %s", common.Hex(o.Addr), results[i][j])
				case "P":
					fmt.Fprintf(&b, " P %s %s %s %s %s %s", common.Hex(o.Addr), common.Hex(o.U), common.Hex(o.P), common.Hex(o.R), common.Hex(o.A), results[i][j])
				case "D":
					fmt.Fprintf(&b, " D %s %s", common.Hex(o.Addr), results[i][j])
				}
			}
		}
		fmt.Fprintf(&b, " FINALMD5 %s", md5hex(final))
		run.Case(id, b.String(), "ACCEPT")
		run.TracesAgainstImpl++
	}
	if writes > 0 {
		keys := []string{}
		for _, ops := range cc.Threads {
			js, _ := json.Marshal(ops)
			keys = append(keys, string(js))
		}
		sort.Strings(keys)
		run.Nontrivial("S|" + strings.Join(keys, "|"))
	}
}

type authConfigured interface{ IsAuthConfigured() bool }

func doOp(fs credentials.Store, o opx) string {
	ctx := context.Background()
	switch o.Op {
	case "I":
		if ac, ok := fs.(authConfigured); ok {
			ac.IsAuthConfigured()
		}
		return "i"
	case "G":
		c, err := fs.Get(ctx, o.Addr)
		if err != nil {
			return resultStr(nil, err)
		}
		return credStr(c)
	case "P":
		return resultStr(nil, fs.Put(ctx, o.Addr, o.cred()))
	case "D":
		return resultStr(nil, fs.Delete(ctx, o.Addr))
	}
	return "badop"
}

// runFree: free-running goroutines on one store (executed in the child).
func runFree(fs credentials.Store, threads [][]opx) [][]string {
	results := make([][]string, len(threads))
	var wg sync.WaitGroup
	start := make(chan struct{})
	for i, ops := range threads {
		results[i] = make([]string, len(ops))
		wg.Add(1)
		go func(i int, ops []opx) {
			defer wg.Done()
			<-start
			for j, o := range ops {
				results[i][j] = doOp(fs, o)
				if (i+j)%2 == 0 {
					runtime.Gosched()
				}
			}
		}(i, ops)
	}
	close(start)
	wg.Wait()
	return results
}
