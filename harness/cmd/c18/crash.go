package main

// K cases: one save (a Put or a Delete of an existing entry) on a generated
// config file, killed with SIGKILL before every system call of the window
// (strace injection, harness/crashkit).  Compared with the model's FlatFS state
// after the corresponding micro-steps; the oracle checks "old or new complete
// file, owner-only permissions, still loads".

import (
	"context"
	"encoding/hex"
	"encoding/json"
	"fmt"
	"os"
	"path/filepath"
	"strings"

	"oras.land/oras-go/v2/registry/remote/credentials"
	"verifharness/common"
	"verifharness/crashkit"
)

type crashCase struct {
	Kind   string  `json:"kind"` // "K"
	Init   *string `json:"init"`
	Mode   uint32  `json:"mode"`
	SubDir bool    `json:"subdir"` // config lives in a directory that does not exist yet (only with Init == nil)
	Depth   int    `json:"depth,omitempty"`   // number of missing directory levels (0 = 1)
	Symlink bool   `json:"symlink,omitempty"` // the config path is a symbolic link (only with Init != nil)
	Op     opx     `json:"cop"`
	K      int     `json:"k"` // -1: every k
}

func init() {
	if os.Getenv("C18_CHILD") != "" {
		crashkit.ChildInit()
	}
}

// childMain: C18_CHILD=<config path>, C18_OP=<json op>
func childMain() {
	path := os.Getenv("C18_CHILD")
	var o opx
	if err := json.Unmarshal([]byte(os.Getenv("C18_OP")), &o); err != nil {
		os.Exit(3)
	}
	fs, err := credentials.NewFileStore(path)
	if err != nil {
		os.Exit(4)
	}
	ctx := context.Background()
	before, _ := fs.Get(ctx, o.Addr)
	crashkit.Mark()
	switch o.Op {
	case "P":
		err = fs.Put(ctx, o.Addr, o.cred())
	case "D":
		err = fs.Delete(ctx, o.Addr)
	}
	crashkit.Mark()
	if err != nil {
		// an operation that failed must not be visible: the store answers as before
		if after, gerr := fs.Get(ctx, o.Addr); gerr == nil && after != before {
			os.Exit(6)
		}
		os.Exit(5)
	}
	os.Exit(0)
}

// number of crash scenarios that are also run with failing system calls
var ioErrBudget = 0

type crashDir struct {
	base, dir, path string
	levels          []string // missing directory levels, outermost first
	target          string   // link target when the config path is a symlink
}

func (cc crashCase) prepare() crashDir {
	base, err := os.MkdirTemp("", "c18k")
	if err != nil {
		panic(err)
	}
	d := crashDir{base: base, dir: base}
	if cc.SubDir && cc.Init == nil {
		d.dir, d.levels = subDirs(base, true, cc.Depth)
	}
	d.path = filepath.Join(d.dir, "config.json")
	if cc.Init != nil {
		mode := os.FileMode(cc.Mode)
		if mode == 0 {
			mode = 0o644
		}
		real := d.path
		if cc.Symlink {
			os.Mkdir(filepath.Join(base, "real"), 0o755)
			d.target = filepath.Join(base, "real", "target.json")
			real = d.target
		}
		if err := os.WriteFile(real, []byte(*cc.Init), mode); err != nil {
			panic(err)
		}
		os.Chmod(real, mode)
		if cc.Symlink {
			if err := os.Symlink(d.target, d.path); err != nil {
				panic(err)
			}
		}
	}
	return d
}

func (cc crashCase) cmd(d crashDir) crashkit.Cmd {
	js, _ := json.Marshal(cc.Op)
	exe, _ := os.Executable()
	return crashkit.Cmd{Path: exe, Env: crashkit.ChildEnv("C18_CHILD="+d.path, "C18_OP="+string(js)), Dir: d.base, Scratch: run.Dir}
}

type dirObs struct {
	dirMode  string
	cfg, tmp string // "ABSENT" or hex/mode
	cfgData  []byte
	cfgThere bool
	cfgMode  os.FileMode
	tmps     [][]byte
	tmpModes []os.FileMode
}

func hexOr(b []byte) string {
	if len(b) == 0 {
		return "-"
	}
	return hex.EncodeToString(b)
}

func observeDir(d crashDir, dirExisted bool) dirObs {
	var o dirObs
	if dirExisted {
		o.dirMode = "755" // a directory the harness made itself: reported with the mode given to the model
	} else {
		var ms []string
		for _, l := range d.levels {
			if st, err := os.Stat(l); err == nil {
				ms = append(ms, fmt.Sprintf("%o", st.Mode().Perm()))
			} else {
				ms = append(ms, "-")
			}
		}
		o.dirMode = strings.Join(ms, ",")
	}
	o.cfg, o.tmp = "ABSENT", "ABSENT"
	if data, err := os.ReadFile(d.path); err == nil {
		st, _ := os.Stat(d.path)
		o.cfgData, o.cfgThere, o.cfgMode = data, true, st.Mode().Perm()
		o.cfg = fmt.Sprintf("%s/%o", hexOr(data), st.Mode().Perm())
	}
	for _, name := range tempsIn(d.dir) {
		p := filepath.Join(d.dir, name)
		data, _ := os.ReadFile(p)
		st, _ := os.Stat(p)
		o.tmps = append(o.tmps, data)
		o.tmpModes = append(o.tmpModes, st.Mode().Perm())
		o.tmp = fmt.Sprintf("%s/%o", hexOr(data), st.Mode().Perm())
	}
	if len(o.tmps) > 1 {
		o.tmp = fmt.Sprintf("MANY:%d", len(o.tmps))
	}
	return o
}

// mutating reports the model micro-step a successful system call corresponds to
// ("" = not a mutation of the file system below the config directory).
func mutating(c crashkit.Call, d crashDir, tempfd *int) string {
	ok := c.RetInt() >= 0
	switch c.Name {
	case "close":
		if ok && *tempfd >= 0 && strings.TrimSpace(c.Args) == fmt.Sprint(*tempfd) {
			*tempfd = -1
			return "close"
		}
	case "mkdir", "mkdirat":
		if ok && strings.Contains(c.Args, d.base) {
			return "mkdir"
		}
	case "openat", "open", "creat", "openat2":
		if ok && strings.Contains(c.Args, d.base) && strings.Contains(c.Args, "O_CREAT") {
			if strings.Contains(c.Args, "O_EXCL") {
				*tempfd = c.RetInt()
				return "creat"
			}
			return "creat-noexcl"
		}
		if ok && strings.Contains(c.Args, d.base) && strings.Contains(c.Args, "O_TRUNC") {
			return "trunc"
		}
	case "fchmod", "fchmodat", "chmod":
		if ok {
			return "chmod"
		}
	case "write", "pwrite64", "writev":
		if ok && strings.HasPrefix(strings.TrimSpace(c.Args), fmt.Sprint(*tempfd)+",") {
			return fmt.Sprintf("write:%d", c.RetInt())
		}
	case "rename", "renameat", "renameat2":
		if ok {
			return "rename"
		}
	case "unlink", "unlinkat", "rmdir":
		if ok {
			return "unlink"
		}
	case "ftruncate", "truncate":
		if ok {
			return "truncate"
		}
	case "link", "linkat", "symlink", "symlinkat":
		if ok {
			return "link"
		}
	case "fsync", "fdatasync":
		return "" // durability calls do not change the model state
	}
	return ""
}

func runCrash(cc crashCase) {
	if wedged >= 3 {
		return
	}
	fail := func(id, sig, msg string, k int) {
		c := cc
		c.K = k
		run.OracleFail(id, sig, msg, c)
	}
	dirExisted := !(cc.SubDir && cc.Init == nil)
	// reference run without tracing: the complete new file
	d0 := cc.prepare()
	defer os.RemoveAll(d0.base)
	{
		c := cc.cmd(d0)
		if err := runPlain(c); err != nil {
			run.Count("crash:reference-run-failed")
			return
		}
	}
	ref := observeDir(d0, dirExisted)
	if !ref.cfgThere {
		run.Count("crash:op-does-not-save")
		return
	}
	newc := ref.cfgData
	var oldc []byte
	if cc.Init != nil {
		oldc = []byte(*cc.Init)
	}
	// recorded run
	d1 := cc.prepare()
	defer os.RemoveAll(d1.base)
	rec, err := crashkit.Record(cc.cmd(d1))
	if err != nil {
		run.Count("crash:record-failed")
		run.Extra["crash_record_error"] = err.Error()
		return
	}
	win := rec.Window()
	if len(win) == 0 {
		run.Count("crash:no-window")
		return
	}
	// the script: projected mutating calls of the window
	var script []string
	var chunks []string
	off := 0
	tempfd := -1
	label := map[int]string{}
	for _, i := range win {
		if m := mutating(rec.Calls[i], d1, &tempfd); m != "" {
			label[i] = m
			script = append(script, m)
			if strings.HasPrefix(m, "write:") {
				n := rec.Calls[i].RetInt()
				if off+n > len(newc) {
					n = len(newc) - off
				}
				chunks = append(chunks, common.Hex(string(newc[off:off+n])))
				off += n
			}
		}
	}
	dm := "493" // 0755: one existing level
	if !dirExisted {
		dm = strings.TrimSuffix(strings.Repeat("-,", len(d1.levels)), ",")
	}
	nchain := 1
	if !dirExisted {
		nchain = len(d1.levels)
	}
	if cc.Symlink && cc.Init != nil {
		run.Count("crash:symlinked-path")
	}
	sizes := make([]string, len(chunks))
	for i, c := range chunks {
		sizes[i] = fmt.Sprint(len(common.UnHex(c)))
	}
	sid := run.NewID()
	run.Case(sid, fmt.Sprintf("KS %s %d %s", dm, len(chunks), strings.Join(sizes, " ")), "SCRIPT "+strings.Join(script, " "))
	run.TracesAgainstImpl++
	run.Count(fmt.Sprintf("crash:window-syscalls=%d", len(win)))
	oldTok, oldMode := "ABSENT", 0
	if cc.Init != nil {
		oldTok = common.Hex(*cc.Init)
		oldMode = int(cc.Mode)
		if oldMode == 0 {
			oldMode = 0o644
		}
	}
	if cc.Kind == "KE" || (cc.K < 0 && ioErrBudget > 0) {
		ioErrBudget--
		runIOErrors(cc, rec, win, oldc, newc, dirExisted, label, dm, nchain, chunks, oldTok, oldMode)
		if cc.Kind == "KE" {
			return
		}
	}
	ctx := context.Background()
	for k := 0; k < len(win); k++ {
		if cc.K >= 0 && cc.K != k {
			continue
		}
		id := run.NewID()
		d := cc.prepare()
		res, err := crashkit.KillBefore(cc.cmd(d), rec, win[k])
		if err != nil || !res.Aligned {
			run.Count("crash:unaligned")
			os.RemoveAll(d.base)
			continue
		}
		// mutating calls completed before the k-th call of the window
		done := 0
		for _, i := range win[:k] {
			if label[i] != "" {
				done++
			}
		}
		steps := done
		if dirExisted {
			steps++ // MkdirAll on an existing directory is a completed no-op
		}
		obs := observeDir(d, dirExisted)
		run.Case(id, fmt.Sprintf("K %s %s %d %d 0 %d %s", dm, oldTok, oldMode, steps, len(chunks), strings.Join(chunks, " ")),
			fmt.Sprintf("STEPS %d DIR %s CFG %s TMP %s", nchain+4+len(chunks), obs.dirMode, obs.cfg, obs.tmp))
		run.Count("crash:killed-before-" + rec.Calls[win[k]].Name)
		run.Count("crash:judged-kills")
		if done > 0 {
			run.Nontrivial(fmt.Sprintf("K|%v|%v|%d", cc.Init, cc.Op, k))
		}
		// ---- oracle ----
		switch {
		case !obs.cfgThere:
			if cc.Init != nil {
				fail(id, "crash-lost", fmt.Sprintf("config file missing after a kill before call %d (%s)", k, rec.Calls[win[k]].Name), k)
			}
		case string(obs.cfgData) == string(oldc) && cc.Init != nil:
		case string(obs.cfgData) == string(newc):
			if obs.cfgMode != 0o600 {
				fail(id, "crash-mode", fmt.Sprintf("new config file has mode %o after a kill before call %d", obs.cfgMode, k), k)
			}
		default:
			fail(id, "crash-torn", fmt.Sprintf("config file is neither the old nor the new document after a kill before call %d (%s): %d bytes",
				k, rec.Calls[win[k]].Name, len(obs.cfgData)), k)
		}
		if d.target != "" {
			if after, err := os.ReadFile(d.target); err != nil || (string(after) != *cc.Init && string(after) != string(newc)) {
				fail(id, "symlink-target-damaged", fmt.Sprintf("the symlink target is neither the old nor the new document after a kill before call %d", k), k)
			}
		}
		for i, t := range obs.tmps {
			if obs.tmpModes[i] != 0o600 {
				fail(id, "crash-temp-mode", fmt.Sprintf("ingest file with mode %o after a kill before call %d", obs.tmpModes[i], k), k)
			}
			if !strings.HasPrefix(string(newc), string(t)) {
				fail(id, "crash-temp-content", "ingest file is not a prefix of the new document", k)
			}
		}
		// the store still opens and answers from the old or the new document
		if fs2, err := credentials.NewFileStore(d.path); err != nil {
			fail(id, "crash-unloadable", fmt.Sprintf("after a kill before call %d the config does not load: %v", k, err), k)
		} else if cc.Op.Op == "P" && !strings.Contains(cc.Op.U, ":") {
			c, err := fs2.Get(ctx, cc.Op.Addr)
			isNew := obs.cfgThere && string(obs.cfgData) == string(newc)
			if isNew && (err != nil || c != cc.Op.cred()) {
				fail(id, "crash-roundtrip", fmt.Sprintf("new file present but Get = %v %v", c, err), k)
			}
		}
		os.RemoveAll(d.base)
	}
}

// runIOErrors: the same window, but instead of killing the process the k-th system
// call FAILS (EIO / ENOSPC).  I/O errors are outside the property's quantifier and
// not modelled; what is checked (oracle only) is "never damages the config file":
// an operation that reports an error leaves the complete old file and no ingest
// file behind; one that reports success has written the complete new file.
func runIOErrors(cc crashCase, rec *crashkit.Trace, win []int, oldc, newc []byte, dirExisted bool, label map[int]string, dm string, nchain int, chunks []string, oldTok string, oldMode int) {
	for k := 0; k < len(win); k++ {
		name := rec.Calls[win[k]].Name
		switch name {
		case "openat", "mkdirat", "mkdir", "fchmod", "write", "close", "renameat", "rename", "renameat2", "newfstatat":
		default:
			continue // failures of fcntl/epoll_ctl are runtime-internal
		}
		id := run.NewID()
		d := cc.prepare()
		errno := "EIO"
		if name == "write" || name == "mkdirat" || name == "openat" {
			errno = "ENOSPC"
		}
		res, err := crashkit.FailAt(cc.cmd(d), rec, win[k], errno)
		if err != nil || !res.Aligned {
			run.Count("ioerr:unaligned")
			os.RemoveAll(d.base)
			continue
		}
		run.Evaluations++
		run.Count("ioerr:injected-" + name)
		obs := observeDir(d, dirExisted)
		c2 := cc
		c2.K = k
		c2.Kind = "KE"
		fail := func(sig, msg string) { run.OracleFail(id, sig, msg, c2) }
		failed := res.Exit == 5 || res.Exit == 6
		// ---- correspondence with the model's error paths (failed_save_steps) ----
		if res.Exit == 0 || failed {
			mk, wr := 0, 0
			for _, i := range win[:k] {
				if label[i] == "mkdir" {
					mk++
				}
				if strings.HasPrefix(label[i], "write:") {
					wr++
				}
			}
			phase, j := "OK", 0
			if failed {
				switch l := label[win[k]]; {
				case l == "creat":
					phase = "CREATE"
				case l == "chmod":
					phase = "CHMOD"
				case strings.HasPrefix(l, "write:"):
					phase, j = "WRITE", wr
				case l == "close":
					phase = "CLOSE"
				case l == "rename":
					phase = "RENAME"
				default: // a mkdir, or a stat inside MkdirAll
					phase, j = "MKDIR", mk
				}
			}
			run.Case(id, fmt.Sprintf("KE %s %s %d %s %d %d %s", dm, oldTok, oldMode, phase, j, len(chunks), strings.Join(chunks, " ")),
				fmt.Sprintf("DIR %s CFG %s TMP %s", obs.dirMode, obs.cfg, obs.tmp))
			run.Count("ioerr:model-judged-" + phase)
			run.Evaluations--
		}
		if res.Exit == 6 {
			fail("ioerr-failed-op-visible", fmt.Sprintf("%s failing with %s made %s(%q) return an error, yet Get on the same store no longer answers as before: the failed operation stays in memory (and reaches the file with the next save)", name, errno, cc.Op.Op, cc.Op.Addr))
		}
		switch {
		case res.Exit != 0 && res.Exit != 5 && res.Exit != 6:
			run.Count("ioerr:child-other-exit")
		case failed:
			run.Count("ioerr:operation-failed")
			if cc.Init != nil && (!obs.cfgThere || string(obs.cfgData) != string(oldc)) {
				fail("ioerr-damaged", fmt.Sprintf("%s failing with %s made the operation fail, but the config file is no longer the old document", name, errno))
			}
			if cc.Init == nil && obs.cfgThere && string(obs.cfgData) != string(newc) {
				fail("ioerr-damaged", fmt.Sprintf("%s failing with %s made the operation fail and left a partial config file", name, errno))
			}
			if len(obs.tmps) > 0 {
				fail("ioerr-temp-left", fmt.Sprintf("%s failing with %s made the operation fail and an ingest file (with the secrets) stays behind", name, errno))
			}
		default:
			run.Count("ioerr:operation-succeeded")
			if !obs.cfgThere || string(obs.cfgData) != string(newc) || obs.cfgMode != 0o600 {
				fail("ioerr-damaged", fmt.Sprintf("the operation reported success although %s failed with %s, and the config is not the complete new 0600 file", name, errno))
			}
		}
		os.RemoveAll(d.base)
	}
}

func runPlain(c crashkit.Cmd) error {
	p, err := os.StartProcess(c.Path, append([]string{c.Path}, c.Args...), &os.ProcAttr{Env: c.Env, Dir: c.Dir,
		Files: []*os.File{nil, nil, nil}})
	if err != nil {
		return err
	}
	st, err := p.Wait()
	if err != nil {
		return err
	}
	if !st.Success() {
		return fmt.Errorf("child: %v", st)
	}
	return nil
}

func genCrash(r *common.Rand) crashCase {
	hc := genHistory(r, 1)
	cc := crashCase{Kind: "K", K: -1}
	cc.Init, cc.Mode, cc.SubDir, cc.Depth, cc.Symlink = hc.Init, hc.Mode, hc.SubDir, hc.Depth, hc.Symlink
	cc.Op = opx{Op: "P", Addr: genAddr(r), U: strings.ReplaceAll(genPart(r), ":", ""), P: genPart(r), R: genPart(r)}
	if cc.Init != nil && r.Intn(3) == 0 {
		if d, ok := parseJSON([]byte(*cc.Init)); ok {
			if a := d.get("auths"); a != nil && a.k == jObj && len(a.obj) > 0 {
				cc.Op = opx{Op: "D", Addr: a.obj[r.Intn(len(a.obj))].key}
			}
		}
	}
	return cc
}
