// C18 harness: the credentials FileStore (registry/remote/credentials).
//
// Case kinds: H sequential history on a generated pre-existing config document,
// K process crash (SIGKILL by strace injection) at every system-call boundary of
// one save, S concurrent callers on one store.  For each case the harness writes
// the model input (cases.txt), the implementation's projected observable
// (impl.txt) and direct oracle failures (oracle.txt).
package main

import (
	"syscall"
	_ "crypto/sha256"
	_ "crypto/sha512"
	"encoding/json"
	"fmt"
	"os"
	"strings"

	"verifharness/common"
)

var run *common.Run

var hostPool = []string{
	"registry.example.com", "localhost:5000", "ghcr.io", "index.docker.io", "a", "10.0.0.1:443",
	"régistry.example", "注册.example", "[::1]:5000", "reg.example.com:5000",
}

func genAddr(r *common.Rand) string {
	h := common.Pick(r, hostPool)
	switch r.Intn(14) {
	case 0:
		return "https://" + h + "/"
	case 1:
		return "http://" + h + "/v1/"
	case 2:
		return "https://" + h + "/v1/"
	case 3:
		return "https://" + h
	case 4:
		return "http://https://" + h
	case 5:
		return h + "/path"
	case 6:
		return common.Pick(r, []string{"", "/", "https://", "http:", "<&>", "a\"b", "a\\b", "sp ace", " x"})
	}
	return h
}

var partPool = []string{
	"", "", "user", "alice", "pa:ss", ":", "::", "p@ß", "密码", "a b", "x\"y", "back\\slash",
	"<tok&en>", "line\nbreak", "tab\there", " ", "\U0001F511key", "eyJhbGciOiJSUzI1NiJ9.e30.c2ln", "=", "dXNlcjpwYXNz",
	strings.Repeat("long", 40), "\u0001ctl", "trailing:", ":leading", "é",
	"nul\x00byte", "ls\u2028ps\u2029", "del\x7f", "\ufffd", "\U0010ffff",
}

func genPart(r *common.Rand) string {
	if r.Intn(10) == 0 {
		n := r.Intn(12)
		var b strings.Builder
		for i := 0; i < n; i++ {
			b.WriteRune(common.Pick(r, []rune{'a', 'Z', '0', ':', ' ', '"', '\\', '/', '<', 'é', '中', '\n', '='}))
		}
		return b.String()
	}
	return common.Pick(r, partPool)
}

// lone returns s with a lone UTF-16 surrogate (generalized 3-byte form: in a document it is
// rendered as the escape \udXXX) inserted.
func lone(r *common.Rand, s string) string {
	sur := common.Pick(r, []string{"\xed\xa0\x80", "\xed\xb0\x80", "\xed\xaf\xbf", "\xed\xbf\xbf"})
	i := 0
	if len(s) > 0 {
		i = r.Intn(len(s) + 1)
		for i < len(s) && s[i]&0xC0 == 0x80 {
			i++
		}
	}
	return s[:i] + sur + s[i:]
}

// invalidUTF8 returns s made invalid as UTF-8 (a Go string a caller can pass).
func invalidUTF8(r *common.Rand, s string) string {
	return s + common.Pick(r, []string{"\xff", "\xc0\x80", "\xed\xa0\x80", "\x80", "\xf4\x90\x80\x80", "\xe2\x82"}) + common.Pick(r, []string{"", "z"})
}

func genUser(r *common.Rand) string {
	s := genPart(r)
	if strings.Contains(s, ":") && r.Intn(4) != 0 {
		s = strings.ReplaceAll(s, ":", "")
	}
	return s
}

func genValue(r *common.Rand, depth int) *jv {
	n := 9
	if depth > 2 {
		n = 6
	}
	switch r.Intn(n) {
	case 0:
		return jnull()
	case 1:
		return &jv{k: jBool, b: r.Bool()}
	case 2, 3:
		return &jv{k: jNum, s: common.Pick(r, []string{"0", "-1", "1.0", "1e3", "1E+2", "123456789012345678901234567890", "0.10", "-0", "3.141592653589793238462643383279", "1.5e-7", "9007199254740993"})}
	case 4, 5:
		return jstr(genPart(r))
	case 6:
		v := &jv{k: jArr}
		for i := r.Intn(4); i > 0; i-- {
			v.arr = append(v.arr, genValue(r, depth+1))
		}
		return v
	default:
		v := &jv{k: jObj}
		for i := r.Intn(4); i > 0; i-- {
			v.set(common.Pick(r, []string{"k", "key2", "Auth", "x<y", "ü", "nested", "", "a.b", "auths"}), genValue(r, depth+1))
		}
		return v
	}
}

func b64(s string) string { return stdB64(s) }

func genEntry(r *common.Rand) *jv {
	e := &jv{k: jObj}
	switch r.Intn(16) {
	case 0:
		return jnull()
	case 1:
		return genValue(r, 2) // any JSON value
	case 2: // legacy username/password
		e.set("username", jstr(genPart(r)))
		e.set("password", jstr(genPart(r)))
		if r.Bool() {
			e.set("auth", jstr(b64(genUser(r)+":"+genPart(r))))
		}
		return e
	case 3: // malformed auth
		e.set("auth", jstr(common.Pick(r, []string{"!!!!", "dXNlcg==", "dXNlcjpwYXNz=", "dXNlcjpw YXNz", "dXNl\ncjpwYXNz", "dXNlcjpwYXN", "dQ", "====", "dXNlcjpwYXNz\r\n", "dXN=cjpw", "dXNlcjpwYQ==", "dXNlcjpwYR==", "dX-lcjpw"})))
		return e
	case 6: // field names that match only under Unicode case folding (U+017F long s, U+212A Kelvin sign) or ASCII case
		e.set(common.Pick(r, []string{"pa\u017f\u017fword", "u\u017fername", "identityto\u212aen", "regi\u017ftryto\u212aen", "AUTH", "Identitytoken", "PASSWORD", "Username"}),
			common.Pick(r, []*jv{jstr("folded"), jstr(b64("f:g")), jnull(), {k: jNum, s: "1"}}))
		if r.Bool() {
			e.set("auth", jstr(b64("u:p")))
		}
		run.Count("doc:folded-field-name")
		return e
	case 4: // wrong-typed field
		e.set(common.Pick(r, authFields), genValue(r, 3))
		e.set("auth", jstr(b64("u:p")))
		return e
	case 5: // explicit empties / nulls
		e.set("auth", common.Pick(r, []*jv{jstr(""), jnull()}))
		e.set("identitytoken", common.Pick(r, []*jv{jstr(""), jnull(), jstr("tok")}))
		return e
	}
	if r.Intn(5) != 0 {
		e.set("auth", jstr(b64(genUser(r)+":"+genPart(r))))
	}
	if r.Intn(3) == 0 {
		e.set("identitytoken", jstr(genPart(r)))
	}
	if r.Intn(4) == 0 {
		e.set("registrytoken", jstr(genPart(r)))
	}
	if r.Intn(3) == 0 { // fields this library does not know
		e.set(common.Pick(r, []string{"email", "serveraddress", "x-unknown", "extra"}), genValue(r, 2))
	}
	return e
}

func genDoc(r *common.Rand, addrs []string) *jv {
	d := &jv{k: jObj}
	if r.Intn(8) != 0 {
		a := &jv{k: jObj}
		for i := r.Intn(5); i > 0; i-- {
			a.set(common.Pick(r, addrs), genEntry(r))
		}
		d.set("auths", a)
	} else if r.Bool() {
		d.set("auths", jnull())
	}
	switch r.Intn(8) {
	case 0:
		d.set("credsStore", jstr(common.Pick(r, []string{"desktop", "osxkeychain", "pass", "we\"ird", "über"})))
	case 1:
		d.set("credsStore", jstr(""))
	case 2:
		d.set("credsStore", jnull())
	}
	if r.Intn(4) == 0 {
		h := &jv{k: jObj}
		for i := r.Intn(3); i > 0; i-- {
			if r.Intn(4) == 0 {
				h.set(common.Pick(r, addrs), jnull()) // accepted by Load: a null member of a map[string]string
				run.Count("doc:credHelpers-null-member")
			} else {
				h.set(common.Pick(r, addrs), jstr(common.Pick(r, []string{"ecr-login", "gcloud", ""})))
			}
		}
		d.set("credHelpers", h)
	}
	for i := r.Intn(5); i > 0; i-- {
		k := common.Pick(r, []string{"HttpHeaders", "psFormat", "detachKeys", "experimental", "proxies", "currentContext",
			"plugins", "Auths", "aliases", "x", "äö", "<html>", "", "features", "cliPluginsExtraDirs"})
		d.set(k, genValue(r, 0))
	}
	// lone surrogate escapes (grammar-valid JSON that encoding/json reads lossily)
	if r.Intn(12) == 0 {
		run.Count("doc:lone-surrogate")
		switch r.Intn(5) {
		case 0:
			d.set(lone(r, "key"), genValue(r, 1))
		case 1:
			d.set("credsStore", jstr(lone(r, "desk")))
		case 2:
			if a := d.get("auths"); a != nil && a.k == jObj {
				a.set(lone(r, common.Pick(r, addrs)), genEntry(r))
			}
		case 3:
			if a := d.get("auths"); a != nil && a.k == jObj {
				e := &jv{k: jObj}
				e.set("auth", jstr(b64("u:p")))
				e.set("identitytoken", jstr(lone(r, "tok")))
				a.set(common.Pick(r, addrs), e)
			}
		default:
			v := &jv{k: jObj}
			v.set(lone(r, "n"), jstr(lone(r, "v")))
			d.set("nested", v)
		}
	}
	// rare: documents Load must refuse
	switch r.Intn(60) {
	case 0:
		d.set("credsStore", genValue(r, 3))
	case 1:
		d.set("credHelpers", common.Pick(r, []*jv{{k: jNum, s: "1"}, {k: jArr}, {k: jObj, obj: []jkv{{"h", &jv{k: jNum, s: "2"}}}}, jstr("s")}))
	case 2:
		d.set("auths", common.Pick(r, []*jv{{k: jNum, s: "1"}, {k: jArr}, jstr("s"), {k: jBool, b: true}}))
	}
	return d
}

func genHistory(r *common.Rand, nops int) histCase {
	// a small address universe per history so that operations collide
	var addrs []string
	for i := 2 + r.Intn(4); i > 0; i-- {
		addrs = append(addrs, genAddr(r))
	}
	if r.Bool() { // a host together with its legacy spellings
		h := common.Pick(r, hostPool)
		addrs = append(addrs, h, "https://"+h+"/", "http://"+h+"/v1/")
	}
	hc := histCase{Kind: "H", SubDir: r.Intn(3) == 0}
	if hc.SubDir {
		hc.Depth = 1 + r.Intn(3)
	}
	if r.Intn(40) == 0 {
		// not one well-formed document: encoding/json's Decoder is lenient about some of these
		t := common.Pick(r, []string{"{} xyz", "{\"a\":1,\"a\":2}", "\ufeff{}", "", " ", "{}{}", "{\"auths\":{}}\n]", "{\"auths\":{\"h\":{\"auth\":\"dTpw\"},\"h\":{}}}",
			"{\"k\":1,}", "{'k':1}", "{\"k\":01}", "{\"auths\":{}} {\"auths\":{\"x\":{}}}", "// c\n{}"})
		hc.Init = &t
		hc.Mode = 0o600
	} else if r.Intn(40) == 0 {
		// valid JSON documents that are not objects
		t := common.Pick(r, []string{"null", "null\n", " null", "[]", "0", "\"s\"", "true", "[{}]"})
		hc.Init = &t
		hc.Mode = 0o600
	} else if r.Intn(7) != 0 {
		t := genDoc(r, addrs).text(r)
		hc.Init = &t
		hc.Mode = common.Pick(r, []uint32{0o644, 0o600, 0o640, 0o666, 0o664})
	}
	if hc.Init != nil && r.Intn(6) == 0 {
		hc.Symlink = true
	}
	if r.Intn(12) == 0 {
		hc.DisablePut = true
	}
	for i := 0; i < nops; i++ {
		a := common.Pick(r, addrs)
		if r.Intn(25) == 0 {
			// the fourth saving operation: Config.SetCredentialsStore (DynamicStore.Put calls it)
			hc.Ops = append(hc.Ops, opx{Op: "C", Addr: common.Pick(r, []string{"desktop", "osxkeychain", "", "pass", "secretservice", "wincred", "über"})})
			run.Count("op:set-creds-store")
			continue
		}
		switch r.Intn(10) {
		case 0, 1, 2, 3:
			o := opx{Op: "P", Addr: a, U: genUser(r), P: genPart(r)}
			if r.Intn(3) == 0 {
				o.R = genPart(r)
			}
			if r.Intn(4) == 0 {
				o.A = genPart(r)
			}
			if r.Intn(12) == 0 { // strings that are not valid UTF-8
				switch r.Intn(5) {
				case 0:
					o.Addr = invalidUTF8(r, o.Addr)
				case 1:
					o.R = invalidUTF8(r, o.R)
				case 2:
					o.A = invalidUTF8(r, o.A)
				case 3:
					o.P = invalidUTF8(r, o.P) // travels base64-encoded: must round trip
				default:
					o.U = invalidUTF8(r, o.U)
				}
			}
			hc.Ops = append(hc.Ops, o)
			if r.Intn(3) != 0 && i+1 < nops {
				hc.Ops = append(hc.Ops, opx{Op: "G", Addr: o.Addr})
				i++
			}
		case 4, 5:
			hc.Ops = append(hc.Ops, opx{Op: "D", Addr: a})
			if r.Bool() && i+1 < nops {
				hc.Ops = append(hc.Ops, opx{Op: "G", Addr: a})
				i++
			}
		default:
			if r.Intn(4) == 0 {
				a = toHostnameOracle(a)
			}
			hc.Ops = append(hc.Ops, opx{Op: "G", Addr: a})
		}
	}
	return hc
}

func main() {
	if os.Getenv("C18_CHILD") != "" {
		childMain()
		return
	}
	if os.Getenv("C18_CONCCHILD") != "" {
		concChildMain()
		return
	}
	syscall.Umask(0o022) // the exact modes 0600/0700 are asserted: do not depend on the caller's umask
	run = common.Start("C18")
	defer func() {
		bad := checkFloors()
		run.Finish()
		if len(bad) > 0 {
			// a run that did not exercise what it claims to exercise must not pass silently (layer R)
			fmt.Fprintln(os.Stderr, "COVERAGE FLOOR NOT MET: "+strings.Join(bad, "; "))
			os.Exit(3)
		}
	}()
	run.Rule = "H: generated docker config documents (unknown nested keys, big numbers, legacy/malformed/unknown-field auth entries, " +
		"refused documents) x 10-op Put/Get/Delete histories over colliding address forms and credentials with empty parts, colons, " +
		"non-ASCII, JSON/HTML-special characters; K: SIGKILL before every system call of a save; S: concurrent callers. " +
		"distinct = distinct (document, history); non-trivial = a stored credential was read back or an existing entry deleted, " +
		"a crash point inside the save window, or a concurrent run with at least one write"

	if run.Replay != "" {
		for _, c := range common.ReadReplay(run.Replay) {
			replayCase(c)
		}
		return
	}
	r := run.Rand
	// fixed seeds of interest
	for _, hc := range fixedHistories() {
		runHistory(hc)
	}
	legacyStream(r, run.Scale(60, 3000))
	modeStream(r, run.Scale(1, 40))
	plainStream(r, run.Scale(60, 5000))
	for i := run.Scale(200, 4000); i > 0; i-- {
		runDynamic(genDynamic(r))
	}
	n := run.Scale(600, 40000)
	for i := 0; i < n; i++ {
		runHistory(genHistory(r, 10))
	}
	runExtra(r)
}

func replayCase(c map[string]string) {
	if _, raw := c["raw"]; raw {
		return // a model-input line that cannot be turned back into a case
	}
	switch c["kind"] {
	case "H", "":
		var hc histCase
		hc.Kind = "H"
		if v, ok := c["init"]; ok && v != "null" {
			s := v
			hc.Init = &s
		}
		fmt.Sscanf(c["mode"], "%d", &hc.Mode)
		hc.SubDir = c["subdir"] == "true"
		fmt.Sscanf(c["depth"], "%d", &hc.Depth)
		hc.Symlink = c["symlink"] == "true"
		hc.DisablePut = c["disable_put"] == "true"
		if err := json.Unmarshal([]byte(c["ops"]), &hc.Ops); err != nil {
			fmt.Fprintln(os.Stderr, "bad replay ops:", err)
			os.Exit(2)
		}
		runHistory(hc)
	default:
		replayExtra(c)
	}
}

func fixedHistories() []histCase {
	legacy := `{"auths":{"https://registry.example.com/":{"auth":"dXNlcjpwYXNz","email":"x@y"},"http://registry.example.com/v1/":{"username":"u","password":"p"}},"credsStore":"","HttpHeaders":{"User-Agent":"x<y>"},"big":123456789012345678901234567890}`
	return []histCase{
		{Kind: "H", Init: &legacy, Mode: 0o644, Ops: []opx{{Op: "G", Addr: "registry.example.com"}, {Op: "P", Addr: "registry.example.com", U: "u", P: "p:q"},
			{Op: "G", Addr: "registry.example.com"}, {Op: "D", Addr: "registry.example.com"}, {Op: "G", Addr: "registry.example.com"}}},
		{Kind: "H", SubDir: true, Ops: []opx{{Op: "D", Addr: "a"}, {Op: "P", Addr: "a", U: "", P: "", R: "rt"}, {Op: "G", Addr: "a"}, {Op: "P", Addr: "a", U: "x:y", P: "p"}, {Op: "G", Addr: "a"}}},
	}
}

// checkFloors: minimum coverage of a generated (non-replay) run.
func checkFloors() []string {
	if run.Replay != "" || wedged > 0 {
		return nil // a wedged run has reported oracle failures and stopped early
	}
	var bad []string
	need := func(key string, min int) {
		if run.Dist[key] < min {
			bad = append(bad, fmt.Sprintf("%s = %d (< %d)", key, run.Dist[key], min))
		}
	}
	if run.Dist["crash:strace-unavailable"] > 0 {
		bad = append(bad, "strace fault injection is unavailable: no crash point and no controlled schedule was run")
	}
	need("crash:judged-kills", run.Scale(60, 600))
	need("ioerr:operation-failed", run.Scale(15, 150))
	need("conc:controlled-overlap-verified", run.Scale(4, 30))
	need("conc:free-cases-judged", run.Scale(250, 15000))
	need("conc:race-detector-cases", run.Scale(250, 15000))
	need("conc:dynamic-store", run.Scale(80, 1500))
	need("stream:legacy-get", run.Scale(60, 3000))
	need("stream:plain-vs-memory", run.Scale(60, 5000))
	need("ref:memory-store", run.Scale(60, 4500))
	need("init:doc", run.Scale(400, 28000))
	need("put:entry-bytes-compared", run.Scale(800, 60000))
	need("file-bytes:histories-compared", run.Scale(500, 32000))
	need("file-bytes:read-by-model", run.Scale(500, 32000))
	need("init:unparseable-but-loaded", run.Scale(2, 100))
	need("init:symlinked-path", run.Scale(20, 2000))
	need("store:disable-put", run.Scale(10, 1000))
	need("dynamic:histories", run.Scale(150, 3000))
	need("dynamic:native-routed", run.Scale(30, 600))
	need("dynamic:put-to-file", run.Scale(100, 2000))
	need("op:set-creds-store", run.Scale(50, 5000))
	need("codec:decode", run.Scale(1000, 100000))
	need("codec:json-string", run.Scale(2500, 75000))
	need("doc:lone-surrogate", run.Scale(10, 500))
	need("doc:folded-field-name", run.Scale(30, 1500))
	need("put:invalid-utf8", run.Scale(10, 500))
	if run.Dist["crash:unaligned"]*4 > run.Dist["crash:judged-kills"] {
		bad = append(bad, fmt.Sprintf("crash:unaligned = %d: more than a quarter of the kills missed their system call", run.Dist["crash:unaligned"]))
	}
	if run.Dist["crash:reference-run-failed"]+run.Dist["crash:record-failed"]+run.Dist["crash:no-window"] > run.Scale(2, 20) {
		bad = append(bad, "too many crash scenarios could not be set up")
	}
	if run.Dist["unjudged:case-variant-field"]*10 > run.Dist["init:doc"] {
		bad = append(bad, "more than 10% of the histories were not judged by the model")
	}
	return bad
}
