// C10 harness: a process crash never leaves an OCI layout unreadable, corrupt or
// half-updated.
//
// For every generated script (content universe + history of completed
// operations + one final operation) the harness
//
//  1. runs a child process (this binary, `child` mode) under strace and records
//     the file-system system calls of the final operation (the window between
//     two marker calls);
//  2. compares the window, projected to mutating calls, with the model's
//     micro-step list (case S) and the operation results with the model (case R);
//  3. for every system call k of the window re-runs the child in a fresh
//     directory and kills it at the entry of that call (strace inject, SIGKILL),
//     compares the directory with the model's file system after the
//     corresponding number of micro-steps (case K) and
//  4. evaluates the property itself on the killed directory with the real
//     oci.New and the harness' own readers, against the generator's ground
//     truth (a ten-line simulator of blob set and tag map): the oracle.
//
// AutoGC is off (plain Delete) and GC is not scripted: defects of
// Delete-with-AutoGC / GC belong to C08/C09.
package main

import (
	"context"
	_ "crypto/sha256"
	_ "crypto/sha512"
	"encoding/json"
	"fmt"
	"os"
	"path/filepath"
	"sort"
	"strconv"
	"strings"
	"sync"

	"oras.land/oras-go/v2/content/oci"
	"verifharness/common"
	ck "verifharness/crashkit10"
)

func init() { ck.LockMainThread() }

var run *common.Run
var exe string
var work string

const (
	mtLayer    = "application/vnd.oci.image.layer.v1.tar"
	mtConfig   = "application/vnd.oci.image.config.v1+json"
	mtManifest = "application/vnd.oci.image.manifest.v1+json"
)

// ---------- ground truth: the generator's own simulator ----------

type sim struct {
	blobs map[int]bool
	tags  map[int]int // ref -> blob
}

func newSim() *sim { return &sim{blobs: map[int]bool{}, tags: map[int]int{}} }

func (s *sim) clone() *sim {
	c := newSim()
	for k, v := range s.blobs {
		c.blobs[k] = v
	}
	for k, v := range s.tags {
		c.tags[k] = v
	}
	return c
}

func (s *sim) apply(o ck.Op) {
	switch o.Kind {
	case "push":
		s.blobs[o.Blob] = true
	case "tag":
		if s.blobs[o.Blob] {
			s.tags[o.Ref] = o.Blob
		}
	case "untag":
		delete(s.tags, o.Ref)
	case "delete":
		if s.blobs[o.Blob] {
			delete(s.blobs, o.Blob)
			for r, b := range s.tags {
				if b == o.Blob {
					delete(s.tags, r)
				}
			}
		}
	}
}

func (s *sim) tagString(sc *ck.Script) string {
	var xs []string
	for r, b := range s.tags {
		xs = append(xs, ck.RefName(r)+"="+sc.Blob(b).Digest())
	}
	sort.Strings(xs)
	return strings.Join(xs, ",")
}

// ---------- generator ----------

func manifestJSON(config *ck.Blob, layers []*ck.Blob, salt int) string {
	type d struct {
		MediaType string `json:"mediaType"`
		Digest    string `json:"digest"`
		Size      int    `json:"size"`
	}
	desc := func(b *ck.Blob) d { return d{b.MediaType, b.Digest(), len(b.Content())} }
	m := struct {
		SchemaVersion int               `json:"schemaVersion"`
		MediaType     string            `json:"mediaType"`
		Config        d                 `json:"config"`
		Layers        []d               `json:"layers"`
		Annotations   map[string]string `json:"annotations,omitempty"`
	}{2, mtManifest, desc(config), []d{}, map[string]string{"salt": strconv.Itoa(salt)}}
	for _, l := range layers {
		m.Layers = append(m.Layers, desc(l))
	}
	js, _ := json.Marshal(m)
	return string(js)
}

func universe(r *common.Rand, big bool) []ck.Blob {
	bs := []ck.Blob{
		{ID: 1, Kind: "raw", Size: 1 + r.Intn(300), Fill: r.U64() >> 12, MediaType: mtLayer},
		{ID: 2, Kind: "raw", Size: 33000 + r.Intn(70000), Fill: r.U64() >> 12, MediaType: mtLayer},
		{ID: 3, Kind: "raw", Size: 2 + r.Intn(40), Fill: r.U64() >> 12, MediaType: mtConfig},
	}
	if big {
		bs[1].Size = 1<<20 + r.Intn(1<<21)
	}
	if r.Chance(1, 3) {
		bs[0].Size = 0 // the empty blob: no write at all
	}
	salt := r.Intn(1 << 30)
	bs = append(bs,
		ck.Blob{ID: 4, Kind: "manifest", MediaType: mtManifest, JSON: manifestJSON(&bs[2], []*ck.Blob{&bs[0]}, salt)},
		ck.Blob{ID: 5, Kind: "manifest", MediaType: mtManifest, JSON: manifestJSON(&bs[2], []*ck.Blob{&bs[0], &bs[1]}, salt+1)},
		ck.Blob{ID: 6, Kind: "manifest", MediaType: mtManifest, JSON: manifestJSON(&bs[2], nil, salt+2)},
	)
	return bs
}

var rawIDs = []int{1, 2, 3}
var manIDs = []int{4, 5, 6}
var allIDs = []int{1, 2, 3, 4, 5, 6}

func randomOp(r *common.Rand, s *sim, sc *ck.Script) ck.Op {
	present := func(ids []int, want bool) []int {
		var out []int
		for _, id := range ids {
			if s.blobs[id] == want {
				out = append(out, id)
			}
		}
		return out
	}
	refs := func() []int {
		var out []int
		for k := range s.tags {
			out = append(out, k)
		}
		sort.Ints(out)
		return out
	}
	for {
		switch x := r.Intn(100); {
		case x < 40:
			if c := present(allIDs, false); len(c) > 0 {
				return ck.Op{Kind: "push", Blob: common.Pick(r, c)}
			}
		case x < 60:
			if c := present(allIDs, true); len(c) > 0 {
				b := common.Pick(r, c)
				if r.Chance(3, 4) {
					if m := present(manIDs, true); len(m) > 0 {
						b = common.Pick(r, m)
					}
				}
				return ck.Op{Kind: "tag", Blob: b, Ref: 1 + r.Intn(4)}
			}
		case x < 68:
			if c := refs(); len(c) > 0 {
				return ck.Op{Kind: "untag", Ref: common.Pick(r, c)}
			}
		case x < 80:
			if c := present(allIDs, true); len(c) > 0 {
				return ck.Op{Kind: "delete", Blob: common.Pick(r, c)}
			}
		case x < 85:
			if c := present(allIDs, false); len(c) > 0 {
				id := common.Pick(r, c)
				if len(sc.Blob(id).Content()) == 0 {
					// the empty content has no corrupted variant
					return ck.Op{Kind: "push", Blob: id}
				}
				return ck.Op{Kind: "pushbad", Blob: id}
			}
		case x < 90:
			return ck.Op{Kind: "saveindex"}
		default: // arbitrary arguments: error paths
			switch r.Intn(4) {
			case 0:
				return ck.Op{Kind: "push", Blob: common.Pick(r, allIDs)}
			case 1:
				return ck.Op{Kind: "tag", Blob: common.Pick(r, allIDs), Ref: 1 + r.Intn(4)}
			case 2:
				return ck.Op{Kind: "untag", Ref: 1 + r.Intn(5)}
			default:
				return ck.Op{Kind: "delete", Blob: common.Pick(r, allIDs)}
			}
		}
	}
}

// finalKinds: the interrupted operation, by situation.
var finalKinds = []string{
	"push-raw", "push-raw-multi", "push-manifest", "pushbad", "push-present",
	"tag-new", "tag-move", "tag-raw", "tag-missing",
	"untag", "untag-missing",
	"delete-tagged", "delete-digest-only", "delete-raw", "delete-missing",
	"saveindex",
}

// realize extends the history so that the situation exists and returns the final op.
func realize(r *common.Rand, kind string, s *sim, hist *[]ck.Op) ck.Op {
	do := func(o ck.Op) { *hist = append(*hist, o); s.apply(o) }
	ensure := func(id int, present bool) {
		if s.blobs[id] != present {
			if present {
				do(ck.Op{Kind: "push", Blob: id})
			} else {
				do(ck.Op{Kind: "delete", Blob: id})
			}
		}
	}
	man := common.Pick(r, manIDs)
	switch kind {
	case "push-raw":
		id := common.Pick(r, []int{1, 3})
		ensure(id, false)
		return ck.Op{Kind: "push", Blob: id}
	case "push-raw-multi":
		ensure(2, false)
		return ck.Op{Kind: "push", Blob: 2}
	case "push-manifest":
		ensure(man, false)
		return ck.Op{Kind: "push", Blob: man}
	case "pushbad":
		id := common.Pick(r, []int{2, 3, man})
		ensure(id, false)
		return ck.Op{Kind: "pushbad", Blob: id}
	case "push-present":
		id := common.Pick(r, allIDs)
		ensure(id, true)
		return ck.Op{Kind: "push", Blob: id}
	case "tag-new":
		ensure(man, true)
		return ck.Op{Kind: "tag", Blob: man, Ref: 7}
	case "tag-move":
		ensure(4, true)
		ensure(5, true)
		do(ck.Op{Kind: "tag", Blob: 4, Ref: 2})
		return ck.Op{Kind: "tag", Blob: 5, Ref: 2}
	case "tag-raw":
		ensure(1, true)
		return ck.Op{Kind: "tag", Blob: 1, Ref: 3}
	case "tag-missing":
		ensure(man, false)
		return ck.Op{Kind: "tag", Blob: man, Ref: 1}
	case "untag":
		ensure(man, true)
		do(ck.Op{Kind: "tag", Blob: man, Ref: 4})
		return ck.Op{Kind: "untag", Ref: 4}
	case "untag-missing":
		return ck.Op{Kind: "untag", Ref: 9}
	case "delete-tagged":
		ensure(man, true)
		do(ck.Op{Kind: "tag", Blob: man, Ref: 1})
		if r.Bool() {
			do(ck.Op{Kind: "tag", Blob: man, Ref: 2})
		}
		return ck.Op{Kind: "delete", Blob: man}
	case "delete-digest-only":
		ensure(man, false)
		do(ck.Op{Kind: "push", Blob: man})
		return ck.Op{Kind: "delete", Blob: man}
	case "delete-raw":
		id := common.Pick(r, []int{2, 3})
		ensure(id, true)
		// a raw blob is in the index only if somebody tagged it
		for rf, b := range s.tags {
			if b == id {
				do(ck.Op{Kind: "untag", Ref: rf})
			}
		}
		return ck.Op{Kind: "delete", Blob: id}
	case "delete-missing":
		id := common.Pick(r, allIDs)
		ensure(id, false)
		return ck.Op{Kind: "delete", Blob: id}
	}
	return ck.Op{Kind: "saveindex"}
}

// ---------- one script ----------

type outcome struct {
	k        int // window index the child was killed at (-1: not killed)
	j        int // model micro-steps completed
	state    string
	fails    []failure
	offByOne bool
	err      string
}

type failure struct{ sig, msg string }

func modelScript(sc *ck.Script, sizes map[int][]int64) string {
	var bl []string
	for _, b := range sc.Blobs {
		m := 0
		if b.IsManifest() {
			m = 1
		}
		n := len(sizes[b.ID]) // 0 when never ingested: the model never looks at it then
		bl = append(bl, fmt.Sprintf("%d:%d:%d", b.ID, n, m))
	}
	var hs []string
	for _, o := range sc.History {
		hs = append(hs, o.String())
	}
	return "blobs=" + strings.Join(bl, ",") + ";hist=" + strings.Join(hs, ",") + ";final=" + sc.Final.String()
}

var readOnlyCalls = map[string]bool{"fcntl": true, "newfstatat": true, "fstat": true, "statx": true, "read": true,
	"pread64": true, "lseek": true, "faccessat": true, "faccessat2": true, "access": true, "getdents64": true,
	"readlinkat": true, "stat": true, "lstat": true}

func stepsText(st []ck.Step) string {
	var xs []string
	for _, s := range st {
		xs = append(xs, s.Text)
	}
	return strings.Join(xs, " ")
}

func runScript(sc *ck.Script, before, after *sim, onlyK int, allK bool) {
	dir, err := os.MkdirTemp(work, "s")
	if err != nil {
		panic(err)
	}
	defer os.RemoveAll(dir)
	scriptPath := filepath.Join(dir, "script.json")
	if err := os.WriteFile(scriptPath, []byte(sc.JSON()), 0o644); err != nil {
		panic(err)
	}
	hexJSON := common.Hex(sc.JSON())
	rec := filepath.Join(dir, "rec")
	os.Mkdir(rec, 0o755)
	tr, err := ck.Run(exe, rec, scriptPath, dir, nil)
	if err != nil || !tr.HasBegin || !tr.HasEnd {
		panic(fmt.Sprintf("recording run failed: %v (script %s)", err, sc.JSON()))
	}
	nm := ck.NewNamer(rec, sc)
	sizes := nm.WriteSizes(tr.Events)
	enc := modelScript(sc, sizes)
	win := tr.Window()
	run.Count("final:" + sc.Final.Kind)
	run.Count(fmt.Sprintf("history-len:%d", len(sc.History)))
	run.Count(fmt.Sprintf("window-syscalls:%02d", (len(win)/10)*10))

	// R: results of every operation
	var results []string
	for _, l := range strings.Split(strings.TrimSpace(tr.Stdout), "\n") {
		f := strings.Fields(l)
		if len(f) >= 3 {
			results = append(results, f[2])
		}
	}
	run.Case(run.NewID(), "R "+enc+" "+hexJSON, "RES "+strings.Join(results, " "))
	for _, x := range results {
		run.Count("result:" + x)
	}
	// S: the script of the final operation
	steps := nm.Project(win, map[int64]string{})
	run.Case(run.NewID(), "S "+enc+" "+hexJSON, strings.TrimSpace("STEPS "+stepsText(steps)))
	run.TracesAgainstImpl++
	if len(steps) > 0 {
		run.Nontrivial("S " + sc.Final.String() + " " + stepsText(steps))
	}

	// the completed run: effects of everything that returned are present
	finalState := ck.ObserveDir(rec, sc, sizes)
	final := oracle(rec, sc, after, after)
	emit := func(o outcome) {
		id := run.NewID()
		rp := map[string]any{"script": sc, "k": o.k}
		if o.err != "" {
			panic("kill run failed: " + o.err + " script " + sc.JSON())
		}
		run.Case(id, fmt.Sprintf("K %d %s %d %s", o.j, enc, o.k, hexJSON), "STATE "+o.state)
		for _, f := range o.fails {
			run.OracleFail(id, f.sig, fmt.Sprintf("%s (final op %s killed before window system call %d, after %d micro-steps)", f.msg, sc.Final.String(), o.k, o.j), rp)
		}
		if o.offByOne {
			run.Count("kill-point-differs-from-request")
		}
		run.Count("kills")
	}
	emit(outcome{k: len(win), j: len(steps), state: finalState, fails: final})
	run.Sample(map[string]any{"final": sc.Final.String(), "history": len(sc.History), "window_syscalls": len(win), "micro_steps": stepsText(steps)})

	// kill points
	var ks []int
	for k := 0; k < len(win); k++ {
		if onlyK >= 0 && k != onlyK {
			continue
		}
		if !allK && onlyK < 0 && k > 0 && readOnlyCalls[win[k-1].Name] {
			continue // same disk state as the previous kill point
		}
		ks = append(ks, k)
	}
	outs := make([]outcome, len(ks))
	var wg sync.WaitGroup
	sem := make(chan struct{}, workers)
	for i, k := range ks {
		wg.Add(1)
		sem <- struct{}{}
		go func(i, k int) {
			defer wg.Done()
			defer func() { <-sem }()
			outs[i] = killAt(sc, scriptPath, dir, win, k, sizes, before, after)
		}(i, k)
	}
	wg.Wait()
	for _, o := range outs {
		emit(o)
		if o.j > 0 && o.j < len(steps) {
			run.Nontrivial(fmt.Sprintf("K %s %d", sc.Final.String(), o.j))
		}
	}
}

var workers = 4

func killAt(sc *ck.Script, scriptPath, dir string, win []ck.Event, k int, sizes map[int][]int64, before, after *sim) outcome {
	d, err := os.MkdirTemp(dir, "k")
	if err != nil {
		return outcome{err: err.Error()}
	}
	defer os.RemoveAll(d)
	root := filepath.Join(d, "root")
	os.Mkdir(root, 0o755)
	tr, err := ck.Run(exe, root, scriptPath, d, &ck.Inject{Name: win[k].Name, Ord: win[k].Ord})
	if err != nil {
		return outcome{err: err.Error()}
	}
	if !tr.Killed || !tr.HasBegin || tr.HasEnd {
		return outcome{err: fmt.Sprintf("child was not killed inside the window (k=%d %s#%d) stdout=%s", k, win[k].Name, win[k].Ord, tr.Stdout)}
	}
	nm := ck.NewNamer(root, sc)
	done := tr.Window()
	steps := nm.Project(done, map[int64]string{})
	o := outcome{k: len(done), j: len(steps), offByOne: len(done) != k}
	o.state = ck.ObserveDir(root, sc, sizes)
	o.fails = oracle(root, sc, before, after)
	return o
}

// ---------- the oracle: the property's statement on the real directory ----------

func oracle(root string, sc *ck.Script, before, after *sim) []failure {
	var fails []failure
	add := func(sig, f string, a ...any) { fails = append(fails, failure{sig, fmt.Sprintf(f, a...)}) }
	// every file under blobs is complete and matches its name
	names, bad := ck.BlobFiles(root)
	for _, b := range bad {
		add("blob-corrupt", "blobs/sha256/%s does not hash to its name", b)
	}
	byHex := map[string]int{}
	for _, b := range sc.Blobs {
		byHex[b.Hex()] = b.ID
	}
	onDisk := map[int]bool{}
	for _, n := range names {
		id, ok := byHex[n]
		if !ok {
			add("blob-unexpected", "blobs/sha256/%s is not a blob of the script", n)
			continue
		}
		onDisk[id] = true
		if !before.blobs[id] && !after.blobs[id] {
			add("blob-unexpected", "blob %d exists although it was neither present before nor after the interrupted operation", id)
		}
	}
	// effects of completed operations are present
	for id := range before.blobs {
		if after.blobs[id] && !onDisk[id] {
			add("completed-lost", "blob %d pushed by a completed operation is gone", id)
		}
	}
	// index.json parses and every entry names an existing blob
	idx, status := ck.ReadRawIndex(root)
	if status != "ok" {
		add("index-unreadable", "index.json is %s", status)
	} else {
		for _, m := range idx.Manifests {
			hexd := strings.TrimPrefix(m.Digest, "sha256:")
			fi, err := os.Stat(filepath.Join(root, "blobs", "sha256", hexd))
			if err != nil {
				add("index-dangling", "index.json entry %s names a missing blob", m.Digest)
			} else if fi.Size() != m.Size {
				add("index-dangling", "index.json entry %s has size %d, the blob %d", m.Digest, m.Size, fi.Size())
			}
		}
	}
	// the directory can be opened again, and the tag mapping is the one before or the one after
	st, err := oci.New(root)
	if err != nil {
		add("reopen-fails", "oci.New: %v", err)
		return fails
	}
	ctx := context.Background()
	var got []string
	err = st.Tags(ctx, "", func(tags []string) error {
		for _, t := range tags {
			d, err := st.Resolve(ctx, t)
			if err != nil {
				return fmt.Errorf("resolve %s: %w", t, err)
			}
			got = append(got, t+"="+d.Digest.String())
		}
		return nil
	})
	if err != nil {
		add("reopen-fails", "listing tags of the reopened store: %v", err)
		return fails
	}
	sort.Strings(got)
	g := strings.Join(got, ",")
	if g != before.tagString(sc) && g != after.tagString(sc) {
		add("tagmap-mixed", "tag mapping {%s} is neither the one before {%s} nor the one after {%s}", g, before.tagString(sc), after.tagString(sc))
	}
	for id := range before.blobs {
		if after.blobs[id] {
			ok, err := st.Exists(ctx, ck.Desc(sc.Blob(id)))
			if err != nil || !ok {
				add("completed-lost", "reopened store does not have blob %d of a completed push", id)
			}
		}
	}
	return fails
}

// ---------- main ----------

func runGenerated(r *common.Rand, histLen int, kind string, big bool, allK bool) {
	sc := &ck.Script{Blobs: universe(r, big)}
	s := newSim()
	for i := 0; i < histLen; i++ {
		o := randomOp(r, s, sc)
		sc.History = append(sc.History, o)
		s.apply(o)
	}
	sc.Final = realize(r, kind, s, &sc.History)
	after := s.clone()
	after.apply(sc.Final)
	runScript(sc, s, after, -1, allK)
}

func replay(path string) {
	for _, c := range common.ReadReplay(path) {
		js, ok := c["script"]
		if !ok {
			continue
		}
		sc, err := ck.ParseScript([]byte(js))
		if err != nil {
			panic(err)
		}
		s := newSim()
		for _, o := range sc.History {
			s.apply(o)
		}
		after := s.clone()
		after.apply(sc.Final)
		k := -1
		if v, ok := c["k"]; ok {
			if n, err := strconv.Atoi(v); err == nil {
				k = n
			}
		}
		runScript(sc, s, after, k, true)
	}
}

func main() {
	if len(os.Args) >= 4 && os.Args[1] == "child" {
		os.Exit(ck.ChildMain(os.Args[2], os.Args[3]))
	}
	run = common.Start("C10")
	defer run.Finish()
	run.Rule = "a case = (script, kill point): the child is killed by strace at the entry of one system call of the final operation; distinct = distinct (final operation, number of completed micro-steps); non-trivial = killed strictly inside the operation's mutating steps (plus every non-empty recorded script)"
	var err error
	exe, err = os.Executable()
	if err != nil {
		panic(err)
	}
	work, err = os.MkdirTemp("", "c10")
	if err != nil {
		panic(err)
	}
	defer os.RemoveAll(work)
	if _, err := os.Stat("/usr/bin/strace"); err != nil {
		panic("strace is required")
	}
	if run.Replay != "" {
		replay(run.Replay)
		return
	}
	r := run.Rand
	nHist := run.Scale(6, 40)
	perHist := len(finalKinds)
	ki := int(run.Seed) * 5
	for h := 0; h < nHist; h++ {
		for i := 0; i < perHist; i++ {
			kind := finalKinds[ki%len(finalKinds)]
			ki++
			histLen := r.Intn(run.Scale(7, 14))
			big := run.Thorough() && h%5 == 4 && (kind == "push-raw-multi" || kind == "pushbad")
			runGenerated(r, histLen, kind, big, run.Thorough())
		}
	}
}
