// C10 harness: a process crash never leaves an OCI layout unreadable, corrupt or
// half-updated.
//
// For every generated script (content universe + history of completed
// operations + one final operation) the harness
//
//  1. runs a child process (this binary, `child` mode) under strace and records
//     the file-system system calls of the final operation (the window between
//     two marker calls);
//  2. compares the window, projected to mutating calls, with the model's
//     micro-step list (case S) and the operation results with the model (case R);
//  3. for every system call k of the window re-runs the child in a fresh
//     directory and kills it at the entry of that call (strace inject, SIGKILL),
//     compares the directory with the model's file system after the
//     corresponding number of micro-steps (case K) and
//  4. evaluates the property itself on the killed directory with the real
//     oci.New and the harness' own readers, against the generator's ground
//     truth (a ten-line simulator of blob set and tag map): the oracle.
//
// Scripts run with AutoGC off (plain Delete) or on (cascades), with GC, with
// earlier killed processes, with sha512 digests, and for the initialisation itself.
package main

import (
	"bufio"
	"context"
	_ "crypto/sha256"
	_ "crypto/sha512"
	"encoding/json"
	"fmt"
	"os"
	"os/exec"
	"path/filepath"
	"sort"
	"strconv"
	"strings"
	"sync"
	"syscall"
	"time"

	"oras.land/oras-go/v2/content/oci"
	"verifharness/common"
	ck "verifharness/crashkit10"
)

func init() { ck.LockMainThread() }

var run *common.Run
var exe string
var work string

const (
	mtLayer    = "application/vnd.oci.image.layer.v1.tar"
	mtConfig   = "application/vnd.oci.image.config.v1+json"
	mtManifest = "application/vnd.oci.image.manifest.v1+json"
)

// ---------- ground truth: the generator's own simulator ----------

type sim struct {
	blobs map[int]bool
	tags  map[int]int // ref -> blob
	// AutoSaveIndex off: what a reader of the directory is entitled to see is the
	// tag map of the last SaveIndex, not the one in memory
	noAuto bool
	saved  map[int]int
	gcUniv bool // the universe with referrers (blob 7 is a proper manifest there)
	// every blob index.json has an entry for, named or by digest only (a pushed manifest,
	// anything that was tagged), in memory and as last saved
	entries      map[int]bool
	savedEntries map[int]bool
}

func newSim() *sim {
	return &sim{blobs: map[int]bool{}, tags: map[int]int{}, saved: map[int]int{}, entries: map[int]bool{}, savedEntries: map[int]bool{}}
}

func (s *sim) isManifest(id int) bool {
	if s.gcUniv {
		return id >= 4 && id <= 7
	}
	return id == 4 || id == 5 || id == 6 || id == 1002
}

func (s *sim) entryString() string {
	var xs []string
	for id := range s.savedEntries {
		xs = append(xs, strconv.Itoa(id))
	}
	sort.Strings(xs)
	return strings.Join(xs, ",")
}

func (s *sim) clone() *sim {
	c := newSim()
	c.noAuto = s.noAuto
	c.gcUniv = s.gcUniv
	for k := range s.entries {
		c.entries[k] = true
	}
	for k := range s.savedEntries {
		c.savedEntries[k] = true
	}
	for k, v := range s.saved {
		c.saved[k] = v
	}
	for k, v := range s.blobs {
		c.blobs[k] = v
	}
	for k, v := range s.tags {
		c.tags[k] = v
	}
	return c
}

func (s *sim) apply(o ck.Op) {
	s.applyMem(o)
	if !s.noAuto || o.Kind == "saveindex" {
		s.saved = map[int]int{}
		for k, v := range s.tags {
			s.saved[k] = v
		}
		s.savedEntries = map[int]bool{}
		for k := range s.entries {
			s.savedEntries[k] = true
		}
	}
}

// undecodable: ids of blobs with a manifest media type whose bytes are not JSON:
// Push stores nothing and fails, Tag is refused
var undecodable = map[int]bool{7: true}

func (s *sim) applyMem(o ck.Op) {
	switch o.Kind {
	case "push":
		if !(undecodable[o.Blob] && !s.gcUniv) {
			if !s.blobs[o.Blob] && s.isManifest(o.Blob) {
				s.entries[o.Blob] = true // a pushed manifest is entered by digest
			}
			s.blobs[o.Blob] = true
		}
	case "tag":
		if s.blobs[o.Blob] && !(undecodable[o.Blob] && !s.gcUniv) {
			s.entries[o.Blob] = true
			s.tags[o.Ref] = o.Blob
		}
	case "tagdigest":
		if s.blobs[o.Blob] && !(undecodable[o.Blob] && !s.gcUniv) {
			s.entries[o.Blob] = true // entered by digest only
		}
	case "untag":
		delete(s.tags, o.Ref)
	case "delete":
		delete(s.entries, o.Blob)
		if s.blobs[o.Blob] {
			delete(s.blobs, o.Blob)
			for r, b := range s.tags {
				if b == o.Blob {
					delete(s.tags, r)
				}
			}
		}
	}
}

func (s *sim) tagString(sc *ck.Script) string {
	var xs []string
	for r, b := range s.saved {
		xs = append(xs, ck.RefName(r)+"="+sc.Blob(b).Digest())
	}
	sort.Strings(xs)
	return strings.Join(xs, ",")
}

// ---------- generator ----------

func manifestJSON(config *ck.Blob, layers []*ck.Blob, salt int) string {
	return manifestJSONSubject(config, layers, salt, nil)
}

func manifestJSONSubject(config *ck.Blob, layers []*ck.Blob, salt int, subject *ck.Blob) string {
	type d struct {
		MediaType string `json:"mediaType"`
		Digest    string `json:"digest"`
		Size      int    `json:"size"`
	}
	desc := func(b *ck.Blob) d { return d{b.MediaType, b.Digest(), len(b.Content())} }
	m := struct {
		SchemaVersion int               `json:"schemaVersion"`
		MediaType     string            `json:"mediaType"`
		Config        d                 `json:"config"`
		Layers        []d               `json:"layers"`
		Subject       *d                `json:"subject,omitempty"`
		Annotations   map[string]string `json:"annotations,omitempty"`
	}{2, mtManifest, desc(config), []d{}, nil, map[string]string{"salt": strconv.Itoa(salt)}}
	if subject != nil {
		sd := desc(subject)
		m.Subject = &sd
	}
	for _, l := range layers {
		m.Layers = append(m.Layers, desc(l))
	}
	js, _ := json.Marshal(m)
	return string(js)
}

func universe(r *common.Rand, big bool) []ck.Blob {
	bs := []ck.Blob{
		{ID: 1, Kind: "raw", Size: 1 + r.Intn(300), Fill: r.U64() >> 12, MediaType: mtLayer},
		{ID: 2, Kind: "raw", Size: 33000 + r.Intn(70000), Fill: r.U64() >> 12, MediaType: mtLayer},
		{ID: 3, Kind: "raw", Size: 2 + r.Intn(40), Fill: r.U64() >> 12, MediaType: mtConfig},
	}
	if big {
		bs[1].Size = 1<<20 + r.Intn(1<<21)
	}
	if r.Chance(1, 3) {
		bs[0].Size = 0 // the empty blob: no write at all
	}
	salt := r.Intn(1 << 30)
	// the same store with sha512 digests: blobs/sha512 is created by the first of them
	l512 := ck.Blob{ID: 1001, Alg: "sha512", Kind: "raw", Size: 1 + r.Intn(50000), Fill: r.U64() >> 12, MediaType: mtLayer}
	bs = append(bs,
		ck.Blob{ID: 4, Kind: "manifest", MediaType: mtManifest, JSON: manifestJSON(&bs[2], []*ck.Blob{&bs[0]}, salt)},
		ck.Blob{ID: 5, Kind: "manifest", MediaType: mtManifest, JSON: manifestJSON(&bs[2], []*ck.Blob{&bs[0], &bs[1]}, salt+1)},
		ck.Blob{ID: 6, Kind: "manifest", MediaType: mtManifest, JSON: manifestJSON(&bs[2], nil, salt+2)},
		ck.Blob{ID: 7, Kind: "badmanifest", Fill: r.U64() >> 12, MediaType: mtManifest},
		ck.Blob{ID: 2001, Alg: "sha384", Kind: "raw", Size: 1 + r.Intn(40000), Fill: r.U64() >> 12, MediaType: mtLayer},
		l512,
		ck.Blob{ID: 1002, Alg: "sha512", Kind: "manifest", MediaType: mtManifest, JSON: manifestJSON(&bs[2], []*ck.Blob{&l512}, salt+3)},
	)
	return bs
}

var rawIDs = []int{1, 2, 3}
var manIDs = []int{4, 5, 6}
var allIDs = []int{1, 2, 3, 4, 5, 6}

// universeGC: content with referrers, for Delete-with-AutoGC cascades and GC.
//
//	1 L layer   2 G unreferenced blob (two write units)   3 C config
//	4 M  = manifest(C)            5 R1 = manifest(C, subject M)
//	6 R2 = manifest(C, subject R1) 7 N  = manifest(C, layers [L])
//
// The cascades of M, R1, R2 are chains (one new queue entry per deleted node), so
// their order does not depend on Go's map iteration.
func universeGC(r *common.Rand) []ck.Blob {
	bs := []ck.Blob{
		{ID: 1, Kind: "raw", Size: 1 + r.Intn(300), Fill: r.U64() >> 12, MediaType: mtLayer},
		{ID: 2, Kind: "raw", Size: 33000 + r.Intn(70000), Fill: r.U64() >> 12, MediaType: mtLayer},
		{ID: 3, Kind: "raw", Size: 2 + r.Intn(40), Fill: r.U64() >> 12, MediaType: mtConfig},
	}
	salt := r.Intn(1 << 30)
	m := ck.Blob{ID: 4, Kind: "manifest", MediaType: mtManifest, JSON: manifestJSONSubject(&bs[2], nil, salt, nil)}
	r1 := ck.Blob{ID: 5, Kind: "manifest", MediaType: mtManifest, JSON: manifestJSONSubject(&bs[2], nil, salt+1, &m)}
	r2 := ck.Blob{ID: 6, Kind: "manifest", MediaType: mtManifest, JSON: manifestJSONSubject(&bs[2], nil, salt+2, &r1)}
	n := ck.Blob{ID: 7, Kind: "manifest", MediaType: mtManifest, JSON: manifestJSONSubject(&bs[2], []*ck.Blob{&bs[0]}, salt+3, nil)}
	return append(bs, m, r1, r2, n)
}

var gcKinds = []string{
	"dgc-chain", "dgc-referrer", "dgc-tagged-referrer", "dgc-layered", "dgc-blob", "dgc-missing",
	"gc-garbage", "gc-after-untag", "gc-clean", "reopen",
	"push-manifest", "tag-new", "untag", "saveindex",
	"dgc-unindexed-subject", "dgc-unindexed-subject-tagged",
}

// realizeGC: like realize, for the universe with referrers.  The simulator is only
// a guide here (a cascade removes more than it knows); the oracle's ground truth
// of these scripts is observed on disk.
func realizeGC(r *common.Rand, kind string, s *sim, hist *[]ck.Op) ck.Op {
	do := func(o ck.Op) { *hist = append(*hist, o); s.apply(o) }
	push := func(ids ...int) {
		for _, id := range ids {
			if !s.blobs[id] {
				do(ck.Op{Kind: "push", Blob: id})
			}
		}
	}
	switch kind {
	case "dgc-chain":
		if r.Bool() {
			push(3)
		}
		push(4, 5, 6)
		return ck.Op{Kind: "delete", Blob: 4}
	case "dgc-referrer":
		push(4, 5, 6)
		return ck.Op{Kind: "delete", Blob: 5}
	case "dgc-unindexed-subject", "dgc-unindexed-subject-tagged":
		// (after an earlier process died right after renaming manifest 4 into blobs/: the blob is
		// there, index.json does not name it.)  Its referrer is pushed and deleted: the references of
		// the referrer go, the subject - a manifest that loses its last predecessor and has no
		// reference of its own - gains its digest reference, in one and the same Delete
		push(5)
		if kind == "dgc-unindexed-subject-tagged" {
			do(ck.Op{Kind: "tag", Blob: 5, Ref: 6})
			push(6) // a second manifest that names 5 as subject: deleting 5 cascades to it with AutoGC
		}
		return ck.Op{Kind: "delete", Blob: 5}
	case "dgc-tagged-referrer":
		push(4, 5)
		do(ck.Op{Kind: "tag", Blob: 5, Ref: 2})
		return ck.Op{Kind: "delete", Blob: 4}
	case "dgc-layered":
		push(4, 1, 7) // C keeps a predecessor (M): only L is left dangling
		return ck.Op{Kind: "delete", Blob: 7}
	case "dgc-blob":
		push(2)
		return ck.Op{Kind: "delete", Blob: 2}
	case "dgc-missing":
		if s.blobs[6] {
			do(ck.Op{Kind: "delete", Blob: 6})
		}
		return ck.Op{Kind: "delete", Blob: 6}
	case "gc-garbage":
		push(2, 1, 7, 4)
		do(ck.Op{Kind: "tag", Blob: 4, Ref: 1})
		return ck.Op{Kind: "gc"}
	case "gc-after-untag":
		push(3, 4, 5)
		do(ck.Op{Kind: "tag", Blob: 4, Ref: 3})
		do(ck.Op{Kind: "untag", Ref: 3})
		return ck.Op{Kind: "gc"}
	case "gc-clean":
		push(4)
		do(ck.Op{Kind: "tag", Blob: 4, Ref: 1})
		return ck.Op{Kind: "gc"}
	case "reopen":
		return ck.Op{Kind: "reopen"}
	case "push-manifest":
		id := common.Pick(r, []int{4, 5, 6, 7})
		if s.blobs[id] {
			do(ck.Op{Kind: "delete", Blob: id})
		}
		return ck.Op{Kind: "push", Blob: id}
	case "tag-new":
		push(5)
		return ck.Op{Kind: "tag", Blob: 5, Ref: 7}
	case "untag":
		push(4)
		do(ck.Op{Kind: "tag", Blob: 4, Ref: 4})
		return ck.Op{Kind: "untag", Ref: 4}
	}
	return ck.Op{Kind: "saveindex"}
}

func randomOp(r *common.Rand, s *sim, sc *ck.Script) ck.Op {
	var allIDs, manIDs []int
	for _, b := range sc.Blobs {
		allIDs = append(allIDs, b.ID)
		if b.IsManifest() {
			manIDs = append(manIDs, b.ID)
		}
	}
	if gcUniverse(sc) && r.Chance(1, 14) {
		return ck.Op{Kind: "gc"}
	}
	present := func(ids []int, want bool) []int {
		var out []int
		for _, id := range ids {
			if s.blobs[id] == want {
				out = append(out, id)
			}
		}
		return out
	}
	refs := func() []int {
		var out []int
		for k := range s.tags {
			out = append(out, k)
		}
		sort.Ints(out)
		return out
	}
	for {
		switch x := r.Intn(100); {
		case x < 40:
			if c := present(allIDs, false); len(c) > 0 {
				return ck.Op{Kind: "push", Blob: common.Pick(r, c)}
			}
		case x < 60:
			if c := present(allIDs, true); len(c) > 0 {
				b := common.Pick(r, c)
				if r.Chance(3, 4) {
					if m := present(manIDs, true); len(m) > 0 {
						b = common.Pick(r, m)
					}
				}
				return ck.Op{Kind: "tag", Blob: b, Ref: 1 + r.Intn(4)}
			}
		case x < 68:
			if c := refs(); len(c) > 0 {
				return ck.Op{Kind: "untag", Ref: common.Pick(r, c)}
			}
		case x < 80:
			if c := present(allIDs, true); len(c) > 0 {
				return ck.Op{Kind: "delete", Blob: common.Pick(r, c)}
			}
		case x < 85:
			if c := present(allIDs, false); len(c) > 0 {
				id := common.Pick(r, c)
				if len(sc.Blob(id).Content()) == 0 {
					// the empty content has no corrupted variant
					return ck.Op{Kind: "push", Blob: id}
				}
				return ck.Op{Kind: "pushbad", Blob: id}
			}
		case x < 90:
			return ck.Op{Kind: "saveindex"}
		default: // arbitrary arguments: error paths
			switch r.Intn(6) {
			case 4:
				return ck.Op{Kind: "tagdigest", Blob: common.Pick(r, allIDs)}
			case 5:
				return ck.Op{Kind: "untagdigest", Blob: common.Pick(r, allIDs)}
			case 0:
				return ck.Op{Kind: "push", Blob: common.Pick(r, allIDs)}
			case 1:
				return ck.Op{Kind: "tag", Blob: common.Pick(r, allIDs), Ref: 1 + r.Intn(4)}
			case 2:
				return ck.Op{Kind: "untag", Ref: 1 + r.Intn(5)}
			default:
				return ck.Op{Kind: "delete", Blob: common.Pick(r, allIDs)}
			}
		}
	}
}

// finalKinds: the interrupted operation, by situation.
var finalKinds = []string{
	"push-raw", "push-raw-multi", "push-manifest", "pushbad", "push-present",
	"tag-new", "tag-move", "tag-raw", "tag-missing",
	"untag", "untag-missing",
	"delete-tagged", "delete-digest-only", "delete-raw", "delete-missing",
	"saveindex", "reopen",
	"push-sha512", "push-manifest-sha512", "delete-sha512", "push-sha384",
	"delete-after-variant-tag", "delete-variant", "tag-variant",
	"push-undecodable", "tag-undecodable", "tag-undecodable-after-crash",
	"tag-digest", "tag-digest-manifest", "untag-digest",
}

// realize extends the history so that the situation exists and returns the final op.
func realize(r *common.Rand, kind string, s *sim, hist *[]ck.Op) ck.Op {
	do := func(o ck.Op) { *hist = append(*hist, o); s.apply(o) }
	ensure := func(id int, present bool) {
		if s.blobs[id] != present {
			if present {
				do(ck.Op{Kind: "push", Blob: id})
			} else {
				do(ck.Op{Kind: "delete", Blob: id})
			}
		}
	}
	man := common.Pick(r, manIDs)
	switch kind {
	case "push-raw":
		id := common.Pick(r, []int{1, 3})
		ensure(id, false)
		return ck.Op{Kind: "push", Blob: id}
	case "push-raw-multi":
		ensure(2, false)
		return ck.Op{Kind: "push", Blob: 2}
	case "push-manifest":
		ensure(man, false)
		return ck.Op{Kind: "push", Blob: man}
	case "pushbad":
		id := common.Pick(r, []int{2, 3, man})
		ensure(id, false)
		return ck.Op{Kind: "pushbad", Blob: id}
	case "push-present":
		id := common.Pick(r, allIDs)
		ensure(id, true)
		return ck.Op{Kind: "push", Blob: id}
	case "tag-new":
		ensure(man, true)
		return ck.Op{Kind: "tag", Blob: man, Ref: 7}
	case "tag-move":
		ensure(4, true)
		ensure(5, true)
		do(ck.Op{Kind: "tag", Blob: 4, Ref: 2})
		return ck.Op{Kind: "tag", Blob: 5, Ref: 2}
	case "tag-raw":
		ensure(1, true)
		return ck.Op{Kind: "tag", Blob: 1, Ref: 3}
	case "tag-missing":
		ensure(man, false)
		return ck.Op{Kind: "tag", Blob: man, Ref: 1}
	case "untag":
		ensure(man, true)
		do(ck.Op{Kind: "tag", Blob: man, Ref: 4})
		return ck.Op{Kind: "untag", Ref: 4}
	case "untag-missing":
		return ck.Op{Kind: "untag", Ref: 9}
	case "delete-tagged":
		ensure(man, true)
		do(ck.Op{Kind: "tag", Blob: man, Ref: 1})
		if r.Bool() {
			do(ck.Op{Kind: "tag", Blob: man, Ref: 2})
		}
		return ck.Op{Kind: "delete", Blob: man}
	case "delete-digest-only":
		ensure(man, false)
		do(ck.Op{Kind: "push", Blob: man})
		return ck.Op{Kind: "delete", Blob: man}
	case "delete-raw":
		id := common.Pick(r, []int{2, 3})
		ensure(id, true)
		// a raw blob is in the index only if somebody tagged it
		for rf, b := range s.tags {
			if b == id {
				do(ck.Op{Kind: "untag", Ref: rf})
			}
		}
		return ck.Op{Kind: "delete", Blob: id}
	case "delete-missing":
		id := common.Pick(r, allIDs)
		ensure(id, false)
		return ck.Op{Kind: "delete", Blob: id}
	case "reopen":
		return ck.Op{Kind: "reopen"}
	case "push-sha512":
		ensure(1001, false)
		return ck.Op{Kind: "push", Blob: 1001}
	case "push-sha384":
		ensure(2001, false)
		return ck.Op{Kind: "push", Blob: 2001}
	case "push-manifest-sha512":
		ensure(1002, false)
		return ck.Op{Kind: "push", Blob: 1002}
	case "delete-after-variant-tag":
		// tagged with a digest+size-only descriptor, deleted with the full one
		ensure(man, true)
		do(ck.Op{Kind: "tag", Blob: man, Ref: 6, Variant: true})
		return ck.Op{Kind: "delete", Blob: man}
	case "delete-variant":
		ensure(man, true)
		do(ck.Op{Kind: "tag", Blob: man, Ref: 6})
		return ck.Op{Kind: "delete", Blob: man, Variant: true}
	case "tag-variant":
		ensure(man, true)
		if r.Bool() {
			do(ck.Op{Kind: "tag", Blob: man, Ref: 6})
		}
		return ck.Op{Kind: "tag", Blob: man, Ref: 6, Variant: true}
	case "tag-digest":
		// a layer entered into index.json by its digest only
		id := common.Pick(r, []int{1, 3})
		ensure(id, true)
		return ck.Op{Kind: "tagdigest", Blob: id}
	case "tag-digest-manifest":
		ensure(man, true)
		return ck.Op{Kind: "tagdigest", Blob: man}
	case "untag-digest":
		ensure(man, true)
		return ck.Op{Kind: "untagdigest", Blob: man}
	case "push-undecodable":
		ensure(7, false)
		return ck.Op{Kind: "push", Blob: 7}
	case "tag-undecodable", "tag-undecodable-after-crash":
		if !s.blobs[7] {
			do(ck.Op{Kind: "push", Blob: 7})
		}
		return ck.Op{Kind: "tag", Blob: 7, Ref: 8}
	case "saveindex-after-delete":
		ensure(man, true)
		do(ck.Op{Kind: "tag", Blob: man, Ref: 1})
		do(ck.Op{Kind: "saveindex"})
		do(ck.Op{Kind: "delete", Blob: man})
		return ck.Op{Kind: "saveindex"}
	case "delete-saved-tagged":
		ensure(man, true)
		do(ck.Op{Kind: "tag", Blob: man, Ref: 1})
		do(ck.Op{Kind: "saveindex"})
		return ck.Op{Kind: "delete", Blob: man}
	case "delete-sha512":
		ensure(1002, true)
		do(ck.Op{Kind: "tag", Blob: 1002, Ref: 5})
		return ck.Op{Kind: "delete", Blob: 1002}
	}
	return ck.Op{Kind: "saveindex"}
}

// ---------- one script ----------

type outcome struct {
	k        int // window index the child was killed at
	j        int // model micro-steps completed
	state    string
	fails    []failure
	offByOne bool
	missed   bool
	steps    string // projected micro-steps completed before the kill
	err      string
}

type failure struct{ sig, msg string }

// unlinked lists the blobs unlinked by projected steps, in order.
func unlinked(steps []ck.Step) []int {
	var out []int
	for _, st := range steps {
		if strings.HasPrefix(st.Text, "unlink:B") {
			if v, err := strconv.Atoi(st.Text[len("unlink:B"):]); err == nil {
				out = append(out, v)
			}
		}
	}
	return out
}

// encOp is one executed operation in the model runner's syntax.  Which nodes a
// Delete-with-AutoGC cascade or a GC sweep visits (and in which order) is not
// the model's business (C09): they are read off the recorded run.
//
//	dgc:<d>:<t1>:<t2>...   Delete(d) with AutoGC that went on to delete t1, t2, ...
//	gc:<s1>:<s2>...        GC that swept s1, s2, ... (everything else is live)
func encOp(sc *ck.Script, o ck.Op, unl []int) string {
	switch {
	case o.Kind == "delete" && sc.AutoGC:
		e := fmt.Sprintf("dgc:%d", o.Blob)
		for _, x := range unl {
			if x != o.Blob {
				e += ":" + strconv.Itoa(x)
			}
		}
		return e
	case o.Kind == "gc":
		e := "gc"
		for _, x := range unl {
			e += ":" + strconv.Itoa(x)
		}
		return e
	}
	return o.String()
}

// encHistory renders the history operations of a recorded run.
func encHistory(sc *ck.Script, nm *ck.Namer, tr *ck.Trace, hist []ck.Op) []string {
	segs := tr.HistoryOps()
	var out []string
	for i, o := range hist {
		var unl []int
		if i < len(segs) {
			unl = unlinked(nm.Project(segs[i], map[int64]string{}))
		}
		out = append(out, encOp(sc, o, unl))
	}
	return out
}

func gcish(sc *ck.Script) bool {
	if sc.AutoGC {
		return true
	}
	has := func(ops []ck.Op) bool {
		for _, o := range ops {
			if o.Kind == "gc" {
				return true
			}
		}
		return false
	}
	for _, seg := range sc.Pre {
		if has(seg.History) || seg.Final.Kind == "gc" {
			return true
		}
	}
	return has(sc.History) || sc.Final.Kind == "gc"
}

// modelScript is the script in the model runner's syntax.  Earlier crashed runs
// become history items "crash:<j>:<op>".
func modelScript(sc *ck.Script, sizes map[int][]int64, hist []string, final string) string {
	var bl []string
	for _, b := range sc.Blobs {
		m := 0
		if b.IsManifest() {
			m = 1
		}
		if b.Undecodable() {
			m = 2
		}
		n := len(sizes[b.ID]) // 0 when never ingested: the model never looks at it then
		bl = append(bl, fmt.Sprintf("%d:%d:%d", b.ID, n, m))
	}
	var hs []string
	for _, seg := range sc.Pre {
		hs = append(hs, seg.Enc...)
		hs = append(hs, fmt.Sprintf("crash:%d:%s", seg.J, seg.FinalEnc))
	}
	hs = append(hs, hist...)
	auto := ""
	if sc.NoAutoSave {
		auto = "autosave=0;"
	}
	return auto + "blobs=" + strings.Join(bl, ",") + ";hist=" + strings.Join(hs, ",") + ";final=" + final
}

var readOnlyCalls = map[string]bool{"fcntl": true, "newfstatat": true, "fstat": true, "statx": true, "read": true,
	"pread64": true, "lseek": true, "faccessat": true, "faccessat2": true, "access": true, "getdents64": true,
	"readlinkat": true, "stat": true, "lstat": true}

func stepsText(st []ck.Step) string {
	var xs []string
	for _, s := range st {
		xs = append(xs, s.Text)
	}
	return strings.Join(xs, " ")
}

func copyDir(src, dst string) {
	err := filepath.Walk(src, func(p string, info os.FileInfo, err error) error {
		if err != nil {
			return err
		}
		rel, _ := filepath.Rel(src, p)
		q := filepath.Join(dst, rel)
		if info.IsDir() {
			return os.MkdirAll(q, 0o755)
		}
		data, err := os.ReadFile(p)
		if err != nil {
			return err
		}
		if err := os.WriteFile(q, data, 0o644); err != nil {
			return err
		}
		return os.Chmod(q, info.Mode().Perm())
	})
	if err != nil {
		panic(err)
	}
}

// prepared is a layout directory left behind by the earlier crashed runs of a
// script, with the ground truth observed on it.
type prepared struct {
	dir   string // scratch directory of this script
	base  string // the layout directory ("" = none yet: the store is created by the first process)
	sim   *sim
	sizes map[int][]int64
	n     int
	// oracleOnly: no case lines for the model (a state the model cannot represent); the oracle judges
	oracleOnly bool
}

func newPrepared() *prepared {
	dir, err := os.MkdirTemp(work, "s")
	if err != nil {
		panic(err)
	}
	return &prepared{dir: dir, sim: newSim(), sizes: map[int][]int64{}}
}

func (p *prepared) close() { os.RemoveAll(p.dir) }

// fresh returns a new directory holding a copy of the prepared layout.
func (p *prepared) fresh(name string) string {
	p.n++
	d := filepath.Join(p.dir, fmt.Sprintf("%s%d", name, p.n))
	if err := os.MkdirAll(d, 0o755); err != nil {
		panic(err)
	}
	root := filepath.Join(d, "root")
	if p.base != "" {
		copyDir(p.base, root)
	} else {
		os.Mkdir(root, 0o755)
	}
	return root
}

func (p *prepared) mergeSizes(m map[int][]int64) {
	for k, v := range m {
		p.sizes[k] = v
	}
}

func writeScript(dir string, full *ck.Script, hist []ck.Op, final ck.Op) string {
	sc := ck.Script{AutoGC: full.AutoGC, NoAutoSave: full.NoAutoSave, Blobs: full.Blobs, History: hist, Final: final}
	f, err := os.CreateTemp(dir, "script*.json")
	if err != nil {
		panic(err)
	}
	f.WriteString(sc.JSON())
	f.Close()
	return f.Name()
}

// observed sets the ground truth from the raw directory (after a crash the
// abstract state is one of two; the harness reads which).
func observed(root string, sc *ck.Script) *sim {
	s := newSim()
	byHex := map[string]int{}
	for _, b := range sc.Blobs {
		byHex[b.Hex()] = b.ID
	}
	names, _ := ck.BlobFiles(root)
	for _, n := range names {
		if id, ok := byHex[n]; ok {
			s.blobs[id] = true
		}
	}
	if idx, st := ck.ReadRawIndex(root); st == "ok" {
		for _, m := range idx.Manifests {
			if id, ok := byHex[m.Digest[strings.IndexByte(m.Digest, ':')+1:]]; ok {
				s.entries[id] = true
				s.savedEntries[id] = true
			}
			if r, ok := m.Annotations["org.opencontainers.image.ref.name"]; ok && strings.HasPrefix(r, "t") {
				if v, err := strconv.Atoi(r[1:]); err == nil {
					if id, ok := byHex[m.Digest[strings.IndexByte(m.Digest, ':')+1:]]; ok {
						s.tags[v] = id
						s.saved[v] = id
					}
				}
			}
		}
	}
	return s
}

// truth: the abstract state before and after the final operation of a process.
// Plain scripts: the generator's own simulator.  Scripts with GC or AutoGC: what
// a cascade or a sweep removes is C09's subject, so both states are observed on
// disk (killed before the first system call of the operation / completed run).
func (p *prepared) truth(sc *ck.Script, hist []ck.Op, final ck.Op, scriptPath string, win []ck.Event, recRoot string) (*sim, *sim, bool) {
	if !gcish(sc) {
		before := p.sim.clone()
		for _, o := range hist {
			before.apply(o)
		}
		after := before.clone()
		after.apply(final)
		return before, after, true
	}
	after := observed(recRoot, sc)
	if len(win) == 0 {
		return after, after, true
	}
	root := p.fresh("b")
	tr, err := ck.Run(exe, root, scriptPath, filepath.Dir(root), &ck.Inject{Name: win[0].Name, Ord: win[0].Ord})
	if err != nil || !tr.Killed || !tr.HasBegin || tr.HasEnd || len(tr.Window()) != 0 {
		run.Count("kill-missed-window")
		return nil, nil, false
	}
	before := observed(root, sc)
	os.RemoveAll(filepath.Dir(root))
	return before, after, true
}

// ---------- independent ground truth for GC / Delete-with-AutoGC on universeGC ----------
// (audit F5: the before/after states of these calls are observed on the implementation;
// what MUST survive and, for GC, exactly what survives is computed here from the
// generator's own edges, so a cascade or sweep that removes tagged or live content is
// reported although the model follows the recorded unlink list)
var gcSucc = map[int][]int{4: {3}, 5: {3, 4}, 6: {3, 5}, 7: {3, 1}} // config, layers, subject
var gcSubject = map[int]int{5: 4, 6: 5}

// gcEntries: the links that keep content alive during a Delete cascade: config and layers, NOT the
// subject field (a referrer does not keep its subject alive, C09 heldBySurvivor)
var gcEntries = map[int][]int{4: {3}, 5: {3}, 6: {3}, 7: {3, 1}}

func closureVia(edges map[int][]int, roots []int, present map[int]bool) map[int]bool {
	live := map[int]bool{}
	var visit func(int)
	visit = func(x int) {
		if live[x] {
			return
		}
		live[x] = true
		if present[x] {
			for _, y := range edges[x] {
				visit(y)
			}
		}
	}
	for _, r := range roots {
		visit(r)
	}
	return live
}

func closure(roots []int, present map[int]bool) map[int]bool {
	live := map[int]bool{}
	var visit func(int)
	visit = func(x int) {
		if live[x] {
			return
		}
		live[x] = true // a tagged node is kept whether or not its file exists
		if present[x] {
			for _, y := range gcSucc[x] {
				visit(y)
			}
		}
	}
	for _, r := range roots {
		visit(r)
	}
	return live
}

// gcLive: reference mark phase of Store.GC: the closure of the named-tagged nodes, then,
// until nothing changes, every manifest that index.json knows whose subject chain reaches
// a live node, with its closure.
func gcLive(before *sim) map[int]bool {
	var roots []int
	for _, b := range before.tags {
		roots = append(roots, b)
	}
	live := closure(roots, before.blobs)
	for changed := true; changed; {
		changed = false
		for m := range before.entries {
			if live[m] || !before.blobs[m] {
				continue
			}
			for cur := m; ; {
				sub, ok := gcSubject[cur]
				if !ok || !before.blobs[cur] {
					break
				}
				if live[sub] {
					for x := range closure([]int{m}, before.blobs) {
						live[x] = true
					}
					changed = true
					break
				}
				cur = sub
			}
		}
	}
	return live
}

func refCheck(sc *ck.Script, before, after *sim) []failure {
	var fails []failure
	add := func(sig, f string, a ...any) { fails = append(fails, failure{sig, fmt.Sprintf(f, a...)}) }
	if !gcUniverse(sc) || before == nil {
		return nil
	}
	o := sc.Final
	switch {
	case o.Kind == "gc":
		live := gcLive(before)
		for id := range before.blobs {
			if live[id] && !after.blobs[id] {
				add("gc-removed-live", "GC removed blob %d, which the reference mark phase keeps", id)
			}
			if !live[id] && after.blobs[id] {
				add("gc-kept-garbage", "GC kept blob %d, which the reference mark phase sweeps", id)
			}
		}
		if before.tagString(sc) != after.tagString(sc) {
			add("gc-changed-tags", "GC changed the tag mapping {%s} -> {%s}", before.tagString(sc), after.tagString(sc))
		}
	case o.Kind == "delete" && sc.AutoGC:
		// named tags: exactly those of the target disappear
		for r, b := range before.saved {
			if b != o.Blob && after.saved[r] != b {
				add("cascade-removed-tag", "Delete(%d) with AutoGC removed tag t%d of blob %d", o.Blob, r, b)
			}
		}
		var roots []int
		for _, b := range after.saved {
			roots = append(roots, b)
		}
		// what a tagged manifest still reaches once the target is gone, through the links that
		// count for a cascade (not through the deleted node, not through subject fields)
		present := map[int]bool{}
		for id := range before.blobs {
			if id != o.Blob {
				present[id] = true
			}
		}
		for id := range closureVia(gcEntries, roots, present) {
			if id != o.Blob && before.blobs[id] && !after.blobs[id] {
				add("cascade-removed-live", "Delete(%d) with AutoGC removed blob %d, which a tagged manifest still reaches", o.Blob, id)
			}
		}
	}
	return fails
}

// execSegment runs one earlier process on the prepared directory: history, then
// the final operation killed at window call seg.K.  The crash itself is a case
// (model comparison + oracle) of the script truncated at this segment.
func execSegment(sc *ck.Script, i int, p *prepared) bool {
	seg := &sc.Pre[i]
	trunc := &ck.Script{AutoGC: sc.AutoGC, NoAutoSave: sc.NoAutoSave, Blobs: sc.Blobs, Pre: sc.Pre[:i], History: seg.History, Final: seg.Final}
	scriptPath := writeScript(p.dir, sc, seg.History, seg.Final)
	rec := p.fresh("prerec")
	tr, err := ck.Run(exe, rec, scriptPath, filepath.Dir(rec), nil)
	if cannotReopen(tr, err) {
		return false
	}
	if err != nil || !tr.HasBegin || !tr.HasEnd {
		panic(fmt.Sprintf("recording run of an earlier segment failed: %v (script %s)", err, sc.JSON()))
	}
	recNm := ck.NewNamer(rec, sc)
	p.mergeSizes(recNm.WriteSizes(tr.Events))
	win := tr.Window()
	seg.Enc = encHistory(sc, recNm, tr, seg.History)
	recSteps := recNm.Project(win, map[int64]string{})
	seg.FinalEnc = encOp(sc, seg.Final, unlinked(recSteps))
	before, after, ok := p.truth(sc, seg.History, seg.Final, scriptPath, win, rec)
	if !ok {
		return false
	}
	if p.base == "" {
		p.base = filepath.Join(p.dir, "base")
		os.Mkdir(p.base, 0o755)
	}
	if len(win) == 0 {
		// the operation issued no system call (e.g. Untag of an unknown reference):
		// there is nothing to be killed in
		run.Count("earlier-segment-without-system-call")
		return false
	}
	k := seg.K % len(win)
	if seg.K < 0 {
		// "just after the blob was renamed into place"
		k = len(win) - 1
		for i, st := range recSteps {
			if strings.HasPrefix(st.Text, "rename:T") && st.Index+1 < len(win) {
				k = st.Index + 1
				break
			}
			_ = i
		}
	}
	ktr, err := ck.Run(exe, p.base, scriptPath, p.dir, &ck.Inject{Name: win[k].Name, Ord: win[k].Ord})
	if err == ck.ErrTimeout {
		run.Count("script-abandoned-child-timeout")
		return false
	}
	if err != nil {
		panic(fmt.Sprintf("earlier segment: %v (script %s)", err, sc.JSON()))
	}
	if !ktr.Killed || !ktr.HasBegin || ktr.HasEnd {
		run.Count("kill-missed-window")
		return false
	}
	nm := ck.NewNamer(p.base, sc)
	done := ktr.Window()
	doneSteps := nm.Project(done, map[int64]string{})
	seg.J = len(doneSteps)
	state := ck.ObserveDir(p.base, sc, p.sizes)
	oracleRoot := p.base
	if seg.Final.Kind == "init" {
		// the oracle of an initialisation crash completes the initialisation: not on the directory
		// the script continues with
		oracleRoot = filepath.Join(p.fresh("o"))
	}
	fails := oracle(oracleRoot, trunc, before, after)
	id := run.NewID()
	judged := strings.HasPrefix(stepsText(recSteps)+" ", stepsText(doneSteps)+" ") || len(doneSteps) == 0
	if judged {
		run.Case(id, fmt.Sprintf("K %d %s %d %s", seg.J, modelScript(trunc, p.sizes, seg.Enc, seg.FinalEnc), len(done), common.Hex(trunc.JSON())), "STATE "+state)
	} else {
		run.Count("cascade-order-differs-unjudged")
	}
	for _, f := range fails {
		run.OracleFail(id, f.sig, fmt.Sprintf("%s (earlier crash %d: %s killed before window system call %d)", f.msg, i, seg.Final.String(), len(done)),
			map[string]any{"script": trunc, "k": len(done)})
	}
	run.Count("earlier-crashes")
	p.sim = observed(p.base, sc)
	p.sim.noAuto, p.sim.gcUniv = sc.NoAutoSave, gcUniverse(sc)
	if p.sim.gcUniv {
		// Store.delete enters a dangling MANIFEST successor by digest when the resolver does not
		// hold it (content/oci/oci.go delete()).  That needs a manifest that is in the graph
		// but not in index.json: here only the leftover of a Push killed between the blob rename
		// and the index rename, later reached through a referrer (4 <- 5 <- 6).  The model has
		// no successor relation (C09's subject), so such scripts are not continued.
		for _, id := range []int{4, 5} {
			if p.sim.blobs[id] && !p.sim.entries[id] {
				if continueUnindexed {
					// the dgc-unindexed-subject scripts go on WITHOUT the model: every clause of the
					// property is judged by the oracle at every kill point, no case line is written
					p.oracleOnly = true
					run.Count("oracle-only-unindexed-manifest-with-referrer")
					return true
				}
				run.Count("script-abandoned-unindexed-manifest-with-referrer")
				return false
			}
		}
	}
	return judged // the model cannot follow a cascade whose order it was not told
}

// cannotReopen: the child could not open the directory an earlier crash left
// behind.  That is the violation "the directory can be opened again"; the
// oracle has reported it (reopen-fails) on the crash that caused it, so the rest
// of the script is abandoned.
func cannotReopen(tr *ck.Trace, err error) bool {
	if err == ck.ErrTimeout {
		run.Count("script-abandoned-child-timeout")
		return true
	}
	if err != nil && tr != nil && strings.Contains(tr.Stdout, "CHILD-ERROR new:") {
		run.Count("script-abandoned-after-unrecoverable-crash")
		return true
	}
	return false
}

// runMain: the last process of the script.  Record its final operation, then
// kill it at every window system call (each time on a fresh copy of the prepared
// directory).
// continueUnindexed is set while a dgc-unindexed-subject script is generated and run (see execSegment).
var continueUnindexed bool

func runMain(sc *ck.Script, p *prepared, onlyK int, allK bool) {
	caseLine := run.Case
	if p.oracleOnly {
		caseLine = func(string, string, string) {}
	}
	scriptPath := writeScript(p.dir, sc, sc.History, sc.Final)
	hexJSON := common.Hex(sc.JSON())
	rec := p.fresh("rec")
	tr, err := ck.Run(exe, rec, scriptPath, filepath.Dir(rec), nil)
	if cannotReopen(tr, err) {
		return
	}
	if err != nil || !tr.HasBegin || !tr.HasEnd {
		panic(fmt.Sprintf("recording run failed: %v (script %s)", err, sc.JSON()))
	}
	nm := ck.NewNamer(rec, sc)
	p.mergeSizes(nm.WriteSizes(tr.Events))
	sizes := p.sizes
	win := tr.Window()
	steps := nm.Project(win, map[int64]string{})
	enc := modelScript(sc, sizes, encHistory(sc, nm, tr, sc.History), encOp(sc, sc.Final, unlinked(steps)))
	before, after, ok := p.truth(sc, sc.History, sc.Final, scriptPath, win, rec)
	if !ok {
		return
	}
	recText := stepsText(steps)
	run.Count("final:" + sc.Final.Kind)
	if fe := encOp(sc, sc.Final, unlinked(steps)); strings.HasPrefix(fe, "dgc:") && strings.Count(fe, ":") >= 2 {
		run.Count("composite-finals-with-cascade")
	}
	run.Count(fmt.Sprintf("history-len:%d", len(sc.History)))
	run.Count(fmt.Sprintf("earlier-crashes-in-script:%d", len(sc.Pre)))
	run.Count(fmt.Sprintf("window-syscalls:%02d", (len(win)/10)*10))

	// R: results of every operation of the last process
	var results []string
	for _, l := range strings.Split(strings.TrimSpace(tr.Stdout), "\n") {
		f := strings.Fields(l)
		if len(f) >= 3 {
			results = append(results, f[2])
		}
	}
	caseLine(run.NewID(), "R "+enc+" "+hexJSON, "RES "+strings.Join(results, " "))
	for _, x := range results {
		run.Count("result:" + x)
	}
	// S: the script of the final operation
	caseLine(run.NewID(), "S "+enc+" "+hexJSON, strings.TrimSpace("STEPS "+stepsText(steps)))
	run.TracesAgainstImpl++
	if len(steps) > 0 {
		run.Nontrivial("S " + sc.Final.String() + " " + stepsText(steps))
	}

	emit := func(o outcome) {
		if o.missed {
			run.Count("kill-missed-window")
			return
		}
		id := run.NewID()
		rp := map[string]any{"script": sc, "k": o.k}
		if o.err != "" {
			panic("kill run failed: " + o.err + " script " + sc.JSON())
		}
		if strings.HasPrefix(recText+" ", o.steps+" ") || o.steps == "" {
			caseLine(id, fmt.Sprintf("K %d %s %d %s", o.j, enc, o.k, hexJSON), "STATE "+o.state)
		} else {
			run.Count("cascade-order-differs-unjudged")
		}
		for _, f := range o.fails {
			run.OracleFail(id, f.sig, fmt.Sprintf("%s (final op %s killed before window system call %d, after %d micro-steps)", f.msg, sc.Final.String(), o.k, o.j), rp)
		}
		if o.offByOne {
			run.Count("kill-point-differs-from-request")
		}
		run.Count("kills")
		if strings.Count(o.steps, "write:T") >= 1 && strings.Count(recText, "write:T") >= 2 && !strings.Contains(o.steps, "rename:T") {
			run.Count("multi-write-push-kills") // cut in the middle of the content of a blob written in several units
		}
	}
	// the completed run: effects of everything that returned are present
	finalState := ck.ObserveDir(rec, sc, sizes)
	emit(outcome{k: len(win), j: len(steps), steps: recText, state: finalState,
		fails: append(oracle(rec, sc, after, after), refCheck(sc, before, after)...)})
	run.Sample(map[string]any{"final": sc.Final.String(), "history": len(sc.History), "earlier_crashes": len(sc.Pre),
		"window_syscalls": len(win), "micro_steps": stepsText(steps)})

	// kill points
	var ks []int
	for k := 0; k < len(win); k++ {
		if onlyK >= 0 && k != onlyK {
			continue
		}
		if !allK && onlyK < 0 && k > 0 && readOnlyCalls[win[k-1].Name] {
			continue // same disk state as the previous kill point
		}
		ks = append(ks, k)
	}
	outs := make([]outcome, len(ks))
	roots := make([]string, len(ks))
	for i := range ks {
		roots[i] = p.fresh("k")
	}
	var wg sync.WaitGroup
	sem := make(chan struct{}, workers)
	for i, k := range ks {
		wg.Add(1)
		sem <- struct{}{}
		go func(i, k int) {
			defer wg.Done()
			defer func() { <-sem }()
			outs[i] = killAt(sc, scriptPath, roots[i], win, k, sizes, before, after)
			os.RemoveAll(filepath.Dir(roots[i]))
		}(i, k)
	}
	wg.Wait()
	for _, o := range outs {
		emit(o)
		if !o.missed && o.j > 0 && o.j < len(steps) {
			run.Nontrivial(fmt.Sprintf("K %s %d pre%d", sc.Final.String(), o.j, len(sc.Pre)))
		}
	}
}

// runScript executes a complete script (replays, corpus).
func runScript(sc *ck.Script, onlyK int, allK bool) {
	p := newPrepared()
	defer p.close()
	p.sim.noAuto = sc.NoAutoSave
	p.sim.gcUniv = gcUniverse(sc)
	for i := range sc.Pre {
		if !execSegment(sc, i, p) {
			return
		}
	}
	runMain(sc, p, onlyK, allK)
}

var workers = 4

func killAt(sc *ck.Script, scriptPath, root string, win []ck.Event, k int, sizes map[int][]int64, before, after *sim) outcome {
	tr, err := ck.Run(exe, root, scriptPath, filepath.Dir(root), &ck.Inject{Name: win[k].Name, Ord: win[k].Ord})
	if err == ck.ErrTimeout {
		return outcome{missed: true}
	}
	if err != nil {
		return outcome{err: err.Error()}
	}
	if !tr.Killed || !tr.HasBegin || tr.HasEnd {
		// The per-name ordinal did not land inside the window (a system call was
		// restarted or the runtime issued one more): not a crash point of the final
		// operation, so nothing can be judged.  Counted, never reported.
		return outcome{missed: true}
	}
	nm := ck.NewNamer(root, sc)
	done := tr.Window()
	steps := nm.Project(done, map[int64]string{})
	o := outcome{k: len(done), j: len(steps), steps: stepsText(steps), offByOne: len(done) != k}
	o.state = ck.ObserveDir(root, sc, sizes)
	o.fails = oracle(root, sc, before, after)
	return o
}

// ---------- the oracle: the property's statement on the real directory ----------

func oracle(root string, sc *ck.Script, before, after *sim) []failure {
	var fails []failure
	add := func(sig, f string, a ...any) { fails = append(fails, failure{sig, fmt.Sprintf(f, a...)}) }
	if sc.Final.Kind == "init" {
		// a crash during the very first oci.New: whatever it left, New must succeed now
		// and give the empty store (index.json may legitimately not exist yet)
		st, err := oci.New(root)
		if err != nil {
			add("init-reopen-fails", "oci.New after a crash during initialisation: %v", err)
			return fails
		}
		n := 0
		st.Tags(context.Background(), "", func(tags []string) error { n += len(tags); return nil })
		idx, status := ck.ReadRawIndex(root)
		if status != "ok" || len(idx.Manifests) != 0 || n != 0 {
			add("init-reopen-fails", "after re-initialisation index.json is %s with %d tags", status, n)
		}
		if !strings.Contains(ck.ObserveDir(root, sc, nil), "F:L=ok") {
			add("init-reopen-fails", "after re-initialisation oci-layout is not valid")
		}
		return fails
	}
	// every file under blobs is complete and matches its name
	names, bad := ck.BlobFiles(root)
	for _, b := range bad {
		add("blob-corrupt", "blobs/sha256/%s does not hash to its name", b)
	}
	byHex := map[string]int{}
	for _, b := range sc.Blobs {
		byHex[b.Hex()] = b.ID
	}
	onDisk := map[int]bool{}
	for _, n := range names {
		id, ok := byHex[n]
		if !ok {
			add("blob-unexpected", "blobs/sha256/%s is not a blob of the script", n)
			continue
		}
		onDisk[id] = true
		if sc.Final.Kind == "push" && sc.Final.Blob == id && undecodable[id] && !gcUniverse(sc) {
			// a manifest that does not decode is stored, found unindexable and removed again:
			// between the two it is a complete, correctly named blob that no index entry names
			// (the quiescent state in the middle of that call)
			continue
		}
		if !before.blobs[id] && !after.blobs[id] {
			add("blob-unexpected", "blob %d exists although it was neither present before nor after the interrupted operation", id)
		}
	}
	// effects of completed operations are present
	for id := range before.blobs {
		if after.blobs[id] && !onDisk[id] {
			add("completed-lost", "blob %d pushed by a completed operation is gone", id)
		}
	}
	// index.json parses and every entry names an existing blob
	idx, status := ck.ReadRawIndex(root)
	if status != "ok" {
		add("index-unreadable", "index.json is %s", status)
	} else {
		for _, m := range idx.Manifests {
			fi, err := os.Stat(ck.BlobPath(root, m.Digest))
			if err != nil {
				sig := "index-dangling"
				if id, ok := byHex[m.Digest[strings.IndexByte(m.Digest, ':')+1:]]; ok && sc.NoAutoSave && len(sc.Pre) == 0 && deletedAfterLastSave(sc, id) {
					// AutoSaveIndex off: Delete unlinked a blob that the last saved index.json names
					// (known finding; only this mechanism gets the signature)
					sig = "autosave-off-index-dangling"
				}
				add(sig, "index.json entry %s names a missing blob", m.Digest)
			} else if fi.Size() != m.Size {
				add("index-dangling", "index.json entry %s has size %d, the blob %d", m.Digest, m.Size, fi.Size())
			}
			// the descriptor written for the entry: the media type the blob was pushed / tagged with
			// ("" only through a digest+size-only Tag), and no other annotation than the reference
			// name of a named entry (saveIndex / deleteAnnotationRefName)
			if id, ok := byHex[m.Digest[strings.IndexByte(m.Digest, ':')+1:]]; ok {
				if want := sc.Blob(id).MediaType; m.MediaType != want && m.MediaType != "" && m.MediaType != "application/octet-stream" {
					add("index-entry-descriptor", "index.json entry of blob %d has media type %q, pushed as %q", id, m.MediaType, want)
				}
			}
			for k := range m.Annotations {
				if k != "org.opencontainers.image.ref.name" {
					add("index-entry-descriptor", "index.json entry %s carries the annotation %q", m.Digest, k)
				}
			}
			if r, ok := m.Annotations["org.opencontainers.image.ref.name"]; ok && r == "" {
				add("index-entry-descriptor", "index.json entry %s has an empty reference name", m.Digest)
			}
		}
		// one entry per reference name
		seen := map[string]string{}
		for _, m := range idx.Manifests {
			if r, ok := m.Annotations["org.opencontainers.image.ref.name"]; ok {
				if prev, dup := seen[r]; dup {
					add("index-entry-descriptor", "reference %q appears twice in index.json (%s and %s)", r, prev, m.Digest)
				}
				seen[r] = m.Digest
			}
		}
	}
	// the entries of index.json (named and digest-only) are those before or those after; a
	// cascade or a sweep passes through intermediate sets (C10_crash_safe_composite), a plain
	// operation does not
	if status == "ok" && !(sc.Final.Kind == "gc" || (sc.Final.Kind == "delete" && sc.AutoGC)) {
		cur := newSim()
		for _, m := range idx.Manifests {
			if id, ok := byHex[m.Digest[strings.IndexByte(m.Digest, ':')+1:]]; ok {
				cur.savedEntries[id] = true
			}
		}
		if g := cur.entryString(); g != before.entryString() && g != after.entryString() {
			add("index-entries-mixed", "index.json has entries for {%s}, neither those before {%s} nor those after {%s}", g, before.entryString(), after.entryString())
		}
	}
	// the directory can be opened again, and the tag mapping is the one before or the one after
	st, err := oci.New(root)
	if err != nil {
		add("reopen-fails", "oci.New: %v", err)
		return fails
	}
	ctx := context.Background()
	var got []string
	err = st.Tags(ctx, "", func(tags []string) error {
		for _, t := range tags {
			d, err := st.Resolve(ctx, t)
			if err != nil {
				return fmt.Errorf("resolve %s: %w", t, err)
			}
			got = append(got, t+"="+d.Digest.String())
		}
		return nil
	})
	if err != nil {
		add("reopen-fails", "listing tags of the reopened store: %v", err)
		return fails
	}
	// ... and the reopened store's resolver is exactly what index.json says (agree_reopen: the
	// loaded index is well-formed, so the next saveIndex would write the same entries)
	if v := ck.SyncReport(ctx, st, root); v != "ok" && !sc.NoAutoSave {
		add("reopen-resolver-differs", "after reopening, %s", v)
	}
	sort.Strings(got)
	g := strings.Join(got, ",")
	if g != before.tagString(sc) && g != after.tagString(sc) {
		add("tagmap-mixed", "tag mapping {%s} is neither the one before {%s} nor the one after {%s}", g, before.tagString(sc), after.tagString(sc))
	}
	for id := range before.blobs {
		if after.blobs[id] {
			ok, err := st.Exists(ctx, ck.Desc(sc.Blob(id)))
			if err != nil || !ok {
				add("completed-lost", "reopened store does not have blob %d of a completed push", id)
			}
		}
	}
	return fails
}

// deletedAfterLastSave: was blob id deleted by an operation of the script that came
// after the last COMPLETED SaveIndex?
func deletedAfterLastSave(sc *ck.Script, id int) bool {
	last := -1
	for i, o := range sc.History {
		if o.Kind == "saveindex" {
			last = i
		}
	}
	ops := append(append([]ck.Op{}, sc.History...), sc.Final)
	for i, o := range ops {
		if i > last && o.Kind == "delete" && o.Blob == id {
			return true
		}
	}
	return false
}

// ---------- concurrent callers (C10_conc_crash_safe): oracle-only stress stream ----------
// The kill-at-k machinery follows ONE thread; here several goroutines run Push/Tag/Untag/
// SaveIndex concurrently and the whole process is killed at an arbitrary moment.  The model
// is not compared (the schedule is not observable); the oracle checks what the theorem
// states: layout, blobs, index entries, reopen, nothing stored before is lost, and every
// reference on disk comes from before or from one of the concurrent Tags.
func runConc(r *common.Rand, delayUS int, rp map[string]string) {
	sc := &ck.Script{Blobs: universe(r, false)}
	if rp != nil {
		var err error
		sc, err = ck.ParseScript([]byte(rp["script"]))
		if err != nil {
			panic(err)
		}
	} else {
		s := newSim()
		sc.History = genHistory(r, sc, s, r.Intn(5))
		n := 2 + r.Intn(3)
		for g := 0; g < n; g++ {
			var ops []ck.Op
			for i := 0; i < 1+r.Intn(3); i++ {
				switch r.Intn(5) {
				case 0, 1:
					ops = append(ops, ck.Op{Kind: "push", Blob: common.Pick(r, []int{1, 2, 3, 4, 5, 6, 1001, 1002, 2001})})
				case 2, 3:
					ops = append(ops, ck.Op{Kind: "tag", Blob: common.Pick(r, []int{4, 5, 6, 1002, 1}), Ref: 1 + r.Intn(3)})
				default:
					if r.Bool() {
						ops = append(ops, ck.Op{Kind: "untag", Ref: 1 + r.Intn(3)})
					} else {
						ops = append(ops, ck.Op{Kind: "saveindex"})
					}
				}
			}
			sc.Conc = append(sc.Conc, ops)
		}
	}
	before := newSim()
	for _, o := range sc.History {
		before.apply(o)
	}
	dir, err := os.MkdirTemp(work, "conc")
	if err != nil {
		panic(err)
	}
	defer os.RemoveAll(dir)
	root := filepath.Join(dir, "root")
	os.Mkdir(root, 0o755)
	scriptPath := filepath.Join(dir, "script.json")
	os.WriteFile(scriptPath, []byte(sc.JSON()), 0o644)
	cmd := exec.Command(exe, "conc", root, scriptPath)
	out, err := cmd.StdoutPipe()
	if err != nil {
		panic(err)
	}
	if err := cmd.Start(); err != nil {
		panic(err)
	}
	rd := bufio.NewReader(out)
	ready := make(chan bool, 1)
	finished := make(chan string, 1) // the child's SYNC verdict once all its calls have returned
	go func() {
		isReady := false
		sync := "child exited without a verdict"
		for {
			l, err := rd.ReadString('\n')
			switch {
			case strings.HasPrefix(l, "READY"):
				isReady = true
				ready <- true
			case strings.HasPrefix(l, "SYNC "):
				sync = strings.TrimSpace(l[5:])
			case strings.HasPrefix(l, "DONE"):
				finished <- sync
				return
			}
			if err != nil {
				if !isReady {
					ready <- false
				} else {
					finished <- sync
				}
				return
			}
		}
	}()
	select {
	case ok := <-ready:
		if !ok {
			cmd.Process.Kill()
			cmd.Wait()
			run.Count("conc-child-not-ready")
			return
		}
	case <-time.After(60 * time.Second):
		cmd.Process.Kill()
		cmd.Wait()
		run.Count("conc-child-not-ready")
		return
	}
	id := run.NewID()
	rep := map[string]any{"script": sc, "conc_delay_us": delayUS}
	fail := func(sig, f string, a ...any) {
		run.OracleFail(id, sig, fmt.Sprintf(f, a...)+fmt.Sprintf(" (concurrent callers, killed %d us after release)", delayUS), rep)
	}
	if delayUS < 0 {
		// not killed: all calls return (watchdog: a wedge is a failure within seconds), and then
		// index.json is the index of the resolver (C10_conc_quiescent_synced)
		select {
		case verdict := <-finished:
			cmd.Wait()
			run.Count("conc-quiescent")
			if verdict != "ok" {
				fail("conc-quiescent-unsynced", "all concurrent calls have returned and %s", verdict)
			}
		case <-time.After(30 * time.Second):
			cmd.Process.Kill()
			cmd.Wait()
			fail("conc-wedged", "the concurrent calls did not return within 30 s")
			run.Case(id, "C "+common.Hex(sc.JSON()), "CONC")
			return
		}
	} else {
		time.Sleep(time.Duration(delayUS) * time.Microsecond)
		cmd.Process.Kill()
		cmd.Wait()
		run.Count("conc-kills")
	}
	byHex := map[string]int{}
	for _, b := range sc.Blobs {
		byHex[b.Hex()] = b.ID
	}
	names, bad := ck.BlobFiles(root)
	for _, b := range bad {
		fail("conc-blob-corrupt", "blobs/%s does not hash to its name", b)
	}
	on := map[int]bool{}
	for _, n := range names {
		if id, ok := byHex[n]; ok {
			on[id] = true
		} else {
			fail("conc-blob-corrupt", "blobs file %s is not a blob of the script", n)
		}
	}
	for id := range before.blobs {
		if !on[id] {
			fail("conc-completed-lost", "blob %d stored before the concurrent calls is gone", id)
		}
	}
	idx, status := ck.ReadRawIndex(root)
	if status != "ok" {
		fail("conc-index-unreadable", "index.json is %s", status)
	} else {
		tagged := map[string]bool{} // ref=blob pairs some concurrent Tag may have set
		for _, ops := range sc.Conc {
			for _, o := range ops {
				if o.Kind == "tag" {
					tagged[ck.RefName(o.Ref)+"="+sc.Blob(o.Blob).Digest()] = true
				}
			}
		}
		for rf, b := range before.tags {
			tagged[ck.RefName(rf)+"="+sc.Blob(b).Digest()] = true
		}
		for _, m := range idx.Manifests {
			if _, err := os.Stat(ck.BlobPath(root, m.Digest)); err != nil {
				fail("conc-index-dangling", "index.json entry %s names a missing blob", m.Digest)
			}
			if rf, ok := m.Annotations["org.opencontainers.image.ref.name"]; ok && !tagged[rf+"="+m.Digest] {
				fail("conc-tag-invented", "index.json has %s -> %s, which no Tag set", rf, m.Digest)
			}
		}
	}
	if st, err := oci.New(root); err != nil {
		fail("conc-reopen-fails", "oci.New: %v", err)
	} else if v := ck.SyncReport(context.Background(), st, root); v != "ok" {
		fail("conc-reopen-resolver-differs", "after reopening, %s", v)
	}
	run.Case(id, "C "+common.Hex(sc.JSON()), "CONC")
}

// runConcModel: a batch of single concurrent calls run to completion, compared with the MODEL:
// the directory they leave (index.json entries, blobs) must be the final directory of some
// schedule of Model/OciCrashConc.v (the model runner explores all interleavings).  The calls
// are chosen so that what each does is decided by the state before the batch (as in the model's
// call_prog): pushes of blobs not stored yet, tags of blobs already stored, untags of existing
// references, SaveIndex.
func runConcModel(r *common.Rand, rp map[string]string, killUS int) {
	sc := &ck.Script{Blobs: universe(r, false)}
	if rp != nil {
		var err error
		sc, err = ck.ParseScript([]byte(rp["script"]))
		if err != nil {
			panic(err)
		}
	} else {
		ids := []int{1, 2, 3, 4, 5, 6, 1001, 1002, 2001}
		s := newSim()
		for i := 0; i < r.Intn(5); i++ {
			o := ck.Op{Kind: "push", Blob: common.Pick(r, ids)}
			if s.blobs[o.Blob] {
				continue
			}
			s.apply(o)
			sc.History = append(sc.History, o)
			if r.Bool() {
				t := ck.Op{Kind: "tag", Blob: o.Blob, Ref: 1 + r.Intn(3)}
				s.apply(t)
				sc.History = append(sc.History, t)
			}
		}
		n := 2 + r.Intn(2)
		multi := r.Bool()
		for g := 0; g < n; g++ {
			var have, missing, refs []int
			for _, id := range ids {
				if s.blobs[id] {
					have = append(have, id)
				} else {
					missing = append(missing, id)
				}
			}
			for rf := range s.tags {
				refs = append(refs, rf)
			}
			sort.Ints(refs)
			var o ck.Op
			switch k := r.Intn(6); {
			case k <= 1 && len(missing) > 0:
				o = ck.Op{Kind: "push", Blob: common.Pick(r, missing)}
			case k <= 3 && len(have) > 0:
				o = ck.Op{Kind: "tag", Blob: common.Pick(r, have), Ref: 1 + r.Intn(3)}
			case k == 4 && len(refs) > 0:
				o = ck.Op{Kind: "untag", Ref: common.Pick(r, refs)}
			default:
				o = ck.Op{Kind: "saveindex"}
			}
			ops := []ck.Op{o}
			if g%2 == 1 && multi {
				// a goroutine that makes several calls: what each does is decided when it starts
				// (the model's gstep), so anything goes: tags of blobs pushed concurrently, untags of
				// references set concurrently, pushes of blobs that exist by then
				for k := 0; k < 1+r.Intn(2); k++ {
					switch r.Intn(4) {
					case 0:
						ops = append(ops, ck.Op{Kind: "push", Blob: common.Pick(r, ids)})
					case 1, 2:
						ops = append(ops, ck.Op{Kind: "tag", Blob: common.Pick(r, ids), Ref: 1 + r.Intn(3)})
					default:
						ops = append(ops, ck.Op{Kind: "untag", Ref: 1 + r.Intn(3)})
					}
				}
			}
			sc.Conc = append(sc.Conc, ops)
		}
	}
	dir, err := os.MkdirTemp(work, "concm")
	if err != nil {
		panic(err)
	}
	defer os.RemoveAll(dir)
	root := filepath.Join(dir, "root")
	os.Mkdir(root, 0o755)
	scriptPath := filepath.Join(dir, "script.json")
	os.WriteFile(scriptPath, []byte(sc.JSON()), 0o644)
	cmd := exec.Command(exe, "conc", root, scriptPath)
	pipe, err := cmd.StdoutPipe()
	if err != nil {
		panic(err)
	}
	if err := cmd.Start(); err != nil {
		panic(err)
	}
	var outb strings.Builder // complete once eof is closed
	ready := make(chan bool, 1)
	eof := make(chan struct{})
	go func() {
		rd := bufio.NewReader(pipe)
		sent := false
		for {
			l, err := rd.ReadString('\n')
			outb.WriteString(l)
			if !sent && strings.HasPrefix(l, "READY") {
				sent = true
				ready <- true
			}
			if err != nil {
				if !sent {
					ready <- false
				}
				close(eof)
				return
			}
		}
	}()
	id := run.NewID()
	rep := map[string]any{"script": sc, "conc_model": 1, "conc_kill_us": killUS}
	var hs, cs, bl []string
	for _, o := range sc.History {
		hs = append(hs, o.String())
	}
	single := true
	for _, ops := range sc.Conc {
		var xs []string
		for _, o := range ops {
			xs = append(xs, o.String())
		}
		cs = append(cs, strings.Join(xs, "+"))
		single = single && len(ops) == 1
	}
	for _, b := range sc.Blobs {
		m := 0
		if b.IsManifest() {
			m = 1
		}
		if b.Undecodable() {
			m = 2
		}
		bl = append(bl, fmt.Sprintf("%d:1:%d", b.ID, m))
	}
	text := "blobs=" + strings.Join(bl, ",") + ";hist=" + strings.Join(hs, ",") + ";conc=" + strings.Join(cs, "|") + ";final=saveindex"
	prefix := "" // "any:" = killed: the directory of ANY configuration of any schedule
	if killUS >= 0 {
		// killed at an arbitrary moment: the directory left must be the directory of some
		// configuration the model reaches under some schedule (a prefix of it)
		ok := false
		select {
		case ok = <-ready:
		case <-time.After(60 * time.Second):
		}
		if ok {
			time.Sleep(time.Duration(killUS) * time.Microsecond)
		}
		cmd.Process.Kill()
		<-eof
		cmd.Wait()
		if !ok {
			run.Count("conc-child-not-ready")
			return
		}
		prefix = "any:"
		run.Count("conc-model-compared-killed")
	} else {
		select {
		case <-eof:
			cmd.Wait()
		case <-time.After(30 * time.Second):
			cmd.Process.Kill()
			<-eof
			cmd.Wait()
			run.OracleFail(id, "conc-wedged", "the concurrent calls did not return within 30 s", rep)
			run.Case(id, "Q "+text+" wedged", "QREACH yes")
			return
		}
		if !strings.Contains(outb.String(), "SYNC ok") {
			run.OracleFail(id, "conc-quiescent-unsynced", "all concurrent calls have returned and the child reports: "+strings.TrimSpace(outb.String()), rep)
		}
		run.Count("conc-model-compared")
	}
	// the observation in the model's vocabulary
	byHex := map[string]int{}
	for _, b := range sc.Blobs {
		byHex[b.Hex()] = b.ID
	}
	obsIdx := "none"
	if idx, status := ck.ReadRawIndex(root); status == "ok" {
		var es []string
		for _, m := range idx.Manifests {
			e := strconv.Itoa(byHex[m.Digest[strings.IndexByte(m.Digest, ':')+1:]]) + "@"
			if rf, ok := m.Annotations["org.opencontainers.image.ref.name"]; ok {
				e += strings.TrimPrefix(rf, "t")
			} else {
				e += "-"
			}
			es = append(es, e)
		}
		sort.Strings(es)
		obsIdx = "[" + strings.Join(es, ",") + "]"
	}
	names, _ := ck.BlobFiles(root)
	on := map[int]bool{}
	for _, n := range names {
		on[byHex[n]] = true
	}
	var bs []string
	for _, b := range sc.Blobs {
		if on[b.ID] {
			bs = append(bs, strconv.Itoa(b.ID))
		}
	}
	if !single {
		run.Count("conc-model-compared-queues")
	}
	if killUS < 0 && single {
		// C10_conc_completed_push / _tag / _untag, directly on the directory: a call that has returned
		// and whose reference no other call of the batch names has its effect in index.json
		named := map[int]int{}
		for _, ops := range sc.Conc {
			if o := ops[0]; o.Kind == "tag" || o.Kind == "untag" {
				named[o.Ref]++
			}
		}
		for _, ops := range sc.Conc {
			switch o := ops[0]; {
			case o.Kind == "push" && !on[o.Blob]:
				run.OracleFail(id, "conc-completed-lost", fmt.Sprintf("blob %d of a concurrent Push that returned is not stored", o.Blob), rep)
			case o.Kind == "tag" && named[o.Ref] == 1 && !strings.Contains(obsIdx, fmt.Sprintf("%d@%d", o.Blob, o.Ref)):
				run.OracleFail(id, "conc-completed-lost", fmt.Sprintf("index.json %s lacks t%d -> blob %d set by a concurrent Tag that returned", obsIdx, o.Ref, o.Blob), rep)
			case o.Kind == "untag" && named[o.Ref] == 1 && (strings.Contains(obsIdx, fmt.Sprintf("@%d,", o.Ref)) || strings.Contains(obsIdx, fmt.Sprintf("@%d]", o.Ref))):
				run.OracleFail(id, "conc-completed-lost", fmt.Sprintf("index.json %s still has t%d removed by a concurrent Untag that returned", obsIdx, o.Ref), rep)
			}
		}
	}
	run.Case(id, "Q "+text+" "+prefix+"I="+obsIdx+";B="+strings.Join(bs, ","), "QREACH yes")
}

// ---------- main ----------

func genHistory(r *common.Rand, sc *ck.Script, s *sim, n int) []ck.Op {
	var h []ck.Op
	for i := 0; i < n; i++ {
		o := randomOp(r, s, sc)
		h = append(h, o)
		s.apply(o)
	}
	return h
}

func gcUniverse(sc *ck.Script) bool { return len(sc.Blobs) == 7 && sc.Blobs[6].Kind == "manifest" }

func runGenerated(r *common.Rand, histLen int, kind string, big bool, allK bool, crashes int) {
	sc := &ck.Script{Blobs: universe(r, big)}
	// the store's default is AutoGC on: a share of the plain scripts runs with it (their
	// cascades depend on Go's map order; kill runs whose order differs from the recorded one
	// are judged by the oracle only)
	if strings.HasPrefix(kind, "delete") && r.Chance(1, 3) {
		sc.AutoGC = true
		run.Count("plain-universe-autogc")
	}
	runGeneratedIn(r, sc, histLen, kind, allK, crashes)
}

func runGeneratedIn(r *common.Rand, sc *ck.Script, histLen int, kind string, allK bool, crashes int) {
	pick := func(rk string, s *sim, h *[]ck.Op) ck.Op {
		if gcUniverse(sc) {
			return realizeGC(r, rk, s, h)
		}
		return realize(r, rk, s, h)
	}
	p := newPrepared()
	defer p.close()
	p.sim.noAuto = sc.NoAutoSave
	p.sim.gcUniv = gcUniverse(sc)
	for i := 0; i < crashes; i++ {
		s := p.sim.clone()
		seg := ck.Segment{History: genHistory(r, sc, s, r.Intn(4))}
		kinds := finalKinds
		if gcUniverse(sc) {
			kinds = gcKinds
		}
		kind := common.Pick(r, kinds)
		if kind == "untag-missing" || kind == "untag-digest" {
			kind = "untag" // an Untag of an unknown reference / of a digest issues no system call: nothing to be killed in
		}
		seg.Final = pick(kind, s, &seg.History)
		seg.K = r.Intn(1000)
		sc.Pre = append(sc.Pre, seg)
		if !execSegment(sc, i, p) {
			return
		}
	}
	if kind == "tag-undecodable-after-crash" && crashes == 0 && !sc.NoAutoSave {
		// an earlier process died right after it had renamed the undecodable manifest into blobs/
		sc.Pre = append(sc.Pre, ck.Segment{Final: ck.Op{Kind: "push", Blob: 7}, K: -1})
		if !execSegment(sc, len(sc.Pre)-1, p) {
			return
		}
		histLen = 0
	}
	if strings.HasPrefix(kind, "dgc-unindexed-subject") && !sc.NoAutoSave {
		continueUnindexed = true
		defer func() { continueUnindexed = false }()
		// an earlier process died right after it had renamed manifest 4 into blobs/: the next process
		// finds the blob but no index entry for it
		sc.Pre = append(sc.Pre, ck.Segment{Final: ck.Op{Kind: "push", Blob: 4}, K: -1})
		if !execSegment(sc, len(sc.Pre)-1, p) {
			return
		}
		// a second process pushes the referrer(s) and returns from that (it is killed in an unrelated
		// Push afterwards); the process that deletes then LOADS a layout whose index.json names 5 but
		// not 4: 4 is in its graph (reached from 5) without a reference of its own
		s2 := p.sim.clone()
		seg := ck.Segment{Final: ck.Op{Kind: "push", Blob: 2}, K: -1}
		pick(kind, s2, &seg.History)
		sc.Pre = append(sc.Pre, seg)
		if !execSegment(sc, len(sc.Pre)-1, p) {
			return
		}
		run.Count("unindexed-subject-scripts")
		histLen = 0
	}
	s := p.sim.clone()
	sc.History = genHistory(r, sc, s, histLen)
	sc.Final = pick(kind, s, &sc.History)
	runMain(sc, p, -1, allK)
}

func replay(path string) {
	for _, c := range common.ReadReplay(path) {
		js, ok := c["script"]
		if !ok {
			continue
		}
		sc, err := ck.ParseScript([]byte(js))
		if err != nil {
			panic(err)
		}
		if len(sc.Conc) > 0 && c["conc_model"] != "" {
			d := -1
			if v, ok := c["conc_kill_us"]; ok {
				d, _ = strconv.Atoi(v)
			}
			for rep := 0; rep < 20; rep++ {
				runConcModel(run.Rand, c, d)
				if d >= 0 {
					runConcModel(run.Rand, c, run.Rand.Intn(2*d+200))
				}
			}
			continue
		}
		if len(sc.Conc) > 0 {
			// timing is not reproducible: the same calls, killed at a spread of moments
			d, _ := strconv.Atoi(c["conc_delay_us"])
			for _, dd := range []int{d, d / 2, d * 2, 0, 500, 1500, 3000, 6000} {
				for rep := 0; rep < 5; rep++ {
					runConc(run.Rand, dd, c)
				}
			}
			continue
		}
		k := -1
		if v, ok := c["k"]; ok {
			if n, err := strconv.Atoi(v); err == nil {
				k = n
			}
		}
		runScript(sc, k, true)
	}
}

func main() {
	if len(os.Args) >= 4 && os.Args[1] == "child" {
		os.Exit(ck.ChildMain(os.Args[2], os.Args[3]))
	}
	if len(os.Args) >= 4 && os.Args[1] == "conc" {
		os.Exit(ck.ConcMain(os.Args[2], os.Args[3]))
	}
	run = common.Start("C10")
	syscall.Umask(0o022)
	defer run.Finish()
	run.Rule = "a case = (script, kill point): the child is killed by strace at the entry of one system call of the final operation; distinct = distinct (final operation, number of completed micro-steps, number of earlier crashes); non-trivial = killed strictly inside the operation's mutating steps (plus every non-empty recorded script)"
	var err error
	exe, err = os.Executable()
	if err != nil {
		panic(err)
	}
	work, err = os.MkdirTemp("", "c10")
	if err != nil {
		panic(err)
	}
	defer os.RemoveAll(work)
	if _, err := os.Stat("/usr/bin/strace"); err != nil {
		panic("strace is required")
	}
	if run.Replay != "" {
		replay(run.Replay)
		return
	}
	r := run.Rand
	nHist := run.Scale(4, 30)
	perHist := len(finalKinds)
	ki := int(run.Seed) * 5
	for h := 0; h < nHist; h++ {
		for i := 0; i < perHist; i++ {
			kind := finalKinds[ki%len(finalKinds)]
			ki++
			histLen := r.Intn(run.Scale(7, 14))
			big := (run.Thorough() && h%5 == 4 && (kind == "push-raw-multi" || kind == "pushbad")) ||
				(!run.Thorough() && h == 1 && kind == "push-raw-multi") // > 1 MiB: many write units
			crashes := 0
			if h%3 == 2 {
				crashes = 1 + r.Intn(run.Scale(2, 4)) // the directory was left behind by killed processes
				histLen = r.Intn(4)
			}
			runGenerated(r, histLen, kind, big, run.Thorough(), crashes)
		}
	}
	// concurrent callers, killed at an arbitrary moment
	for i := 0; i < run.Scale(40, 400); i++ {
		runConc(r, r.Intn(run.Scale(6000, 12000)), nil)
		if i%4 == 0 {
			runConc(r, -1, nil) // run to completion: resolver and index.json agree
		}
		if i%2 == 0 {
			runConcModel(r, nil, -1) // run to completion and compared with the model's reachable finals
		}
		if i%2 == 1 {
			runConcModel(r, nil, r.Intn(2500)) // killed and compared with the model's reachable configurations
		}
	}
	// AutoSaveIndex off: only SaveIndex writes index.json
	for h := 0; h < run.Scale(1, 8); h++ {
		for _, kind := range []string{"push-manifest", "tag-new", "tag-move", "untag", "delete-tagged", "delete-digest-only",
			"delete-raw", "saveindex", "saveindex-after-delete", "delete-saved-tagged"} {
			sc := &ck.Script{Blobs: universe(r, false), NoAutoSave: true}
			run.Count("autosave-off-scripts")
			runGeneratedIn(r, sc, r.Intn(6), kind, run.Thorough(), 0)
		}
	}
	// the initialisation itself, killed at every system call; then again on what one, two, three
	// interrupted attempts left behind
	for n := 0; n <= run.Scale(2, 3); n++ {
		func() {
			sc := &ck.Script{Blobs: universe(r, false), Final: ck.Op{Kind: "init"}}
			p := newPrepared()
			defer p.close()
			for i := 0; i < n; i++ {
				sc.Pre = append(sc.Pre, ck.Segment{Final: ck.Op{Kind: "init"}, K: r.Intn(1000)})
				if !execSegment(sc, i, p) {
					return
				}
			}
			run.Count("init-after-interrupted-attempts:" + strconv.Itoa(n))
			runMain(sc, p, -1, true)
		}()
	}
	// Delete with AutoGC (cascades), GC and reopen, on the universe with referrers
	nGC := run.Scale(2, 18)
	for h := 0; h < nGC; h++ {
		for _, kind := range gcKinds {
			sc := &ck.Script{Blobs: universeGC(r), AutoGC: !strings.HasPrefix(kind, "gc-") || r.Bool()}
			crashes := 0
			if h%3 == 1 {
				crashes = 1 + r.Intn(2)
			}
			runGeneratedIn(r, sc, r.Intn(5), kind, run.Thorough(), crashes)
		}
	}
	checkFloors()
}

// checkFloors: a run that hardly killed anything proves nothing.  If the crash
// layer degraded (injections missing their window, cascades unjudged, a stream
// that produced no case) the harness fails (layer R), it does not pass silently.
func checkFloors() {
	d := run.Dist
	var bad []string
	need := func(key string, min int) {
		if d[key] < min {
			bad = append(bad, fmt.Sprintf("%s = %d < %d", key, d[key], min))
		}
	}
	need("kills", run.Scale(300, 3000))
	need("earlier-crashes", run.Scale(15, 150))
	need("final:gc", run.Scale(4, 30))
	need("final:init", 1)
	need("conc-kills", run.Scale(30, 300))
	need("conc-quiescent", run.Scale(8, 80))
	need("conc-model-compared", run.Scale(15, 150))
	need("conc-model-compared-killed", run.Scale(15, 150))
	need("conc-model-compared-queues", run.Scale(8, 80))
	need("autosave-off-scripts", run.Scale(8, 60))
	need("unindexed-subject-scripts", run.Scale(2, 12))
	need("final:reopen", run.Scale(3, 20))
	need("composite-finals-with-cascade", run.Scale(2, 30))
	need("multi-write-push-kills", run.Scale(10, 100))
	if m, k := d["kill-missed-window"], d["kills"]; m*20 > k+m {
		bad = append(bad, fmt.Sprintf("%d of %d injected kills missed the window (> 5%%)", m, k+m))
	}
	if u, k := d["cascade-order-differs-unjudged"], d["kills"]; u*10 > k {
		bad = append(bad, fmt.Sprintf("%d kill cases unjudged by the model (> 10%%)", u))
	}
	if t := d["script-abandoned-child-timeout"]; t > run.Scale(5, 40) {
		bad = append(bad, fmt.Sprintf("%d scripts abandoned on child timeouts", t))
	}
	if len(bad) > 0 {
		run.Finish()
		fmt.Fprintln(os.Stderr, "C10 coverage floor not reached: "+strings.Join(bad, "; "))
		os.Exit(3)
	}
}
