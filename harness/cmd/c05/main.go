// C05 harness: only content matching its descriptor becomes visible.
//
// A case is a scripted reader (the list of answers to successive Read calls:
// chunks, 0-byte reads, an injected error, data together with EOF/error) plus a
// descriptor, run against content.ReadAll, content.NewVerifyReader,
// ioutil.CopyBuffer (hook) or a short push history on a built-in store
// (cas.Memory, LimitedStorage, oci.Storage, file.Store named + fallback).
//
// cases.txt holds the case for the extracted Coq model, impl.txt the projected
// observable of the implementation.  The oracle is independent of the model: it
// knows the byte stream the generator put into the script and recomputes SHA-2
// with the Go standard library.
package main

import (
	"bytes"
	"context"
	"crypto/sha256"
	"crypto/sha512"
	"encoding/hex"
	"errors"
	"fmt"
	"hash/crc32"
	"io"
	"os"
	"path/filepath"
	"regexp"
	"runtime"
	"sort"
	"strconv"
	"strings"
	"sync"
	"time"

	"github.com/opencontainers/go-digest"
	ocispec "github.com/opencontainers/image-spec/specs-go/v1"
	"oras.land/oras-go/v2/content"
	"oras.land/oras-go/v2/content/file"
	"oras.land/oras-go/v2/content/memory"
	"oras.land/oras-go/v2/content/oci"
	"oras.land/oras-go/v2/errdef"
	hooks "oras.land/oras-go/v2/verifhooks/c05hooks"
	"verifharness/common"
)

var run *common.Run
var ctx = context.Background()
var errInjected = errors.New("injected read failure")

// ---------------------------------------------------------------- cases

type Ev struct {
	Kind byte // 'D' data, 'Z' 0-byte read, 'F' injected error, 'E' (0, io.EOF) once -- the reader goes on afterwards
	Data []byte
	Gen  string // "<len>:<seed>" when Data is pseudo-random data regenerated from a seed (big blobs)
}

func genBytes(n int, seed uint64) []byte {
	r := common.NewRand(seed)
	b := make([]byte, n)
	for i := 0; i+8 <= n; i += 8 {
		v := r.U64()
		for j := 0; j < 8; j++ {
			b[i+j] = byte(v >> (8 * uint(j)))
		}
	}
	return b
}

type Push struct {
	Name, MT, DG string
	SZ           int64
	Comb         bool
	Script       []Ev
	Stop         bool  // PF: Proxy.StopCaching for this fetch
	Ks           []int // PF: sizes of the caller's Read calls
}

type Case struct {
	Op     string // RA CB VR ST
	Kind   string // ST: mem | lim<limit> | oci | file
	BufSz  int    // CB
	Lim    string // RA/CB: "-" or the io.LimitReader bound
	Ops    []string
	Pushes []Push
	Obs    string // CC: the observed outcome handed to the model for the membership test
	WMode  string // CW: "fail" (writer returns an error) | "short" (writer reports fewer bytes, no error)
	WAt    int    // CW: number of bytes the writer accepts before that
}

func encScript(s []Ev) string {
	if len(s) == 0 {
		return "-"
	}
	parts := make([]string, len(s))
	for i, e := range s {
		switch e.Kind {
		case 'D':
			if e.Gen != "" {
				parts[i] = "R" + e.Gen
			} else {
				parts[i] = "D" + hex.EncodeToString(e.Data)
			}
		default:
			parts[i] = string(e.Kind)
		}
	}
	return strings.Join(parts, ",")
}

func decScript(s string) []Ev {
	if s == "-" {
		return nil
	}
	var out []Ev
	for _, t := range strings.Split(s, ",") {
		switch {
		case t == "Z" || t == "F" || t == "E":
			out = append(out, Ev{Kind: t[0]})
		case strings.HasPrefix(t, "R"):
			f := strings.SplitN(t[1:], ":", 2)
			seed, _ := strconv.ParseUint(f[1], 10, 64)
			out = append(out, Ev{Kind: 'D', Data: genBytes(int(atoi(f[0])), seed), Gen: t[1:]})
		case strings.HasPrefix(t, "D"):
			b, err := hex.DecodeString(t[1:])
			if err != nil {
				panic(err)
			}
			out = append(out, Ev{Kind: 'D', Data: b})
		default:
			panic("bad script token " + t)
		}
	}
	return out
}

func streamOf(s []Ev) []byte {
	var out []byte
	for _, e := range s {
		if e.Kind == 'D' {
			out = append(out, e.Data...)
		}
	}
	return out
}

// the bytes the reader delivers before it first answers io.EOF
func beforeEOF(s []Ev) []byte {
	var out []byte
	for _, e := range s {
		if e.Kind == 'E' {
			break
		}
		if e.Kind == 'D' {
			out = append(out, e.Data...)
		}
	}
	return out
}

// bytes deliverable before the first injected failure or EOF
func availOf(s []Ev) int {
	n := 0
	for _, e := range s {
		if e.Kind == 'F' || e.Kind == 'E' {
			break
		}
		n += len(e.Data)
	}
	return n
}

// cleanName is the path, relative to the working directory, a file-store name resolves to
func cleanName(name string) string { return filepath.ToSlash(filepath.Clean(name)) }

func hasFail(s []Ev) bool {
	for _, e := range s {
		if e.Kind == 'F' {
			return true
		}
	}
	return false
}

func b2s(b bool) string {
	if b {
		return "1"
	}
	return "0"
}

func fnv(b []byte) uint32 {
	h := uint32(2166136261)
	for _, c := range b {
		h = (h ^ uint32(c)) * 16777619
	}
	return h
}

func djb(b []byte) uint32 {
	h := uint32(5381)
	for _, c := range b {
		h = h*31 + uint32(c) + 7
	}
	return h
}

func dstr(b []byte) string { return fmt.Sprintf("%d:%d", len(b), fnv(b)) }

// independent SHA-2 (ground truth of the oracle and the table handed to the model)
func shaHex(alg string, b []byte) (string, bool) {
	switch alg {
	case "sha256":
		s := sha256.Sum256(b)
		return hex.EncodeToString(s[:]), true
	case "sha384":
		s := sha512.Sum384(b)
		return hex.EncodeToString(s[:]), true
	case "sha512":
		s := sha512.Sum512(b)
		return hex.EncodeToString(s[:]), true
	}
	return "", false
}

func algOf(dg string) string {
	if i := strings.IndexByte(dg, ':'); i >= 0 {
		return dg[:i]
	}
	return ""
}

func (c *Case) hashes() string {
	algs := map[string]bool{}
	for _, p := range c.Pushes {
		if _, ok := shaHex(algOf(p.DG), nil); ok {
			algs[algOf(p.DG)] = true
		}
	}
	seen := map[string]bool{}
	var out []string
	for _, p := range c.Pushes {
		st := streamOf(p.Script)
		lens := map[int]bool{0: true, len(st): true, len(beforeEOF(p.Script)): true}
		if c.Op == "PF" {
			r := newReader(p)
			for _, k := range p.Ks {
				r.Read(make([]byte, k))
			}
			lens[r.delivered] = true
			for _, q := range c.Pushes { // a cached blob re-served under another step's reads
				if int(q.SZ) >= 0 && int(q.SZ) <= r.delivered {
					lens[int(q.SZ)] = true
				}
			}
		}
		for _, q := range c.Pushes {
			for _, d := range []int64{q.SZ, q.SZ + 1} {
				if d >= 0 && d <= int64(len(st)) {
					lens[int(d)] = true
				}
			}
		}
		for l := range lens {
			for a := range algs {
				hx, _ := shaHex(a, st[:l])
				e := fmt.Sprintf("%s:%d:%d:%d:%s", hex.EncodeToString([]byte(a)), l, fnv(st[:l]), djb(st[:l]), hex.EncodeToString([]byte(hx)))
				if !seen[e] {
					seen[e] = true
					out = append(out, e)
				}
			}
		}
	}
	if len(out) == 0 {
		return "-"
	}
	sort.Strings(out)
	return strings.Join(out, ",")
}

// body = the case without the hash table (this is what a replay carries)
func (c *Case) body() string {
	p := c.Pushes[0]
	switch c.Op {
	case "RA", "FA":
		return fmt.Sprintf("%s %s %d %s %s %s", c.Op, common.Hex(p.DG), p.SZ, b2s(p.Comb), c.Lim, encScript(p.Script))
	case "CB":
		return fmt.Sprintf("CB %d %s %d %s %s %s", c.BufSz, common.Hex(p.DG), p.SZ, b2s(p.Comb), c.Lim, encScript(p.Script))
	case "CW":
		return fmt.Sprintf("CW %d %s %d %s %s %s %s %d", c.BufSz, common.Hex(p.DG), p.SZ, b2s(p.Comb), c.Lim, encScript(p.Script), c.WMode, c.WAt)
	case "VR":
		l := fmt.Sprintf("VR %s %d %s %s %s", common.Hex(p.DG), p.SZ, b2s(p.Comb), encScript(p.Script), strings.Join(c.Ops, ","))
		if c.Lim != "" && c.Lim != "-" {
			l += " " + c.Lim
		}
		return l
	case "PF":
		var sb strings.Builder
		fmt.Fprintf(&sb, "PF %s %d", c.Kind, len(c.Pushes))
		for _, p := range c.Pushes {
			ks := "-"
			if len(p.Ks) > 0 {
				parts := make([]string, len(p.Ks))
				for i, k := range p.Ks {
					parts[i] = strconv.Itoa(k)
				}
				ks = strings.Join(parts, ",")
			}
			fmt.Fprintf(&sb, " %s %s %s %d %s %s %s", b2s(p.Stop), common.Hex(p.MT), common.Hex(p.DG), p.SZ, b2s(p.Comb), encScript(p.Script), ks)
		}
		return sb.String()
	case "ST", "CC", "PX", "SX":
		var sb strings.Builder
		fmt.Fprintf(&sb, "%s %s %d", c.Op, c.Kind, len(c.Pushes))
		for _, p := range c.Pushes {
			nm := common.Hex(p.Name)
			if p.Name != "" { // the model takes the resolved path (path/filepath is not modelled)
				nm += ":" + common.Hex(cleanName(p.Name))
			}
			fmt.Fprintf(&sb, " %s %s %s %d %s %s", nm, common.Hex(p.MT), common.Hex(p.DG), p.SZ, b2s(p.Comb), encScript(p.Script))
		}
		return sb.String()
	}
	panic("bad op " + c.Op)
}

// line = model input: op, hash table, rest
func (c *Case) line() string {
	b := c.body()
	i := strings.IndexByte(b, ' ')
	if c.huge() { // not judged by the model (oracle only)
		return "HUGE " + b
	}
	if c.Op == "SX" { // oracle only
		return "SX " + b
	}
	l := b[:i] + " " + c.hashes() + b[i:]
	if c.Op == "FA" { // content.FetchAll over a scripted fetcher = ReadAll of the fetched stream
		l = "RA" + l[2:]
	}
	if c.Obs != "" {
		l += " OBS " + c.Obs
	}
	return l
}

func atoi(s string) int64 {
	v, err := strconv.ParseInt(s, 10, 64)
	if err != nil {
		panic(err)
	}
	return v
}

func decodeBody(body string) *Case {
	f := strings.Fields(body)
	c := &Case{Op: f[0]}
	switch f[0] {
	case "RA", "FA":
		c.Lim = f[4]
		c.Pushes = []Push{{DG: common.UnHex(f[1]), SZ: atoi(f[2]), Comb: f[3] == "1", Script: decScript(f[5])}}
	case "CB":
		c.BufSz = int(atoi(f[1]))
		c.Lim = f[5]
		c.Pushes = []Push{{DG: common.UnHex(f[2]), SZ: atoi(f[3]), Comb: f[4] == "1", Script: decScript(f[6])}}
	case "CW":
		c.BufSz = int(atoi(f[1]))
		c.Lim = f[5]
		c.Pushes = []Push{{DG: common.UnHex(f[2]), SZ: atoi(f[3]), Comb: f[4] == "1", Script: decScript(f[6])}}
		c.WMode, c.WAt = f[7], int(atoi(f[8]))
	case "VR":
		c.Pushes = []Push{{DG: common.UnHex(f[1]), SZ: atoi(f[2]), Comb: f[3] == "1", Script: decScript(f[4])}}
		c.Ops = strings.Split(f[5], ",")
		c.Lim = "-"
		if len(f) > 6 {
			c.Lim = f[6]
		}
	case "PF":
		c.Kind = f[1]
		n := int(atoi(f[2]))
		for i := 0; i < n; i++ {
			g := f[3+7*i:]
			p := Push{Stop: g[0] == "1", MT: common.UnHex(g[1]), DG: common.UnHex(g[2]), SZ: atoi(g[3]), Comb: g[4] == "1", Script: decScript(g[5])}
			if g[6] != "-" {
				for _, k := range strings.Split(g[6], ",") {
					p.Ks = append(p.Ks, int(atoi(k)))
				}
			}
			c.Pushes = append(c.Pushes, p)
		}
	case "ST", "CC", "PX", "SX":
		c.Kind = f[1]
		n := int(atoi(f[2]))
		for i := 0; i < n; i++ {
			g := f[3+6*i:]
			c.Pushes = append(c.Pushes, Push{Name: common.UnHex(strings.SplitN(g[0], ":", 2)[0]), MT: common.UnHex(g[1]), DG: common.UnHex(g[2]),
				SZ: atoi(g[3]), Comb: g[4] == "1", Script: decScript(g[5])})
		}
	default:
		panic("bad case " + body)
	}
	return c
}

// ---------------------------------------------------------------- scripted reader

type scriptReader struct {
	evs       []Ev
	comb      bool
	delivered int
	yield     bool
	// in-flight observation: block before the holdCall-th Read (-1: never)
	holdCall int
	calls    int
	reached  chan struct{}
	release  chan struct{}
}

func newReader(p Push) *scriptReader {
	evs := make([]Ev, len(p.Script))
	copy(evs, p.Script)
	return &scriptReader{evs: evs, comb: p.Comb, holdCall: -1}
}

func (r *scriptReader) Read(p []byte) (int, error) {
	if r.reached != nil && r.calls == r.holdCall {
		close(r.reached)
		<-r.release
	}
	r.calls++
	if r.yield {
		runtime.Gosched()
	}
	if len(r.evs) == 0 {
		return 0, io.EOF
	}
	e := r.evs[0]
	switch e.Kind {
	case 'Z':
		r.evs = r.evs[1:]
		return 0, nil
	case 'F':
		r.evs = r.evs[1:]
		return 0, errInjected
	case 'E':
		r.evs = r.evs[1:]
		return 0, io.EOF
	}
	if len(e.Data) <= len(p) {
		n := copy(p, e.Data)
		r.delivered += n
		r.evs = r.evs[1:]
		if r.comb {
			if len(r.evs) == 0 {
				return n, io.EOF
			}
			if r.evs[0].Kind == 'F' {
				r.evs = r.evs[1:]
				return n, errInjected
			}
			if r.evs[0].Kind == 'E' {
				r.evs = r.evs[1:]
				return n, io.EOF
			}
		}
		return n, nil
	}
	n := copy(p, e.Data[:len(p)])
	r.delivered += n
	r.evs[0] = Ev{Kind: 'D', Data: e.Data[n:]}
	return n, nil
}

func source(r *scriptReader, lim string) io.Reader {
	if lim == "-" {
		return r
	}
	return io.LimitReader(r, atoi(lim))
}

// wrapVR: a reader behaviour inside the quantifier ("every reader behaviour"): the caller hands
// over a reader that is ITSELF a content.VerifyReader for the same digest, built with the true
// length of the stream (callers that verify on their own before a Push that verifies again).  On
// a stream without injected failures such a reader delivers exactly what the plain reader
// delivers (same bytes, EOF at the same place), so the model input and every expected observable
// are those of the plain reader; what must not happen is that the outer verification is skipped
// or shortened because the inner one is there.  The choice is a function of the case content, so
// a replayed case wraps again.
func wrapVR(p Push) bool {
	if len(beforeEOF(p.Script)) == 0 || digest.Digest(p.DG).Validate() != nil {
		return false
	}
	for i, e := range p.Script {
		if e.Kind == 'F' || (e.Kind == 'E' && i != len(p.Script)-1) {
			return false // (a reader that goes on after its first io.EOF is not the same behind a limited reader)
		}
	}
	// ... and nothing but (at most) the final io.EOF may follow the last data: behind the inner
	// limited reader a 0-byte answer after the last byte would read as io.EOF
	last := -1
	for i, e := range p.Script {
		if e.Kind == 'D' && len(e.Data) > 0 {
			last = i
		}
	}
	if rest := p.Script[last+1:]; len(rest) > 1 || (len(rest) == 1 && rest[0].Kind != 'E') {
		return false
	}
	return crc32.ChecksumIEEE([]byte(p.DG+"/"+strconv.FormatInt(p.SZ, 10)))%3 == 0
}

func maybeWrapVR(r io.Reader, p Push) io.Reader {
	if !wrapVR(p) {
		return r
	}
	run.Count("reader:nested-verify-reader")
	return content.NewVerifyReader(r, ocispec.Descriptor{MediaType: p.MT, Digest: digest.Digest(p.DG), Size: int64(len(beforeEOF(p.Script)))})
}

func sourceP(r *scriptReader, lim string, p Push) io.Reader {
	if lim == "-" {
		return maybeWrapVR(r, p)
	}
	return source(r, lim)
}

// ---------------------------------------------------------------- canonical errors

func errEnum(err error) string {
	switch {
	case err == nil:
		return "OK"
	case errors.Is(err, errInjected):
		return "INJECTED"
	case errors.Is(err, errWrite):
		return "WRITE"
	case errors.Is(err, io.ErrShortWrite):
		return "SHORT_WRITE"
	case errors.Is(err, file.ErrPathTraversalDisallowed):
		return "TRAVERSAL"
	case errors.Is(err, file.ErrOverwriteDisallowed):
		return "OVERWRITE"
	case errors.Is(err, content.ErrInvalidDescriptorSize):
		return "INVALID_SIZE"
	case errors.Is(err, content.ErrTrailingData):
		return "TRAILING"
	case errors.Is(err, content.ErrMismatchedDigest):
		return "MISMATCH"
	case errors.Is(err, io.ErrUnexpectedEOF):
		return "UNEXPECTED_EOF"
	case errors.Is(err, digest.ErrDigestInvalidFormat), errors.Is(err, digest.ErrDigestUnsupported),
		errors.Is(err, digest.ErrDigestInvalidLength), errors.Is(err, errdef.ErrInvalidDigest):
		return "BAD_DIGEST"
	case errors.Is(err, errdef.ErrAlreadyExists):
		return "EXISTS"
	case errors.Is(err, errdef.ErrSizeExceedsLimit):
		return "TOO_BIG"
	case errors.Is(err, errdef.ErrNotFound):
		return "NOT_FOUND"
	case errors.Is(err, file.ErrDuplicateName):
		return "DUP_NAME"
	case err == io.EOF:
		return "EOF"
	case strings.Contains(err.Error(), "early verify"):
		return "EARLY"
	}
	return "OTHER:" + strings.Map(func(r rune) rune {
		if r == ' ' || r == '\n' {
			return '_'
		}
		return r
	}, err.Error())
}

// ---------------------------------------------------------------- oracle ground truth

var okDigest = regexp.MustCompile(`^(sha256:[a-f0-9]{64}|sha384:[a-f0-9]{96}|sha512:[a-f0-9]{128})$`)

// whyBad names the first reason why (script, descriptor) is not "exactly the bytes
// the descriptor names"; "" when a Push of it may succeed.  limited: the reader is
// cut at Size (LimitedStorage), so only the first Size bytes are looked at.
func whyBad(p Push) string {
	st := beforeEOF(p.Script)
	switch {
	case p.SZ < 0:
		return "negative-size"
	case !okDigest.MatchString(p.DG):
		return "bad-digest"
	case int64(availOf(p.Script)) < p.SZ:
		return "short-or-failed"
	}
	hx, _ := shaHex(algOf(p.DG), st[:p.SZ])
	if algOf(p.DG)+":"+hx != p.DG {
		return "digest-mismatch"
	}
	return ""
}

func matches(b []byte, dg string, sz int64) bool {
	if int64(len(b)) != sz || !okDigest.MatchString(dg) {
		return false
	}
	hx, _ := shaHex(algOf(dg), b)
	return algOf(dg)+":"+hx == dg
}

// guard runs f and returns the value of a panic (nil when f returned)
func guard(f func()) (p any) {
	defer func() { p = recover() }()
	f()
	return nil
}

const hugeSize = int64(1) << 30 // beyond this the extracted model is not run (Peano numbers)

func (c *Case) huge() bool {
	for _, p := range c.Pushes {
		if p.SZ > hugeSize {
			return true
		}
	}
	return false
}

func fail(id, sig, msg string, c *Case) {
	run.OracleFail(id, sig, msg, map[string]string{"line": c.body()})
}

func descOf(p Push) ocispec.Descriptor {
	d := ocispec.Descriptor{MediaType: p.MT, Digest: digest.Digest(p.DG), Size: p.SZ}
	if p.Name != "" {
		d.Annotations = map[string]string{ocispec.AnnotationTitle: p.Name}
	}
	return d
}

// ---------------------------------------------------------------- RA / CB / VR

func runRA(id string, c *Case) string {
	p := c.Pushes[0]
	r := newReader(p)
	var b []byte
	var err error
	read := func() { b, err = content.ReadAll(sourceP(r, c.Lim, p), descOf(p)) }
	if c.Op == "FA" {
		fetcher := content.FetcherFunc(func(context.Context, ocispec.Descriptor) (io.ReadCloser, error) {
			return io.NopCloser(sourceP(r, c.Lim, p)), nil
		})
		read = func() { b, err = content.FetchAll(ctx, fetcher, descOf(p)) }
	}
	if pv := guard(read); pv != nil {
		fail(id, "size-panic", fmt.Sprintf("ReadAll panicked for Size %d: %v", p.SZ, pv), c)
		return "PANIC"
	}
	st := beforeEOF(p.Script)
	if err == nil {
		switch {
		case !matches(b, p.DG, p.SZ):
			fail(id, "readall-accepted-bad", fmt.Sprintf("ReadAll returned %d bytes without error for %s size %d", len(b), p.DG, p.SZ), c)
		case !bytes.HasPrefix(st, b):
			fail(id, "readall-wrong-bytes", "ReadAll returned bytes the reader never produced", c)
		case c.Lim == "-" && len(st) != len(b):
			fail(id, "readall-trailing-accepted", fmt.Sprintf("reader holds %d bytes, Size %d, ReadAll returned no error", len(st), p.SZ), c)
		}
		return fmt.Sprintf("OK %d %s", r.delivered, dstr(b))
	}
	if b != nil {
		fail(id, "readall-data-with-error", "ReadAll returned data together with an error", c)
	}
	return fmt.Sprintf("%s %d", errEnum(err), r.delivered)
}

type plainWriter struct{ w io.Writer }

func (p plainWriter) Write(b []byte) (int, error) { return p.w.Write(b) }

func runCB(id string, c *Case) string {
	p := c.Pushes[0]
	r := newReader(p)
	var out bytes.Buffer
	err := hooks.CopyBuffer(plainWriter{&out}, sourceP(r, c.Lim, p), make([]byte, c.BufSz), descOf(p))
	st := beforeEOF(p.Script)
	if err == nil {
		switch {
		case p.SZ < 0:
			fail(id, "negative-size", fmt.Sprintf("CopyBuffer accepted Size %d", p.SZ), c)
		case !matches(out.Bytes(), p.DG, p.SZ):
			fail(id, "copybuffer-accepted-bad", fmt.Sprintf("CopyBuffer wrote %d bytes without error for %s size %d", out.Len(), p.DG, p.SZ), c)
		case !bytes.HasPrefix(st, out.Bytes()):
			fail(id, "copybuffer-wrong-bytes", "CopyBuffer wrote bytes the reader never produced", c)
		case c.Lim == "-" && len(st) != out.Len():
			fail(id, "copybuffer-trailing-accepted", fmt.Sprintf("reader holds %d bytes, Size %d, no error", len(st), p.SZ), c)
		}
	}
	return fmt.Sprintf("%s %d W%s", errEnum(err), r.delivered, dstr(out.Bytes()))
}

// a destination that fails or short-writes after WAt bytes
type faultyWriter struct {
	buf   bytes.Buffer
	mode  string
	left  int
	fault bool
}

var errWrite = errors.New("injected write failure")

func (w *faultyWriter) Write(b []byte) (int, error) {
	if len(b) <= w.left {
		w.left -= len(b)
		return w.buf.Write(b)
	}
	n := w.left
	w.buf.Write(b[:n])
	w.left = 0
	w.fault = true
	if w.mode == "short" {
		return n, nil
	}
	return n, errWrite
}

// CopyBuffer into a failing destination: never nil once the destination lost bytes
func runCW(id string, c *Case) string {
	p := c.Pushes[0]
	r := newReader(p)
	w := &faultyWriter{mode: c.WMode, left: c.WAt}
	err := hooks.CopyBuffer(w, sourceP(r, c.Lim, p), make([]byte, c.BufSz), descOf(p))
	if err == nil {
		switch {
		case w.fault:
			fail(id, "copybuffer-ignored-write-fault", fmt.Sprintf("the destination %s-wrote after %d bytes but CopyBuffer returned nil", c.WMode, c.WAt), c)
		case !matches(w.buf.Bytes(), p.DG, p.SZ):
			fail(id, "copybuffer-accepted-bad", "CopyBuffer returned nil but the destination holds other bytes", c)
		}
	}
	run.Count("cw:" + c.WMode + ":" + map[bool]string{true: "fault", false: "nofault"}[w.fault])
	return fmt.Sprintf("%s %d W%s", errEnum(err), r.delivered, dstr(w.buf.Bytes()))
}

func runVR(id string, c *Case) string {
	p := c.Pushes[0]
	r := newReader(p)
	if c.Lim == "" {
		c.Lim = "-"
	}
	vr := content.NewVerifyReader(sourceP(r, c.Lim, p), descOf(p))
	var got []byte
	var outs []string
	st := beforeEOF(p.Script)
	for _, op := range c.Ops {
		if op == "v" {
			err := vr.Verify()
			if err == nil {
				switch {
				case p.SZ < 0:
					fail(id, "negative-size", fmt.Sprintf("Verify accepted Size %d", p.SZ), c)
				case !matches(got, p.DG, p.SZ):
					fail(id, "verify-accepted-bad", fmt.Sprintf("Verify() = nil after %d bytes for %s size %d", len(got), p.DG, p.SZ), c)
				case c.Lim == "-" && !bytes.Equal(st, got):
					fail(id, "verify-trailing-accepted", fmt.Sprintf("reader holds %d bytes, %d were read, Verify() = nil", len(st), len(got)), c)
				}
			}
			outs = append(outs, "v="+errEnum(err))
			continue
		}
		k := int(atoi(op[1:]))
		buf := make([]byte, k)
		n, err := vr.Read(buf)
		got = append(got, buf[:n]...)
		outs = append(outs, fmt.Sprintf("r=%s/%s", dstr(buf[:n]), errEnum(err)))
	}
	if !bytes.HasPrefix(st, got) {
		fail(id, "verifyreader-wrong-bytes", "VerifyReader produced bytes the reader never produced", c)
	}
	return strings.Join(outs, " ")
}

// ---------------------------------------------------------------- stores

type store interface {
	content.Storage
}

type env struct {
	st      content.Storage
	listing func() []string // visible blobs: key/len:fnv (model-comparable)
	ingest  func() int      // left-over temp files (-1: not applicable)
	close   func()
	mem     *hooks.Memory
	blobs   string // oci kinds: the blobs/ directory (watched during races)
}

func walkFiles(root string, f func(rel string, data []byte)) {
	filepath.Walk(root, func(path string, info os.FileInfo, err error) error {
		if err != nil || info.IsDir() {
			return nil
		}
		data, err := os.ReadFile(path)
		if err != nil {
			return nil
		}
		rel, _ := filepath.Rel(root, path)
		f(rel, data)
		return nil
	})
}

func memListing(m *hooks.Memory) []string {
	var out []string
	for _, e := range hooks.MemoryEntries(m) {
		out = append(out, fmt.Sprintf("%s/%s/%d/%s", common.Hex(e.MediaType), common.Hex(e.Digest), e.Size, dstr(e.Content)))
	}
	sort.Strings(out)
	return out
}

var tmpSeq int

func newEnv(kind string) *env {
	tmpSeq++
	switch {
	case kind == "mem":
		m := hooks.NewMemory()
		return &env{st: m, mem: m, listing: func() []string { return memListing(m) }, ingest: func() int { return -1 }, close: func() {}}
	case strings.HasPrefix(kind, "lim"):
		m := hooks.NewMemory()
		return &env{st: content.LimitStorage(m, atoi(kind[3:])), mem: m, listing: func() []string { return memListing(m) },
			ingest: func() int { return -1 }, close: func() {}}
	case kind == "memstore": // the public wrapper around cas.Memory
		ms := memory.New()
		return &env{st: ms, listing: func() []string { return nil }, ingest: func() int { return -1 }, close: func() {}}
	case kind == "oci" || strings.HasPrefix(kind, "olim") || kind == "ocistore":
		root, err := os.MkdirTemp("", "c05oci")
		if err != nil {
			panic(err)
		}
		var st content.Storage
		if kind == "ocistore" { // the public oci.Store (storage + graph + index.json)
			os, err := oci.New(root)
			if err != nil {
				panic(err)
			}
			st = os
		} else {
			s, err := oci.NewStorage(root)
			if err != nil {
				panic(err)
			}
			st = s
			if strings.HasPrefix(kind, "olim") {
				st = content.LimitStorage(s, atoi(kind[4:]))
			}
		}
		return &env{st: st, blobs: filepath.Join(root, "blobs"),
			listing: func() []string {
				var out []string
				walkFiles(filepath.Join(root, "blobs"), func(rel string, data []byte) {
					out = append(out, common.Hex(strings.Replace(filepath.ToSlash(rel), "/", ":", 1))+"/"+dstr(data))
				})
				sort.Strings(out)
				return out
			},
			ingest: func() int {
				ents, err := os.ReadDir(filepath.Join(root, "ingest"))
				if err != nil {
					return 0
				}
				return len(ents)
			},
			close: func() { os.RemoveAll(root) }}
	case strings.HasPrefix(kind, "file"):
		root, err := os.MkdirTemp("", "c05file")
		if err != nil {
			panic(err)
		}
		var s *file.Store
		if kind == "fileF" { // caller-supplied (unlimited) fallback storage
			s, err = file.NewWithFallbackStorage(root, hooks.NewMemory())
		} else {
			s, err = file.New(root)
		}
		if err != nil {
			panic(err)
		}
		switch kind { // store options (oracle only; the model covers the defaults)
		case "fileD":
			s.DisableOverwrite = true
		case "fileC":
			s.ForceCAS = true
		case "fileI":
			s.IgnoreNoName = true
		}
		return &env{st: s,
			listing: func() []string {
				var out []string
				walkFiles(root, func(rel string, data []byte) { out = append(out, common.Hex(filepath.ToSlash(rel))+"/"+dstr(data)) })
				sort.Strings(out)
				return out
			},
			ingest: func() int { return -1 },
			close:  func() { s.Close(); os.RemoveAll(root) }}
	}
	panic("bad kind " + kind)
}

func joinListing(l []string) string {
	if len(l) == 0 {
		return "-"
	}
	return strings.Join(l, ";")
}

// rawFetch reads what Fetch hands out, without ReadAll's verification
func rawFetch(st content.Storage, d ocispec.Descriptor) ([]byte, error) {
	rc, err := st.Fetch(ctx, d)
	if err != nil {
		return nil, err
	}
	defer rc.Close()
	return io.ReadAll(rc)
}

func existsStr(st content.Storage, d ocispec.Descriptor) (string, bool) {
	x, err := st.Exists(ctx, d)
	if err != nil {
		return errEnum(err), false
	}
	return b2s(x), x
}

func limitOf(kind string) (int64, bool) {
	if strings.HasPrefix(kind, "lim") {
		return atoi(kind[3:]), true
	}
	return 0, false
}

func runST(id string, c *Case) string {
	e := newEnv(c.Kind)
	defer e.close()
	var obs []string
	var accepted [][]byte // ground-truth bytes of the pushes that returned nil
	// file store: names are compared as strings but written as paths.  owners: the
	// successful named pushes per resolved path; clobbered: digests whose file was
	// rewritten or removed by a push under ANOTHER name of the same path (known
	// finding file-alias-clobbers-visible; matched by this mechanism only)
	type owner struct {
		name string
		d    ocispec.Descriptor
		want []byte
	}
	owners := map[string][]owner{}
	clobbered := map[string]bool{}
	const aliasSig = "file-alias-clobbers-visible"
	isFile := strings.HasPrefix(c.Kind, "file")
	for i, p := range c.Pushes {
		d := descOf(p)
		aliasHit := false
		if isFile && p.Name != "" {
			for _, o := range owners[cleanName(p.Name)] {
				if o.name != p.Name {
					aliasHit = true
				}
			}
		}
		vf := func(sig, msg string) {
			if aliasHit || clobbered[p.DG] {
				sig = aliasSig
			}
			fail(id, sig, msg, c)
		}
		_, xBefore := existsStr(e.st, d)
		lBefore := joinListing(e.listing())
		var err, ferr error
		var fb []byte
		// in-flight observation (oracle only, deterministic): the push is stopped before one of
		// its first Reads; what the store shows for this descriptor must be what it showed before
		rd := newReader(p)
		if hold := (len(p.Script) + int(p.SZ&3) + i) % 4; hold < 3 {
			rd.holdCall, rd.reached, rd.release = hold, make(chan struct{}), make(chan struct{})
		}
		qd := d // file store: a query under the name being pushed waits for the push; ask by digest
		if strings.HasPrefix(c.Kind, "file") && p.Name != "" {
			qd = ocispec.Descriptor{MediaType: d.MediaType, Digest: d.Digest, Size: d.Size}
		}
		_, qxBefore := existsStr(e.st, qd)
		qrawBefore, qerrBefore := rawFetch(e.st, qd)
		pushDone := make(chan any, 1)
		prd := maybeWrapVR(rd, p)
		go func() { pushDone <- guard(func() { err = e.st.Push(ctx, d, prd) }) }()
		var pv any
		finished := false
		if rd.reached != nil {
			select {
			case <-rd.reached:
				tagf := fmt.Sprintf("push %d/%d on %s, stopped before Read #%d: ", i+1, len(c.Pushes), c.Kind, rd.holdCall)
				_, qx := existsStr(e.st, qd)
				qraw, qerr := rawFetch(e.st, qd)
				if qx != qxBefore {
					vf("inflight-visible", tagf+fmt.Sprintf("Exists changed from %v to %v while the content is still being read", qxBefore, qx))
				}
				if (qerr == nil) != (qerrBefore == nil) || (qerr == nil && !bytes.Equal(qraw, qrawBefore)) {
					vf("inflight-fetchable", tagf+fmt.Sprintf("Fetch changed while the content is still being read (%d bytes, err=%v)", len(qraw), qerr))
				}
				if !strings.HasPrefix(c.Kind, "file") { // (the working directory legitimately holds the partial file)
					if l := joinListing(e.listing()); l != lBefore {
						fail(id, "inflight-stored", tagf+"the stored blobs changed while the content is still being read: "+lBefore+" -> "+l, c)
					}
				}
				run.Count("judged:inflight")
				close(rd.release)
			case pv = <-pushDone:
				finished = true
			case <-time.After(20 * time.Second):
				fail(id, "push-wedged", fmt.Sprintf("push %d on %s neither read nor returned within 20s", i+1, c.Kind), c)
				return "WEDGED"
			}
		}
		if !finished {
			select {
			case pv = <-pushDone:
			case <-time.After(20 * time.Second):
				fail(id, "push-wedged", fmt.Sprintf("push %d on %s did not return within 20s", i+1, c.Kind), c)
				return "WEDGED"
			}
		}
		if pv != nil {
			fail(id, "size-panic", fmt.Sprintf("push %d on %s panicked for Size %d: %v", i+1, c.Kind, p.SZ, pv), c)
			return "PANIC"
		}
		res := errEnum(err)
		xs, xAfter := existsStr(e.st, d)
		if pv := guard(func() { fb, ferr = content.FetchAll(ctx, e.st, d) }); pv != nil {
			fail(id, "size-panic", fmt.Sprintf("FetchAll after push %d on %s panicked for Size %d: %v", i+1, c.Kind, p.SZ, pv), c)
			return "PANIC"
		}
		fobs := errEnum(ferr)
		if ferr == nil {
			fobs = "OK/" + dstr(fb)
		}
		obs = append(obs, fmt.Sprintf("%s X%s F%s", res, xs, fobs))

		// ---- oracle
		st := beforeEOF(p.Script)
		why := whyBad(p)
		tag := fmt.Sprintf("push %d/%d on %s: ", i+1, len(c.Pushes), c.Kind)
		raw, rerr := rawFetch(e.st, d)
		lAfter := joinListing(e.listing())
		if c.Kind == "fileI" && p.Name == "" {
			// Store.IgnoreNoName: an unnamed push is discarded by documented option (it may
			// return nil for any content); what must hold is that nothing became visible
			if xAfter != xBefore || (!xBefore && rerr == nil) {
				fail(id, "discarded-push-visible", tag+"IgnoreNoName: the discarded content is visible", c)
			}
			continue
		}
		if err == nil {
			if why != "" {
				sig := "push-accepted-bad:" + why
				if why == "negative-size" {
					sig = "negative-size"
				}
				fail(id, sig, tag+fmt.Sprintf("Push returned nil for %s size %d (%s)", p.DG, p.SZ, why), c)
			} else {
				want := st[:p.SZ]
				accepted = append(accepted, want)
				if !xAfter {
					vf("pushed-not-visible", tag+"Push returned nil but Exists is false")
				}
				if rerr != nil || !bytes.Equal(raw, want) {
					vf("pushed-differs", tag+"Push returned nil but Fetch does not return the first Size bytes of the reader")
				}
				if ferr != nil {
					vf("pushed-fetchall-fails", tag+"Push returned nil but FetchAll fails: "+fobs)
				}
			}
		} else {
			if xAfter != xBefore {
				vf("failed-push-visible", tag+"Push failed ("+res+") but Exists changed from "+b2s(xBefore)+" to "+b2s(xAfter))
			}
			if !xBefore && rerr == nil && !(c.Kind == "file" && false) {
				vf("failed-push-fetchable", tag+"Push failed ("+res+") but Fetch succeeds")
			}
			if lAfter != lBefore { // (file store: the partial file of a failed push is removed again)
				vf("failed-push-stored", tag+"Push failed ("+res+") but the stored blobs changed: "+lBefore+" -> "+lAfter)
			}
		}
		if isFile && p.Name != "" {
			path := cleanName(p.Name)
			for _, o := range owners[path] {
				if o.name == p.Name {
					continue
				}
				if got, gerr := rawFetch(e.st, o.d); gerr != nil || !bytes.Equal(got, o.want) {
					clobbered[string(o.d.Digest)] = true
					fail(id, aliasSig, tag+fmt.Sprintf("a push under the name %q (result %s) changed what Fetch serves for the descriptor pushed under %q (same path %q): %d bytes, err=%v",
						p.Name, res, o.name, path, len(got), gerr), c)
				}
			}
			if err == nil && why == "" {
				owners[path] = append(owners[path], owner{name: p.Name, d: d, want: st[:p.SZ]})
			}
		}
		if n := e.ingest(); n > 0 {
			fail(id, "ingest-left", tag+fmt.Sprintf("%d files left under ingest/", n), c)
		}
		// whatever is visible under this descriptor's digest was accepted by a successful push
		if rerr == nil {
			okv := false
			for _, a := range accepted {
				if bytes.Equal(a, raw) {
					okv = true
				}
			}
			if !okv {
				vf("visible-unverified", tag+fmt.Sprintf("Fetch returns %d bytes that no successful Push delivered", len(raw)))
			}
			if okDigest.MatchString(p.DG) {
				hx, _ := shaHex(algOf(p.DG), raw)
				if algOf(p.DG)+":"+hx != p.DG {
					vf("visible-digest-mismatch", tag+"Fetch returns bytes that do not hash to the descriptor's digest")
				}
			}
		}
		if ferr == nil && !matches(fb, p.DG, p.SZ) {
			vf("fetchall-accepted-bad", tag+"FetchAll returned bytes not matching the descriptor")
		}
	}
	final := "B=" + joinListing(e.listing())
	if c.Kind == "memstore" { // memory.Store has no listing
		final = "B=?"
	}
	if c.Kind == "oci" || c.Kind == "ocistore" || strings.HasPrefix(c.Kind, "olim") {
		final += fmt.Sprintf(" I=%d", e.ingest())
	}
	// final sweep: every descriptor of the history is queried again on the final state
	var sweep []string
	for _, p := range c.Pushes {
		d := descOf(p)
		xs, _ := existsStr(e.st, d)
		var fb []byte
		var ferr error
		if pv := guard(func() { fb, ferr = content.FetchAll(ctx, e.st, d) }); pv != nil {
			fail(id, "size-panic", fmt.Sprintf("FetchAll panicked for Size %d: %v", p.SZ, pv), c)
			return "PANIC"
		}
		fobs := errEnum(ferr)
		if ferr == nil {
			fobs = "OK/" + dstr(fb)
			if !matches(fb, p.DG, p.SZ) {
				fail(id, "fetchall-accepted-bad", "final sweep: FetchAll returned bytes not matching the descriptor", c)
			}
		}
		sweep = append(sweep, "X"+xs+"/F"+fobs)
	}
	return strings.Join(obs, " ") + " " + final + " Q=" + strings.Join(sweep, ",")
}

// ---------------------------------------------------------------- concurrent pushes of one digest (oracle only)

var ccRetry bool

func runCC(id string, c *Case) string {
	e := newEnv(c.Kind)
	defer e.close()
	good := c.Pushes[0] // by construction the first push is a good one
	want := streamOf(good.Script)[:good.SZ]
	d0 := descOf(good)
	var wg sync.WaitGroup
	errs := make([]error, len(c.Pushes))
	stop := make(chan struct{})
	var obsWG sync.WaitGroup
	var badSeen string
	obsWG.Add(1)
	go func() { // observer: whatever becomes visible must be the good bytes, complete
		defer obsWG.Done()
		for {
			select {
			case <-stop:
				return
			default:
			}
			if raw, err := rawFetch(e.st, d0); err == nil && !bytes.Equal(raw, want) && badSeen == "" {
				badSeen = fmt.Sprintf("%d bytes visible mid-run, want %d", len(raw), len(want))
			}
			if e.blobs != "" { // whatever file exists under blobs/ at any instant is complete and good
				walkFiles(e.blobs, func(rel string, data []byte) {
					if !bytes.Equal(data, want) && badSeen == "" {
						badSeen = fmt.Sprintf("blobs/%s holds %d bytes mid-run, want %d", rel, len(data), len(want))
					}
				})
			}
			runtime.Gosched()
		}
	}()
	for i := range c.Pushes {
		wg.Add(1)
		go func(i int) {
			defer wg.Done()
			r := newReader(c.Pushes[i])
			r.yield = true
			errs[i] = e.st.Push(ctx, descOf(c.Pushes[i]), r)
		}(i)
	}
	// no push may wedge: a watchdog turns a blocked race into a verdict (re-confirmed once)
	doneCh := make(chan struct{})
	go func() { wg.Wait(); close(doneCh) }()
	select {
	case <-doneCh:
	case <-time.After(20 * time.Second):
		close(stop)
		if !ccRetry {
			ccRetry = true
			run.Count("cc:watchdog-retry")
			out := runCC(id, c)
			ccRetry = false
			return out
		}
		fail(id, "push-wedged", fmt.Sprintf("concurrent pushes on %s did not return within 20s (twice)", c.Kind), c)
		return "-"
	}
	close(stop)
	obsWG.Wait()
	if badSeen != "" {
		fail(id, "concurrent-partial-visible", badSeen, c)
	}
	anyOK := false
	for i, p := range c.Pushes {
		why := whyBad(p)
		res := errEnum(errs[i])
		if errs[i] == nil {
			anyOK = true
			if why != "" {
				fail(id, "concurrent-bad-accepted", fmt.Sprintf("concurrent push %d (%s) returned nil", i, why), c)
			}
		} else if why == "" && len(beforeEOF(p.Script)) == int(p.SZ) && availOf(p.Script) == len(beforeEOF(p.Script)) &&
			!hasFail(p.Script) && res != "EXISTS" && res != "DUP_NAME" {
			fail(id, "concurrent-good-rejected", fmt.Sprintf("concurrent good push %d failed with %s", i, res), c)
		}
	}
	_, x := existsStr(e.st, d0)
	raw, rerr := rawFetch(e.st, d0)
	if x != anyOK {
		fail(id, "concurrent-exists", fmt.Sprintf("Exists=%v but a push succeeded=%v", x, anyOK), c)
	}
	if anyOK && (rerr != nil || !bytes.Equal(raw, want)) {
		fail(id, "concurrent-content", "after concurrent pushes Fetch does not return the good bytes", c)
	}
	if !anyOK && rerr == nil {
		fail(id, "concurrent-fetchable", "no push succeeded but Fetch succeeds", c)
	}
	if n := e.ingest(); n > 0 {
		fail(id, "ingest-left", fmt.Sprintf("%d files left under ingest/ after concurrent pushes", n), c)
	}
	if c.Kind == "oci" || c.Kind == "mem" {
		l := e.listing()
		if len(l) > 1 || (len(l) == 1 && !strings.HasSuffix(l[0], "/"+dstr(want))) || (len(l) == 0) != !anyOK {
			fail(id, "concurrent-listing", "stored blobs after concurrent pushes: "+joinListing(l), c)
		}
	}
	if (c.Kind == "oci" || c.Kind == "ocistore" || c.Kind == "mem" || c.Kind == "file" || strings.HasPrefix(c.Kind, "lim")) && len(c.Pushes) <= 3 && len(want) <= 120 {
		// trace correspondence: the observed outcome must be a terminal outcome of the
		// model's transition system (the model answers MEMBER)
		res := make([]string, len(errs))
		for i, e := range errs {
			res[i] = errEnum(e)
		}
		c.Obs = fmt.Sprintf("%s %s I=%d", strings.Join(res, ","), joinListing(e.listing()), e.ingest())
		run.TracesAgainstImpl++
		run.Count("judged:cc-membership")
		return "MEMBER"
	}
	return "-"
}

// ---------------------------------------------------------------- caching proxy (oracle only)

// a base store that serves whatever the script says under the descriptor
type scriptedBase struct{ p Push }

func (s scriptedBase) Fetch(context.Context, ocispec.Descriptor) (io.ReadCloser, error) {
	return io.NopCloser(newReader(s.p)), nil
}
func (s scriptedBase) Exists(context.Context, ocispec.Descriptor) (bool, error) { return true, nil }

var pxBlocked bool

// a watchdog verdict is only reported after a second, fresh run with a longer limit blocked as well
func runPX(id string, c *Case) string { return runPXw(id, c, 20*time.Second, true) }

func runPXw(id string, c *Case, limit time.Duration, retry bool) string {
	p := c.Pushes[0]
	d := descOf(p)
	lim, limited := limitOf(c.Kind)
	trailing := int64(len(beforeEOF(p.Script))) > p.SZ
	if pxBlocked && limited && trailing {
		run.Count("px:skipped-after-blocked")
		return "-"
	}
	newProxy := func() (*hooks.Proxy, *hooks.Memory) {
		cache := hooks.NewMemory()
		if limited {
			return hooks.NewProxyWithLimit(scriptedBase{p}, cache, lim), cache
		}
		return hooks.NewProxy(scriptedBase{p}, cache), cache
	}
	// the proxy couples the caller and the cache push through an io.Pipe: a watchdog
	// turns a blocked pipe into a verdict instead of a hung harness
	type pxres struct {
		rerr, cerr error
		fetched    bool
		all        []byte
		allErr     error
	}
	px, cache := newProxy()
	ch := make(chan pxres, 1)
	go func() {
		var r pxres
		if rc, err := px.Fetch(ctx, d); err == nil {
			r.fetched = true
			_, r.rerr = io.ReadAll(rc)
			r.cerr = rc.Close()
		}
		px2, _ := newProxy()
		r.all, r.allErr = content.FetchAll(ctx, px2, d)
		ch <- r
	}()
	var r pxres
	select {
	case r = <-ch:
	case <-time.After(limit):
		if retry {
			run.Count("px:watchdog-retry")
			return runPXw(id, c, 60*time.Second, false)
		}
		pxBlocked = true
		fail(id, "proxy-blocked", fmt.Sprintf("reading %d bytes for Size %d through the caching proxy (%s) did not return within %v (twice)", len(streamOf(p.Script)), p.SZ, c.Kind, limit), c)
		return "-"
	}
	why := whyBad(p)
	if r.allErr == nil {
		if !matches(r.all, p.DG, p.SZ) || why != "" {
			fail(id, "proxy-fetchall-accepted-bad", "FetchAll through the proxy returned bytes not matching the descriptor", c)
		} else if trailing {
			fail(id, "proxy-fetchall-trailing-accepted", "FetchAll through the proxy accepted bytes beyond Size", c)
		}
	}
	if !r.fetched {
		return "-"
	}
	x, _ := cache.Exists(ctx, d)
	if x {
		raw, _ := rawFetch(cache, d)
		if why != "" || !matches(raw, p.DG, p.SZ) {
			fail(id, "cache-holds-bad", fmt.Sprintf("cache holds %d bytes for %s size %d (%s)", len(raw), p.DG, p.SZ, why), c)
		}
	}
	if r.rerr == nil && r.cerr == nil && !x && why == "" && !trailing {
		if !limited || p.SZ <= lim {
			fail(id, "cache-miss-after-good-read", "good content read through the proxy was not cached", c)
		}
	}
	return "-"
}

// ---------------------------------------------------------------- caching proxy, model correspondence

type switchBase struct{ cur Push }

func (s *switchBase) Fetch(context.Context, ocispec.Descriptor) (io.ReadCloser, error) {
	return io.NopCloser(newReader(s.cur)), nil
}
func (s *switchBase) Exists(context.Context, ocispec.Descriptor) (bool, error) { return true, nil }

func runPF(id string, c *Case) string { return runPFw(id, c, 20*time.Second, true) }

func runPFw(id string, c *Case, limit time.Duration, retry bool) string {
	cache := hooks.NewMemory()
	base := &switchBase{}
	var px *hooks.Proxy
	if lim, ok := limitOf(c.Kind); ok {
		px = hooks.NewProxyWithLimit(base, cache, lim)
	} else {
		px = hooks.NewProxy(base, cache)
	}
	type stepres struct {
		obs    string
		handed []byte
	}
	var obs []string
	for i, p := range c.Pushes {
		d := descOf(p)
		base.cur = p
		px.StopCaching = p.Stop
		before := hooks.MemoryEntries(cache)
		ch := make(chan stepres, 1)
		inflightBad := ""
		go func() {
			var sb strings.Builder
			var handed []byte
			rc, err := px.Fetch(ctx, d)
			if err != nil {
				ch <- stepres{obs: "fetch=" + errEnum(err)}
				return
			}
			for _, k := range p.Ks {
				buf := make([]byte, k)
				n, e := rc.Read(buf)
				handed = append(handed, buf[:n]...)
				fmt.Fprintf(&sb, "r=%s/%s ", dstr(buf[:n]), errEnum(e))
			}
			// in flight: an unlimited cache push cannot finish before Close (it has not seen
			// EOF yet), so the cache must not show the descriptor now unless it did before
			if _, limited := limitOf(c.Kind); !limited && !p.Stop {
				wasThere := false
				for _, e := range before {
					if e.MediaType == p.MT && e.Digest == p.DG && e.Size == p.SZ {
						wasThere = true
					}
				}
				if x, _ := cache.Exists(ctx, d); x != wasThere {
					inflightBad = fmt.Sprintf("before Close the cache answers Exists=%v for a descriptor it %s before the fetch", x, map[bool]string{true: "held", false: "did not hold"}[wasThere])
				}
				run.Count("judged:proxy-inflight")
			}
			fmt.Fprintf(&sb, "c=%s |", errEnum(rc.Close()))
			ch <- stepres{obs: sb.String(), handed: handed}
		}()
		var r stepres
		select {
		case r = <-ch:
		case <-time.After(limit):
			if retry {
				run.Count("px:watchdog-retry")
				return runPFw(id, c, 60*time.Second, false)
			}
			fail(id, "proxy-blocked", fmt.Sprintf("fetch %d through the caching proxy (%s) did not return within %v (twice)", i+1, c.Kind, limit), c)
			return "BLOCKED"
		}
		obs = append(obs, r.obs)
		// ---- oracle (independent of the model)
		tag := fmt.Sprintf("proxy fetch %d/%d (%s): ", i+1, len(c.Pushes), c.Kind)
		if inflightBad != "" {
			fail(id, "proxy-inflight-visible", tag+inflightBad, c)
		}
		st := streamOf(p.Script)
		var cachedBefore []byte
		hit := false
		for _, e := range before {
			if e.MediaType == p.MT && e.Digest == p.DG && e.Size == p.SZ {
				hit, cachedBefore = true, e.Content
			}
		}
		if hit {
			if !bytes.HasPrefix(cachedBefore, r.handed) {
				fail(id, "proxy-wrong-bytes", tag+"cache hit, but the bytes handed out are not the cached ones", c)
			}
		} else if !bytes.HasPrefix(st, r.handed) {
			fail(id, "proxy-wrong-bytes", tag+"the bytes handed out are not a prefix of what the base store served", c)
		}
		for _, e := range hooks.MemoryEntries(cache) {
			if !matches(e.Content, e.Digest, e.Size) {
				fail(id, "cache-holds-bad", tag+fmt.Sprintf("cache holds %d bytes under %s size %d", len(e.Content), e.Digest, e.Size), c)
			}
			if e.MediaType == p.MT && e.Digest == p.DG && e.Size == p.SZ && !hit {
				if p.Stop {
					fail(id, "cache-filled-while-stopped", tag+"StopCaching is set but the cache was filled", c)
				}
				if !bytes.HasPrefix(st, e.Content) {
					fail(id, "cache-holds-foreign", tag+"the cached bytes were never served by the base store", c)
				}
			}
		}
	}
	return strings.Join(obs, " ") + " B=" + joinListing(memListing(cache))
}

// ---------------------------------------------------------------- dispatch

func runCase(c *Case) {
	id := run.NewID()
	var obs string
	switch c.Op {
	case "RA", "FA":
		obs = runRA(id, c)
	case "CB":
		obs = runCB(id, c)
	case "VR":
		obs = runVR(id, c)
	case "ST", "SX":
		obs = runST(id, c)
		if c.Op == "SX" {
			obs = "-"
		}
	case "CW":
		obs = runCW(id, c)
	case "CC":
		obs = runCC(id, c)
	case "PX":
		obs = runPX(id, c)
	case "PF":
		obs = runPF(id, c)
	}
	run.Case(id, c.line(), obs)
	run.Count("op:" + c.Op)
	if c.Kind != "" {
		k := c.Kind
		if strings.HasPrefix(k, "lim") {
			k = "lim"
		}
		if strings.HasPrefix(k, "olim") {
			k = "olim"
		}
		run.Count("store:" + k)
	}
	for _, p := range c.Pushes {
		if p.Name != "" && cleanName(p.Name) != p.Name {
			run.Count("gen:alias-name")
		}
		if p.SZ > hugeSize {
			run.Count("gen:huge-size")
		}
		for _, e := range p.Script {
			if e.Kind == 'E' {
				run.Count("gen:reader-continues-after-eof")
				break
			}
		}
		if len(streamOf(p.Script)) > 1<<20 {
			run.Count("gen:blob>1MiB")
		}
		w := whyBad(p)
		if w == "" {
			w = "good"
			if len(beforeEOF(p.Script)) > int(p.SZ) {
				w = "good+trailing"
			}
		}
		run.Count("input:" + w)
	}
	if !strings.HasPrefix(obs, "OK") || len(c.Pushes) > 1 || len(c.Pushes[0].Script) > 1 {
		run.Nontrivial(c.body())
	}
	if c.Op == "ST" && len(c.Pushes) > 1 && strings.Contains(obs, "MISMATCH") {
		run.Sample(map[string]string{"case": trunc(c.body(), 300), "observed": trunc(obs, 300)})
	}
}

func trunc(s string, n int) string {
	if len(s) > n {
		return s[:n] + "..."
	}
	return s
}

// ---------------------------------------------------------------- generator

var mediaTypes = []string{"application/octet-stream", "application/vnd.oci.image.layer.v1.tar", "text/plain"}

func randBytes(r *common.Rand, n int) []byte {
	b := make([]byte, n)
	for i := range b {
		b[i] = byte(r.Intn(256))
	}
	return b
}

func genData(r *common.Rand) []byte {
	switch k := r.Intn(16); {
	case k < 2:
		return nil
	case k < 8:
		return randBytes(r, 1+r.Intn(8))
	case k < 13:
		return randBytes(r, 1+r.Intn(64))
	case k < 15:
		return randBytes(r, 64+r.Intn(400))
	default:
		return randBytes(r, 400+r.Intn(1700))
	}
}

func digestFor(alg string, b []byte) string {
	hx, _ := shaHex(alg, b)
	return alg + ":" + hx
}

// chunk splits data at random points and sprinkles 0-byte reads
func chunk(r *common.Rand, data []byte, zeros bool) []Ev {
	var evs []Ev
	for len(data) > 0 {
		if zeros && r.Chance(1, 6) {
			evs = append(evs, Ev{Kind: 'Z'})
		}
		n := len(data)
		if r.Chance(3, 4) {
			n = 1 + r.Intn(len(data))
			if r.Chance(1, 3) && n > 3 {
				n = 1 + r.Intn(3)
			}
		}
		evs = append(evs, Ev{Kind: 'D', Data: data[:n]})
		data = data[n:]
		if len(evs) > 40 {
			evs = append(evs, Ev{Kind: 'D', Data: data})
			break
		}
	}
	if zeros && r.Chance(1, 6) {
		evs = append(evs, Ev{Kind: 'Z'})
	}
	return evs
}

var badDigests = []func(good string) string{
	func(g string) string { return "" },
	func(g string) string { return strings.Replace(g, ":", "", 1) },
	func(g string) string { return strings.ToUpper(g) },
	func(g string) string { return algOf(g) + ":" + strings.ToUpper(g[len(algOf(g))+1:]) },
	func(g string) string { return g[:len(g)-1] },
	func(g string) string { return g + "0" },
	func(g string) string { return algOf(g) + ":" },
	func(g string) string { return "sha1:da39a3ee5e6b4b0d3255bfef95601890afd80709" },
	func(g string) string { return "md5:d41d8cd98f00b204e9800998ecf8427e" },
	func(g string) string { return g[:len(g)-1] + "g" },
	func(g string) string { return "sha512:" + g[len(algOf(g))+1:] },
	func(g string) string { return ":" + g[len(algOf(g))+1:] },
	func(g string) string { return g + ":" + g },
	func(g string) string { return " " + g },
	func(g string) string { return g + "\n" },
	func(g string) string { return g[:10] + "\x00" + g[11:] },
	func(g string) string { return g[:len(g)-2] + "\u00e9" },
	func(g string) string { return "sha256\n:" + g[len(algOf(g))+1:] },
}

// genPush derives a (descriptor, reader) pair from good data; most are faulty in one way.
func genPush(r *common.Rand, data []byte) Push {
	alg := "sha256"
	switch r.Intn(10) {
	case 0:
		alg = "sha384"
	case 1:
		alg = "sha512"
	}
	p := Push{MT: mediaTypes[0], DG: digestFor(alg, data), SZ: int64(len(data)), Comb: r.Chance(1, 3)}
	if r.Chance(1, 6) {
		p.MT = common.Pick(r, mediaTypes)
	}
	stream := append([]byte(nil), data...)
	// descriptor variant
	switch k := r.Intn(24); {
	case k < 9: // right
	case k < 11:
		other := append([]byte(nil), data...)
		other = append(other, 'x')
		p.DG = digestFor(alg, other)
	case k < 12:
		p.DG = digestFor(alg, nil)
	case k < 14:
		p.SZ += int64(1 + r.Intn(2))
	case k < 16:
		p.SZ -= int64(1 + r.Intn(2))
	case k < 17:
		p.SZ = 0
		if r.Chance(1, 2) { // a size no allocation can satisfy
			p.SZ = common.Pick(r, []int64{1 << 62, 1<<63 - 1, 1<<62 + 12345})
		}
	case k < 20:
		p.SZ = -int64(1 + r.Intn(5))
		if r.Chance(1, 2) { // the empty blob with a negative size
			stream = nil
			p.DG = digestFor(alg, nil)
		}
	default:
		p.DG = common.Pick(r, badDigests)(p.DG)
	}
	// reader variant
	zeros := r.Chance(1, 3)
	switch k := r.Intn(20); {
	case k < 9: // exactly the data
		p.Script = chunk(r, stream, zeros)
	case k < 11: // ends early
		cut := 0
		if len(stream) > 0 {
			cut = r.Intn(len(stream))
		}
		p.Script = chunk(r, stream[:cut], zeros)
	case k < 13: // trailing bytes
		if r.Chance(1, 2) { // ... that come right after a 0-byte read at offset Size
			p.Script = append(chunk(r, stream, zeros), Ev{Kind: 'Z'})
			if r.Chance(1, 3) {
				p.Script = append(p.Script, Ev{Kind: 'Z'})
			}
			p.Script = append(p.Script, Ev{Kind: 'D', Data: randBytes(r, 1+r.Intn(3))})
		} else {
			p.Script = chunk(r, append(append([]byte(nil), stream...), randBytes(r, 1+r.Intn(3))...), zeros)
		}
	case k < 15: // one byte flipped
		bad := append([]byte(nil), stream...)
		if len(bad) > 0 {
			bad[r.Intn(len(bad))] ^= byte(1 + r.Intn(255))
		} else {
			bad = []byte{0}
		}
		p.Script = chunk(r, bad, zeros)
	case k < 18: // error at an offset (possibly after all data)
		evs := chunk(r, stream, zeros)
		at := r.Intn(len(evs) + 1)
		evs = append(evs[:at:at], append([]Ev{{Kind: 'F'}}, evs[at:]...)...)
		if r.Chance(1, 3) { // a reader that keeps going after an error and fails again
			at2 := r.Intn(len(evs) + 1)
			evs = append(evs[:at2:at2], append([]Ev{{Kind: 'F'}}, evs[at2:]...)...)
		}
		p.Script = evs
	case k < 19: // empty reader
		p.Script = nil
		if r.Bool() {
			p.Script = []Ev{{Kind: 'Z'}, {Kind: 'Z'}}
		}
	default: // first Size bytes right, then a different tail; or a prefix-only match
		p.Script = chunk(r, append(append([]byte(nil), stream...), stream...), zeros)
	}
	if r.Chance(1, 7) { // a reader for which io.EOF is not final: (0, EOF) once, then it goes on
		at := r.Intn(len(p.Script) + 1)
		evs := append(p.Script[:at:at], append([]Ev{{Kind: 'E'}}, p.Script[at:]...)...)
		if r.Chance(1, 3) {
			evs = append(evs, Ev{Kind: 'D', Data: randBytes(r, 1+r.Intn(3))})
		}
		p.Script = evs
	}
	return p
}

func genName(r *common.Rand) string {
	if r.Chance(1, 12) { // leaves the working directory: refused by resolveWritePath
		return common.Pick(r, []string{"../x", "a/../../y", "/c05-outside/x", "sub/../../../z", ".."})
	}
	if r.Chance(1, 4) { // a second spelling of one of the plain names (same resolved path)
		return common.Pick(r, []string{"./a", "x/../a", "sub/../b", "./data.bin", "./x1", "a/.", "sub/./f", "sub/f", "sub//f", "a/", "./sub/../sub/f", "q/r/../../a"})
	}
	return common.Pick(r, []string{"a", "b", "data.bin", "x1", "layer.tar", "sub/f"})
}

func genHistory(r *common.Rand, kind string) *Case {
	c := &Case{Op: "ST", Kind: kind}
	data := genData(r)
	n := 1 + r.Intn(3)
	for i := 0; i < n; i++ {
		var p Push
		switch {
		case i > 0 && r.Chance(1, 3): // same descriptor again (retry / duplicate), fresh reader variant
			prev := c.Pushes[r.Intn(i)]
			p = genPush(r, data)
			if r.Bool() {
				p.DG, p.SZ, p.MT = prev.DG, prev.SZ, prev.MT
			} else {
				p.DG = prev.DG
			}
		case i > 0 && r.Chance(1, 4):
			p = genPush(r, genData(r))
		default:
			p = genPush(r, data)
		}
		if kind == "file" && r.Chance(2, 3) {
			p.Name = genName(r)
		}
		c.Pushes = append(c.Pushes, p)
	}
	if kind == "lim" || kind == "olim" {
		lim := int64(len(data)) + int64(r.Intn(5)) - 2
		if r.Chance(1, 3) {
			lim = 1 << 20
		}
		if lim < 0 {
			lim = 0
		}
		c.Kind = fmt.Sprintf("%s%d", kind, lim)
	}
	return c
}

func genSingle(r *common.Rand, op string) *Case {
	p := genPush(r, genData(r))
	c := &Case{Op: op, Lim: "-", Pushes: []Push{p}}
	if r.Chance(1, 5) && p.SZ < hugeSize {
		c.Lim = strconv.FormatInt(common.Pick(r, []int64{0, 1, p.SZ - 2, p.SZ - 1, p.SZ, p.SZ + 1, p.SZ + 2, 1 << 20}), 10)
	}
	switch op {
	case "CB":
		c.BufSz = common.Pick(r, []int{1, 1, 2, 3, 5, 8, 16, 64, 4096, 100000})
	case "VR":
		if c.Lim != "-" && r.Chance(1, 2) { // half of the limited ones stay limited
			c.Lim = "-"
		}
		n := 1 + r.Intn(8)
		for i := 0; i < n; i++ {
			if r.Chance(1, 4) {
				c.Ops = append(c.Ops, "v")
			} else {
				c.Ops = append(c.Ops, fmt.Sprintf("r%d", common.Pick(r, []int{0, 1, 1, 2, 3, 7, 64, 5000})))
			}
		}
		c.Ops = append(c.Ops, "v")
		if r.Bool() {
			c.Ops = append(c.Ops, "r4", "v")
		}
	}
	return c
}

func genKs(r *common.Rand, total int) []int {
	var ks []int
	left := total + 2
	for n := 0; n < 12 && left > 0; n++ {
		k := common.Pick(r, []int{0, 1, 2, 3, 7, 64, 5000})
		if r.Chance(1, 3) {
			k = 1 + r.Intn(total+2)
		}
		ks = append(ks, k)
		left -= k
	}
	if r.Chance(4, 5) { // usually read to the end (and once more)
		ks = append(ks, 5000, 1)
	}
	return ks
}

func genProxy(r *common.Rand) *Case {
	c := &Case{Op: "PF", Kind: "mem"}
	data := genData(r)
	if r.Chance(1, 3) {
		lim := int64(len(data)) + int64(r.Intn(5)) - 2
		if r.Chance(1, 3) {
			lim = 1 << 20
		}
		if lim < 0 {
			lim = 0
		}
		c.Kind = fmt.Sprintf("lim%d", lim)
	}
	n := 1 + r.Intn(3)
	for i := 0; i < n; i++ {
		p := genPush(r, data)
		if i > 0 && r.Chance(1, 2) {
			prev := c.Pushes[r.Intn(i)]
			p.DG, p.SZ, p.MT = prev.DG, prev.SZ, prev.MT
		}
		if p.SZ > hugeSize { // a panic in the proxy's push goroutine cannot be recovered by the harness
			p.SZ = int64(len(data)) + 1
		}
		p.Stop = r.Chance(1, 5)
		p.Ks = genKs(r, len(streamOf(p.Script)))
		c.Pushes = append(c.Pushes, p)
	}
	return c
}

// oracle-only histories on the public wrappers and on file-store options
func genOption(r *common.Rand) *Case {
	kind := common.Pick(r, []string{"ocistore", "memstore", "fileD", "fileC", "fileI", "fileF"})
	base := "mem"
	if strings.HasPrefix(kind, "file") {
		base = "file"
	}
	c := genHistory(r, base)
	c.Op, c.Kind = "ST", kind // judged by the model as well (options / wrappers are modelled)
	return c
}

// blobs larger than every buffer on the way (1 MiB pool buffer, 32 KiB copy buffer,
// 16 MiB ReadAll preallocation bound); pseudo-random data regenerated from a seed
func genHugeBlob(r *common.Rand, kind string, n int) *Case {
	seed := r.U64() >> 1
	data := genBytes(n, seed)
	p := Push{MT: mediaTypes[0], DG: digestFor("sha256", data), SZ: int64(len(data))}
	p.Script = []Ev{{Kind: 'D', Data: data, Gen: fmt.Sprintf("%d:%d", n, seed)}}
	switch r.Intn(5) {
	case 0:
		p.SZ++ // one byte short
	case 1:
		p.Script = append(p.Script, Ev{Kind: 'D', Data: []byte{1}}) // trailing byte
	case 2:
		p.DG = digestFor("sha256", data[:len(data)-1])
	case 3:
		p.Script = append(p.Script, Ev{Kind: 'F'})
	}
	if strings.HasPrefix(kind, "file") {
		p.Name = "huge.bin"
	}
	return &Case{Op: "SX", Kind: kind, Pushes: []Push{p}}
}

func genFaultyWrite(r *common.Rand) *Case {
	c := genSingle(r, "CB")
	c.Op = "CW"
	c.WMode = common.Pick(r, []string{"fail", "short"})
	c.WAt = r.Intn(len(streamOf(c.Pushes[0].Script)) + 2)
	return c
}

func genBig(r *common.Rand, kind string) *Case {
	data := randBytes(r, 32768+r.Intn(40000))
	p := Push{MT: mediaTypes[0], DG: digestFor("sha256", data), SZ: int64(len(data))}
	stream := data
	switch r.Intn(4) {
	case 0:
		stream = data[:len(data)-1-r.Intn(100)]
	case 1:
		stream = append(append([]byte(nil), data...), 7)
	case 2:
		stream = append([]byte(nil), data...)
		stream[len(stream)-1-r.Intn(40000)%len(stream)] ^= 1
	}
	for len(stream) > 0 {
		n := 1 + r.Intn(40000)
		if n > len(stream) {
			n = len(stream)
		}
		p.Script = append(p.Script, Ev{Kind: 'D', Data: stream[:n]})
		stream = stream[n:]
	}
	if kind == "file" {
		p.Name = "big.bin"
	}
	return &Case{Op: "ST", Kind: kind, Pushes: []Push{p}}
}

func genConcurrent(r *common.Rand, kind string) *Case {
	size := 1 + r.Intn(3000)
	n := 1 + r.Intn(4)
	if (kind == "oci" || kind == "ocistore" || kind == "mem" || kind == "file" || strings.HasPrefix(kind, "lim")) && r.Chance(2, 3) { // small enough for the model's exhaustive interleaving
		n = 1 // two racers; three (up to 1680 interleavings in the model) in a quarter of the cases
		if r.Chance(1, 4) {
			n = 2
		}
		size = 1 + r.Intn(120)
	}
	data := randBytes(r, size)
	good := Push{MT: mediaTypes[0], DG: digestFor("sha256", data), SZ: int64(len(data))}
	good.Script = chunk(r, data, false)
	c := &Case{Op: "CC", Kind: kind, Pushes: []Push{good}}
	for i := 0; i < n; i++ {
		p := good
		p.Comb = r.Bool()
		switch r.Intn(5) {
		case 0: // another good one
			p.Script = chunk(r, data, true)
		case 1: // same length, wrong bytes
			bad := append([]byte(nil), data...)
			bad[r.Intn(len(bad))] ^= 0x55
			p.Script = chunk(r, bad, false)
		case 2: // truncated
			p.Script = chunk(r, data[:r.Intn(len(data))], false)
		case 3: // fails midway
			evs := chunk(r, data, false)
			at := r.Intn(len(evs))
			p.Script = append(evs[:at:at], Ev{Kind: 'F'})
		default: // trailing
			p.Script = chunk(r, append(append([]byte(nil), data...), 1), false)
		}
		if r.Chance(1, 5) { // same digest, another Size: never acceptable
			p.SZ = good.SZ + common.Pick(r, []int64{1, -1})
			if p.SZ < 0 {
				p.SZ = 1
			}
		}
		c.Pushes = append(c.Pushes, p)
	}
	if strings.HasPrefix(kind, "file") { // one digest under two names, one name twice
		for i := range c.Pushes {
			c.Pushes[i].Name = common.Pick(r, []string{"n1", "n1", "n2"})
		}
	}
	return c
}

// exhaustive chunkings of a short string: every composition of len(data), with the
// descriptor right or off by one
func exhaustive(maxLen int) {
	for n := 0; n <= maxLen; n++ {
		data := []byte("abcdefgh")[:n]
		for mask := 0; mask < 1<<uint(max(n-1, 0)); mask++ {
			var evs []Ev
			start := 0
			for i := 1; i <= n; i++ {
				if i == n || mask&(1<<uint(i-1)) != 0 {
					evs = append(evs, Ev{Kind: 'D', Data: data[start:i]})
					start = i
				}
			}
			for _, dsz := range []int64{0, -1, 1} {
				for _, comb := range []bool{false, true} {
					p := Push{MT: mediaTypes[0], DG: digestFor("sha256", data), SZ: int64(n) + dsz, Comb: comb, Script: evs}
					runCase(&Case{Op: "RA", Lim: "-", Pushes: []Push{p}})
					runCase(&Case{Op: "CB", Lim: "-", BufSz: 1 + mask%3, Pushes: []Push{p}})
					if dsz == 0 {
						runCase(&Case{Op: "ST", Kind: "oci", Pushes: []Push{p}})
					}
				}
			}
		}
	}
}

// small-scope exhaustive push histories: every pair of pushes drawn from a small universe
// of (descriptor, reader) variants over two payloads, on every modelled store kind
func exhaustiveHistories(full bool) {
	payloads := [][]byte{[]byte("ab"), {}}
	var variants []Push
	for _, data := range payloads {
		other := append(append([]byte(nil), data...), 'z')
		good := Push{MT: mediaTypes[0], DG: digestFor("sha256", data), SZ: int64(len(data))}
		one := func(d []byte) []Ev {
			if len(d) == 0 {
				return nil
			}
			return []Ev{{Kind: 'D', Data: d}}
		}
		mk := func(f func(p *Push)) {
			p := good
			p.Script = one(data)
			f(&p)
			variants = append(variants, p)
		}
		mk(func(p *Push) {})                                                                                         // good
		mk(func(p *Push) { p.Script = []Ev{{Kind: 'Z'}}; p.Script = append(p.Script, one(data)...); p.Comb = true }) // 0-byte read, data+EOF
		mk(func(p *Push) { p.Script = one(other) })                                                                  // trailing byte
		mk(func(p *Push) { p.Script = nil })                                                                         // empty reader
		mk(func(p *Push) { p.Script = append(one(data), Ev{Kind: 'F'}) })                                            // error after the data
		mk(func(p *Push) { p.Script = append([]Ev{{Kind: 'F'}}, one(data)...) })                                     // error first
		mk(func(p *Push) { p.DG = digestFor("sha256", other) })                                                      // wrong digest
		mk(func(p *Push) { p.SZ++ })                                                                                 // size + 1
		mk(func(p *Push) { p.SZ = -1 })                                                                              // negative
		mk(func(p *Push) { p.DG = "sha1:da39a3ee5e6b4b0d3255bfef95601890afd80709" })                                 // unsupported
		mk(func(p *Push) { p.DG = digestFor("sha512", data) })                                                       // other algorithm, good
	}
	kinds := []string{"mem", "oci", "file", "lim2", "olim1", "fileD", "fileI", "fileF", "ocistore", "memstore"}
	names := []string{"", "a", "./a", "b"}
	for ki, kind := range kinds {
		for i, p1 := range variants {
			for j, p2 := range variants {
				if !full && (i+j+ki)%7 != 0 { // quick tier: a seventh of the pairs
					continue
				}
				a, c := p1, p2
				if strings.HasPrefix(kind, "file") {
					a.Name = names[(i+j)%len(names)]
					c.Name = names[(i*3+j+1)%len(names)]
				}
				run.Count("gen:exhaustive-history")
				runCase(&Case{Op: "ST", Kind: kind, Pushes: []Push{a, c}})
			}
		}
	}
}

func main() {
	run = common.Start("C05")
	defer run.Finish()
	run.Rule = "scripted readers (random chunking, 0-byte reads, injected error at any offset, data+EOF in one call) x descriptors (right / wrong digest, size -2..+2, 0, negative, 14 malformed or unsupported digest forms, sha256/384/512) on ReadAll, VerifyReader, CopyBuffer and push histories of 1-3 pushes on memory, limited (memory and OCI) , OCI and file stores; exhaustive chunkings of short strings; concurrent good/bad pushes of one digest; caching proxy; distinct = distinct case text; non-trivial = an error outcome, a history of several pushes or a multi-event reader"

	if run.Replay != "" {
		for _, c := range common.ReadReplay(run.Replay) {
			if l := c["line"]; l != "" {
				runCase(decodeBody(l))
			}
		}
		return
	}
	r := run.Rand
	exhaustive(run.Scale(4, 8))
	exhaustiveHistories(run.Thorough())
	n := run.Scale(8000, 350000)
	for i := 0; i < n; i++ {
		switch k := r.Intn(20); {
		case k < 3:
			c := genSingle(r, "RA")
			if r.Chance(1, 3) {
				c.Op = "FA"
			}
			runCase(c)
		case k < 6:
			runCase(genSingle(r, "CB"))
		case k < 8:
			runCase(genSingle(r, "VR"))
		case k < 11:
			runCase(genHistory(r, "mem"))
		case k < 13:
			runCase(genHistory(r, "lim"))
		case k < 16:
			runCase(genHistory(r, "oci"))
		case k < 17:
			runCase(genHistory(r, "olim"))
		default:
			runCase(genHistory(r, "file"))
		}
	}
	for i := 0; i < run.Scale(10, 100); i++ {
		runCase(genBig(r, common.Pick(r, []string{"oci", "file", "mem"})))
	}
	for i := 0; i < run.Scale(400, 10000); i++ {
		runCase(genConcurrent(r, common.Pick(r, []string{"oci", "oci", "mem", "lim1000000", "file", "file", "ocistore"})))
	}
	for i := 0; i < run.Scale(700, 25000); i++ {
		runCase(genProxy(r))
	}
	for i := 0; i < run.Scale(300, 15000); i++ {
		p := genPush(r, genData(r))
		if p.SZ > hugeSize {
			p.SZ = 3
		}
		kind := "mem"
		if r.Chance(1, 3) {
			kind = fmt.Sprintf("lim%d", p.SZ+int64(r.Intn(3))-1)
		}
		runCase(&Case{Op: "PX", Kind: kind, Pushes: []Push{p}})
	}
	for i := 0; i < run.Scale(900, 30000); i++ {
		runCase(genOption(r))
	}
	for i := 0; i < run.Scale(400, 10000); i++ {
		runCase(genFaultyWrite(r))
	}
	for i := 0; i < run.Scale(6, 60); i++ {
		runCase(genHugeBlob(r, common.Pick(r, []string{"oci", "file", "mem", "ocistore"}), 1<<20+1+r.Intn(600000)))
	}
	for i := 0; i < run.Scale(2, 8); i++ { // beyond ReadAll's preallocation bound
		runCase(genHugeBlob(r, "mem", 16<<20+1+r.Intn(100000)))
	}

	// coverage floors: a stream that produced nothing is a broken check, not a pass
	var missing []string
	for _, k := range []string{"op:RA", "op:FA", "op:CB", "op:VR", "op:ST", "op:CC", "op:PF", "op:PX", "op:SX", "op:CW",
		"store:mem", "store:lim", "store:oci", "store:olim", "store:file", "store:ocistore", "store:memstore",
		"store:fileD", "store:fileC", "store:fileI", "store:fileF",
		"input:good", "input:good+trailing", "input:bad-digest", "input:digest-mismatch", "input:negative-size", "input:short-or-failed",
		"cw:fail:fault", "cw:short:fault", "judged:cc-membership", "gen:alias-name", "gen:huge-size", "gen:blob>1MiB", "gen:exhaustive-history", "judged:inflight", "gen:reader-continues-after-eof"} {
		if run.Dist[k] == 0 {
			missing = append(missing, k)
		}
	}
	if len(missing) > 0 {
		run.Finish()
		fmt.Fprintln(os.Stderr, "coverage floor violated, nothing generated/judged for:", strings.Join(missing, " "))
		os.Exit(3)
	}
}
