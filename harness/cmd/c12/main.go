// C12 harness: files and directories added to a file store come back identical.
//
// For every generated scenario the real code is driven through
//
//	file.Store.Add -> oras.PackManifest -> oras.Copy -> {memory | OCI layout} -> oras.Copy/CopyGraph -> second file.Store
//
// and the harness writes
//
//	cases.txt  model inputs (tar entry list T, extraction X, reproducibility P, name/digest machine M, unpack U)
//	impl.txt   what the implementation did (decoded tar headers, restored listing, descriptor equality, names, push verdicts)
//	oracle.txt direct violations of the property judged against the generator's own tree (never against the model)
//
// Everything on disk lives under -dir.
package main

import (
	"archive/tar"
	"bytes"
	"compress/gzip"
	"context"
	"crypto/sha256"
	_ "crypto/sha512"
	"encoding/hex"
	"encoding/json"
	"errors"
	"flag"
	"fmt"
	"io"
	"os"
	"os/exec"
	"path/filepath"
	"sort"
	"strings"
	"sync"
	"syscall"
	"time"
	"unsafe"

	"github.com/opencontainers/go-digest"
	ocispec "github.com/opencontainers/image-spec/specs-go/v1"
	oras "oras.land/oras-go/v2"
	"oras.land/oras-go/v2/content/file"
	"oras.land/oras-go/v2/content/memory"
	"oras.land/oras-go/v2/content/oci"
	"oras.land/oras-go/v2/registry/remote"
	"verifharness/common"
)

var run *common.Run

// ---------- scenario (this is also the replay object) ----------

type Node struct {
	Kind     string  `json:"k"`           // f d l
	Name     string  `json:"n,omitempty"` // hex
	Mode     uint32  `json:"m,omitempty"` // unix 12-bit mode
	Mtime    int64   `json:"t,omitempty"` // seconds
	Mtime2   int64   `json:"t2,omitempty"`
	Seed     uint64  `json:"s,omitempty"` // file content = stream(Seed)[:Len]
	Len      int     `json:"l,omitempty"`
	Target   string  `json:"g,omitempty"` // hex, symlink target
	HardOf   string  `json:"h,omitempty"` // hex, name of the sibling file this file is a hard link of
	Children []*Node `json:"c,omitempty"`
}

type Item struct {
	Name    string `json:"name"` // hex; the name given to Store.Add, relative
	Tree    *Node  `json:"tree"`
	ViaLink bool   `json:"viaLink,omitempty"` // the added path is a symbolic link to the file or directory
	Path    string `json:"path,omitempty"`    // hex; non-empty: the path argument of Add (relative to the working directory, or "/" + that for absolute)
}

// srcPath is where the item lives below the source working directory, addArg the path argument of Add.
func (it Item) srcPath() string {
	if it.Path == "" {
		return unhx(it.Name)
	}
	return strings.TrimPrefix(unhx(it.Path), "/")
}

func (it Item) addArg(workdir string) string {
	p := unhx(it.Path)
	if strings.HasPrefix(p, "/") {
		return filepath.Join(workdir, p[1:])
	}
	return p
}

type Scenario struct {
	Op           string `json:"op"`
	Items        []Item `json:"items"`
	Umask        int    `json:"umask"`
	Repro        bool   `json:"repro"`
	Preserve     bool   `json:"preserve"`
	SkipUnpack   bool   `json:"skipUnpack"`
	ForceCAS     bool   `json:"forceCAS"`
	IgnoreNoName bool   `json:"ignoreNoName"`
	Via          string `json:"via"` // memory | oci
	Tamper       bool   `json:"tamper"`
	ReproPair    bool   `json:"reproPair"`
	Foreign      uint64 `json:"foreign,omitempty"`     // != 0: also push a re-ordered archive of the first directory (seed)
	ForeignPerm  int    `json:"foreignPerm,omitempty"` // > 0: ONLY push the archive of the first directory with its entries in the (n-1)-th permutation
	DstSetgid    bool   `json:"dstSetgid,omitempty"`   // the second store's working directory is set-group-ID: every directory made in it inherits the bit
	NonRoot      bool   `json:"nonRoot,omitempty"`     // run by an unprivileged user (uid 65534): permission checks of the kernel apply
}

func hx(s string) string   { return hex.EncodeToString([]byte(s)) }
func unhx(h string) string { b, _ := hex.DecodeString(h); return string(b) }

func (n *Node) name() string   { return unhx(n.Name) }
func (n *Node) target() string { return unhx(n.Target) }

func content(seed uint64, n int) []byte {
	out := make([]byte, n)
	r := common.NewRand(seed)
	i := 0
	for i+8 <= n {
		v := r.U64()
		for k := 0; k < 8; k++ {
			out[i+k] = byte(v >> (8 * k))
		}
		i += 8
	}
	if i < n {
		v := r.U64()
		for ; i < n; i++ {
			out[i] = byte(v)
			v >>= 8
		}
	}
	return out
}

var hashCache sync.Map

func contentHash(seed uint64, n int) string {
	k := fmt.Sprintf("%d/%d", seed, n)
	if v, ok := hashCache.Load(k); ok {
		return v.(string)
	}
	h := sha256.Sum256(content(seed, n))
	s := hex.EncodeToString(h[:])
	hashCache.Store(k, s)
	return s
}

// ---------- generator ----------

var namePool = []string{"a", "b", "c", "A", "a.b", "a-b", "a b", "a0", "ab", ".hidden", "x.txt", "data.bin", "zz", "z",
	"..a", "...", "..data", "..hidden", "..", "README", "ünï", "日本語", "é", "sub", "lib", "0", "_", "a+b", "a,b", "a=b", "~", "a\\b", "a:b", "%41", "a'b", "a\"b", "*", "?", "#", "[x]", "{y}"}

func genName(r *common.Rand, used map[string]bool) string {
	for {
		var s string
		switch r.Intn(12) {
		case 0:
			s = strings.Repeat(common.Pick(r, []string{"L", "long-", "n"}), 1)
			for len(s) < 101+r.Intn(120) {
				s += string(rune('a' + r.Intn(26)))
			}
		case 1:
			s = common.Pick(r, []string{"ü", "日本", "ж", "é"}) + fmt.Sprint(r.Intn(50))
		case 2:
			s = fmt.Sprintf("f%d", r.Intn(1000))
		default:
			s = common.Pick(r, namePool)
		}
		if s == ".." { // not a name; names that merely BEGIN with two dots are
			s = common.Pick(r, []string{"..a", "...", "..data", "..b.c", "..ü"})
		}
		if !used[s] {
			used[s] = true
			return s
		}
	}
}

var fileModes = []uint32{0o644, 0o600, 0o755, 0o400, 0o444, 0o640, 0o666, 0o777, 0o700, 0o664, 0o750, 0o711, 0o604, 0o422, 0o500}
var dirModes = []uint32{0o755, 0o700, 0o750, 0o777, 0o555, 0o711, 0o775, 0o500, 0o751, 0o770}

func genSize(r *common.Rand, big bool) int {
	switch r.Intn(14) {
	case 0, 1, 2:
		return 0
	case 3:
		return common.Pick(r, []int{1, 511, 512, 513, 1023, 1024, 1025, 4096})
	case 4:
		return 1 + r.Intn(64<<10)
	case 5:
		if big {
			return (1 << 20) + r.Intn(3)*(1<<19) + r.Intn(3) - 1
		}
		return 1 + r.Intn(5000)
	default:
		return 1 + r.Intn(300)
	}
}

const baseTime = 1_500_000_000

func genTime(r *common.Rand) int64 { return baseTime + int64(r.Intn(200_000_000)) }

type genCtx struct {
	r       *common.Rand
	budget  int
	big     bool
	badLink bool
	special bool
	seeds   []uint64 // content seeds to draw duplicates from
}

func (g *genCtx) file() *Node {
	r := g.r
	var seed uint64
	if len(g.seeds) > 0 && r.Chance(1, 4) {
		seed = common.Pick(r, g.seeds)
	} else {
		seed = r.U64() % 1000003
		g.seeds = append(g.seeds, seed)
	}
	ln := genSize(common.NewRand(seed), g.big) // size is a function of the seed: equal seeds = equal bytes
	mode := common.Pick(r, fileModes)
	if g.special && r.Chance(1, 3) {
		mode |= common.Pick(r, []uint32{0o4000, 0o2000, 0o1000, 0o6000, 0o7000})
	}
	return &Node{Kind: "f", Mode: mode, Mtime: genTime(r), Mtime2: genTime(r), Seed: seed, Len: ln}
}

func (g *genCtx) dir(depth int) *Node {
	r := g.r
	d := &Node{Kind: "d", Mode: common.Pick(r, dirModes), Mtime: genTime(r), Mtime2: genTime(r)}
	if g.special && r.Chance(1, 3) {
		d.Mode |= common.Pick(r, []uint32{0o1000, 0o1000, 0o2000, 0o4000, 0o6000, 0o3000, 0o7000})
	}
	n := r.Intn(6)
	if depth == 0 && n == 0 && r.Chance(2, 3) {
		n = 1 + r.Intn(4)
	}
	used := map[string]bool{}
	for i := 0; i < n && g.budget > 0; i++ {
		g.budget--
		var c *Node
		switch k := r.Intn(10); {
		case k < 5:
			c = g.file()
		case k < 8 && depth < 4:
			c = g.dir(depth + 1)
		case k < 8:
			c = g.file()
		default:
			c = &Node{Kind: "l", Mtime: genTime(r), Mtime2: genTime(r)} // target filled in later
		}
		c.Name = hx(genName(r, used))
		d.Children = append(d.Children, c)
		if c.Kind == "f" && r.Chance(1, 12) { // a hard link to it: Add treats it as a regular file
			h := *c
			h.Name = hx(genName(r, used))
			h.HardOf = c.Name
			d.Children = append(d.Children, &h)
		}
	}
	return d
}

// walkNodes visits the tree with relative component paths.
func walkNodes(n *Node, rel []string, f func(rel []string, n *Node)) {
	f(rel, n)
	for _, c := range n.Children {
		walkNodes(c, append(append([]string{}, rel...), c.name()), f)
	}
}

// fillLinks gives every symlink a relative target.
func (g *genCtx) fillLinks(root *Node) {
	r := g.r
	var all [][]string
	var dirs [][]string
	var links [][]string
	var files [][]string
	walkNodes(root, nil, func(rel []string, n *Node) {
		if len(rel) > 0 {
			all = append(all, rel)
		}
		if n.Kind == "f" {
			files = append(files, rel)
		}
		if n.Kind == "d" {
			dirs = append(dirs, rel)
		}
		if n.Kind == "l" {
			links = append(links, rel)
		}
	})
	walkNodes(root, nil, func(rel []string, n *Node) {
		if n.Kind != "l" {
			return
		}
		depth := len(rel) - 1 // components of the link's directory
		var t string
		switch k := r.Intn(10); {
		case k < 4 && len(all) > 0: // an existing path, written relative to the link's directory
			dst := common.Pick(r, all)
			up := depth
			// strip the common prefix
			i := 0
			for i < depth && i < len(dst) && rel[i] == dst[i] {
				i++
			}
			up = depth - i
			t = strings.Repeat("../", up) + strings.Join(dst[i:], "/")
			if t == "" {
				t = "."
			}
		case k < 5:
			t = common.Pick(r, []string{"missing", "no/such/file", "./x", "a//b", "a/./b", "x/", "..x", "..a/b", "a/..b", "...", ".../x", "./..data"})
		case k < 6 && r.Chance(1, 2): // long and non-ASCII targets (PAX linkpath records)
			t = common.Pick(r, []string{"", "../", "./"}) + strings.Repeat(common.Pick(r, []string{"l", "ü", "日"}), 60+r.Intn(120)) + common.Pick(r, []string{"", "/x", "/..y"})
			if strings.HasPrefix(t, "../") && depth == 0 {
				t = t[3:]
			}
			run.Count("link-target>100")
		case k < 6:
			t = "."
		case k < 7 && depth > 0:
			t = strings.Repeat("../", 1+r.Intn(depth))
			t = strings.TrimSuffix(t, "/")
		case k < 8 && depth > 0:
			t = "../" + common.Pick(r, namePool)
		default:
			t = common.Pick(r, namePool)
		}
		if g.badLink && r.Chance(1, 2) {
			switch r.Intn(5) {
			case 3: // passes through a regular file
				if len(files) > 0 {
					f := common.Pick(r, files)
					t = strings.Repeat("../", depth) + strings.Join(f, "/") + "/" + common.Pick(r, []string{"x", "x/y", "a/b/c"})
				}
			case 4: // passes through itself
				t = strings.Repeat("../", depth) + strings.Join(rel, "/") + "/" + common.Pick(r, []string{"a", "b/c"})
			case 0: // climbs out of the directory
				t = strings.Repeat("../", depth+1+r.Intn(2)) + "x"
			case 1: // passes through another link
				if len(links) > 0 {
					l := common.Pick(r, links)
					t = strings.Repeat("../", depth) + strings.Join(l, "/") + "/" + common.Pick(r, []string{"x", "a", "b/c"})
				}
			default:
				t = strings.Repeat("../", depth+1)
			}
		}
		n.Target = hx(t)
	})
}

func genTree(r *common.Rand, big, badLink bool) *Node {
	g := &genCtx{r: r, budget: 4 + r.Intn(40), big: big, badLink: badLink, special: !*nonRootFlag && r.Chance(1, 6)}
	root := g.dir(0)
	g.fillLinks(root)
	return root
}

var itemNames = []string{"..d", "...", "d", "dir", "out", "sub/dir", "a b", "ünï", "x.y", "deep/er/dir", "D", "data", "e", "f", "g/h", "日本"}

var nonRootFlag = flag.Bool("nonroot", false, "this process is the unprivileged child: generate and run the non-root scenarios")

const nonRootUID = 65534

func genScenario(r *common.Rand, idx int) *Scenario {
	sc := &Scenario{Op: "S", NonRoot: *nonRootFlag}
	sc.Umask = common.Pick(r, []int{0o022, 0o022, 0o077, 0o027, 0o002, 0o000, 0o007, 0o026})
	if *nonRootFlag && r.Chance(1, 6) {
		// the unprivileged user's own umask may take the owner's write/search permission away:
		// the model's permission check must predict the EACCES
		sc.Umask = common.Pick(r, []int{0o300, 0o200, 0o100, 0o322, 0o277})
	}
	if !*nonRootFlag && r.Chance(1, 8) {
		// umasks with owner bits (only root can work under them)
		sc.Umask = common.Pick(r, []int{0o300, 0o277, 0o123, 0o777, 0o500})
	}
	sc.Repro = r.Bool()
	sc.Preserve = r.Bool()
	sc.SkipUnpack = r.Chance(1, 8)
	sc.ForceCAS = r.Chance(1, 5)
	sc.IgnoreNoName = r.Chance(1, 6)
	sc.Via = common.Pick(r, []string{"memory", "oci", "memory", "oci", "remote"})
	sc.Tamper = r.Chance(1, 3)
	sc.ReproPair = r.Chance(1, 2)
	if r.Chance(1, 3) {
		sc.Foreign = 1 + r.U64()%1000000
	}
	if sc.NonRoot && sc.Umask&0o300 != 0 {
		sc.Via = "memory" // an OCI layout could not write into its own directories
	}
	if !sc.NonRoot && r.Chance(1, 10) {
		// a shared project directory as destination (direct pushes elsewhere are left out)
		sc.DstSetgid, sc.Tamper, sc.Foreign = true, false, 0
	}
	if idx < 240 {
		// the first scenarios walk through every intermediate store x SkipUnpack x ForceCAS x IgnoreNoName
		sc.Via = []string{"memory", "oci", "remote"}[idx%3]
		bits := (idx / 3) % 8
		sc.SkipUnpack, sc.ForceCAS, sc.IgnoreNoName = bits&1 != 0, bits&2 != 0, bits&4 != 0
	}
	big := idx%16 == 3
	bad := r.Chance(1, 7)
	nItems := 1 + r.Intn(4)
	used := map[string]bool{}
	var trees []*Node
	for i := 0; i < nItems; i++ {
		var nm string
		for {
			nm = common.Pick(r, itemNames)
			if r.Chance(1, 10) {
				nm = strings.Repeat("p", 90+r.Intn(100)) + "/" + nm
			}
			if r.Chance(1, 12) { // names that Add and push clean on their own
				nm = common.Pick(r, []string{"./", "", ""}) + nm + common.Pick(r, []string{"/", "", "/."})
				if r.Bool() {
					nm = strings.Replace(nm, "/", "//", 1)
				}
			}
			top := strings.Split(filepath.ToSlash(filepath.Clean(nm)), "/")[0]
			if !used[top] {
				used[top] = true
				break
			}
		}
		var t *Node
		switch k := r.Intn(10); {
		case k < 3 && len(trees) > 0: // same content under a second name
			t = cloneNode(common.Pick(r, trees))
			if r.Bool() {
				retime(r, t)
			}
		case k < 5: // a plain file
			g := &genCtx{r: r, big: big}
			t = g.file()
		default:
			t = genTree(r, big, bad)
		}
		trees = append(trees, t)
		if t.Kind == "d" && r.Chance(1, 10) {
			backIn(r, t, nm)
		}
		it := Item{Name: hx(nm), Tree: t, ViaLink: r.Chance(1, 8)}
		if r.Chance(1, 6) { // the content lives elsewhere than under its name
			it.Path = hx(common.Pick(r, []string{"", "/"}) + fmt.Sprintf("_elsewhere/%d/x", i))
		}
		if sc.NonRoot && sc.Umask&0o300 != 0 {
			// the directories above the base would be created unusable by pushDir itself (not in the model)
			it.Name = hx(strings.ReplaceAll(filepath.ToSlash(filepath.Clean(nm)), "/", "_"))
		}
		sc.Items = append(sc.Items, it)
	}
	return sc
}

// backIn rewrites one symlink so that its target leaves the directory and comes back through
// the directory's own name (filepath.Join cleans that to a path inside).
func backIn(r *common.Rand, root *Node, name string) {
	comps := strings.Split(filepath.ToSlash(filepath.Clean(name)), "/")
	var links [][]string
	var nodes []*Node
	var all [][]string
	walkNodes(root, nil, func(rel []string, n *Node) {
		if n.Kind == "l" {
			links, nodes = append(links, rel), append(nodes, n)
		}
		if len(rel) > 0 {
			all = append(all, rel)
		}
	})
	if len(links) == 0 {
		return
	}
	i := r.Intn(len(links))
	up := len(links[i]) - 1 + 1 + r.Intn(len(comps)) // out of the directory by 1..len(comps) levels
	if up > len(links[i])-1+len(comps) {
		up = len(links[i]) - 1 + len(comps)
	}
	back := comps[len(comps)-(up-(len(links[i])-1)):]
	nodes[i].Target = hx(strings.Repeat("../", up) + strings.Join(back, "/") + "/" + strings.Join(common.Pick(r, all), "/"))
}

func cloneNode(n *Node) *Node {
	c := *n
	c.Children = nil
	for _, ch := range n.Children {
		c.Children = append(c.Children, cloneNode(ch))
	}
	return &c
}

func retime(r *common.Rand, n *Node) {
	n.Mtime = genTime(r)
	for _, c := range n.Children {
		retime(r, c)
	}
	for _, c := range n.Children { // a hard link shares the inode, hence the time, of its source
		if c.HardOf != "" {
			for _, o := range n.Children {
				if o.Name == c.HardOf {
					c.Mtime = o.Mtime
				}
			}
		}
	}
}

// ---------- materialising a tree ----------

func lutimes(path string, sec int64) error {
	ts := [2]syscall.Timespec{{Sec: sec}, {Sec: sec}}
	p, err := syscall.BytePtrFromString(path)
	if err != nil {
		return err
	}
	const atFdcwd = -100
	const atSymlinkNofollow = 0x100
	fd := atFdcwd
	_, _, e := syscall.Syscall6(syscall.SYS_UTIMENSAT, uintptr(fd), uintptr(unsafe.Pointer(p)), uintptr(unsafe.Pointer(&ts[0])), atSymlinkNofollow, 0, 0)
	if e != 0 {
		return e
	}
	return nil
}

func materialise(path string, n *Node, second bool) error {
	mt := n.Mtime
	if second {
		mt = n.Mtime2
	}
	switch n.Kind {
	case "f":
		if err := os.WriteFile(path, content(n.Seed, n.Len), 0o600); err != nil {
			return err
		}
		if err := os.Chmod(path, os.FileMode(n.Mode&0o777)|special(n.Mode)); err != nil {
			return err
		}
	case "l":
		if err := os.Symlink(n.target(), path); err != nil {
			return err
		}
	case "d":
		if err := os.MkdirAll(path, 0o700); err != nil {
			return err
		}
		for _, c := range n.Children {
			if c.Kind == "f" && c.HardOf != "" {
				if err := os.Link(filepath.Join(path, unhx(c.HardOf)), filepath.Join(path, c.name())); err != nil {
					return err
				}
				continue
			}
			if err := materialise(filepath.Join(path, c.name()), c, second); err != nil {
				return err
			}
		}
		if err := os.Chmod(path, os.FileMode(n.Mode&0o777)|special(n.Mode)); err != nil {
			return err
		}
	}
	if second && os.Getuid() == 0 && n.Seed%3 != 1 {
		// the second copy of a reproducibility pair belongs to somebody else
		if err := os.Lchown(path, 1000+int(n.Mtime2%7), 2000+int(n.Mtime2%5)); err != nil {
			return err
		}
		if n.Kind != "l" { // chown clears setuid/setgid
			if err := os.Chmod(path, os.FileMode(n.Mode&0o777)|special(n.Mode)); err != nil {
				return err
			}
		}
	}
	return lutimes(path, mt)
}

// materialiseItem puts the item's tree at path, or next to it with a symbolic link at path.
func materialiseItem(path string, it Item, second bool) error {
	if !it.ViaLink {
		return materialise(path, it.Tree, second)
	}
	if err := materialise(path+".real", it.Tree, second); err != nil {
		return err
	}
	return os.Symlink(filepath.Base(path)+".real", path)
}

func special(m uint32) os.FileMode {
	var f os.FileMode
	if m&0o4000 != 0 {
		f |= os.ModeSetuid
	}
	if m&0o2000 != 0 {
		f |= os.ModeSetgid
	}
	if m&0o1000 != 0 {
		f |= os.ModeSticky
	}
	return f
}

func unixMode(m os.FileMode) uint32 {
	u := uint32(m.Perm())
	if m&os.ModeSetuid != 0 {
		u |= 0o4000
	}
	if m&os.ModeSetgid != 0 {
		u |= 0o2000
	}
	if m&os.ModeSticky != 0 {
		u |= 0o1000
	}
	return u
}

// ---------- observing a restored tree ----------

type obs struct {
	kind    string // f d l
	mode    uint32
	payload string // file: sha256 hex, link: hex target
}

func snapshot(root string) (map[string]obs, error) {
	out := map[string]obs{}
	var rec func(p, rel string) error
	rec = func(p, rel string) error {
		fi, err := os.Lstat(p)
		if err != nil {
			return err
		}
		switch {
		case fi.Mode()&os.ModeSymlink != 0:
			t, err := os.Readlink(p)
			if err != nil {
				return err
			}
			out[rel] = obs{"l", 0, hx(t)}
		case fi.IsDir():
			out[rel] = obs{"d", unixMode(fi.Mode()), ""}
			if os.Getuid() != 0 && fi.Mode().Perm()&0o500 != 0o500 {
				// the owner looks into a directory it may not read or search: the mode is recorded,
				// opened up, and put back afterwards (the directory may be looked at again)
				if err := os.Chmod(p, fi.Mode().Perm()|0o700); err != nil {
					return err
				}
				defer os.Chmod(p, fi.Mode().Perm()|special(unixMode(fi.Mode())))
			}
			ents, err := os.ReadDir(p)
			if err != nil {
				return err
			}
			for _, e := range ents {
				sub := e.Name()
				if rel != "." {
					sub = rel + "/" + e.Name()
				}
				if err := rec(filepath.Join(p, e.Name()), sub); err != nil {
					return err
				}
			}
		case fi.Mode().IsRegular():
			if os.Getuid() != 0 && fi.Mode().Perm()&0o400 == 0 {
				os.Chmod(p, fi.Mode().Perm()|0o400)
				defer os.Chmod(p, fi.Mode().Perm()|special(unixMode(fi.Mode())))
			}
			data, err := os.ReadFile(p)
			if err != nil {
				return err
			}
			h := sha256.Sum256(data)
			out[rel] = obs{"f", unixMode(fi.Mode()), hex.EncodeToString(h[:])}
		default:
			out[rel] = obs{"?", unixMode(fi.Mode()), ""}
		}
		return nil
	}
	err := rec(root, ".")
	return out, err
}

func relHex(rel string) string {
	if rel == "." || rel == "" {
		return "."
	}
	parts := strings.Split(rel, "/")
	for i := range parts {
		parts[i] = hx(parts[i])
	}
	return strings.Join(parts, "/")
}

func listing(m map[string]obs) string {
	var ls []string
	for rel, o := range m {
		p := o.payload
		if p == "" {
			p = "-"
		}
		md := fmt.Sprintf("%o", o.mode)
		if o.kind == "l" {
			md = "-"
		}
		ls = append(ls, fmt.Sprintf("%s:%s:%s:%s", relHex(rel), o.kind, md, p))
	}
	sort.Strings(ls)
	return strings.Join(ls, ",")
}

// ---------- model input syntax ----------

func treeTokens(n *Node, second bool, sb *strings.Builder) {
	mt := n.Mtime
	if second {
		mt = n.Mtime2
	}
	switch n.Kind {
	case "f":
		fmt.Fprintf(sb, " F %d %d %s", n.Mode, mt, contentHash(n.Seed, n.Len))
	case "l":
		fmt.Fprintf(sb, " L %d %s", mt, common.Hex(n.target()))
	case "d":
		fmt.Fprintf(sb, " D %d %d %d", n.Mode, mt, len(n.Children))
		for _, c := range n.Children {
			fmt.Fprintf(sb, " %s", common.Hex(c.name()))
			treeTokens(c, second, sb)
		}
	}
}

func tree(n *Node, second bool) string {
	var sb strings.Builder
	treeTokens(n, second, &sb)
	return sb.String()[1:]
}

func b2i(b bool) int {
	if b {
		return 1
	}
	return 0
}

// prefix components of a store name, as filepath.Join/Clean leaves them
func nameComps(name string) string {
	var out []string
	for _, c := range strings.Split(filepath.ToSlash(filepath.Clean(name)), "/") {
		out = append(out, hx(c))
	}
	return strings.Join(out, "/")
}

// ---------- independent ground truth ----------

// linkClass classifies the symlinks of a directory tree added under name, from the generator's
// data only (an independent re-statement, not the model):
//
//	"benign"  every target is relative, stays inside the directory (it may leave it and come
//	          back through the directory's own name) and passes neither through another
//	          symlink of the tree nor through a regular file (other than as the last directory component)
//	"through" every target stays inside, but some pass through a symlink or a regular file:
//	          extractTarDirectory refuses these depending on the extraction order
//	"outside" some target is absolute or leaves the directory
func linkClass(root *Node, name string) string {
	var pre []string
	for _, c := range strings.Split(filepath.ToSlash(filepath.Clean(name)), "/") {
		pre = append(pre, c)
	}
	linkAt := map[string]bool{}
	fileAt := map[string]bool{}
	walkNodes(root, nil, func(rel []string, n *Node) {
		if n.Kind == "l" {
			linkAt[strings.Join(rel, "\x00")] = true
		}
		if n.Kind == "f" {
			fileAt[strings.Join(rel, "\x00")] = true
		}
	})
	class := "benign"
	walkNodes(root, nil, func(rel []string, n *Node) {
		if n.Kind != "l" || class == "outside" {
			return
		}
		t := n.target()
		if strings.HasPrefix(t, "/") {
			class = "outside"
			return
		}
		stack := append(append([]string{}, pre...), rel[:len(rel)-1]...)
		for _, c := range strings.Split(t, "/") {
			switch c {
			case "", ".":
			case "..":
				if len(stack) == 0 {
					class = "outside"
					return
				}
				stack = stack[:len(stack)-1]
			default:
				stack = append(stack, c)
			}
		}
		if len(stack) < len(pre) || strings.Join(stack[:len(pre)], "\x00") != strings.Join(pre, "\x00") {
			class = "outside"
			return
		}
		stack = stack[len(pre):]
		for i := 1; i < len(stack); i++ {
			if linkAt[strings.Join(stack[:i], "\x00")] {
				class = "through"
			}
			_ = fileAt // a target may pass through a regular file: nothing exists there, the link is dangling
		}
	})
	return class
}

func benign(root *Node, name string) bool { return linkClass(root, name) == "benign" }

func hasSpecialBits(root *Node) bool {
	s := false
	walkNodes(root, nil, func(_ []string, n *Node) {
		if n.Kind != "l" && n.Mode&0o7000 != 0 {
			s = true
		}
	})
	return s
}

// expected view of a source tree after restoration, from the generator's data only
func expectTree(root *Node, umask uint32, preserve bool) map[string]obs {
	out := map[string]obs{}
	walkNodes(root, nil, func(rel []string, n *Node) {
		k := strings.Join(rel, "/")
		if k == "" {
			k = "."
		}
		m := n.Mode
		if !preserve {
			m = m &^ umask
		}
		switch n.Kind {
		case "f":
			out[k] = obs{"f", m, contentHash(n.Seed, n.Len)}
		case "d":
			out[k] = obs{"d", m, ""}
		case "l":
			out[k] = obs{"l", 0, hx(n.target())}
		}
	})
	return out
}

// ---------- recording wrapper around the destination file store ----------

type recStore struct {
	*file.Store
	mu     sync.Mutex
	pushed []ocispec.Descriptor
}

func (s *recStore) Push(ctx context.Context, d ocispec.Descriptor, r io.Reader) error {
	err := s.Store.Push(ctx, d, r)
	if err == nil {
		s.mu.Lock()
		s.pushed = append(s.pushed, d)
		s.mu.Unlock()
	}
	return err
}

// mkdirPlain creates a harness directory (and its parents) 0755 whatever the scenario's umask is.
func mkdirPlain(dir string) {
	old := syscall.Umask(0o022)
	defer syscall.Umask(old)
	if err := os.MkdirAll(dir, 0o755); err != nil {
		panic(err)
	}
}

// oracleFail records a violation (and, in the unprivileged child, a structured copy for the parent).
func oracleFail(id, sig, msg string, sc *Scenario) {
	run.OracleFail(id, sig, msg, sc)
	if oracleSide != nil {
		js, _ := json.Marshal(sc)
		rec, _ := json.Marshal(oracleRec{ID: id, Sig: sig, Msg: msg, Replay: js})
		oracleSide.Write(append(rec, '\n'))
	}
}

// runScenario runs one scenario under a watchdog: a restore that wedges (a lock, a pipe, a
// copy worker that never returns) becomes an oracle failure with the scenario as replay, and the
// run ends at once instead of hanging.
func runScenario(sc *Scenario) {
	done := make(chan struct{})
	go func() {
		defer close(done)
		runScenarioInner(sc)
	}()
	select {
	case <-done:
	case <-time.After(90 * time.Second):
		oracleFail(run.NewID(), "wedged", "the scenario did not finish within 90 s (Add / Copy / Push blocked)", sc)
		if oracleSide != nil {
			oracleSide.Sync()
		}
		run.Finish()
		os.Exit(0)
	}
}

// ---------- running one scenario ----------

func errClass(err error) string {
	if err == nil {
		return "OK"
	}
	s := err.Error()
	switch {
	case strings.Contains(s, "no symbolic link allowed"):
		return "ERR reject"
	case strings.Contains(s, "is outside of"):
		return "ERR outside"
	case strings.Contains(s, "content digest mismatch"), strings.Contains(s, "mismatch"):
		return "ERR digest"
	}
	// ELOOP / ENOTDIR from the Lstat walk of resolveRelToBase and anything else
	return "ERR reject:" + strings.ReplaceAll(s, " ", "_")
}

type tarEnt struct {
	name, typ, payload string
	mode, mtime        int64
	idsZero            bool
}

func decodeTarGz(blob []byte) ([]tarEnt, []byte, error) {
	zr, err := gzip.NewReader(bytes.NewReader(blob))
	if err != nil {
		return nil, nil, err
	}
	tarb, err := io.ReadAll(zr)
	if err != nil {
		return nil, nil, err
	}
	tr := tar.NewReader(bytes.NewReader(tarb))
	var out []tarEnt
	for {
		h, err := tr.Next()
		if err == io.EOF {
			break
		}
		if err != nil {
			return nil, nil, err
		}
		e := tarEnt{name: h.Name, mode: h.Mode, mtime: h.ModTime.Unix(),
			idsZero: h.Uid == 0 && h.Gid == 0 && h.Uname == "" && h.Gname == ""}
		if h.ModTime.IsZero() {
			e.mtime = 0
		}
		switch h.Typeflag {
		case tar.TypeReg:
			data, err := io.ReadAll(tr)
			if err != nil {
				return nil, nil, err
			}
			if int64(len(data)) != h.Size {
				return nil, nil, fmt.Errorf("size")
			}
			s := sha256.Sum256(data)
			e.typ, e.payload = "f", hex.EncodeToString(s[:])
		case tar.TypeDir:
			e.typ, e.payload = "d", "-"
		case tar.TypeSymlink:
			e.typ, e.payload = "l", common.Hex(h.Linkname)
		default:
			e.typ, e.payload = fmt.Sprintf("t%d", h.Typeflag), "-"
		}
		out = append(out, e)
	}
	return out, tarb, nil
}

func entLine(es []tarEnt) string {
	var ls []string
	for _, e := range es {
		ids := "ids0"
		if !e.idsZero {
			ids = "idsX"
		}
		ls = append(ls, fmt.Sprintf("%s:%s:%o:%d:%s:%s", relHex(e.name), e.typ, e.mode, e.mtime, e.payload, ids))
	}
	return strings.Join(ls, ",")
}

func fetchAll(ctx context.Context, s interface {
	Fetch(context.Context, ocispec.Descriptor) (io.ReadCloser, error)
}, d ocispec.Descriptor) ([]byte, error) {
	rc, err := s.Fetch(ctx, d)
	if err != nil {
		return nil, err
	}
	defer rc.Close()
	return io.ReadAll(rc)
}

var scenarioNo int

// runForeignOnly pushes one re-ordered archive of the scenario's first directory and nothing else.
func runForeignOnly(sc *Scenario) {
	scenarioNo++
	work := filepath.Join(run.Dir, "w", fmt.Sprint(scenarioNo))
	mkdirPlain(work)
	defer os.RemoveAll(work)
	scJSON, _ := json.Marshal(sc)
	old := syscall.Umask(sc.Umask)
	defer syscall.Umask(old)
	foreignCase(context.Background(), sc, " #"+hex.EncodeToString(scJSON), work, sc.Items[0])
}

// nthPermutation reorders es into its k-th permutation (factorial number system).
func nthPermutation(es []fent, k int) []fent {
	pool := append([]fent{}, es...)
	var out []fent
	for n := len(pool); n > 0; n-- {
		f := 1
		for i := 2; i < n; i++ {
			f *= i
		}
		i := (k / f) % n
		k %= f
		out = append(out, pool[i])
		pool = append(pool[:i], pool[i+1:]...)
	}
	return out
}

func runScenarioInner(sc *Scenario) {
	if sc.ForeignPerm > 0 {
		runForeignOnly(sc)
		return
	}
	scenarioNo++
	ctx := context.Background()
	work := filepath.Join(run.Dir, "w", fmt.Sprint(scenarioNo))
	defer os.RemoveAll(work)
	src, src2, dst := filepath.Join(work, "src"), filepath.Join(work, "src2"), filepath.Join(work, "dst")
	for _, d := range []string{src, src2, dst} {
		if err := os.MkdirAll(d, 0o755); err != nil {
			panic(err)
		}
	}
	scJSON, _ := json.Marshal(sc)
	tail := " #" + hex.EncodeToString(scJSON)
	fail := func(id, sig, msg string) { oracleFail(id, sig, msg, sc) }
	scid := run.NewID()

	// the scenario's umask governs the restoring side only (second file store, direct pushes);
	// the source trees are materialised and added under the process's own umask
	umask := uint32(sc.Umask)

	for _, it := range sc.Items {
		p := filepath.Join(src, it.srcPath())
		if err := os.MkdirAll(filepath.Dir(p), 0o755); err != nil {
			panic(err)
		}
		if it.Path != "" {
			run.Count("item-path-differs-from-name")
		}
		if n := unhx(it.Name); n != filepath.Clean(n) {
			run.Count("item-name-unclean")
		}
		if err := materialiseItem(p, it, false); err != nil {
			panic(fmt.Sprintf("materialise: %v", err))
		}
		if it.ViaLink {
			run.Count("item-added-via-symlink")
		}
	}

	s1, err := file.New(src)
	if err != nil {
		panic(err)
	}
	defer s1.Close()
	s1.TarReproducible = sc.Repro

	run.Count("via=" + sc.Via)
	run.Count(fmt.Sprintf("opts repro=%d preserve=%d skipUnpack=%d forceCAS=%d ignoreNoName=%d", b2i(sc.Repro), b2i(sc.Preserve), b2i(sc.SkipUnpack), b2i(sc.ForceCAS), b2i(sc.IgnoreNoName)))
	run.Count(fmt.Sprintf("umask=%03o", sc.Umask))
	run.Count(fmt.Sprintf("matrix via=%s skipUnpack=%d forceCAS=%d ignoreNoName=%d", sc.Via, b2i(sc.SkipUnpack), b2i(sc.ForceCAS), b2i(sc.IgnoreNoName)))

	// ---- Add + descriptor clause
	var descs []ocispec.Descriptor
	blobs := map[int][]byte{}
	for i, it := range sc.Items {
		name := unhx(it.Name)
		d, err := s1.Add(ctx, name, "", it.addArg(src))
		if err != nil {
			fail(scid, "add-failed", fmt.Sprintf("Add(%q): %v", name, err))
			return
		}
		descs = append(descs, d)
		blob, err := fetchAll(ctx, s1, d)
		if err != nil {
			fail(scid, "add-fetch", fmt.Sprintf("Fetch after Add(%q): %v", name, err))
			return
		}
		blobs[i] = blob
		if d.Digest != digest.FromBytes(blob) || d.Size != int64(len(blob)) {
			fail(scid, "descriptor-digest-size", fmt.Sprintf("Add(%q): descriptor %s/%d, stored bytes %s/%d", name, d.Digest, d.Size, digest.FromBytes(blob), len(blob)))
		}
		if d.Annotations[ocispec.AnnotationTitle] != name {
			fail(scid, "descriptor-title", fmt.Sprintf("Add(%q): title %q", name, d.Annotations[ocispec.AnnotationTitle]))
		}
		if it.Tree.Kind == "f" {
			run.Count("item=file")
			if want := "sha256:" + contentHash(it.Tree.Seed, it.Tree.Len); string(d.Digest) != want {
				fail(scid, "descriptor-file-digest", fmt.Sprintf("Add(%q): digest %s, file bytes %s", name, d.Digest, want))
			}
			if d.Annotations[file.AnnotationUnpack] != "" {
				fail(scid, "descriptor-unpack", "plain file marked for unpacking")
			}
			continue
		}
		run.Count("item=dir")
		ents, tarb, err := decodeTarGz(blob)
		if err != nil {
			fail(scid, "blob-not-targz", fmt.Sprintf("Add(%q): %v", name, err))
			return
		}
		if d.Annotations[file.AnnotationDigest] != string(digest.FromBytes(tarb)) {
			fail(scid, "descriptor-tar-digest", fmt.Sprintf("Add(%q): annotation %s, tar bytes %s", name, d.Annotations[file.AnnotationDigest], digest.FromBytes(tarb)))
		}
		if d.Annotations[file.AnnotationUnpack] != "true" {
			fail(scid, "descriptor-unpack", fmt.Sprintf("Add(%q): unpack annotation %q", name, d.Annotations[file.AnnotationUnpack]))
		}
		// T: the entry list, model vs decoded tar
		id := run.NewID()
		run.Case(id, fmt.Sprintf("T %d %s %s%s", b2i(sc.Repro), nameComps(name), tree(it.Tree, false), tail), "ENT "+entLine(ents))
		nodes := 0
		walkNodes(it.Tree, nil, func(rel []string, n *Node) {
			nodes++
			run.Count("node=" + n.Kind)
			if len(n.name()) > 100 {
				run.Count("name>100")
			}
			for _, c := range []byte(n.name()) {
				if c >= 0x80 {
					run.Count("name-nonascii")
					break
				}
			}
			if n.Kind == "f" && n.HardOf != "" {
				run.Count("hard-link")
				if strings.HasPrefix(n.name(), "..") {
					run.Count("dotdot-name: hard link")
				}
			}
			if strings.HasPrefix(n.name(), "..") {
				run.Count("dotdot-name: " + n.Kind)
			}
			if n.Kind == "l" {
				for _, c := range strings.Split(n.target(), "/") {
					if strings.HasPrefix(c, "..") && c != ".." {
						run.Count("dotdot-target")
						break
					}
				}
			}
			if n.Kind == "f" {
				switch {
				case n.Len == 0:
					run.Count("filesize=0")
				case n.Len < 512:
					run.Count("filesize<512")
				case n.Len < 1<<20:
					run.Count("filesize<1MiB")
				default:
					run.Count("filesize>=1MiB")
				}
			}
		})
		run.Count(fmt.Sprintf("tree-nodes~%d", (nodes/8)*8))
		// every header must carry the generator's data (independent of the model)
		if it.ViaLink && len(ents) == 1 && ents[0].typ == "l" {
			fail(id, "added-symlink-archived-as-link", fmt.Sprintf("Add(%q): the path is a symbolic link to a directory and the archive holds only that link (-> %q), not the directory", name, common.UnHex(ents[0].payload)))
			continue
		}
		exp := expectTree(it.Tree, 0, true)
		seen := map[string]bool{}
		cleanName := filepath.ToSlash(filepath.Clean(name))
		for _, e := range ents {
			rel := "."
			if e.name != cleanName {
				if !strings.HasPrefix(e.name, cleanName+"/") {
					fail(id, "tar-name-prefix", fmt.Sprintf("entry %q not under %q", e.name, cleanName))
					continue
				}
				rel = e.name[len(cleanName)+1:]
			}
			seen[rel] = true
			w, ok := exp[rel]
			if !ok {
				fail(id, "tar-extra-entry", fmt.Sprintf("entry %q has no source", e.name))
				continue
			}
			p := w.payload
			if w.kind != "f" && w.kind != "l" {
				p = "-"
			}
			if w.kind == "l" {
				p = common.Hex(unhx(w.payload))
			}
			if e.typ != w.kind || e.payload != p || (w.kind != "l" && uint32(e.mode) != w.mode) {
				fail(id, "tar-entry", fmt.Sprintf("entry %q: %s/%o/%s, source %s/%o/%s", e.name, e.typ, e.mode, e.payload, w.kind, w.mode, p))
			}
			if !e.idsZero {
				fail(id, "tar-ids", fmt.Sprintf("entry %q carries uid/gid/uname/gname", e.name))
			}
			if sc.Repro && e.mtime != 0 {
				fail(id, "repro-time", fmt.Sprintf("entry %q carries mtime %d in a reproducible tar", e.name, e.mtime))
			}
		}
		for rel := range exp {
			if !seen[rel] {
				fail(id, "tar-missing-entry", fmt.Sprintf("no entry for %q", rel))
			}
		}
		if len(ents) > 1 {
			run.Nontrivial("T " + entLine(ents))
		}
	}

	// ---- reproducibility clause: the same tree at other times, in another place
	if sc.ReproPair {
		for i, it := range sc.Items {
			if it.Tree.Kind != "d" {
				continue
			}
			name := unhx(it.Name)
			p := filepath.Join(src2, it.srcPath())
			os.MkdirAll(filepath.Dir(p), 0o755)
			if err := materialiseItem(p, it, true); err != nil {
				panic(err)
			}
			s1b, _ := file.New(src2)
			s1b.TarReproducible = sc.Repro
			d2, err := s1b.Add(ctx, name, "", it.addArg(src2))
			s1b.Close()
			if err != nil {
				fail(scid, "add-failed", fmt.Sprintf("second Add(%q): %v", name, err))
				continue
			}
			d1 := descs[i]
			eq := d1.Digest == d2.Digest && d1.Size == d2.Size && d1.MediaType == d2.MediaType &&
				fmt.Sprint(d1.Annotations) == fmt.Sprint(d2.Annotations)
			id := run.NewID()
			v := "NE"
			if eq {
				v = "EQ"
			}
			run.Case(id, fmt.Sprintf("P %d %s %s | %s%s", b2i(sc.Repro), nameComps(name), tree(it.Tree, false), tree(it.Tree, true), tail), v)
			run.Count("repro-pair=" + v)
			if sc.Repro && !eq {
				fail(id, "repro", fmt.Sprintf("Add(%q) with TarReproducible: %s/%d vs %s/%d for trees differing only in timestamps", name, d1.Digest, d1.Size, d2.Digest, d2.Size))
			}
			if sc.Repro {
				run.Nontrivial("P " + string(d1.Digest))
			}
			os.RemoveAll(p)
			os.RemoveAll(p + ".real")
		}
	}

	// ---- unpack verification clause
	old := syscall.Umask(sc.Umask)
	defer syscall.Umask(old)
	ownerBits := sc.NonRoot && sc.Umask&0o300 != 0
	if ownerBits {
		run.Count("nonroot umask with owner write/search bits")
	}
	if sc.Foreign != 0 {
		for _, it := range sc.Items {
			if it.Tree.Kind == "d" {
				foreignCase(ctx, sc, tail, work, it)
				break
			}
		}
	}
	if sc.Tamper {
		for i, it := range sc.Items {
			if it.Tree.Kind != "d" {
				continue
			}
			tamperCases(ctx, sc, scid, tail, work, i, it, descs[i], blobs[i])
			break
		}
	}

	// ---- pack, copy through the intermediate store, copy into the second file store
	packOpts := oras.PackManifestOptions{Layers: descs}
	mdesc, err := oras.PackManifest(ctx, s1, oras.PackManifestVersion1_1, "application/vnd.verif.c12", packOpts)
	if err != nil {
		fail(scid, "pack-failed", err.Error())
		return
	}
	if err := s1.Tag(ctx, mdesc, "v1"); err != nil {
		fail(scid, "tag-failed", err.Error())
		return
	}
	var mid oras.Target
	if sc.Via == "oci" {
		o, err := oci.New(filepath.Join(work, "mid"))
		if err != nil {
			panic(err)
		}
		mid = o
	} else if sc.Via == "remote" {
		reg := newFakeRegistry()
		defer reg.close()
		repo, err := remote.NewRepository(reg.host() + "/verif/c12")
		if err != nil {
			panic(err)
		}
		repo.PlainHTTP = true
		mid = repo
	} else {
		mid = memory.New()
	}
	if _, err := oras.Copy(ctx, s1, "v1", mid, "v1", oras.DefaultCopyOptions); err != nil {
		fail(scid, "copy-out-failed", err.Error())
		return
	}
	if sc.DstSetgid {
		run.Count("destination working directory setgid")
		if err := os.Chmod(dst, 0o755|os.ModeSetgid); err != nil {
			panic(err)
		}
	}
	s2f, err := file.New(dst)
	if err != nil {
		panic(err)
	}
	defer s2f.Close()
	s2f.PreservePermissions = sc.Preserve
	s2f.SkipUnpack = sc.SkipUnpack
	s2f.ForceCAS = sc.ForceCAS
	s2f.IgnoreNoName = sc.IgnoreNoName
	s2 := &recStore{Store: s2f}
	var cerr error
	if sc.IgnoreNoName {
		cerr = oras.CopyGraph(ctx, mid, s2, mdesc, oras.DefaultCopyGraphOptions)
	} else {
		_, cerr = oras.Copy(ctx, mid, "v1", s2, "v1", oras.DefaultCopyOptions)
	}

	worst := "benign"
	for _, it := range sc.Items {
		if it.Tree.Kind == "d" {
			switch c := linkClass(it.Tree, unhx(it.Name)); {
			case c == "outside":
				worst = c
			case c == "through" && worst == "benign":
				worst = c
			}
		}
	}
	if cerr != nil {
		run.Count("copy-in=" + strings.SplitN(errClass(cerr), ":", 2)[0])
		msg := cerr.Error()
		switch {
		case worst == "outside" && (strings.Contains(msg, "is outside of") || strings.Contains(msg, "no symbolic link allowed") ||
			strings.Contains(msg, "not a directory") || strings.Contains(msg, "too many levels")):
			// a link that leaves the added directory: refused by design, outside the property
			run.Count("not-judged: link leaves the directory, refused")
		case worst == "through" && strings.Contains(msg, "no symbolic link allowed"):
			fail(scid, "link-through-link-rejected", "a tree whose relative links all stay inside was refused because one target passes through another link that had been extracted before it: "+msg)
			return
		case worst == "through" && strings.Contains(msg, "too many levels"):
			// the other link is the link itself (l -> l/a: ELOOP from the Lstat walk): same mechanism
			fail(scid, "link-through-link-rejected", "a tree whose relative links all stay inside was refused because one target passes through a link that points through itself: "+msg)
			return
		case strings.Contains(msg, "not a directory") && strings.Contains(msg, "lstat"):
			fail(scid, "link-through-file-rejected", "a (dangling) link target that passes through a regular file was refused: "+msg)
			return
		case strings.Contains(msg, "file name too long") && strings.Contains(msg, "lstat"):
			fail(scid, "link-target-name-too-long", "a (dangling) link target with a component longer than NAME_MAX was refused: "+msg)
			return
		case ownerBits && strings.Contains(msg, "permission denied"):
			// the umask takes the owner's own write/search permission from every new directory
			run.Count("not-judged: umask removes the owner's permissions")
		case sc.NonRoot && strings.Contains(msg, "permission denied"):
			fail(scid, "nonroot-permission-denied", "restore by an unprivileged user failed: "+msg)
			return
		default:
			// the restore did not complete (as opposed to "restored differently": path-missing, kind,
			// file-bytes, link-target, mode, path-extra below)
			sig := "restore-failed-other"
			switch msg := cerr.Error(); {
			case strings.Contains(msg, "mismatch"):
				sig = "restore-failed-verify" // digest/size verification of a blob or of the tar stream
			case strings.Contains(msg, "failed to extract tar"):
				sig = "restore-failed-extract" // extractTarDirectory rejected or could not create an entry
			case strings.Contains(msg, "failed to restore duplicated file"):
				sig = "restore-failed-duplicate"
			}
			fail(scid, sig, cerr.Error())
			return
		}
	} else {
		run.Count("copy-in=OK")
	}

	// content ids: equal digest = equal id
	idOf := map[digest.Digest]int{}
	for _, d := range descs {
		if _, ok := idOf[d.Digest]; !ok {
			idOf[d.Digest] = len(idOf) + 1
		}
	}
	// M: names that exist afterwards, given the named pushes the store saw
	if cerr == nil {
		var pushed, layers, got []string
		s2.mu.Lock()
		for _, d := range s2.pushed {
			if n := d.Annotations[ocispec.AnnotationTitle]; n != "" {
				pushed = append(pushed, fmt.Sprintf("%s:%d", hx(n), idOf[d.Digest]))
			}
		}
		s2.mu.Unlock()
		dups := false
		for i, d := range descs {
			layers = append(layers, fmt.Sprintf("%s:%d", sc.Items[i].Name, idOf[d.Digest]))
			if idOf[d.Digest] != i+1 {
				dups = true
			}
		}
		present := map[string]bool{}
		for i, it := range sc.Items {
			p := filepath.Join(dst, unhx(it.Name))
			if _, err := os.Lstat(p); err == nil {
				present[it.Name] = true
				got = append(got, fmt.Sprintf("%s:%d", it.Name, idOf[descs[i].Digest]))
			}
		}
		sort.Strings(got)
		id := run.NewID()
		pj := strings.Join(pushed, ",")
		if pj == "" {
			pj = "-"
		}
		run.Case(id, fmt.Sprintf("M %d %d %s %s%s", b2i(sc.ForceCAS), b2i(sc.IgnoreNoName), pj, strings.Join(layers, ","), tail), "NAMES "+strings.Join(got, ","))
		if dups {
			run.Count("duplicate-content")
			run.Nontrivial("M " + strings.Join(layers, ",") + fmt.Sprint(sc.ForceCAS, sc.IgnoreNoName))
		}
		// oracle: every name materialises (ForceCAS: one name per content is enough)
		byID := map[int]bool{}
		for i, it := range sc.Items {
			if present[it.Name] {
				byID[idOf[descs[i].Digest]] = true
			}
		}
		for i, it := range sc.Items {
			if present[it.Name] {
				continue
			}
			switch {
			case sc.ForceCAS && byID[idOf[descs[i].Digest]]:
				run.Count("forceCAS-deduped")
			case sc.IgnoreNoName && !sc.ForceCAS && byID[idOf[descs[i].Digest]]:
				fail(id, "duplicate-not-restored-ignorenoname", fmt.Sprintf("%q (same bytes as another layer) was not materialised with IgnoreNoName", unhx(it.Name)))
			default:
				fail(id, "name-missing", fmt.Sprintf("%q was not materialised", unhx(it.Name)))
			}
		}
	}

	// X: the restored trees
	for i, it := range sc.Items {
		name := unhx(it.Name)
		p := filepath.Join(dst, name)
		if it.Tree.Kind == "f" || sc.SkipUnpack {
			if cerr != nil {
				continue
			}
			fi, err := os.Lstat(p)
			if err != nil {
				continue // judged by the M clause
			}
			data, err := os.ReadFile(p)
			if err != nil || !fi.Mode().IsRegular() {
				fail(scid, "file-kind", fmt.Sprintf("%q: not a readable regular file", name))
				continue
			}
			if digest.FromBytes(data) != descs[i].Digest {
				fail(scid, "file-bytes", fmt.Sprintf("%q: restored bytes %s, added %s", name, digest.FromBytes(data), descs[i].Digest))
			}
			if it.Tree.Kind == "f" {
				wantMode := it.Tree.Mode &^ umask
				if sc.Preserve {
					wantMode = it.Tree.Mode
				}
				if sc.NonRoot {
					wantMode &^= 0o6000 // not generated for the unprivileged run anyway
				}
				if unixMode(fi.Mode()) != wantMode {
					run.Count("plain-file-mode-not-carried")
					if unixMode(fi.Mode()) == 0o666&^umask {
						fail(scid, "plain-file-mode-not-carried", fmt.Sprintf("%q: a plain file added with mode %o comes back with %o (0666 minus umask %03o): a blob descriptor carries no mode", name, it.Tree.Mode, unixMode(fi.Mode()), sc.Umask))
					} else {
						fail(scid, "file-mode", fmt.Sprintf("%q: a plain file added with mode %o comes back with %o (umask %03o)", name, it.Tree.Mode, unixMode(fi.Mode()), sc.Umask))
					}
				}
				h := sha256.Sum256(data)
				fid := run.NewID()
				run.Case(fid, fmt.Sprintf("F %d %s %s%s", sc.Umask, nameComps(name), contentHash(it.Tree.Seed, it.Tree.Len), tail),
					fmt.Sprintf("FILE %o %s", unixMode(fi.Mode()), hex.EncodeToString(h[:])))
			} else {
				run.Count("skipunpack-blob")
			}
			continue
		}
		isBenign := benign(it.Tree, name)
		if !isBenign {
			run.Count("tree-not-benign")
			run.Count("tree-links=" + linkClass(it.Tree, name))
		}
		// pushed under this name?  (a deduplicated directory is restored from the first one's gzip)
		id := run.NewID()
		// X = extraction as root, XU = by an unprivileged owner (the model adds the permission check)
		kindSuffix := map[bool]string{false: "", true: "U"}[sc.NonRoot]
		if sc.DstSetgid {
			kindSuffix = "G" // the base directory starts set-group-ID
		}
		input := fmt.Sprintf("X%s %d %d %s %s%s", kindSuffix, sc.Umask, b2i(sc.Preserve), nameComps(name), tree(it.Tree, false), tail)
		if cerr != nil {
			// which item failed is not known with several directories; compare only single-directory scenarios
			ndirs := 0
			for _, o := range sc.Items {
				if o.Tree.Kind == "d" {
					ndirs++
				}
			}
			// (under an owner-bit umask of the unprivileged run a plain-file item may be the one that failed)
			if ndirs == 1 && (!ownerBits || len(sc.Items) == 1) {
				run.Case(id, input, fmt.Sprintf("B%d ", b2i(isBenign))+strings.SplitN(errClass(cerr), ":", 2)[0])
				run.Nontrivial(input)
			}
			continue
		}
		if _, err := os.Lstat(p); err != nil {
			continue // judged by the M clause
		}
		got, err := snapshot(p)
		if err != nil {
			fail(id, "snapshot", err.Error())
			continue
		}
		run.Case(id, input, fmt.Sprintf("B%d OK ", b2i(isBenign))+listing(got))
		run.Nontrivial(listing(got))
		if len(run.Samples) < 5 && len(got) > 3 {
			run.Sample(map[string]any{"name": name, "umask": fmt.Sprintf("%03o", sc.Umask), "preserve": sc.Preserve, "via": sc.Via, "restored": listing(got)})
		}
		if hasSpecialBits(it.Tree) {
			run.Count("tree-with-setuid/setgid/sticky")
		}
		// whatever the links look like: once the restore succeeded the tree must be the source tree
		want := expectTree(it.Tree, umask, sc.Preserve)
		if sc.DstSetgid && !sc.Preserve {
			// mkdir(2) in a set-group-ID directory: every directory made there is set-group-ID too
			// (the kernel's doing; PreservePermissions sets the recorded mode exactly)
			for k, w := range want {
				if w.kind == "d" {
					w.mode |= 0o2000
					want[k] = w
				}
			}
		}
		compareTrees(id, name, sc, want, got, fail)
	}
}

func compareTrees(id, name string, sc *Scenario, want, got map[string]obs, fail func(id, sig, msg string)) {
	var keys []string
	for k := range want {
		keys = append(keys, k)
	}
	sort.Strings(keys)
	for _, k := range keys {
		w := want[k]
		g, ok := got[k]
		if !ok {
			fail(id, "path-missing", fmt.Sprintf("%q: %q not restored", name, k))
			continue
		}
		if g.kind != w.kind {
			fail(id, "kind", fmt.Sprintf("%q: %q is %s, was %s", name, k, g.kind, w.kind))
			continue
		}
		if g.payload != w.payload {
			if w.kind == "l" {
				fail(id, "link-target", fmt.Sprintf("%q: %q -> %q, was %q", name, k, unhx(g.payload), unhx(w.payload)))
			} else {
				fail(id, "file-bytes", fmt.Sprintf("%q: %q has other bytes", name, k))
			}
		}
		if w.kind != "l" && g.mode != w.mode {
			if k == "." && !sc.Preserve && g.mode == 0o777&^uint32(sc.Umask) {
				// the directory itself is pre-created with 0777 &^ umask; its recorded mode is not applied
				fail(id, "root-mode", fmt.Sprintf("%q: the directory itself is restored with mode %o (0777 minus umask %03o), added with %o", name, g.mode, sc.Umask, w.mode|0))
			} else if !sc.Preserve && w.kind == "d" && w.mode&0o6000 != 0 && g.mode == w.mode&^0o6000 {
				fail(id, "dir-special-bits", fmt.Sprintf("%q: directory %q has mode %o, added with %o: setuid/setgid of a directory lost without PreservePermissions (mkdir(2) drops them)", name, k, g.mode, w.mode))
			} else if sc.Preserve && w.mode&0o7000 != 0 && g.mode == w.mode&^0o7000 {
				fail(id, "preserve-special-bits", fmt.Sprintf("%q: %q has mode %o, added with %o: PreservePermissions lost setuid/setgid/sticky", name, k, g.mode, w.mode))
			} else {
				fail(id, "mode", fmt.Sprintf("%q: %q has mode %o, want %o (umask %03o preserve=%v)", name, k, g.mode, w.mode, sc.Umask, sc.Preserve))
			}
		}
	}
	for k := range got {
		if _, ok := want[k]; !ok {
			fail(id, "path-extra", fmt.Sprintf("%q: %q restored but never added", name, k))
		}
	}
}

// tamperCases pushes a directory blob into fresh file stores under descriptors
// whose uncompressed-digest annotation / digest / size were altered.
func tamperCases(ctx context.Context, sc *Scenario, scid, tail, work string, i int, it Item, d ocispec.Descriptor, blob []byte) {
	name := unhx(it.Name)
	other := digest.FromString("something else")
	type variant struct {
		tag      string
		checksum string // annotation value
		ckModel  string // "-" none/unparseable, "1" right, "2" wrong
		digestOK bool
		sizeOK   bool
	}
	vs := []variant{
		{"good", d.Annotations[file.AnnotationDigest], "1", true, true},
		{"wrong-checksum", string(other), "2", true, true},
		{"garbage-checksum", "sha256:xyz", "-", true, true},
		{"no-checksum", "", "-", true, true},
		{"wrong-digest", d.Annotations[file.AnnotationDigest], "1", false, true},
		{"wrong-size", d.Annotations[file.AnnotationDigest], "1", true, false},
	}
	for k, v := range vs {
		if k > 1 && run.Rand.Chance(1, 2) {
			continue
		}
		dir := filepath.Join(work, "tamper", fmt.Sprint(k))
		mkdirPlain(dir)
		st, _ := file.New(dir)
		st.PreservePermissions = sc.Preserve
		nd := d
		nd.Annotations = map[string]string{}
		for a, b := range d.Annotations {
			nd.Annotations[a] = b
		}
		if v.checksum == "" {
			delete(nd.Annotations, file.AnnotationDigest)
		} else {
			nd.Annotations[file.AnnotationDigest] = v.checksum
		}
		if !v.digestOK {
			nd.Digest = other
		}
		if !v.sizeOK {
			nd.Size++
		}
		err := st.Push(ctx, nd, bytes.NewReader(blob))
		if err == nil && v.tag == "good" {
			// the direct route Add -> Push (no manifest, no copy): restored differently?
			if got, serr := snapshot(filepath.Join(dir, name)); serr != nil {
				oracleFail(scid, "snapshot", serr.Error(), sc)
			} else {
				run.Count("direct-push-compared")
				compareTrees(scid, name, sc, expectTree(it.Tree, uint32(sc.Umask), sc.Preserve), got,
					func(id, sig, msg string) { oracleFail(id, "direct-"+sig, msg, sc) })
			}
		}
		st.Close()
		res := "OK"
		if err != nil {
			res = "ERR"
		}
		// what Push left in the directory, whether it succeeded or not
		residue := "RES -"
		if left, serr := snapshot(filepath.Join(dir, name)); serr == nil {
			residue = "RES " + listing(left)
		}
		id := run.NewID()
		run.Case(id, fmt.Sprintf("U%s %d %d %s %d %d %s %s%s", map[bool]string{false: "", true: "U"}[sc.NonRoot], sc.Umask, b2i(sc.Preserve), v.ckModel, b2i(v.digestOK), b2i(v.sizeOK), nameComps(name), tree(it.Tree, false), tail), res+" "+residue)
		if err != nil {
			run.Count("residue-after-failed-push")
		}
		run.Count("unpack-" + v.tag + "=" + res)
		run.Nontrivial("U " + v.tag + string(d.Digest))
		bn := benign(it.Tree, name)
		switch {
		case v.tag == "wrong-checksum" && err == nil:
			oracleFail(id, "checksum-unverified", fmt.Sprintf("Push(%q) accepted a blob whose uncompressed digest differs from the annotation", name), sc)
		case (v.tag == "wrong-digest" || v.tag == "wrong-size") && err == nil:
			oracleFail(id, "blob-unverified", fmt.Sprintf("Push(%q) accepted a blob not matching the descriptor (%s)", name, v.tag), sc)
		case v.tag == "good" && err != nil && sc.NonRoot && sc.Umask&0o300 != 0 && strings.Contains(err.Error(), "permission denied"):
			run.Count("not-judged: umask removes the owner's permissions")
		case v.tag == "good" && err != nil && bn:
			oracleFail(id, "unpack-failed", fmt.Sprintf("Push(%q) of the untouched blob failed: %v", name, err), sc)
		}
		os.RemoveAll(dir)
	}
}

// ---------- archives that tarDirectory would not write ----------

type fent struct {
	name, typ string // typ f d l
	mode      uint32
	data      []byte
	target    string
	hash      string
}

// walkEntries lists a tree the way tarDirectory does (pre-order, names sorted byte-wise).
func walkEntries(n *Node, name string, out *[]fent) {
	switch n.Kind {
	case "f":
		*out = append(*out, fent{name: name, typ: "f", mode: n.Mode, data: content(n.Seed, n.Len), hash: contentHash(n.Seed, n.Len)})
	case "l":
		*out = append(*out, fent{name: name, typ: "l", mode: 0o777, target: n.target()})
	case "d":
		*out = append(*out, fent{name: name, typ: "d", mode: n.Mode})
		kids := append([]*Node{}, n.Children...)
		sort.Slice(kids, func(i, j int) bool { return kids[i].name() < kids[j].name() })
		for _, c := range kids {
			walkEntries(c, name+"/"+c.name(), out)
		}
	}
}

// foreignCase pushes an archive of the directory whose entries are re-ordered, lack the root
// entry or carry a second one, straight into a fresh file store, and records what was
// extracted.  Correspondence only (the property speaks of archives written by Add): it ties the
// model's handling of missing parents, of the base directory's recorded mode and of the
// order-dependent link checks to extractTarDirectory beyond tarDirectory's own output.
func foreignCase(ctx context.Context, sc *Scenario, tail, work string, it Item) {
	name := filepath.ToSlash(filepath.Clean(unhx(it.Name)))
	r := common.NewRand(sc.Foreign)
	var es []fent
	walkEntries(it.Tree, name, &es)
	variant := r.Intn(7)
	if sc.ForeignPerm > 0 {
		variant = 7
		es = nthPermutation(es, sc.ForeignPerm-1)
	}
	switch variant {
	case 1: // no root entry
		es = es[1:]
	case 2: // root entry last
		es = append(es[1:], es[0])
	case 3: // a second root entry with another mode
		es = append(es, fent{name: name, typ: "d", mode: common.Pick(r, dirModes)})
	case 4: // any order
		common.Shuffle(r, es)
	case 6: // a symlink entry named like a directory of the archive (replaces it when it is empty)
		var ds []int
		for i, e := range es {
			if e.typ == "d" && i > 0 {
				ds = append(ds, i)
			}
		}
		if len(ds) > 0 {
			d := es[common.Pick(r, ds)]
			es = append(es, fent{name: d.name, typ: "l", mode: 0o777, target: common.Pick(r, []string{"y", ".", "nowhere/x"})})
		}
	case 5: // two neighbours swapped
		if len(es) > 2 {
			i := 1 + r.Intn(len(es)-2)
			es[i], es[i+1] = es[i+1], es[i]
		}
	}
	run.Count(fmt.Sprintf("foreign-variant=%d", variant))
	var tarb bytes.Buffer
	tw := tar.NewWriter(&tarb)
	var toks []string
	for _, e := range es {
		h := &tar.Header{Name: e.name, Mode: int64(e.mode), ModTime: time.Unix(baseTime, 0)}
		payload := "-"
		switch e.typ {
		case "f":
			h.Typeflag, h.Size, payload = tar.TypeReg, int64(len(e.data)), e.hash
		case "d":
			h.Typeflag = tar.TypeDir
		case "l":
			h.Typeflag, h.Linkname, payload = tar.TypeSymlink, e.target, common.Hex(e.target)
		}
		if err := tw.WriteHeader(h); err != nil {
			return // a name the tar writer refuses: nothing to compare
		}
		if e.typ == "f" {
			tw.Write(e.data)
		}
		toks = append(toks, fmt.Sprintf("%s %s %d %s", relHex(e.name), e.typ, e.mode, payload))
	}
	tw.Close()
	var gzb bytes.Buffer
	zw := gzip.NewWriter(&gzb)
	zw.Write(tarb.Bytes())
	zw.Close()
	blob := gzb.Bytes()
	desc := ocispec.Descriptor{MediaType: ocispec.MediaTypeImageLayerGzip, Digest: digest.FromBytes(blob), Size: int64(len(blob)),
		Annotations: map[string]string{ocispec.AnnotationTitle: unhx(it.Name), file.AnnotationUnpack: "true",
			file.AnnotationDigest: string(digest.FromBytes(tarb.Bytes()))}}
	dir := filepath.Join(work, "foreign")
	mkdirPlain(dir)
	defer os.RemoveAll(dir)
	st, err := file.New(dir)
	if err != nil {
		panic(err)
	}
	st.PreservePermissions = sc.Preserve
	perr := st.Push(ctx, desc, bytes.NewReader(blob))
	st.Close()
	id := run.NewID()
	input := fmt.Sprintf("E%s %d %d %s %d %s%s", map[bool]string{false: "", true: "U"}[sc.NonRoot], sc.Umask, b2i(sc.Preserve), nameComps(unhx(it.Name)), len(es), strings.Join(toks, " "), tail)
	if perr != nil {
		residue := "RES -"
		if left, serr := snapshot(filepath.Join(dir, name)); serr == nil {
			residue = "RES " + listing(left)
		}
		run.Count("residue-after-failed-push")
		run.Case(id, input, strings.SplitN(errClass(perr), ":", 2)[0]+" "+residue)
		run.Count("foreign=" + strings.SplitN(errClass(perr), ":", 2)[0])
		run.Nontrivial(input)
		return
	}
	got, serr := snapshot(filepath.Join(dir, name))
	if serr != nil {
		oracleFail(id, "snapshot", serr.Error(), sc)
		return
	}
	run.Case(id, input, "OK "+listing(got))
	run.Count("foreign=OK")
	run.Nontrivial(input)
}

// enumSmall runs every directory with at most two entries "a" and "b", each a file, a symlink
// with one of nine relative targets, or a directory holding nothing, a file or such a symlink:
// all interactions of link targets with the extraction order in a small scope.
func enumSmall(preserves []bool) {
	targets := []string{".", "..", "a", "b", "a/b", "b/a", "../a", "a/../b", "b/x/y"}
	shapes := func(name string) []*Node {
		var out []*Node
		f := func(n string) *Node {
			return &Node{Kind: "f", Name: hx(n), Mode: 0o640, Mtime: baseTime, Mtime2: baseTime, Seed: 5, Len: 3}
		}
		l := func(n, t string) *Node {
			return &Node{Kind: "l", Name: hx(n), Mtime: baseTime, Mtime2: baseTime, Target: hx(t)}
		}
		out = append(out, f(name))
		for _, t := range targets {
			out = append(out, l(name, t))
		}
		inner := []*Node{nil, f("a")}
		for _, t := range targets {
			inner = append(inner, l("b", t))
		}
		for _, in := range inner {
			d := &Node{Kind: "d", Name: hx(name), Mode: 0o750, Mtime: baseTime, Mtime2: baseTime}
			if in != nil {
				d.Children = []*Node{in}
			}
			out = append(out, d)
		}
		return out
	}
	as, bs := append([]*Node{nil}, shapes("a")...), append([]*Node{nil}, shapes("b")...)
	n := 0
	for _, pres := range preserves {
		for _, a := range as {
			for _, b := range bs {
				root := &Node{Kind: "d", Mode: 0o755, Mtime: baseTime, Mtime2: baseTime}
				if a != nil {
					root.Children = append(root.Children, cloneNode(a))
				}
				if b != nil {
					root.Children = append(root.Children, cloneNode(b))
				}
				sc := &Scenario{Op: "S", Umask: 0o022, Repro: true, Preserve: pres, Via: "memory",
					Items: []Item{{Name: hx("t"), Tree: root}}}
				runScenario(sc)
				n++
			}
		}
	}
	run.Extra["small_scope_trees"] = n
}

// oracleSide is the structured copy of oracle.txt that the unprivileged child leaves for its parent.
type oracleRec struct {
	ID, Sig, Msg string
	Replay       json.RawMessage
}

var oracleSide *os.File

// runChild re-executes this harness as uid 65534 in a sub-directory and folds its cases,
// observations, oracle verdicts and counters into this run.  Not being able to do so is an
// error of the run (exit != 0), never a silent pass.
func runChild(replay string) {
	// The unprivileged run must not depend on where the checkout lives (a run directory under
	// /root is not traversable for uid 65534): it gets its own world-traversable directory under
	// the system's temporary directory, a copy of this binary and of its input there.
	envFail := func(format string, a ...any) {
		fmt.Fprintf(os.Stderr, "C12 harness: ENVIRONMENT (not oras-go): "+format+"\n", a...)
		run.Finish()
		os.Exit(5)
	}
	traversable := func(dir string) bool {
		for p := dir; ; p = filepath.Dir(p) {
			fi, err := os.Stat(p)
			if err != nil || !fi.IsDir() || fi.Mode().Perm()&0o001 == 0 {
				return false
			}
			if p == filepath.Dir(p) {
				return true
			}
		}
	}
	base := ""
	for _, cand := range []string{os.TempDir(), "/tmp", "/var/tmp", "/dev/shm"} {
		if abs, err := filepath.Abs(cand); err == nil && traversable(abs) {
			base = abs
			break
		}
	}
	if base == "" {
		envFail("no temporary directory that uid %d can reach (tried %s, /tmp, /var/tmp, /dev/shm)", nonRootUID, os.TempDir())
	}
	top, err := os.MkdirTemp(base, "c12-nonroot-")
	if err != nil {
		envFail("cannot create a directory under %s: %v", base, err)
	}
	defer os.RemoveAll(top)
	dir, tmp := filepath.Join(top, "run"), filepath.Join(top, "tmp")
	for _, d := range []string{top, dir, tmp} {
		if err := os.MkdirAll(d, 0o755); err != nil {
			envFail("%v", err)
		}
		if err := os.Chmod(d, 0o755); err != nil {
			envFail("%v", err)
		}
		if err := os.Chown(d, nonRootUID, nonRootUID); err != nil {
			envFail("cannot give %s to uid %d: %v", d, nonRootUID, err)
		}
	}
	copyTo := func(src, dst string, mode os.FileMode) {
		data, err := os.ReadFile(src)
		if err != nil {
			envFail("%v", err)
		}
		if err := os.WriteFile(dst, data, mode); err != nil {
			envFail("%v", err)
		}
		os.Chmod(dst, mode)
	}
	self, err := os.Executable()
	if err != nil {
		self = os.Args[0]
	}
	exe := filepath.Join(top, "hx_c12")
	copyTo(self, exe, 0o755)
	args := []string{"-seed", fmt.Sprint(run.Seed), "-tier", run.Tier, "-dir", dir, "-nonroot"}
	if replay != "" {
		rp := filepath.Join(top, "replay.json")
		copyTo(replay, rp, 0o644)
		args = append(args, "-replay", rp)
	}
	cctx, cancel := context.WithTimeout(context.Background(), time.Duration(run.Scale(10, 60))*time.Minute)
	defer cancel()
	cmd := exec.CommandContext(cctx, exe, args...)
	cmd.Env = append(os.Environ(), "TMPDIR="+tmp, "HOME="+dir)
	cmd.Dir = dir
	cmd.SysProcAttr = &syscall.SysProcAttr{Credential: &syscall.Credential{Uid: nonRootUID, Gid: nonRootUID}}
	out, err := cmd.CombinedOutput()
	if err != nil {
		var ee *exec.ExitError
		if !errors.As(err, &ee) {
			// the process could not even be started (setuid refused, exec refused ...)
			envFail("the unprivileged (uid %d) run could not be started: %v\n%s", nonRootUID, err, out)
		}
		fmt.Fprintf(os.Stderr, "C12 harness: the unprivileged (uid %d) run failed: %v\n%s\n", nonRootUID, err, out)
		run.Finish()
		os.Exit(3)
	}
	// keep a copy of what the child wrote next to this run's files
	keep := filepath.Join(run.Dir, "nonroot")
	os.MkdirAll(keep, 0o755)
	for _, n := range []string{"cases.txt", "impl.txt", "oracle.txt", "oracle.jsonl", "stats.json"} {
		if data, err := os.ReadFile(filepath.Join(dir, n)); err == nil {
			os.WriteFile(filepath.Join(keep, n), data, 0o644)
		}
	}
	read := func(name string) []string {
		data, err := os.ReadFile(filepath.Join(dir, name))
		if err != nil {
			panic(err)
		}
		return strings.Split(strings.TrimRight(string(data), "\n"), "\n")
	}
	impl := map[string]string{}
	for _, l := range read("impl.txt") {
		if id, obs, ok := strings.Cut(l, " "); ok {
			impl[id] = obs
		}
	}
	n := 0
	for _, l := range read("cases.txt") {
		if id, in, ok := strings.Cut(l, " "); ok {
			run.Case("n"+id, in, impl[id])
			n++
		}
	}
	if data, err := os.ReadFile(filepath.Join(dir, "oracle.jsonl")); err == nil {
		for _, l := range strings.Split(strings.TrimSpace(string(data)), "\n") {
			var r oracleRec
			if l != "" && json.Unmarshal([]byte(l), &r) == nil {
				run.OracleFail("n"+r.ID, r.Sig, "[uid "+fmt.Sprint(nonRootUID)+"] "+r.Msg, r.Replay)
			}
		}
	}
	var st struct {
		Dist map[string]int `json:"input_distribution"`
	}
	if data, err := os.ReadFile(filepath.Join(dir, "stats.json")); err == nil && json.Unmarshal(data, &st) == nil {
		for k, v := range st.Dist {
			run.Dist["nonroot: "+k] += v
		}
	}
	run.Extra["nonroot_cases"] = n
	if n == 0 && replay == "" {
		fmt.Fprintln(os.Stderr, "C12 harness: the unprivileged run produced no cases")
		run.Finish()
		os.Exit(3)
	}
}

// enumPerms pushes, for every small-scope tree with at most four archive entries, the archive in
// EVERY order of its entries (quick: every step-th tree): the order-dependent parts of
// extractTarDirectory (missing parents, links checked against what is already there, the last
// entry of a directory counting) against the model, exhaustively in a small scope.
func enumPerms(step int) {
	targets := []string{".", "a", "b", "b/a", "../t/a", "a/x/y"}
	f := func(n string) *Node {
		return &Node{Kind: "f", Name: hx(n), Mode: 0o640, Mtime: baseTime, Mtime2: baseTime, Seed: 5, Len: 3}
	}
	l := func(n, t string) *Node {
		return &Node{Kind: "l", Name: hx(n), Mtime: baseTime, Mtime2: baseTime, Target: hx(t)}
	}
	d := func(n string, m uint32, ch ...*Node) *Node {
		return &Node{Kind: "d", Name: hx(n), Mode: m, Mtime: baseTime, Mtime2: baseTime, Children: ch}
	}
	var shapes []*Node
	for _, t := range targets {
		shapes = append(shapes, d("", 0o755, f("a"), l("b", t)), d("", 0o750, d("a", 0o500, l("b", t))), d("", 0o755, d("a", 0o2755), l("b", t)),
			d("", 0o755, l("a", t), l("b", "a")), d("", 0o1777, d("b", 0o555, f("a")), l("a", t)))
	}
	shapes = append(shapes, d("", 0o700), d("", 0o755, f("a")), d("", 0o755, d("a", 0o555, d("b", 0o500, f("c")))), d("", 0o755, d("a", 0o700, f("b")), f("b")))
	n := 0
	for i, root := range shapes {
		if i%step != 0 {
			continue
		}
		var es []fent
		walkEntries(root, "t", &es)
		if len(es) > 4 {
			continue
		}
		perms := 1
		for k := 2; k <= len(es); k++ {
			perms *= k
		}
		for k := 0; k < perms; k++ {
			for _, pres := range []bool{false, true} {
				sc := &Scenario{Op: "S", Umask: 0o027, Preserve: pres, Via: "memory", ForeignPerm: k + 1,
					Items: []Item{{Name: hx("t"), Tree: cloneNode(root)}}}
				runScenario(sc)
				n++
			}
		}
	}
	run.Extra["entry_order_permutations"] = n
}

// enumPermsUnsearchable (unprivileged run): archives whose directories have recorded modes
// without search, read or write permission for the owner, in every order of their entries.  The
// owner can only restore them because restoreDirModes handles the deepest directory first; the
// model (extract_po false) checks search permission on every chmod.
func enumPermsUnsearchable() {
	f := func(n string, m uint32) *Node {
		return &Node{Kind: "f", Name: hx(n), Mode: m, Mtime: baseTime, Mtime2: baseTime, Seed: 5, Len: 3}
	}
	d := func(n string, m uint32, ch ...*Node) *Node {
		return &Node{Kind: "d", Name: hx(n), Mode: m, Mtime: baseTime, Mtime2: baseTime, Children: ch}
	}
	shapes := []*Node{
		d("", 0o755, d("p", 0o600, d("c", 0o755))),
		d("", 0o700, d("p", 0o200, f("f", 0o444))),
		d("", 0o755, d("p", 0o400, d("c", 0o500, f("f", 0o400)))),
		d("", 0o300, d("p", 0o000, d("c", 0o000))),
		d("", 0o600, d("a", 0o100), d("b", 0o644)),
		d("", 0o755, d("p", 0o311, d("c", 0o622)), f("g", 0o200)),
	}
	n := 0
	for _, root := range shapes {
		var es []fent
		walkEntries(root, "t", &es)
		perms := 1
		for k := 2; k <= len(es); k++ {
			perms *= k
		}
		for k := 0; k < perms; k++ {
			for _, pres := range []bool{false, true} {
				runScenario(&Scenario{Op: "S", Umask: 0o022, Preserve: pres, Via: "memory", ForeignPerm: k + 1, NonRoot: true,
					Items: []Item{{Name: hx("t"), Tree: cloneNode(root)}}})
				n++
			}
		}
	}
	run.Count("nonroot-unsearchable-archives")
	run.Extra["unsearchable_permutations"] = n
}

func main() {
	run = common.Start("C12")
	defer run.Finish()
	if *nonRootFlag {
		if os.Getuid() == 0 {
			panic("-nonroot needs an unprivileged uid")
		}
		f, err := os.Create(filepath.Join(run.Dir, "oracle.jsonl"))
		if err != nil {
			panic(err)
		}
		oracleSide = f
		defer f.Close()
	} else if os.Getuid() != 0 {
		fmt.Fprintln(os.Stderr, "C12 harness: must be started as root (it sets modes such as 04755/0500 and re-runs a part of itself as uid 65534)")
		os.Exit(3)
	}
	if fi, err := os.Stat(run.Dir); err == nil && fi.Mode()&os.ModeSetgid != 0 {
		// every directory created below would inherit the bit and all mode comparisons would be off
		fmt.Fprintln(os.Stderr, "C12 harness: the run directory is setgid; use a run directory without inherited mode bits")
		os.Exit(3)
	}
	run.Rule = "scenario = 1-3 files/directories (random trees: nesting <= 5, empty dirs/files, names up to 220 bytes and non-ASCII, relative symlinks, assorted modes, sizes 0-2 MiB, some items with equal content) x options (TarReproducible, PreservePermissions, SkipUnpack, ForceCAS, IgnoreNoName, umask) x intermediate store (memory, OCI layout); distinct = distinct restored listing / entry list / descriptor; non-trivial = a directory tree with at least one entry, a duplicate-content manifest, a tampered descriptor or a failing extraction; plus the exhaustive small scope: every directory with entries a, b each a file / symlink (9 targets) / directory with nothing, a file or such a symlink"
	if run.Replay != "" {
		data, err := os.ReadFile(run.Replay)
		if err != nil {
			panic(err)
		}
		var doc struct {
			Cases []json.RawMessage `json:"cases"`
		}
		if err := json.Unmarshal(data, &doc); err != nil {
			panic(err)
		}
		childCases := false
		for _, raw := range doc.Cases {
			var sc Scenario
			if err := json.Unmarshal(raw, &sc); err != nil || len(sc.Items) == 0 {
				continue
			}
			if sc.NonRoot != *nonRootFlag {
				childCases = childCases || sc.NonRoot
				continue
			}
			runScenario(&sc)
		}
		if childCases && !*nonRootFlag {
			cp := filepath.Join(run.Dir, "nonroot-replay.json")
			os.WriteFile(cp, data, 0o644)
			runChild(cp)
		}
		return
	}
	if *nonRootFlag {
		enumPermsUnsearchable()
		n := run.Scale(100, 2000)
		for i := 0; i < n; i++ {
			runScenario(genScenario(run.Rand.Fork(), 1000+i))
		}
		return
	}
	if run.Thorough() {
		enumSmall([]bool{false, true})
	} else {
		enumSmall([]bool{run.Seed%2 == 1})
	}
	enumPerms(run.Scale(3, 1))
	n := run.Scale(450, 12000)
	for i := 0; i < n; i++ {
		sc := genScenario(run.Rand.Fork(), i)
		runScenario(sc)
	}
	runChild("")
	// coverage floors: a generated run in which one of the streams produced nothing is an error of
	// the run (layer R), not a silent pass
	var missing []string
	for _, k := range []string{"item=dir", "item=file", "via=memory", "via=oci", "via=remote", "repro-pair=EQ", "repro-pair=NE",
		"duplicate-content", "hard-link", "item-added-via-symlink", "item-path-differs-from-name", "tree-links=through",
		"tree-links=outside", "tree-with-setuid/setgid/sticky", "foreign=OK", "foreign=ERR reject", "unpack-good=OK",
		"unpack-wrong-checksum=ERR", "unpack-wrong-digest=ERR", "direct-push-compared", "skipunpack-blob", "forceCAS-deduped",
		"dotdot-name: f", "dotdot-name: d", "dotdot-name: l", "dotdot-name: hard link", "dotdot-target",
		"filesize>=1MiB", "name>100", "link-target>100", "name-nonascii", "nonroot: copy-in=OK", "nonroot: item=dir", "nonroot: nonroot-unsearchable-archives"} {
		if run.Dist[k] == 0 {
			missing = append(missing, k)
		}
	}
	if len(missing) > 0 {
		fmt.Fprintf(os.Stderr, "C12 harness: coverage floor: no case for %q\n", missing)
		run.Finish()
		os.Exit(3)
	}
}
