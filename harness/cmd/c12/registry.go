package main

// A minimal in-memory OCI distribution registry (blobs: HEAD/GET/POST+PUT monolithic upload,
// manifests: HEAD/GET/PUT by tag or digest), enough to serve as the intermediate store
// "remote" of the C12 scenarios through registry/remote.Repository over loopback HTTP.

import (
	"fmt"
	"io"
	"net/http"
	"net/http/httptest"
	"strings"
	"sync"

	"github.com/opencontainers/go-digest"
)

type fakeRegistry struct {
	mu        sync.Mutex
	blobs     map[string][]byte // digest -> bytes
	manifests map[string][]byte // digest -> bytes
	mtypes    map[string]string // digest -> media type
	tags      map[string]string // tag -> digest
	uploads   int
	srv       *httptest.Server
}

func newFakeRegistry() *fakeRegistry {
	r := &fakeRegistry{blobs: map[string][]byte{}, manifests: map[string][]byte{}, mtypes: map[string]string{}, tags: map[string]string{}}
	r.srv = httptest.NewServer(http.HandlerFunc(r.serve))
	return r
}

func (r *fakeRegistry) host() string { return strings.TrimPrefix(r.srv.URL, "http://") }
func (r *fakeRegistry) close()       { r.srv.Close() }

func (r *fakeRegistry) serve(w http.ResponseWriter, q *http.Request) {
	r.mu.Lock()
	defer r.mu.Unlock()
	p := q.URL.Path
	if p == "/v2/" || p == "/v2" {
		w.WriteHeader(200)
		return
	}
	if !strings.HasPrefix(p, "/v2/") {
		http.NotFound(w, q)
		return
	}
	rest := p[len("/v2/"):]
	switch {
	case strings.Contains(rest, "/blobs/uploads/"):
		i := strings.Index(rest, "/blobs/uploads/")
		name, id := rest[:i], rest[i+len("/blobs/uploads/"):]
		switch q.Method {
		case http.MethodPost:
			r.uploads++
			w.Header().Set("Location", fmt.Sprintf("/v2/%s/blobs/uploads/u%d", name, r.uploads))
			w.WriteHeader(http.StatusAccepted)
		case http.MethodPut:
			_ = id
			body, err := io.ReadAll(q.Body)
			if err != nil {
				w.WriteHeader(400)
				return
			}
			d := q.URL.Query().Get("digest")
			if d == "" || digest.FromBytes(body).String() != d {
				w.WriteHeader(400)
				return
			}
			r.blobs[d] = body
			w.Header().Set("Docker-Content-Digest", d)
			w.Header().Set("Location", fmt.Sprintf("/v2/%s/blobs/%s", name, d))
			w.WriteHeader(http.StatusCreated)
		default:
			w.WriteHeader(http.StatusMethodNotAllowed)
		}
	case strings.Contains(rest, "/blobs/"):
		i := strings.Index(rest, "/blobs/")
		d := rest[i+len("/blobs/"):]
		b, ok := r.blobs[d]
		if !ok {
			w.WriteHeader(404)
			return
		}
		w.Header().Set("Content-Type", "application/octet-stream")
		w.Header().Set("Docker-Content-Digest", d)
		w.Header().Set("Content-Length", fmt.Sprint(len(b)))
		w.WriteHeader(200)
		if q.Method == http.MethodGet {
			w.Write(b)
		}
	case strings.Contains(rest, "/manifests/"):
		i := strings.Index(rest, "/manifests/")
		ref := rest[i+len("/manifests/"):]
		switch q.Method {
		case http.MethodPut:
			body, err := io.ReadAll(q.Body)
			if err != nil {
				w.WriteHeader(400)
				return
			}
			d := digest.FromBytes(body).String()
			if strings.Contains(ref, ":") && ref != d {
				w.WriteHeader(400)
				return
			}
			r.manifests[d] = body
			r.mtypes[d] = q.Header.Get("Content-Type")
			if !strings.Contains(ref, ":") {
				r.tags[ref] = d
			}
			w.Header().Set("Docker-Content-Digest", d)
			w.WriteHeader(http.StatusCreated)
		case http.MethodGet, http.MethodHead:
			d := ref
			if !strings.Contains(ref, ":") {
				d = r.tags[ref]
			}
			b, ok := r.manifests[d]
			if !ok {
				w.WriteHeader(404)
				return
			}
			w.Header().Set("Content-Type", r.mtypes[d])
			w.Header().Set("Docker-Content-Digest", d)
			w.Header().Set("Content-Length", fmt.Sprint(len(b)))
			w.WriteHeader(200)
			if q.Method == http.MethodGet {
				w.Write(b)
			}
		default:
			w.WriteHeader(http.StatusMethodNotAllowed)
		}
	default:
		http.NotFound(w, q)
	}
}
