// C13 harness: remote.Repository against an in-process registry.
//
// Per case it writes the model input (cases.txt), the implementation's
// observable = result of every operation + the complete (request, response) log
// of the fake registry in the abstract form of coq/Model/Registry.v (impl.txt),
// and direct oracle failures (oracle.txt).  The oracle is independent of the
// Coq model: a Go content-store-with-tags ground truth maintained by the
// harness, the distribution-spec endpoint table (fakereg13.SpecCheck), a
// must-fail table for single-field response corruptions and bytes.Reader as the
// reference for Read/Seek scripts.
package main

import (
	"bytes"
	"context"
	"crypto/sha256"
	_ "crypto/sha512"
	"encoding/json"
	"errors"
	"fmt"
	"io"
	"net/http"
	"net/url"
	"os"
	"regexp"
	"sort"
	"strconv"
	"strings"
	"time"

	"github.com/opencontainers/go-digest"
	ocispec "github.com/opencontainers/image-spec/specs-go/v1"
	"oras.land/oras-go/v2/errdef"
	"oras.land/oras-go/v2/registry"
	"oras.land/oras-go/v2/registry/remote"
	"verifharness/common"
	fr "verifharness/fakereg13"
)

var run *common.Run
var knownSeen int
var seekKnownSeen int

const (
	mtDockerManifest = "application/vnd.docker.distribution.manifest.v2+json"
	mtDockerList     = "application/vnd.docker.distribution.manifest.list.v2+json"
	mtOCIManifest    = "application/vnd.oci.image.manifest.v1+json"
	mtOCIIndex       = "application/vnd.oci.image.index.v1+json"
	mtArtifact       = "application/vnd.oci.artifact.manifest.v1+json"
	mtOctet          = "application/octet-stream"
	mtLayer          = "application/vnd.oci.image.layer.v1.tar"
	mtCustom         = "application/vnd.verif.custom+json"
)

var defaultMTs = []string{mtDockerManifest, mtDockerList, mtOCIManifest, mtOCIIndex, mtArtifact}

func sha(b []byte) string { return fmt.Sprintf("sha256:%x", sha256.Sum256(b)) }

var tagRx = regexp.MustCompile(`^[a-zA-Z0-9_][a-zA-Z0-9._-]{0,127}$`)

func validDigest(s string) bool { return digest.Digest(s).Validate() == nil }
func validTag(s string) bool    { return tagRx.MatchString(s) }

// ---------- cases ----------

type PoolItem struct {
	Bytes  []byte
	Digest string
	Subj   string // "N" not JSON, "-" no subject, else mt/dg/sz of the subject (hex form)
	subj   *fr.Desc
}

type Op struct {
	Kind string
	D    fr.Desc
	CI   int // pool index of the content (-1 = none)
	S    string
}

// Opts are Repository options that must not change any modelled behaviour.
type Opts struct {
	SkipGC  bool
	Warn    bool  // HandleWarning set; the registry sends Warning headers
	RefPage int   // ReferrerListPageSize
	TagPage int   // TagListPageSize
	MaxMeta int64 // MaxMetadataBytes (0 = default)
}

func (o Opts) String() string {
	return fmt.Sprintf("g%sw%sr%dt%dm%d", bit(o.SkipGC), bit(o.Warn), o.RefPage, o.TagPage, o.MaxMeta)
}

var optsRx = regexp.MustCompile(`^g([01])w([01])r([0-9]+)t([0-9]+)m([0-9]+)$`)

func parseOpts(s string) Opts {
	m := optsRx.FindStringSubmatch(s)
	if m == nil {
		return Opts{}
	}
	r, _ := strconv.Atoi(m[3])
	t, _ := strconv.Atoi(m[4])
	mm, _ := strconv.ParseInt(m[5], 10, 64)
	return Opts{SkipGC: m[1] == "1", Warn: m[2] == "1", RefPage: r, TagPage: t, MaxMeta: mm}
}

type Case struct {
	O           Opts
	Main, Other string
	Prof        fr.Profile
	Plain       bool
	Rst         int
	MTs         []string
	Cor         *fr.Corruption
	Pool        []PoolItem
	OtherIdx    []int
	Ops         []Op
}

func (c *Case) isJSON(b []byte) bool {
	for _, p := range c.Pool {
		if bytes.Equal(p.Bytes, b) {
			return p.Subj != "N"
		}
	}
	return false
}

func bit(b bool) string {
	if b {
		return "1"
	}
	return "0"
}

func d3(d fr.Desc) string {
	return fmt.Sprintf("%s %s %d", common.Hex(d.MT), common.Hex(d.DG), d.SZ)
}

func (c *Case) Line() string {
	var w []string
	add := func(s ...string) { w = append(w, s...) }
	add("H", common.Hex(c.Main), common.Hex(c.Other),
		bit(c.Prof.DigHdr)+bit(c.Prof.Range)+bit(c.Prof.CLen)+bit(c.Prof.Mount)+bit(c.Prof.Referrers),
		bit(c.Plain)+c.O.String(), strconv.Itoa(c.Rst), strconv.Itoa(len(c.MTs)))
	for _, m := range c.MTs {
		add(common.Hex(m))
	}
	if c.Cor == nil {
		add("-")
	} else {
		add(strconv.Itoa(c.Cor.K), c.Cor.Field)
		switch c.Cor.Field {
		case "dig-other":
			add(common.Hex(c.Cor.Arg))
		case "status":
			add(c.Cor.Arg)
		}
	}
	add(strconv.Itoa(len(c.Pool)))
	for _, p := range c.Pool {
		add(common.Hex(string(p.Bytes)), common.Hex(p.Digest), p.Subj)
	}
	add(strconv.Itoa(len(c.OtherIdx)))
	for _, i := range c.OtherIdx {
		add(strconv.Itoa(i))
	}
	add(strconv.Itoa(len(c.Ops)))
	for _, o := range c.Ops {
		switch o.Kind {
		case "push":
			add("push", d3(o.D), strconv.Itoa(o.CI))
		case "fetch", "exists", "delete", "preds":
			add(o.Kind, d3(o.D))
		case "resolve", "fetchref", "bresolve", "bfetchref":
			add(o.Kind, common.Hex(o.S))
		case "tag":
			add("tag", d3(o.D), common.Hex(o.S))
		case "pushref":
			add("pushref", d3(o.D), strconv.Itoa(o.CI), common.Hex(o.S))
		case "mount":
			if o.CI < 0 {
				add("mount", d3(o.D), "-")
			} else {
				add("mount", d3(o.D), strconv.Itoa(o.CI))
			}
		}
	}
	return strings.Join(w, " ")
}

func parseSubj(s string) *fr.Desc {
	if s == "N" || s == "-" {
		return nil
	}
	p := strings.Split(s, "/")
	n, _ := strconv.ParseInt(p[2], 10, 64)
	return &fr.Desc{MT: common.UnHex(p[0]), DG: common.UnHex(p[1]), SZ: n}
}

func ParseCase(line string) (*Case, error) {
	t := strings.Fields(line)
	i := 0
	var perr error
	next := func() string {
		if i >= len(t) {
			perr = errors.New("short line")
			return "0"
		}
		i++
		return t[i-1]
	}
	nexti := func() int { n, _ := strconv.Atoi(next()); return n }
	if next() != "H" {
		return nil, errors.New("not a history case")
	}
	c := &Case{}
	c.Main, c.Other = common.UnHex(next()), common.UnHex(next())
	pb := next()
	if len(pb) != 5 {
		return nil, errors.New("profile")
	}
	c.Prof = fr.Profile{DigHdr: pb[0] == '1', Range: pb[1] == '1', CLen: pb[2] == '1', Mount: pb[3] == '1', Referrers: pb[4] == '1'}
	if pl := next(); len(pl) > 0 {
		c.Plain = pl[0] == '1'
		c.O = parseOpts(pl[1:])
	}
	c.Rst = nexti()
	for n := nexti(); n > 0; n-- {
		c.MTs = append(c.MTs, common.UnHex(next()))
	}
	if k := next(); k != "-" {
		kk, _ := strconv.Atoi(k)
		c.Cor = &fr.Corruption{K: kk, Field: next()}
		switch c.Cor.Field {
		case "dig-other":
			c.Cor.Arg = common.UnHex(next())
		case "status":
			c.Cor.Arg = next()
		}
	}
	for n := nexti(); n > 0; n-- {
		p := PoolItem{Bytes: []byte(common.UnHex(next())), Digest: common.UnHex(next()), Subj: next()}
		p.subj = parseSubj(p.Subj)
		c.Pool = append(c.Pool, p)
	}
	for n := nexti(); n > 0; n-- {
		c.OtherIdx = append(c.OtherIdx, nexti())
	}
	rd := func() fr.Desc {
		mt, dg := common.UnHex(next()), common.UnHex(next())
		n, _ := strconv.ParseInt(next(), 10, 64)
		return fr.Desc{MT: mt, DG: dg, SZ: n}
	}
	for n := nexti(); n > 0 && perr == nil; n-- {
		o := Op{Kind: next(), CI: -1}
		switch o.Kind {
		case "push":
			o.D = rd()
			o.CI = nexti()
		case "fetch", "exists", "delete", "preds":
			o.D = rd()
		case "resolve", "fetchref", "bresolve", "bfetchref":
			o.S = common.UnHex(next())
		case "tag":
			o.D = rd()
			o.S = common.UnHex(next())
		case "pushref":
			o.D = rd()
			o.CI = nexti()
			o.S = common.UnHex(next())
		case "mount":
			o.D = rd()
			if x := next(); x != "-" {
				o.CI, _ = strconv.Atoi(x)
			}
		default:
			return nil, errors.New("op " + o.Kind)
		}
		c.Ops = append(c.Ops, o)
	}
	for _, o := range c.Ops {
		if o.CI >= len(c.Pool) {
			return nil, errors.New("pool index")
		}
	}
	for _, x := range c.OtherIdx {
		if x >= len(c.Pool) {
			return nil, errors.New("pool index")
		}
	}
	return c, perr
}

// ---------- execution ----------

func errClass(err error) string {
	switch {
	case errors.Is(err, errdef.ErrNotFound):
		return "err:nf"
	case errors.Is(err, errdef.ErrInvalidReference):
		return "err:ref"
	}
	return "err:other"
}

func od(d fr.Desc) ocispec.Descriptor {
	return ocispec.Descriptor{MediaType: d.MT, Digest: digest.Digest(d.DG), Size: d.SZ}
}
func fd(d ocispec.Descriptor) fr.Desc {
	return fr.Desc{MT: d.MediaType, DG: string(d.Digest), SZ: d.Size}
}

type opResult struct {
	Str   string
	Err   error
	Bytes []byte
	Desc  *fr.Desc
	Descs []fr.Desc
	Bool  bool
}

func newRepo(c *Case, g *fr.Registry) *remote.Repository {
	repo := &remote.Repository{
		Client:               g,
		Reference:            registry.Reference{Registry: "registry.example", Repository: c.Main},
		PlainHTTP:            c.Plain,
		ManifestMediaTypes:   c.MTs,
		SkipReferrersGC:      c.O.SkipGC,
		ReferrerListPageSize: c.O.RefPage,
		TagListPageSize:      c.O.TagPage,
	}
	repo.MaxMetadataBytes = c.O.MaxMeta
	switch c.Rst {
	case 1:
		repo.SetReferrersCapability(true)
	case 2:
		repo.SetReferrersCapability(false)
	}
	return repo
}

func newRegistry(c *Case) *fr.Registry {
	g := fr.New(c.Main, c.Other, c.Prof)
	if c.Plain {
		g.Scheme = "http"
	}
	g.Hash = sha
	g.ValidDigest = validDigest
	g.ValidTag = validTag
	g.SubjectOf = func(b []byte) *fr.Desc {
		for _, p := range c.Pool {
			if bytes.Equal(p.Bytes, b) {
				return p.subj
			}
		}
		return nil
	}
	for _, i := range c.OtherIdx {
		g.AddOther(c.Pool[i].Digest, c.Pool[i].Bytes)
	}
	g.Corrupt = c.Cor
	return g
}

// opaqueReader is a caller-side content reader without a known length: short reads and,
// for odd chunk sizes, the last bytes together with io.EOF.
type opaqueReader struct {
	b     []byte
	chunk int
}

func (r *opaqueReader) Read(p []byte) (int, error) {
	if len(r.b) == 0 {
		return 0, io.EOF
	}
	n := len(p)
	if n > r.chunk {
		n = r.chunk
	}
	n = copy(p[:n], r.b)
	r.b = r.b[n:]
	if len(r.b) == 0 && r.chunk%2 == 1 && n > 0 {
		return n, io.EOF
	}
	return n, nil
}

// contentReader: how the caller hands the content to Push.  When the descriptor's size is the
// content's length the kind of reader must not matter (the model assumes a *bytes.Reader), so
// it rotates deterministically: *bytes.Reader, io.NopCloser around one, an opaque reader.
func contentReader(content []byte, d fr.Desc, salt int) io.Reader {
	if int64(len(content)) != d.SZ {
		return bytes.NewReader(content)
	}
	switch (salt + len(content)) % 3 {
	case 1:
		run.Count("reader:nopcloser")
		return io.NopCloser(bytes.NewReader(content))
	case 2:
		run.Count("reader:opaque")
		return &opaqueReader{b: append([]byte(nil), content...), chunk: 1 + (salt+len(content))%5}
	}
	run.Count("reader:bytes")
	return bytes.NewReader(content)
}

// target: the store an operation with a descriptor is sent to.  Repository routes by media type
// to Blobs() or Manifests(); calling that sub-store directly must be the same thing, so the two
// ways alternate deterministically (quantifier: Repository/BlobStore/ManifestStore operations).
type contentStore interface {
	Fetch(ctx context.Context, target ocispec.Descriptor) (io.ReadCloser, error)
	Push(ctx context.Context, expected ocispec.Descriptor, content io.Reader) error
	Exists(ctx context.Context, target ocispec.Descriptor) (bool, error)
	Delete(ctx context.Context, target ocispec.Descriptor) error
}

func target(c *Case, repo *remote.Repository, d fr.Desc) contentStore {
	if (len(d.DG)+int(d.SZ)+len(d.MT))%2 == 0 {
		run.Count("route:repository")
		return repo
	}
	if isManifest(c, d.MT) {
		run.Count("route:manifests")
		return repo.Manifests()
	}
	run.Count("route:blobs")
	return repo.Blobs()
}

func doOp(ctx context.Context, c *Case, repo *remote.Repository, o Op) (res opResult) {
	fail := func(err error) opResult { return opResult{Str: errClass(err), Err: err} }
	var content []byte
	if o.CI >= 0 {
		content = c.Pool[o.CI].Bytes
	}
	switch o.Kind {
	case "push":
		if err := target(c, repo, o.D).Push(ctx, od(o.D), contentReader(content, o.D, len(o.D.MT))); err != nil {
			return fail(err)
		}
		return opResult{Str: "ok"}
	case "pushref":
		if err := repo.PushReference(ctx, od(o.D), contentReader(content, o.D, len(o.S)), o.S); err != nil {
			return fail(err)
		}
		return opResult{Str: "ok"}
	case "fetch":
		rc, err := target(c, repo, o.D).Fetch(ctx, od(o.D))
		if err != nil {
			return fail(err)
		}
		defer rc.Close()
		b, err := io.ReadAll(rc)
		if err != nil {
			return fail(err)
		}
		return opResult{Str: "bytes:" + common.Hex(string(b)), Bytes: b}
	case "exists":
		ok, err := target(c, repo, o.D).Exists(ctx, od(o.D))
		if err != nil {
			return fail(err)
		}
		return opResult{Str: "bool:" + bit(ok), Bool: ok}
	case "delete":
		if err := target(c, repo, o.D).Delete(ctx, od(o.D)); err != nil {
			return fail(err)
		}
		return opResult{Str: "ok"}
	case "resolve", "bresolve":
		var d ocispec.Descriptor
		var err error
		if o.Kind == "resolve" {
			d, err = repo.Resolve(ctx, o.S)
		} else {
			d, err = repo.Blobs().Resolve(ctx, o.S)
		}
		if err != nil {
			return fail(err)
		}
		x := fd(d)
		return opResult{Str: "desc:" + fr.ShowDesc(x), Desc: &x}
	case "fetchref", "bfetchref":
		var d ocispec.Descriptor
		var rc io.ReadCloser
		var err error
		if o.Kind == "fetchref" {
			d, rc, err = repo.FetchReference(ctx, o.S)
		} else {
			d, rc, err = repo.Blobs().(registry.ReferenceFetcher).FetchReference(ctx, o.S)
		}
		if err != nil {
			return fail(err)
		}
		defer rc.Close()
		b, err := io.ReadAll(rc)
		if err != nil {
			return fail(err)
		}
		x := fd(d)
		return opResult{Str: "db:" + fr.ShowDesc(x) + "," + common.Hex(string(b)), Desc: &x, Bytes: b}
	case "tag":
		if err := repo.Tag(ctx, od(o.D), o.S); err != nil {
			return fail(err)
		}
		return opResult{Str: "ok"}
	case "mount":
		var get func() (io.ReadCloser, error)
		if o.CI >= 0 {
			get = func() (io.ReadCloser, error) { return io.NopCloser(bytes.NewReader(content)), nil }
		}
		if err := repo.Mount(ctx, od(o.D), c.Other, get); err != nil {
			return fail(err)
		}
		return opResult{Str: "ok"}
	case "preds":
		ds, err := repo.Predecessors(ctx, od(o.D))
		if err != nil {
			return fail(err)
		}
		var l []fr.Desc
		for _, d := range ds {
			l = append(l, fd(d))
		}
		return opResult{Str: "descs:" + fr.ShowDescs(l), Descs: l}
	}
	panic("op " + o.Kind)
}

// ---------- ground truth (independent of the Coq model) ----------

type man struct {
	mt string
	b  []byte
}
type truth struct {
	blobs map[string][]byte
	mans  map[string]man
	tags  map[string]string
	other map[string][]byte
}

func isManifest(c *Case, mt string) bool {
	l := c.MTs
	if len(l) == 0 {
		l = defaultMTs
	}
	for _, m := range l {
		if m == mt {
			return true
		}
	}
	return false
}

func indexable(mt string) bool { return mt == mtOCIManifest || mt == mtOCIIndex || mt == mtArtifact }

// refKind: "tag", "digest" or "" (not a reference this oracle judges)
func refKind(s string) (string, string) {
	if i := strings.IndexByte(s, '@'); i >= 0 {
		if validDigest(s[i+1:]) {
			return "digest", s[i+1:]
		}
		return "", ""
	}
	if validDigest(s) {
		return "digest", s
	}
	if !strings.Contains(s, ":") && validTag(s) {
		return "tag", s
	}
	return "", ""
}

// accurate: the descriptor is the true descriptor of what the truth holds under
// its digest (or of the content being pushed)
func accurateFor(d fr.Desc, b []byte) bool { return d.DG == sha(b) && d.SZ == int64(len(b)) }

// expect computes the spec-level expected result of o on the truth and applies
// its effect; "" = no prediction for the result (state effect known);
// "?" = the caller's descriptor is inaccurate and the effect is not fixed by the
// property: the history is not judged any further.
// How Predecessors and the referrers bookkeeping work in this case: over the Referrers API
// ("api"), over the referrers tag schema ("tags": registry without the API, or a client told
// that there is none), or a client/registry combination this oracle does not predict ("").
func (c *Case) referrersRegime() string {
	switch {
	case c.Rst == 2 || (!c.Prof.Referrers && c.Rst == 0):
		return "tags"
	case c.Prof.Referrers:
		return "api"
	}
	return ""
}

func (c *Case) subjectOf(b []byte) *fr.Desc {
	for _, p := range c.Pool {
		if bytes.Equal(p.Bytes, b) {
			return p.subj
		}
	}
	return nil
}

func (c *Case) overLimit(n int) bool {
	l := c.O.MaxMeta
	if l <= 0 {
		l = 4 * 1024 * 1024
	}
	return int64(n) > l
}

func (t *truth) expect(c *Case, o Op) string {
	isMan := isManifest(c, o.D.MT)
	var content []byte
	if o.CI >= 0 {
		content = c.Pool[o.CI].Bytes
	}
	jsonOK := func() bool { return o.CI < 0 || c.Pool[o.CI].Subj != "N" }
	switch o.Kind {
	case "push":
		if !accurateFor(o.D, content) {
			return "err"
		}
		if isMan {
			if indexable(o.D.MT) && c.overLimit(len(content)) {
				return "?" // refused by MaxMetadataBytes unless the Referrers API is known to be there
			}
			if old, ok := t.mans[o.D.DG]; ok && old.mt != o.D.MT && c.subjectOf(content) != nil {
				return "?" // the same referrer under two media types: two index entries, one manifest
			}
			t.mans[o.D.DG] = man{o.D.MT, content}
			if !jsonOK() && indexable(o.D.MT) {
				return "" // stored, but the client may fail to decode it afterwards
			}
		} else {
			t.blobs[o.D.DG] = content
		}
		return "ok"
	case "pushref":
		k, rf := refKind(o.S)
		if k == "" {
			return "err"
		}
		if !accurateFor(o.D, content) {
			return "?" // by tag the registry cannot know the expected digest
		}
		if k == "digest" && rf != o.D.DG {
			return "err"
		}
		if indexable(o.D.MT) && c.overLimit(len(content)) {
			return "?"
		}
		if old, ok := t.mans[o.D.DG]; ok && old.mt != o.D.MT && c.subjectOf(content) != nil {
			return "?"
		}
		t.mans[o.D.DG] = man{o.D.MT, content}
		if k == "tag" {
			t.tags[rf] = o.D.DG
		}
		if !jsonOK() && indexable(o.D.MT) {
			return ""
		}
		return "ok"
	case "fetch":
		if isMan {
			m, ok := t.mans[o.D.DG]
			if !ok {
				return "err:nf"
			}
			if !accurateFor(o.D, m.b) || m.mt != o.D.MT {
				return ""
			}
			return "bytes:" + common.Hex(string(m.b))
		}
		b, ok := t.blobs[o.D.DG]
		if !ok {
			return "err:nf"
		}
		if !accurateFor(o.D, b) {
			return ""
		}
		return "bytes:" + common.Hex(string(b))
	case "exists":
		if isMan {
			_, ok := t.mans[o.D.DG]
			return "bool:" + bit(ok)
		}
		_, ok := t.blobs[o.D.DG]
		return "bool:" + bit(ok)
	case "delete":
		if isMan {
			m, ok := t.mans[o.D.DG]
			if !ok {
				if indexable(o.D.MT) && c.overLimit(int(o.D.SZ)) {
					return "err" // refused by size before anything is asked
				}
				return "err:nf"
			}
			if !accurateFor(o.D, m.b) || m.mt != o.D.MT {
				return "?"
			}
			if indexable(m.mt) && (!c.isJSON(m.b) || c.overLimit(len(m.b))) {
				return "?" // the client reads and decodes the manifest before deleting it (referrers bookkeeping)
			}
			delete(t.mans, o.D.DG)
			for k, v := range t.tags {
				if v == o.D.DG {
					delete(t.tags, k)
				}
			}
			return "ok"
		}
		if _, ok := t.blobs[o.D.DG]; !ok {
			return "err:nf"
		}
		delete(t.blobs, o.D.DG)
		return "ok"
	case "resolve", "fetchref":
		k, rf := refKind(o.S)
		if k == "" {
			return "err"
		}
		dg := rf
		if k == "tag" {
			var ok bool
			if dg, ok = t.tags[rf]; !ok {
				return "err:nf"
			}
		}
		m, ok := t.mans[dg]
		if !ok {
			return "err:nf"
		}
		d := fr.ShowDesc(fr.Desc{MT: m.mt, DG: dg, SZ: int64(len(m.b))})
		if o.Kind == "resolve" {
			return "desc:" + d
		}
		if c.overLimit(len(m.b)) {
			// a manifest over MaxMetadataBytes may be refused, but never be returned truncated
			return "err|db:" + d + "," + common.Hex(string(m.b))
		}
		return "db:" + d + "," + common.Hex(string(m.b))
	case "bresolve", "bfetchref":
		k, rf := refKind(o.S)
		if k != "digest" {
			return "err"
		}
		b, ok := t.blobs[rf]
		if !ok {
			return "err:nf"
		}
		d := fr.ShowDesc(fr.Desc{MT: mtOctet, DG: rf, SZ: int64(len(b))})
		if o.Kind == "bresolve" {
			return "desc:" + d
		}
		return "db:" + d + "," + common.Hex(string(b))
	case "tag":
		k, rf := refKind(o.S)
		if k == "" {
			return "err"
		}
		m, ok := t.mans[o.D.DG]
		if !ok {
			return "err:nf"
		}
		if !accurateFor(o.D, m.b) || m.mt != o.D.MT {
			return "?"
		}
		if k == "digest" {
			if rf != o.D.DG {
				return "err"
			}
			return "ok"
		}
		t.tags[rf] = o.D.DG
		return "ok"
	case "mount":
		src, ok := t.other[o.D.DG]
		if o.CI >= 0 {
			// the caller supplies the content: it must match the descriptor
			if !accurateFor(o.D, content) {
				if ok && c.Prof.Mount {
					return "?" // mounted server-side without looking at the content
				}
				return "err"
			}
			t.blobs[o.D.DG] = content
			return "ok"
		}
		if !ok {
			return "err:nf"
		}
		if !accurateFor(o.D, src) {
			return "?"
		}
		t.blobs[o.D.DG] = src
		return "ok"
	case "preds":
		regime := c.referrersRegime()
		if regime == "" {
			return ""
		}
		var l []fr.Desc
		for dg, m := range t.mans {
			// the tag schema lists what the client indexed itself: manifests of the indexed media types
			if sj := c.subjectOf(m.b); sj != nil && sj.DG == o.D.DG && (regime == "api" || indexable(m.mt)) {
				l = append(l, fr.Desc{MT: m.mt, DG: dg, SZ: int64(len(m.b))})
			}
		}
		if c.O.MaxMeta > 0 && c.O.MaxMeta < 1<<16 {
			// the referrers index itself may not fit a small MaxMetadataBytes: refused, never cut
			return "err|descs:" + fr.ShowDescs(l)
		}
		return "descs:" + fr.ShowDescs(l)
	}
	return ""
}

func agrees(expect, got string) bool {
	if expect == "" {
		return true
	}
	if expect == "err" {
		return strings.HasPrefix(got, "err:")
	}
	if strings.HasPrefix(expect, "err|") {
		return strings.HasPrefix(got, "err:") || got == expect[4:]
	}
	return expect == got
}

// mustFail: the property's last sentence, as a table over (request, corrupted field).
func mustFail(c *Case, o Op, ex fr.Exchange) bool {
	q, f := ex.Q, c.Cor.Field
	ok2xx := func(st int) bool { return st >= 200 && st < 300 }
	hasDesc := map[string]bool{"push": true, "pushref": true, "fetch": true, "exists": true, "delete": true, "tag": true, "mount": true}[o.Kind]
	digestRef := q.EP.Kind == "blob" || (q.EP.Kind == "man" && validDigest(q.EP.Arg))
	orig := ex.R.Status
	if (q.M == "GET" || q.M == "HEAD") && q.EP.Kind == "man" && strings.HasPrefix(q.EP.Arg, "sha256-") {
		switch f {
		case "dig-other":
			if q.M == "HEAD" { // (the GET had no Content-Length; the body is that GET's)
				return ok2xx(orig) && ex.R.Dig != nil
			}
			return ok2xx(orig) && ex.R.Dig != nil && *ex.R.Dig != sha(ex.R.Body)
		case "dig-garbage":
			return ok2xx(orig)
		case "len-inc":
			return ok2xx(orig) && ex.R.CLen != nil
		case "status":
			// a 404 means "no referrers index yet"; 200 is the success status
			return c.Cor.Arg != "404" && c.Cor.Arg != "200" && c.Cor.Arg != strconv.Itoa(origStatusOf(ex))
		case "type-garbage", "type-drop":
			// a GET without Content-Length is described by the following HEAD; its own
			// Content-Type is then never looked at
			return ok2xx(orig) && (q.M == "HEAD" || ex.R.CLen != nil)
		}
		return false // name-unknown = a 404; the media type of the index is not something that was requested
	}
	if f == "name-unknown" {
		return true
	}
	if f == "status" {
		if c.Cor.Arg == strconv.Itoa(origStatusOf(ex)) {
			return false // not a corruption
		}
		// 200/201/202 in answer to a POST are protocol alternatives the client cannot tell from
		// the truth (mounted vs. session opened): a lying registry, not a contradiction
		if q.M == "POST" && (c.Cor.Arg == "201" || c.Cor.Arg == "202") {
			return false
		}
		// ... and so is the success status of the request on an answer that was a refusal
		// (a 404 turned into a bare 200 is a valid answer without length and digest headers)
		success := map[string]string{"GET": "200", "HEAD": "200", "PUT": "201", "DELETE": "202"}[q.M]
		if c.Cor.Arg == success {
			return false
		}
		return true
	}
	if !ok2xx(orig) {
		return false
	}
	read := q.M == "GET" || q.M == "HEAD"
	// FetchReference whose GET carries no Content-Length derives the descriptor from a second
	// (HEAD) request: length and media type of the GET are then not "what was requested" --
	// but the body it returns comes from this GET, so a digest header that is unparsable or
	// names other content than the digest asked for must still make the call fail
	noLenGet := (o.Kind == "fetchref" || o.Kind == "bfetchref") && q.M == "GET" && ex.R.CLen == nil
	if noLenGet && f != "dig-other" && f != "dig-garbage" {
		return false
	}
	// the GET of a referrers tag (tag schema): the index is used by Predecessors and by the index
	// update of push/delete; the response must be consistent in itself -- a digest header that is
	// not the digest of the body, or a Content-Length that is not its length, must fail the call
	// what the call knows about the content it asked for
	wantDigest := ""
	if hasDesc {
		wantDigest = o.D.DG
	} else if digestRef {
		wantDigest = q.EP.Arg
	}
	switch f {
	case "dig-garbage":
		return (read && (q.EP.Kind == "blob" || q.EP.Kind == "man")) || q.M == "DELETE" ||
			(q.M == "PUT" && q.EP.Kind == "man") || (q.M == "POST" && orig == 201)
		// (the final PUT of a blob upload ignores an unparsable digest header: only a
		// well-formed one naming other content contradicts the descriptor)
	case "dig-other":
		// the header names other content than the one requested
		contradicts := wantDigest != "" && ex.R.Dig != nil && *ex.R.Dig != wantDigest
		if !contradicts {
			return false
		}
		if q.M == "PUT" {
			return q.EP.Kind == "man" || q.EP.Kind == "sess" // manifest PUT and the blob upload's final PUT
		}
		if q.M == "POST" {
			return orig == 201
		}
		return q.EP.Kind == "blob" || q.EP.Kind == "man"
	case "len-inc":
		return q.M == "GET" && hasDesc && (q.EP.Kind == "blob" || q.EP.Kind == "man") &&
			ex.R.CLen != nil && *ex.R.CLen != o.D.SZ
	case "len-drop":
		return q.M == "HEAD" && (o.Kind == "resolve" || o.Kind == "bresolve")
	case "type-other":
		return q.M == "GET" && q.EP.Kind == "man" && hasDesc && ex.R.CType != nil && *ex.R.CType != o.D.MT
	case "type-garbage", "type-drop":
		return read && q.EP.Kind == "man"
	case "loc-drop":
		return q.M == "POST" && orig == 202
	}
	return false
}

// origStatusOf: the status before a status corruption cannot be read off the logged (corrupted)
// response; the registry's honest statuses are determined by method and endpoint.
func origStatusOf(ex fr.Exchange) int {
	if ex.OrigStatus != 0 {
		return ex.OrigStatus
	}
	return ex.R.Status
}

func replayOf(line string) map[string]string { return map[string]string{"line": line} }

func execHistory(id string, c *Case) (nreq int) {
	line := c.Line()
	g := newRegistry(c)
	repo := newRepo(c, g)
	var gotWarnings []string
	if c.O.Warn {
		g.WarnEvery = 2
		repo.HandleWarning = func(w remote.Warning) {
			if w.Code != 299 || w.Agent != "-" {
				run.OracleFail(id, "warning-pass-through", fmt.Sprintf("handler called with code %d agent %q", w.Code, w.Agent), replayOf(line))
			}
			gotWarnings = append(gotWarnings, w.Text)
		}
	}
	ctx := context.Background()
	t := &truth{blobs: map[string][]byte{}, mans: map[string]man{}, tags: map[string]string{}, other: map[string][]byte{}}
	for _, i := range c.OtherIdx {
		t.other[c.Pool[i].Digest] = c.Pool[i].Bytes
	}
	var parts []string
	nbad := 0
	judging := true
	nontrivial := false
	for i, o := range c.Ops {
		g.CurOp = i
		first := len(g.Log)
		sentBefore, gotBefore := len(g.SentWarnings), len(gotWarnings)
		// watchdog: an operation that does not return (a page loop that never ends, a wedged
		// merge of referrers changes) is a failure with a replay, not a hanging check
		resCh := make(chan opResult, 1)
		go func() { resCh <- doOp(ctx, c, repo, o) }()
		var res opResult
		select {
		case res = <-resCh:
		case <-time.After(20 * time.Second):
			run.OracleFail(id, "hang", fmt.Sprintf("op %d (%s) did not return within 20s (%d requests so far)", i, o.Kind, len(g.Log)-first), replayOf(line))
			run.Case(id, line, "hang")
			return g.N
		}
		if c.O.Warn {
			sent, got := g.SentWarnings[sentBefore:], gotWarnings[gotBefore:]
			if strings.Join(sent, "\x00") != strings.Join(got, "\x00") {
				run.OracleFail(id, "warning-pass-through", fmt.Sprintf("op %d (%s): registry sent warnings %q, HandleWarning received %q", i, o.Kind, sent, got), replayOf(line))
			}
			run.Dist["warnings:delivered"] += len(got)
		}
		var tr []string
		var hit *fr.Exchange
		lied := false
		for k := first; k < len(g.Log); k++ {
			ex := g.Log[k]
			tr = append(tr, fr.ShowReq(ex.Q)+">"+fr.ShowResp(ex.R))
			if ex.Bad != "" {
				nbad++
			}
			if ex.Bad != "" && !lied {
				run.OracleFail(id, "request-not-allowed", fmt.Sprintf("op %d (%s): %s: %s", i, o.Kind, ex.Bad, fr.ShowReq(ex.Q)), replayOf(line))
			}
			if ex.Hit && ex.Q.M == "POST" && c.Cor.Field == "status" {
				lied = true // the client follows what the registry claimed
			}
			if ex.Hit {
				e := ex
				hit = &e
			}
		}
		trs := "-"
		if len(tr) > 0 {
			trs = strings.Join(tr, ";")
		}
		parts = append(parts, res.Str+" "+trs)
		cls := strings.SplitN(res.Str, ":", 2)[0]
		if cls == "err" {
			cls = res.Str
		}
		run.Count("op:" + o.Kind + ":" + cls)
		if len(tr) > 1 {
			nontrivial = true
		}
		// consistency that must hold in every run: a descriptor returned for a digest reference carries that digest
		if res.Desc != nil {
			if k, rf := refKind(o.S); k == "digest" && res.Desc.DG != rf {
				run.OracleFail(id, "inconsistent-descriptor", fmt.Sprintf("op %d (%s %q) returned digest %s", i, o.Kind, o.S, res.Desc.DG), replayOf(line))
			}
		}
		if !judging {
			continue
		}
		if hit != nil {
			run.Count("corrupt:" + c.Cor.Field + ":" + o.Kind + ":" + hit.Q.M + ":" + hit.Q.EP.Kind)
			if hit.Q.EP.Kind == "man" && strings.HasPrefix(hit.Q.EP.Arg, "sha256-") {
				run.Count("tagschema:index-response-corrupted")
				if mustFail(c, o, *hit) {
					run.Count("tagschema:index-corruption-must-fail")
				}
			}
			// a 404 is an answer the protocol defines: Exists reports "not there" instead of failing
			notFound := (c.Cor.Field == "name-unknown" || (c.Cor.Field == "status" && c.Cor.Arg == "404")) &&
				((o.Kind == "exists" && res.Str == "bool:0") ||
					// ... and a plain 404 on the referrers endpoint means "no Referrers API": tag schema
					(o.Kind == "preds" && c.Cor.Field == "status" && hit.Q.EP.Kind == "refs"))
			if mustFail(c, o, *hit) && res.Err == nil && !notFound {
				run.OracleFail(id, "corruption-accepted", fmt.Sprintf("op %d (%s): response to %s corrupted in %s, call returned %s", i, o.Kind,
					fr.ShowReq(hit.Q), c.Cor.Field, res.Str), replayOf(line))
			}
			judging = false // the ground truth is no longer known after a corrupted exchange
			continue
		}
		exp := t.expect(c, o)
		if c.referrersRegime() == "tags" && exp != "" && exp != "?" {
			if o.Kind == "preds" {
				run.Count("tagschema:preds-judged")
			} else if o.CI >= 0 && c.Pool[o.CI].subj != nil && (o.Kind == "push" || o.Kind == "pushref") {
				run.Count("tagschema:push-with-subject-judged")
			} else if o.Kind == "delete" && exp == "ok" && len(tr) >= 3 {
				// (GET manifest, [ping,] GET referrers tag, ..., DELETE): a stored manifest with a subject
				run.Count("tagschema:delete-with-subject-judged")
			}
		}
		if exp == "?" { // inaccurate descriptor with a state effect the property does not fix
			judging = false
			continue
		}
		if !agrees(exp, res.Str) {
			sig := map[string]string{"push": "roundtrip", "pushref": "roundtrip", "fetch": "roundtrip", "fetchref": "roundtrip",
				"bfetchref": "roundtrip", "exists": "exists", "delete": "delete", "resolve": "resolve", "bresolve": "resolve",
				"tag": "tag", "mount": "mount", "preds": "predecessors"}[o.Kind]
			// known limitation, exactly this mechanism: a manifest HEAD by tag answered without
			// Docker-Content-Digest (the header is optional in the specification) is refused by
			// generateDescriptor; reached by Resolve(tag) and by FetchReference(tag) when the GET
			// carries no Content-Length and falls back to Resolve.
			k, _ := refKind(o.S)
			direct := k == "tag" && (o.Kind == "resolve" || (o.Kind == "fetchref" && !c.Prof.CLen))
			// ... and by the referrers tag schema, which reads the index with FetchReference(referrers tag)
			viaTagSchema := !c.Prof.CLen && c.referrersRegime() == "tags" &&
				(o.Kind == "push" || o.Kind == "pushref" || o.Kind == "delete" || o.Kind == "preds")
			if (direct || viaTagSchema) && !c.Prof.DigHdr && res.Str == "err:other" && !strings.HasPrefix(exp, "err") &&
				res.Err != nil && strings.Contains(res.Err.Error(), "missing required header") {
				sig = "head-tag-no-digest-header"
				run.Count("known:" + sig)
				knownSeen++
				if viaTagSchema && o.Kind != "preds" {
					// the call failed half way (manifest stored / not deleted, index not updated):
					// the registry state after it is not fixed by the property
					judging = false
				}
				if knownSeen > 25 {
					continue // reported often enough in this run; counted above
				}
			}
			run.OracleFail(id, sig, fmt.Sprintf("op %d (%s): expected %s, got %s (%v)", i, o.Kind, exp, res.Str, res.Err), replayOf(line))
		}
	}
	if nontrivial {
		run.Nontrivial(line)
	}
	run.Case(id, line, fmt.Sprintf("notallowed=%d | ", nbad)+strings.Join(parts, " | "))
	run.TracesAgainstImpl += len(g.Log)
	return g.N
}

// ---------- Read/Seek scripts ----------

type SeekOp struct {
	K string // r s c
	N int64
	W int
}

type SeekCase struct {
	Prof    fr.Profile     // capability profile of the registry
	Via     int            // 0 = Repository.Fetch, 1 = blob FetchReference
	Cor     *fr.Corruption // K = index among the Range requests of the script whose answer is corrupted
	Content []byte
	Modes   []fr.BodyMode // behaviour of the i-th blob body (cycled)
	Ops     []SeekOp
}

func (s *SeekCase) Line() string {
	p := s.Prof
	w := []string{"S", common.Hex(string(s.Content)), bit(p.DigHdr) + bit(p.Range) + bit(p.CLen) + bit(p.Mount) + bit(p.Referrers),
		strconv.Itoa(s.Via)}
	if s.Cor == nil {
		w = append(w, "-")
	} else {
		w = append(w, strconv.Itoa(s.Cor.K), s.Cor.Field)
		switch s.Cor.Field {
		case "dig-other":
			w = append(w, common.Hex(s.Cor.Arg))
		case "status":
			w = append(w, s.Cor.Arg)
		}
	}
	w = append(w, strconv.Itoa(len(s.Modes)))
	for _, m := range s.Modes {
		w = append(w, strconv.Itoa(m.Chunk), bit(m.EOFWithData))
	}
	w = append(w, strconv.Itoa(len(s.Ops)))
	for _, o := range s.Ops {
		switch o.K {
		case "r":
			w = append(w, "r", strconv.FormatInt(o.N, 10))
		case "s":
			w = append(w, "s", strconv.FormatInt(o.N, 10), strconv.Itoa(o.W))
		default:
			w = append(w, "c")
		}
	}
	return strings.Join(w, " ")
}

func ParseSeek(line string) (*SeekCase, error) {
	t := strings.Fields(line)
	if len(t) < 6 || t[0] != "S" || len(t[2]) != 5 {
		return nil, errors.New("not a seek case")
	}
	pb := t[2]
	s := &SeekCase{Content: []byte(common.UnHex(t[1])),
		Prof: fr.Profile{DigHdr: pb[0] == '1', Range: pb[1] == '1', CLen: pb[2] == '1', Mount: pb[3] == '1', Referrers: pb[4] == '1'}}
	s.Via, _ = strconv.Atoi(t[3])
	i := 4
	if t[i] == "-" {
		i++
	} else {
		if i+1 >= len(t) {
			return nil, errors.New("short")
		}
		k, _ := strconv.Atoi(t[i])
		s.Cor = &fr.Corruption{K: k, Field: t[i+1]}
		i += 2
		if s.Cor.Field == "dig-other" || s.Cor.Field == "status" {
			if i >= len(t) {
				return nil, errors.New("short")
			}
			s.Cor.Arg = t[i]
			if s.Cor.Field == "dig-other" {
				s.Cor.Arg = common.UnHex(t[i])
			}
			i++
		}
	}
	if i >= len(t) {
		return nil, errors.New("short")
	}
	nm, _ := strconv.Atoi(t[i])
	i++
	for ; nm > 0; nm-- {
		if i+1 >= len(t) {
			return nil, errors.New("short")
		}
		c, _ := strconv.Atoi(t[i])
		s.Modes = append(s.Modes, fr.BodyMode{Chunk: c, EOFWithData: t[i+1] == "1"})
		i += 2
	}
	if i >= len(t) {
		return nil, errors.New("short")
	}
	n, _ := strconv.Atoi(t[i])
	i++
	for ; n > 0; n-- {
		if i >= len(t) {
			return nil, errors.New("short")
		}
		switch t[i] {
		case "r":
			if i+1 >= len(t) {
				return nil, errors.New("short")
			}
			v, _ := strconv.ParseInt(t[i+1], 10, 64)
			s.Ops = append(s.Ops, SeekOp{K: "r", N: v})
			i += 2
		case "s":
			if i+2 >= len(t) {
				return nil, errors.New("short")
			}
			v, _ := strconv.ParseInt(t[i+1], 10, 64)
			w, _ := strconv.Atoi(t[i+2])
			s.Ops = append(s.Ops, SeekOp{K: "s", N: v, W: w})
			i += 3
		default:
			s.Ops = append(s.Ops, SeekOp{K: "c"})
			i++
		}
	}
	return s, nil
}

// execSeek runs a Read/Seek script on the reader Fetch returns from a range-capable registry.
// Every "r n" is ONE Read call with a buffer of n bytes.  The oracle is independent of how the
// bodies chunk their bytes: it tracks the position an io.ReadSeeker over the content must have.
func execSeek(id string, s *SeekCase) {
	line := s.Line()
	c := &Case{Main: "app/blobs", Other: "lib/src", Prof: s.Prof}
	g := newRegistry(c)
	repo := newRepo(c, g)
	ctx := context.Background()
	d := fr.Desc{MT: mtLayer, DG: sha(s.Content), SZ: int64(len(s.Content))}
	if err := repo.Push(ctx, od(d), bytes.NewReader(s.Content)); err != nil {
		panic(err)
	}
	g.BlobModes = s.Modes
	if len(g.BlobModes) == 0 {
		g.BlobModes = []fr.BodyMode{{}}
	}
	// the reader comes from Repository.Fetch or from blob FetchReference (which derives the
	// descriptor -- and the reader's size -- itself, by HEAD when the GET has no Content-Length)
	var rc io.ReadCloser
	var err error
	if s.Via == 1 {
		var rd ocispec.Descriptor
		rd, rc, err = repo.Blobs().(registry.ReferenceFetcher).FetchReference(ctx, d.DG)
		if err == nil && (rd.Size != d.SZ || string(rd.Digest) != d.DG) {
			run.OracleFail(id, "inconsistent-descriptor", fmt.Sprintf("blob FetchReference returned %v for a blob of %d bytes", rd, d.SZ), replayOf(line))
		}
	} else {
		rc, err = repo.Fetch(ctx, od(d))
	}
	if err != nil {
		panic(err)
	}
	if s.Cor != nil {
		// from here on every exchange is a Range request of the script
		g.Corrupt = &fr.Corruption{K: g.N + s.Cor.K, Field: s.Cor.Field, Arg: s.Cor.Arg}
	}
	cell := fmt.Sprintf("seek:matrix:%s:via%d", strings.Fields(line)[2], s.Via)
	run.Count(cell)
	rs, ok := rc.(io.ReadSeeker)
	ops := s.Ops
	head := "seeker"
	if !ok {
		if s.Prof.Range {
			run.OracleFail(id, "seek", "the reader from a range-capable registry is not an io.ReadSeeker", replayOf(line))
		}
		// plain body: only the reads of the script can run
		head = "noseeker"
		ops = nil
		for _, o := range s.Ops {
			if o.K == "r" {
				ops = append(ops, o)
			}
		}
		rs = struct {
			io.Reader
			io.Seeker
		}{rc, nil}
	}
	size := int64(len(s.Content))
	pos := int64(0) // where an io.ReadSeeker over the content is
	parts := []string{head}
	closed := false
	for i, o := range ops {
		first := len(g.Log)
		var out string
		mayReconnect := false // only a Seek that moves the position inside the blob may
		fail := func(sig, msg string) {
			run.OracleFail(id, sig, fmt.Sprintf("step %d (%v): %s", i, o, msg), replayOf(line))
		}
		switch o.K {
		case "r":
			buf := make([]byte, o.N)
			n, err := rs.Read(buf)
			switch {
			case err != nil && err != io.EOF:
				out = "err"
				if !closed {
					fail("seek", "Read failed: "+err.Error())
				}
			default:
				got := buf[:n]
				out = "data:" + common.Hex(string(got)) + ":more"
				if err == io.EOF {
					out = "data:" + common.Hex(string(got)) + ":eof"
					run.Count("seek:read-eof-" + map[bool]string{true: "with-data", false: "alone"}[n > 0])
				}
				if closed {
					fail("seek", "Read on a closed reader returned "+out)
					break
				}
				end := pos + int64(n)
				if pos > size {
					end = pos
				}
				if (pos <= size && (end > size || !bytes.Equal(got, s.Content[pos:end]))) || (pos > size && n > 0) {
					fail("seek", fmt.Sprintf("Read at position %d returned %x, the content there is %x", pos, got, s.Content[min64(pos, size):min64(pos+int64(n), size)]))
				}
				if err == io.EOF && pos+int64(n) < size {
					fail("seek", fmt.Sprintf("EOF at position %d of %d", pos+int64(n), size))
				}
				if n == 0 && err == nil && o.N > 0 && pos < size {
					fail("seek", "Read returned no bytes and no error before the end")
				}
				pos += int64(n)
			}
		case "s":
			p, err := rs.Seek(o.N, o.W)
			want := o.N
			switch o.W {
			case io.SeekCurrent:
				want += pos // int64 arithmetic, as any io.Seeker
			case io.SeekEnd:
				want += size
			}
			mayReconnect = want >= 0 && !closed && want != pos && want < size
			// was the answer to this Seek's Range request corrupted, and in a way that
			// contradicts the request (status other than 206, a Content-Length that is not
			// the length of the range, a digest header naming other content / unparsable)?
			mustFailSeek, corruptedHere := false, false
			for k := first; k < len(g.Log); k++ {
				if ex := g.Log[k]; ex.Hit {
					corruptedHere = true
					run.Count("seek:corrupt:" + s.Cor.Field)
					switch s.Cor.Field {
					case "status":
						mustFailSeek = true
					case "len-inc":
						mustFailSeek = ex.R.CLen != nil
					case "dig-other":
						mustFailSeek = ex.R.Dig != nil && *ex.R.Dig != d.DG
					case "dig-garbage":
						mustFailSeek = true
					}
				}
			}
			if err != nil {
				out = "err"
				if want >= 0 && !closed && !(corruptedHere && mustFailSeek) {
					fail("seek", fmt.Sprintf("Seek to %d failed: %v", want, err))
				}
			} else if mustFailSeek {
				out = "pos:" + strconv.FormatInt(p, 10)
				sig := "seek-corruption-accepted"
				if strings.HasPrefix(s.Cor.Field, "dig-") {
					// known: the readSeekCloser has no idea of the digest it reads, the header of a 206 is not looked at
					sig = "seek-206-digest-unverified"
					seekKnownSeen++
				}
				if sig != "seek-206-digest-unverified" || seekKnownSeen <= 25 {
					fail(sig, fmt.Sprintf("the 206 was corrupted in %s (%s), Seek succeeded", s.Cor.Field, fr.ShowResp(g.Log[len(g.Log)-1].R)))
				}
				pos = want
			} else {
				out = "pos:" + strconv.FormatInt(p, 10)
				if closed || want < 0 {
					fail("seek", "Seek succeeded: "+out)
				} else if p != want {
					fail("seek", fmt.Sprintf("Seek returned %d, an io.Seeker at position %d returns %d", p, pos, want))
				} else {
					if want == pos {
						run.Count("seek:position-unchanged")
					}
					pos = want
				}
			}
		default:
			rc.Close()
			closed = true
			out = "closed"
		}
		var rq []string
		for k := first; k < len(g.Log); k++ {
			ex := g.Log[k]
			if ex.Bad != "" {
				run.OracleFail(id, "request-not-allowed", ex.Bad, replayOf(line))
			}
			if !mayReconnect {
				run.OracleFail(id, "seek-range", fmt.Sprintf("step %d (%v): a request (%s) although the position does not move inside the blob", i, o, fr.ShowReq(ex.Q)), replayOf(line))
			}
			if ex.Q.Range != nil {
				rq = append(rq, fmt.Sprintf("%d-%d", ex.Q.Range[0], ex.Q.Range[1]))
				if ex.Q.Range[1] != d.SZ-1 || ex.Q.Range[0] >= d.SZ {
					run.OracleFail(id, "seek-range", fmt.Sprintf("step %d: Range %d-%d on a blob of %d bytes", i, ex.Q.Range[0], ex.Q.Range[1], d.SZ), replayOf(line))
				}
				run.Count("seek:reconnect")
			} else {
				rq = append(rq, "norange")
			}
		}
		r := "-"
		if len(rq) > 0 {
			r = strings.Join(rq, "+")
		}
		parts = append(parts, r+":"+out)
		run.Count("seek:" + o.K)
	}
	run.Nontrivial(line)
	run.Case(id, line, strings.Join(parts, " | "))
}

func min64(a, b int64) int64 {
	if a < b {
		return a
	}
	return b
}

// ---------- request grammar: formal `allowed` vs the endpoint table ----------

type GramCase struct {
	M, Repo, EK, Arg string
	ID               int64
	Digest, MD, MF   *string
	CType            *string
	CLen             int64 // -1 = absent
	Range            *[2]int64
	Body             string
}

func optTok(p *string) string {
	if p == nil {
		return "-"
	}
	if *p == "" {
		return "~"
	}
	return common.Hex(*p)
}

func (g *GramCase) Line() string {
	arg := common.Hex(g.Arg)
	if g.EK == "sess" {
		arg = strconv.FormatInt(g.ID, 10)
	}
	if g.EK == "up" {
		arg = "-"
	}
	cl, ra, rb := "-", "-", "-"
	if g.CLen >= 0 {
		cl = strconv.FormatInt(g.CLen, 10)
	}
	if g.Range != nil {
		ra, rb = strconv.FormatInt(g.Range[0], 10), strconv.FormatInt(g.Range[1], 10)
	}
	md, mf := "-", "-"
	if g.MD != nil {
		md, mf = optTok(g.MD), optTok(g.MF)
	}
	return strings.Join([]string{"A", g.M, common.Hex(g.Repo), g.EK, arg, optTok(g.Digest), md, mf, optTok(g.CType), cl, ra, rb,
		common.Hex(g.Body)}, " ")
}

func ParseGram(line string) (*GramCase, error) {
	t := strings.Fields(line)
	if len(t) != 13 || t[0] != "A" {
		return nil, errors.New("not a grammar case")
	}
	opt := func(s string) *string {
		if s == "-" {
			return nil
		}
		v := ""
		if s != "~" {
			v = common.UnHex(s)
		}
		return &v
	}
	g := &GramCase{M: t[1], Repo: common.UnHex(t[2]), EK: t[3], CLen: -1, Body: common.UnHex(t[12])}
	switch g.EK {
	case "sess":
		g.ID, _ = strconv.ParseInt(t[4], 10, 64)
	case "up":
	default:
		g.Arg = common.UnHex(t[4])
	}
	g.Digest = opt(t[5])
	if t[6] != "-" {
		g.MD, g.MF = opt(t[6]), opt(t[7])
		if g.MF == nil {
			e := ""
			g.MF = &e
		}
	}
	g.CType = opt(t[8])
	if t[9] != "-" {
		g.CLen, _ = strconv.ParseInt(t[9], 10, 64)
	}
	if t[10] != "-" {
		a, _ := strconv.ParseInt(t[10], 10, 64)
		b, _ := strconv.ParseInt(t[11], 10, 64)
		g.Range = &[2]int64{a, b}
	}
	return g, nil
}

func execGram(id string, g *GramCase) {
	path := "/v2/" + g.Repo
	switch g.EK {
	case "blob":
		path += "/blobs/" + g.Arg
	case "man":
		path += "/manifests/" + g.Arg
	case "up":
		path += "/blobs/uploads/"
	case "sess":
		path += "/blobs/uploads/" + strconv.FormatInt(g.ID, 10)
	case "refs":
		path += "/referrers/" + g.Arg
	}
	u := &url.URL{Scheme: "https", Host: "registry.example", Path: path}
	q := url.Values{}
	if g.Digest != nil {
		q.Set("digest", *g.Digest)
	}
	if g.MD != nil {
		q.Set("mount", *g.MD)
		q.Set("from", *g.MF)
	}
	u.RawQuery = q.Encode()
	req := &http.Request{Method: g.M, URL: u, Header: http.Header{}, ContentLength: g.CLen}
	if g.CType != nil {
		req.Header.Set("Content-Type", *g.CType)
	}
	if g.Range != nil {
		req.Header.Set("Range", fmt.Sprintf("bytes=%d-%d", g.Range[0], g.Range[1]))
	}
	verdict := fr.SpecCheck(req, []byte(g.Body), "https", "registry.example")
	out := "allowed=1"
	if verdict != "" {
		out = "allowed=0"
		run.Count("grammar:rejected")
	} else {
		run.Count("grammar:allowed")
		run.Nontrivial(g.Line())
	}
	run.Case(id, g.Line(), out)
}

func genGram(r *common.Rand) *GramCase {
	sp := func(s string) *string { return &s }
	dg := sha([]byte{byte(r.Intn(4))})
	repo := common.Pick(r, []string{"app/web", "a", "lib/x-y_z", "a.b/c__d"})
	tag := common.Pick(r, []string{"v1", "latest", "A.b-c_9"})
	g := &GramCase{Repo: repo, CLen: -1}
	switch r.Intn(11) {
	case 0:
		g.M, g.EK, g.Arg = "GET", "blob", dg
		if r.Chance(1, 3) {
			g.Range = &[2]int64{int64(r.Intn(5)), int64(5 + r.Intn(5))}
		}
	case 1:
		g.M, g.EK, g.Arg = common.Pick(r, []string{"HEAD", "DELETE"}), "blob", dg
	case 2:
		g.M, g.EK, g.Arg = common.Pick(r, []string{"GET", "HEAD", "DELETE"}), "man", common.Pick(r, []string{dg, tag})
	case 3:
		g.M, g.EK, g.Arg = "PUT", "man", common.Pick(r, []string{dg, tag})
		g.CType, g.Body, g.CLen = sp(mtOCIManifest), "{}", 2
	case 4:
		g.M, g.EK = "POST", "up"
	case 5:
		g.M, g.EK = "POST", "up"
		g.MD, g.MF = sp(dg), sp(common.Pick(r, []string{"lib/src", "other"}))
	case 6:
		g.M, g.EK, g.ID = "PUT", "sess", int64(1+r.Intn(9))
		g.Digest, g.CType, g.Body, g.CLen = sp(dg), sp(mtOctet), "data", 4
	case 7:
		g.M, g.EK, g.Arg = "GET", "refs", dg
	default: // a random combination
		g.M = common.Pick(r, []string{"GET", "HEAD", "PUT", "POST", "DELETE"})
		g.EK = common.Pick(r, []string{"blob", "man", "up", "sess", "refs"})
		g.Arg = common.Pick(r, []string{dg, tag})
		g.ID = int64(r.Intn(5))
	}
	// 0-2 mutations
	for k := r.Intn(3); k > 0; k-- {
		switch r.Intn(14) {
		case 0:
			g.M = common.Pick(r, []string{"GET", "HEAD", "PUT", "POST", "DELETE"})
		case 1:
			g.Arg = common.Pick(r, []string{"sha256:" + strings.Repeat("a", 63), "sha256:" + strings.Repeat("A", 64), "md5:" + strings.Repeat("a", 32),
				"sha512:" + strings.Repeat("a", 64), "bad!tag", ".dot", strings.Repeat("t", 129), strings.Repeat("t", 128), "sha256:" + strings.Repeat("0", 64), ""})
		case 2:
			g.Repo = common.Pick(r, []string{"UPPER", "a//b", "-a", "a-", "a..b", "a___b", "a.-b", "x--y", "a/b/c/d"})
		case 3:
			g.Digest = sp(common.Pick(r, []string{dg, "sha256:zz", ""}))
		case 4:
			g.Digest = nil
		case 5:
			g.Range = &[2]int64{int64(r.Intn(6)), int64(r.Intn(6))}
		case 6:
			g.Body = common.Pick(r, []string{"", "x"})
		case 7:
			g.CType = common.Pick(r, []*string{nil, sp(""), sp(mtOctet), sp(mtOCIManifest)})
		case 8:
			g.CLen = int64(r.Intn(3)) - 1
		case 9:
			g.MD, g.MF = sp(common.Pick(r, []string{dg, "nodigest"})), sp(common.Pick(r, []string{"lib/src", "BAD", ""}))
		case 10:
			g.MD, g.MF = nil, nil
		case 11:
			g.EK = common.Pick(r, []string{"blob", "man", "up", "sess", "refs"})
		case 12:
			g.Range = nil
		case 13:
			g.ID = int64(r.Intn(100))
		}
	}
	if g.EK == "up" || g.EK == "sess" {
		g.Arg = ""
	}
	return g
}

// ---------- where step 2 of an upload goes (Model/Location.v) ----------

type LocCase struct{ Scheme, Host, Port, Loc, Digest string }

func (l *LocCase) Line() string {
	return strings.Join([]string{"U", common.Hex(l.Scheme), common.Hex(l.Host), common.Hex(l.Port), common.Hex(l.Loc), common.Hex(l.Digest)}, " ")
}

func ParseLoc(line string) (*LocCase, error) {
	t := strings.Fields(line)
	if len(t) != 6 || t[0] != "U" {
		return nil, errors.New("not a location case")
	}
	return &LocCase{common.UnHex(t[1]), common.UnHex(t[2]), common.UnHex(t[3]), common.UnHex(t[4]), common.UnHex(t[5])}, nil
}

// locFake answers the POST with a fixed Location and records where the PUT goes.
type locFake struct {
	loc  string
	post *url.URL
	put  *url.URL
	auth string
}

func (f *locFake) Do(req *http.Request) (*http.Response, error) {
	if req.Body != nil {
		io.Copy(io.Discard, req.Body)
		req.Body.Close()
	}
	resp := &http.Response{Header: http.Header{}, Request: req, Body: io.NopCloser(strings.NewReader("")), ProtoMajor: 1, ProtoMinor: 1}
	switch req.Method {
	case "POST":
		f.post = req.URL
		resp.StatusCode = 202
		resp.Header.Set("Location", f.loc)
	case "PUT":
		u := *req.URL
		f.put = &u
		resp.StatusCode = 201
	default:
		resp.StatusCode = 405
	}
	return resp, nil
}

func execLoc(id string, l *LocCase) {
	line := l.Line()
	reg := l.Host
	if l.Port != "" {
		reg += ":" + l.Port
	}
	f := &locFake{loc: l.Loc}
	repo := &remote.Repository{Client: f, Reference: registry.Reference{Registry: reg, Repository: "app/blobs"}, PlainHTTP: l.Scheme == "http"}
	content := []byte("location")
	d := ocispec.Descriptor{MediaType: mtOctet, Digest: digest.Digest(l.Digest), Size: int64(len(content))}
	err := repo.Push(context.Background(), d, bytes.NewReader(content))
	obs := "noput"
	if f.put != nil {
		obs = "url:" + common.Hex(f.put.String())
	}
	if err != nil && f.put == nil {
		obs = "err"
	}
	run.Count("location:" + strings.SplitN(obs, ":", 2)[0])
	// independent expectation, with net/url: the Location is used as given (authority, path,
	// other query parameters), plus digest=<digest>; a relative one goes to the POST's authority;
	// documented exception: the port 443 is restored on the POST's own host
	if f.put != nil && f.post != nil {
		if lu, perr := f.post.Parse(l.Loc); perr == nil {
			bad := ""
			wantHost := lu.Host
			if f.post.Port() == "443" && lu.Hostname() == f.post.Hostname() && lu.Port() == "" {
				wantHost = lu.Hostname() + ":443"
			}
			if f.put.Host != wantHost {
				bad = "authority " + f.put.Host + " instead of " + wantHost
			}
			if f.put.Scheme != lu.Scheme {
				bad = "scheme " + f.put.Scheme
			}
			if f.put.EscapedPath() != lu.EscapedPath() {
				bad = "path " + f.put.EscapedPath() + " instead of " + lu.EscapedPath()
			}
			pq, lq := f.put.Query(), lu.Query()
			if v := pq["digest"]; len(v) != 1 || v[0] != l.Digest {
				bad = "digest parameter " + strings.Join(v, ",")
			}
			for k, v := range lq {
				if k != "digest" && strings.Join(pq[k], "\x00") != strings.Join(v, "\x00") {
					bad = "parameter " + k + " of the Location not kept"
				}
			}
			for k := range pq {
				if _, ok := lq[k]; !ok && k != "digest" {
					bad = "parameter " + k + " invented"
				}
			}
			if bad != "" {
				run.OracleFail(id, "upload-location", fmt.Sprintf("POST %s answered Location %q, PUT went to %s: %s", f.post, l.Loc, f.put, bad), replayOf(line))
			}
		}
	}
	run.Nontrivial(line)
	run.Case(id, line, obs)
}

func genLoc(r *common.Rand) *LocCase {
	l := &LocCase{Scheme: common.Pick(r, []string{"https", "https", "http"}), Host: common.Pick(r, []string{"registry.example", "reg.io", "localhost", "R-1.example"}),
		Port: common.Pick(r, []string{"", "443", "443", "5000", "80", "8443"}), Digest: sha([]byte{byte(r.Intn(3))})}
	path := common.Pick(r, []string{"/v2/app/blobs/uploads/7", "/v2/app/blobs/uploads/a1b2-c3", "/upload/x_y~z", "/"})
	query := common.Pick(r, []string{"", "", "?_state=abc123", "?z=1&a=2", "?digest=old&k=v", "?mount=x"})
	host := l.Host
	if r.Chance(1, 4) {
		host = common.Pick(r, []string{"blobs.example", "cdn.reg.io", "registry.example"})
	}
	switch r.Intn(8) {
	case 0, 1, 2:
		l.Loc = path + query // absolute path
	case 3, 4:
		l.Loc = common.Pick(r, []string{"https", "http", l.Scheme}) + "://" + host + path + query // no port
	case 5:
		l.Loc = l.Scheme + "://" + host + ":" + common.Pick(r, []string{"443", "5000", l.Port + "0"}) + path + query
	case 6:
		l.Loc = l.Scheme + "://" + l.Host + path + query // the issue-177 shape when Port is 443
	default: // forms the model does not judge (net/url territory)
		l.Loc = common.Pick(r, []string{"/v2/app/blobs/uploads/./7", "/v2/app/blobs/../uploads/7?a=1", "/v2/app/./blobs/uploads/../7", "/v2/x?a=1&b",
			l.Scheme + "://" + l.Host + "/v2/./x/../y", "uploads/7", "//other.example/v2/x", "https://user@reg.io/v2/x", "/v2/a%20b/uploads/1", "/v2/x?a=b%26c", "https://[::1]:443/v2/x", ""})
	}
	return l
}

// ---------- generators ----------

func jsonManifest(r *common.Rand, i int, subj *fr.Desc) []byte {
	m := map[string]any{"schemaVersion": 2, "n": i, "pad": strings.Repeat("x", r.Intn(6))}
	if subj != nil {
		m["subject"] = map[string]any{"mediaType": subj.MT, "digest": subj.DG, "size": subj.SZ}
	}
	b, _ := json.Marshal(m)
	return b
}

var tagPool = []string{"v1", "latest", "a.b-c_d", "V2"}
var badRefs = []string{"", "bad!tag", "sha256:1234", ".dot", "x@sha256:zz"}

func genCase(r *common.Rand, nops int) *Case {
	c := &Case{Main: common.Pick(r, []string{"app/web", "hello-world", "a/b/c"}), Other: common.Pick(r, []string{"lib/base", "src"})}
	c.Prof = fr.Profile{DigHdr: r.Chance(2, 3), Range: r.Bool(), CLen: r.Chance(3, 4), Mount: r.Bool(), Referrers: r.Bool()}
	c.Plain = r.Bool()
	c.O = Opts{SkipGC: r.Bool(), Warn: r.Chance(1, 3)}
	if r.Chance(1, 6) {
		c.O.MaxMeta = 1 << 20
	}
	if r.Chance(1, 3) {
		c.O.RefPage = 1 + r.Intn(5)
	}
	if r.Chance(1, 4) {
		c.O.TagPage = 1 + r.Intn(5)
	}
	switch {
	case r.Chance(1, 6):
		c.Rst = 1
	case r.Chance(1, 8):
		c.Rst = 2
	}
	if r.Chance(1, 4) {
		c.MTs = [][]string{{mtOCIManifest, mtCustom}, {mtCustom}, {mtDockerManifest, mtOCIIndex, mtLayer}}[r.Intn(3)]
	}
	// pool: JSON manifests (some with a subject: Referrers API or referrers tag schema, depending
	// on the registry), raw blobs, one non-JSON.  With a MaxMetadataBytes around the manifest sizes
	// no subjects (the referrers index document would not fit).
	nearLimit := r.Chance(1, 4)
	nman := 3 + r.Intn(3)
	for i := 0; i < nman; i++ {
		var subj *fr.Desc
		sj := "-"
		if i > 0 && !nearLimit && r.Chance(2, 5) {
			p := c.Pool[r.Intn(i)]
			subj = &fr.Desc{MT: mtOCIManifest, DG: p.Digest, SZ: int64(len(p.Bytes))}
			sj = fmt.Sprintf("%s/%s/%d", common.Hex(subj.MT), common.Hex(subj.DG), subj.SZ)
		}
		b := jsonManifest(r, i, subj)
		c.Pool = append(c.Pool, PoolItem{Bytes: b, Digest: sha(b), Subj: sj, subj: subj})
	}
	nblob := 2 + r.Intn(3)
	for i := 0; i < nblob; i++ {
		n := r.Intn(24)
		if i == 0 && r.Chance(1, 3) {
			n = 0
		}
		b := make([]byte, n)
		for j := range b {
			b[j] = byte(r.Intn(256))
		}
		b = append([]byte{byte(0x80 + i)}, b...) // never valid JSON, distinct
		if n == 0 && i == 0 {
			b = nil
		}
		c.Pool = append(c.Pool, PoolItem{Bytes: b, Digest: sha(b), Subj: "N"})
	}
	// MaxMetadataBytes around the size of one of the manifests: limit-1, limit, limit+1
	if nearLimit {
		c.O.MaxMeta = int64(len(c.Pool[r.Intn(nman)].Bytes)) + int64(r.Intn(3)) - 1
		if c.O.MaxMeta <= 0 {
			c.O.MaxMeta = 1
		}
		run.Count("opt:limit-near-manifest-size")
	}
	for i := nman; i < len(c.Pool); i++ {
		if r.Bool() {
			c.OtherIdx = append(c.OtherIdx, i)
		}
	}
	manMTs := []string{mtOCIManifest, mtOCIIndex, mtArtifact, mtDockerManifest, mtDockerList, mtCustom}
	blobMTs := []string{mtOctet, mtLayer, "application/vnd.oci.image.config.v1+json"}
	pushed := []fr.Desc{}
	descOf := func(i int) fr.Desc {
		p := c.Pool[i]
		mt := common.Pick(r, blobMTs)
		if i < nman && r.Chance(5, 6) || r.Chance(1, 12) {
			mt = common.Pick(r, manMTs)
			if i >= nman && r.Chance(2, 3) {
				mt = common.Pick(r, []string{mtDockerManifest, mtDockerList}) // not decoded by the client
			}
		}
		return fr.Desc{MT: mt, DG: p.Digest, SZ: int64(len(p.Bytes))}
	}
	skew := func(d fr.Desc) fr.Desc {
		switch r.Intn(24) {
		case 0:
			d.SZ++
		case 1:
			if d.SZ > 0 {
				d.SZ--
			}
		case 2:
			d.MT = common.Pick(r, append(manMTs, blobMTs...))
		case 3:
			d.DG = sha([]byte("absent" + strconv.Itoa(r.Intn(3))))
		}
		return d
	}
	someDesc := func() fr.Desc {
		if len(pushed) > 0 && r.Chance(9, 10) {
			return skew(common.Pick(r, pushed))
		}
		return skew(descOf(r.Intn(len(c.Pool))))
	}
	usedTags := []string{}
	manDigests := []string{}
	manDescs := []fr.Desc{}
	blobDigests := []string{}
	someManDesc := func() fr.Desc {
		if len(manDescs) > 0 && r.Chance(9, 10) {
			return skew(common.Pick(r, manDescs))
		}
		return someDesc()
	}
	someRef := func() string {
		switch x := r.Intn(20); {
		case x == 0:
			return common.Pick(r, badRefs)
		case x < 5:
			if len(manDigests) > 0 && r.Chance(4, 5) {
				return common.Pick(r, manDigests)
			}
			return someDesc().DG
		case x == 5:
			if len(manDigests) > 0 {
				return "whatever@" + common.Pick(r, manDigests)
			}
			return "whatever@" + someDesc().DG
		case x < 16 && len(usedTags) > 0:
			return common.Pick(r, usedTags)
		}
		return common.Pick(r, tagPool)
	}
	prologue := 2 + r.Intn(3)
	for len(c.Ops) < nops {
		var o Op
		o.CI = -1
		x := r.Intn(100)
		if len(c.Ops) < prologue {
			x = r.Intn(30) // histories start by pushing something
		}
		switch {
		case x < 22:
			i := r.Intn(len(c.Pool))
			o = Op{Kind: "push", D: descOf(i), CI: i}
			pushed = append(pushed, o.D)
			if isManifest(c, o.D.MT) {
				manDigests = append(manDigests, o.D.DG)
				manDescs = append(manDescs, o.D)
			} else {
				blobDigests = append(blobDigests, o.D.DG)
			}
			if r.Chance(1, 10) {
				o.D = skew(o.D)
			}
		case x < 30:
			i := r.Intn(nman)
			d := descOf(i)
			d.MT = common.Pick(r, manMTs)
			o = Op{Kind: "pushref", D: d, CI: i, S: someRef()}
			if r.Chance(2, 3) {
				o.S = common.Pick(r, tagPool)
			}
			pushed = append(pushed, o.D)
			manDigests = append(manDigests, d.DG)
			manDescs = append(manDescs, d)
			if k, rf := refKind(o.S); k == "tag" {
				usedTags = append(usedTags, rf)
			}
			if r.Chance(1, 12) {
				o.D = skew(o.D)
			}
		case x < 45:
			o = Op{Kind: "fetch", D: someDesc(), CI: -1}
		case x < 55:
			o = Op{Kind: "exists", D: someDesc(), CI: -1}
		case x < 59:
			o = Op{Kind: "delete", D: someDesc(), CI: -1}
		case x < 70:
			o = Op{Kind: "resolve", S: someRef(), CI: -1}
		case x < 78:
			o = Op{Kind: "fetchref", S: someRef(), CI: -1}
		case x < 85:
			o = Op{Kind: "tag", D: someManDesc(), S: someRef(), CI: -1}
			if r.Chance(1, 2) {
				o.S = common.Pick(r, tagPool)
			}
			if k, rf := refKind(o.S); k == "tag" {
				usedTags = append(usedTags, rf)
			}
		case x < 91:
			if len(c.OtherIdx) == 0 && r.Bool() {
				continue
			}
			i := r.Intn(len(c.Pool))
			if len(c.OtherIdx) > 0 && r.Chance(3, 4) {
				i = common.Pick(r, c.OtherIdx)
			}
			d := fr.Desc{MT: common.Pick(r, blobMTs), DG: c.Pool[i].Digest, SZ: int64(len(c.Pool[i].Bytes))}
			o = Op{Kind: "mount", D: d, CI: -1}
			if r.Chance(1, 3) {
				o.CI = i
			}
			pushed = append(pushed, d)
		case x < 95:
			// (the referrers index document itself is not modelled byte-wise: no tiny limits here)
			if c.O.MaxMeta > 0 && c.O.MaxMeta < 1<<16 {
				continue
			}
			o = Op{Kind: "preds", D: someDesc(), CI: -1}
		case x < 98:
			o = Op{Kind: "bresolve", S: someRef(), CI: -1}
			if len(blobDigests) > 0 && r.Chance(3, 4) {
				o.S = common.Pick(r, blobDigests)
			}
		default:
			o = Op{Kind: "bfetchref", S: someRef(), CI: -1}
			if len(blobDigests) > 0 && r.Chance(3, 4) {
				o.S = common.Pick(r, blobDigests)
			}
		}
		c.Ops = append(c.Ops, o)
	}
	return c
}

// ---------- exhaustive single-field corruption: every (operation, exchange, field) ----------

type corVariant struct{ Field, Arg string }

func corVariants(c *Case) []corVariant {
	return []corVariant{{"dig-other", sha([]byte("other0"))}, {"dig-other", c.Pool[len(c.Pool)-1].Digest}, {"dig-garbage", ""}, {"dig-drop", ""},
		{"len-inc", ""}, {"len-drop", ""}, {"type-other", ""}, {"type-garbage", ""}, {"type-drop", ""}, {"status", "500"}, {"status", "204"}, {"status", "404"}, {"loc-drop", ""}, {"name-unknown", ""}}
}

// canonicalCase: one history that exercises every operation and every request shape.
func canonicalCase(prof fr.Profile, rst int, plain bool) *Case {
	c := &Case{Main: "app/web", Other: "lib/base", Prof: prof, Rst: rst, Plain: plain}
	add := func(b []byte, subj *fr.Desc) int {
		sj := "-"
		if subj != nil {
			sj = fmt.Sprintf("%s/%s/%d", common.Hex(subj.MT), common.Hex(subj.DG), subj.SZ)
		}
		if !json.Valid(b) {
			sj = "N"
		}
		c.Pool = append(c.Pool, PoolItem{Bytes: b, Digest: sha(b), Subj: sj, subj: subj})
		return len(c.Pool) - 1
	}
	desc := func(i int, mt string) fr.Desc {
		return fr.Desc{MT: mt, DG: c.Pool[i].Digest, SZ: int64(len(c.Pool[i].Bytes))}
	}
	m0 := add([]byte(`{"schemaVersion":2,"n":0}`), nil)
	m0d := desc(m0, mtOCIManifest)
	withSubject := true // Referrers API or referrers tag schema, depending on the profile
	var m1 int
	if withSubject {
		b, _ := json.Marshal(map[string]any{"schemaVersion": 2, "subject": map[string]any{"mediaType": m0d.MT, "digest": m0d.DG, "size": m0d.SZ}})
		m1 = add(b, &m0d)
	}
	m2 := add([]byte(`{"schemaVersion":2,"n":2}`), nil)
	b0 := add([]byte{0x80, 1, 2, 3}, nil)
	b1 := add([]byte{0x81, 9, 8}, nil)
	b2 := add([]byte{0x82}, nil)
	c.OtherIdx = []int{b1, b2}
	op := func(k string, d fr.Desc, ci int, s string) { c.Ops = append(c.Ops, Op{Kind: k, D: d, CI: ci, S: s}) }
	op("push", desc(b0, mtLayer), b0, "")
	op("push", m0d, m0, "")
	op("pushref", desc(m2, mtDockerManifest), m2, "v1")
	op("fetch", desc(b0, mtLayer), -1, "")
	op("fetch", m0d, -1, "")
	op("exists", desc(b0, mtLayer), -1, "")
	op("exists", m0d, -1, "")
	op("resolve", fr.Desc{}, -1, "v1")
	op("resolve", fr.Desc{}, -1, m0d.DG)
	op("fetchref", fr.Desc{}, -1, "v1")
	op("fetchref", fr.Desc{}, -1, m0d.DG)
	op("bresolve", fr.Desc{}, -1, c.Pool[b0].Digest)
	op("bfetchref", fr.Desc{}, -1, c.Pool[b0].Digest)
	op("tag", m0d, -1, "v2")
	op("mount", desc(b1, mtLayer), -1, "")
	op("mount", desc(b2, mtLayer), b2, "")
	if withSubject {
		op("push", desc(m1, mtOCIManifest), m1, "")
		op("preds", m0d, -1, "")
		op("delete", desc(m1, mtOCIManifest), -1, "")
	}
	op("delete", m0d, -1, "")
	op("delete", desc(m2, mtDockerManifest), -1, "")
	op("delete", desc(b0, mtLayer), -1, "")
	return c
}

func allProfiles() []fr.Profile {
	var ps []fr.Profile
	for i := 0; i < 32; i++ {
		ps = append(ps, fr.Profile{DigHdr: i&1 != 0, Range: i&2 != 0, CLen: i&4 != 0, Mount: i&8 != 0, Referrers: i&16 != 0})
	}
	return ps
}

// enumerateCorruptions runs the canonical history once per profile and then once for every
// exchange x every corruption variant: no sampling.
func enumerateCorruptions() {
	profiles := allProfiles()
	if !run.Thorough() {
		profiles = []fr.Profile{profiles[31], profiles[0], profiles[21], profiles[10], profiles[20]}
	}
	runs, hist := 0, 0
	before := map[string]int{}
	for k, v := range run.Dist {
		before[k] = v
	}
	for _, p := range profiles {
		for _, rst := range []int{0, 1} {
			if rst == 1 && !run.Thorough() {
				continue
			}
			c := canonicalCase(p, rst, hist%2 == 0)
			n := execHistory(run.NewID(), c)
			hist++
			for k := 0; k < n; k++ {
				for _, v := range corVariants(c) {
					cc := *c
					cc.Cor = &fr.Corruption{K: k, Field: v.Field, Arg: v.Arg}
					execHistory(run.NewID(), &cc)
					runs++
				}
			}
		}
	}
	pairs := 0
	for k, v := range run.Dist {
		if strings.HasPrefix(k, "corrupt:") && v > before[k] {
			pairs++
		}
	}
	run.Extra["corruption_enumeration"] = map[string]any{"exhaustive": true, "profiles": len(profiles), "histories": hist, "corrupted_runs": runs,
		"variants_per_exchange": 14, "distinct_field_op_method_endpoint": pairs,
		"what": "canonical history with every operation and request shape; every exchange of it x every single-field corruption variant, per capability profile (thorough: all 32 profiles x referrers state unknown/supported)"}
}

var corruptFields = []string{"dig-other", "dig-garbage", "dig-drop", "len-inc", "len-drop", "type-other", "type-garbage",
	"type-drop", "status", "status", "loc-drop", "name-unknown"}

func genSeek(r *common.Rand) *SeekCase {
	n := r.Intn(40)
	if r.Chance(1, 10) {
		n = 0
	}
	s := &SeekCase{Content: make([]byte, n+1)}
	for i := range s.Content {
		s.Content[i] = byte(r.Intn(256))
	}
	size := int64(len(s.Content))
	// the full matrix {Fetch, blob FetchReference} x all 32 capability profiles; range-capable
	// ones (where a seeker is returned) three times out of four
	pi := r.Intn(32)
	if r.Chance(3, 4) {
		pi |= 2
	}
	s.Prof = allProfiles()[pi]
	s.Via = r.Intn(2)
	// body behaviours: separate EOF, data with EOF, short reads, both; one per body, cycled
	for k := 1 + r.Intn(3); k > 0; k-- {
		m := fr.BodyMode{EOFWithData: r.Bool()}
		if r.Bool() {
			m.Chunk = 1 + r.Intn(7)
		}
		s.Modes = append(s.Modes, m)
	}
	read := func(n int64) { s.Ops = append(s.Ops, SeekOp{K: "r", N: n}) }
	seek := func(off int64, w int) { s.Ops = append(s.Ops, SeekOp{K: "s", N: off, W: w}) }
	readToEnd := func() {
		// enough Read calls to pass the end whatever the chunking; the last ones see EOF
		for k := 0; k < int(size)+2; k++ {
			read(int64(1 + r.Intn(int(size)+3)))
			if r.Chance(1, 4) {
				break
			}
		}
	}
	for k := 2 + r.Intn(6); k > 0; k-- {
		switch x := r.Intn(16); {
		case x < 3:
			read(int64(1 + r.Intn(int(size)+3)))
		case x < 5: // read to the very end, then look where we are and go back
			read(size + int64(r.Intn(3)))
			readToEnd()
			switch r.Intn(5) {
			case 0:
				seek(0, 1)
			case 1:
				seek(-int64(1+r.Intn(int(size))), 1)
			case 2:
				seek(-int64(r.Intn(int(size)+1)), 2)
			case 3:
				seek(int64(r.Intn(int(size)+1)), 0)
			default:
				seek(size, 0) // the position we are at: no reconnect
			}
			read(int64(1 + r.Intn(int(size)+2)))
		case x < 7: // stay where we are (no reconnect), by all three whence values
			seek(0, 1)
			if r.Bool() {
				read(int64(1 + r.Intn(4)))
				seek(0, 1)
			}
		case x < 12:
			w := r.Intn(3)
			var off int64
			switch w {
			case 0:
				off = int64(r.Intn(int(size)+4)) - 1
			case 1:
				off = int64(r.Intn(int(size)+2)) - size/2
			default:
				off = -int64(r.Intn(int(size)+3)) + 1
			}
			seek(off, w)
		case x < 14: // seek, read a little, seek back to an earlier offset, read again
			a := int64(r.Intn(int(size) + 1))
			seek(a, 0)
			read(int64(1 + r.Intn(5)))
			seek(a, 0)
			read(int64(1 + r.Intn(int(size)+2)))
		default:
			if r.Chance(1, 3) {
				s.Ops = append(s.Ops, SeekOp{K: "c"})
			} else {
				readToEnd()
			}
		}
	}
	if r.Chance(1, 12) { // offsets at the edge of int64
		big := []int64{1<<63 - 1, -(1 << 63), 1<<63 - 1 - size, 1 << 62}
		seek(common.Pick(r, big), r.Intn(3))
		read(3)
	}
	if len(s.Ops) > 60 {
		s.Ops = s.Ops[:60]
	}
	// one field of the answer to one of the script's Range requests corrupted
	if s.Prof.Range && r.Chance(1, 3) {
		nseek := 0
		for _, o := range s.Ops {
			if o.K == "s" {
				nseek++
			}
		}
		f := common.Pick(r, []string{"status", "status", "status", "len-inc", "len-inc", "len-drop", "dig-other", "dig-garbage", "dig-drop", "type-other"})
		s.Cor = &fr.Corruption{K: r.Intn(nseek + 1), Field: f}
		switch f {
		case "status":
			s.Cor.Arg = common.Pick(r, []string{"200", "500", "204", "416", "404"})
		case "dig-other":
			s.Cor.Arg = sha([]byte("other"))
		}
	}
	return s
}

func main() {
	run = common.Start("C13")
	defer run.Finish()
	run.Rule = "histories with at least one multi-request operation (distinct case lines) + every Read/Seek script"
	if run.Replay != "" {
		for _, rc := range common.ReadReplay(run.Replay) {
			line := rc["line"]
			if line == "" {
				line = rc["raw"]
			}
			id := run.NewID()
			if strings.HasPrefix(line, "S ") {
				if s, err := ParseSeek(line); err == nil {
					execSeek(id, s)
				}
				continue
			}
			if strings.HasPrefix(line, "U ") {
				if l, err := ParseLoc(line); err == nil {
					execLoc(id, l)
				}
				continue
			}
			if strings.HasPrefix(line, "A ") {
				if g, err := ParseGram(line); err == nil {
					execGram(id, g)
				}
				continue
			}
			if c, err := ParseCase(line); err == nil {
				execHistory(id, c)
			} else {
				fmt.Println("unreadable replay case:", err)
			}
		}
		return
	}
	r := run.Rand
	nh := run.Scale(2500, 14000) // thorough sized for <= ~15 min on a loaded machine
	for i := 0; i < nh; i++ {
		c := genCase(r.Fork(), 6+r.Intn(run.Scale(16, 30)))
		n := execHistory(run.NewID(), c)
		// the same history with one field of one response corrupted
		ncor := run.Scale(2, 3)
		for j := 0; j < ncor && n > 0; j++ {
			cc := *c
			f := common.Pick(r, corruptFields)
			cc.Cor = &fr.Corruption{K: r.Intn(n), Field: f}
			switch f {
			case "dig-other":
				cc.Cor.Arg = sha([]byte("other" + strconv.Itoa(r.Intn(2))))
				if r.Chance(1, 3) {
					cc.Cor.Arg = common.Pick(r, c.Pool).Digest
				}
			case "status":
				cc.Cor.Arg = common.Pick(r, []string{"500", "204", "404", "403", "200", "201", "202"})
			}
			execHistory(run.NewID(), &cc)
		}
	}
	ns := run.Scale(2500, 100000)
	for i := 0; i < ns; i++ {
		execSeek(run.NewID(), genSeek(r.Fork()))
	}
	cells := 0
	for k := range run.Dist {
		if strings.HasPrefix(k, "seek:matrix:") {
			cells++
		}
	}
	run.Extra["seek_matrix"] = map[string]any{"cells_covered": cells, "cells": 64,
		"what": "{Repository.Fetch, blob FetchReference} x the 32 capability profiles (a seeker is returned iff the registry supports ranges; manifest stores never return one)"}
	enumerateCorruptions()
	nl := run.Scale(1500, 40000)
	for i := 0; i < nl; i++ {
		execLoc(run.NewID(), genLoc(r.Fork()))
	}
	ng := run.Scale(4000, 200000)
	for i := 0; i < ng; i++ {
		execGram(run.NewID(), genGram(r.Fork()))
	}
	_ = sort.Strings
	// coverage floors: a stream that silently produced nothing is a failure of the run
	if run.Replay == "" {
		floors := map[string]int{"seek:r": 1000, "seek:s": 1000, "seek:position-unchanged": 50, "seek:read-eof-with-data": 50, "seek:reconnect": 200,
			"seek:corrupt:status": 5, "seek:corrupt:len-inc": 3, "location:url": 200, "grammar:allowed": 200, "grammar:rejected": 200,
			"opt:limit-near-manifest-size": 50, "tagschema:preds-judged": 30, "tagschema:push-with-subject-judged": 50,
			"tagschema:delete-with-subject-judged": 20, "tagschema:index-corruption-must-fail": 20, "reader:opaque": 100, "route:manifests": 100, "route:blobs": 100, "warnings:delivered": 100}
		var low []string
		for k, v := range floors {
			if run.Dist[k] < v {
				low = append(low, fmt.Sprintf("%s=%d<%d", k, run.Dist[k], v))
			}
		}
		ncor := 0
		for k, v := range run.Dist {
			if strings.HasPrefix(k, "corrupt:") {
				ncor += v
			}
		}
		if ncor < 500 {
			low = append(low, fmt.Sprintf("corrupted-exchanges=%d<500", ncor))
		}
		if len(low) > 0 {
			sort.Strings(low)
			run.Finish()
			fmt.Println("coverage floor not reached:", strings.Join(low, " "))
			os.Exit(3)
		}
	}
}
