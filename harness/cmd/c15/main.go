// C15 harness: Tags / Repositories / Referrers listings of registry/remote
// against the in-process fake registry (harness/fakereg) under a PRNG split
// oracle and Link header variants, parseLink / limitReader / limitSize /
// isReferrersFilterApplied / filterReferrers through the verif hooks, and the
// Tags listing of content/oci.
//
// Per case it writes the model input (cases.txt), the implementation's
// observable (impl.txt) and direct oracle failures (oracle.txt).  The oracle
// uses only the generator's ground truth (the item list it put into the
// registry, the decisions it drew, the bytes the client consumed), never the
// Coq model.
package main

import (
	"bytes"
	"context"
	_ "crypto/sha256"
	_ "crypto/sha512"
	"encoding/json"
	"errors"
	"fmt"
	"io"
	"net/http"
	"net/url"
	"os"
	"sort"
	"strconv"
	"strings"
	"time"

	"github.com/opencontainers/go-digest"
	ocispec "github.com/opencontainers/image-spec/specs-go/v1"
	"oras.land/oras-go/v2/content/oci"
	"oras.land/oras-go/v2/errdef"
	"oras.land/oras-go/v2/registry"
	"oras.land/oras-go/v2/registry/remote"
	"oras.land/oras-go/v2/registry/remote/errcode"
	"verifharness/common"
	"verifharness/fakereg"
)

var run *common.Run

const (
	host       = "reg.test"
	defaultMax = 4 * 1024 * 1024 // only used by the oracle; the model's value is regenerated from the source
)

var subject = digest.FromString("subject")
var errInjected = errors.New("injected callback failure")

// Scenario is one fully determined listing run (also the replay format).
type Scenario struct {
	Op     string             `json:"op"`   // "list"
	Kind   string             `json:"kind"` // T tags, K catalog, R referrers
	Repo   string             `json:"repo"`
	Items  []fakereg.Item     `json:"items"`
	Last   string             `json:"last"`
	N      int                `json:"n"`
	Limit  int64              `json:"limit"`
	AT     string             `json:"at"`
	Cap    int                `json:"cap"`
	CbFail int                `json:"cbfail"`
	Decs   []fakereg.Decision `json:"decs"`
	// the registry's continuation: "" = the `last` parameter, else an opaque cursor under this key
	CursorKey  string `json:"cursorkey"`
	CursorSalt string `json:"cursorsalt"`
	// entries the registry holds but does not show (pages can be empty although a link follows)
	Hidden []string `json:"hidden"`
	// Repository.Referrers around the two paths (op "wrap"; Kind R)
	State    string `json:"state"`    // capability before the call: "U" unknown, "S" supported ("" too), "N" unsupported
	NoAPI    bool   `json:"noapi"`    // the registry has no referrers API (404)
	Index    bool   `json:"index"`    // the registry holds the referrers index under the referrers tag
	CbUnsupp bool   `json:"cbunsupp"` // the callback's error wraps errdef.ErrUnsupported
}

// ---------- token encoders shared with ml/c15_main.ml ----------

func itemsTok(its []fakereg.Item) string {
	if len(its) == 0 {
		return "_"
	}
	p := make([]string, len(its))
	for i, it := range its {
		p[i] = common.Hex(it.Name) + ":" + common.Hex(it.ArtifactType)
	}
	return strings.Join(p, ",")
}

func isCanonDec(v string) bool {
	n, err := strconv.Atoi(v)
	return err == nil && n >= 0 && strconv.Itoa(n) == v && n < 1<<40
}

// typed query token for the model's input ("n" with a canonical decimal value is a number)
func kvsTok(q []fakereg.KV) string {
	if len(q) == 0 {
		return "_"
	}
	p := make([]string, len(q))
	for i, kv := range q {
		if kv.K == "n" && isCanonDec(kv.V) {
			p[i] = common.Hex(kv.K) + "=N" + kv.V
		} else {
			p[i] = common.Hex(kv.K) + "=S" + common.Hex(kv.V)
		}
	}
	return strings.Join(p, "&")
}

func valuesKVs(v url.Values) []fakereg.KV {
	keys := make([]string, 0, len(v))
	for k := range v {
		keys = append(keys, k)
	}
	sort.Strings(keys)
	var out []fakereg.KV
	for _, k := range keys {
		for _, x := range v[k] {
			out = append(out, fakereg.KV{K: k, V: x})
		}
	}
	return out
}

func canonKVs(q []fakereg.KV) []fakereg.KV {
	out := append([]fakereg.KV(nil), q...)
	sort.SliceStable(out, func(i, j int) bool { return out[i].K < out[j].K })
	return out
}

// observable query token (all values as strings, Encode order)
func obsQuery(q []fakereg.KV) string {
	if len(q) == 0 {
		return "_"
	}
	p := make([]string, len(q))
	for i, kv := range q {
		p[i] = common.Hex(kv.K) + "=" + common.Hex(kv.V)
	}
	return strings.Join(p, "&")
}

// ---------- malformed link table (ground truth of the generator) ----------

var rawLinks = []string{
	`http://reg.test/v2/x; rel="next"`, // missing '<'
	`<http://reg.test/v2/x`,            // missing '>'
	` </v2/x?last=a>; rel="next"`,      // leading blank: missing '<'
	`<%zz>; rel="next"`,                // net/url rejects the target
	`<http://reg.test/%zz?last=a>`,     // net/url rejects the target
	``,                                 // no Link header although items may remain: the listing ends
	``,
}

// rawTarget returns the text between '<' and '>' of a malformed-stream link that has one.
func rawTarget(link string) (string, bool) {
	switch link {
	case rawLinks[3]:
		return "%zz", true
	case rawLinks[4]:
		return "http://reg.test/%zz?last=a", true
	}
	return "", false
}

// ---------- the string level: raw requests against Model/PagingUrl.v ----------

// stringCases emits, for one listing, the raw query of the first request and for every answer
// the step "request URL + Link header -> path and raw query of the next request".
func stringCases(sc *Scenario, log []*fakereg.Exchange, outcome string) {
	if len(log) == 0 {
		return
	}
	if x := log[0]; x.Kind != 'M' {
		id := run.NewID()
		run.Case(id, fmt.Sprintf("U0 %s %d %s %s", sc.Kind, sc.N, common.Hex(sc.AT), common.Hex(sc.Last)), common.Hex(x.RawQuery))
		run.Count("string_first_request")
	}
	for i, x := range log {
		if x.Kind == 'M' || x.Status != 200 {
			continue
		}
		var obs string
		switch {
		case i+1 < len(log) && log[i+1].Kind != 'M':
			obs = "NEXT " + common.Hex(log[i+1].SentPath) + " " + common.Hex(log[i+1].RawQuery)
		case i+1 < len(log):
			continue
		case outcome == "Done":
			obs = "NONE"
		case outcome == "ErrLink":
			obs = "ERRLINK"
		case outcome == "ErrResolve":
			obs = "ERRRESOLVE"
		default:
			continue
		}
		if i > 3 && !run.Rand.Chance(1, 3) {
			continue
		}
		id := run.NewID()
		run.Case(id, fmt.Sprintf("U %s %d %s %s %s %s %s", sc.Kind, sc.N, common.Hex("http"), common.Hex(host), common.Hex(x.Path), common.Hex(x.RawQuery), common.Hex(x.Link)), obs)
		run.Count("string_next_request_" + strings.SplitN(obs, " ", 2)[0])
	}
}

func setQueryCase(raw string, kv ...string) {
	id := run.NewID()
	toks := make([]string, len(kv))
	for i, s := range kv {
		toks[i] = common.Hex(s)
	}
	got := remote.VerifSetQueryParams(raw, kv...)
	run.Case(id, "QS "+common.Hex(raw)+" "+strings.Join(toks, " "), common.Hex(got))
	run.Count("string_set_query")
	run.Nontrivial("QS" + raw + strings.Join(kv, "\x00"))
	// oracle: a registry reading the result sees every other parameter as before and the new values
	before, after := fakereg.ParseQueryLenient(raw), fakereg.ParseQueryLenient(got)
	set := map[string]string{}
	for i := 0; i+1 < len(kv); i += 2 {
		set[kv[i]] = kv[i+1]
	}
	rep := map[string]any{"op": "setquery", "raw": raw, "kv": kv}
	for k, v := range set {
		if vs := after[k]; len(vs) != 1 || vs[0] != v {
			run.OracleFail(id, "set-query", fmt.Sprintf("setQueryParams(%q, %q) = %q: %q is %q", raw, kv, got, k, vs), rep)
		}
	}
	for k, vs := range before {
		if _, ok := set[k]; !ok && strings.Join(after[k], "\x00") != strings.Join(vs, "\x00") {
			run.OracleFail(id, "set-query", fmt.Sprintf("setQueryParams(%q, %q) = %q: %q was %q, is %q", raw, kv, got, k, vs, after[k]), rep)
		}
	}
	for k := range after {
		if _, ok := before[k]; !ok {
			if _, ok := set[k]; !ok {
				run.OracleFail(id, "set-query", fmt.Sprintf("setQueryParams(%q, %q) = %q: new parameter %q", raw, kv, got, k), rep)
			}
		}
	}
}

func escapeCase(s string) {
	id := run.NewID()
	un := "!"
	if u, err := url.QueryUnescape(s); err == nil {
		un = common.Hex(u)
	}
	esc := url.QueryEscape(s)
	run.Case(id, "QE "+common.Hex(s), common.Hex(esc)+" "+un)
	run.Count("string_escape")
	if back, err := url.QueryUnescape(esc); err != nil || back != s {
		run.OracleFail(id, "escape-roundtrip", fmt.Sprintf("QueryUnescape(QueryEscape(%q)) = %q, %v", s, back, err), map[string]any{"op": "escape", "s": s})
	}
	id2 := run.NewID()
	kvs := valuesKVs(fakereg.ParseQueryLenient(s))
	run.Case(id2, "QL "+common.Hex(s), obsQuery(kvs))
}

func resolveCase(bpath, bquery, ref string) {
	id := run.NewID()
	base := &url.URL{Scheme: "http", Host: host, Path: bpath, RawQuery: bquery}
	obs := "ERR"
	if u, err := base.Parse(ref); err == nil {
		if u2, err := url.Parse(u.String()); err == nil {
			obs = fmt.Sprintf("OK %s %s %s %s", common.Hex(u2.Scheme), common.Hex(u2.Host), common.Hex(u2.EscapedPath()), common.Hex(u2.RawQuery))
		}
	}
	run.Case(id, fmt.Sprintf("RR %s %s %s %s %s", common.Hex("http"), common.Hex(host), common.Hex(bpath), common.Hex(bquery), common.Hex(ref)), obs)
	run.Count("string_resolve_" + obs[:2])
	run.Nontrivial("RR" + bpath + "?" + bquery + " " + ref)
}

// ---------- json.Decoder: the first value of a stream is self-delimiting ----------

func genJSON(r *common.Rand, depth int, top bool) string {
	ws := func() string { return common.Pick(r, []string{"", "", "", " ", "\n", "\t ", "  "}) }
	str := func() string {
		var sb strings.Builder
		sb.WriteByte('"')
		for i := r.Intn(5); i > 0; i-- {
			sb.WriteString(common.Pick(r, []string{"a", "tag", "{", "}", "[", "]", "\\\"", "\\\\", "\\u00e9", "\\n", " ", ",", ":", "sha256:ab", "ü", "\\/"}))
		}
		sb.WriteByte('"')
		return sb.String()
	}
	k := r.Intn(7)
	if top || (depth > 0 && k < 2) {
		if r.Bool() {
			var sb strings.Builder
			sb.WriteString("{" + ws())
			for i, n := 0, r.Intn(4); i < n; i++ {
				if i > 0 {
					sb.WriteString("," + ws())
				}
				sb.WriteString(str() + ws() + ":" + ws() + genJSON(r, depth-1, false) + ws())
			}
			return sb.String() + "}"
		}
		var sb strings.Builder
		sb.WriteString("[" + ws())
		for i, n := 0, r.Intn(4); i < n; i++ {
			if i > 0 {
				sb.WriteString("," + ws())
			}
			sb.WriteString(genJSON(r, depth-1, false) + ws())
		}
		return sb.String() + "]"
	}
	switch k {
	case 2, 3:
		return str()
	case 4:
		return common.Pick(r, []string{"0", "-1", "12.5e3", "7"})
	}
	return common.Pick(r, []string{"true", "false", "null"})
}

func jsonCase(input string, doc string, lead int, complete bool) {
	id := run.NewID()
	dec := json.NewDecoder(strings.NewReader(input))
	var v any
	err := dec.Decode(&v)
	obs := "INC"
	if err == nil {
		obs = fmt.Sprintf("OK %d", dec.InputOffset())
	}
	run.Case(id, "J "+common.Hex(input), obs)
	run.Count("json_" + obs[:2])
	rep := map[string]any{"op": "json", "input": input, "doc": doc, "lead": lead, "complete": complete}
	// oracle: exactly the whole document is a value; what follows it is not touched
	if complete {
		var want any
		if json.Unmarshal([]byte(doc), &want) != nil {
			return
		}
		wj, _ := json.Marshal(want)
		gj, _ := json.Marshal(v)
		if err != nil || int(dec.InputOffset()) != lead+len(doc) || string(wj) != string(gj) {
			run.OracleFail(id, "json-self-delimiting", fmt.Sprintf("document %q followed by more input: Decode = %s, %v at offset %d", doc, gj, err, dec.InputOffset()), rep)
		}
	} else if err == nil {
		run.OracleFail(id, "json-self-delimiting", fmt.Sprintf("proper prefix %q of document %q decoded without error", input, doc), rep)
	}
}

func genJSONCases(r *common.Rand) {
	for i := 0; i < run.Scale(150, 3000); i++ {
		doc := genJSON(r, 3, true)
		lead := common.Pick(r, []string{"", "", " ", "\n\t"})
		jsonCase(lead+doc, doc, len(lead), true)
		jsonCase(lead+doc+common.Pick(r, []string{" ", "\n", "}", "]", "{\"tags\":[\"zzz\"]}", "x", "\"", " null"}), doc, len(lead), true)
		full := lead + doc
		for j := 0; j < 6; j++ {
			k := r.Intn(len(full))
			jsonCase(full[:k], doc, len(lead), false)
		}
		if len(full) < 40 {
			for k := 0; k < len(full); k++ {
				jsonCase(full[:k], doc, len(lead), false)
			}
		}
	}
}

var refPieces = []string{"http://", "https://", "HTTP://", "//", "/", "./", "../", "..", ".", "?", "&", "=", ";", ":", "a", "b.c", "v2", "list",
	"%41", "%zz", "reg.test", "reg.test:5000", "other.io", "@", "#", " ", "~p", "x=1", "last=a%2Fb", "n=2", "+", "sha256:ab", "ü", "///", "?"}

func genStrings(r *common.Rand) {
	bases := [][2]string{{"/v2/repo/tags/list", "n=2&last=a"}, {"/v2/_catalog", ""}, {"/v2/a/b/referrers/sha256:ab", "artifactType=x%2Fy"}, {"/v2/repo/tags/list/~p", "token=p;a"}, {"/", ""}, {"/v2/", "x"}}
	for i := 0; i < run.Scale(1500, 40000); i++ {
		var sb strings.Builder
		for j := r.Intn(6); j >= 0; j-- {
			sb.WriteString(common.Pick(r, refPieces))
		}
		b := common.Pick(r, bases)
		resolveCase(b[0], b[1], sb.String())
	}
	for _, ref := range []string{"", "?", "?x", "/", "//reg.test", "//reg.test/", "http://reg.test", "http://reg.test?x=1", ".", "..", "./", "../", "../..", "../../../x", "a/./b/../c", "/a/../../b", "x:y", "./x:y", "/x:y", "?a:b", "http:/x", "http:x", "///x", "list?last=b", "./list?last=b", "../list/~p?t=1", "?last=b;1", "?t=%zz"} {
		for _, b := range bases {
			resolveCase(b[0], b[1], ref)
		}
	}
	// small scope, exhaustively: every reference over a few pieces up to a length
	alpha := []string{"/", ".", "?", ":", "a", "%", "h", "#", "=", "&"}
	var rec func(prefix string, depth int)
	rec = func(prefix string, depth int) {
		resolveCase("/v2/r/tags/list", "n=2", prefix)
		if depth == 0 {
			return
		}
		for _, a := range alpha {
			rec(prefix+a, depth-1)
		}
	}
	rec("", run.Scale(3, 5))
	raws := []string{"", "n=1", "last=a&n=5", "x=1&n=3&y=2&n=4", "tok=a;b&n=1", "t=%zz&last=q", "%6e=7&x", "&&a=1&&", "n", "n=", "=v", "a=b=c", "la%73t=z&k;1=v", "u=100%&n=2", "last=a+b&LAST=c"}
	vals := []string{"", "3", "a b", "a/b?c", "ü&=", "%41", "+", "x;y", "~._-"}
	for _, raw := range raws {
		for _, v := range vals {
			setQueryCase(raw, "n", v)
			setQueryCase(raw, "n", "2", "last", v)
			setQueryCase(raw, "last", v)
		}
	}
	for i := 0; i < run.Scale(300, 5000); i++ {
		var sb strings.Builder
		for j := r.Intn(8); j >= 0; j-- {
			sb.WriteString(common.Pick(r, []string{"a", "Z", "9", "-", "_", ".", "~", " ", "+", "%", "%4", "%41", "%zz", "%C3%BC", "&", "=", ";", "/", "?", "ü", "\x00", "\xff", "n", "last"}))
		}
		escapeCase(sb.String())
	}
}

// ---------- running one scenario ----------

func classify(err error) string {
	var er *errcode.ErrorResponse
	var ue *url.Error
	switch {
	case err == nil:
		return "Done"
	case errors.Is(err, errInjected):
		return "ErrCallback"
	case strings.Contains(err.Error(), "missing '<'"), strings.Contains(err.Error(), "missing '>'"):
		return "ErrLink"
	case strings.Contains(err.Error(), "failed to decode response"):
		return "ErrDecode"
	case errors.Is(err, errdef.ErrUnsupported) && strings.Contains(err.Error(), "unknown content returned"):
		return "ErrCType"
	case errors.Is(err, errdef.ErrSizeExceedsLimit):
		return "ErrSize"
	case errors.Is(err, errdef.ErrUnsupported):
		return "ErrUnsupported"
	case errors.As(err, &er):
		return "ErrStatus"
	case errors.As(err, &ue):
		return "ErrResolve"
	}
	return "Other:" + common.Hex(err.Error())
}

func effLimit(n int64) int64 {
	if n <= 0 {
		return defaultMax
	}
	return n
}

func basePath(sc *Scenario) string {
	switch sc.Kind {
	case "K":
		return "/v2/_catalog"
	case "T":
		return "/v2/" + sc.Repo + "/tags/list"
	}
	return "/v2/" + sc.Repo + "/referrers/" + subject.String()
}

// ---------- watchdog: a call into the implementation that does not come back ----------

var errHang = errors.New("the implementation call did not return within the watchdog time")

const watchdog = 20 * time.Second

// guarded runs one call into the implementation; a wedge (lock, channel, endless loop) becomes errHang.
func guarded(f func() error) error {
	done := make(chan error, 1)
	go func() { done <- f() }()
	select {
	case err := <-done:
		return err
	case <-time.After(watchdog):
		return errHang
	}
}

// hangExit records the hang as an oracle failure with its replay and ends the run at once (the
// wedged goroutine still owns the case's data; nothing else is written after this point).
func hangExit(id string, rep any, what string) {
	run.OracleFail(id, "hang", what+": no return within "+watchdog.String(), rep)
	run.Finish()
	os.Exit(4)
}

func indexDoc(items []fakereg.Item, size int) []byte {
	ms := make([]ocispec.Descriptor, len(items))
	for i, it := range items {
		if it.Name == "" { // an empty descriptor (a "bad entry" of a referrers index)
			continue
		}
		ms[i] = ocispec.Descriptor{MediaType: ocispec.MediaTypeImageManifest, Digest: digest.Digest(it.Name), Size: 2, ArtifactType: it.ArtifactType}
	}
	idx := ocispec.Index{MediaType: ocispec.MediaTypeImageIndex, Manifests: ms}
	idx.SchemaVersion = 2
	doc, _ := json.Marshal(idx)
	if size > len(doc) {
		doc = append(append(doc[:len(doc)-1:len(doc)-1], bytes.Repeat([]byte{' '}, size-len(doc))...), '}')
	}
	return doc
}

var finalState int // capability state after the last execute of a referrers scenario

func execute(sc *Scenario) (reg *fakereg.Registry, pages [][]fakereg.Item, logAtFail int, err error) {
	reg = fakereg.New(host)
	reg.NoReferrersAPI = sc.NoAPI
	reg.CursorKey, reg.CursorSalt = sc.CursorKey, sc.CursorSalt
	reg.Hidden = hiddenSet(sc.Hidden)
	if sc.Index {
		reg.Manifests[sc.Repo+"@"+subject.Algorithm().String()+"-"+subject.Encoded()] = fakereg.Manifest{MediaType: ocispec.MediaTypeImageIndex, Content: indexDoc(sc.Items, 0)}
	}
	reg.Cap = sc.Cap
	if reg.Cap < 1 {
		reg.Cap = 1
	}
	reg.MaxRequests = len(sc.Items) + 8
	reg.Decide = func(x *fakereg.Exchange) fakereg.Decision {
		if x.Kind == 'M' { // the manifest endpoint (tag schema) is not disturbed here
			return fakereg.Decision{}
		}
		i := len(reg.Log) - 1
		if i < len(sc.Decs) {
			return sc.Decs[i]
		}
		return fakereg.Decision{M: 1000}
	}
	logAtFail = -1
	calls := 0
	onPage := func(p []fakereg.Item) error {
		pages = append(pages, p)
		calls++
		if sc.CbFail >= 0 && calls-1 == sc.CbFail {
			logAtFail = len(reg.Log)
			if sc.CbUnsupp {
				return fmt.Errorf("callback: %w: %w", errInjected, errdef.ErrUnsupported)
			}
			return errInjected
		}
		return nil
	}
	strs := func(ss []string) error { return onPage(fakereg.Names(ss...)) }
	ctx := context.Background()
	switch sc.Kind {
	case "K":
		reg.Repos = sc.Items
		r, e := remote.NewRegistry(host)
		if e != nil {
			panic(e)
		}
		r.PlainHTTP, r.Client, r.RepositoryListPageSize, r.MaxMetadataBytes = true, reg.Client(), sc.N, sc.Limit
		err = guarded(func() error { return r.Repositories(ctx, sc.Last, strs) })
	case "T":
		reg.Tags[sc.Repo] = sc.Items
		r := &remote.Repository{Reference: registry.Reference{Registry: host, Repository: sc.Repo}, PlainHTTP: true,
			Client: reg.Client(), TagListPageSize: sc.N, MaxMetadataBytes: sc.Limit}
		err = guarded(func() error { return r.Tags(ctx, sc.Last, strs) })
	case "R":
		reg.Referrers[sc.Repo+"@"+subject.String()] = sc.Items
		r := &remote.Repository{Reference: registry.Reference{Registry: host, Repository: sc.Repo}, PlainHTTP: true,
			Client: reg.Client(), ReferrerListPageSize: sc.N, MaxMetadataBytes: sc.Limit}
		switch sc.State {
		case "U":
		case "N":
			r.SetReferrersCapability(false)
		default:
			r.SetReferrersCapability(true)
		}
		desc := ocispec.Descriptor{MediaType: ocispec.MediaTypeImageManifest, Digest: subject, Size: 7}
		err = guarded(func() error {
			return r.Referrers(ctx, desc, sc.AT, func(ds []ocispec.Descriptor) error {
				p := make([]fakereg.Item, len(ds))
				for i, d := range ds {
					p[i] = fakereg.Item{Name: d.Digest.String(), ArtifactType: d.ArtifactType}
				}
				return onPage(p)
			})
		})
		if !errors.Is(err, errHang) {
			finalState = remote.VerifReferrersState(r)
		}
	default:
		panic("kind " + sc.Kind)
	}
	return
}

func hiddenSet(names []string) map[string]bool {
	m := map[string]bool{}
	for _, n := range names {
		m[n] = true
	}
	return m
}

func visible(items []fakereg.Item, hidden []string) []fakereg.Item {
	if len(hidden) == 0 {
		return items
	}
	h := hiddenSet(hidden)
	var out []fakereg.Item
	for _, it := range items {
		if !h[it.Name] {
			out = append(out, it)
		}
	}
	return out
}

func namesTok(ss []string) string {
	if len(ss) == 0 {
		return "_"
	}
	p := make([]string, len(ss))
	for i, s := range ss {
		p[i] = common.Hex(s)
	}
	return strings.Join(p, ",")
}

func flat(pages [][]fakereg.Item) []fakereg.Item {
	var out []fakereg.Item
	for _, p := range pages {
		out = append(out, p...)
	}
	return out
}

func sameItems(a, b []fakereg.Item) bool {
	if len(a) != len(b) {
		return false
	}
	for i := range a {
		if a[i] != b[i] {
			return false
		}
	}
	return true
}

func showNames(its []fakereg.Item) string {
	p := make([]string, len(its))
	for i, it := range its {
		p[i] = it.Name
		if it.ArtifactType != "" {
			p[i] += "(" + it.ArtifactType + ")"
		}
	}
	return "[" + strings.Join(p, " ") + "]"
}

// clientTokens renders the exchanges of one listing: the requests as observed and the
// responses as input of the client model (13 tokens each, see ml/c15_main.ml).
func clientTokens(log []*fakereg.Exchange) (reqs, resp []string) {
	for _, x := range log {
		sent := x.SentPath
		if sent == "" {
			sent = x.Path
		}
		reqs = append(reqs, common.Hex(sent)+"?"+obsQuery(valuesKVs(x.Query)))
		nu, js := "0", "0"
		if x.Status == 404 && x.Dec.ErrorCode == "NAME_UNKNOWN" {
			nu = "1"
		}
		if x.JSONOK {
			js = "1"
		}
		tt, tp, tq := "!", "_", "_"
		switch {
		case x.HasLink && x.Dec.PreFirst != 0: // the first link-value is the rel="first" link
			tt, tp, tq = common.Hex(x.PreText), common.Hex(x.Path), kvsTok(x.PreQuery)
		case x.HasLink:
			tt, tp, tq = common.Hex(x.Text), common.Hex(x.TPath), kvsTok(x.TQuery)
		default:
			if t, ok := rawTarget(x.Link); ok {
				tt, tp = common.Hex(t), "!"
			}
		}
		links := "_"
		if len(x.Links) > 0 {
			hs := make([]string, len(x.Links))
			for i, l := range x.Links {
				hs[i] = common.Hex(l)
			}
			links = strings.Join(hs, ",")
		}
		resp = append(resp, fmt.Sprintf("%d %s %s %s %d %d %s %s %s %s %s %s %s", x.Status, nu, common.Hex(x.CType), js, x.DocLen, x.TotalLen,
			itemsTok(x.Page), links, common.Hex(x.FHdr), common.Hex(x.FAnn), tt, tp, tq))
	}
	return
}

// followedRelFirst reports the mechanism of the known finding link-rel-ignored: some request
// is the target of the rel="first" link-value that preceded the next link in the previous
// response (instead of the target of the next link).
func followedRelFirst(log []*fakereg.Exchange, n int) bool {
	for i, x := range log {
		if !x.HasLink || x.Dec.PreFirst == 0 || i+1 >= len(log) {
			continue
		}
		want := url.Values{}
		for _, kv := range x.PreQuery {
			want.Add(kv.K, kv.V)
		}
		if n > 0 {
			want["n"] = []string{strconv.Itoa(n)}
		}
		if log[i+1].SentPath == x.Path && obsQuery(valuesKVs(log[i+1].Query)) == obsQuery(valuesKVs(want)) {
			return true
		}
	}
	return false
}

func listCase(sc *Scenario) {
	sc.Op = "list"
	id := run.NewID()
	reg, pages, logAtFail, err := execute(sc)
	if errors.Is(err, errHang) {
		hangExit(id, sc, "listing "+sc.Kind)
	}
	outcome := classify(err)
	fail := func(sig, msg string) {
		// known finding: parseLink takes the first link-value whatever its relation type.  Only the
		// consequences of that mechanism (a request that IS the rel="first" target: pages re-read,
		// the fake's request budget exhausted) carry its signature; every other failure keeps its own.
		if (sig == "exactly-once" || sig == "next-request" || sig == "spurious-error") && followedRelFirst(reg.Log, sc.N) {
			sig, msg = "link-rel-ignored", "a rel=\"first\" link-value precedes the next link and was followed: "+msg
		}
		run.OracleFail(id, sig, sc.Kind+" "+msg, sc)
	}

	// ----- model input and implementation observable -----
	reqs, resp := clientTokens(reg.Log)
	var q0 []fakereg.KV
	if sc.Kind == "R" && sc.AT != "" {
		q0 = []fakereg.KV{{K: "artifactType", V: sc.AT}}
	}
	pt := make([]string, len(pages))
	for i, p := range pages {
		pt[i] = itemsTok(p)
	}
	ps := "_"
	if len(pt) > 0 {
		ps = strings.Join(pt, ";")
	}
	model := fmt.Sprintf("C %s %d %d %s %s %d %s %s %d %s", sc.Kind, sc.N, sc.Limit, common.Hex(sc.AT), common.Hex(sc.Last),
		sc.CbFail, common.Hex(basePath(sc)), kvsTok(q0), len(resp), strings.Join(resp, " "))
	obs := fmt.Sprintf("R %s P %d %s O %s", strings.Join(reqs, "|"), len(pages), ps, outcome)
	// the scenario itself rides along as a last token the model runner ignores, so that a
	// model/implementation mismatch can be re-run under the oracle (props: case_to_replay)
	scjs, _ := json.Marshal(sc)
	run.Case(id, strings.TrimRight(model, " ")+" J"+common.Hex(string(scjs)), obs)
	run.TracesAgainstImpl++
	// the same run against the page loop on strings (Model/PagingUrl.v loop_s): raw requests, byte for byte
	redirected := false
	var rawReqs []string
	for _, x := range reg.Log {
		redirected = redirected || x.SentPath != x.Path
		rawReqs = append(rawReqs, common.Hex(x.SentPath)+"?"+common.Hex(x.RawQuery))
	}
	if !redirected && len(rawReqs) > 0 {
		csid := run.NewID()
		run.Case(csid, "CS "+common.Hex("http")+" "+common.Hex(host)+" "+strings.TrimRight(strings.TrimPrefix(model, "C "), " "),
			fmt.Sprintf("R %s P %d %s O %s", strings.Join(rawReqs, "|"), len(pages), ps, outcome))
		run.Count("string_loop")
	}

	stringCases(sc, reg.Log, outcome)
	// how many bytes of each decoded answer were consumed: the model of limitReader + decoder buffering
	for _, x := range reg.Log {
		if x.Status == 200 && x.JSONOK && x.Kind != 'M' && (x.Kind != 'R' || x.CType == ocispec.MediaTypeImageIndex) &&
			!(x.Dec.NullBody == 1 && len(x.Page) == 0) && run.Rand.Chance(1, 3) {
			bid := run.NewID()
			run.Case(bid, fmt.Sprintf("RB %d %d %d", sc.Limit, x.DocLen, x.TotalLen), strconv.Itoa(x.BytesRead()))
			run.Count("bytes_consumed")
			if int64(x.DocLen) > effLimit(sc.Limit) || x.TotalLen > 512 {
				run.Count("bytes_consumed_nontrivial")
			}
		}
	}
	// the document length the fake declares (model input rs_doc_len) is where the decoder -- and the
	// bracket scanner of Model/PagingJson.v -- find the end of the first value of the body
	for _, x := range reg.Log {
		if x.Status == 200 && x.JSONOK && x.Body != nil && len(x.Body) > 0 && x.Body[x.DocLen-1] == '}' && run.Rand.Chance(1, 8) {
			jid := run.NewID()
			dec := json.NewDecoder(bytes.NewReader(x.Body))
			var v any
			obs := "INC"
			if err := dec.Decode(&v); err == nil {
				obs = fmt.Sprintf("OK %d", dec.InputOffset())
			}
			run.Case(jid, "J "+common.Hex(string(x.Body)), obs)
			run.Count("json_listing_body")
			if obs != fmt.Sprintf("OK %d", x.DocLen) {
				run.OracleFail(jid, "fake-registry-illegal", fmt.Sprintf("fake registry declares a document of %d bytes, the decoder says %s", x.DocLen, obs), sc)
			}
		}
	}

	// ----- the oracle -----
	var expected []fakereg.Item
	if sc.Kind == "R" {
		for _, it := range sc.Items {
			if sc.AT == "" || it.ArtifactType == sc.AT {
				expected = append(expected, it)
			}
		}
	} else {
		expected = fakereg.After(sc.Items, sc.Last)
	}
	expected = visible(expected, sc.Hidden)
	got := flat(pages)
	// what disturbs the listing, in request order
	disturbed := -1 // index of the first exchange that cannot be completed normally
	oversize := -1
	cut := -1 // index of an answer without Link although items remain: "stop when no next link is given"
	for i, x := range reg.Log {
		// a link that is simply missing (RawLink "") is not an error: the listing ends there
		missing := x.Dec.RawLink != nil && *x.Dec.RawLink == ""
		bad := x.Status != 200 || !x.JSONOK || (x.Dec.RawLink != nil && !missing) || (x.Kind == 'R' && x.CType != ocispec.MediaTypeImageIndex)
		if missing && x.More && !bad && disturbed < 0 && cut < 0 {
			cut = i
		}
		if x.Status == 200 && int64(x.DocLen) > effLimit(sc.Limit) {
			bad = true
			if oversize < 0 {
				oversize = i
			}
		}
		if bad && disturbed < 0 {
			disturbed = i
		}
		// never read more than the limit
		if x.Status == 200 && int64(x.BytesRead()) > effLimit(sc.Limit) {
			fail("over-read", fmt.Sprintf("response %d: %d bytes consumed, MaxMetadataBytes %d (effective %d)", i, x.BytesRead(), sc.Limit, effLimit(sc.Limit)))
		}
	}
	if cut >= 0 && (disturbed < 0 || cut < disturbed) {
		// everything up to and including that page, nothing more, no error
		k := 0
		for _, x := range reg.Log[:cut+1] {
			k += len(filterAT(sc, visible(x.Unfilt, sc.Hidden)))
		}
		expected = expected[:k]
		disturbed = -1
		run.Count("list_link_missing_midway")
		if len(reg.Log) != cut+1 {
			fail("request-without-link", fmt.Sprintf("answer %d had no Link header, %d requests were sent", cut, len(reg.Log)))
		}
	}
	// the requests: first one carries last / n, later ones are the link with n re-set
	for i, x := range reg.Log {
		wantN := []string(nil)
		if sc.N > 0 {
			wantN = []string{strconv.Itoa(sc.N)}
		}
		if i == 0 {
			want := url.Values{}
			if wantN != nil {
				want["n"] = wantN
			}
			if sc.Last != "" && sc.Kind != "R" {
				want["last"] = []string{sc.Last}
			}
			if sc.Kind == "R" && sc.AT != "" {
				want["artifactType"] = []string{sc.AT}
			}
			if x.SentPath != basePath(sc) || obsQuery(valuesKVs(x.Query)) != obsQuery(valuesKVs(want)) {
				fail("first-request", fmt.Sprintf("first request %s?%s, want %s?%s", x.SentPath, x.Query.Encode(), basePath(sc), want.Encode()))
			}
			continue
		}
		prev := reg.Log[i-1]
		if !prev.HasLink {
			fail("request-without-link", fmt.Sprintf("request %d follows a response without a usable next link (Link: %q)", i, prev.Link))
			continue
		}
		want := url.Values{}
		for _, kv := range prev.TQuery {
			want.Add(kv.K, kv.V)
		}
		if wantN != nil {
			want["n"] = wantN
		}
		if x.SentPath != prev.TPath || obsQuery(valuesKVs(x.Query)) != obsQuery(valuesKVs(want)) {
			fail("next-request", fmt.Sprintf("request %d is %s?%s, the link said %s?%s (n configured: %d)", i, x.SentPath, x.Query.Encode(), prev.TPath, want.Encode(), sc.N))
		}
	}
	for i, p := range pages {
		if sc.Kind == "R" && len(p) == 0 {
			fail("empty-page", fmt.Sprintf("callback %d received an empty referrers page", i))
		}
	}
	cbHit := sc.CbFail >= 0 && logAtFail >= 0
	switch {
	case cbHit:
		if !errors.Is(err, errInjected) {
			fail("callback-error-lost", fmt.Sprintf("callback %d failed, listing returned %v", sc.CbFail, err))
		}
		if len(pages) != sc.CbFail+1 || len(reg.Log) != logAtFail {
			fail("continues-after-error", fmt.Sprintf("callback %d failed; %d callbacks and %d requests in total (%d requests at the failure)", sc.CbFail, len(pages), len(reg.Log), logAtFail))
		}
		if len(got) > len(expected) || !sameItems(got, expected[:len(got)]) {
			fail("exactly-once", fmt.Sprintf("delivered %s is not a prefix of %s", showNames(got), showNames(expected)))
		}
	case disturbed >= 0:
		if err == nil {
			sig := "failure-swallowed"
			if oversize == disturbed {
				sig = "truncated-accepted"
			}
			fail(sig, fmt.Sprintf("response %d was unusable (status %d, document %d bytes, limit %d, link %q) but the listing succeeded with %s",
				disturbed, reg.Log[disturbed].Status, reg.Log[disturbed].DocLen, effLimit(sc.Limit), reg.Log[disturbed].Link, showNames(got)))
		}
		// nothing of an oversized document may be delivered; whatever was delivered is a prefix
		if len(got) > len(expected) || !sameItems(got, expected[:len(got)]) {
			fail("exactly-once", fmt.Sprintf("delivered %s is not a prefix of %s", showNames(got), showNames(expected)))
		}
		if oversize == disturbed {
			var before []fakereg.Item
			for _, x := range reg.Log[:oversize] {
				before = append(before, filterAT(sc, x.Page)...)
			}
			if !sameItems(got, before) {
				fail("truncated-result", fmt.Sprintf("document %d exceeds the limit; delivered %s, complete pages before it hold %s", oversize, showNames(got), showNames(before)))
			}
		}
	default:
		if err != nil {
			fail("spurious-error", fmt.Sprintf("listing of %s failed: %v", showNames(sc.Items), err))
		} else if !sameItems(got, expected) {
			sig := "exactly-once"
			fail(sig, fmt.Sprintf("last=%q n=%d at=%q: delivered %s, registry holds %s", sc.Last, sc.N, sc.AT, showNames(got), showNames(expected)))
		}
	}

	// ----- statistics -----
	run.Count("list_" + sc.Kind + "_" + outcome)
	run.Count(fmt.Sprintf("list_requests_%s", bucket(len(reg.Log))))
	for _, x := range reg.Log {
		if x.HasLink {
			run.Count(fmt.Sprintf("link_variant_%d", x.Dec.Variant%fakereg.NumLinkVariants))
			if len(x.Dec.RawPairs) > 0 {
				run.Count("link_raw_pairs")
			}
			if x.TPath != x.Path {
				run.Count("link_other_path")
			}
			if x.SentPath != x.Path {
				run.Count("link_after_redirect")
			}
			if x.Dec.PreFirst != 0 {
				run.Count("link_rel_first_stream")
			}
			if len(x.Links) > 1 || len(x.Dec.PostSame) > 0 {
				run.Count("link_further_values")
			}
		}
		if x.Status == 200 && x.JSONOK && x.HasLink && len(x.Page) == 0 && x.Kind != 'R' {
			run.Count("list_empty_page_with_link")
		}
		if x.Status == 200 && x.JSONOK && (x.Dec.LeadWS > 0 || x.Dec.TrailDoc || (x.Dec.NullBody != 0 && len(x.Page) == 0)) {
			run.Count("json_shape_variant")
		}
	}
	if len(reg.Log) > 1 || outcome != "Done" {
		run.Nontrivial(model)
	}
	if len(reg.Log) > 2 {
		run.Sample(map[string]any{"op": "list", "kind": sc.Kind, "items": len(sc.Items), "last": sc.Last, "n": sc.N,
			"requests": len(reg.Log), "links": linksOf(reg), "outcome": outcome, "delivered": len(got)})
	}

	// ----- the fake registry against the registry model -----
	for i, x := range reg.Log {
		if x.Status != 200 || x.Dec.RawLink != nil || x.Dec.Status != 0 {
			continue
		}
		if i > 2 && !run.Rand.Chance(1, 3) {
			continue
		}
		regPageCase(sc.Kind, sc.Items, reg.Cap, sc.CursorKey, sc.CursorSalt, sc.Hidden, x)
	}
}

// RegPage is the replay form of one registry-model case (one request to the fake registry).
type RegPage struct {
	Op         string           `json:"op"` // "regpage"
	Kind       string           `json:"kind"`
	Items      []fakereg.Item   `json:"items"`
	Cap        int              `json:"cap"`
	Path       string           `json:"path"`
	Query      []fakereg.KV     `json:"query"`
	Dec        fakereg.Decision `json:"dec"`
	CursorKey  string           `json:"cursorkey"`
	CursorSalt string           `json:"cursorsalt"`
	Hidden     []string         `json:"hidden"`
}

// regPageCase compares one answer of the fake registry with the registry model (S line) and
// judges it against the conditions of a legal registry, independently of the model.
func regPageCase(kind string, items []fakereg.Item, cap int, ck, salt string, hidden []string, x *fakereg.Exchange) {
	sid := run.NewID()
	d := x.Dec
	flt := "0"
	if d.Filter {
		flt = "1"
	}
	extra := append([]fakereg.KV(nil), d.Extra...)
	for _, raw := range d.RawPairs {
		extra = append(extra, valuesKVs(fakereg.ParseQueryLenient(raw))...)
	}
	in := fmt.Sprintf("S %s %s %d %s %s %d %s %s %s %s %s %s %s", kind, itemsTok(items), cap, common.Hex(x.Path), kvsTok(valuesKVs(x.Query)),
		d.M, kvsTok(extra), flt, common.Hex(d.FHdr), common.Hex(d.FAnn), common.Hex(ck), common.Hex(salt), namesTok(hidden))
	more, lq := 0, "_"
	if x.More {
		more, lq = 1, obsQuery(canonKVs(x.TQuery))
	}
	run.Case(sid, in, fmt.Sprintf("%s %d %s", itemsTok(x.Page), more, lq))
	run.Count("registry_page")

	// legality of the answer (ground truth: the item list and the request)
	rep := RegPage{Op: "regpage", Kind: kind, Items: items, Cap: cap, Path: x.Path, Query: valuesKVs(x.Query), CursorKey: ck, CursorSalt: salt, Hidden: hidden,
		Dec: fakereg.Decision{M: d.M, Extra: extra, Filter: d.Filter, FHdr: d.FHdr, FAnn: d.FAnn}}
	bad := func(msg string) {
		run.OracleFail(sid, "fake-registry-illegal", fmt.Sprintf("fake registry, request %s?%s: %s", x.Path, x.Query.Encode(), msg), rep)
	}
	cur := x.Query.Get("last")
	key := "last"
	if ck != "" && ck != "last" {
		key = ck
		if x.Query.Has(ck) {
			cur = strings.TrimPrefix(x.Query.Get(ck), salt)
		}
	}
	rest := fakereg.After(items, cur)
	lim := cap
	if n, err := strconv.Atoi(x.Query.Get("n")); err == nil && n > 0 && n < lim {
		lim = n
	}
	u := x.Unfilt
	switch {
	case len(u) > len(rest) || !sameItems(u, rest[:len(u)]):
		bad(fmt.Sprintf("page %s is not a prefix of the remaining items %s", showNames(u), showNames(rest)))
	case len(u) > lim:
		bad(fmt.Sprintf("page of %d items exceeds min(cap, n) = %d", len(u), lim))
	case len(u) == 0 && len(rest) > 0:
		bad("empty page window although items remain")
	case x.More != (len(u) < len(rest)):
		bad(fmt.Sprintf("link present = %v, items remaining = %d", x.More, len(rest)-len(u)))
	}
	if x.More {
		last, seen := "", false
		for _, kv := range x.TQuery {
			if kv.K == key && !seen {
				last, seen = kv.V, true
				if key != "last" {
					last = strings.TrimPrefix(last, salt)
				}
			}
		}
		if len(u) == 0 || last != u[len(u)-1].Name {
			bad(fmt.Sprintf("link cursor %q is not the last item of the page %s", last, showNames(u)))
		}
	}
	if h := hiddenSet(hidden); len(h) > 0 {
		for _, it := range x.Page {
			if h[it.Name] {
				bad("a hidden entry is shown: " + showNames(x.Page))
			}
		}
	}
	if sub := visible(u, hidden); !(kind == "R" && x.Query.Get("artifactType") != "") && !sameItems(x.Page, sub) {
		bad(fmt.Sprintf("page %s is not the shown part %s of its window", showNames(x.Page), showNames(sub)))
	}
	at := x.Query.Get("artifactType")
	for _, it := range x.Page {
		if kind == "R" && at != "" && (d.Filter || fakereg.FilterApplied(d.FHdr, "artifactType") || fakereg.FilterApplied(d.FAnn, "artifactType")) && it.ArtifactType != at {
			bad("filtering announced or chosen, page holds " + showNames(x.Page))
		}
	}
}

func regPageReplay(rp *RegPage) {
	reg := fakereg.New(host)
	reg.Cap = rp.Cap
	if reg.Cap < 1 {
		reg.Cap = 1
	}
	reg.Decide = func(*fakereg.Exchange) fakereg.Decision { return rp.Dec }
	reg.CursorKey, reg.CursorSalt = rp.CursorKey, rp.CursorSalt
	reg.Hidden = hiddenSet(rp.Hidden)
	switch rp.Kind {
	case "K":
		reg.Repos = rp.Items
	case "T":
		reg.Tags[strings.TrimSuffix(strings.TrimPrefix(strings.TrimSuffix(rp.Path, "/~p"), "/v2/"), "/tags/list")] = rp.Items
	default:
		pth := strings.TrimSuffix(rp.Path, "/~p")
		i := strings.LastIndex(pth, "/referrers/")
		if i < 0 {
			return
		}
		reg.Referrers[pth[len("/v2/"):i]+"@"+pth[i+len("/referrers/"):]] = rp.Items
	}
	q := url.Values{}
	for _, kv := range rp.Query {
		q.Add(kv.K, kv.V)
	}
	u := url.URL{Scheme: "http", Host: host, Path: rp.Path, RawQuery: q.Encode()}
	resp, err := reg.Client().Get(u.String())
	if err != nil || len(reg.Log) != 1 {
		panic(fmt.Sprintf("regpage replay: %v", err))
	}
	resp.Body.Close()
	if reg.Log[0].Status == 200 {
		regPageCase(rp.Kind, rp.Items, reg.Cap, rp.CursorKey, rp.CursorSalt, rp.Hidden, reg.Log[0])
	}
}

// collectCase runs the same scenario through the helpers that collect a whole listing:
// registry.Tags, registry.Repositories, registry.Referrers and Repository.Predecessors.
func collectCase(sc *Scenario) {
	id := run.NewID()
	reg := fakereg.New(host)
	reg.Cap = max(sc.Cap, 1)
	reg.MaxRequests = len(sc.Items) + 8
	reg.CursorKey, reg.CursorSalt, reg.Hidden = sc.CursorKey, sc.CursorSalt, hiddenSet(sc.Hidden)
	reg.Decide = func(x *fakereg.Exchange) fakereg.Decision {
		if i := len(reg.Log) - 1; i < len(sc.Decs) {
			return sc.Decs[i]
		}
		return fakereg.Decision{M: 1000}
	}
	ctx := context.Background()
	var got []fakereg.Item
	var err error
	switch sc.Kind {
	case "K":
		reg.Repos = sc.Items
		r, e := remote.NewRegistry(host)
		if e != nil {
			return
		}
		r.PlainHTTP, r.Client, r.RepositoryListPageSize, r.MaxMetadataBytes = true, reg.Client(), sc.N, sc.Limit
		err = guarded(func() error {
			ss, e := registry.Repositories(ctx, r)
			got = fakereg.Names(ss...)
			return e
		})
	case "T":
		reg.Tags[sc.Repo] = sc.Items
		r := &remote.Repository{Reference: registry.Reference{Registry: host, Repository: sc.Repo}, PlainHTTP: true,
			Client: reg.Client(), TagListPageSize: sc.N, MaxMetadataBytes: sc.Limit}
		err = guarded(func() error {
			ss, e := registry.Tags(ctx, r)
			got = fakereg.Names(ss...)
			return e
		})
	default:
		reg.Referrers[sc.Repo+"@"+subject.String()] = sc.Items
		r := &remote.Repository{Reference: registry.Reference{Registry: host, Repository: sc.Repo}, PlainHTTP: true,
			Client: reg.Client(), ReferrerListPageSize: sc.N, MaxMetadataBytes: sc.Limit}
		r.SetReferrersCapability(true)
		desc := ocispec.Descriptor{MediaType: ocispec.MediaTypeImageManifest, Digest: subject, Size: 7}
		err = guarded(func() error {
			var ds []ocispec.Descriptor
			var e error
			if sc.AT == "" && len(sc.Items)%2 == 0 {
				ds, e = r.Predecessors(ctx, desc)
			} else {
				ds, e = registry.Referrers(ctx, r, desc, sc.AT)
			}
			for _, d := range ds {
				got = append(got, fakereg.Item{Name: d.Digest.String(), ArtifactType: d.ArtifactType})
			}
			return e
		})
	}
	if errors.Is(err, errHang) {
		hangExit(id, sc, "collecting helper "+sc.Kind)
	}
	outcome := classify(err)
	_, resp := clientTokens(reg.Log)
	var q0 []fakereg.KV
	if sc.Kind == "R" && sc.AT != "" {
		q0 = []fakereg.KV{{K: "artifactType", V: sc.AT}}
	}
	model := fmt.Sprintf("CA %s %d %d %s - -1 %s %s %d %s", sc.Kind, sc.N, sc.Limit, common.Hex(sc.AT),
		common.Hex(basePath(sc)), kvsTok(q0), len(resp), strings.Join(resp, " "))
	if err != nil {
		got = nil
	}
	run.Case(id, strings.TrimRight(model, " "), fmt.Sprintf("I %s O %s", itemsTok(got), outcome))
	run.Count("collect_" + sc.Kind + "_" + outcome)
	// oracle: an undisturbed registry -> everything it shows, once, in order
	clean := true
	for _, x := range reg.Log {
		if x.Status != 200 || !x.JSONOK || x.Dec.RawLink != nil || x.Dec.PreFirst != 0 || (x.Kind == 'R' && x.CType != ocispec.MediaTypeImageIndex) || int64(x.DocLen) > effLimit(sc.Limit) {
			clean = false
		}
	}
	if clean {
		var expected []fakereg.Item
		for _, it := range visible(sc.Items, sc.Hidden) {
			if sc.Kind != "R" || sc.AT == "" || it.ArtifactType == sc.AT {
				expected = append(expected, it)
			}
		}
		rep := *sc
		rep.Op = "collect"
		if err != nil {
			run.OracleFail(id, "spurious-error", fmt.Sprintf("collecting %s failed: %v", sc.Kind, err), rep)
		} else if !sameItems(got, expected) {
			run.OracleFail(id, "exactly-once", fmt.Sprintf("collecting %s returned %s, registry shows %s", sc.Kind, showNames(got), showNames(expected)), rep)
		}
	}
}

func filterAT(sc *Scenario, p []fakereg.Item) []fakereg.Item {
	if sc.Kind != "R" || sc.AT == "" {
		return p
	}
	var out []fakereg.Item
	for _, it := range p {
		if it.ArtifactType == sc.AT {
			out = append(out, it)
		}
	}
	return out
}

func linksOf(reg *fakereg.Registry) []string {
	var out []string
	for _, x := range reg.Log {
		if x.Link != "" && len(out) < 3 {
			out = append(out, x.Link)
		}
	}
	return out
}

func bucket(n int) string {
	switch {
	case n <= 1:
		return "1"
	case n <= 3:
		return "2-3"
	case n <= 8:
		return "4-8"
	}
	return "9+"
}

// ---------- generators ----------

var tagAlphabet = "abcxyzABZ019_.-"

func genName(r *common.Rand, kind string) string {
	n := 1 + r.Intn(6)
	var sb strings.Builder
	for i := 0; i < n; i++ {
		c := tagAlphabet[r.Intn(len(tagAlphabet))]
		if i == 0 && (c == '.' || c == '-') {
			c = 'a'
		}
		sb.WriteByte(c)
	}
	s := sb.String()
	if kind == "K" {
		s = strings.ToLower(strings.Trim(strings.NewReplacer("_", "", ".", "", "-", "").Replace(s), ""))
		if s == "" {
			s = "r"
		}
		if r.Chance(1, 3) {
			s = "ns" + strconv.Itoa(r.Intn(3)) + "/" + s
		}
	}
	return s
}

var artifactTypes = []string{"application/vnd.a", "application/vnd.b+json", "text/x,y", ""}

func genItems(r *common.Rand, kind string, n int) []fakereg.Item {
	seen := map[string]bool{}
	var out []fakereg.Item
	for len(out) < n {
		var it fakereg.Item
		if kind == "R" {
			it = fakereg.Item{Name: digest.FromString(fmt.Sprintf("ref-%d", r.Intn(1<<30))).String(), ArtifactType: common.Pick(r, artifactTypes)}
		} else {
			it = fakereg.Item{Name: genName(r, kind)}
		}
		if !seen[it.Name] {
			seen[it.Name] = true
			out = append(out, it)
		}
	}
	if kind != "R" && !r.Chance(1, 4) {
		sort.Slice(out, func(i, j int) bool { return out[i].Name < out[j].Name })
	}
	return out
}

var trailers = []string{`; rel="next"`, `;rel=next`, ``, `; rel="next"; title="more"`, `; rel="next", <http://reg.test/v2/>; rel="first"`, ` ; rel="next"`}
var filterLists = []string{"artifactType", "artifactType,annotations", "foo,artifactType", "foo", "artifacttype", "artifactType ", "xartifactType", "foo,bar"}

func genDecision(r *common.Rand, sc *Scenario) fakereg.Decision {
	d := fakereg.Decision{M: 1 + r.Intn(len(sc.Items)+2), Variant: r.Intn(fakereg.NumLinkVariants), Trailer: common.Pick(r, trailers), RawQuery: r.Bool()}
	if r.Chance(1, 3) {
		d.M = 1 + r.Intn(3)
	}
	if r.Chance(1, 3) {
		for i := r.Intn(3); i >= 0; i-- {
			d.Extra = append(d.Extra, fakereg.KV{K: common.Pick(r, []string{"x", "token", "a b", "n", "zz"}), V: common.Pick(r, []string{"1", "a/b", "ü&=", "", "2"})})
		}
		for i := range d.Extra {
			if d.Extra[i].K == "n" {
				d.Extra[i].V = strconv.Itoa(1 + r.Intn(5))
			}
		}
	}
	if sc.Kind == "R" {
		switch r.Intn(6) {
		case 0:
			d.Filter = true
		case 1:
			d.FHdr = common.Pick(r, filterLists)
		case 2:
			d.FAnn = common.Pick(r, filterLists)
		case 3:
			d.FHdr, d.FAnn = common.Pick(r, filterLists), common.Pick(r, filterLists)
		}
	}
	if r.Chance(1, 4) {
		d.Pad = 1 + r.Intn(4)
	}
	// shapes of the JSON document: empty page as null, leading white space, a second document behind
	if r.Chance(1, 5) {
		d.NullBody = 1 + r.Intn(2)
	}
	if r.Chance(1, 10) {
		d.LeadWS = 1 + r.Intn(3)
	}
	if r.Chance(1, 10) {
		d.TrailDoc = true
	}
	// raw sub-delimiters / malformed escapes in the link query (legal URL text that url.ParseQuery rejects)
	if r.Chance(1, 8) {
		d.RawPairs = []string{common.Pick(r, []string{"tok=a;b", "t=%zz", "sig=x;y;z", "k;1=v", "u=100%"})}
	}
	// the next page under another path; a redirect hop before the answer
	if r.Chance(1, 8) {
		d.AltPath = true
	}
	if r.Chance(1, 12) {
		d.Redirect = true
	}
	// further link-values and Link lines after the next link (RFC 8288)
	if r.Chance(1, 6) {
		d.PostSame = []string{common.Pick(r, []string{`<http://reg.test/v2/>; rel="first"`, `</other>; rel="prev"`, `<x>`})}
	}
	if r.Chance(1, 6) {
		d.PostLines = []string{common.Pick(r, []string{`<http://reg.test/v2/>; rel="first"`, `</v2/repo/tags/list?last=zzz>; rel="last"`, `<>; rel="self"`})}
	}
	return d
}

func genScenario(r *common.Rand, maxItems int) *Scenario {
	sc := &Scenario{Kind: common.Pick(r, []string{"T", "T", "K", "R", "R"}), Repo: common.Pick(r, []string{"repo", "ns/repo", "a/b/c"}), CbFail: -1, Cap: 1000}
	sc.Items = genItems(r, sc.Kind, r.Intn(maxItems+1))
	if r.Chance(1, 2) {
		sc.N = 1 + r.Intn(6)
	} else if r.Chance(1, 8) {
		sc.N = -1
	}
	if r.Chance(1, 3) {
		sc.Cap = 1 + r.Intn(5)
	}
	if sc.Kind == "R" {
		if r.Chance(2, 3) {
			sc.AT = common.Pick(r, artifactTypes[:3])
		}
	} else if r.Chance(1, 2) {
		switch {
		case len(sc.Items) > 0 && r.Chance(3, 4):
			sc.Last = common.Pick(r, sc.Items).Name
		case r.Chance(1, 3):
			sc.Last = common.Pick(r, []string{"a b", "x&y=z", "ü", "%41", "a/b?c", "<a>", "+", "#"})
		default:
			sc.Last = genName(r, sc.Kind)
		}
	}
	// entries the registry does not show: page windows of hidden entries are empty pages with a link
	if len(sc.Items) > 0 && r.Chance(1, 5) {
		for _, it := range sc.Items {
			if r.Chance(1, 3) {
				sc.Hidden = append(sc.Hidden, it.Name)
			}
		}
		if len(sc.Hidden) > 0 {
			run.Count("hidden_entries")
		}
	}
	// the registry's continuation: mostly `last`, else an opaque cursor (the link carries no `last`)
	if r.Chance(1, 4) {
		sc.CursorKey = common.Pick(r, []string{"token", "next", "cursor"})
		sc.CursorSalt = common.Pick(r, []string{"", "p;", "x:", "a=b;", "~"})
		run.Count("cursor_opaque")
	}
	for i := 0; i < len(sc.Items)+2; i++ {
		sc.Decs = append(sc.Decs, genDecision(r, sc))
	}
	// disturbances
	switch r.Intn(12) {
	case 0: // failing callback
		sc.CbFail = r.Intn(3)
	case 1: // body around the limit
		sc.Limit = int64(8000 + r.Intn(200))
		j := r.Intn(min(len(sc.Decs), 3))
		sc.Decs[j].DocLen = int(sc.Limit) - 1 + r.Intn(3)
		sc.Decs[j].Pad = r.Intn(3)
	case 2: // malformed link
		j := r.Intn(min(len(sc.Decs), 3))
		l := common.Pick(r, rawLinks)
		sc.Decs[j].RawLink = &l
	case 3: // error status / bad body / bad content type
		j := r.Intn(min(len(sc.Decs), 3))
		switch r.Intn(4) {
		case 0:
			sc.Decs[j].Status = common.Pick(r, []int{500, 404, 401 + 2, 429})
		case 1:
			b := common.Pick(r, []string{`{"tags":[`, `[1,2]`, `{"tags":"x","repositories":7,"manifests":{}}`, ``, `nul`})
			sc.Decs[j].RawBody = &b
		case 2:
			sc.Decs[j].CType = common.Pick(r, ctypeVariants)
		case 3:
			sc.Limit = int64(1 + r.Intn(40))
		}
	case 4:
		sc.Limit = -1
	case 5: // a rel="first" link-value before the next link (known finding link-rel-ignored)
		if r.Chance(1, 4) {
			j := r.Intn(min(len(sc.Decs), 2))
			sc.Decs[j].PreFirst = 1 + r.Intn(2)
		}
	}
	return sc
}

// exhaustive small scope: every split of every list up to size k, every last, n in {0,1,2}
func exhaustive(k int) {
	names := []string{"a", "b", "c", "d", "e", "f", "g"}
	for _, kind := range []string{"T", "K", "R"} {
		for size := 0; size <= k; size++ {
			items := fakereg.Names(names[:size]...)
			if kind == "R" {
				for i := range items {
					items[i] = fakereg.Item{Name: digest.FromString(names[i]).String(), ArtifactType: artifactTypes[i%2]}
				}
			}
			lasts := []string{""}
			if kind != "R" {
				lasts = append(lasts, names[:size]...)
				lasts = append(lasts, "bb")
			}
			// compositions of size: bit i of mask set = page break after item i
			for mask := 0; mask < 1<<max(size-1, 0); mask++ {
				var ms []int
				runLen := 1
				for i := 0; i < size-1; i++ {
					if mask>>i&1 == 1 {
						ms = append(ms, runLen)
						runLen = 1
					} else {
						runLen++
					}
				}
				ms = append(ms, runLen)
				for _, last := range lasts {
					for _, n := range []int{0, 2} {
						sc := &Scenario{Kind: kind, Repo: "repo", Items: items, Last: last, N: n, Cap: 1000, CbFail: -1}
						if kind == "R" && mask%2 == 1 {
							sc.AT = artifactTypes[0]
						}
						// the split applies to what remains after last: pages are cut from the front
						for j, m := range ms {
							sc.Decs = append(sc.Decs, fakereg.Decision{M: m, Variant: (j + mask) % fakereg.NumLinkVariants, Trailer: trailers[(j+mask)%len(trailers)], Filter: kind == "R" && (j+mask)%3 == 0})
						}
						listCase(sc)
						run.Count("exhaustive")
					}
				}
			}
		}
	}
}

// ---------- direct cases: parseLink, filters, limits ----------

func linkCase(h string, cmp bool) {
	id := run.NewID()
	base, _ := url.Parse("http://reg.test/v2/repo/tags/list?n=2")
	resp := &http.Response{Header: http.Header{}, Request: &http.Request{URL: base}}
	if h != "" {
		resp.Header["Link"] = []string{h}
	}
	got, err := remote.VerifParseLink(resp)
	c := "0"
	if cmp {
		c = "1"
	}
	var obs string
	switch {
	case err == nil && cmp:
		obs = "T " + common.Hex(got)
	case err == nil:
		obs = "T"
	case strings.Contains(err.Error(), "no Link header"):
		obs = "NONE"
	case strings.Contains(err.Error(), "missing '<'"):
		obs = "ERRLT"
	case strings.Contains(err.Error(), "missing '>'"):
		obs = "ERRGT"
	default:
		obs = "T" // extraction succeeded, net/url rejected the target
		if cmp {
			obs = "RESOLVE-ERR"
		}
	}
	run.Case(id, "L "+c+" "+common.Hex(h), obs)
	run.Count("parse_link_" + strings.SplitN(obs, " ", 2)[0])
	// oracle: the documented form <url>; rel="next" yields url
	if cmp && (err != nil || !strings.HasPrefix(h, "<"+got+">")) {
		run.OracleFail(id, "parse-link", fmt.Sprintf("parseLink(%q) = %q, %v", h, got, err), map[string]string{"op": "link", "header": h, "cmp": c})
	}
	run.Nontrivial("L" + h)
}

func filterCase(applied, requested string) {
	id := run.NewID()
	got := remote.VerifIsReferrersFilterApplied(applied, requested)
	want := false
	if applied != "" && requested != "" {
		for _, f := range strings.Split(applied, ",") {
			want = want || f == requested
		}
	}
	o := "0"
	if got {
		o = "1"
	}
	run.Case(id, "F "+common.Hex(applied)+" "+common.Hex(requested), o)
	run.Count("filter_applied_" + o)
	if got != want {
		run.OracleFail(id, "filter-applied", fmt.Sprintf("isReferrersFilterApplied(%q,%q)=%v", applied, requested, got),
			map[string]string{"op": "filter", "applied": applied, "requested": requested})
	}
	run.Nontrivial("F" + applied + "|" + requested)
}

func filterRefsCase(items []fakereg.Item, at string) {
	id := run.NewID()
	ds := make([]ocispec.Descriptor, len(items))
	for i, it := range items {
		ds[i] = ocispec.Descriptor{MediaType: ocispec.MediaTypeImageManifest, Digest: digest.Digest(it.Name), Size: 1, ArtifactType: it.ArtifactType}
	}
	out := remote.VerifFilterReferrers(ds, at)
	got := make([]fakereg.Item, len(out))
	for i, d := range out {
		got[i] = fakereg.Item{Name: d.Digest.String(), ArtifactType: d.ArtifactType}
	}
	var want []fakereg.Item
	for _, it := range items {
		if at == "" || it.ArtifactType == at {
			want = append(want, it)
		}
	}
	run.Case(id, "FR "+itemsTok(items)+" "+common.Hex(at), itemsTok(got))
	run.Count("filter_referrers")
	if !sameItems(got, want) {
		run.OracleFail(id, "filter-referrers", fmt.Sprintf("filterReferrers(%s,%q)=%s", showNames(items), at, showNames(got)),
			map[string]any{"op": "filterrefs", "items": items, "at": at})
	}
}

type countReader struct {
	r io.Reader
	n int64
}

func (c *countReader) Read(p []byte) (int, error) {
	n, err := c.r.Read(p)
	c.n += int64(n)
	return n, err
}

// bodyCase: a tag-list document of exactly docLen bytes followed by pad bytes, read through limitReader.
func bodyCase(limit int64, docLen, pad int) {
	id := run.NewID()
	tags := []string{"v1", "v2", "latest"}
	doc, _ := json.Marshal(map[string]any{"name": "repo", "tags": tags})
	if docLen < len(doc) {
		docLen = len(doc)
	}
	body := append(append(doc[:len(doc)-1:len(doc)-1], bytes.Repeat([]byte{' '}, docLen-len(doc))...), '}')
	body = append(body, bytes.Repeat([]byte{'\n'}, pad)...)
	cr := &countReader{r: bytes.NewReader(body)}
	var page struct {
		Tags []string `json:"tags"`
	}
	err := json.NewDecoder(remote.VerifLimitReader(cr, limit)).Decode(&page)
	obs := "OK"
	if err != nil {
		obs = "ERR"
	}
	run.Case(id, fmt.Sprintf("B %d 1 %d %d", limit, docLen, docLen+pad), obs)
	run.Count("body_" + obs)
	rep := map[string]any{"op": "body", "limit": limit, "doclen": docLen, "pad": pad}
	eff := effLimit(limit)
	if cr.n > eff {
		run.OracleFail(id, "over-read", fmt.Sprintf("limit %d: %d bytes consumed of a %d byte body", limit, cr.n, len(body)), rep)
	}
	if int64(docLen) > eff && err == nil {
		run.OracleFail(id, "truncated-accepted", fmt.Sprintf("limit %d: a %d byte document decoded without error to %v", limit, docLen, page.Tags), rep)
	}
	if int64(docLen) <= eff && (err != nil || strings.Join(page.Tags, ",") != strings.Join(tags, ",")) {
		run.OracleFail(id, "fitting-rejected", fmt.Sprintf("limit %d: a %d byte document gave %v, %v", limit, docLen, page.Tags, err), rep)
	}
	run.Nontrivial(fmt.Sprintf("B%d/%d/%d", limit, docLen, pad))
}

func sizeCase(limit, size int64) {
	id := run.NewID()
	err := remote.VerifLimitSize(ocispec.Descriptor{Size: size}, limit)
	o := "0"
	if err != nil {
		o = "1"
	}
	run.Case(id, fmt.Sprintf("Z %d %d", limit, size), o)
	run.Count("limit_size_" + o)
	if (size > effLimit(limit)) != (err != nil) || (err != nil && !errors.Is(err, errdef.ErrSizeExceedsLimit)) {
		run.OracleFail(id, "limit-size", fmt.Sprintf("limitSize(size %d, limit %d) = %v", size, limit, err), map[string]any{"op": "size", "limit": limit, "size": size})
	}
}

// ---------- Repository.Referrers: capability detection around the two paths ----------

func wrapCase(sc *Scenario) {
	sc.Op, sc.Kind = "wrap", "R"
	if sc.State == "" {
		sc.State = "S"
	}
	id := run.NewID()
	reg, pages, _, err := execute(sc)
	if errors.Is(err, errHang) {
		hangExit(id, sc, "Referrers")
	}
	outcome := classify(err)
	state := []string{"U", "S", "N"}[finalState]
	var api []*fakereg.Exchange
	fell := 0
	for _, x := range reg.Log {
		if x.Kind == 'R' {
			api = append(api, x)
		} else if x.Kind == 'M' {
			fell = 1
		}
	}
	reqs, resp := clientTokens(api)
	var q0 []fakereg.KV
	if sc.AT != "" {
		q0 = []fakereg.KV{{K: "artifactType", V: sc.AT}}
	}
	pt := make([]string, len(pages))
	for i, p := range pages {
		pt[i] = itemsTok(p)
	}
	ps, rs := "_", "_"
	if len(pt) > 0 {
		ps = strings.Join(pt, ";")
	}
	if len(reqs) > 0 {
		rs = strings.Join(reqs, "|")
	}
	b01 := func(b bool) string {
		if b {
			return "1"
		}
		return "0"
	}
	model := fmt.Sprintf("W %s %s %s %d %s R %d %d %s - %d %s %s %d %s", sc.State, b01(sc.CbUnsupp), b01(sc.Index), len(indexDoc(sc.Items, 0)), itemsTok(sc.Items),
		sc.N, sc.Limit, common.Hex(sc.AT), sc.CbFail, common.Hex(basePath(sc)), kvsTok(q0), len(resp), strings.Join(resp, " "))
	scjs, _ := json.Marshal(sc)
	run.Case(id, strings.TrimRight(model, " ")+" J"+common.Hex(string(scjs)),
		fmt.Sprintf("R %s P %d %s O %s F %d S %s", rs, len(pages), ps, outcome, fell, state))
	run.Count("wrap_" + sc.State + "_" + outcome + "_" + state)
	run.Nontrivial(model)

	// ----- oracle (ground truth only) -----
	fail := func(sig, msg string) { run.OracleFail(id, sig, "Referrers(state "+sc.State+") "+msg, sc) }
	got := flat(pages)
	seen := map[string]bool{}
	for _, it := range got {
		if seen[it.Name] {
			fail("exactly-once", fmt.Sprintf("referrer %s delivered twice: %s", it.Name, showNames(got)))
			break
		}
		seen[it.Name] = true
	}
	for i, p := range pages {
		if len(p) == 0 {
			fail("empty-page", fmt.Sprintf("callback %d received an empty page", i))
		}
	}
	if sc.CbFail >= 0 && len(pages) > sc.CbFail {
		if !errors.Is(err, errInjected) {
			fail("callback-error-lost", fmt.Sprintf("callback %d failed (unsupported-class error: %v), Referrers returned %v", sc.CbFail, sc.CbUnsupp, err))
		}
		if len(pages) != sc.CbFail+1 {
			fail("continues-after-error", fmt.Sprintf("callback %d failed, %d callbacks were made", sc.CbFail, len(pages)))
		}
	}
	if sc.State != "U" && state != sc.State {
		fail("state-changed", fmt.Sprintf("capability was %s, is %s afterwards", sc.State, state))
	}
	// never read more than the limit of any metadata answer (API pages and the index of the fallback)
	for i, x := range reg.Log {
		if x.Status == 200 && int64(x.BytesRead()) > effLimit(sc.Limit) {
			fail("over-read", fmt.Sprintf("response %d (%c): %d bytes consumed, MaxMetadataBytes %d (effective %d)", i, x.Kind, x.BytesRead(), sc.Limit, effLimit(sc.Limit)))
		}
	}
	// an error answer that does not mean "no referrers API" is returned, not worked around
	if sc.State == "U" && !sc.NoAPI && len(api) > 0 {
		x := api[0]
		if x.Status == 500 || x.Status == 403 || (x.Status == 404 && x.Dec.ErrorCode == "NAME_UNKNOWN") {
			if err == nil || fell != 0 || state != "U" {
				fail("fallback-on-error", fmt.Sprintf("the referrers API answered %d %s; Referrers returned %v, tag schema used: %v, capability %s", x.Status, x.Dec.ErrorCode, err, fell != 0, state))
			}
		}
	}
	// undisturbed runs of legal registries
	clean := sc.CbFail < 0
	for _, x := range api {
		if !sc.NoAPI && (x.Status != 200 || !x.JSONOK || x.Dec.RawLink != nil || x.CType != ocispec.MediaTypeImageIndex || int64(x.DocLen) > effLimit(sc.Limit)) {
			clean = false
		}
	}
	if int64(len(indexDoc(sc.Items, 0))) > effLimit(sc.Limit) {
		clean = false
	}
	var expected []fakereg.Item
	for _, it := range sc.Items {
		if sc.AT == "" || it.ArtifactType == sc.AT {
			expected = append(expected, it)
		}
	}
	switch {
	case !clean:
	case !sc.NoAPI && sc.State != "N":
		if err != nil || !sameItems(got, expected) {
			fail("exactly-once", fmt.Sprintf("registry with referrers API: delivered %s, %v; it holds %s", showNames(got), err, showNames(expected)))
		} else if state != "S" {
			fail("state-not-set", "successful API listing left the capability "+state)
		}
	case sc.NoAPI && sc.Index && sc.State != "S":
		if err != nil || !sameItems(got, expected) {
			fail("exactly-once", fmt.Sprintf("registry without referrers API: delivered %s, %v; its index holds %s", showNames(got), err, showNames(expected)))
		} else if state != "N" {
			fail("state-not-set", "fallback to the tag schema left the capability "+state)
		}
	}
}

func genWrap(r *common.Rand) {
	sc := &Scenario{Kind: "R", Repo: "repo", CbFail: -1, Cap: 1000, State: common.Pick(r, []string{"U", "U", "U", "S", "N"})}
	sc.Items = genItems(r, "R", r.Intn(7))
	if r.Chance(1, 2) {
		sc.AT = common.Pick(r, artifactTypes[:3])
	}
	if r.Chance(1, 3) {
		sc.N = 1 + r.Intn(3)
	}
	if r.Chance(1, 5) {
		sc.CursorKey, sc.CursorSalt = common.Pick(r, []string{"token", "next"}), common.Pick(r, []string{"", "p;"})
	}
	sc.NoAPI = r.Chance(1, 3)
	sc.Index = sc.NoAPI || r.Chance(1, 3)
	if sc.NoAPI && r.Chance(1, 6) {
		sc.Index = false
	}
	for i := 0; i < len(sc.Items)+2; i++ {
		sc.Decs = append(sc.Decs, genDecision(r, sc))
	}
	switch r.Intn(8) {
	case 0, 1:
		sc.CbFail = r.Intn(2)
		sc.CbUnsupp = r.Bool()
	case 2: // the API answers "unsupported" at request j (possibly after delivered pages)
		j := r.Intn(min(len(sc.Decs), 3))
		if r.Bool() {
			sc.Decs[j].Status, sc.Decs[j].ErrorCode = 404, common.Pick(r, []string{"NOT_FOUND", "NAME_UNKNOWN", "UNSUPPORTED"})
		} else {
			sc.Decs[j].CType = common.Pick(r, ctypeVariants)
		}
	case 3:
		j := r.Intn(min(len(sc.Decs), 3))
		sc.Decs[j].Status = common.Pick(r, []int{500, 403})
	case 4:
		sc.Limit = int64(100 + r.Intn(600))
	}
	wrapCase(sc)
}

var ctypeVariants = []string{"application/json", "text/plain", "application/vnd.oci.image.index.v1+json; charset=utf-8",
	"application/vnd.oci.image.index.v1+json;charset=utf-8", "Application/vnd.oci.image.index.v1+json", "application/vnd.oci.image.manifest.v1+json"}

// pingCase: pingReferrers against one answer of the referrers endpoint.
func pingCase(state string, status int, code, ctype string) {
	id := run.NewID()
	reg := fakereg.New(host)
	reg.Decide = func(*fakereg.Exchange) fakereg.Decision {
		return fakereg.Decision{Status: status, ErrorCode: code, CType: ctype}
	}
	r := &remote.Repository{Reference: registry.Reference{Registry: host, Repository: "repo"}, PlainHTTP: true, Client: reg.Client()}
	switch state {
	case "S":
		r.SetReferrersCapability(true)
	case "N":
		r.SetReferrersCapability(false)
	}
	ok, err := remote.VerifPingReferrers(context.Background(), r)
	after := []string{"U", "S", "N"}[remote.VerifReferrersState(r)]
	res := "0"
	if err != nil {
		res = "E"
	} else if ok {
		res = "1"
	}
	sent := ocispec.MediaTypeImageIndex
	if ctype != "" {
		sent = ctype
	}
	nu := "0"
	if status == 404 && code == "NAME_UNKNOWN" {
		nu = "1"
	}
	st := status
	if st == 0 {
		st = 200
	}
	run.Case(id, fmt.Sprintf("P %s %d %s %s", state, st, nu, common.Hex(sent)), fmt.Sprintf("%s %s %d", res, after, len(reg.Log)))
	run.Count("ping_" + state + "_" + res)
	run.Nontrivial(fmt.Sprintf("P%s/%d/%s/%s", state, status, code, ctype))
	rep := map[string]any{"op": "ping", "state": state, "status": status, "code": code, "ctype": ctype}
	// oracle: a known capability is never changed nor re-asked; a plain index answer means supported
	if state != "U" && (after != state || len(reg.Log) != 0 || err != nil || ok != (state == "S")) {
		run.OracleFail(id, "state-changed", fmt.Sprintf("ping with capability %s: answer %v, %v, %d requests, capability %s afterwards", state, ok, err, len(reg.Log), after), rep)
	}
	if state == "U" && st == 200 && ctype == "" && (!ok || err != nil || after != "S") {
		run.OracleFail(id, "state-not-set", fmt.Sprintf("ping of a registry with referrers API: %v, %v, capability %s", ok, err, after), rep)
	}
	if state == "U" && st == 200 && (ctype == "application/json" || ctype == "text/plain" || ctype == ocispec.MediaTypeImageManifest) && (ok || err != nil || after != "N") {
		run.OracleFail(id, "ping-wrong-content-type", fmt.Sprintf("ping answered by a %s document: %v, %v, capability %s", ctype, ok, err, after), rep)
	}
	if state == "U" && st == 404 && code != "NAME_UNKNOWN" && (ok || err != nil || after != "N") {
		run.OracleFail(id, "state-not-set", fmt.Sprintf("ping of a registry without referrers API: %v, %v, capability %s", ok, err, after), rep)
	}
}

// ---------- referrers through the tag schema ----------

// TagSchema is one run of Referrers against a registry without referrers API.
type TagSchema struct {
	Op       string         `json:"op"` // "tagschema"
	Items    []fakereg.Item `json:"items"`
	AT       string         `json:"at"`
	Limit    int64          `json:"limit"`
	Absent   bool           `json:"absent"`   // the referrers tag does not exist
	Size     int            `json:"size"`     // pad the index to this size (0: natural)
	NoDigest bool           `json:"nodigest"` // registry omits Docker-Content-Digest
	CbFail   int            `json:"cbfail"`
}

func tagSchemaCase(ts *TagSchema) {
	ts.Op = "tagschema"
	id := run.NewID()
	reg := fakereg.New(host)
	reg.Decide = func(*fakereg.Exchange) fakereg.Decision { return fakereg.Decision{NoDigest: ts.NoDigest} }
	doc := indexDoc(ts.Items, ts.Size)
	if !ts.Absent {
		reg.Manifests["repo@"+subject.Algorithm().String()+"-"+subject.Encoded()] = fakereg.Manifest{MediaType: ocispec.MediaTypeImageIndex, Content: doc}
	}
	r := &remote.Repository{Reference: registry.Reference{Registry: host, Repository: "repo"}, PlainHTTP: true,
		Client: reg.Client(), MaxMetadataBytes: ts.Limit}
	r.SetReferrersCapability(false)
	var pages [][]fakereg.Item
	desc := ocispec.Descriptor{MediaType: ocispec.MediaTypeImageManifest, Digest: subject, Size: 7}
	err := guarded(func() error {
		return r.Referrers(context.Background(), desc, ts.AT, func(ds []ocispec.Descriptor) error {
			p := make([]fakereg.Item, len(ds))
			for i, d := range ds {
				p[i] = fakereg.Item{Name: d.Digest.String(), ArtifactType: d.ArtifactType}
			}
			pages = append(pages, p)
			if ts.CbFail == len(pages)-1 {
				return errInjected
			}
			return nil
		})
	})
	if errors.Is(err, errHang) {
		hangExit(id, ts, "Referrers (tag schema)")
	}
	outcome := classify(err)
	if errors.Is(err, errdef.ErrSizeExceedsLimit) {
		outcome = "ErrSize"
	}
	pt := make([]string, len(pages))
	for i, p := range pages {
		pt[i] = itemsTok(p)
	}
	ps := "_"
	if len(pt) > 0 {
		ps = strings.Join(pt, ";")
	}
	found := "1"
	if ts.Absent {
		found = "0"
	}
	run.Case(id, fmt.Sprintf("X %d %s %d %s %s %d", ts.Limit, found, len(doc), itemsTok(ts.Items), common.Hex(ts.AT), ts.CbFail),
		fmt.Sprintf("P %d %s O %s", len(pages), ps, outcome))
	run.Count("tagschema_" + outcome)
	run.Nontrivial(fmt.Sprintf("X%v", *ts))
	if !ts.Absent && len(reg.Log) == 1 && reg.Log[0].Status == 200 {
		bid := run.NewID()
		run.Case(bid, fmt.Sprintf("XB %d %d", ts.Limit, len(doc)), strconv.Itoa(reg.Log[0].BytesRead()))
		run.Count("bytes_consumed_index")
	}
	// oracle
	fail := func(sig, msg string) { run.OracleFail(id, sig, "tag schema: "+msg, ts) }
	// ground truth: every non-empty entry of the index once (first occurrence), of the requested type
	var expected []fakereg.Item
	if !ts.Absent {
		seen := map[string]bool{}
		for _, it := range ts.Items {
			if it.Name == "" || seen[it.Name] {
				continue
			}
			seen[it.Name] = true
			if ts.AT == "" || it.ArtifactType == ts.AT {
				expected = append(expected, it)
			}
		}
	}
	for i, x := range reg.Log {
		if eff := effLimit(ts.Limit); x.Status == 200 && int64(x.BytesRead()) > eff {
			sig := "over-read"
			// (fixed finding over-read-digest-probe: the first version of 4dc7269 read limit+1 bytes of an
			// oversized manifest body without Docker-Content-Digest; the signature stays mechanism-matched)
			if x.Kind == 'M' && ts.NoDigest && int64(x.TotalLen) > eff && int64(x.BytesRead()) == eff+1 && err != nil && len(pages) == 0 {
				sig = "over-read-digest-probe"
			}
			fail(sig, fmt.Sprintf("response %d: %d bytes consumed, MaxMetadataBytes %d (effective %d)", i, x.BytesRead(), ts.Limit, eff))
		}
	}
	got := flat(pages)
	switch {
	case !ts.Absent && int64(len(doc)) > effLimit(ts.Limit):
		if err == nil {
			fail("truncated-accepted", fmt.Sprintf("index of %d bytes, limit %d, listing succeeded with %s", len(doc), effLimit(ts.Limit), showNames(got)))
		}
		if len(pages) != 0 {
			fail("truncated-result", fmt.Sprintf("index of %d bytes, limit %d, delivered %s", len(doc), effLimit(ts.Limit), showNames(got)))
		}
	case ts.CbFail == 0 && len(expected) > 0:
		if !errors.Is(err, errInjected) || len(pages) != 1 {
			fail("callback-error-lost", fmt.Sprintf("callback failed, listing returned %v after %d callbacks", err, len(pages)))
		}
	default:
		if err != nil {
			fail("spurious-error", fmt.Sprintf("listing failed: %v", err))
		} else if !sameItems(got, expected) {
			fail("exactly-once", fmt.Sprintf("at=%q delivered %s, index holds %s", ts.AT, showNames(got), showNames(expected)))
		}
	}
	for _, p := range pages {
		if len(p) == 0 {
			fail("empty-page", "callback received an empty page")
		}
	}
}

// dirtyIndex repeats entries (also with another artifact type) and inserts empty descriptors.
func dirtyIndex(r *common.Rand, items []fakereg.Item) []fakereg.Item {
	out := append([]fakereg.Item(nil), items...)
	for k := 1 + r.Intn(3); k > 0; k-- {
		var it fakereg.Item
		if len(out) > 0 && r.Chance(2, 3) {
			it = common.Pick(r, out)
			if r.Chance(1, 3) {
				it.ArtifactType = common.Pick(r, artifactTypes)
			}
		}
		at := r.Intn(len(out) + 1)
		out = append(out[:at:at], append([]fakereg.Item{it}, out[at:]...)...)
	}
	return out
}

func genTagSchema(r *common.Rand) {
	ts := &TagSchema{Items: genItems(r, "R", r.Intn(8)), CbFail: -1, NoDigest: r.Bool(), Absent: r.Chance(1, 10)}
	if r.Chance(1, 3) {
		ts.Items = dirtyIndex(r, ts.Items)
		run.Count("tagschema_dirty_index")
	}
	if r.Chance(2, 3) {
		ts.AT = common.Pick(r, artifactTypes[:3])
	}
	if r.Chance(1, 8) {
		ts.CbFail = 0
	}
	switch r.Intn(4) {
	case 0:
		ts.Limit = int64(3000 + r.Intn(100))
		ts.Size = int(ts.Limit) - 1 + r.Intn(3)
	case 1:
		ts.Limit = int64(1 + r.Intn(300))
	case 2:
		ts.Limit = -int64(r.Intn(2))
	}
	tagSchemaCase(ts)
}

// ---------- content/oci Tags ----------

type ociOp struct {
	Tag  string `json:"tag"`
	Blob int    `json:"blob"` // -1 = untag
}

func ociCase(ops []ociOp, last string, reopen bool) {
	id := run.NewID()
	rep := map[string]any{"op": "oci", "ops": ops, "last": last, "reopen": reopen}
	// an unexpected error of the store while the layout is being prepared is not a listing matter:
	// the case is then not judged (counted; the coverage floor on judged cases guards against silence)
	notJudged := func(what string, err error) {
		run.Count("oci_not_judged")
		fmt.Fprintf(os.Stderr, "C15 oci case not judged: %s: %v\n", what, err)
	}
	dir, err := os.MkdirTemp("", "c15oci")
	if err != nil {
		notJudged("MkdirTemp", err)
		return
	}
	defer os.RemoveAll(dir)
	ctx := context.Background()
	st, err := oci.New(dir)
	if err != nil {
		notJudged("oci.New", err)
		return
	}
	truth := map[string]string{} // reference -> digest
	descs := map[int]ocispec.Descriptor{}
	var setupErr error
	blob := func(i int) ocispec.Descriptor {
		if d, ok := descs[i]; ok {
			return d
		}
		data := []byte(fmt.Sprintf("blob-%d", i))
		d := ocispec.Descriptor{MediaType: "application/octet-stream", Digest: digest.FromBytes(data), Size: int64(len(data))}
		if err := st.Push(ctx, d, bytes.NewReader(data)); err != nil && setupErr == nil {
			setupErr = fmt.Errorf("Push blob %d: %w", i, err)
		}
		descs[i] = d
		return d
	}
	for _, op := range ops {
		tag := op.Tag
		foreign := false
		if strings.HasPrefix(tag, "@") { // a digest string used as a reference
			k, _ := strconv.Atoi(tag[1:])
			tag = blob(k).Digest.String()
			foreign = op.Blob >= 0 && k != op.Blob
		}
		if op.Blob < 0 {
			if _, ok := truth[tag]; ok && !strings.HasPrefix(tag, "sha256:") {
				if err := st.Untag(ctx, tag); err != nil && setupErr == nil {
					setupErr = fmt.Errorf("Untag %q: %w", tag, err)
				}
				delete(truth, tag)
			}
			continue
		}
		d := blob(op.Blob)
		err := st.Tag(ctx, d, tag)
		if foreign {
			// the digest of OTHER content is not a reference of d: the store refuses it and nothing changes
			// (a reference in digest form can only be the content's own digest, which Tags() skips)
			if errors.Is(err, errdef.ErrInvalidReference) {
				run.Count("oci_foreign_digest_refused")
				continue
			}
			if setupErr == nil {
				setupErr = fmt.Errorf("Tag(blob %d, digest of other content) = %v, want ErrInvalidReference", op.Blob, err)
			}
			continue
		}
		if err != nil {
			if setupErr == nil {
				setupErr = fmt.Errorf("Tag(blob %d, %q): %w", op.Blob, tag, err)
			}
			continue
		}
		truth[tag] = d.Digest.String()
		truth[d.Digest.String()] = d.Digest.String()
	}
	if setupErr != nil {
		notJudged("preparing the layout", setupErr)
		return
	}
	type tagLister interface {
		Tags(ctx context.Context, last string, fn func(tags []string) error) error
	}
	list := func(l tagLister) (got []string, calls int, err error) {
		err = guarded(func() error {
			return l.Tags(ctx, last, func(tags []string) error {
				calls++
				got = append(got, tags...)
				return nil
			})
		})
		if errors.Is(err, errHang) {
			hangExit(id, rep, "oci Tags")
		}
		return
	}
	got, calls, err := list(st)
	// ground truth
	var want, ents []string
	keys := make([]string, 0, len(truth))
	for k := range truth {
		keys = append(keys, k)
	}
	common.Shuffle(run.Rand, keys)
	for _, k := range keys {
		ents = append(ents, common.Hex(k)+":"+common.Hex(truth[k]))
		if k != truth[k] && (last == "" || k > last) {
			want = append(want, k)
		}
	}
	sort.Strings(want)
	tok := func(ss []string) string {
		if len(ss) == 0 {
			return "_"
		}
		p := make([]string, len(ss))
		for i, s := range ss {
			p[i] = common.Hex(s)
		}
		return strings.Join(p, ",")
	}
	e := "_"
	if len(ents) > 0 {
		e = strings.Join(ents, ",")
	}
	run.Case(id, "O "+e+" "+common.Hex(last), tok(got))
	run.Count("oci_tags")
	judge := func(label string, got []string, calls int, err error, reloaded bool) {
		switch {
		case err != nil || calls != 1:
			run.OracleFail(id, "oci-tags-call", fmt.Sprintf("%s: Tags(last=%q): %d callbacks, err %v", label, last, calls, err), rep)
		case !sort.StringsAreSorted(got):
			run.OracleFail(id, "oci-tags-sorted", fmt.Sprintf("%s: Tags(last=%q) = %q", label, last, got), rep)
		case strings.Join(got, "\x00") != strings.Join(want, "\x00"):
			run.OracleFail(id, "oci-tags-set", fmt.Sprintf("%s: Tags(last=%q) = %q, want %q", label, last, got, want), rep)
		}
		for _, g := range got {
			if last != "" && g <= last {
				run.OracleFail(id, "oci-tags-last", fmt.Sprintf("%s: Tags(last=%q) = %q", label, last, got), rep)
				break
			}
		}
	}
	judge("Store", got, calls, err, false)
	// the read-only store over the same layout (ReadOnlyStore.Tags), and a re-opened Store
	ro, rerr := oci.NewFromFS(ctx, os.DirFS(dir))
	if rerr != nil {
		notJudged("oci.NewFromFS", rerr)
	} else {
		g2, c2, e2 := list(ro)
		judge("ReadOnlyStore", g2, c2, e2, true)
		run.Count("oci_tags_readonly")
	}
	if reopen {
		st2, err := oci.New(dir)
		if err != nil {
			notJudged("reopening the layout", err)
		} else {
			g3, c3, e3 := list(st2)
			judge("reopened Store", g3, c3, e3, true)
			run.Count("oci_tags_reopened")
		}
	}
	if len(want) > 1 {
		run.Nontrivial("O" + e + "|" + last)
	}
}

func genOci(r *common.Rand) {
	tags := []string{"v1", "v2", "latest", "a", "B", "1.0", "v10", "_x", "@0", "@1", "v1.0-rc", "zz"}
	var ops []ociOp
	for i := r.Intn(10); i >= 0; i-- {
		op := ociOp{Tag: common.Pick(r, tags), Blob: r.Intn(3)}
		if r.Chance(1, 6) {
			op.Blob = -1
		}
		ops = append(ops, op)
	}
	last := ""
	if r.Chance(2, 3) {
		last = common.Pick(r, append(tags[:8:8], "m", "v", "v1.", "sha256:"))
	}
	ociCase(ops, last, r.Chance(1, 4))
}

// ---------- replay ----------

func replay(cases []map[string]string) {
	for _, c := range cases {
		switch c["op"] {
		case "list":
			js, _ := json.Marshal(c)
			// values were stringified by ReadReplay: rebuild the typed scenario
			var sc Scenario
			raw := map[string]json.RawMessage{}
			for k, v := range c {
				switch k {
				case "op", "kind", "repo", "last", "at", "state", "cursorkey", "cursorsalt":
					b, _ := json.Marshal(v)
					raw[k] = b
				default:
					raw[k] = json.RawMessage(v)
				}
			}
			js, _ = json.Marshal(raw)
			if err := json.Unmarshal(js, &sc); err != nil {
				panic(fmt.Sprintf("replay: %v in %s", err, js))
			}
			listCase(&sc)
		case "link":
			linkCase(c["header"], c["cmp"] == "1")
		case "filter":
			filterCase(c["applied"], c["requested"])
		case "filterrefs":
			var items []fakereg.Item
			json.Unmarshal([]byte(c["items"]), &items)
			filterRefsCase(items, c["at"])
		case "body":
			l, _ := strconv.ParseInt(c["limit"], 10, 64)
			d, _ := strconv.Atoi(c["doclen"])
			p, _ := strconv.Atoi(c["pad"])
			bodyCase(l, d, p)
		case "size":
			l, _ := strconv.ParseInt(c["limit"], 10, 64)
			s, _ := strconv.ParseInt(c["size"], 10, 64)
			sizeCase(l, s)
		case "json":
			lead, _ := strconv.Atoi(c["lead"])
			jsonCase(c["input"], c["doc"], lead, c["complete"] == "true")
		case "setquery":
			var kv []string
			json.Unmarshal([]byte(c["kv"]), &kv)
			setQueryCase(c["raw"], kv...)
		case "escape":
			escapeCase(c["s"])
		case "resolve":
			resolveCase(c["bpath"], c["bquery"], c["ref"])
		case "ping":
			st, _ := strconv.Atoi(c["status"])
			pingCase(c["state"], st, c["code"], c["ctype"])
		case "regpage":
			var rp RegPage
			raw := map[string]json.RawMessage{}
			for k, v := range c {
				switch k {
				case "op", "kind", "path", "cursorkey", "cursorsalt":
					b, _ := json.Marshal(v)
					raw[k] = b
				default:
					raw[k] = json.RawMessage(v)
				}
			}
			js, _ := json.Marshal(raw)
			if err := json.Unmarshal(js, &rp); err != nil {
				panic(fmt.Sprintf("replay: %v in %s", err, js))
			}
			regPageReplay(&rp)
		case "collect":
			var sc Scenario
			raw := map[string]json.RawMessage{}
			for k, v := range c {
				switch k {
				case "op", "kind", "repo", "last", "at", "state", "cursorkey", "cursorsalt":
					b, _ := json.Marshal(v)
					raw[k] = b
				default:
					raw[k] = json.RawMessage(v)
				}
			}
			js, _ := json.Marshal(raw)
			if err := json.Unmarshal(js, &sc); err != nil {
				panic(fmt.Sprintf("replay: %v in %s", err, js))
			}
			collectCase(&sc)
		case "wrap":
			var sc Scenario
			raw := map[string]json.RawMessage{}
			for k, v := range c {
				switch k {
				case "op", "kind", "repo", "last", "at", "state", "cursorkey", "cursorsalt":
					b, _ := json.Marshal(v)
					raw[k] = b
				default:
					raw[k] = json.RawMessage(v)
				}
			}
			js, _ := json.Marshal(raw)
			if err := json.Unmarshal(js, &sc); err != nil {
				panic(fmt.Sprintf("replay: %v in %s", err, js))
			}
			wrapCase(&sc)
		case "tagschema":
			var ts TagSchema
			raw := map[string]json.RawMessage{}
			for k, v := range c {
				switch k {
				case "op", "at":
					b, _ := json.Marshal(v)
					raw[k] = b
				default:
					raw[k] = json.RawMessage(v)
				}
			}
			js, _ := json.Marshal(raw)
			if err := json.Unmarshal(js, &ts); err != nil {
				panic(fmt.Sprintf("replay: %v in %s", err, js))
			}
			tagSchemaCase(&ts)
		case "oci":
			var ops []ociOp
			json.Unmarshal([]byte(c["ops"]), &ops)
			ociCase(ops, c["last"], c["reopen"] == "true")
		}
	}
}

func main() {
	run = common.Start("C15")
	defer run.Finish()
	run.Rule = "listing runs with more than one request or a non-Done outcome (distinct by server script), plus distinct parseLink/filter/limit/oci inputs"
	if run.Replay != "" {
		replay(common.ReadReplay(run.Replay))
		return
	}
	r := run.Rand

	// parseLink
	for _, h := range []string{"", "<", ">", "<>", "<a>", "a", " <a>", "<a", "a>", "<<a>>", "<a>>", "><", "<a>; rel=\"next\"", "<a>,<b>", "<a b>", "<>x"} {
		linkCase(h, false)
	}
	for i := 0; i < run.Scale(150, 2000); i++ {
		t := "http://reg.test/v2/r/tags/list?last=" + genName(r, "T") + "&n=" + strconv.Itoa(r.Intn(9))
		linkCase("<"+t+">"+common.Pick(r, trailers), true)
		var sb strings.Builder
		for j := r.Intn(8); j > 0; j-- {
			sb.WriteString(common.Pick(r, []string{"<", ">", "a", "/", ";", " ", "?x=1", "http://h/p", ","}))
		}
		linkCase(sb.String(), false)
	}
	// filters
	for _, a := range append(filterLists, "", ",", "artifactType,", ",artifactType", "artifactType,artifactType") {
		for _, q := range []string{"artifactType", "", "foo", "annotations"} {
			filterCase(a, q)
		}
	}
	for i := 0; i < run.Scale(60, 600); i++ {
		filterRefsCase(genItems(r, "R", r.Intn(8)), common.Pick(r, artifactTypes))
	}
	// limits
	for _, lim := range []int64{0, -5, 1, 40, 41, 100, 513, 4096, 4097} {
		for _, dl := range []int64{lim - 1, lim, lim + 1, 2 * lim} {
			for _, pad := range []int{0, 1, 7} {
				if lim > 0 {
					bodyCase(lim, int(dl), pad)
				}
			}
		}
		for _, sz := range []int64{-1, 0, lim - 1, lim, lim + 1, defaultMax - 1, defaultMax, defaultMax + 1} {
			sizeCase(lim, sz)
		}
	}
	for _, dl := range []int{defaultMax - 1, defaultMax, defaultMax + 1} {
		bodyCase(0, dl, 0)
		bodyCase(-1, dl, 2)
	}
	// the default limit end to end
	for _, kind := range []string{"T", "K", "R"} {
		for _, dl := range []int{defaultMax, defaultMax + 1} {
			listCase(&Scenario{Kind: kind, Repo: "repo", Items: genItems(r, kind, 3), Cap: 1000, CbFail: -1,
				Decs: []fakereg.Decision{{M: 2, DocLen: dl}, {M: 5}}})
		}
	}
	// listings
	exhaustive(run.Scale(4, 7))
	for i := 0; i < run.Scale(6000, 180000); i++ {
		mx := 12
		if r.Chance(1, 5) {
			mx = run.Scale(40, 90)
		}
		sc := genScenario(r, mx)
		listCase(sc)
		if sc.CbFail < 0 && r.Chance(1, 4) {
			collectCase(sc)
		}
	}
	// the string level: net/url resolution, setQueryParams, escaping
	genStrings(r)
	// json.Decoder: where the first value ends
	genJSONCases(r)
	// pingReferrers
	for _, st := range []string{"U", "S", "N"} {
		for _, status := range []int{0, 404, 500, 401, 403} {
			for _, code := range []string{"", "NAME_UNKNOWN", "UNSUPPORTED"} {
				for _, ct := range append([]string{""}, ctypeVariants...) {
					if (status == 0) == (code == "") || status == 404 {
						pingCase(st, status, code, ct)
					}
				}
			}
		}
	}
	// Repository.Referrers with capability detection
	for i := 0; i < run.Scale(1500, 40000); i++ {
		genWrap(r)
	}
	// referrers tag schema
	for i := 0; i < run.Scale(300, 6000); i++ {
		genTagSchema(r)
	}
	for _, sz := range []int{defaultMax, defaultMax + 1} {
		for _, nd := range []bool{false, true} {
			tagSchemaCase(&TagSchema{Items: genItems(r, "R", 3), Size: sz, NoDigest: nd, CbFail: -1})
		}
	}
	// content/oci
	for i := 0; i < run.Scale(150, 4000); i++ {
		genOci(r)
	}
	coverageFloors()
}

// coverageFloors: a generated run in which one of the input streams is (nearly) empty must not pass
// silently -- the harness then exits non-zero, which bin/check reports as a broken layer R.
func coverageFloors() {
	sum := func(prefix string) int {
		n := 0
		for k, v := range run.Dist {
			if strings.HasPrefix(k, prefix) {
				n += v
			}
		}
		return n
	}
	floors := map[string]int{
		"collect_T_": 200, "collect_K_": 100, "collect_R_": 200, "bytes_consumed_index": 100, "bytes_consumed": 1000, "bytes_consumed_nontrivial": 100, "json_listing_body": 200, "json_OK": 200, "json_IN": 500, "string_loop": 2000, "string_first_request": 1000, "string_next_request_NEXT": 1000, "string_next_request_NONE": 300, "string_next_request_ERR": 10,
		"string_set_query": 300, "string_escape": 200, "string_resolve_OK": 200, "string_resolve_ER": 50,
		"cursor_opaque": 100, "hidden_entries": 100, "list_empty_page_with_link": 20, "link_raw_pairs": 50, "link_other_path": 50, "link_after_redirect": 30, "link_further_values": 100, "link_rel_first_stream": 5,
		"list_link_missing_midway": 5, "json_shape_variant": 100, "registry_page": 1000, "exhaustive": 200,
		"link_variant_0": 100, "link_variant_1": 100, "link_variant_2": 100, "link_variant_3": 100, "link_variant_4": 100,
		"list_T_": 1000, "list_K_": 500, "list_R_": 1000, "list_T_ErrCallback": 5, "list_R_ErrDecode": 5, "list_K_ErrLink": 3,
		"wrap_U_": 300, "wrap_S_": 50, "wrap_N_": 50, "ping_": 100, "tagschema_": 200, "tagschema_dirty_index": 30, "tagschema_ErrSize": 10,
		"oci_tags": 100, "oci_foreign_digest_refused": 10, "oci_tags_readonly": 100, "oci_tags_reopened": 10, "body_OK": 10, "body_ERR": 10, "parse_link_": 100,
		"filter_applied_": 30, "filter_referrers": 30, "limit_size_": 30,
	}
	var low []string
	for k, want := range floors {
		if got := sum(k); got < want {
			low = append(low, fmt.Sprintf("%s: %d < %d", k, got, want))
		}
	}
	if len(low) > 0 {
		sort.Strings(low)
		run.Finish()
		fmt.Fprintln(os.Stderr, "C15 harness: input streams below their coverage floor: "+strings.Join(low, "; "))
		os.Exit(3)
	}
}
