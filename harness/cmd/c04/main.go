// C04 harness: work accounting of Copy / CopyGraph (bounded in-flight operations,
// single transfer, callback counts and order, callback errors surface).  Same
// runs and traces as C01 (verifharness/copyh) with C04's oracle and a
// contention-heavy budget.
package main

import (
	_ "crypto/sha256"
	_ "crypto/sha512"

	"verifharness/copyh"
)

func main() {
	copyh.Main("C04",
		"distinct (graph, root, initial destination, mode, store pairing, K, MapRoot/platform) whose reachable part has >= 3 nodes and meets an already-present node, a shared node, a duplicate or foreign successor or a subject link",
		copyh.Budget{Main: 300, Contention: 500, Twin: 0, CbFail: 200, Mount: 200, Reps: 0},
		copyh.Budget{Main: 2000, Contention: 3000, Twin: 0, CbFail: 1200, Mount: 1000, Reps: 4, Small: true})
}
