// C04 harness: work accounting of Copy / CopyGraph (bounded in-flight operations,
// single transfer, callback counts and order, callback errors surface).  Same
// runs and traces as C01 (verifharness/copyh) with C04's oracle and a
// contention-heavy budget.
package main

import (
	_ "crypto/sha256"
	_ "crypto/sha512"

	"verifharness/copyh"
)

const rule = "distinct (graph, root, initial destination, mode, store pairing, K, MapRoot/platform) whose reachable part has >= 3 nodes and meets an already-present node, a shared node, a duplicate or foreign successor or a subject link"

var (
	quick    = copyh.Budget{Main: 300, Contention: 350, Twin: 40, TwinReach: 60, CbFail: 150, Mount: 150, Remote: 100, RootPresent: 80, Extended: 150, PlatImage: 80, Claim: 400, Reps: 0, Sched: 60, SchedReps: 4}
	thorough = copyh.Budget{Main: 2000, Contention: 1000, Twin: 200, TwinReach: 300, CbFail: 1200, Mount: 1000, Remote: 600, RootPresent: 500, Extended: 800, PlatImage: 400, Claim: 2000, Reps: 2, Small: true, Sched: 100, SchedReps: 49}
)

// main: the plain binary (no controlled schedules; bin/check builds the test binary).
func main() {
	copyh.Main("C04", rule, quick, thorough)
}
