// C01 harness: Copy / CopyGraph replicate the rooted DAG byte-for-byte and tag the
// root.  Generator, instrumented stores, trace recorder and oracles live in
// verifharness/copyh (shared with C04).
package main

import (
	_ "crypto/sha256"
	_ "crypto/sha512"

	"verifharness/copyh"
)

const rule = "distinct (graph, root, initial destination, mode, store pairing, K, MapRoot/platform) whose reachable part has >= 3 nodes and meets an already-present node, a shared node, a duplicate or foreign successor or a subject link"

var (
	quick    = copyh.Budget{Main: 600, Contention: 150, Twin: 50, CbFail: 80, Mount: 150, Remote: 150, RootPresent: 120, Extended: 100, TwinReach: 120, PlatImage: 40, Cancel: 150, Reps: 0, Sched: 60, SchedReps: 4, SchedEnum: 6, SchedEnumCap: 60}
	thorough = copyh.Budget{Main: 3200, Contention: 600, Twin: 300, CbFail: 400, Mount: 600, Remote: 600, RootPresent: 500, Extended: 400, TwinReach: 600, PlatImage: 200, Cancel: 700, Reps: 2, Small: true, Sched: 100, SchedReps: 49, SchedEnum: 40, SchedEnumCap: 350}
)

// main: the plain binary (no controlled schedules; bin/check builds the test binary).
func main() {
	copyh.Main("C01", rule, quick, thorough)
}
