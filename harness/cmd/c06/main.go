// C06 harness: the built-in Targets (memory store, OCI layout store) against a
// content map + tag map.
//
// Sequential histories: every operation's projected result is written for the
// extracted Coq model (cases.txt / impl.txt) and judged by an independent
// reference kept by this harness (plain Go maps + the DAG generator's ground
// truth).  Concurrent histories: 2-4 goroutines, invocation/response stamps from
// one atomic clock; after quiescence a sequential probe reads the whole
// observable state; the model side searches for a sequential order of the same
// operations (respecting real time) that ends in the probed state.  Every byte
// string returned by Fetch is re-hashed against the requested descriptor.
package main

import (
	"bytes"
	"context"
	_ "crypto/sha256"
	_ "crypto/sha512"
	"encoding/json"
	"errors"
	"fmt"
	"io"
	"os"
	"path/filepath"
	"sort"
	"strconv"
	"strings"
	"sync"
	"sync/atomic"
	"time"

	"github.com/opencontainers/go-digest"
	ocispec "github.com/opencontainers/image-spec/specs-go/v1"
	"oras.land/oras-go/v2/content"
	"oras.land/oras-go/v2/content/file"
	"oras.land/oras-go/v2/content/memory"
	"oras.land/oras-go/v2/content/oci"
	"oras.land/oras-go/v2/errdef"
	"verifharness/common"
	"verifharness/dag"
)

var run *common.Run

// ociAutoSave: the documented AutoSaveIndex option of the OCI store, chosen per history from its seed
var ociAutoSave = true

// storeDir: the directory of the store newStore created last (histories run one after another)
var storeDir string

// diskTok lists what is on disk after a history, in the model's terms: file store -- every regular
// file below the working directory as <path id>=<hash id>,<length>; OCI store -- every blob file as
// <digest id>=<hash id>,<length> (anything under ingest/ is a left-over temp file: id 0).
func (u *universe) diskTok(kind string) string {
	var l []string
	root := storeDir
	if kind == "oci" {
		root = filepath.Join(storeDir, "blobs")
		if ents, err := os.ReadDir(filepath.Join(storeDir, "ingest")); err == nil {
			for range ents {
				l = append(l, "0=0,0")
			}
		}
	}
	filepath.WalkDir(root, func(p string, de os.DirEntry, err error) error {
		if err != nil || !de.Type().IsRegular() {
			return nil
		}
		b, rerr := os.ReadFile(p)
		if rerr != nil {
			l = append(l, "0=0,0")
			return nil
		}
		rel, _ := filepath.Rel(root, p)
		id := 0
		if kind == "oci" {
			if dg, err := digest.Parse(filepath.Base(filepath.Dir(p)) + ":" + filepath.Base(p)); err == nil {
				id = u.dig(dg)
			}
		} else {
			for i, n := range fileNames {
				if filepath.Clean(n) == filepath.ToSlash(rel) {
					id = i + 1
					break
				}
			}
		}
		l = append(l, fmt.Sprintf("%d=%d,%d", id, u.dig(digest.FromBytes(b)), len(b)))
		return nil
	})
	sort.Strings(l)
	return "K:" + strings.Join(l, ";")
}
var ctx = context.Background()

// ---------- identities shared with the model ----------

var mtFixed = map[string]int{
	"application/octet-stream":          0,
	ocispec.MediaTypeImageManifest:      1,
	ocispec.MediaTypeImageIndex:         2,
	dag.MTDockerManifest:                3,
	dag.MTDockerManifestList:            4,
	dag.MTArtifactManifest:              5,
	ocispec.MediaTypeImageLayer:         6,
	ocispec.MediaTypeImageLayerGzip:     7,
	ocispec.MediaTypeImageConfig:        8,
	dag.MTDockerLayer:                   9,
	dag.MTDockerConfig:                  10,
	"application/vnd.verif.config.v1+json": 11,
	"application/vnd.verif.other+json":  12,
	"application/vnd.verif.variant":     13,
	ocispec.MediaTypeImageLayerNonDistributable:     14,
	ocispec.MediaTypeImageLayerNonDistributableGzip: 15,
	ocispec.MediaTypeImageLayerNonDistributableZstd: 16,
	dag.MTDockerForeignLayer:            17,
}

func isManifestMT(mt string) bool { id, ok := mtFixed[mt]; return ok && id >= 1 && id <= 5 }

var annSets = []map[string]string{nil, {"verif.a": "x"}, {"verif.a": "y", "verif.b": "z"}}

type universe struct {
	mu     sync.Mutex // dig/mt allocate ids and are called from goroutines
	g      *dag.Graph
	digID  map[digest.Digest]int
	mtDyn  map[string]int
	refs   []string
}

func newUniverse(g *dag.Graph) *universe {
	u := &universe{g: g, digID: map[digest.Digest]int{}, mtDyn: map[string]int{},
		refs: []string{"latest", "v1", "v2.0", "dev", "x_y"}}
	for _, n := range g.Nodes {
		u.dig(n.Desc.Digest)
	}
	return u
}

func (u *universe) dig(d digest.Digest) int {
	u.mu.Lock()
	defer u.mu.Unlock()
	if id, ok := u.digID[d]; ok {
		return id
	}
	id := len(u.digID) + 1
	u.digID[d] = id
	return id
}

func (u *universe) mt(s string) int {
	if id, ok := mtFixed[s]; ok {
		return id
	}
	u.mu.Lock()
	defer u.mu.Unlock()
	if id, ok := u.mtDyn[s]; ok {
		return id
	}
	id := 100 + len(u.mtDyn)
	u.mtDyn[s] = id
	return id
}

// name 5 is a second name for the path of name 1 (the model's path_of)
// name 6 leaves the working directory: resolveWritePath refuses it (the model's bad_name)
var fileNames = []string{"f1.txt", "dir/f2.bin", "f3", "dir/sub/f4.json", "./f1.txt", "../x"}

func pathOfName(name string) string { return filepath.Clean(name) }

// restoreErr: the error comes from restoreDuplicates, i.e. after the pushed content was stored
func restoreErr(err error) bool {
	return err != nil && strings.Contains(err.Error(), "failed to restore duplicated file")
}

func nameIndex(name string) int {
	for i, n := range fileNames {
		if n == name {
			return i + 1
		}
	}
	return 99
}

// annID numbers annotation sets: 8*titleIndex + base set (0 none, 1, 2); 7 = unknown.
// richFields: annotation-set id 3 stands for a descriptor that also carries ArtifactType,
// Platform and URLs (Tag must keep them, Resolve must return them)
func setRich(d *ocispec.Descriptor) {
	d.ArtifactType = "application/vnd.verif.rich"
	d.Platform = &ocispec.Platform{Architecture: "amd64", OS: "linux"}
	d.URLs = []string{"https://example.invalid/blob"}
}

func isRich(d ocispec.Descriptor) bool {
	return d.ArtifactType == "application/vnd.verif.rich" && d.Platform != nil && d.Platform.Architecture == "amd64" &&
		d.Platform.OS == "linux" && len(d.URLs) == 1 && d.URLs[0] == "https://example.invalid/blob" && len(d.Data) == 0
}

func annID(d ocispec.Descriptor) int {
	if isRich(d) {
		d.URLs, d.Platform, d.ArtifactType = nil, nil, ""
		if id := annID(d); id%8 == 0 {
			return id + 3
		}
		return 7
	}
	if len(d.URLs) > 0 || d.Platform != nil || d.ArtifactType != "" || len(d.Data) > 0 {
		return 7
	}
	title := 0
	rest := map[string]string{}
	for k, v := range d.Annotations {
		if k == ocispec.AnnotationTitle {
			title = 99
			for i, n := range fileNames {
				if n == v {
					title = i + 1
				}
			}
			continue
		}
		rest[k] = v
	}
	base := 7
	for i, a := range annSets {
		if len(a) == len(rest) {
			same := true
			for k, v := range a {
				if rest[k] != v {
					same = false
				}
			}
			if same {
				base = i
				break
			}
		}
	}
	return 8*title + base
}

func (u *universe) descTok(d ocispec.Descriptor) string {
	return fmt.Sprintf("%d,%d,%d,%d", u.mt(d.MediaType), u.dig(d.Digest), d.Size, annID(d))
}

func (u *universe) keyTok(d ocispec.Descriptor) string {
	return fmt.Sprintf("%d,%d,%d", u.mt(d.MediaType), u.dig(d.Digest), d.Size)
}

// refTok: a digest string of the universe is g<id>, "" is e, names are n<k>.
func (u *universe) refTok(r string) string {
	if r == "" {
		return "e"
	}
	for i, x := range u.refs {
		if x == r {
			return fmt.Sprintf("n%d", i+1)
		}
	}
	if id, ok := u.digID[digest.Digest(r)]; ok {
		return fmt.Sprintf("g%d", id)
	}
	return "n99"
}

// ---------- operations ----------

// Op is one operation of a history in replayable form.
type Op struct {
	K    string `json:"k"`           // P F E T R Q U D L
	Node int    `json:"n,omitempty"` // node index
	Var  int    `json:"v,omitempty"` // descriptor variant: 0 true, 1 size+1, 2 media type octet/variant
	Ann  int    `json:"a,omitempty"` // annotation set
	Ref  string `json:"r,omitempty"`
	Bad  int    `json:"b,omitempty"` // push payload: 0 true bytes, 1 other node's bytes, 2 truncated, 3 one extra byte, 4 empty
	Src  int    `json:"s,omitempty"` // other node for Bad=1
	Name int    `json:"t,omitempty"` // file store: title annotation (index into fileNames, 0 = none)
}

func (u *universe) descOf(o Op) ocispec.Descriptor {
	d := u.g.Nodes[o.Node].Desc
	switch o.Var {
	case 1:
		d.Size++
	case 2:
		if d.MediaType == "application/octet-stream" {
			d.MediaType = "application/vnd.verif.variant"
		} else {
			d.MediaType = "application/octet-stream"
		}
	}
	if o.Ann == 3 {
		setRich(&d)
		if o.Name > 0 {
			d.Annotations = map[string]string{ocispec.AnnotationTitle: fileNames[o.Name-1]}
		}
		return d
	}
	if o.Ann > 0 || o.Name > 0 {
		d.Annotations = map[string]string{}
		for k, v := range annSets[o.Ann] {
			d.Annotations[k] = v
		}
		if o.Name > 0 {
			d.Annotations[ocispec.AnnotationTitle] = fileNames[o.Name-1]
		}
	}
	return d
}

func (u *universe) payload(o Op) []byte {
	b := u.g.Nodes[o.Node].Bytes
	switch o.Bad {
	case 1:
		return u.g.Nodes[o.Src].Bytes
	case 2:
		if len(b) > 0 {
			return b[:len(b)-1]
		}
		return []byte("x")
	case 3:
		return append(append([]byte{}, b...), 'x')
	case 4:
		if len(b) == 0 {
			return []byte("y")
		}
		return []byte{}
	}
	return b
}

// linksOfBytes: successor keys of a payload = the ground truth of the node whose bytes they are.
func (u *universe) linksTok(b []byte) string {
	dg := digest.FromBytes(b)
	for _, n := range u.g.Nodes {
		if n.Desc.Digest == dg && n.IsManifest() {
			if len(n.Succ) == 0 {
				return "-"
			}
			var ks []string
			for i, s := range n.Succ {
				k := u.keyTok(u.g.Nodes[s].Desc)
				if i < len(n.SuccTitles) && n.SuccTitles[i] != "" {
					k += fmt.Sprintf("@%d", nameIndex(n.SuccTitles[i]))
				}
				ks = append(ks, k)
			}
			return strings.Join(ks, "+")
		}
	}
	return "-"
}

func (u *universe) opTok(o Op) string {
	switch o.K {
	case "P":
		b := u.payload(o)
		d := u.descOf(o)
		pre := ""
		if d.Size >= 0 && int64(len(b)) > d.Size {
			pb := b[:d.Size]
			pre = fmt.Sprintf("~%d,%s", u.dig(digest.FromBytes(pb)), u.linksTok(pb))
		}
		return fmt.Sprintf("P/%s/%d,%d,%s%s", u.descTok(d), u.dig(digest.FromBytes(b)), len(b), u.linksTok(b), pre)
	case "F", "E", "Q", "D":
		return o.K + "/" + u.descTok(u.descOf(o))
	case "T":
		return "T/" + u.descTok(u.descOf(o)) + "/" + u.refTok(o.Ref)
	case "R", "U":
		return o.K + "/" + u.refTok(o.Ref)
	}
	return "L"
}

func (o Op) String() string {
	js, _ := json.Marshal(o)
	return string(js)
}

// ---------- the stores under test ----------

type target interface {
	content.Storage
	content.TagResolver
	content.PredecessorFinder
}

type fullTarget interface {
	target
	Untag(ctx context.Context, reference string) error
	Delete(ctx context.Context, target ocispec.Descriptor) error
	Tags(ctx context.Context, last string, fn func(tags []string) error) error
}

func newStore(kind string) (target, func()) {
	switch kind {
	case "mem":
		return memory.New(), func() {}
	case "oci":
		dir, err := os.MkdirTemp("", "c06oci")
		if err != nil {
			panic(err)
		}
		storeDir = dir
		s, err := oci.New(dir)
		if err != nil {
			panic(err)
		}
		s.AutoGC = false // AutoGC / GC belong to C09
		s.AutoSaveIndex = ociAutoSave
		return s, func() { os.RemoveAll(dir) }
	}
	if strings.HasPrefix(kind, "file") && len(kind) == 6 {
		dir, err := os.MkdirTemp("", "c06file")
		if err != nil {
			panic(err)
		}
		storeDir = dir
		s, err := file.New(dir)
		if kind[4] == 'L' {
			s, err = file.NewWithFallbackLimit(dir, fallbackLimit)
		}
		if err != nil {
			panic(err)
		}
		s.IgnoreNoName = kind[4] == '1'
		s.DisableOverwrite = kind[5] == '1'
		return s, func() { s.Close(); os.RemoveAll(dir) }
	}
	panic("store kind " + kind)
}

func errTok(err error) string {
	switch {
	case err == nil:
		return "ok"
	case errors.Is(err, errdef.ErrSizeExceedsLimit):
		return "err:sizelimit"
	case errors.Is(err, errdef.ErrAlreadyExists):
		return "err:exists"
	case errors.Is(err, errdef.ErrNotFound):
		return "err:notfound"
	case errors.Is(err, errdef.ErrMissingReference):
		return "err:missingref"
	case errors.Is(err, errdef.ErrInvalidReference):
		return "err:invalidref"
	case errors.Is(err, content.ErrMismatchedDigest), errors.Is(err, content.ErrTrailingData),
		errors.Is(err, io.ErrUnexpectedEOF), errors.Is(err, io.EOF), errors.Is(err, content.ErrInvalidDescriptorSize):
		return "err:mismatch"
	case errors.Is(err, errdef.ErrUnsupported):
		return "err:unsupported"
	case errors.Is(err, file.ErrDuplicateName):
		return "err:dupname"
	case errors.Is(err, file.ErrOverwriteDisallowed):
		return "err:overwrite"
	case errors.Is(err, file.ErrPathTraversalDisallowed):
		return "err:traversal"
	}
	return "err:other(" + strings.ReplaceAll(err.Error(), " ", "_") + ")"
}

// result of one operation: the token compared with the model plus raw data for the oracle
type result struct {
	tok   string
	err   error
	bytes []byte
	desc  ocispec.Descriptor
	descs []ocispec.Descriptor
	tags  []string
	ok    bool
	tagsAfter []string // Tags(last) for the last of the operation
}

// ---------- watchdog: no case may hang ----------
// Every operation marks progress; the history in flight registers how to replay itself.  A store
// that wedges (lock bug, lost wake-up) stops the marks: after wedgeAfter the watchdog turns the
// wedge into an oracle failure with that replay and ends the run.
var (
	lastProgress atomic.Int64
	inFlight     atomic.Value // *histSpec
	wedgeAfter   = 25 * time.Second
)

func progress() { lastProgress.Store(time.Now().UnixNano()) }

func startWatchdog() {
	progress()
	go func() {
		for {
			time.Sleep(time.Second)
			if time.Since(time.Unix(0, lastProgress.Load())) < wedgeAfter {
				continue
			}
			h, _ := inFlight.Load().(*histSpec)
			rep := map[string]any{"note": "no history in flight"}
			kind := "?"
			if h != nil {
				kind = h.Kind
				rep = map[string]any{"store": h.Kind, "mode": h.Mode, "hseed": h.HSeed, "nops": h.NOps, "threads": h.Thr}
			}
			run.OracleFail(run.NewID(), "wedged", fmt.Sprintf("store=%s: no operation completed for %s (a store operation hangs)", kind, wedgeAfter), rep)
			run.Finish()
			os.Exit(0)
		}
	}()
}

func (u *universe) apply(t target, o Op) result {
	defer progress()
	switch o.K {
	case "P":
		err := t.Push(ctx, u.descOf(o), bytes.NewReader(u.payload(o)))
		return result{tok: errTok(err), err: err}
	case "F":
		rc, err := t.Fetch(ctx, u.descOf(o))
		if err != nil {
			return result{tok: errTok(err), err: err}
		}
		b, rerr := io.ReadAll(rc)
		rc.Close()
		if rerr != nil {
			return result{tok: "err:read(" + rerr.Error() + ")", err: rerr}
		}
		return result{tok: fmt.Sprintf("B:%d,%d", u.dig(digest.FromBytes(b)), len(b)), bytes: b}
	case "E":
		ok, err := t.Exists(ctx, u.descOf(o))
		if err != nil {
			return result{tok: errTok(err), err: err}
		}
		if ok {
			return result{tok: "X:1", ok: true}
		}
		return result{tok: "X:0"}
	case "T":
		err := t.Tag(ctx, u.descOf(o), o.Ref)
		return result{tok: errTok(err), err: err}
	case "R":
		d, err := t.Resolve(ctx, o.Ref)
		if err != nil {
			return result{tok: errTok(err), err: err}
		}
		return result{tok: "D:" + u.descTok(d), desc: d}
	case "Q":
		ds, err := t.Predecessors(ctx, u.descOf(o))
		if err != nil {
			return result{tok: errTok(err), err: err}
		}
		var ks []string
		for _, d := range ds {
			ks = append(ks, u.keyTok(d))
		}
		sortKeys(ks)
		return result{tok: "S:" + strings.Join(ks, ";"), descs: ds}
	case "U":
		ft, ok := t.(fullTarget)
		if !ok {
			return result{tok: "err:unsupported", err: errdef.ErrUnsupported}
		}
		err := ft.Untag(ctx, o.Ref)
		return result{tok: errTok(err), err: err}
	case "D":
		ft, ok := t.(fullTarget)
		if !ok {
			return result{tok: "err:unsupported", err: errdef.ErrUnsupported}
		}
		err := ft.Delete(ctx, u.descOf(o))
		return result{tok: errTok(err), err: err}
	case "L":
		ft, ok := t.(fullTarget)
		if !ok {
			return result{tok: "err:unsupported", err: errdef.ErrUnsupported}
		}
		var tags []string
		err := ft.Tags(ctx, "", func(ts []string) error { tags = append(tags, ts...); return nil })
		if err != nil {
			return result{tok: errTok(err), err: err}
		}
		var after []string
		if o.Ref != "" { // Tags(last): judged by the oracle only (the model's Tags takes no argument)
			if err := ft.Tags(ctx, o.Ref, func(ts []string) error { after = append(after, ts...); return nil }); err != nil {
				return result{tok: errTok(err), err: err}
			}
		}
		var rs [][2]int
		for _, s := range tags {
			rs = append(rs, refSortKey(u.refTok(s)))
		}
		sort.Slice(rs, func(i, j int) bool { return rs[i][0] < rs[j][0] || rs[i][0] == rs[j][0] && rs[i][1] < rs[j][1] })
		var toks []string
		for _, r := range rs {
			toks = append(toks, refFromKey(r))
		}
		return result{tok: "L:" + strings.Join(toks, ";"), tags: tags, tagsAfter: after}
	}
	panic("op kind " + o.K)
}

func refSortKey(tok string) [2]int {
	switch tok[0] {
	case 'n':
		n, _ := strconv.Atoi(tok[1:])
		return [2]int{0, n}
	case 'g':
		n, _ := strconv.Atoi(tok[1:])
		return [2]int{1, n}
	}
	return [2]int{2, 0}
}

func refFromKey(k [2]int) string {
	switch k[0] {
	case 0:
		return fmt.Sprintf("n%d", k[1])
	case 1:
		return fmt.Sprintf("g%d", k[1])
	}
	return "e"
}

func sortKeys(ks []string) {
	parse := func(s string) [3]int {
		var a [3]int
		for i, p := range strings.Split(s, ",") {
			a[i], _ = strconv.Atoi(p)
		}
		return a
	}
	sort.Slice(ks, func(i, j int) bool {
		a, b := parse(ks[i]), parse(ks[j])
		for x := 0; x < 3; x++ {
			if a[x] != b[x] {
				return a[x] < b[x]
			}
		}
		return false
	})
}

// ---------- the independent reference (oracle) ----------

type stored struct {
	desc    ocispec.Descriptor // as pushed
	bytes   []byte
	node    int
	noIndex bool // stored by a Push that failed afterwards (known alias finding): never indexed
}

type reference struct {
	kind    string
	u       *universe
	content map[string]stored             // mem, file fallback: media type|digest|size ; oci: digest
	tags    map[string]ocispec.Descriptor // name -> most recently tagged descriptor
	// file store
	isFile   bool
	ignore   bool
	names    map[string]bool   // file names pushed successfully
	byDigest map[string]stored // content of named files by digest
	named    []stored
	noOverwrite bool
	everTagged  map[string]bool // digests some reference has moved away from
	pathDigest  map[string]string // path -> digest of the named content written there
	digestPath  map[string]string // digest -> path of the file it is read from (digestToPath)
	clobbered   map[string]bool   // digests whose file was overwritten/removed through an aliasing name
}

func newReference(kind string, u *universe) *reference {
	r := &reference{kind: kind, u: u, content: map[string]stored{}, tags: map[string]ocispec.Descriptor{},
		names: map[string]bool{}, byDigest: map[string]stored{}, pathDigest: map[string]string{}, digestPath: map[string]string{}, clobbered: map[string]bool{}, everTagged: map[string]bool{}}
	if strings.HasPrefix(kind, "file") {
		r.isFile = true
		r.ignore = kind[4] == '1'
		r.noOverwrite = kind[5] == '1'
	}
	return r
}

// lookup: is the described content present, and with which bytes
func (r *reference) lookup(d ocispec.Descriptor) (stored, bool) {
	if r.isFile {
		if name := d.Annotations[ocispec.AnnotationTitle]; name != "" && !r.names[name] {
			return stored{}, false
		}
		if st, ok := r.byDigest[string(d.Digest)]; ok {
			return st, true
		}
	}
	st, ok := r.content[r.key(d)]
	return st, ok
}

func (r *reference) key(d ocispec.Descriptor) string {
	if r.kind == "oci" {
		return string(d.Digest)
	}
	return d.MediaType + "|" + string(d.Digest) + "|" + strconv.FormatInt(d.Size, 10)
}

func plainEq(a, b ocispec.Descriptor) bool {
	return a.MediaType == b.MediaType && a.Digest == b.Digest && a.Size == b.Size
}

func annEq(a, b ocispec.Descriptor) bool {
	if isRich(a) != isRich(b) || a.ArtifactType != b.ArtifactType || len(a.URLs) != len(b.URLs) || (a.Platform == nil) != (b.Platform == nil) {
		return false
	}
	if len(a.Annotations) != len(b.Annotations) {
		return false
	}
	for k, v := range a.Annotations {
		if b.Annotations[k] != v {
			return false
		}
	}
	return true
}

// restore replays restoreDuplicates on the reference: every titled successor of the manifest
// whose name does not exist yet and whose content is present becomes a file of that name.
// Returns the reason of the first failure ("" = none).
func (r *reference) restore(node int) string {
	nd := r.u.g.Nodes[node]
	for i, sidx := range nd.Succ {
		if i >= len(nd.SuccTitles) || nd.SuccTitles[i] == "" {
			continue
		}
		title := nd.SuccTitles[i]
		if r.names[title] {
			continue
		}
		sd := r.u.g.Nodes[sidx].Desc
		st, ok := r.lookup(sd)
		if !ok {
			continue
		}
		if title == "../x" {
			return "traversal"
		}
		path := pathOfName(title)
		if r.pathDigest[path] != "" && r.noOverwrite {
			return "overwrite"
		}
		if r.clobbered[string(sd.Digest)] {
			return "clobbered" // the file this digest points to holds other bytes: the copy does not verify
		}
		if r.digestPath[string(sd.Digest)] == path && len(st.bytes) > 0 {
			// the second name resolves to the very file the content is read from: os.Create truncates it
			r.clobbered[string(sd.Digest)] = true
			return "clobbered"
		}
		if victim := r.pathDigest[path]; victim != "" && victim != string(sd.Digest) {
			r.clobbered[victim] = true
		}
		r.names[title] = true
		r.pathDigest[path] = string(sd.Digest)
		r.digestPath[string(sd.Digest)] = path
		nd2 := sd
		nd2.Annotations = map[string]string{ocispec.AnnotationTitle: title}
		ns := stored{desc: nd2, bytes: st.bytes, node: sidx}
		r.byDigest[string(sd.Digest)] = ns
		r.named = append(r.named, ns)
	}
	return ""
}

// afterStore judges what follows a store in file.Store.Push: restoreDuplicates, graph.Index.
func (r *reference) afterStore(o Op, d ocispec.Descriptor, res result, st *stored) *failure {
	reason := ""
	if isManifestMT(d.MediaType) {
		reason = r.restore(o.Node)
	}
	if reason == "" && r.clobbered[string(d.Digest)] && res.err != nil {
		// restoring a titled successor overwrote the manifest's own file through a second name
		st.noIndex = true
		return &failure{"file-name-alias-overwrite", fmt.Sprintf("push %s => %v: a successor was restored onto the file of the manifest itself (second name for its path)", o, res.err)}
	}
	if reason == "" {
		if res.err != nil {
			return &failure{"push-refused", fmt.Sprintf("push of absent valid content %s failed: %v", o, res.err)}
		}
		return nil
	}
	if reason == "clobbered" {
		return &failure{"file-name-alias-overwrite", fmt.Sprintf("push %s => %v: a titled successor could not be restored from a file that was overwritten through a second name", o, res.err)}
	}
	// the property: a failed operation changes nothing.  Here the content is already stored and
	// indexed (and earlier successors restored) when restoreDuplicates fails.
	run.Count("file/pattern/restore-fails-" + reason)
	if !restoreErr(res.err) {
		return &failure{"restore-outcome", fmt.Sprintf("push %s: restoring the titled successors should fail (%s), got %v", o, reason, res.err)}
	}
	return &failure{"file-restore-failed-after-store", fmt.Sprintf("push %s failed (%v) after the content was stored and indexed: Exists answers true, a re-push is already-exists", o, res.err)}
}

// expectedPreds: stored manifests (stored under a manifest media type) whose successor list contains n.
func (r *reference) expectedPreds(n ocispec.Descriptor) []string {
	var out []string
	all := append([]stored{}, r.named...)
	for _, st := range r.content {
		all = append(all, st)
	}
	seen := map[string]bool{}
	for _, st := range all {
		if !isManifestMT(st.desc.MediaType) || seen[r.u.keyTok(st.desc)] || st.noIndex {
			continue
		}
		seen[r.u.keyTok(st.desc)] = true
		nd := r.u.g.Nodes[st.node]
		for _, s := range nd.Succ {
			if plainEq(r.u.g.Nodes[s].Desc, n) {
				out = append(out, r.u.keyTok(st.desc))
				break
			}
		}
	}
	sortKeys(out)
	return out
}

func isDigestRef(u *universe, ref string) bool { _, ok := u.digID[digest.Digest(ref)]; return ok }

type failure struct{ sig, msg string }

// judge evaluates the property's clauses for one operation against the reference
// state *before* the operation, then updates the reference.
func (r *reference) judge(o Op, res result) *failure {
	u := r.u
	fail := func(sig, f string, a ...any) *failure { return &failure{sig, fmt.Sprintf(f, a...)} }
	switch o.K {
	case "P":
		d := u.descOf(o)
		b := u.payload(o)
		valid := digest.FromBytes(b) == d.Digest && int64(len(b)) == d.Size
		name := d.Annotations[ocispec.AnnotationTitle]
		if r.isFile && name != "" {
			switch {
			case r.names[name]:
				if !errors.Is(res.err, file.ErrDuplicateName) {
					return fail("push-duplicate-name", "push %s under an existing name returned %v, want duplicate-name", o, res.err)
				}
			case name == "../x":
				// resolveWritePath refuses a name that leaves the working directory
				if !errors.Is(res.err, file.ErrPathTraversalDisallowed) {
					return fail("push-traversal", "push %s under a name outside the working directory returned %v", o, res.err)
				}
			case r.pathDigest[pathOfName(name)] != "" && r.noOverwrite:
				// a second name for a path that already holds a file: DisableOverwrite refuses it
				if !errors.Is(res.err, file.ErrOverwriteDisallowed) {
					return fail("push-alias-overwrite", "push %s onto an existing path with DisableOverwrite returned %v", o, res.err)
				}
			case !valid:
				if res.err == nil {
					return fail("push-invalid-accepted", "push %s with bytes not matching the descriptor was accepted", o)
				}
				if victim := r.pathDigest[pathOfName(name)]; victim != "" {
					r.clobbered[victim] = true // os.Create truncated the other name's file
				}
			default:
				if errors.Is(res.err, file.ErrOverwriteDisallowed) && r.pathDigest[pathOfName(name)] == "" && !restoreErr(res.err) {
					return fail("failed-push-left-file", "push %s refused with overwrite-disallowed: an earlier failed push left a file behind", o)
				}
				if victim := r.pathDigest[pathOfName(name)]; victim != "" && victim != string(d.Digest) {
					r.clobbered[victim] = true // the other name's file is overwritten
				}
				r.pathDigest[pathOfName(name)] = string(d.Digest)
				r.digestPath[string(d.Digest)] = pathOfName(name)
				r.names[name] = true
				st := stored{desc: d, bytes: b, node: o.Node}
				r.byDigest[string(d.Digest)] = st
				f := r.afterStore(o, d, res, &st)
				r.named = append(r.named, st)
				return f
			}
			return nil
		}
		if r.isFile && r.ignore {
			// the content is discarded; a manifest is still read and verified (to restore
			// titled successors), so bytes that do not match may be refused
			if valid && isManifestMT(d.MediaType) {
				st := stored{desc: d, bytes: b, node: o.Node, noIndex: true}
				return r.afterStore(o, d, res, &st) // nothing is stored, but the titled successors are restored
			}
			if res.err != nil && (valid || !isManifestMT(d.MediaType)) {
				return fail("push-ignored", "IgnoreNoName push %s returned %v", o, res.err)
			}
			return nil
		}
		_, present := r.content[r.key(d)]
		_, viaFile := r.byDigest[string(d.Digest)]
		switch {
		case present:
			if !errors.Is(res.err, errdef.ErrAlreadyExists) {
				return fail("push-present", "push of present content %s returned %v, want already-exists", o, res.err)
			}
		case !valid:
			if r.isFile && d.Size >= 0 && int64(len(b)) > d.Size && digest.FromBytes(b[:d.Size]) == d.Digest {
				// (whatever Push returns afterwards, the fallback storage has stored the prefix by now)
				// content.LimitedStorage cuts the reader at Size: the trailing bytes are never seen
				st := stored{desc: d, bytes: b[:d.Size], node: o.Node}
				f := r.afterStore(o, d, res, &st)
				r.content[r.key(d)] = st
				if f != nil && f.sig != "push-refused" {
					return f
				}
				return fail("file-unnamed-push-trailing-data-accepted", "unnamed push %s with trailing data was accepted by the fallback storage (fetch returns a prefix of the pushed bytes)", o)
			}
			if res.err == nil {
				return fail("push-invalid-accepted", "push %s with bytes not matching the descriptor was accepted", o)
			}
		case r.isFile && viaFile:
			// the content is present (Exists answers true through the named file), yet the
			// unnamed push goes to the fallback storage
			if errors.Is(res.err, errdef.ErrAlreadyExists) {
				return nil // refused, as the property demands
			}
			{
				// the push went to the fallback storage; restoreDuplicates / graph.Index followed
				wasClobbered := r.clobbered[string(d.Digest)]
				st := stored{desc: d, bytes: b, node: o.Node}
				f := r.afterStore(o, d, res, &st)
				r.content[r.key(d)] = st
				if f != nil && f.sig != "push-refused" {
					return f
				}
				if res.err != nil && (wasClobbered || r.clobbered[string(d.Digest)]) {
					st.noIndex = true
					r.content[r.key(d)] = st
					return fail("file-name-alias-overwrite", "unnamed push %s => %v: the file this digest points to was overwritten through a second name for its path", o, res.err)
				}
				if res.err != nil {
					return fail("push-present", "push of present content %s returned %v", o, res.err)
				}
				return fail("file-present-unnamed-push-accepted", "unnamed push %s of content already present through a named file was accepted", o)
			}
		default:
			st := stored{desc: d, bytes: b, node: o.Node}
			var f *failure
			if r.isFile {
				f = r.afterStore(o, d, res, &st)
			} else if res.err != nil {
				return fail("push-refused", "push of absent valid content %s failed: %v", o, res.err)
			}
			r.content[r.key(d)] = st
			return f
		}
	case "F":
		d := u.descOf(o)
		st, present := r.lookup(d)
		if !present {
			if !errors.Is(res.err, errdef.ErrNotFound) {
				return fail("fetch-absent", "fetch of absent %s: %s, want not-found", o, res.tok)
			}
			return nil
		}
		if r.isFile && r.clobbered[string(d.Digest)] {
			if res.err != nil || !bytes.Equal(res.bytes, st.bytes) {
				return fail("file-name-alias-overwrite", "fetch %s => %s: a push under a second name for the same path overwrote (or removed) the file this digest points to", o, res.tok)
			}
			return nil
		}
		if res.err != nil {
			return fail("fetch-present", "fetch of present %s failed: %v", o, res.err)
		}
		if !bytes.Equal(res.bytes, st.bytes) {
			return fail("fetch-bytes", "fetch %s returned bytes different from the pushed ones", o)
		}
		if digest.FromBytes(res.bytes) != d.Digest {
			return fail("fetch-digest", "fetch %s returned bytes not matching the descriptor digest", o)
		}
	case "E":
		d := u.descOf(o)
		_, present := r.lookup(d)
		if res.err != nil || res.ok != present {
			return fail("exists", "exists %s = %s, reference says %v", o, res.tok, present)
		}
	case "T":
		d := u.descOf(o)
		_, present := r.lookup(d)
		switch {
		case o.Ref == "" && (r.kind == "oci" || r.isFile):
			if !errors.Is(res.err, errdef.ErrMissingReference) {
				return fail("tag-empty", "tag with empty reference: %s", res.tok)
			}
		case r.kind == "oci" && isDigestRef(u, o.Ref) && o.Ref != string(d.Digest):
			run.Count("oci/pattern/tag-foreign-digest")
			if !errors.Is(res.err, errdef.ErrInvalidReference) {
				return fail("tag-foreign-digest", "tag %s with the digest string of other content: %s, want invalid-reference", o, res.tok)
			}
		case !present:
			if !errors.Is(res.err, errdef.ErrNotFound) {
				return fail("tag-absent", "tag of absent content %s: %s, want not-found", o, res.tok)
			}
		default:
			if res.err != nil {
				return fail("tag-present", "tag %s failed: %v", o, res.err)
			}
			if old, ok := r.tags[o.Ref]; ok && old.Digest != d.Digest {
				r.everTagged[string(old.Digest)] = true // a reference moved away from this content
			}
			r.tags[o.Ref] = d
		}
	case "R":
		if o.Ref == "" && (r.kind == "oci" || r.isFile) {
			if !errors.Is(res.err, errdef.ErrMissingReference) {
				return fail("resolve-empty", "resolve of empty reference: %s", res.tok)
			}
			return nil
		}
		if r.kind == "oci" && isDigestRef(u, o.Ref) {
			// a digest string resolves iff the content is present; digest and size must be right
			st, present := r.content[o.Ref]
			if !present {
				if !errors.Is(res.err, errdef.ErrNotFound) {
					return fail("resolve-digest-absent", "resolve %s of absent content: %s", o.Ref, res.tok)
				}
				return nil
			}
			if res.err != nil || res.desc.Digest != st.desc.Digest || res.desc.Size != st.desc.Size {
				return fail("resolve-digest", "resolve %s of present content: %s", o.Ref, res.tok)
			}
			return nil
		}
		want, tagged := r.tags[o.Ref]
		if !tagged {
			if !errors.Is(res.err, errdef.ErrNotFound) {
				return fail("resolve-untagged", "resolve of untagged %q: %s, want not-found", o.Ref, res.tok)
			}
			return nil
		}
		if res.err != nil || !plainEq(res.desc, want) || !annEq(res.desc, want) {
			return fail("resolve-latest", "resolve %q = %s, most recently tagged %s", o.Ref, res.tok, u.descTok(want))
		}
	case "Q":
		want := r.expectedPreds(u.descOf(o))
		if res.err != nil || res.tok != "S:"+strings.Join(want, ";") {
			return fail("preds", "predecessors %s = %s, want S:%s", o, res.tok, strings.Join(want, ";"))
		}
	case "U":
		if r.kind != "oci" {
			return nil
		}
		_, tagged := r.tags[o.Ref]
		switch {
		case o.Ref == "":
			if !errors.Is(res.err, errdef.ErrMissingReference) {
				return fail("untag-empty", "untag of empty reference: %s", res.tok)
			}
		case isDigestRef(u, o.Ref):
			if res.err == nil {
				return fail("untag-digest", "untag of a digest string succeeded")
			}
		case !tagged:
			if !errors.Is(res.err, errdef.ErrNotFound) {
				return fail("untag-untagged", "untag of untagged %q: %s", o.Ref, res.tok)
			}
		default:
			if res.err != nil {
				return fail("untag", "untag %q failed: %v", o.Ref, res.err)
			}
			delete(r.tags, o.Ref)
		}
	case "D":
		if r.kind != "oci" {
			return nil
		}
		d := u.descOf(o)
		_, present := r.content[r.key(d)]
		if !present {
			if !errors.Is(res.err, errdef.ErrNotFound) {
				return fail("delete-absent", "delete of absent %s: %s", o, res.tok)
			}
			return nil
		}
		if res.err != nil {
			return fail("delete", "delete of present %s failed: %v", o, res.err)
		}
		if r.everTagged[string(d.Digest)] {
			run.Count("oci/pattern/delete-after-retag")
		}
		delete(r.content, r.key(d))
		for name, td := range r.tags {
			if td.Digest == d.Digest {
				delete(r.tags, name)
			}
		}
	case "L":
		if r.kind != "oci" {
			return nil
		}
		var want []string
		for name := range r.tags {
			if !isDigestRef(u, name) {
				want = append(want, name)
			}
		}
		sort.Strings(want)
		if res.err != nil || strings.Join(res.tags, "\x00") != strings.Join(want, "\x00") {
			return fail("tags", "tags = %q, want %q", res.tags, want)
		}
		if o.Ref != "" {
			run.Count("oci/pattern/tags-last")
			var wantAfter []string
			for _, t := range want {
				if t > o.Ref {
					wantAfter = append(wantAfter, t)
				}
			}
			if strings.Join(res.tagsAfter, "\x00") != strings.Join(wantAfter, "\x00") {
				return fail("tags-last", "tags after %q = %q, want %q", o.Ref, res.tagsAfter, wantAfter)
			}
		}
	}
	return nil
}

// probeOps reads the whole observable state: every node (and its variants for
// the memory store), every reference, predecessors of every node, the tag list.
func (u *universe) probeOps(kind string) []Op {
	var ops []Op
	for i := range u.g.Nodes {
		vars := []int{0}
		if kind == "mem" || strings.HasPrefix(kind, "file") {
			vars = []int{0, 1, 2}
		}
		for _, v := range vars {
			ops = append(ops, Op{K: "E", Node: i, Var: v}, Op{K: "F", Node: i, Var: v})
		}
		if strings.HasPrefix(kind, "file") {
			cand := []int{homeName(i), (homeName(i) + 1) % 5}
			if homeName(i) == 1 {
				cand = append(cand, 5)
			}
			for _, nm := range cand {
				if nm != 0 {
					ops = append(ops, Op{K: "E", Node: i, Name: nm}, Op{K: "F", Node: i, Name: nm})
				}
			}
		}
		ops = append(ops, Op{K: "Q", Node: i})
	}
	for _, r := range u.refs {
		ops = append(ops, Op{K: "R", Ref: r})
	}
	if kind == "oci" {
		for _, n := range u.g.Nodes {
			ops = append(ops, Op{K: "R", Ref: string(n.Desc.Digest)})
		}
		ops = append(ops, Op{K: "L"})
	} else {
		ops = append(ops, Op{K: "R", Ref: ""})
		for _, n := range u.g.Nodes {
			ops = append(ops, Op{K: "R", Ref: string(n.Desc.Digest)})
		}
	}
	return ops
}

// ---------- generation ----------

// homeName: the file name a node is usually pushed under (0 = unnamed, goes to the fallback storage)
func homeName(node int) int { return node % 5 }

func genUniverse(r *common.Rand, kind string, small bool) *universe {
	o := dag.DefaultOptions()
	o.MinNodes, o.MaxNodes = 4, 12
	if small {
		o.MinNodes, o.MaxNodes = 3, 6
	}
	o.Foreign = false
	o.Twins = false
	o.MaxBlob = 48
	if strings.HasPrefix(kind, "file") && !small {
		// manifests whose layer entries carry titles: restoreDuplicates creates those files.
		// Sequential histories only: Push = store ; restoreDuplicates ; graph.Index is not atomic, and
		// with titled successors a concurrent Tag/Push can fall between the store and the restore
		// (observed: final states no sequential order produces) -- see level_note.
		o.LayerTitles = []string{"f1.txt", "dir/f2.bin", "f3", "dir/sub/f4.json", "f3", "dir/f2.bin", "../x", "./f1.txt"}
	}
	return newUniverse(dag.Random(r, o))
}

// hint is the generator's own guess of what has been pushed / tagged so far (it only
// steers the distribution; the oracle does not use it).
type hint struct {
	pushed  []int
	tagged  []string
	lastTag map[string]int // reference -> node it was tagged to last
	moved   []int          // nodes that lost a reference to another node (re-tag)
}

func genOp(r *common.Rand, u *universe, kind string, h *hint) Op {
	n := len(u.g.Nodes)
	node := r.Intn(n)
	o := Op{}
	ref := func() string {
		x := r.Intn(20)
		switch {
		case x == 0:
			return ""
		case x <= 2:
			return string(u.g.Nodes[r.Intn(n)].Desc.Digest)
		case x <= 12 && len(h.tagged) > 0:
			return common.Pick(r, h.tagged)
		}
		return common.Pick(r, u.refs)
	}
	likelyPresent := func() {
		if len(h.pushed) > 0 && r.Chance(3, 4) {
			node = common.Pick(r, h.pushed)
		}
	}
	w := r.Intn(100)
	full := kind == "oci"
	if strings.HasPrefix(kind, "file") && w >= 30 && w < 36 {
		w = 0 // more pushes: names make many of them fail
	}
	switch {
	case w < 30:
		o.K = "P"
		if r.Chance(1, 8) {
			o.Bad = 1 + r.Intn(4)
			if o.Bad == 1 {
				o.Src = r.Intn(n)
				if o.Src == node {
					o.Bad = 3
				}
			}
		}
		if r.Chance(1, 6) {
			o.Ann = 1 + r.Intn(2)
		}
	case w < 42:
		o.K = "F"
		likelyPresent()
	case w < 48:
		o.K = "E"
	case w < 66:
		o.K = "T"
		likelyPresent()
		if r.Chance(1, 3) {
			o.Ann = 1 + r.Intn(3)
		}
		x := r.Intn(20)
		switch {
		case x == 0:
			o.Ref = ""
		case x <= 2:
			o.Ref = string(u.g.Nodes[node].Desc.Digest) // its own digest string
		case x == 3 && kind == "oci":
			// another node's digest string: Store.Tag must refuse it (a digest addresses content)
			o.Ref = string(u.g.Nodes[r.Intn(n)].Desc.Digest)
		default:
			o.Ref = common.Pick(r, u.refs)
			if len(h.tagged) > 0 && r.Chance(1, 2) {
				// re-tag a name (never a digest string: that would be another node's digest)
				if c := common.Pick(r, h.tagged); !strings.HasPrefix(c, "sha256:") {
					o.Ref = c
				}
			}
		}
	case w < 78:
		o.K = "R"
		o.Ref = ref()
	case w < 86 || !full:
		o.K = "Q"
	case w < 91:
		o.K = "U"
		o.Ref = ref()
	case w < 98:
		o.K = "D"
		likelyPresent()
		if len(h.moved) > 0 && r.Chance(1, 2) {
			node = common.Pick(r, h.moved) // delete content whose reference has moved on
		}
	default:
		o.K = "L"
		if r.Chance(2, 3) {
			o.Ref = common.Pick(r, u.refs) // Tags(last)
		}
	}
	o.Node = node
	isFile := strings.HasPrefix(kind, "file")
	if (kind == "mem" || isFile) && o.K != "Q" && r.Chance(1, 10) {
		o.Var = 1 + r.Intn(2)
	}
	if kind == "oci" && (o.K == "F" || o.K == "E" || o.K == "T" || o.K == "D") && !u.g.Nodes[node].IsManifest() &&
		u.g.Nodes[node].Desc.MediaType != "application/octet-stream" && r.Chance(1, 8) {
		// the descriptor the store itself hands out for a plain blob: Resolve(<digest>) reports
		// application/octet-stream (resolveBlob), whatever media type the blob was pushed with
		o.Var = 2
	}
	if isFile && (o.K == "P" || o.K == "F" || o.K == "E" || o.K == "T") {
		o.Name = homeName(node)
		if r.Chance(1, 4) {
			o.Name = r.Intn(7) // includes the aliasing name 5 and the refused name 6 now and then
		}
	}
	switch {
	case o.K == "P" && o.Bad == 0 && o.Var != 1:
		h.pushed = append(h.pushed, node)
	case o.K == "T" && o.Ref != "":
		h.tagged = append(h.tagged, o.Ref)
		if h.lastTag == nil {
			h.lastTag = map[string]int{}
		}
		if p, ok := h.lastTag[o.Ref]; ok && p != node {
			h.moved = append(h.moved, p)
		}
		h.lastTag[o.Ref] = node
	}
	return o
}

type histSpec struct {
	Kind  string `json:"store"`
	Mode  string `json:"mode"` // seq | conc
	HSeed uint64 `json:"hseed"`
	NOps  int    `json:"nops"`
	Thr   int    `json:"threads,omitempty"`
}

// ---------- sequential histories ----------

func seqHistory(h histSpec) {
	hh := h
	inFlight.Store(&hh)
	progress()
	ociAutoSave = h.HSeed%3 != 0
	if h.Kind == "oci" {
		run.Count(fmt.Sprintf("oci/AutoSaveIndex=%v", ociAutoSave))
	}
	r := common.NewRand(h.HSeed)
	u := genUniverse(r, h.Kind, false)
	var ops []Op
	hn := &hint{}
	for i := 0; i < h.NOps; i++ {
		ops = append(ops, genOp(r, u, h.Kind, hn))
	}
	t, cleanup := newStore(h.Kind)
	defer cleanup()
	ref := newReference(h.Kind, u)
	id := run.NewID()
	var toks, outs, shown []string
	reported := map[string]bool{}
	tainted := false
	report := func(f *failure, step int) {
		if reported[f.sig] || len(reported) >= 4 {
			return // each clause once per history
		}
		reported[f.sig] = true
		run.OracleFail(id, f.sig, fmt.Sprintf("store=%s step=%d: %s", h.Kind, step, f.msg),
			map[string]any{"store": h.Kind, "mode": "seq", "hseed": h.HSeed, "nops": h.NOps, "step": step, "history": shown})
	}
	exec := func(o Op, step int) result {
		res := u.apply(t, o)
		toks = append(toks, u.opTok(o))
		outs = append(outs, res.tok)
		shown = append(shown, o.String()+" => "+res.tok)
		run.Count(h.Kind + "/" + o.K + "/" + strings.SplitN(res.tok, ":", 2)[0] + func() string {
			if strings.HasPrefix(res.tok, "err:") {
				return ":" + strings.SplitN(res.tok[4:], "(", 2)[0]
			}
			return ""
		}())
		if len(ref.clobbered) > 0 {
			// a file was overwritten through a second name for its path (known finding): from here on
			// the reference no longer describes this store; only the mechanism itself is still judged
			// (a fetch of a clobbered digest), everything else of this history is left to the
			// model/implementation correspondence
			if !tainted {
				tainted = true
				run.Count("file/alias-tainted-histories")
			}
			if o.K == "F" && ref.clobbered[string(u.descOf(o).Digest)] {
				if f := ref.judge(o, res); f != nil && f.sig == "file-name-alias-overwrite" {
					report(f, step)
				}
			}
			return res
		}
		if f := ref.judge(o, res); f != nil {
			report(f, step)
		}
		return res
	}
	probe := u.probeOps(h.Kind)
	readBack := func() *failure {
		if len(ref.clobbered) > 0 {
			return nil
		}
		for _, p := range probe {
			pr := u.apply(t, p)
			if f := ref.judge(p, pr); f != nil {
				return f
			}
		}
		return nil
	}
	for i, o := range ops {
		// every third operation: read the whole state back before and after; a difference that
		// appears across a refused/failed operation is reported as such
		sampled := i%run.Scale(3, 10) == 0 || i == len(ops)-1
		if sampled {
			if f := readBack(); f != nil {
				report(&failure{f.sig, fmt.Sprintf("state read back before step %d: %s", i, f.msg)}, i)
			}
		}
		res := exec(o, i)
		if sampled && res.err != nil {
			if f := readBack(); f != nil {
				report(&failure{"failed-op-changed-state", fmt.Sprintf("after failed %s => %s: %s", o, res.tok, f.msg)}, i)
			}
		}
	}
	for _, p := range probe {
		exec(p, len(ops))
	}
	if h.Kind != "mem" && !tainted {
		// on-disk observable: the files below the store directory are the ones the model expects
		// (no left-over partial or temp file, no missing file, bytes of the right digest)
		toks = append(toks, "K")
		outs = append(outs, u.diskTok(h.Kind))
		run.Count(h.Kind + "/disk-compared")
	}
	canon := h.Kind + " " + strings.Join(toks[:len(ops)], " ")
	run.Case(id, "seq "+h.Kind+" "+strings.Join(toks, " ")+fmt.Sprintf(" #%s:seq:%d:%d", h.Kind, h.HSeed, h.NOps), strings.Join(outs, "|"))
	run.Nontrivial(canon)
	run.Sample(map[string]any{"store": h.Kind, "graph": u.g.Describe(), "history": shown[:min(len(shown), 12)]})
}

// ---------- concurrent histories ----------

type event struct {
	th, inv, resp int
	op            Op
	res           result
}

func concHistory(h histSpec) {
	hh := h
	inFlight.Store(&hh)
	progress()
	r := common.NewRand(h.HSeed)
	u := genUniverse(r, h.Kind, true)
	threads := make([][]Op, h.Thr)
	hn := &hint{}
	for i := 0; i < h.NOps; i++ {
		o := genOp(r, u, h.Kind, hn)
		if o.K == "Q" || o.K == "E" || o.K == "L" {
			o = genOp(r, u, h.Kind, hn) // bias towards state-changing operations
		}
		if o.Name == 5 {
			o.Name = 1 // two names for one path race on the file itself (known finding): not mixed into the concurrency check
		}
		k := r.Intn(h.Thr)
		threads[k] = append(threads[k], o)
	}
	t, cleanup := newStore(h.Kind)
	defer cleanup()
	var clock atomic.Int64
	var mu sync.Mutex
	var evs []event
	var wg sync.WaitGroup
	start := make(chan struct{})
	for k := range threads {
		wg.Add(1)
		go func(k int) {
			defer wg.Done()
			<-start
			for _, o := range threads[k] {
				inv := int(clock.Add(1))
				res := u.apply(t, o)
				resp := int(clock.Add(1))
				mu.Lock()
				evs = append(evs, event{k, inv, resp, o, res})
				mu.Unlock()
			}
		}(k)
	}
	close(start)
	wg.Wait()
	sort.Slice(evs, func(i, j int) bool { return evs[i].inv < evs[j].inv })
	id := run.NewID()
	var shown, toks []string
	failed := false
	report := func(sig, msg string) {
		if failed {
			return
		}
		failed = true
		run.OracleFail(id, sig, fmt.Sprintf("store=%s concurrent: %s", h.Kind, msg),
			map[string]any{"store": h.Kind, "mode": "conc", "hseed": h.HSeed, "nops": h.NOps, "threads": h.Thr, "history": shown})
	}
	for _, e := range evs {
		shown = append(shown, fmt.Sprintf("t%d[%d,%d] %s => %s", e.th, e.inv, e.resp, e.op, e.res.tok))
		toks = append(toks, fmt.Sprintf("%d:%d:%d:%s=%s", e.th, e.inv, e.resp, u.opTok(e.op), e.res.tok))
		run.Count("conc-" + h.Kind + "/" + e.op.K)
		// no operation ever returns bytes that do not match its descriptor
		if e.op.K == "F" && e.res.err == nil {
			d := u.descOf(e.op)
			if digest.FromBytes(e.res.bytes) != d.Digest {
				report("conc-fetch-digest", fmt.Sprintf("fetch %s returned bytes not matching its descriptor", e.op))
			}
		}
		if strings.HasPrefix(e.res.tok, "err:other") || strings.HasPrefix(e.res.tok, "err:read") {
			report("conc-unexpected-error", fmt.Sprintf("%s => %s", e.op, e.res.tok))
		}
	}
	// the commit of a push is one atomic LoadOrStore on the memory store and on the file store's
	// fallback: at most one push of a key may succeed
	if h.Kind == "mem" || strings.HasPrefix(h.Kind, "file0") {
		okPush := map[string]int{}
		for _, e := range evs {
			if e.op.K == "P" && e.res.err == nil && (h.Kind == "mem" || e.op.Name == 0) {
				okPush[u.keyTok(u.descOf(e.op))]++
			}
		}
		for k, n := range okPush {
			if n > 1 {
				report("race-double-push-success", fmt.Sprintf("%d pushes of key %s succeeded", n, k))
			}
		}
	}
	// quiescent state, read sequentially
	base := int(clock.Load()) + 1
	var ptoks []string
	probe := u.probeOps(h.Kind)
	present := map[string]bool{}
	presentKey := map[string]bool{}
	for i, p := range probe {
		res := u.apply(t, p)
		ptoks = append(ptoks, fmt.Sprintf("9:%d:%d:%s=%s", base+2*i, base+2*i+1, u.opTok(p), res.tok))
		if p.K == "F" && res.err == nil {
			d := u.descOf(p)
			present[string(d.Digest)] = true
			presentKey["dig:"+string(d.Digest)] = true
			presentKey[u.keyTok(d)] = true
			if digest.FromBytes(res.bytes) != d.Digest {
				report("conc-final-fetch-digest", fmt.Sprintf("after quiescence fetch %s returned bytes not matching its descriptor", p))
			}
		}
		if p.K == "R" && res.err == nil && !present[string(res.desc.Digest)] && h.Kind == "oci" {
			report("conc-final-dangling-tag", fmt.Sprintf("after quiescence %q resolves to absent content", p.Ref))
		}
	}
	// independent clause: content present at the end was validly pushed by someone, content
	// validly pushed and never deleted is present.  Keys: digest where the store finds content
	// by digest (OCI, named files), the full descriptor key otherwise.
	ckey := func(o Op) string {
		d := u.descOf(o)
		if h.Kind == "oci" || (strings.HasPrefix(h.Kind, "file") && o.Name > 0) {
			return "dig:" + string(d.Digest)
		}
		return u.keyTok(d)
	}
	pushedDig, pushed, deleted := map[string]bool{}, map[string]bool{}, map[string]bool{}
	for _, e := range evs {
		d := u.descOf(e.op)
		if e.op.K == "P" && (e.res.err == nil || restoreErr(e.res.err)) && !(strings.HasPrefix(h.Kind, "file1") && e.op.Name == 0) {
			pushed[ckey(e.op)] = true
			pushedDig[string(d.Digest)] = true
		}
		if e.op.K == "D" {
			deleted["dig:"+string(d.Digest)] = true
		}
	}
	for dg := range present {
		if !pushedDig[dg] {
			report("conc-final-unpushed", "content present at quiescence that no successful push delivered: "+dg)
		}
	}
	for k := range pushed {
		if !presentKey[k] && !deleted[k] {
			report("conc-final-lost", "content pushed successfully, never deleted, absent at quiescence: "+k)
		}
	}
	diskTok := ""
	if h.Kind != "mem" {
		// on-disk observable at quiescence: the order found must end with exactly these files
		diskTok = " K=" + strings.TrimPrefix(u.diskTok(h.Kind), "K:")
		run.Count("conc-" + h.Kind + "/disk-compared")
	}
	run.Case(id, fmt.Sprintf("lin %s %d %s %s%s #%s:conc:%d:%d:%d", h.Kind, len(probe), strings.Join(toks, " "), strings.Join(ptoks, " "), diskTok,
		h.Kind, h.HSeed, h.NOps, h.Thr), "LIN ok")
	run.Nontrivial("conc " + h.Kind + " " + strings.Join(toks, " "))
	if run.Rand.Chance(1, 20) {
		run.Sample(map[string]any{"store": h.Kind, "mode": "conc", "history": shown})
	}
}

// gate releases its readers when all of them have started reading (or after a timeout: an
// implementation that returns before reading must not hang the others).
type gate struct {
	mu      sync.Mutex
	arrived int
	want    int
	ch      chan struct{}
}

func newGate(n int) *gate { return &gate{want: n, ch: make(chan struct{})} }

func (g *gate) wait() {
	g.mu.Lock()
	g.arrived++
	if g.arrived == g.want {
		close(g.ch)
	}
	g.mu.Unlock()
	select {
	case <-g.ch:
	case <-time.After(30 * time.Millisecond):
	}
}

type gatedReader struct {
	r    io.Reader
	g    *gate
	once sync.Once
}

func (gr *gatedReader) Read(p []byte) (int, error) {
	gr.once.Do(gr.g.wait)
	return gr.r.Read(p)
}

// raceRound: several goroutines push the SAME descriptor at the same moment, their readers
// held back until every one of them is inside Push.  Exactly one push may succeed on the
// stores whose commit is an atomic LoadOrStore (memory store, file-store fallback).
func raceRound(h histSpec) {
	hh := h
	inFlight.Store(&hh)
	progress()
	r := common.NewRand(h.HSeed)
	u := genUniverse(r, h.Kind, true)
	t, cleanup := newStore(h.Kind)
	defer cleanup()
	id := run.NewID()
	var shown, toks []string
	reported := false
	report := func(sig, msg string) {
		if reported {
			return
		}
		reported = true
		run.OracleFail(id, sig, fmt.Sprintf("store=%s race: %s", h.Kind, msg),
			map[string]any{"store": h.Kind, "mode": "race", "hseed": h.HSeed, "nops": h.NOps, "threads": h.Thr, "history": shown})
	}
	var clock atomic.Int64
	base := 0
	for round := 0; round < h.NOps; round++ {
		node := r.Intn(len(u.g.Nodes))
		o := Op{K: "P", Node: node}
		if r.Chance(1, 5) {
			o.Ann = 1 + r.Intn(2)
		}
		g := newGate(h.Thr)
		evs := make([]event, h.Thr)
		var wg sync.WaitGroup
		for k := 0; k < h.Thr; k++ {
			wg.Add(1)
			go func(k int) {
				defer wg.Done()
				inv := int(clock.Add(1))
				err := t.Push(ctx, u.descOf(o), &gatedReader{r: bytes.NewReader(u.payload(o)), g: g})
				progress()
				resp := int(clock.Add(1))
				evs[k] = event{k, inv, resp, o, result{tok: errTok(err), err: err}}
			}(k)
		}
		wg.Wait()
		okn := 0
		for _, e := range evs {
			shown = append(shown, fmt.Sprintf("round %d t%d[%d,%d] %s => %s", round, e.th, e.inv, e.resp, e.op, e.res.tok))
			toks = append(toks, fmt.Sprintf("%d:%d:%d:%s=%s", e.th, e.inv, e.resp, u.opTok(e.op), e.res.tok))
			if e.res.err == nil || restoreErr(e.res.err) {
				okn++ // stored (restoreDuplicates may fail afterwards: known finding)
			} else if !errors.Is(e.res.err, errdef.ErrAlreadyExists) {
				report("race-unexpected-error", fmt.Sprintf("%s => %s", e.op, e.res.tok))
			}
		}
		run.Count(fmt.Sprintf("race-%s/successes=%d", h.Kind, okn))
		if okn > 1 && h.Kind == "oci" {
			// os.Rename replaces an existing blob file on POSIX systems (the comment in storage.go expects
			// a permission error): every racing push of the same descriptor succeeds
			report("oci-racing-pushes-all-succeed", fmt.Sprintf("%d concurrent pushes of the same descriptor %s all succeeded", okn, o))
		}
		if okn > 1 && h.Kind != "oci" {
			report("race-double-push-success", fmt.Sprintf("%d concurrent pushes of the same descriptor %s all succeeded: pushing content that is already present must be refused", okn, o))
		}
		base = int(clock.Load())
	}
	var ptoks []string
	probe := u.probeOps(h.Kind)
	for i, p := range probe {
		res := u.apply(t, p)
		ptoks = append(ptoks, fmt.Sprintf("9:%d:%d:%s=%s", base+1+2*i, base+2+2*i, u.opTok(p), res.tok))
	}
	run.Case(id, fmt.Sprintf("lin %s %d %s %s #%s:race:%d:%d:%d", h.Kind, len(probe), strings.Join(toks, " "), strings.Join(ptoks, " "),
		h.Kind, h.HSeed, h.NOps, h.Thr), "LIN ok")
	run.Nontrivial("race " + h.Kind + " " + strings.Join(toks, " "))
}

func min(a, b int) int {
	if a < b {
		return a
	}
	return b
}

// titledRestoreRounds: a directed concurrent scenario on the file store WITH a titled successor.
// Goroutine A pushes a manifest M under the name "dir/f2.bin" whose layer entry is titled "f1.txt";
// goroutine B pushes M again under the same name and, once that is refused with duplicate-name
// (M's store step is over), pushes the layer.  Push = store ; graph.Index ; restoreDuplicates:
// when A's restore step runs after B's layer push, "f1.txt" is created -- a quiescent state no
// sequential order of the three operations reaches (whichever manifest push comes first is
// stored while the layer is absent; the other one is refused and restores nothing).
func titledRestoreRounds(h histSpec) {
	hh := h
	inFlight.Store(&hh)
	r := common.NewRand(h.HSeed)
	for round := 0; round < h.NOps; round++ {
		progress()
		layer := []byte(fmt.Sprintf("layer-%d-%d", h.HSeed, r.Intn(1<<30)))
		ld := ocispec.Descriptor{MediaType: ocispec.MediaTypeImageLayer, Digest: digest.FromBytes(layer), Size: int64(len(layer))}
		titled := ld
		titled.Annotations = map[string]string{ocispec.AnnotationTitle: "f1.txt"}
		cfg := []byte("{}")
		cd := ocispec.Descriptor{MediaType: ocispec.MediaTypeImageConfig, Digest: digest.FromBytes(cfg), Size: int64(len(cfg))}
		mb, _ := json.Marshal(ocispec.Manifest{MediaType: ocispec.MediaTypeImageManifest, Config: cd, Layers: []ocispec.Descriptor{titled}})
		md := ocispec.Descriptor{MediaType: ocispec.MediaTypeImageManifest, Digest: digest.FromBytes(mb), Size: int64(len(mb)),
			Annotations: map[string]string{ocispec.AnnotationTitle: "dir/f2.bin"}}
		md2 := md
		md2.Annotations = map[string]string{ocispec.AnnotationTitle: "dir/f2.bin", "x": "y"}
		t, cleanup := newStore("file00")
		var errA, errB1, errB2 error
		pushedLayer := false
		var wg sync.WaitGroup
		start := make(chan struct{})
		wg.Add(2)
		go func() {
			defer wg.Done()
			defer progress()
			<-start
			errA = t.Push(ctx, md, bytes.NewReader(mb))
		}()
		go func() {
			defer wg.Done()
			defer progress()
			<-start
			for i := 0; i < 1000; i++ {
				errB1 = t.Push(ctx, md2, bytes.NewReader(mb))
				if errB1 == nil || errors.Is(errB1, file.ErrDuplicateName) {
					break
				}
			}
			if errors.Is(errB1, file.ErrDuplicateName) {
				errB2 = t.Push(ctx, ld, bytes.NewReader(layer))
				pushedLayer = true
			}
		}()
		close(start)
		wg.Wait()
		restored, _ := t.Exists(ctx, titled)
		run.Count("file00/titled-restore-round")
		if errA == nil && pushedLayer && errB2 == nil {
			run.Count("file00/titled-restore-round/A-first")
			if restored {
				id := run.NewID()
				run.OracleFail(id, "file-conc-titled-restore-not-serialisable",
					fmt.Sprintf("store=file00 concurrent: Push(manifest as dir/f2.bin) => nil || Push(same manifest as dir/f2.bin) => duplicate name ; Push(layer) => nil : at quiescence the layer's title f1.txt exists (restored by the first push from the layer pushed after it was stored) -- no sequential order of the three pushes creates it"),
					map[string]any{"store": "file00", "mode": "titledrace", "hseed": h.HSeed, "nops": 4000, "threads": 2})
				cleanup()
				return // once per call
			}
		}
		cleanup()
	}
}

// fallbackLimit: the push limit of the fallback storage of store kind "fileL0"
// (file.NewWithFallbackLimit); layers of the universes are smaller, most manifests larger.
const fallbackLimit = 400

// limitHistory: a sequential history on a file store with a fallback push limit.  Every result is
// compared with the model (Model/StoresFileLimit.v); independently of the model: an unnamed push
// whose descriptor size exceeds the limit is refused with ErrSizeExceedsLimit and changes nothing
// that can be read back, and nothing else ever reports that error.
func limitHistory(h histSpec) {
	hh := h
	inFlight.Store(&hh)
	progress()
	r := common.NewRand(h.HSeed)
	u := genUniverse(r, h.Kind, false)
	var ops []Op
	hn := &hint{}
	for i := 0; i < h.NOps; i++ {
		ops = append(ops, genOp(r, u, h.Kind, hn))
	}
	t, cleanup := newStore(h.Kind)
	defer cleanup()
	id := run.NewID()
	var toks, outs, shown []string
	failed := false
	report := func(sig, msg string, step int) {
		if failed {
			return
		}
		failed = true
		run.OracleFail(id, sig, fmt.Sprintf("store=%s step=%d: %s", h.Kind, step, msg),
			map[string]any{"store": h.Kind, "mode": "lim", "hseed": h.HSeed, "nops": h.NOps, "step": step, "history": shown})
	}
	probe := u.probeOps(h.Kind)
	snapshot := func() string {
		var l []string
		for _, p := range probe {
			l = append(l, u.apply(t, p).tok)
		}
		return strings.Join(l, "|")
	}
	for i, o := range ops {
		over := false
		before := ""
		if o.K == "P" {
			d := u.descOf(o)
			over = d.Annotations[ocispec.AnnotationTitle] == "" && d.Size > fallbackLimit
			if over && i%3 == 0 {
				before = snapshot()
			}
		}
		res := u.apply(t, o)
		toks = append(toks, u.opTok(o))
		outs = append(outs, res.tok)
		shown = append(shown, o.String()+" => "+res.tok)
		run.Count(h.Kind + "/" + o.K + "/" + strings.SplitN(res.tok, ":", 2)[0])
		switch {
		case over && res.tok != "err:sizelimit":
			report("limit-not-enforced", fmt.Sprintf("unnamed push %s of a descriptor larger than the fallback limit %d => %s", o, fallbackLimit, res.tok), i)
		case over:
			run.Count(h.Kind + "/pattern/over-limit-refused")
			if before != "" && snapshot() != before {
				report("failed-op-changed-state", fmt.Sprintf("after refused oversized push %s the state read back differs", o), i)
			}
		case res.tok == "err:sizelimit":
			report("limit-spurious", fmt.Sprintf("%s => size exceeds limit, but it is not an unnamed push above the limit", o), i)
		}
	}
	for _, p := range probe {
		res := u.apply(t, p)
		toks = append(toks, u.opTok(p))
		outs = append(outs, res.tok)
	}
	run.Case(id, "seq "+h.Kind+" "+strings.Join(toks, " ")+fmt.Sprintf(" #%s:lim:%d:%d", h.Kind, h.HSeed, h.NOps), strings.Join(outs, "|"))
	run.Nontrivial(h.Kind + " " + strings.Join(toks[:len(ops)], " "))
}

func main() {
	run = common.Start("C06")
	defer run.Finish()
	startWatchdog()
	run.Rule = "distinct operation histories (store kind + operation tokens); every history mixes pushes (valid, repeated, mismatching), tags, re-tags, resolves, missing content and empty references"
	if run.Replay != "" {
		for _, c := range common.ReadReplay(run.Replay) {
			var h histSpec
			h.Kind = c["store"]
			h.Mode = c["mode"]
			h.HSeed, _ = strconv.ParseUint(c["hseed"], 10, 64)
			h.NOps, _ = strconv.Atoi(c["nops"])
			h.Thr, _ = strconv.Atoi(c["threads"])
			if h.Kind == "" || h.NOps == 0 {
				continue
			}
			if h.Mode == "titledrace" {
				titledRestoreRounds(h)
			} else if h.Mode == "lim" {
				limitHistory(h)
			} else if h.Mode == "race" {
				if h.Thr == 0 {
					h.Thr = 2
				}
				for i := 0; i < 5; i++ {
					raceRound(h)
				}
			} else if h.Mode == "conc" {
				if h.Thr == 0 {
					h.Thr = 2
				}
				for i := 0; i < 20; i++ { // schedules vary: repeat
					concHistory(h)
				}
			} else {
				seqHistory(h)
			}
		}
		return
	}
	nseq := run.Scale(1000, 8000)
	nops := run.Scale(25, 60)
	nconc := run.Scale(300, 6000)
	for _, kind := range []string{"mem", "oci", "file00", "file01", "file10", "file11"} {
		nseq, nconc := nseq, nconc
		if kind == "file10" || kind == "file11" {
			nseq, nconc = nseq/4, nconc/4
		}
		for i := 0; i < nseq; i++ {
			seqHistory(histSpec{Kind: kind, Mode: "seq", HSeed: run.Rand.U64() >> 12, NOps: nops})
		}
		if kind == "mem" || kind == "file00" || kind == "oci" {
			for i := 0; i < run.Scale(60, 1500); i++ {
				raceRound(histSpec{Kind: kind, Mode: "race", HSeed: run.Rand.U64() >> 12, NOps: 3 + run.Rand.Intn(3), Thr: 2 + run.Rand.Intn(3)})
			}
		}
		for i := 0; i < nconc; i++ {
			thr := 2 + run.Rand.Intn(3)
			concHistory(histSpec{Kind: kind, Mode: "conc", HSeed: run.Rand.U64() >> 12, NOps: 6 + run.Rand.Intn(6), Thr: thr})
		}
	}
	for i := 0; i < nseq/5; i++ {
		limitHistory(histSpec{Kind: "fileL0", Mode: "lim", HSeed: run.Rand.U64() >> 12, NOps: nops})
	}
	for i := 0; i < run.Scale(4, 20); i++ {
		titledRestoreRounds(histSpec{Kind: "file00", Mode: "titledrace", HSeed: run.Rand.U64() >> 12, NOps: 150, Thr: 2})
	}
	// coverage floors: a run in which a stream or a pattern the check relies on did not occur is a
	// failure of the run (layer R), not a silent pass
	floors := map[string]int{
		"mem/P/ok": 100, "oci/P/ok": 100, "file00/P/ok": 100, "file01/P/ok": 100, "file10/P/ok": 20, "file11/P/ok": 20,
		"oci/D/ok": 20, "oci/U/ok": 5, "oci/L/L": 20, "oci/pattern/delete-after-retag": 5, "oci/pattern/tags-last": 10, "oci/pattern/tag-foreign-digest": 5,
		"oci/AutoSaveIndex=false": 20, "oci/AutoSaveIndex=true": 20,
		"file/pattern/restore-fails-traversal": 3, "file/alias-tainted-histories": 5,
		"race-mem/successes=1": 20, "race-file00/successes=1": 20, "conc-mem/P": 50, "conc-oci/P": 50, "conc-file00/P": 50,
		"file00/titled-restore-round": 4, "fileL0/pattern/over-limit-refused": 30, "fileL0/P/ok": 30, "oci/disk-compared": 100, "file00/disk-compared": 100, "file01/disk-compared": 100,
		"conc-mem/F": 50, "conc-oci/F": 50, "conc-oci/E": 5, "conc-oci/R": 50, "conc-file00/F": 30, "conc-file00/R": 50,
		"mem/R/D": 50, "oci/R/D": 50, "file00/R/D": 20,
	}
	var missing []string
	for k, min := range floors {
		if run.Dist[k] < min {
			missing = append(missing, fmt.Sprintf("%s=%d<%d", k, run.Dist[k], min))
		}
	}
	if len(missing) > 0 {
		sort.Strings(missing)
		run.Finish()
		fmt.Fprintln(os.Stderr, "coverage floor not reached: "+strings.Join(missing, " "))
		os.Exit(3)
	}
}
