// C11 harness: the file store never writes outside its working directory by default.
//
// The harness chroots into its run directory (-dir), so every path it generates,
// including absolute ones and anything reached by an escaping "..", stays below the
// run directory.  Inside the chroot the layout is
//
//	/sb/s0/s1/s2/s3/wd     the store's working directory
//	/sb/s0/s1/s2/s3/cwd    the process's current directory (decoy files)
//	/sb/...                decoy files and directories at every level
//
// Per case: build the pre-populated tree, run a sequence of Store.Push calls (named
// blobs and tar+gzip blobs marked for unpacking), and record
//   - cases.txt: the case for the Coq model (same strings, hex encoded),
//   - impl.txt : push verdicts + a listing of the whole tree (type, content tag, link target),
//   - oracle.txt: direct violations, judged from a snapshot of everything that is not
//     below the working directory taken before and after each Push (type, mode, size,
//     content, link target, inode), and from an independent lexical judgement of
//     names that resolve outside (these must be rejected with an error).
//
//go:debug tarinsecurepath=1
package main

import (
	"archive/tar"
	"bytes"
	"compress/gzip"
	"context"
	"crypto/md5"
	_ "crypto/sha256"
	_ "crypto/sha512"
	"encoding/hex"
	"encoding/json"
	"fmt"
	"os"
	"path"
	"path/filepath"
	"sort"
	"strconv"
	"strings"
	"syscall"
	"time"

	"github.com/opencontainers/go-digest"
	ocispec "github.com/opencontainers/image-spec/specs-go/v1"
	"oras.land/oras-go/v2/content/file"
	"verifharness/common"
)

var run *common.Run

const (
	sbRoot = "/sb"
	s3Dir  = "/sb/s0/s1/s2/s3"
	wdDir  = "/sb/s0/s1/s2/s3/wd"
	cwdDir = "/sb/s0/s1/s2/s3/cwd"
)

type Prep struct {
	Kind   string `json:"kind"` // d | f | l | h (h: hard link to the earlier file Target)
	Path   string `json:"path"`
	Tag    int    `json:"tag,omitempty"`
	Target string `json:"target,omitempty"` // l: link text (a link made by the user, any target)
}

type Entry struct {
	Kind   string `json:"kind"` // r d h s o
	Name   string `json:"name"`
	Target string `json:"target,omitempty"`
	Tag    int    `json:"tag,omitempty"`
	Mode   int    `json:"mode,omitempty"` // permission bits of r/d entries (0 = default 0644/0755)
	Time   int    `json:"time,omitempty"` // header ModTime = 2001-01-01 + Time hours (0 = none given: the harness uses 999)
}

// hdrTime is the header time number of an entry; entries without one get 999 (a zero
// tar time would be restored as the Unix epoch, which is an utimes call all the same)
func (e Entry) hdrTime() int {
	if e.Time > 0 {
		return e.Time
	}
	return 999
}

func stampTime(k int) time.Time { return time.Date(2001, 1, 1, k, 0, 0, 0, time.UTC) }

// stampOf returns k when t is the header time number k, else 0
func stampOf(t time.Time) int {
	d := t.Sub(stampTime(0))
	if d > 0 && d%time.Hour == 0 && d/time.Hour < 1000 {
		return int(d / time.Hour)
	}
	return 0
}

func (e Entry) mode() int {
	if e.Mode != 0 {
		return e.Mode & 0o777
	}
	if e.Kind == "d" {
		return 0o755
	}
	return 0o644
}

// Layer is a successor of a pushed manifest: a named blob whose content (tag) the store may
// already hold; Store.Push restores it under its title (restoreDuplicates)
type Layer struct {
	Title string `json:"title"`
	Tag   int    `json:"tag"`
}

type Push struct {
	Layers  []Layer `json:"layers,omitempty"` // kind M
	// Fail (kind U): 1 the gzip blob fails verification, 2 the tar stream breaks off after the
	// entries, 3 the digest annotation of the uncompressed tar does not match
	Fail int `json:"fail,omitempty"`
	Kind    string  `json:"kind"` // B | U | M (unnamed image manifest with named layers: restoreDuplicates)
	Title   string  `json:"title"`
	Tag     int     `json:"tag,omitempty"`
	Entries []Entry `json:"entries,omitempty"`
}

type Case struct {
	Prep     []Prep `json:"prep"`
	Pushes   []Push `json:"pushes"`
	Preserve bool   `json:"preserve"`
	// Wd: how the working directory exists when the store is opened (audit F2):
	//  ""        a real directory reached through real directories (the theorem's Inv)
	//  "missing" it does not exist yet (the first push creates it); modelled
	//  "link"    <s3>/wd is a symbolic link to the directory <s3>/wdreal; modelled (Lstat = kernel walk)
	//  "via"     the store is opened as <s2>/via/wd where via -> s3; modelled
	Wd string `json:"wd,omitempty"`
	Origin   string `json:"origin,omitempty"`
}

// ---------- fixed part of the tree ----------

func basePrep() []Prep {
	p := []Prep{}
	d := func(s string) { p = append(p, Prep{Kind: "d", Path: s}) }
	f := func(s string, tag int) { p = append(p, Prep{Kind: "f", Path: s, Tag: tag}) }
	d("/sb")
	f("/sb/victim", 901)
	d("/sb/s0")
	f("/sb/s0/victim", 902)
	d("/sb/s0/s1")
	f("/sb/s0/s1/victim", 903)
	d("/sb/s0/s1/x")
	f("/sb/s0/s1/x/victim", 915)
	d("/sb/s0/s1/t")
	f("/sb/s0/s1/t/victim", 916)
	d("/sb/s0/s1/s2")
	f("/sb/s0/s1/s2/victim", 904)
	d("/sb/s0/s1/s2/x")
	f("/sb/s0/s1/s2/x/victim", 905)
	d("/sb/s0/s1/s2/x/t")
	f("/sb/s0/s1/s2/x/t/victim", 917)
	d("/sb/s0/s1/s2/t")
	f("/sb/s0/s1/s2/t/victim", 918)
	d(s3Dir)
	f(s3Dir+"/victim", 906)
	f(s3Dir+"/a", 907)
	d(s3Dir + "/x")
	f(s3Dir+"/x/victim", 908)
	d(s3Dir + "/x/t")
	f(s3Dir+"/x/t/victim", 914)
	d(s3Dir + "/t")
	f(s3Dir+"/t/victim", 909)
	d(s3Dir + "/wd-old")
	f(s3Dir+"/wd-old/victim.txt", 919)
	d(s3Dir + "/wd2")
	d(s3Dir + "/wd2/sub")
	f(s3Dir+"/wd2/sub/victim", 920)
	f(s3Dir+"/wd.bak", 921)
	f(s3Dir+"/wdspace.txt", 922)
	d(cwdDir)
	f(cwdDir+"/secret.txt", 910)
	f(cwdDir+"/a", 911)
	f(cwdDir+"/victim", 912)
	d(cwdDir + "/t")
	f(cwdDir+"/t/a", 913)
	d(cwdDir + "/x")
	d(wdDir)
	return p
}

// ---------- running one case on the real file system ----------

type objInfo struct {
	Type    string
	Mode    uint32
	Size    int64
	Content string
	Target  string
	Ino     uint64
	Mtime   int64
}

var harnessFiles = map[string]bool{"/cases.txt": true, "/impl.txt": true, "/oracle.txt": true, "/stats.json": true, "/tmp": true}

// snapshot of everything that is not below the working directory (of the working
// directory itself: existence, type and identity, not its mode)
// physWd is the physical location of the working directory of the running case, wdGone: it did
// not exist when the store was opened (its creation is the store's own business)
var physWd = wdDir
var wdGone = false

// outsideClean: the previous case ended with everything outside the working directory untouched
var outsideClean = false

// content cache for the tree walks: a file whose inode, change time and size are the same has
// the same content
type contentKey struct {
	ino   uint64
	ctime int64
	size  int64
}

var contentCache = map[string]struct {
	k contentKey
	b string
}{}

func readCached(p string, fi os.FileInfo) string {
	st, ok := fi.Sys().(*syscall.Stat_t)
	if !ok {
		b, _ := os.ReadFile(p)
		return string(b)
	}
	k := contentKey{st.Ino, st.Ctim.Nano(), fi.Size()}
	if e, ok := contentCache[p]; ok && e.k == k {
		return e.b
	}
	b, _ := os.ReadFile(p)
	contentCache[p] = struct {
		k contentKey
		b string
	}{k, string(b)}
	return string(b)
}

// scan walks the whole tree once and returns both the snapshot of everything that is not below the
// working directory (oracle) and the listing of the whole tree (correspondence)
func scan() (map[string]objInfo, string) {
	out := map[string]objInfo{}
	var items []string
	var rec func(p string, inWd bool)
	rec = func(p string, inWd bool) {
		fi, err := os.Lstat(p)
		if err != nil {
			return
		}
		var o objInfo
		o.Mode = uint32(fi.Mode().Perm())
		if st, ok := fi.Sys().(*syscall.Stat_t); ok {
			o.Ino = st.Ino
		}
		hp := hex.EncodeToString([]byte(p))
		st := ""
		if !(p == physWd || strings.HasPrefix(p, physWd+"/")) {
			if k := stampOf(fi.ModTime()); k > 0 {
				st = "@" + strconv.Itoa(k)
			}
		}
		switch {
		case fi.Mode()&os.ModeSymlink != 0:
			o.Type = "l"
			o.Target, _ = os.Readlink(p)
			items = append(items, hp+":l"+common.Hex(o.Target))
		case fi.IsDir():
			o.Type = "d"
			if p != "/" {
				items = append(items, fmt.Sprintf("%s:d%d%s", hp, fi.Mode().Perm(), st))
			}
		case fi.Mode().IsRegular():
			o.Type = "f"
			o.Size = fi.Size()
			b := readCached(p, fi)
			o.Content = b
			if _, err := strconv.Atoi(b); err == nil {
				items = append(items, fmt.Sprintf("%s:f%sm%d%s", hp, b, fi.Mode().Perm(), st))
			} else {
				items = append(items, hp+":f?"+hex.EncodeToString([]byte(b)))
			}
		default:
			o.Type = "o"
			items = append(items, hp+":o")
		}
		o.Mtime = fi.ModTime().UnixNano()
		record := !inWd && p != "/" && !(p == physWd && wdGone)
		if wdGone && p == path.Dir(physWd) {
			o.Mtime = 0 // the store creates its working directory: a new entry in the parent
		}
		if p == physWd {
			// the working directory's own attributes are the store's; its entry in the
			// parent directory (existence, type, identity) is not
			o.Mode = 0
			o.Mtime = 0
		}
		if record {
			out[p] = o
		}
		if o.Type == "d" {
			des, _ := os.ReadDir(p)
			for _, de := range des {
				c := path.Join(p, de.Name())
				if harnessFiles[c] {
					continue
				}
				rec(c, inWd || p == physWd)
			}
		}
	}
	rec("/", false)
	key := func(s string) string { return s[:strings.IndexByte(s, ':')] }
	sort.Slice(items, func(i, j int) bool { return key(items[i]) < key(items[j]) })
	return out, strings.Join(items, ",")
}

func snapshotOutside() map[string]objInfo {
	out := map[string]objInfo{}
	var rec func(p string)
	rec = func(p string) {
		fi, err := os.Lstat(p)
		if err != nil {
			return
		}
		var o objInfo
		o.Mode = uint32(fi.Mode().Perm())
		if st, ok := fi.Sys().(*syscall.Stat_t); ok {
			o.Ino = st.Ino
		}
		switch {
		case fi.Mode()&os.ModeSymlink != 0:
			o.Type = "l"
			o.Target, _ = os.Readlink(p)
		case fi.IsDir():
			o.Type = "d"
		case fi.Mode().IsRegular():
			o.Type = "f"
			o.Size = fi.Size()
			b, _ := os.ReadFile(p)
			o.Content = string(b)
		default:
			o.Type = "o"
		}
		o.Mtime = fi.ModTime().UnixNano()
		if p == physWd && wdGone {
			return
		}
		if wdGone && p == path.Dir(physWd) {
			o.Mtime = 0 // the store creates its working directory: a new entry in the parent
		}
		if p == physWd {
			// the working directory's own attributes are the store's; its entry in the
			// parent directory (existence, type, identity) is not
			o.Mode = 0
			o.Mtime = 0
		}
		if p != "/" {
			out[p] = o
		}
		if o.Type == "d" && p != physWd {
			des, _ := os.ReadDir(p)
			for _, de := range des {
				c := path.Join(p, de.Name())
				if harnessFiles[c] {
					continue
				}
				rec(c)
			}
		}
	}
	rec("/")
	return out
}

// sharedInodeOnly returns the outside peer when every difference between the snapshots is at
// outside files that a pre-populated hard link inside the working directory shares (same inode
// before and after), else "".
func sharedInodeOnly(c Case, a, b map[string]objInfo) string {
	peers := map[string]bool{}
	for _, p := range c.Prep {
		if p.Kind == "h" {
			peers[p.Target] = true
		}
	}
	if len(peers) == 0 {
		return ""
	}
	found := ""
	for k, x := range a {
		y, ok := b[k]
		if !ok || x != y {
			if !ok || !peers[k] || x.Ino != y.Ino || x.Type != y.Type {
				return ""
			}
			found = k
		}
	}
	for k := range b {
		if _, ok := a[k]; !ok {
			return ""
		}
	}
	return found
}

func diffSnap(a, b map[string]objInfo) (string, string) {
	keys := map[string]bool{}
	for k := range a {
		keys[k] = true
	}
	for k := range b {
		keys[k] = true
	}
	ks := make([]string, 0, len(keys))
	for k := range keys {
		ks = append(ks, k)
	}
	sort.Strings(ks)
	for _, k := range ks {
		x, okx := a[k]
		y, oky := b[k]
		switch {
		case !okx:
			return "created", fmt.Sprintf("%s created outside the working directory (%s)", k, y.Type)
		case !oky:
			return "deleted", fmt.Sprintf("%s deleted outside the working directory", k)
		case x.Type != y.Type || x.Target != y.Target:
			return "replaced", fmt.Sprintf("%s changed type/target %s%s -> %s%s", k, x.Type, x.Target, y.Type, y.Target)
		case x.Content != y.Content || x.Size != y.Size:
			return "overwritten", fmt.Sprintf("%s content changed %q -> %q", k, x.Content, y.Content)
		case x.Mode != y.Mode:
			return "remoded", fmt.Sprintf("%s mode changed %o -> %o", k, x.Mode, y.Mode)
		case x.Ino != y.Ino:
			return "replaced", fmt.Sprintf("%s replaced (inode changed)", k)
		case x.Mtime != y.Mtime:
			return "touched", fmt.Sprintf("%s modification time changed %s -> %s", k,
				time.Unix(0, x.Mtime).UTC().Format(time.RFC3339), time.Unix(0, y.Mtime).UTC().Format(time.RFC3339))
		}
	}
	return "", ""
}

func listing() string {
	var items []string
	var rec func(p string)
	rec = func(p string) {
		fi, err := os.Lstat(p)
		if err != nil {
			return
		}
		hp := hex.EncodeToString([]byte(p))
		// outside the working directory: which header time (if any) the object carries
		st := ""
		if !(p == wdDir || strings.HasPrefix(p, wdDir+"/")) {
			if k := stampOf(fi.ModTime()); k > 0 {
				st = "@" + strconv.Itoa(k)
			}
		}
		switch {
		case fi.Mode()&os.ModeSymlink != 0:
			t, _ := os.Readlink(p)
			items = append(items, hp+":l"+common.Hex(t))
		case fi.IsDir():
			if p != "/" {
				items = append(items, fmt.Sprintf("%s:d%d%s", hp, fi.Mode().Perm(), st))
			}
			des, _ := os.ReadDir(p)
			for _, de := range des {
				c := path.Join(p, de.Name())
				if harnessFiles[c] {
					continue
				}
				rec(c)
			}
		case fi.Mode().IsRegular():
			b, _ := os.ReadFile(p)
			if _, err := strconv.Atoi(string(b)); err == nil {
				items = append(items, fmt.Sprintf("%s:f%sm%d%s", hp, string(b), fi.Mode().Perm(), st))
			} else {
				items = append(items, hp+":f?"+hex.EncodeToString(b))
			}
		default:
			items = append(items, hp+":o")
		}
	}
	rec("/")
	key := func(s string) string { return s[:strings.IndexByte(s, ':')] }
	sort.Slice(items, func(i, j int) bool { return key(items[i]) < key(items[j]) })
	return strings.Join(items, ",")
}

func buildTarGz(es []Entry) []byte { return buildTarGzF(es, false) }

func buildTarGzF(es []Entry, broken bool) []byte {
	var buf bytes.Buffer
	gz := gzip.NewWriter(&buf)
	tw := tar.NewWriter(gz)
	for _, e := range es {
		h := &tar.Header{Name: e.Name, Format: tar.FormatPAX}
		h.ModTime = stampTime(e.hdrTime())
		h.AccessTime = stampTime(e.hdrTime())
		var body []byte
		switch e.Kind {
		case "r":
			body = []byte(strconv.Itoa(e.Tag))
			h.Typeflag, h.Mode, h.Size = tar.TypeReg, int64(e.mode()), int64(len(body))
		case "d":
			h.Typeflag, h.Mode = tar.TypeDir, int64(e.mode())
		case "h":
			h.Typeflag, h.Mode, h.Linkname = tar.TypeLink, 0o644, e.Target
		case "s":
			h.Typeflag, h.Mode, h.Linkname = tar.TypeSymlink, 0o777, e.Target
		default:
			h.Typeflag, h.Mode = tar.TypeFifo, 0o644
		}
		if err := tw.WriteHeader(h); err != nil {
			panic(fmt.Sprintf("tar header %+v: %v", e, err))
		}
		if body != nil {
			if _, err := tw.Write(body); err != nil {
				panic(err)
			}
		}
	}
	if broken {
		// no end-of-archive marker but a block that is not a header
		tw.Flush()
		gz.Write(bytes.Repeat([]byte("x"), 512))
	} else {
		tw.Close()
	}
	gz.Close()
	return buf.Bytes()
}

// independent lexical judgement: does the name, taken relative to the working
// directory when it is not absolute, denote a location outside the working directory?
func lexOutside(name string) bool {
	c := lexClean(name, wdDir)
	return !(c == wdDir || strings.HasPrefix(c, wdDir+"/"))
}

func lexUnder(p, dir string) bool { return p == dir || strings.HasPrefix(p, strings.TrimSuffix(dir, "/")+"/") }

// lexClean is the lexical location of name, taken relative to base when it is not absolute
func lexClean(name, base string) string {
	p := name
	if !strings.HasPrefix(name, "/") {
		p = base + "/" + name
	}
	segs := []string{}
	for _, s := range strings.Split(p, "/") {
		switch s {
		case "", ".":
		case "..":
			if len(segs) > 0 {
				segs = segs[:len(segs)-1]
			}
		default:
			segs = append(segs, s)
		}
	}
	return "/" + strings.Join(segs, "/")
}

// fallbackHas: an earlier unnamed blob with this content tag was pushed (so a manifest layer with
// that content can be restored)
func fallbackHas(ps []Push, tag int) bool {
	for _, p := range ps {
		if p.Kind == "B" && p.Title == "" && p.Tag == tag && tag != 0 {
			return true
		}
	}
	return false
}

func modelLine(c Case, cfg string) string {
	var sb strings.Builder
	pres := 0
	if c.Preserve {
		pres = 1
	}
	prep := c.Prep
	if c.Wd == "missing" {
		prep = nil
		for _, p := range c.Prep {
			if !(p.Path == wdDir || strings.HasPrefix(p.Path, wdDir+"/")) {
				prep = append(prep, p)
			}
		}
	}
	lexWd, phys := wdDir, wdDir
	switch c.Wd {
	case "link": // <s3>/wd is a link to the directory <s3>/wdreal, which holds the content
		phys = s3Dir + "/wdreal"
		var q []Prep
		for _, p := range prep {
			if p.Path == wdDir || strings.HasPrefix(p.Path, wdDir+"/") {
				p.Path = phys + strings.TrimPrefix(p.Path, wdDir)
			}
			q = append(q, p)
		}
		prep = append(q, Prep{Kind: "l", Path: wdDir, Target: "wdreal"})
	case "via": // the store is opened as <s2>/via/wd, via -> s3
		lexWd = "/sb/s0/s1/s2/via/wd"
		prep = append(append([]Prep{}, prep...), Prep{Kind: "l", Path: "/sb/s0/s1/s2/via", Target: "s3"})
	}
	fmt.Fprintf(&sb, "%s %d %s %s %s %d", cfg, pres, common.Hex(lexWd), common.Hex(phys), common.Hex(cwdDir), len(prep))
	for _, p := range prep {
		if p.Kind == "d" {
			fmt.Fprintf(&sb, " d %s", common.Hex(p.Path))
		} else if p.Kind == "l" || p.Kind == "h" {
			fmt.Fprintf(&sb, " %s %s %s", p.Kind, common.Hex(p.Path), common.Hex(p.Target))
		} else {
			fmt.Fprintf(&sb, " f %s %d", common.Hex(p.Path), p.Tag)
		}
	}
	fmt.Fprintf(&sb, " %d", len(c.Pushes))
	for _, p := range c.Pushes {
		if p.Kind == "B" {
			fmt.Fprintf(&sb, " B %s %d", common.Hex(p.Title), p.Tag)
			continue
		}
		if p.Kind == "M" {
			fmt.Fprintf(&sb, " M %d", len(p.Layers))
			for _, l := range p.Layers {
				fmt.Fprintf(&sb, " %s %d", common.Hex(l.Title), l.Tag)
			}
			continue
		}
		if p.Fail != 0 {
			fmt.Fprintf(&sb, " F %d %s %d", p.Fail, common.Hex(p.Title), len(p.Entries))
		} else {
			fmt.Fprintf(&sb, " U %s %d", common.Hex(p.Title), len(p.Entries))
		}
		for _, e := range p.Entries {
			switch e.Kind {
			case "r":
				fmt.Fprintf(&sb, " r %s %d %d", common.Hex(e.Name), e.Tag, e.mode())
			case "d":
				fmt.Fprintf(&sb, " d %s %d", common.Hex(e.Name), e.mode())
			case "h", "s":
				fmt.Fprintf(&sb, " %s %s %s", e.Kind, common.Hex(e.Name), common.Hex(e.Target))
			default:
				fmt.Fprintf(&sb, " o %s", common.Hex(e.Name))
			}
			fmt.Fprintf(&sb, " %d", e.hdrTime())
		}
	}
	return sb.String()
}

var modelCfg = "1111111"

func runCase(c Case) {
	// archive/tar cannot encode a regular entry whose name ends in a slash (replay files may ask for it)
	for i := range c.Pushes {
		for j, e := range c.Pushes[i].Entries {
			if e.Kind == "r" && strings.HasSuffix(e.Name, "/") {
				n := strings.TrimRight(e.Name, "/")
				if n == "" {
					n = "."
				}
				c.Pushes[i].Entries[j].Name = n
			}
		}
	}
	id := run.NewID()
	// fresh tree.  When the previous case left everything outside the working directory as it was
	// (no oracle failure, standard layout) and this case starts from the standard decoys, only the
	// working directory is rebuilt.
	os.Chdir("/")
	base := basePrep()
	reuse := outsideClean && len(c.Prep) >= len(base)
	for i := 0; reuse && i < len(base); i++ {
		reuse = c.Prep[i] == base[i]
	}
	for _, p := range c.Prep[min(len(base), len(c.Prep)):] {
		if !(strings.HasPrefix(p.Path, wdDir+"/")) {
			reuse = false
		}
	}
	if reuse {
		if err := os.RemoveAll(wdDir); err != nil {
			panic(err)
		}
	} else if err := os.RemoveAll(sbRoot); err != nil {
		panic(err)
	}
	outsideClean = c.Wd == ""
	failsBefore := run.OracleFails
	defer func() {
		if run.OracleFails != failsBefore {
			outsideClean = false
		}
	}()
	for i, p := range c.Prep {
		if reuse && i < len(base) && p.Path != wdDir {
			continue
		}
		if !strings.HasPrefix(p.Path, sbRoot) {
			panic("prep outside sandbox: " + p.Path)
		}
		if p.Kind == "d" {
			if err := os.MkdirAll(p.Path, 0o755); err != nil {
				panic(err)
			}
		} else if p.Kind == "l" {
			if err := os.Symlink(p.Target, p.Path); err != nil {
				panic(err)
			}
		} else if p.Kind == "h" {
			if err := os.Link(p.Target, p.Path); err != nil {
				panic(err)
			}
		} else {
			if err := os.WriteFile(p.Path, []byte(strconv.Itoa(p.Tag)), 0o644); err != nil {
				panic(err)
			}
		}
	}
	physWd, wdGone = wdDir, false
	openAs := wdDir
	switch c.Wd {
	case "missing":
		if err := os.RemoveAll(wdDir); err != nil {
			panic(err)
		}
		wdGone = true
	case "link":
		physWd = s3Dir + "/wdreal"
		if err := os.Rename(wdDir, physWd); err != nil {
			panic(err)
		}
		if err := os.Symlink("wdreal", wdDir); err != nil {
			panic(err)
		}
	case "via":
		if err := os.Symlink("s3", "/sb/s0/s1/s2/via"); err != nil {
			panic(err)
		}
		openAs = "/sb/s0/s1/s2/via/wd"
	}
	if err := os.Chdir(cwdDir); err != nil {
		panic(err)
	}
	store, err := file.New(openAs)
	if err != nil {
		panic(err)
	}
	store.PreservePermissions = c.Preserve
	ctx := context.Background()
	verdicts := ""
	steps := ""
	nontrivial := false
	var before map[string]objInfo
	hasManifest := false
	lastListing := ""
	for i, p := range c.Pushes {
		var blob []byte
		ann := map[string]string{ocispec.AnnotationTitle: p.Title}
		mediaType := "application/vnd.verif.blob"
		dgst := digest.Digest("")
		switch p.Kind {
		case "B":
			blob = []byte(strconv.Itoa(p.Tag))
			if p.Tag == 0 {
				// content that fails verification (same size, other digest): written, then removed
				dgst = digest.FromBytes([]byte("1"))
			}
		case "M":
			m := ocispec.Manifest{MediaType: ocispec.MediaTypeImageManifest,
				Config: ocispec.Descriptor{MediaType: "application/vnd.verif.config", Digest: digest.FromBytes([]byte("{}")), Size: 2}}
			m.SchemaVersion = 2
			for _, l := range p.Layers {
				lb := []byte(strconv.Itoa(l.Tag))
				m.Layers = append(m.Layers, ocispec.Descriptor{MediaType: "application/vnd.verif.blob", Digest: digest.FromBytes(lb),
					Size: int64(len(lb)), Annotations: map[string]string{ocispec.AnnotationTitle: l.Title}})
			}
			blob, _ = json.Marshal(m)
			mediaType = ocispec.MediaTypeImageManifest
			ann = nil
			hasManifest = true
		default:
			blob = buildTarGzF(p.Entries, p.Fail == 2)
			ann[file.AnnotationUnpack] = "true"
			switch p.Fail {
			case 1:
				dgst = digest.FromBytes(append(append([]byte{}, blob...), 'x'))
			case 3:
				ann[file.AnnotationDigest] = digest.FromBytes([]byte("not this tar")).String()
			}
		}
		if dgst == "" {
			dgst = digest.FromBytes(blob)
		}
		desc := ocispec.Descriptor{MediaType: mediaType, Digest: dgst, Size: int64(len(blob)), Annotations: ann}
		if before == nil {
			before, _ = scan()
		}
		// watchdog: a push that does not return within 30 s is reported (with its replay), not waited for
		errc := make(chan error, 1)
		go func() { errc <- store.Push(ctx, desc, bytes.NewReader(blob)) }()
		var err error
		select {
		case err = <-errc:
		case <-time.After(30 * time.Second):
			run.OracleFail(id, "wedged-push", fmt.Sprintf("push #%d title %q did not return within 30 s", i, p.Title), c)
			run.Case(id, modelLine(c, modelCfg), "WEDGED")
			run.Finish()
			os.Exit(0)
		}
		after, lst := scan()
		lastListing = lst
		if err == nil {
			verdicts += "O"
			nontrivial = true
		} else {
			verdicts += "E"
		}
		// the whole tree after every push (digest), not only at the end
		sum := md5.Sum([]byte(lst))
		steps += verdicts[len(verdicts)-1:] + hex.EncodeToString(sum[:4])
		// oracle 1: nothing outside the working directory changed
		if kind, msg := diffSnap(before, after); kind != "" {
			what := "blob"
			if p.Kind == "U" {
				what = "unpack"
			}
			// the one mechanism recorded as a known finding: the changed outside object is a file
			// that was hard-linked into the working directory before the store was opened, it is
			// still the same inode, and nothing else outside changed
			if peer := sharedInodeOnly(c, before, after); peer != "" && (kind == "overwritten" || kind == "remoded" || kind == "touched") {
				run.OracleFail(id, "shared-inode-"+kind, fmt.Sprintf("push #%d title %q: %s (pre-existing hard link %s)", i, p.Title, msg, peer), c)
				before = after
				continue
			}
			run.OracleFail(id, "escape-"+kind+"-"+what, fmt.Sprintf("push #%d title %q: %s", i, p.Title, msg), c)
		}
		before = after
		// oracle 2: a name that lexically resolves outside must be rejected
		if err == nil {
			for _, l := range p.Layers {
				if lexOutside(l.Title) && fallbackHas(c.Pushes[:i], l.Tag) {
					run.OracleFail(id, "outside-layer-title-accepted", fmt.Sprintf("push #%d manifest layer title %q resolves outside the working directory but the push succeeded", i, l.Title), c)
				}
			}
		}
		if p.Title != "" && err == nil {
			if lexOutside(p.Title) {
				run.OracleFail(id, "outside-title-accepted", fmt.Sprintf("push #%d title %q resolves outside the working directory but was accepted", i, p.Title), c)
			}
			dpLex := lexClean(p.Title, wdDir)
			for _, e := range p.Entries {
				nameLex := lexClean(e.Name, wdDir)
				if lexOutside(e.Name) {
					run.OracleFail(id, "outside-entry-accepted", fmt.Sprintf("push #%d entry %q resolves outside the working directory but the push succeeded", i, e.Name), c)
				} else if !lexUnder(nameLex, dpLex) {
					run.OracleFail(id, "entry-outside-unpack-dir-accepted", fmt.Sprintf("push #%d entry %q is not below the unpack directory %q but the push succeeded", i, e.Name, p.Title), c)
				}
				if e.Kind == "h" || e.Kind == "s" {
					if tl := lexClean(e.Target, path.Dir(nameLex)); !lexUnder(tl, dpLex) {
						run.OracleFail(id, "outside-link-target-accepted", fmt.Sprintf("push #%d link %q -> %q: the target resolves (lexically) outside the unpack directory but the push succeeded", i, e.Name, e.Target), c)
					}
				}
			}
		}
	}
	// the store's book-keeping: Exists for every (title, content) pushed or named as a layer
	ex := ""
	query := func(title string, tag int) {
		b := []byte(strconv.Itoa(tag))
		d := ocispec.Descriptor{MediaType: "application/vnd.verif.blob", Digest: digest.FromBytes(b), Size: int64(len(b))}
		if title != "" {
			d.Annotations = map[string]string{ocispec.AnnotationTitle: title}
		}
		if ok, err := store.Exists(ctx, d); err == nil && ok {
			ex += "1"
		} else {
			ex += "0"
		}
	}
	for _, p := range c.Pushes {
		switch p.Kind {
		case "B":
			query(p.Title, p.Tag)
		case "M":
			for _, l := range p.Layers {
				query(l.Title, l.Tag)
			}
		default:
			query(p.Title, 41)
		}
	}
	os.Chdir("/")
	store.Close()
	if lastListing == "" {
		lastListing = listing()
	}
	obs := steps + "|" + lastListing + "|X" + ex
	line := modelLine(c, modelCfg)
	run.Case(id, line, obs)
	run.Count("pushes=" + strconv.Itoa(len(c.Pushes)))
	run.Count("verdicts=" + verdicts)
	if c.Origin != "" {
		run.Count("origin=" + c.Origin)
	}
	if hasManifest {
		run.Count("manifest-cases")
	}
	if c.Wd != "" {
		run.Count("wd=" + c.Wd)
	}
	for _, p := range c.Pushes {
		run.Count("push." + p.Kind)
		for _, e := range p.Entries {
			run.Count("entry." + e.Kind)
		}
	}
	if nontrivial {
		run.Nontrivial(line)
		if len(c.Pushes) > 1 || (len(c.Pushes) == 1 && len(c.Pushes[0].Entries) > 2) {
			run.Sample(map[string]any{"pushes": c.Pushes, "preserve": c.Preserve, "verdicts": verdicts, "origin": c.Origin})
		}
	}
}

// ---------- generator ----------

var segs = []string{"a", "b", "c", "s", "t", "x", "victim", "k"}

// longSeg is longer than the 100 bytes of a USTAR name field (PAX long name / long link target)
var longSeg = strings.Repeat("n", 120)

func pickSeg(r *common.Rand) string {
	if r.Chance(1, 60) {
		return longSeg
	}
	return common.Pick(r, segs)
}

func relName(r *common.Rand, pool []string) string {
	// a relative name below some directory: fresh segments or an extension of an earlier name
	if len(pool) > 0 && r.Chance(1, 2) {
		b := common.Pick(r, pool)
		switch r.Intn(4) {
		case 0:
			return b
		case 1:
			return b + "/" + pickSeg(r)
		case 2:
			return path.Dir(b) + "/" + pickSeg(r)
		default:
			return b + "/" + pickSeg(r) + "/" + pickSeg(r)
		}
	}
	n := 1 + r.Intn(3)
	parts := make([]string, n)
	for i := range parts {
		parts[i] = pickSeg(r)
	}
	return strings.Join(parts, "/")
}

func ups(n int) string { return strings.Repeat("../", n) }

func noise(r *common.Rand, s string) string {
	// lexical noise that filepath.Clean removes
	switch r.Intn(12) {
	case 0:
		return "./" + s
	case 1:
		return strings.Replace(s, "/", "//", 1)
	case 2:
		return strings.Replace(s, "/", "/./", 1)
	case 3:
		if i := strings.Index(s, "/"); i > 0 {
			return s[:i] + "/" + pickSeg(r) + "/.." + s[i:]
		}
	}
	return s
}

func genTitle(r *common.Rand, earlier []string) string {
	switch r.Intn(20) {
	case 0:
		return "."
	case 1:
		return ups(1+r.Intn(3)) + pickSeg(r)
	case 2:
		return pickSeg(r) + "/" + ups(1+r.Intn(3)) + pickSeg(r)
	case 3:
		return wdDir + "/" + relName(r, earlier)
	case 4:
		return common.Pick(r, []string{"/sb/victim", s3Dir + "/victim", cwdDir + "/secret.txt", s3Dir + "/x/k", "/sb/s0/k"})
	case 5:
		if len(earlier) > 0 {
			return wdDir + "/" + common.Pick(r, earlier) + "/" + ups(1+r.Intn(4)) + pickSeg(r)
		}
	case 6:
		return wdDir
	case 11:
		return "" // no name: fallback storage
	case 10:
		return siblingTitle(r)
	case 7, 8, 9:
		if len(earlier) > 0 {
			return noise(r, relName(r, earlier))
		}
	}
	return noise(r, relName(r, nil))
}

func genTarget(r *common.Rand, dirPathRel string, names []string) string {
	// names: earlier entry names relative to the working directory
	switch r.Intn(16) {
	case 0:
		return ""
	case 1:
		return "."
	case 2:
		return strings.TrimSuffix(ups(1+r.Intn(3)), "/")
	case 3:
		return common.Pick(r, []string{"secret.txt", "a", "victim", "t/a", "x"})
	case 4:
		return wdDir + "/" + dirPathRel + "/" + relName(r, nil)
	case 5:
		return common.Pick(r, []string{"/sb/victim", s3Dir + "/victim", cwdDir + "/secret.txt", s3Dir + "/x", s3Dir})
	case 6, 7:
		return ups(1+r.Intn(4)) + relName(r, nil)
	case 8, 9, 10:
		if len(names) > 0 {
			n := common.Pick(r, names)
			// relative to the unpack directory
			n = strings.TrimPrefix(strings.TrimPrefix(n, dirPathRel), "/")
			if n == "" {
				n = "."
			}
			switch r.Intn(4) {
			case 0:
				return n
			case 1:
				return n + "/" + ups(1+r.Intn(5)) + pickSeg(r)
			case 2:
				return ups(1+r.Intn(2)) + n
			default:
				return n + "/" + pickSeg(r)
			}
		}
	case 11:
		return wdDir + "/" + dirPathRel + "/" + pickSeg(r) + "/" + ups(1+r.Intn(4)) + pickSeg(r)
	case 12:
		if len(names) > 0 {
			// below an earlier entry (a regular file: ENOTDIR for the parent check)
			n := strings.TrimPrefix(strings.TrimPrefix(common.Pick(r, names), dirPathRel), "/")
			if n != "" {
				return n + "/" + pickSeg(r) + "/" + pickSeg(r)
			}
		}
	}
	return relName(r, nil)
}

// directories that exist in the decoy area (what a name right below an escaping link can hit)
var deepSubs = []string{"x", "t", "x/t", "cwd", "s3", "wd"}

func genUnpack(r *common.Rand, title string, earlier *[]string, tag *int) Push {
	p := Push{Kind: "U", Title: title}
	prefix := title
	dirRel := path.Clean(title)
	if strings.HasPrefix(title, "/") {
		dirRel = strings.TrimPrefix(strings.TrimPrefix(path.Clean(title), wdDir), "/")
	}
	n := 1 + r.Intn(6)
	var names []string // entry names relative to wd (lexically)
	var links []string // names (relative to the unpack directory) of symlink entries so far
	for i := 0; i < n; i++ {
		var rel string
		if len(names) > 0 && r.Chance(1, 2) {
			b := strings.TrimPrefix(strings.TrimPrefix(common.Pick(r, names), dirRel), "/")
			switch r.Intn(3) {
			case 0:
				rel = b
			case 1:
				rel = b + "/" + pickSeg(r)
			default:
				rel = path.Dir(b) + "/" + pickSeg(r)
			}
			if rel == "" {
				rel = "."
			}
		} else if len(links) > 0 && r.Chance(1, 3) {
			rel = common.Pick(r, links) + "/" + common.Pick(r, deepSubs) + "/" + common.Pick(r, []string{"victim", "k", "a"})
		} else {
			rel = relName(r, nil)
		}
		name := prefix + "/" + rel
		switch r.Intn(24) {
		case 0:
			name = rel // prefix missing
		case 1:
			name = prefix + "/" + ups(1+r.Intn(3)) + rel
		case 2:
			name = wdDir + "/" + dirRel + "/" + rel
		case 3:
			name = common.Pick(r, []string{"/sb/victim", s3Dir + "/victim", "../victim", "../cwd/secret.txt"})
		case 4:
			name = prefix
		case 5:
			name = noise(r, name)
		}
		e := Entry{Name: name}
		switch k := r.Intn(10); {
		case k < 3:
			e.Kind = "r"
			*tag++
			e.Tag = *tag
			e.Mode = common.Pick(r, []int{0, 0, 0o600, 0o666, 0o755, 0o640})
		case k < 5:
			e.Kind = "d"
			e.Mode = common.Pick(r, []int{0, 0, 0o700, 0o777, 0o750})
			if r.Chance(1, 3) {
				e.Name += "/" // as GNU tar writes directory names
			}
		case k < 8:
			e.Kind = "s"
			e.Target = genTarget(r, dirRel, names)
			links = append(links, rel)
		case k < 9:
			e.Kind = "h"
			e.Target = genTarget(r, dirRel, names)
			if len(links) > 0 && r.Chance(1, 2) {
				e.Target = common.Pick(r, links) + "/" + common.Pick(r, deepSubs) + "/victim"
			} else if d := strings.Count(rel, "/"); d > 0 && r.Chance(1, 2) {
				e.Target = ups(d) + common.Pick(r, []string{"victim", "a", "x/victim"})
			}
		default:
			e.Kind = "o"
		}
		p.Entries = append(p.Entries, e)
		names = append(names, path.Clean(dirRel+"/"+rel))
	}
	*earlier = append(*earlier, names...)
	return p
}

func genRandom(r *common.Rand) Case {
	c := Case{Prep: basePrep(), Preserve: r.Chance(1, 3), Origin: "random"}
	tag := 0
	var earlier []string
	seenTop := map[string]bool{}
	// pre-populated content of the working directory
	if r.Chance(1, 2) {
		k := 1 + r.Intn(4)
		seen := map[string]bool{}
		for i := 0; i < k; i++ {
			rel := relName(r, nil)
			parts := strings.Split(rel, "/")
			ok := true
			for j := 1; j < len(parts); j++ {
				d := strings.Join(parts[:j], "/")
				if seen["f:"+d] {
					ok = false
				}
			}
			if !ok || seen["f:"+rel] || seen["d:"+rel] {
				continue
			}
			seenTop[parts[0]] = true
			for j := 1; j < len(parts); j++ {
				d := strings.Join(parts[:j], "/")
				if !seen["d:"+d] {
					seen["d:"+d] = true
					c.Prep = append(c.Prep, Prep{Kind: "d", Path: wdDir + "/" + d})
				}
			}
			if r.Bool() {
				seen["d:"+rel] = true
				c.Prep = append(c.Prep, Prep{Kind: "d", Path: wdDir + "/" + rel})
			} else {
				seen["f:"+rel] = true
				tag++
				c.Prep = append(c.Prep, Prep{Kind: "f", Path: wdDir + "/" + rel, Tag: 500 + tag})
			}
			earlier = append(earlier, rel)
		}
	}
	// links made by the user, pointing anywhere
	if r.Chance(1, 4) {
		for i := 0; i < 1+r.Intn(2); i++ {
			nm := pickSeg(r)
			if seenTop[nm] {
				continue
			}
			seenTop[nm] = true
			c.Prep = append(c.Prep, Prep{Kind: "l", Path: wdDir + "/" + nm,
				Target: common.Pick(r, []string{"..", "../x", "/sb/s0/s1/victim", s3Dir, "../victim", ".", "nowhere", cwdDir + "/secret.txt"})})
			earlier = append(earlier, nm)
		}
	}
	np := 1 + r.Intn(3)
	for i := 0; i < np; i++ {
		title := genTitle(r, earlier)
		if title == "" {
			// unnamed blobs go to the fallback storage; the same content twice is refused
			c.Pushes = append(c.Pushes, Push{Kind: "B", Title: "", Tag: 40 + r.Intn(2)})
			continue
		}
		if r.Chance(2, 3) {
			c.Pushes = append(c.Pushes, genUnpack(r, title, &earlier, &tag))
			if r.Chance(1, 8) {
				c.Pushes[len(c.Pushes)-1].Fail = 1 + r.Intn(3)
				run.Count("failing-archive")
			}
		} else {
			tag++
			if len(earlier) > 0 && r.Chance(1, 4) {
				title = common.Pick(r, earlier) + "/" + common.Pick(r, deepSubs) + "/" + common.Pick(r, []string{"victim", "k"})
			}
			c.Pushes = append(c.Pushes, Push{Kind: "B", Title: title, Tag: tag})
			if !strings.HasPrefix(title, "/") {
				earlier = append(earlier, path.Clean(title))
			}
		}
	}
	return c
}

// names next to the working directory that share its name as a prefix
var prefixSiblings = []string{"wd-old/victim.txt", "wd-old/new.txt", "wd2/sub/victim", "wd2/sub/new.txt", "wd2/k", "wd.bak", "wdspace.txt", "wdx"}

func siblingTitle(r *common.Rand) string {
	sib := common.Pick(r, prefixSiblings)
	switch r.Intn(4) {
	case 0:
		return "../" + sib
	case 1:
		return pickSeg(r) + "/../../" + sib
	case 2:
		return s3Dir + "/" + sib
	default:
		return wdDir + "/../" + sib
	}
}

// attack templates (each a known way for lexical and physical resolution to part), perturbed
func genTemplate(r *common.Rand) Case {
	c := Case{Prep: basePrep(), Preserve: r.Chance(1, 4)}
	t := common.Pick(r, []string{"t", "a", "k", "t/b"})
	fin := common.Pick(r, []string{"victim", "a", "x/victim", "k"})
	switch k := r.Intn(26); k {
	case 0: // raw link target goes through an earlier link and climbs
		c.Origin = "tpl-raw-target"
		d := 1 + r.Intn(3)
		dir := strings.TrimSuffix(strings.Repeat("b/", d), "/")
		es := []Entry{{Kind: "d", Name: t + "/" + dir},
			{Kind: "s", Name: t + "/" + dir + "/s", Target: strings.TrimSuffix(ups(1+r.Intn(d)), "/")},
			{Kind: "s", Name: t + "/l", Target: dir + "/s/" + ups(1+r.Intn(d+3)) + fin},
			{Kind: "r", Name: t + "/l", Tag: 1}}
		c.Pushes = []Push{{Kind: "U", Title: t, Entries: es}}
	case 1: // hard link whose relative target names a file in the process's cwd
		c.Origin = "tpl-hardlink-cwd"
		tg := common.Pick(r, []string{"secret.txt", "a", "victim", "t/a"})
		es := []Entry{{Kind: "h", Name: t + "/h", Target: tg}}
		if r.Bool() {
			es = append(es, Entry{Kind: "r", Name: t + "/h", Tag: 1})
		}
		c.Pushes = []Push{{Kind: "U", Title: t, Entries: es}}
	case 2: // unpack directory reached through a link created by the store
		c.Origin = "tpl-title-through-link"
		c.Pushes = []Push{
			{Kind: "U", Title: ".", Entries: []Entry{{Kind: "s", Name: "./x", Target: "."}}},
			{Kind: "U", Title: "x", Entries: []Entry{{Kind: "s", Name: "x/l", Target: "../x/" + fin}, {Kind: "r", Name: "x/l", Tag: 2}}}}
	case 3: // same, one level down
		c.Origin = "tpl-title-through-link2"
		c.Pushes = []Push{
			{Kind: "U", Title: "t", Entries: []Entry{{Kind: "d", Name: "t/x"}, {Kind: "s", Name: "t/x/t", Target: ".."}}},
			{Kind: "U", Title: "t/x/t", Entries: []Entry{{Kind: "s", Name: "t/x/t/l", Target: "../../x/t/" + fin}, {Kind: "r", Name: "t/x/t/l", Tag: 2}}}}
	case 4: // hard link to a symbolic link moves the link to another depth
		c.Origin = "tpl-hardlink-to-symlink"
		tg := "b/c/d/s"
		if r.Bool() {
			tg = wdDir + "/" + t + "/b/c/d/s"
		}
		c.Pushes = []Push{
			{Kind: "U", Title: t, Entries: []Entry{{Kind: "d", Name: t + "/b/c/d"}, {Kind: "s", Name: t + "/b/c/d/s", Target: "../../.."},
				{Kind: "h", Name: t + "/h", Target: tg}}},
			{Kind: "B", Title: t + "/h/" + fin, Tag: 3}}
	case 5: // absolute title with ".." after a store link
		c.Origin = "tpl-abs-title-dotdot"
		c.Pushes = []Push{
			{Kind: "U", Title: t, Entries: []Entry{{Kind: "d", Name: t + "/b"}, {Kind: "s", Name: t + "/b/s", Target: ".."}}},
			{Kind: "B", Title: wdDir + "/" + t + "/b/s/" + ups(2+r.Intn(3)) + fin, Tag: 3}}
		if r.Bool() {
			c.Pushes[1] = Push{Kind: "U", Title: c.Pushes[1].Title, Entries: []Entry{{Kind: "d", Name: c.Pushes[1].Title + "/k"}}}
		}
	case 6: // named blob on / below a link whose raw target leaves the tree
		c.Origin = "tpl-blob-through-link"
		es := []Entry{{Kind: "d", Name: t + "/b/b"},
			{Kind: "s", Name: t + "/b/b/s", Target: "../.."},
			{Kind: "s", Name: t + "/l", Target: "b/b/s/" + ups(2+r.Intn(3)) + fin}}
		c.Pushes = []Push{{Kind: "U", Title: t, Entries: es}, {Kind: "B", Title: t + "/l", Tag: 4}}
		if r.Bool() {
			c.Pushes[0].Entries[2].Target = "b/b/s/" + strings.TrimSuffix(ups(2+r.Intn(2)), "/")
			c.Pushes[1].Title = t + "/l/" + fin
		}
	case 7: // directory entry on top of a link, PreservePermissions: chmod through the link
		c.Origin = "tpl-remode"
		c.Preserve = true
		es := []Entry{{Kind: "d", Name: t + "/b/b"},
			{Kind: "s", Name: t + "/b/b/s", Target: "../.."},
			{Kind: "s", Name: t + "/l", Target: "b/b/s/" + strings.TrimSuffix(ups(1+r.Intn(3)), "/")},
			{Kind: "d", Name: t + "/l", Mode: 0o700},
			{Kind: "r", Name: t + "/l/" + fin, Tag: 5, Mode: 0o600}}
		if r.Bool() {
			// a recorded (empty) directory replaced by a link later in the same archive: the modes
			// restored after the last entry must skip it
			es = []Entry{es[0], es[1], {Kind: "d", Name: t + "/e", Mode: 0o700}, {Kind: "d", Name: t + "/g/h", Mode: 0o711},
				{Kind: "s", Name: t + "/e", Target: "b/b/s/" + strings.TrimSuffix(ups(1+r.Intn(3)), "/")},
				{Kind: "s", Name: t + "/g/h", Target: "../b/b/s/" + strings.TrimSuffix(ups(2+r.Intn(2)), "/")},
				{Kind: "d", Name: t + "/k", Mode: 0o500}, {Kind: "r", Name: t + "/k/f", Tag: 5, Mode: 0o400}}
		}
		c.Pushes = []Push{{Kind: "U", Title: t, Entries: es}}
	case 8: // links made by the user in the working directory are not followed either
		c.Origin = "tpl-user-link"
		c.Prep = append(c.Prep, Prep{Kind: "l", Path: wdDir + "/u", Target: common.Pick(r, []string{"..", "../x", s3Dir, "../victim"})})
		switch r.Intn(3) {
		case 0:
			c.Pushes = []Push{{Kind: "B", Title: "u/" + fin, Tag: 6}}
		case 1:
			c.Pushes = []Push{{Kind: "B", Title: "u", Tag: 6}}
		default:
			c.Pushes = []Push{{Kind: "U", Title: "u", Entries: []Entry{{Kind: "r", Name: "u/" + fin, Tag: 6}}},
				{Kind: "U", Title: "v", Entries: []Entry{{Kind: "h", Name: "v/h", Target: "../u/victim"}, {Kind: "r", Name: "v/h", Tag: 7}}}}
		}
	case 19, 20, 21: // histories on one store that revisit a path with another kind of entry:
		// (1) something makes the store create / check the directory P, (2) a later archive replaces
		// P (directory -> chained link, link -> directory, directory -> file ...), (3) a write at or
		// below P.  Every operation has to walk the path again in the current tree.
		c.Origin = "tpl-revisit"
		a := common.Pick(r, []string{"a", "t", "k"})
		e := common.Pick(r, []string{"e", "c", "b/e"})
		P := a + "/" + e
		up := ""
		if strings.Contains(e, "/") {
			up = "../"
		}
		// chained links, each lexically inside the unpack directory a: p -> ., q -> p/.. (= wd),
		// q2 -> q/.. (one above wd) ...; P -> <last>/..
		chain := []Entry{{Kind: "s", Name: a + "/p", Target: "."}, {Kind: "s", Name: a + "/q", Target: "p/.."}}
		last := "q"
		for i := 0; i < r.Intn(3); i++ {
			nm := fmt.Sprintf("q%d", i+2)
			chain = append(chain, Entry{Kind: "s", Name: a + "/" + nm, Target: last + "/.."})
			last = nm
		}
		var p1, p2 []Push
		switch r.Intn(5) {
		case 0:
			p1 = []Push{{Kind: "U", Title: P, Entries: []Entry{{Kind: "d", Name: P}}}}
		case 1:
			p1 = []Push{{Kind: "B", Title: P + "/x", Tag: 0}} // fails verification: P stays, empty
		case 2:
			p1 = []Push{{Kind: "U", Title: a, Entries: []Entry{{Kind: "d", Name: P, Mode: 0o700}}}}
		case 3:
			p1 = []Push{{Kind: "U", Title: P, Entries: nil}, {Kind: "B", Title: P + "/y", Tag: 0}}
		default: // P is a link first
			p1 = []Push{{Kind: "U", Title: a, Entries: append(append([]Entry{}, chain...), Entry{Kind: "s", Name: P, Target: up + last + "/.."})}}
		}
		switch r.Intn(5) {
		case 0, 1, 2:
			p2 = []Push{{Kind: "U", Title: a + "x", Entries: nil}, {Kind: "U", Title: a, Entries: append(append([]Entry{}, chain...), Entry{Kind: "s", Name: P, Target: up + last + "/.."})}}
			if r.Bool() {
				p2 = p2[1:]
			}
		case 3:
			p2 = []Push{{Kind: "U", Title: a, Entries: []Entry{{Kind: "r", Name: P, Tag: 21}, {Kind: "d", Name: P}, {Kind: "s", Name: P, Target: "."}}}}
		default:
			p2 = []Push{{Kind: "U", Title: a, Entries: []Entry{{Kind: "d", Name: P}, {Kind: "d", Name: P + "/sub"}}}}
		}
		var p3 []Push
		leaf := common.Pick(r, []string{"victim", "created", "x/victim", "victim"})
		switch r.Intn(5) {
		case 0, 1:
			p3 = []Push{{Kind: "B", Title: P + "/" + leaf, Tag: 22}}
		case 2:
			p3 = []Push{{Kind: "U", Title: P, Entries: []Entry{{Kind: "r", Name: P + "/" + leaf, Tag: 23}}}}
		case 3:
			p3 = []Push{{Kind: "B", Title: P + "/" + leaf, Tag: 0}, {Kind: "B", Title: P, Tag: 24}}
		default:
			p3 = []Push{{Kind: "U", Title: a + "/z", Entries: []Entry{{Kind: "h", Name: a + "/z/h", Target: "../" + e + "/victim"}, {Kind: "r", Name: a + "/z/h", Tag: 25}}},
				{Kind: "B", Title: P + "/" + leaf, Tag: 26}}
		}
		c.Pushes = append(append(p1, p2...), p3...)
	case 17, 22: // manifest whose named layers are restored from content the store already holds
		c.Origin = "tpl-manifest-layers"
		titles := []string{pickSeg(r), "m/" + pickSeg(r), "../victim", "../wd-old/victim.txt", s3Dir + "/victim", "a/../../x/victim", wdDir + "/ok"}
		common.Shuffle(r, titles)
		c.Pushes = []Push{{Kind: "B", Title: "", Tag: 41}, {Kind: "B", Title: "", Tag: 42},
			{Kind: "M", Layers: []Layer{{Title: titles[0], Tag: 41}, {Title: titles[1], Tag: 42}, {Title: titles[2], Tag: 43}}}}
		switch r.Intn(4) {
		case 0:
			// content held in a named file: restored from that file as it is now
			if r.Chance(2, 3) {
				titles[0], titles[1] = "r1", "m/r2"
			}
			c.Pushes = []Push{{Kind: "B", Title: "n1", Tag: 51}, {Kind: "B", Title: "d/n2", Tag: 52},
				{Kind: "M", Layers: []Layer{{Title: titles[0], Tag: 51}, {Title: "n1", Tag: 51}, {Title: titles[1], Tag: 52}, {Title: "copy", Tag: 52}}},
				{Kind: "M", Layers: []Layer{{Title: titles[0], Tag: 51}, {Title: "n1", Tag: 51}, {Title: titles[1], Tag: 52}, {Title: "copy", Tag: 52}}},
				{Kind: "M", Layers: []Layer{{Title: "copy2", Tag: 52}, {Title: "", Tag: 51}}}}
		case 1:
			// the file was replaced since (other content, a link, gone): mismatch / not found
			c.Pushes = []Push{{Kind: "U", Title: "t", Entries: []Entry{{Kind: "d", Name: "t/b/b/b"}, {Kind: "s", Name: "t/b/b/b/s", Target: "../../.."}}},
				{Kind: "B", Title: "t/n1", Tag: 51}, {Kind: "B", Title: "t/n2", Tag: 52}, {Kind: "B", Title: "t/n3", Tag: 53},
				{Kind: "U", Title: "t/z", Entries: []Entry{{Kind: "h", Name: "t/z/h", Target: "../n1"}, {Kind: "r", Name: "t/z/h", Tag: 54}}},
				{Kind: "U", Title: "t", Entries: []Entry{{Kind: "s", Name: "t/n2", Target: "b/b/b/s/../../victim"}, {Kind: "s", Name: "t/n3", Target: "gone"}}},
				{Kind: "M", Layers: []Layer{{Title: "r3", Tag: 53}, {Title: titles[0], Tag: 52}, {Title: "r1", Tag: 51}, {Title: "never", Tag: 52}}}}
			common.Shuffle(r, c.Pushes[6].Layers)
		}
		if len(c.Pushes) == 3 && r.Bool() {
			// through a link planted earlier
			c.Pushes = append([]Push{{Kind: "U", Title: "t", Entries: []Entry{{Kind: "d", Name: "t/b/b/b"},
				{Kind: "s", Name: "t/b/b/b/s", Target: "../../.."}, {Kind: "s", Name: "t/l", Target: "b/b/b/s/../.."}}}}, c.Pushes...)
			c.Pushes[3].Layers[0].Title = common.Pick(r, []string{"t/l/victim", "t/l/x/victim", "t/l"})
		}
	case 18: // a named blob whose content fails verification: written, then removed again
		c.Origin = "tpl-bad-content"
		nm := common.Pick(r, []string{"f", "d/f", "t/l", "old", "a", "victim"})
		c.Pushes = []Push{{Kind: "U", Title: "t", Entries: []Entry{{Kind: "d", Name: "t/a/b"}, {Kind: "s", Name: "t/a/b/s", Target: "../.."},
			{Kind: "s", Name: "t/l", Target: "a/b/s/../../../victim"}}},
			{Kind: "B", Title: nm, Tag: 19}, {Kind: "B", Title: nm + "x", Tag: 0}, {Kind: "B", Title: common.Pick(r, []string{nm, "t/l", "../victim"}), Tag: 0}}
	case 16: // pre-populated hard link to a file outside (cp -al / ostree style checkout)
		c.Origin = "tpl-prepop-hardlink"
		peer := common.Pick(r, []string{s3Dir + "/victim", cwdDir + "/secret.txt", "/sb/s0/s1/victim"})
		c.Prep = append(c.Prep, Prep{Kind: "h", Path: wdDir + "/old", Target: peer})
		switch r.Intn(3) {
		case 0:
			c.Pushes = []Push{{Kind: "B", Title: "old", Tag: 16}}
		case 1:
			c.Pushes = []Push{{Kind: "U", Title: ".", Entries: []Entry{{Kind: "r", Name: "./old", Tag: 17, Mode: 0o600}}}}
			c.Preserve = r.Bool()
		default: // not written: nothing may change
			c.Pushes = []Push{{Kind: "U", Title: "t", Entries: []Entry{{Kind: "h", Name: "t/h", Target: "../old"}, {Kind: "s", Name: "t/l", Target: "../old"}}}}
		}
	case 12, 13: // titles that denote a sibling whose name starts with the working directory's name
		c.Origin = "tpl-prefix-sibling"
		title := siblingTitle(r)
		if r.Bool() {
			c.Pushes = []Push{{Kind: "B", Title: title, Tag: 11}}
		} else {
			c.Pushes = []Push{{Kind: "U", Title: title, Entries: []Entry{{Kind: "r", Name: title + "/" + fin, Tag: 12}, {Kind: "d", Name: title + "/k"}}}}
		}
	case 14, 15: // hard link n levels below the unpack directory with n ".." in its target: inside
		// relative to the link's directory, outside relative to the unpack directory
		c.Origin = "tpl-hardlink-nested-dotdot"
		n := 1 + r.Intn(3)
		dir := t + strings.Repeat("/s", n)
		tgt := common.Pick(r, []string{"victim", "a", "x/victim", "victim"})
		es := []Entry{{Kind: "d", Name: dir}}
		if r.Chance(2, 3) {
			// the file the link legitimately denotes
			if strings.Contains(tgt, "/") {
				es = append(es, Entry{Kind: "d", Name: t + "/" + path.Dir(tgt)})
			}
			es = append(es, Entry{Kind: "r", Name: t + "/" + tgt, Tag: 13})
		}
		es = append(es, Entry{Kind: "h", Name: dir + "/h", Target: ups(n) + tgt})
		if r.Bool() {
			es = append(es, Entry{Kind: "r", Name: dir + "/h", Tag: 14, Mode: 0o600})
			c.Pushes = []Push{{Kind: "U", Title: t, Entries: es}}
		} else {
			c.Pushes = []Push{{Kind: "U", Title: t, Entries: es}, {Kind: "B", Title: dir + "/h", Tag: 15}}
		}
	case 9, 10, 11: // names two or more levels below a planted link whose raw target leaves the tree:
		// the directory right below the link exists outside (decoy), so an Lstat of it succeeds
		c.Origin = "tpl-deep-below-link"
		climb := 2 + r.Intn(2) // from <wd>/t: 2 -> s3, 3 -> s2
		sub := common.Pick(r, []string{"x", "t", "x/t"})
		leaf := common.Pick(r, []string{"victim", "k", "k", "new/k"})
		es := []Entry{{Kind: "d", Name: t + "/b/b/b"},
			{Kind: "s", Name: t + "/b/b/b/s", Target: "../../.."},
			{Kind: "s", Name: t + "/l", Target: "b/b/b/s/" + strings.TrimSuffix(ups(climb+strings.Count(t, "/")), "/")}}
		deep := t + "/l/" + sub + "/" + leaf
		switch r.Intn(6) {
		case 0: // overwrite an existing file / create a new one
			es = append(es, Entry{Kind: "r", Name: deep, Tag: 5, Mode: 0o600})
		case 1: // hard link to an outside file, then truncate it through the new name
			es = append(es, Entry{Kind: "h", Name: t + "/h", Target: "l/" + sub + "/victim"},
				Entry{Kind: "r", Name: t + "/h", Tag: 6})
		case 2: // new hard link created outside
			es = append(es, Entry{Kind: "r", Name: t + "/f", Tag: 7}, Entry{Kind: "h", Name: t + "/l/" + sub + "/k", Target: wdDir + "/" + t + "/f"})
		case 3: // directory / link created outside
			es = append(es, Entry{Kind: common.Pick(r, []string{"d", "s"}), Name: t + "/l/" + sub + "/k", Target: "victim", Mode: 0o700})
		case 4: // in a second archive, and as a named blob
			c.Pushes = append(c.Pushes, Push{Kind: "U", Title: t, Entries: es})
			es = nil
			c.Pushes = append(c.Pushes, Push{Kind: "U", Title: t + "/z", Entries: []Entry{{Kind: "h", Name: t + "/z/h", Target: "../l/" + sub + "/victim"}, {Kind: "r", Name: t + "/z/h", Tag: 8}}},
				Push{Kind: "B", Title: deep, Tag: 9})
		default:
			c.Pushes = append(c.Pushes, Push{Kind: "U", Title: t, Entries: es})
			es = nil
			c.Pushes = append(c.Pushes, Push{Kind: "B", Title: deep, Tag: 9},
				Push{Kind: "U", Title: t + "/l/" + sub, Entries: []Entry{{Kind: "r", Name: t + "/l/" + sub + "/victim", Tag: 10}}})
		}
		if es != nil {
			c.Preserve = r.Bool()
			c.Pushes = append(c.Pushes, Push{Kind: "U", Title: t, Entries: es})
		}
	case 24, 25: // names and link targets whose parents run through a regular file: Lstat answers
		// ENOTDIR, which resolveRelToBase treats like "does not exist" (C12 fix d74dadf) - the
		// system call that follows fails (or, for a symbolic link, stores the raw target)
		c.Origin = "tpl-below-regular-file"
		f := common.Pick(r, []string{"f", "victim", "a"})
		sub := common.Pick(r, []string{"x", "x/y", "b/" + fin, "../" + f + "/x"})
		es := []Entry{{Kind: "r", Name: t + "/" + f, Tag: 1}}
		switch r.Intn(5) {
		case 0:
			es = append(es, Entry{Kind: "s", Name: t + "/l", Target: f + "/" + sub}, Entry{Kind: "r", Name: t + "/l", Tag: 2})
		case 1:
			es = append(es, Entry{Kind: "h", Name: t + "/h", Target: t + "/" + f + "/" + sub}, Entry{Kind: "r", Name: t + "/after", Tag: 2})
		case 2:
			es = append(es, Entry{Kind: "o", Name: t + "/" + f + "/" + sub}, Entry{Kind: "r", Name: t + "/" + f + "/" + sub, Tag: 2})
		case 3:
			es = append(es, Entry{Kind: "s", Name: t + "/l", Target: wdDir + "/" + t + "/" + f + "/" + sub},
				Entry{Kind: "d", Name: t + "/" + f + "/" + sub})
		default:
			es = append(es, Entry{Kind: "s", Name: t + "/" + f + "/" + sub + "/l", Target: "."},
				Entry{Kind: "h", Name: t + "/" + f + "/" + sub + "/h", Target: t + "/" + f})
		}
		c.Pushes = []Push{{Kind: "U", Title: t, Entries: es}}
		if r.Bool() {
			c.Pushes = append(c.Pushes, Push{Kind: "B", Title: t + "/" + f + "/" + sub, Tag: 3})
		}
	default: // write through a final link created by the store (stays inside when the link is sound)
		c.Origin = "tpl-final-link"
		c.Pushes = []Push{
			{Kind: "U", Title: t, Entries: []Entry{{Kind: "r", Name: t + "/f", Tag: 1}, {Kind: "s", Name: t + "/l", Target: "f"},
				{Kind: "r", Name: t + "/l", Tag: 2}, {Kind: "s", Name: t + "/m", Target: "nothere"}, {Kind: "r", Name: t + "/m", Tag: 3}}},
			{Kind: "B", Title: t + "/l", Tag: 4}}
	}
	// perturbation: sometimes add a random push in front or behind
	if r.Chance(1, 3) {
		tag := 50
		var earlier []string
		extra := genUnpack(r, genTitle(r, nil), &earlier, &tag)
		if r.Bool() {
			c.Pushes = append([]Push{extra}, c.Pushes...)
		} else {
			c.Pushes = append(c.Pushes, extra)
		}
	}
	return c
}

// stamped gives most archive entries a header time (distinct per entry of the case)
func stamped(r *common.Rand, c Case) Case {
	if r.Chance(1, 8) {
		hasHard := false
		for _, p := range c.Prep {
			if p.Kind == "h" {
				hasHard = true
			}
		}
		if !hasHard {
			c.Wd = common.Pick(r, []string{"missing", "missing", "link", "via"})
		}
	}
	k := 0
	for i := range c.Pushes {
		for j := range c.Pushes[i].Entries {
			k++
			if r.Chance(3, 4) {
				c.Pushes[i].Entries[j].Time = k
			}
		}
	}
	return c
}

func entryAlphabet(names, targets []string) []Entry {
	var a []Entry
	for _, n := range names {
		a = append(a, Entry{Kind: "r", Name: n}, Entry{Kind: "d", Name: n})
		for _, t := range targets {
			a = append(a, Entry{Kind: "s", Name: n, Target: t}, Entry{Kind: "h", Name: n, Target: t})
		}
	}
	return a
}

func enumerate(alpha []Entry, k int, tail []Push) {
	idx := make([]int, k)
	for {
		es := make([]Entry, k)
		for i, j := range idx {
			es[i] = alpha[j]
			if es[i].Kind == "r" {
				es[i].Tag = i + 1
			}
			es[i].Time = i + 1
		}
		c := Case{Prep: basePrep(), Origin: fmt.Sprintf("exhaustive-%d", k)}
		c.Pushes = append([]Push{{Kind: "U", Title: "t", Entries: es}}, tail...)
		runCase(c)
		i := k - 1
		for i >= 0 {
			idx[i]++
			if idx[i] < len(alpha) {
				break
			}
			idx[i] = 0
			i--
		}
		if i < 0 {
			return
		}
	}
}

func replay(pathname string, raw []byte) {
	var doc struct {
		Cases []json.RawMessage `json:"cases"`
	}
	if err := json.Unmarshal(raw, &doc); err != nil {
		panic(err)
	}
	_ = pathname
	for _, cm := range doc.Cases {
		var c Case
		if err := json.Unmarshal(cm, &c); err != nil || len(c.Pushes) == 0 {
			continue
		}
		if len(c.Prep) == 0 {
			c.Prep = basePrep()
		}
		// safety: a replay file must not name anything outside the sandbox
		ok := true
		for _, p := range c.Prep {
			if !(p.Path == sbRoot || strings.HasPrefix(p.Path, sbRoot+"/")) || strings.Contains(p.Path, "..") {
				ok = false
			}
		}
		if !ok {
			continue
		}
		c.Origin = "replay"
		runCase(c)
	}
}

func main() {
	run = common.Start("C11")
	defer run.Finish()
	run.Rule = "exhaustive: every 2-entry archive over 3 names x {reg,dir,symlink,hardlink} x 6 targets (thorough: + follow-up blobs, + all 3-entry archives over a sub-alphabet); random: cases = pre-populated tree + 1..3 pushes (named blob or tar+gzip to unpack, 1..6 entries over reg/dir/symlink/hardlink/other); names, titles and link targets from a grammar of segments, '..', '.', empty segments, absolute forms, earlier entry names and cwd decoys, plus perturbed attack templates; distinct = distinct case line; non-trivial = at least one push accepted"
	if v := os.Getenv("C11_CFG"); len(v) == 7 {
		modelCfg = v
	}
	var replayData []byte
	if run.Replay != "" {
		b, err := os.ReadFile(run.Replay)
		if err != nil {
			panic(err)
		}
		replayData = b
	}
	abs, err := filepath.Abs(run.Dir)
	if err != nil {
		panic(err)
	}
	if err := syscall.Chroot(abs); err != nil {
		fmt.Fprintln(os.Stderr, "C11 harness needs chroot (root) to confine the file-system activity to the run directory:", err)
		os.Exit(3)
	}
	if err := os.Chdir("/"); err != nil {
		panic(err)
	}
	run.Dir = "/"
	os.MkdirAll("/tmp", 0o755)
	os.Setenv("TMPDIR", "/tmp")
	syscall.Umask(0o022)

	if replayData != nil {
		replay(run.Replay, replayData)
		os.RemoveAll(sbRoot)
		return
	}
	// small-scope exhaustive part: every sequence of two entries over a small alphabet of
	// kinds, names and targets (thorough: also followed by a named blob through the names,
	// and all triples over a sub-alphabet)
	alpha := entryAlphabet([]string{"t/a", "t/b", "t/a/c"},
		[]string{"..", "a", "a/../../victim", "b/..", "secret.txt", wdDir + "/t/a"})
	tails := [][]Push{nil}
	if run.Thorough() {
		tails = append(tails, []Push{{Kind: "B", Title: "t/a/victim", Tag: 9}}, []Push{{Kind: "B", Title: "t/b/c/x", Tag: 9}})
	}
	for _, tail := range tails {
		enumerate(alpha, 2, tail)
	}
	if run.Thorough() {
		enumerate(entryAlphabet([]string{"t/a", "t/a/c"}, []string{"..", "a", "a/../../victim", wdDir + "/t/a"}), 3, nil)
	}
	r := run.Rand
	n := run.Scale(900, 36000)
	for i := 0; i < n; i++ {
		if i%4 == 0 {
			runCase(stamped(r, genTemplate(r)))
		} else {
			runCase(stamped(r, genRandom(r)))
		}
	}
	os.RemoveAll(sbRoot)
	// coverage floors: a run in which a stream produced nothing must not pass silently
	for _, k := range []string{"origin=exhaustive-2", "origin=random", "origin=tpl-deep-below-link", "origin=tpl-raw-target",
		"origin=tpl-prefix-sibling", "origin=tpl-hardlink-nested-dotdot", "origin=tpl-manifest-layers", "origin=tpl-bad-content",
		"origin=tpl-prepop-hardlink", "origin=tpl-revisit", "origin=tpl-below-regular-file", "wd=missing", "wd=link", "wd=via", "failing-archive", "manifest-cases", "push.B", "push.U", "push.M", "entry.r", "entry.d", "entry.h", "entry.s"} {
		if run.Dist[k] == 0 {
			fmt.Fprintln(os.Stderr, "C11 harness: coverage floor not met:", k, "= 0")
			run.Finish()
			os.Exit(4)
		}
	}
	accepted := 0
	for k, v := range run.Dist {
		if strings.HasPrefix(k, "verdicts=") && strings.Contains(k, "O") {
			accepted += v
		}
	}
	if accepted < run.Evaluations/10 {
		fmt.Fprintln(os.Stderr, "C11 harness: coverage floor not met: fewer than 10% of the cases have an accepted push")
		run.Finish()
		os.Exit(4)
	}
}
