// C20 harness: registry.ParseReference / Repository.ParseReference / URL builders.
//
// Writes, per case, the model input (cases.txt), the implementation's observable
// (impl.txt) and direct oracle failures (oracle.txt).  The oracle is independent
// of the Coq model: a hand-written grammar recogniser, the round-trip law, the
// agreement of reference forms and net/url's own view of each built URL.
package main

import (
	_ "crypto/sha256"
	_ "crypto/sha512"
	"errors"
	"fmt"
	"net/url"
	"os"
	"sort"
	"strconv"
	"strings"

	"github.com/opencontainers/go-digest"
	"oras.land/oras-go/v2/errdef"
	"oras.land/oras-go/v2/registry"
	"oras.land/oras-go/v2/registry/remote"
	"verifharness/common"
)

var run *common.Run

func hexDigest(alg string, n int, fill byte) string {
	return alg + ":" + strings.Repeat(string(fill), n)
}

var digestPool = []string{
	hexDigest("sha256", 64, 'a'),
	hexDigest("sha256", 64, '0'),
	hexDigest("sha384", 96, 'b'),
	hexDigest("sha512", 128, 'c'),
	hexDigest("sha256", 63, 'a'),  // short
	hexDigest("sha256", 65, 'a'),  // long
	hexDigest("sha256", 64, 'A'),  // upper-case hex
	hexDigest("sha256", 64, 'g'),  // not hex
	hexDigest("sha1", 40, 'a'),    // unregistered
	hexDigest("md5", 32, 'a'),     // unregistered
	hexDigest("sha512", 64, 'a'),  // wrong length for algorithm
	hexDigest("SHA256", 64, 'a'),  // upper-case algorithm
	"sha256:",                     // empty encoded
	":" + strings.Repeat("a", 64), // empty algorithm
	hexDigest("sha256+b64", 64, 'a'),
	"sha256:" + strings.Repeat("a", 32) + ":" + strings.Repeat("a", 31),
}

// ---------- independent grammar recogniser (the oracle) ----------

func isLowerAlnum(c byte) bool { return c >= 'a' && c <= 'z' || c >= '0' && c <= '9' }
func isWord(c byte) bool {
	return isLowerAlnum(c) || c >= 'A' && c <= 'Z' || c == '_'
}

// path component: alnum+ ( sep alnum+ )*, sep = '.' | '_' | '__' | '-'+
func okComponent(s string) bool {
	i, n := 0, len(s)
	eat := func() bool {
		j := i
		for i < n && isLowerAlnum(s[i]) {
			i++
		}
		return i > j
	}
	if !eat() {
		return false
	}
	for i < n {
		switch {
		case s[i] == '.':
			i++
		case s[i] == '_':
			i++
			if i < n && s[i] == '_' {
				i++
			}
		case s[i] == '-':
			for i < n && s[i] == '-' {
				i++
			}
		default:
			return false
		}
		if !eat() {
			return false
		}
	}
	return true
}

func okRepository(s string) bool {
	for _, c := range strings.Split(s, "/") {
		if !okComponent(c) {
			return false
		}
	}
	return true
}

func okTag(s string) bool {
	if len(s) < 1 || len(s) > 128 || !isWord(s[0]) {
		return false
	}
	for i := 1; i < len(s); i++ {
		if !isWord(s[i]) && s[i] != '.' && s[i] != '-' {
			return false
		}
	}
	return true
}

func okDigest(s string) bool {
	i := strings.IndexByte(s, ':')
	if i < 0 {
		return false
	}
	want := map[string]int{"sha256": 64, "sha384": 96, "sha512": 128}[s[:i]]
	enc := s[i+1:]
	if want == 0 || len(enc) != want {
		return false
	}
	for j := 0; j < len(enc); j++ {
		if !(enc[j] >= '0' && enc[j] <= '9' || enc[j] >= 'a' && enc[j] <= 'f') {
			return false
		}
	}
	return true
}

// registryVerdict: 1 accept, 0 reject, -1 not judged (left to net/url).
func registryVerdict(reg string) int {
	if reg == "" || strings.ContainsRune(reg, '@') {
		return 0
	}
	// '?' ends a URL authority (the rest would be a query), space, control characters and DEL
	// are refused by net/url: never a valid registry
	for i := 0; i < len(reg); i++ {
		if c := reg[i]; c == '?' || c <= ' ' || c == 0x7f {
			return 0
		}
	}
	safe := func(s string) bool {
		for i := 0; i < len(s); i++ {
			c := s[i]
			if !(isWord(c) || c == '-' || c == '.') {
				return false
			}
		}
		return true
	}
	i := strings.IndexByte(reg, ':')
	if i < 0 {
		if safe(reg) {
			return 1
		}
		return -1
	}
	h, p := reg[:i], reg[i+1:]
	if !safe(h) || h == "" || strings.ContainsRune(p, ':') {
		return -1
	}
	digits := true
	for j := 0; j < len(p); j++ {
		if p[j] < '0' || p[j] > '9' {
			digits = false
		}
	}
	if digits {
		return 1
	}
	if safe(p) {
		return 0
	}
	return -1
}

// grammar returns (judged, accepted, expected reference).  Strings ending in a
// bare ':' or '@' are not judged (documented leniency).
func grammar(s string) (bool, bool, registry.Reference) {
	var zero registry.Reference
	i := strings.IndexByte(s, '/')
	if i < 0 {
		return true, false, zero
	}
	reg, path := s[:i], s[i+1:]
	rv := registryVerdict(reg)
	if rv < 0 {
		return false, false, zero
	}
	if strings.HasSuffix(path, ":") || strings.HasSuffix(path, "@") {
		return false, false, zero
	}
	if rv == 0 {
		return true, false, zero
	}
	if j := strings.IndexByte(path, '@'); j >= 0 {
		repoTag, dg := path[:j], path[j+1:]
		repo := repoTag
		if k := strings.IndexByte(repoTag, ':'); k >= 0 {
			repo = repoTag[:k]
		}
		if okRepository(repo) && okDigest(dg) {
			return true, true, registry.Reference{Registry: reg, Repository: repo, Reference: dg}
		}
		return true, false, zero
	}
	if j := strings.IndexByte(path, ':'); j >= 0 {
		repo, tag := path[:j], path[j+1:]
		if okRepository(repo) && okTag(tag) {
			return true, true, registry.Reference{Registry: reg, Repository: repo, Reference: tag}
		}
		return true, false, zero
	}
	if okRepository(path) {
		return true, true, registry.Reference{Registry: reg, Repository: path}
	}
	return true, false, zero
}

// errObs maps an error to the observable: ERR = wraps errdef.ErrInvalidReference (the only
// error the parsers may return), ERRX = anything else (an oracle failure).
func errObs(id, fn, in string, err error, replay any) string {
	if err == nil {
		return ""
	}
	if errors.Is(err, errdef.ErrInvalidReference) {
		return "ERR"
	}
	run.OracleFail(id, "error-identity", fmt.Sprintf("%s(%q) failed with %v, which does not wrap errdef.ErrInvalidReference", fn, in, err), replay)
	return "ERRX"
}

// registryBadByte: bytes that no accepted registry may contain: controls and space, '#', '%',
// '/', '?', '@', '\\', DEL (they end the authority, introduce user-info or an escape).
func registryBadByte(reg string) (byte, bool) {
	for i := 0; i < len(reg); i++ {
		switch c := reg[i]; {
		case c <= ' ', c == '#', c == '%', c == '/', c == '?', c == '@', c == '\\', c == 0x7f:
			return c, true
		}
	}
	return 0, false
}

func showRef(r registry.Reference) string {
	return fmt.Sprintf("OK %s %s %s", common.Hex(r.Registry), common.Hex(r.Repository), common.Hex(r.Reference))
}

// ---------- the cases ----------

func parseCase(s string) {
	id := run.NewID()
	ref, err := registry.ParseReference(s)
	obs := errObs(id, "ParseReference", s, err, map[string]string{"op": "P", "input": s})
	if err == nil {
		obs = showRef(ref) + " FMT " + common.Hex(ref.String())
		run.Nontrivial("P:" + s)
		run.Count("parse_ok")
		// the registry of an accepted reference is a URL authority: none of the bytes that
		// end or restructure an authority (this is the hypothesis of theorem C20_url_exact)
		if c, bad := registryBadByte(ref.Registry); bad {
			run.OracleFail(id, "registry-charset", fmt.Sprintf("ParseReference(%q) accepted registry %q containing byte %#x", s, ref.Registry, c),
				map[string]string{"op": "P", "input": s})
		}
	} else {
		run.Count("parse_err")
	}
	run.Case(id, "P "+common.Hex(s), obs)
	run.Sample(map[string]string{"op": "ParseReference", "input": s, "result": obs})

	// oracle 1: grammar
	judged, acc, want := grammar(s)
	if judged {
		if acc {
			run.Count("parse_judged_accept")
		} else {
			run.Count("parse_judged_reject")
		}
		if acc != (err == nil) {
			run.OracleFail(id, "grammar-accept", fmt.Sprintf("ParseReference(%q): accepted=%v, grammar says %v", s, err == nil, acc),
				map[string]string{"op": "P", "input": s})
		} else if acc && ref != want {
			run.OracleFail(id, "grammar-parts", fmt.Sprintf("ParseReference(%q) = %+v, grammar says %+v", s, ref, want),
				map[string]string{"op": "P", "input": s})
		}
	} else {
		run.Count("parse_unjudged")
	}
	if err != nil {
		return
	}
	// oracle 2: round trip
	back, err2 := registry.ParseReference(ref.String())
	if err2 != nil || back != ref {
		run.OracleFail(id, "roundtrip", fmt.Sprintf("ParseReference(%q)=%+v; String()=%q re-parses to %+v, %v", s, ref, ref.String(), back, err2),
			map[string]string{"op": "P", "input": s})
	}
	// oracle 3: URL slot, as net/url sees it (for registries net/url alone adjudicates only the
	// query/fragment/segment-count part is judged, in checkURLLoose)
	if ref.Reference != "" && registryVerdict(ref.Registry) != 1 {
		for _, kind := range []string{"manifest", "blob", "referrers"} {
			checkURLLoose(id, kind, ref)
		}
	}
	if ref.Reference != "" && registryVerdict(ref.Registry) == 1 {
		for _, kind := range []string{"manifest", "blob", "referrers"} {
			for _, plain := range []bool{false, true} {
				checkURL(id, kind, plain, ref)
			}
		}
	}
}

func checkURL(id, kind string, plain bool, ref registry.Reference) {
	u := remote.VerifURL(kind, plain, ref)
	seg := map[string]string{"manifest": "manifests", "blob": "blobs", "referrers": "referrers"}[kind]
	bad := func(msg string) {
		run.OracleFail(id, "url-slot", fmt.Sprintf("%s URL %q of %+v: %s", kind, u, ref, msg),
			map[string]any{"op": "U", "kind": kind, "plain": plain, "registry": ref.Registry, "repository": ref.Repository, "reference": ref.Reference})
	}
	pu, err := url.Parse(u)
	if err != nil {
		bad("does not parse: " + err.Error())
		return
	}
	if pu.RawQuery != "" || pu.Fragment != "" || pu.ForceQuery || pu.User != nil {
		bad("has query, fragment or user-info")
	}
	wantScheme := "https"
	if plain {
		wantScheme = "http"
	}
	if pu.Scheme != wantScheme || pu.Host != ref.Host() {
		bad("scheme or host differ")
	}
	want := append(append([]string{"", "v2"}, strings.Split(ref.Repository, "/")...), seg, ref.Reference)
	got := strings.Split(pu.EscapedPath(), "/")
	if strings.Join(got, "\x00") != strings.Join(want, "\x00") || pu.Path != pu.EscapedPath() {
		bad(fmt.Sprintf("path segments %q, want %q", got, want))
	}
}

// checkURLLoose: whatever the registry looks like, the built URL must not carry a query or a
// fragment and its path must have exactly the /v2/<repository>/<kind>/<reference> segments.
func checkURLLoose(id, kind string, ref registry.Reference) {
	u := remote.VerifURL(kind, false, ref)
	seg := map[string]string{"manifest": "manifests", "blob": "blobs", "referrers": "referrers"}[kind]
	pu, err := url.Parse(u)
	if err != nil {
		return // net/url itself refuses the authority: nothing can be sent
	}
	want := append(append([]string{"", "v2"}, strings.Split(ref.Repository, "/")...), seg, ref.Reference)
	got := strings.Split(pu.EscapedPath(), "/")
	if pu.RawQuery != "" || pu.ForceQuery || pu.Fragment != "" || strings.Join(got, "\x00") != strings.Join(want, "\x00") {
		run.OracleFail(id, "url-slot", fmt.Sprintf("%s URL %q of %+v: query %q fragment %q path segments %q, want %q and no query", kind, u, ref, pu.RawQuery, pu.Fragment, got, want),
			map[string]any{"op": "U", "kind": kind, "plain": false, "registry": ref.Registry, "repository": ref.Repository, "reference": ref.Reference})
	}
}

func urlCase(kind string, plain bool, ref registry.Reference) {
	id := run.NewID()
	u := remote.VerifURL(kind, plain, ref)
	p := "0"
	if plain {
		p = "1"
	}
	// net/url's own parse of the built URL, compared with the model's RFC 3986 splitter
	split := "NOSPLIT"
	if pu, err := url.Parse(u); err == nil {
		opt := func(present bool, v string) string {
			if !present {
				return "none"
			}
			return "some:" + common.Hex(v)
		}
		split = fmt.Sprintf("SPLIT %s %s %s %s %s", common.Hex(pu.Scheme), common.Hex(pu.Host), common.Hex(pu.EscapedPath()),
			opt(pu.RawQuery != "" || pu.ForceQuery, pu.RawQuery), opt(pu.Fragment != "" || strings.HasSuffix(u, "#"), pu.EscapedFragment()))
		if pu.User != nil {
			split += " USERINFO"
		}
	}
	run.Case(id, fmt.Sprintf("U %s %s %s %s %s", kind, p, common.Hex(ref.Registry), common.Hex(ref.Repository), common.Hex(ref.Reference)),
		"URL "+common.Hex(u)+" "+split)
	run.Nontrivial("U:" + kind + p + ref.String())
	run.Count("url_" + kind)
}

// baseJudged: the property's Repository clauses are judged for bases that are themselves valid
// (a literal &Repository{Reference: ...} is not validated by the library; such bases are still
// generated and compared with the model, but not judged by the oracle).
func baseJudged(base registry.Reference) bool {
	return registryVerdict(base.Registry) == 1 && okRepository(base.Repository)
}

// namesOtherRepository: ground truth for "other registries or repositories".  A reference string
// that contains a '/' before its first '@' is a path (tags and digests never contain '/'): it names
// the base repository only when it is <base registry>/<base repository> followed by the end, ':' or
// '@'.  Anything else with a '/' names something that is not the base, well-formed or not.
func namesOtherRepository(base registry.Reference, s string) bool {
	head := s
	if i := strings.IndexByte(s, '@'); i >= 0 {
		head = s[:i]
	}
	if !strings.Contains(head, "/") {
		return false
	}
	b := base.Registry + "/" + base.Repository
	if !strings.HasPrefix(s, b) {
		return true
	}
	rest := s[len(b):]
	return !(rest == "" || rest[0] == ':' || rest[0] == '@')
}

// queryURLCases: the two builders that carry a query (oracle only, not modelled): the referrers
// URL with an artifactType filter and the cross-repository mount URL.  As net/url sees them the
// path must be exactly the slot and the query must decode to exactly the intended parameters.
func queryURLCases(r *common.Rand) {
	ats := []string{"application/vnd.example+type", "a b", "a&b=c", "x#y", "a?b", "\xc3\xa9", "%41", "a+b", "a/b;c=d", "=&", "application/vnd.oci.image.config.v1+json"}
	for i := 0; i < run.Scale(1500, 30000); i++ {
		ref, err := registry.ParseReference(randomValid(r))
		if err != nil || registryVerdict(ref.Registry) != 1 {
			continue
		}
		ref.Reference = randDigestValid(r)
		if r.Bool() {
			queryURLCase("referrers", r.Bool(), ref, common.Pick(r, ats))
		} else if from, err := registry.ParseReference(randomValid(r)); err == nil {
			queryURLCase("mount", r.Bool(), ref, from.Repository)
		}
	}
}

// queryURLCase: kind "referrers": arg = artifactType filter; kind "mount": arg = source repository
// (a valid repository name; ref.Reference is the digest to mount).
func queryURLCase(kind string, plain bool, ref registry.Reference, arg string) {
	id := run.NewID()
	run.Count("url_query_" + kind)
	var u, wantPath string
	want := map[string]string{}
	if kind == "referrers" {
		u = remote.VerifReferrersURL(plain, ref, arg)
		wantPath = "/v2/" + ref.Repository + "/referrers/" + ref.Reference
		want["artifactType"] = arg
	} else {
		u = remote.VerifMountURL(plain, ref, digest.Digest(ref.Reference), arg)
		wantPath = "/v2/" + ref.Repository + "/blobs/uploads/"
		want["mount"], want["from"] = ref.Reference, arg
	}
	rep := map[string]any{"op": "Q", "kind": kind, "plain": plain, "registry": ref.Registry, "repository": ref.Repository, "reference": ref.Reference, "input": arg}
	pu, err := url.Parse(u)
	if err != nil {
		run.OracleFail(id, "url-query", fmt.Sprintf("%s URL %q of %+v does not parse: %v", kind, u, ref, err), rep)
		return
	}
	q, qerr := url.ParseQuery(pu.RawQuery)
	ok := qerr == nil && len(q) == len(want)
	for k, v := range want {
		ok = ok && len(q[k]) == 1 && q[k][0] == v
	}
	if !ok || pu.Host != ref.Host() || pu.User != nil || pu.Fragment != "" || pu.EscapedPath() != wantPath {
		run.OracleFail(id, "url-query", fmt.Sprintf("%s URL %q of %+v (%q): host %q path %q query %v fragment %q; want path %q and exactly %v", kind, u, ref, arg, pu.Host, pu.EscapedPath(), q, pu.Fragment, wantPath, want), rep)
	}
}

func repoCase(base registry.Reference, s string) {
	id := run.NewID()
	repo := &remote.Repository{Reference: base}
	rep := map[string]string{"op": "R", "registry": base.Registry, "repository": base.Repository, "basereference": base.Reference, "input": s}
	ref, err := repo.ParseReference(s)
	obs := errObs(id, fmt.Sprintf("Repository(%v).ParseReference", base), s, err, rep)
	judged := baseJudged(base)
	if !judged {
		run.Count("repo_base_unjudged")
	}
	if err == nil {
		obs = showRef(ref)
		run.Nontrivial("R:" + base.String() + "|" + s)
		run.Count("repo_ok")
		if ref.Registry != base.Registry || ref.Repository != base.Repository || ref.Reference == "" {
			run.OracleFail(id, "repo-foreign", fmt.Sprintf("Repository(%v).ParseReference(%q) = %+v leaves the base", base, s, ref), rep)
		}
		if !okTag(ref.Reference) && !okDigest(ref.Reference) {
			run.OracleFail(id, "repo-invalid-reference", fmt.Sprintf("Repository(%v).ParseReference(%q) = %+v: reference neither tag nor digest", base, s, ref), rep)
		}
		if judged && namesOtherRepository(base, s) {
			run.Count("repo_other_path_accepted")
			run.OracleFail(id, "repo-foreign-path", fmt.Sprintf("Repository(%v).ParseReference(%q) = %+v: the input names a path that is not the base repository, yet it is accepted and re-targeted to the base", base, s, ref), rep)
		}
	} else {
		run.Count("repo_err")
		if namesOtherRepository(base, s) {
			run.Count("repo_other_path_rejected")
		}
	}
	run.Case(id, fmt.Sprintf("R %s %s %s", common.Hex(base.Registry), common.Hex(base.Repository), common.Hex(s)), obs)
}

// formsAgree: tag, digest, tag@digest, B:tag, B@digest resolve to the same reference.
func formsAgree(base registry.Reference, tag, dg string) {
	repo := &remote.Repository{Reference: base}
	b := base.Registry + "/" + base.Repository
	type form struct{ in, want string }
	forms := []form{{tag, tag}, {dg, dg}, {tag + "@" + dg, dg}, {b + ":" + tag, tag}, {b + "@" + dg, dg}, {b + ":" + tag + "@" + dg, dg}}
	for _, f := range forms {
		repoCase(base, f.in)
		ref, err := repo.ParseReference(f.in)
		want := registry.Reference{Registry: base.Registry, Repository: base.Repository, Reference: f.want}
		if err != nil || ref != want {
			run.OracleFail(run.NewID(), "repo-forms", fmt.Sprintf("Repository(%v).ParseReference(%q) = %+v, %v; want %+v", base, f.in, ref, err, want),
				map[string]string{"op": "R", "registry": base.Registry, "repository": base.Repository, "input": f.in})
		}
	}
	// other registry / repository / empty are rejected
	// docker.io is sent to registry-1.docker.io, but the two names are different registries
	alias := map[string]string{"docker.io": "registry-1.docker.io", "registry-1.docker.io": "docker.io"}[base.Registry]
	foreign := []string{"", "other.io/" + base.Repository + ":" + tag, base.Registry + "/other/" + base.Repository + ":" + tag, b,
		// malformed foreign references carrying a valid digest: still other registries / repositories
		"ghcr.io/Org/app@" + dg, "ghcr.io/Org/app:" + tag + "@" + dg, "evil.example:bad/x@" + dg, "other.io/" + strings.ToUpper(base.Repository) + "@" + dg,
		base.Registry + "/" + base.Repository + "x@" + dg, base.Registry + "/" + base.Repository + "/@" + dg, tag + "/" + tag + "@" + dg, "/@" + dg}
	if alias != "" {
		foreign = append(foreign, alias+"/"+base.Repository+":"+tag, alias+"/"+base.Repository+"@"+dg, alias+"/"+base.Repository)
	}
	for _, in := range foreign {
		repoCase(base, in)
		if ref, err := repo.ParseReference(in); err == nil {
			run.OracleFail(run.NewID(), "repo-foreign", fmt.Sprintf("Repository(%v).ParseReference(%q) accepted as %+v", base, in, ref),
				map[string]string{"op": "R", "registry": base.Registry, "repository": base.Repository, "input": in})
		}
	}
}

// enumerate all strings over alphabet up to length n, digest slot 'D' expanded from the pool.
func enumerate(alphabet []string, n int, f func(string)) {
	var rec func(prefix string, depth int)
	rec = func(prefix string, depth int) {
		f(prefix)
		if depth == n {
			return
		}
		for _, a := range alphabet {
			rec(prefix+a, depth+1)
		}
	}
	rec("", 0)
}

func randomValid(r *common.Rand) string {
	comp := func() string {
		alnum := "abcxyz0189"
		n := 1 + r.Intn(4)
		var sb strings.Builder
		for i := 0; i < n; i++ {
			if i > 0 {
				sb.WriteString(common.Pick(r, []string{".", "_", "__", "-", "--", "---", ""}))
			}
			k := 1 + r.Intn(3)
			for j := 0; j < k; j++ {
				sb.WriteByte(alnum[r.Intn(len(alnum))])
			}
		}
		return sb.String()
	}
	reg := common.Pick(r, []string{"localhost", "localhost:5000", "docker.io", "registry.example.com", "127.0.0.1:443", "a-b.c_d", "reg:",
		"registry-1.docker.io", "host?x=y", "host?", "h:5000?q", "host#frag", "[::1]:5000", "ho st"})
	nc := 1 + r.Intn(3)
	parts := make([]string, nc)
	for i := range parts {
		parts[i] = comp()
	}
	s := reg + "/" + strings.Join(parts, "/")
	tagc := "abzAZ09_.-"
	tag := func() string {
		n := 1 + r.Intn(10)
		if r.Chance(1, 6) {
			n = 126 + r.Intn(5)
		}
		var sb strings.Builder
		sb.WriteByte("aZ0_"[r.Intn(4)])
		for i := 1; i < n; i++ {
			sb.WriteByte(tagc[r.Intn(len(tagc))])
		}
		return sb.String()
	}
	switch r.Intn(4) {
	case 0:
		return s
	case 1:
		return s + ":" + tag()
	case 2:
		if r.Bool() {
			return s + "@" + randDigest(r)
		}
		return s + "@" + common.Pick(r, digestPool)
	default:
		t := tag()
		if r.Chance(1, 3) {
			t = randJunk(r)
		}
		if r.Bool() {
			return s + ":" + t + "@" + randDigest(r)
		}
		return s + ":" + t + "@" + common.Pick(r, digestPool)
	}
}

// randDigest: a digest with random mixed hex (boundary characters '0' '9' 'a' 'f' over-represented),
// valid with probability ~1/2, otherwise with one realistic defect.
func randDigest(r *common.Rand) string {
	algs := []struct {
		name string
		n    int
	}{{"sha256", 64}, {"sha384", 96}, {"sha512", 128}}
	a := common.Pick(r, algs)
	hexc := "0123456789abcdef09af09af"
	bs := make([]byte, a.n)
	for i := range bs {
		bs[i] = hexc[r.Intn(len(hexc))]
	}
	name := a.name
	switch r.Intn(14) {
	case 0:
		bs[r.Intn(len(bs))] = "gG/:@FA`"[r.Intn(8)]
	case 1:
		bs = bs[:len(bs)-1]
	case 2:
		bs = append(bs, 'f')
	case 3:
		name = common.Pick(r, otherAlgs)
	case 4:
		name = common.Pick(r, algs).name // possibly wrong length for the algorithm
	case 5:
		bs = bs[:r.Intn(3)]
	case 6:
		name = strings.ToUpper(name[:1]) + name[1:]
	}
	return name + ":" + string(bs)
}

// algorithm names go-digest v1.0.0 does not register (or that other versions / callers might)
var otherAlgs = []string{"sha1", "md5", "sha224", "sha512-256", "sha512_256", "sha3-256", "blake3", "blake2b", "sha256+b64", "sha256.x", "multihash+base58", "sha", "", "SHA256", "sha-256"}

// junk: what may stand between ':' and '@' (a tag that is dropped unvalidated): valid tags, and
// strings with ':', '/', invalid tag characters, over-long ones
func randJunk(r *common.Rand) string {
	switch r.Intn(6) {
	case 0:
		return common.Pick(r, []string{"v1", "latest", "A.b-c_d", ""})
	case 1:
		return common.Pick(r, []string{"a:b", "a/b", "v1:", ":v1", "-x", ".x", "a b", "a%41", "a?b", "a#b", "\xc3\xa9", "../x", "//", "x/y:z"})
	case 2:
		return strings.Repeat("x", 120+r.Intn(20))
	default:
		n := 1 + r.Intn(6)
		cs := "abzAZ09_.-:/ ?#%+~!"
		var sb strings.Builder
		for i := 0; i < n; i++ {
			sb.WriteByte(cs[r.Intn(len(cs))])
		}
		return sb.String()
	}
}

// otherPath: a reference string naming a path that is NOT the base repository: well-formed foreign
// references and malformed ones (invalid repository / registry) with and without digest
func otherPath(r *common.Rand, base registry.Reference) string {
	regs := []string{"ghcr.io", "other.io", "evil.example:bad", "localhost:5000", "docker.io", "registry-1.docker.io", "a", "UP.example", "h?x", "u@h", "", base.Registry, base.Registry + "x", strings.ToUpper(base.Registry)}
	repos := []string{"Org/app", "org/app", "a", "a/b", "A", "a//b", "a/", "-a", "a_", "a..b", "library/x", base.Repository, base.Repository + "x", base.Repository + "/x", "x/" + base.Repository, strings.ToUpper(base.Repository), ""}
	for {
		reg, rp := common.Pick(r, regs), common.Pick(r, repos)
		if reg == base.Registry && rp == base.Repository {
			continue
		}
		s := reg + "/" + rp
		switch r.Intn(6) {
		case 0:
			s += ":v1"
		case 1:
			s += ":" + randJunk(r) + "@" + randDigest(r)
		case 2:
			s += ":v1@" + digestPool[r.Intn(4)]
		case 3:
			s += "@" + randDigest(r)
		default:
			s += "@" + digestPool[r.Intn(4)]
		}
		return s
	}
}

// componentCase: one validator on one component ("repo", "tag", "digest"): implementation vs
// model (correspondence) vs the hand-written recogniser (oracle)
func componentCase(kind, s string) {
	id := run.NewID()
	var got, want bool
	switch kind {
	case "repo":
		got, want = registry.Reference{Repository: s}.ValidateRepository() == nil, okRepository(s)
	case "tag":
		got, want = registry.Reference{Reference: s}.ValidateReferenceAsTag() == nil, okTag(s)
	case "digest":
		got, want = digest.Digest(s).Validate() == nil, okDigest(s)
		if got2 := (registry.Reference{Reference: s}).ValidateReferenceAsDigest() == nil; got2 != got {
			run.OracleFail(id, "component-digest", fmt.Sprintf("ValidateReferenceAsDigest(%q)=%v but go-digest Validate=%v", s, got2, got), map[string]string{"op": "V", "kind": kind, "input": s})
		}
	}
	run.Case(id, "V "+kind+" "+common.Hex(s), fmt.Sprintf("VALID %v", got))
	run.Count("component_" + kind)
	if got {
		run.Nontrivial("V:" + kind + ":" + s)
		run.Count("component_" + kind + "_ok")
	}
	if got != want {
		run.OracleFail(id, "component-"+kind, fmt.Sprintf("%s validator accepts %q = %v, documented rule says %v", kind, s, got, want),
			map[string]string{"op": "V", "kind": kind, "input": s})
	}
}

func randDigestValid(r *common.Rand) string {
	for {
		if d := randDigest(r); okDigest(d) {
			return d
		}
	}
}

func mutate(r *common.Rand, s string) string {
	bs := []byte(s)
	special := []byte("/:@.-_ A%?#[]\\\x00\x7f\xc3\xa9+~")
	switch r.Intn(4) {
	case 0:
		if len(bs) > 0 {
			bs[r.Intn(len(bs))] = special[r.Intn(len(special))]
		}
	case 1:
		i := r.Intn(len(bs) + 1)
		bs = append(bs[:i], append([]byte{special[r.Intn(len(special))]}, bs[i:]...)...)
	case 2:
		if len(bs) > 0 {
			i := r.Intn(len(bs))
			bs = append(bs[:i], bs[i+1:]...)
		}
	case 3:
		if len(bs) > 1 {
			i, j := r.Intn(len(bs)), r.Intn(len(bs))
			bs[i], bs[j] = bs[j], bs[i]
		}
	}
	return string(bs)
}

func main() {
	run = common.Start("C20")
	defer run.Finish()
	run.Rule = "exhaustive strings over {a A 0 . _ - / : @ [ ]} up to the tier's length bound, plus generated valid references, digest-pool fillings and byte mutations; distinct = distinct input string; non-trivial = accepted by the implementation (or a URL/repository-form case)"

	if run.Replay != "" {
		replay(run.Replay)
		return
	}

	alphabet := []string{"a", "A", "0", ".", "_", "-", "/", ":", "@", "[", "]"}
	maxLen := run.Scale(5, 6)
	enumerate(alphabet, maxLen, parseCase)
	run.Extra["exhaustive_length"] = maxLen
	run.Extra["exhaustive_alphabet"] = strings.Join(alphabet, " ")

	// digest positions
	for _, d := range digestPool {
		for _, pre := range []string{"r/a@", "r/a:t@", "r/a:@", "r:5/a/b@", "r/a:" /* digest as tag */, "r/a@x", "r/@", "r/a/@"} {
			parseCase(pre + d)
		}
	}
	r := run.Rand
	nRandom := run.Scale(20000, 400000)
	for i := 0; i < nRandom; i++ {
		s := randomValid(r)
		k := r.Intn(4)
		for j := 0; j < k; j++ {
			s = mutate(r, s)
		}
		parseCase(s)
	}
	// tag length boundary
	for _, n := range []int{1, 2, 127, 128, 129, 130, 200} {
		parseCase("localhost/a:" + strings.Repeat("a", n))
		parseCase("localhost/a:_" + strings.Repeat("-", n-1))
	}

	// components on their own: repository rule exhaustively over its own alphabet, digests
	// with random mixed hex and algorithm names, tags around the length bound
	repoLen := run.Scale(7, 9)
	enumerate([]string{"a", "0", ".", "_", "-", "/"}, repoLen, func(s string) { componentCase("repo", s) })
	run.Extra["repository_exhaustive_length"] = repoLen
	for _, s := range []string{"A", "a b", "a:b", "a@b", "a\x00", "\xc3\xa9", "a/b/c/d/e", "a--__b", "a__--b", "a_-b", "a._b", "a-.b", "a___b", strings.Repeat("a", 300)} {
		componentCase("repo", s)
	}
	for i := 0; i < run.Scale(20000, 300000); i++ {
		d := randDigest(r)
		if r.Chance(1, 5) {
			d = mutate(r, d)
		}
		componentCase("digest", d)
	}
	for _, d := range digestPool {
		componentCase("digest", d)
	}
	for _, a := range otherAlgs {
		for _, n := range []int{32, 40, 56, 64, 96, 128} {
			componentCase("digest", hexDigest(a, n, 'a'))
		}
	}
	enumerate([]string{"a", "A", "0", "_", ".", "-", ":", "/"}, run.Scale(4, 5), func(s string) { componentCase("tag", s) })
	for _, n := range []int{127, 128, 129} {
		componentCase("tag", strings.Repeat("a", n))
		componentCase("tag", "_"+strings.Repeat(".", n-1))
	}

	// Repository.ParseReference
	bases := []registry.Reference{
		{Registry: "localhost:5000", Repository: "hello/world"},
		{Registry: "docker.io", Repository: "library/x"},
		{Registry: "a", Repository: "a"},
		{Registry: "registry-1.docker.io", Repository: "library/x"},
		{Registry: "UP.Example.COM", Repository: "a/b-c", Reference: "v9"},            // upper-case host, base Reference set
		{Registry: "127.0.0.1:443", Repository: "a__b/c.d", Reference: digestPool[0]}, // base Reference = digest
		// bases the library does not validate (a literal Repository{}): not judged by the oracle,
		// compared with the model
		{Registry: "[::1]:5000", Repository: "x"},
		{Registry: "reg:", Repository: "x"},
		{Registry: "localhost", Repository: "Up/x"},
		{Registry: "h?q", Repository: "x"},
		{Registry: "", Repository: ""},
	}
	for _, base := range bases {
		if !baseJudged(base) {
			continue
		}
		for _, tag := range []string{"v1", "latest", "A.b-c_d", strings.Repeat("x", 128)} {
			for _, d := range digestPool[:4] {
				formsAgree(base, tag, d)
			}
			formsAgree(base, tag, randDigestValid(r))
		}
	}
	for _, base := range bases {
		enumerate(alphabet, run.Scale(3, 4), func(s string) { repoCase(base, s) })
		for i := 0; i < run.Scale(3000, 60000); i++ {
			var s string
			switch r.Intn(8) {
			case 0:
				s = randomValid(r)
			case 1:
				s = base.Registry + "/" + base.Repository + common.Pick(r, []string{":v1", "@" + digestPool[0], ":v1@" + digestPool[0], "", ":", "@",
					":" + randJunk(r) + "@" + randDigest(r), "@" + randDigest(r), ":" + randJunk(r)})
			case 2:
				s = common.Pick(r, digestPool)
			case 3:
				s = "t" + "@" + common.Pick(r, digestPool)
			case 4:
				s = randJunk(r) + "@" + randDigest(r)
			case 5, 6:
				s = otherPath(r, base)
			default:
				s = common.Pick(r, []string{"v1", "a/b", "a:b", "@", ":", "a@b", "sha256:abc"})
			}
			if r.Chance(1, 3) {
				s = mutate(r, s)
			}
			repoCase(base, s)
		}
	}

	// reference-taking operations: requests built from the resolved reference
	for _, base := range bases {
		if strings.HasSuffix(base.Registry, ":") {
			// net/http strips an empty port from the request URL (http://reg:/ is sent as
			// http://reg/): same authority, different string; such bases are exercised by the
			// Repository.ParseReference cases only
			run.Count("op_base_empty_port_skipped")
			continue
		}
		if !baseJudged(base) {
			// an unvalidated literal base (outside the property's quantifier) is exercised by the
			// Repository.ParseReference cases only: what net/http does with such a host is not modelled
			run.Count("op_base_invalid_skipped")
			continue
		}
		for _, tag := range []string{"v1", "A.b-c_d", strings.Repeat("x", 128)} {
			for _, d := range digestPool[:4] {
				opForms(base, tag, d)
			}
			opForms(base, tag, randDigestValid(r))
		}
		for i := 0; i < run.Scale(1500, 30000); i++ {
			var s string
			switch r.Intn(8) {
			case 0:
				s = randomValid(r)
			case 1:
				s = base.Registry + "/" + base.Repository + common.Pick(r, []string{":v1", "@" + digestPool[0], ":v1@" + digestPool[0], "", ":", "@",
					":" + randJunk(r) + "@" + randDigest(r), "@" + randDigest(r), ":" + randJunk(r)})
			case 2:
				s = common.Pick(r, digestPool)
			case 3:
				s = "t" + "@" + common.Pick(r, digestPool)
			case 4:
				s = randJunk(r) + "@" + randDigest(r)
			case 5, 6:
				s = otherPath(r, base)
			default:
				s = common.Pick(r, []string{"v1", "a/b", "a:b", "@", ":", "a@b", "sha256:abc", "v1@", "v 1", "v1?x=1", "v1#f", "../x"})
			}
			if r.Chance(1, 3) {
				s = mutate(r, s)
			}
			opCase(base, common.Pick(r, opKinds), r.Bool(), s, "")
		}
	}

	// URL builders on accepted references
	for i := 0; i < run.Scale(8000, 100000); i++ {
		ref, err := registry.ParseReference(randomValid(r))
		if err != nil {
			continue
		}
		kinds := []string{"manifest", "blob", "referrers", "taglist", "upload"}
		urlCase(common.Pick(r, kinds), r.Bool(), ref)
	}
	queryURLCases(r)
	coverageFloors()
}

// coverageFloors: a run in which one of the input classes silently produced (almost) nothing is a
// broken run (layer R), not a pass.  The floors are far below what every seed produces.
func coverageFloors() {
	floors := map[string]int{
		"parse_ok": 2000, "parse_judged_accept": 1500, "parse_judged_reject": 50000, "repo_ok": 2000, "repo_err": 5000,
		"repo_other_path_rejected": 3000, "component_repo_ok": 5000, "component_digest_ok": 3000, "component_tag_ok": 500,
		"op_mresolve": 500, "op_mfetchref": 500, "op_tag": 500, "op_pushref": 500, "op_bresolve": 500, "op_bfetchref": 500,
		"op_sent": 3000, "op_refused": 3000, "op_ground_truth": 500,
		"url_manifest": 100, "url_blob": 100, "url_referrers": 100, "url_taglist": 100, "url_upload": 100,
		"url_query_referrers": 100, "url_query_mount": 100,
	}
	for v := 0; v < 8; v++ {
		floors[fmt.Sprintf("op_variant_%d", v)] = 500
	}
	var low []string
	for k, n := range floors {
		if run.Dist[k] < n {
			low = append(low, fmt.Sprintf("%s=%d<%d", k, run.Dist[k], n))
		}
	}
	if len(low) > 0 {
		sort.Strings(low)
		fmt.Fprintln(os.Stderr, "coverage floor not reached:", strings.Join(low, " "))
		run.Finish()
		os.Exit(3)
	}
}

func replay(path string) {
	for _, c := range common.ReadReplay(path) {
		switch c["op"] {
		case "P":
			parseCase(c["input"])
		case "R":
			repoCase(registry.Reference{Registry: c["registry"], Repository: c["repository"], Reference: c["basereference"]}, c["input"])
		case "V":
			componentCase(c["kind"], c["input"])
		case "Q":
			queryURLCase(c["kind"], c["plain"] == "true", registry.Reference{Registry: c["registry"], Repository: c["repository"], Reference: c["reference"]}, c["input"])
		case "O":
			// a replay without a variant (made from a model/implementation mismatch) runs all of them
			lo, hi := 0, 7
			if v, err := strconv.Atoi(c["variant"]); err == nil {
				lo, hi = v, v
			}
			for v := lo; v <= hi; v++ {
				forcedVariant = v
				opCase(registry.Reference{Registry: c["registry"], Repository: c["repository"]}, c["kind"], c["plain"] == "true", c["input"], c["want"])
			}
			forcedVariant = -1
		case "U":
			ref := registry.Reference{Registry: c["registry"], Repository: c["repository"], Reference: c["reference"]}
			checkURL(run.NewID(), c["kind"], c["plain"] == "true", ref)
			urlCase(c["kind"], c["plain"] == "true", ref)
		}
	}
}
