// C20 harness: registry.ParseReference / Repository.ParseReference / URL builders.
//
// Writes, per case, the model input (cases.txt), the implementation's observable
// (impl.txt) and direct oracle failures (oracle.txt).  The oracle is independent
// of the Coq model: a hand-written grammar recogniser, the round-trip law, the
// agreement of reference forms and net/url's own view of each built URL.
package main

import (
	_ "crypto/sha256"
	_ "crypto/sha512"
	"fmt"
	"net/url"
	"os"
	"sort"
	"strconv"
	"strings"

	"github.com/opencontainers/go-digest"
	"oras.land/oras-go/v2/registry"
	"oras.land/oras-go/v2/registry/remote"
	"verifharness/common"
)

// ---------- independent grammar recogniser (the oracle) ----------

// ---------- the cases ----------

func init() {
	urlOracle = func(id string, ref registry.Reference) {
		// for registries net/url alone adjudicates only the query/fragment/segment-count part is
		// judged (checkURLLoose)
		if registryVerdict(ref.Registry) != 1 {
			for _, kind := range []string{"manifest", "blob", "referrers"} {
				checkURLLoose(id, kind, ref)
			}
			return
		}
		for _, kind := range []string{"manifest", "blob", "referrers"} {
			for _, plain := range []bool{false, true} {
				checkURL(id, kind, plain, ref)
			}
		}
	}
}

func checkURL(id, kind string, plain bool, ref registry.Reference) {
	u := remote.VerifURL(kind, plain, ref)
	seg := map[string]string{"manifest": "manifests", "blob": "blobs", "referrers": "referrers"}[kind]
	bad := func(msg string) {
		run.OracleFail(id, "url-slot", fmt.Sprintf("%s URL %q of %+v: %s", kind, u, ref, msg),
			map[string]any{"op": "U", "kind": kind, "plain": plain, "registry": ref.Registry, "repository": ref.Repository, "reference": ref.Reference})
	}
	pu, err := url.Parse(u)
	if err != nil {
		bad("does not parse: " + err.Error())
		return
	}
	if pu.RawQuery != "" || pu.Fragment != "" || pu.ForceQuery || pu.User != nil {
		bad("has query, fragment or user-info")
	}
	wantScheme := "https"
	if plain {
		wantScheme = "http"
	}
	if pu.Scheme != wantScheme || pu.Host != ref.Host() {
		bad("scheme or host differ")
	}
	want := append(append([]string{"", "v2"}, strings.Split(ref.Repository, "/")...), seg, ref.Reference)
	got := strings.Split(pu.EscapedPath(), "/")
	if strings.Join(got, "\x00") != strings.Join(want, "\x00") || pu.Path != pu.EscapedPath() {
		bad(fmt.Sprintf("path segments %q, want %q", got, want))
	}
}

// checkURLLoose: whatever the registry looks like, the built URL must not carry a query or a
// fragment and its path must have exactly the /v2/<repository>/<kind>/<reference> segments.
func checkURLLoose(id, kind string, ref registry.Reference) {
	u := remote.VerifURL(kind, false, ref)
	seg := map[string]string{"manifest": "manifests", "blob": "blobs", "referrers": "referrers"}[kind]
	pu, err := url.Parse(u)
	if err != nil {
		return // net/url itself refuses the authority: nothing can be sent
	}
	want := append(append([]string{"", "v2"}, strings.Split(ref.Repository, "/")...), seg, ref.Reference)
	got := strings.Split(pu.EscapedPath(), "/")
	if pu.RawQuery != "" || pu.ForceQuery || pu.Fragment != "" || strings.Join(got, "\x00") != strings.Join(want, "\x00") {
		run.OracleFail(id, "url-slot", fmt.Sprintf("%s URL %q of %+v: query %q fragment %q path segments %q, want %q and no query", kind, u, ref, pu.RawQuery, pu.Fragment, got, want),
			map[string]any{"op": "U", "kind": kind, "plain": false, "registry": ref.Registry, "repository": ref.Repository, "reference": ref.Reference})
	}
}

// splitObs: net/url's own parse of a built URL, compared with the model's RFC 3986 splitter
func splitObs(u string) string {
	pu, err := url.Parse(u)
	if err != nil {
		return "NOSPLIT"
	}
	opt := func(present bool, v string) string {
		if !present {
			return "none"
		}
		return "some:" + common.Hex(v)
	}
	split := fmt.Sprintf("SPLIT %s %s %s %s %s", common.Hex(pu.Scheme), common.Hex(pu.Host), common.Hex(pu.EscapedPath()),
		opt(pu.RawQuery != "" || pu.ForceQuery, pu.RawQuery), opt(pu.Fragment != "" || strings.HasSuffix(u, "#"), pu.EscapedFragment()))
	if pu.User != nil {
		split += " USERINFO"
	}
	return split
}

func urlCase(kind string, plain bool, ref registry.Reference) {
	id := run.NewID()
	u := remote.VerifURL(kind, plain, ref)
	p := "0"
	if plain {
		p = "1"
	}
	split := splitObs(u)
	run.Case(id, fmt.Sprintf("U %s %s %s %s %s", kind, p, common.Hex(ref.Registry), common.Hex(ref.Repository), common.Hex(ref.Reference)),
		"URL "+common.Hex(u)+" "+split)
	run.Nontrivial("U:" + kind + p + ref.String())
	run.Count("url_" + kind)
}

// baseJudged: the property's Repository clauses are judged for bases that are themselves valid
// (a literal &Repository{Reference: ...} is not validated by the library; such bases are still
// generated and compared with the model, but not judged by the oracle).
func baseJudged(base registry.Reference) bool {
	return registryVerdict(base.Registry) == 1 && okRepository(base.Repository)
}

// namesOtherRepository: ground truth for "other registries or repositories".  A reference string
// that contains a '/' before its first '@' is a path (tags and digests never contain '/'): it names
// the base repository only when it is <base registry>/<base repository> followed by the end, ':' or
// '@'.  Anything else with a '/' names something that is not the base, well-formed or not.
func namesOtherRepository(base registry.Reference, s string) bool {
	head := s
	if i := strings.IndexByte(s, '@'); i >= 0 {
		head = s[:i]
	}
	if !strings.Contains(head, "/") {
		return false
	}
	b := base.Registry + "/" + base.Repository
	if !strings.HasPrefix(s, b) {
		return true
	}
	rest := s[len(b):]
	return !(rest == "" || rest[0] == ':' || rest[0] == '@')
}

// queryURLCases: the two builders that carry a query (oracle only, not modelled): the referrers
// URL with an artifactType filter and the cross-repository mount URL.  As net/url sees them the
// path must be exactly the slot and the query must decode to exactly the intended parameters.
func queryURLCases(r *common.Rand) {
	ats := []string{"application/vnd.example+type", "a b", "a&b=c", "x#y", "a?b", "\xc3\xa9", "%41", "a+b", "a/b;c=d", "=&", "application/vnd.oci.image.config.v1+json"}
	for i := 0; i < run.Scale(6000, 100000); i++ {
		ref, err := registry.ParseReference(randomValid(r))
		if err != nil || registryVerdict(ref.Registry) != 1 {
			continue
		}
		ref.Reference = randDigestValid(r)
		if r.Bool() {
			at := common.Pick(r, ats)
			if r.Bool() {
				bs := make([]byte, r.Intn(12))
				for i := range bs {
					bs[i] = byte(r.Intn(256))
				}
				at = string(bs)
			}
			queryURLCase("referrers", r.Bool(), ref, at)
		} else if from, err := registry.ParseReference(randomValid(r)); err == nil {
			queryURLCase("mount", r.Bool(), ref, from.Repository)
		}
	}
}

// queryURLCase: kind "referrers": arg = artifactType filter; kind "mount": arg = source repository
// (a valid repository name; ref.Reference is the digest to mount).
func queryURLCase(kind string, plain bool, ref registry.Reference, arg string) {
	id := run.NewID()
	run.Count("url_query_" + kind)
	var u, wantPath string
	want := map[string]string{}
	if kind == "referrers" {
		u = remote.VerifReferrersURL(plain, ref, arg)
		wantPath = "/v2/" + ref.Repository + "/referrers/" + ref.Reference
		if arg != "" { // an empty filter means "no filter": no query at all
			want["artifactType"] = arg
		}
	} else {
		u = remote.VerifMountURL(plain, ref, digest.Digest(ref.Reference), arg)
		wantPath = "/v2/" + ref.Repository + "/blobs/uploads/"
		want["mount"], want["from"] = ref.Reference, arg
	}
	rep := map[string]any{"op": "Q", "kind": kind, "plain": plain, "registry": ref.Registry, "repository": ref.Repository, "reference": ref.Reference, "input": arg}
	pl := "0"
	if plain {
		pl = "1"
	}
	run.Case(id, fmt.Sprintf("Q %s %s %s %s %s %s", kind, pl, common.Hex(ref.Registry), common.Hex(ref.Repository), common.Hex(ref.Reference), common.Hex(arg)),
		"URL "+common.Hex(u)+" "+splitObs(u))
	pu, err := url.Parse(u)
	if err != nil {
		run.OracleFail(id, "url-query", fmt.Sprintf("%s URL %q of %+v does not parse: %v", kind, u, ref, err), rep)
		return
	}
	q, qerr := url.ParseQuery(pu.RawQuery)
	ok := qerr == nil && len(q) == len(want)
	for k, v := range want {
		ok = ok && len(q[k]) == 1 && q[k][0] == v
	}
	if !ok || pu.Host != ref.Host() || pu.User != nil || pu.Fragment != "" || pu.EscapedPath() != wantPath {
		run.OracleFail(id, "url-query", fmt.Sprintf("%s URL %q of %+v (%q): host %q path %q query %v fragment %q; want path %q and exactly %v", kind, u, ref, arg, pu.Host, pu.EscapedPath(), q, pu.Fragment, wantPath, want), rep)
	}
}

func repoCase(base registry.Reference, s string) {
	id := run.NewID()
	repo := &remote.Repository{Reference: base}
	rep := map[string]string{"op": "R", "registry": base.Registry, "repository": base.Repository, "basereference": base.Reference, "input": s}
	ref, err := repo.ParseReference(s)
	obs := errObs(id, fmt.Sprintf("Repository(%v).ParseReference", base), s, err, rep)
	judged := baseJudged(base)
	if !judged {
		run.Count("repo_base_unjudged")
	}
	if err == nil {
		obs = showRef(ref)
		run.Nontrivial("R:" + base.String() + "|" + s)
		run.Count("repo_ok")
		if ref.Registry != base.Registry || ref.Repository != base.Repository || ref.Reference == "" {
			run.OracleFail(id, "repo-foreign", fmt.Sprintf("Repository(%v).ParseReference(%q) = %+v leaves the base", base, s, ref), rep)
		}
		if !okTag(ref.Reference) && !okDigest(ref.Reference) {
			run.OracleFail(id, "repo-invalid-reference", fmt.Sprintf("Repository(%v).ParseReference(%q) = %+v: reference neither tag nor digest", base, s, ref), rep)
		}
		if judged && namesOtherRepository(base, s) {
			run.Count("repo_other_path_accepted")
			run.OracleFail(id, "repo-foreign-path", fmt.Sprintf("Repository(%v).ParseReference(%q) = %+v: the input names a path that is not the base repository, yet it is accepted and re-targeted to the base", base, s, ref), rep)
		}
	} else {
		run.Count("repo_err")
		if namesOtherRepository(base, s) {
			run.Count("repo_other_path_rejected")
		}
	}
	run.Case(id, fmt.Sprintf("R %s %s %s", common.Hex(base.Registry), common.Hex(base.Repository), common.Hex(s)), obs)
}

// formsAgree: tag, digest, tag@digest, B:tag, B@digest resolve to the same reference.
func formsAgree(base registry.Reference, tag, dg string) {
	repo := &remote.Repository{Reference: base}
	b := base.Registry + "/" + base.Repository
	type form struct{ in, want string }
	forms := []form{{tag, tag}, {dg, dg}, {tag + "@" + dg, dg}, {b + ":" + tag, tag}, {b + "@" + dg, dg}, {b + ":" + tag + "@" + dg, dg}}
	for _, f := range forms {
		repoCase(base, f.in)
		ref, err := repo.ParseReference(f.in)
		want := registry.Reference{Registry: base.Registry, Repository: base.Repository, Reference: f.want}
		if err != nil || ref != want {
			run.OracleFail(run.NewID(), "repo-forms", fmt.Sprintf("Repository(%v).ParseReference(%q) = %+v, %v; want %+v", base, f.in, ref, err, want),
				map[string]string{"op": "R", "registry": base.Registry, "repository": base.Repository, "input": f.in})
		}
	}
	// other registry / repository / empty are rejected
	// docker.io is sent to registry-1.docker.io, but the two names are different registries
	alias := map[string]string{"docker.io": "registry-1.docker.io", "registry-1.docker.io": "docker.io"}[base.Registry]
	foreign := []string{"", "other.io/" + base.Repository + ":" + tag, base.Registry + "/other/" + base.Repository + ":" + tag, b,
		// malformed foreign references carrying a valid digest: still other registries / repositories
		"ghcr.io/Org/app@" + dg, "ghcr.io/Org/app:" + tag + "@" + dg, "evil.example:bad/x@" + dg, "other.io/" + strings.ToUpper(base.Repository) + "@" + dg,
		base.Registry + "/" + base.Repository + "x@" + dg, base.Registry + "/" + base.Repository + "/@" + dg, tag + "/" + tag + "@" + dg, "/@" + dg}
	if alias != "" {
		foreign = append(foreign, alias+"/"+base.Repository+":"+tag, alias+"/"+base.Repository+"@"+dg, alias+"/"+base.Repository)
	}
	for _, in := range foreign {
		repoCase(base, in)
		if ref, err := repo.ParseReference(in); err == nil {
			run.OracleFail(run.NewID(), "repo-foreign", fmt.Sprintf("Repository(%v).ParseReference(%q) accepted as %+v", base, in, ref),
				map[string]string{"op": "R", "registry": base.Registry, "repository": base.Repository, "input": in})
		}
	}
}

// otherPath: a reference string naming a path that is NOT the base repository: well-formed foreign
// references and malformed ones (invalid repository / registry) with and without digest
func otherPath(r *common.Rand, base registry.Reference) string {
	regs := []string{"ghcr.io", "other.io", "evil.example:bad", "localhost:5000", "docker.io", "registry-1.docker.io", "a", "UP.example", "h?x", "u@h", "", base.Registry, base.Registry + "x", strings.ToUpper(base.Registry)}
	repos := []string{"Org/app", "org/app", "a", "a/b", "A", "a//b", "a/", "-a", "a_", "a..b", "library/x", base.Repository, base.Repository + "x", base.Repository + "/x", "x/" + base.Repository, strings.ToUpper(base.Repository), ""}
	for {
		reg, rp := common.Pick(r, regs), common.Pick(r, repos)
		if reg == base.Registry && rp == base.Repository {
			continue
		}
		s := reg + "/" + rp
		switch r.Intn(6) {
		case 0:
			s += ":v1"
		case 1:
			s += ":" + randJunk(r) + "@" + randDigest(r)
		case 2:
			s += ":v1@" + digestPool[r.Intn(4)]
		case 3:
			s += "@" + randDigest(r)
		default:
			s += "@" + digestPool[r.Intn(4)]
		}
		return s
	}
}

func main() {
	run = common.Start("C20")
	defer run.Finish()
	run.Rule = "exhaustive strings over {a A 0 . _ - / : @ [ ]} up to the tier's length bound, plus generated valid references, digest-pool fillings and byte mutations; distinct = distinct input string; non-trivial = accepted by the implementation (or a URL/repository-form case)"

	if run.Replay != "" {
		replay(run.Replay)
		return
	}

	availabilityCases()
	alphabet := []string{"a", "A", "0", ".", "_", "-", "/", ":", "@", "[", "]"}
	maxLen := run.Scale(5, 6)
	enumerate(alphabet, maxLen, parseCase)
	run.Extra["exhaustive_length"] = maxLen
	run.Extra["exhaustive_alphabet"] = strings.Join(alphabet, " ")

	// digest positions
	for _, d := range digestPool {
		for _, pre := range []string{"r/a@", "r/a:t@", "r/a:@", "r:5/a/b@", "r/a:" /* digest as tag */, "r/a@x", "r/@", "r/a/@"} {
			parseCase(pre + d)
		}
	}
	r := run.Rand
	nRandom := run.Scale(20000, 1500000)
	for i := 0; i < nRandom; i++ {
		s := randomValid(r)
		k := r.Intn(4)
		for j := 0; j < k; j++ {
			s = mutate(r, s)
		}
		parseCase(s)
	}
	for i := 0; i < run.Scale(30000, 1500000); i++ {
		constructedCase(r)
	}
	// tag length boundary
	for _, n := range []int{1, 2, 127, 128, 129, 130, 200} {
		parseCase("localhost/a:" + strings.Repeat("a", n))
		parseCase("localhost/a:_" + strings.Repeat("-", n-1))
	}

	// ValidateRegistry on its own: exhaustive over the characters that matter to net/url's
	// authority parser, plus generated authorities (reg-names, ports, IP literals, zones,
	// escapes, user-info, query / fragment / path intruders)
	regLen := run.Scale(4, 5)
	enumerate([]string{"a", "1", ".", ":", "[", "]", "%", "2", "5", "@", "?", "/", "#", "-", "\xc3", " ", "+", "f"}, regLen, registryCase)
	run.Extra["registry_exhaustive_length"] = regLen
	for i := 0; i < run.Scale(30000, 600000); i++ {
		registryCase(randRegistry(r))
	}
	for c := 0; c < 256; c++ {
		for _, t := range []string{"%s", "a%sb", "a:%s", "[%s]", "[::1%s]", "[::1]%s", "a%s:5"} {
			registryCase(strings.ReplaceAll(t, "%s", string([]byte{byte(c)})))
		}
	}

	// Reference.String() on arbitrary triples (valid and not)
	for i := 0; i < run.Scale(5000, 100000); i++ {
		reg := common.Pick(r, []string{"localhost:5000", "docker.io", "", "h?q", "[::1]:5000", "a/b"})
		if r.Chance(1, 3) {
			reg = randRegistry(r)
		}
		ref := registry.Reference{Registry: reg,
			Repository: common.Pick(r, []string{"a/b", "x", "", "Up"}),
			Reference:  common.Pick(r, []string{"", "v1", randDigest(r), randJunk(r), common.Pick(r, digestPool)})}
		formatCase(ref)
	}

	// components on their own: repository rule exhaustively over its own alphabet, digests
	// with random mixed hex and algorithm names, tags around the length bound
	repoLen := run.Scale(7, 8)
	enumerate([]string{"a", "0", ".", "_", "-", "/"}, repoLen, func(s string) { componentCase("repo", s) })
	run.Extra["repository_exhaustive_length"] = repoLen
	for _, s := range []string{"A", "a b", "a:b", "a@b", "a\x00", "\xc3\xa9", "a/b/c/d/e", "a--__b", "a__--b", "a_-b", "a._b", "a-.b", "a___b", strings.Repeat("a", 300)} {
		componentCase("repo", s)
	}
	for i := 0; i < run.Scale(20000, 1000000); i++ {
		d := randDigest(r)
		if r.Chance(1, 5) {
			d = mutate(r, d)
		}
		componentCase("digest", d)
	}
	for _, d := range digestPool {
		componentCase("digest", d)
	}
	for _, a := range otherAlgs {
		for _, n := range []int{32, 40, 56, 64, 96, 128} {
			componentCase("digest", hexDigest(a, n, 'a'))
		}
	}
	enumerate([]string{"a", "A", "0", "_", ".", "-", ":", "/"}, run.Scale(4, 5), func(s string) { componentCase("tag", s) })
	for _, n := range []int{127, 128, 129} {
		componentCase("tag", strings.Repeat("a", n))
		componentCase("tag", "_"+strings.Repeat(".", n-1))
	}

	// Repository.ParseReference
	bases := []registry.Reference{
		{Registry: "localhost:5000", Repository: "hello/world"},
		{Registry: "docker.io", Repository: "library/x"},
		{Registry: "a", Repository: "a"},
		{Registry: "registry-1.docker.io", Repository: "library/x"},
		{Registry: "UP.Example.COM", Repository: "a/b-c", Reference: "v9"},            // upper-case host, base Reference set
		{Registry: "127.0.0.1:443", Repository: "a__b/c.d", Reference: digestPool[0]}, // base Reference = digest
		// bases the library does not validate (a literal Repository{}): not judged by the oracle,
		// compared with the model
		{Registry: "[::1]:5000", Repository: "x"},
		{Registry: "reg:", Repository: "x"},
		{Registry: "localhost", Repository: "Up/x"},
		{Registry: "h?q", Repository: "x"},
		{Registry: "", Repository: ""},
	}
	for _, base := range bases {
		if !baseJudged(base) {
			continue
		}
		for _, tag := range []string{"v1", "latest", "A.b-c_d", strings.Repeat("x", 128)} {
			for _, d := range digestPool[:4] {
				formsAgree(base, tag, d)
			}
			formsAgree(base, tag, randDigestValid(r))
		}
	}
	for _, base := range bases {
		enumerate(alphabet, run.Scale(3, 4), func(s string) { repoCase(base, s) })
		for i := 0; i < run.Scale(3000, 150000); i++ {
			var s string
			switch r.Intn(8) {
			case 0:
				s = randomValid(r)
			case 1:
				s = base.Registry + "/" + base.Repository + common.Pick(r, []string{":v1", "@" + digestPool[0], ":v1@" + digestPool[0], "", ":", "@",
					":" + randJunk(r) + "@" + randDigest(r), "@" + randDigest(r), ":" + randJunk(r)})
			case 2:
				s = common.Pick(r, digestPool)
			case 3:
				s = "t" + "@" + common.Pick(r, digestPool)
			case 4:
				s = randJunk(r) + "@" + randDigest(r)
			case 5, 6:
				s = otherPath(r, base)
			default:
				s = common.Pick(r, []string{"v1", "a/b", "a:b", "@", ":", "a@b", "sha256:abc"})
			}
			if r.Chance(1, 3) {
				s = mutate(r, s)
			}
			repoCase(base, s)
		}
	}

	// reference-taking operations: requests built from the resolved reference
	for _, base := range bases {
		if strings.HasSuffix(base.Registry, ":") {
			// net/http strips an empty port from the request URL (http://reg:/ is sent as
			// http://reg/): same authority, different string; such bases are exercised by the
			// Repository.ParseReference cases only
			run.Count("op_base_empty_port_skipped")
			continue
		}
		if !baseJudged(base) {
			// an unvalidated literal base (outside the property's quantifier) is exercised by the
			// Repository.ParseReference cases only: what net/http does with such a host is not modelled
			run.Count("op_base_invalid_skipped")
			continue
		}
		for _, tag := range []string{"v1", "A.b-c_d", strings.Repeat("x", 128)} {
			for _, d := range digestPool[:4] {
				opForms(base, tag, d)
			}
			opForms(base, tag, randDigestValid(r))
		}
		for i := 0; i < run.Scale(1500, 80000); i++ {
			var s string
			switch r.Intn(8) {
			case 0:
				s = randomValid(r)
			case 1:
				s = base.Registry + "/" + base.Repository + common.Pick(r, []string{":v1", "@" + digestPool[0], ":v1@" + digestPool[0], "", ":", "@",
					":" + randJunk(r) + "@" + randDigest(r), "@" + randDigest(r), ":" + randJunk(r)})
			case 2:
				s = common.Pick(r, digestPool)
			case 3:
				s = "t" + "@" + common.Pick(r, digestPool)
			case 4:
				s = randJunk(r) + "@" + randDigest(r)
			case 5, 6:
				s = otherPath(r, base)
			default:
				s = common.Pick(r, []string{"v1", "a/b", "a:b", "@", ":", "a@b", "sha256:abc", "v1@", "v 1", "v1?x=1", "v1#f", "../x"})
			}
			if r.Chance(1, 3) {
				s = mutate(r, s)
			}
			opCase(base, common.Pick(r, opKinds), r.Bool(), s, "")
		}
	}

	// descriptor-driven operations (Fetch / Delete / Referrers / Mount / Push / Tags)
	lasts := []string{"", "", "v1", "a b", "a&b=c", "x#y", "a?b", "\xc3\xa9", "%41", "a+b", "../x", "=&", strings.Repeat("t", 128)}
	for _, base := range bases {
		if !baseJudged(base) || strings.HasSuffix(base.Registry, ":") {
			continue
		}
		for i := 0; i < run.Scale(1500, 30000); i++ {
			op := common.Pick(r, descOpKinds)
			d := randDigest(r)
			if !okDigest(d) && (!cleanForURL(d) || r.Chance(2, 3)) {
				d = randDigestValid(r)
			}
			a1 := common.Pick(r, lasts)
			if r.Chance(1, 4) {
				bs := make([]byte, r.Intn(10))
				for i := range bs {
					bs[i] = byte(r.Intn(256))
				}
				a1 = string(bs)
			}
			if op == "dmount" {
				a1 = common.Pick(r, []string{"a", "library/x", "a__b/c.d", "x-y/z"})
				if r.Chance(1, 6) {
					a1 = common.Pick(r, []string{"a&mount=x", "Up", "a b", ""})
				}
			}
			descOpCase(base, op, r.Bool(), d, a1, common.Pick(r, []int{0, 0, -1, 1, 50, 1000}))
		}
	}

	// top-level oras.Tag / oras.TagN on a remote Repository
	served := opManifestDesc.Digest.String()
	for _, base := range bases {
		if !baseJudged(base) || strings.HasSuffix(base.Registry, ":") {
			continue
		}
		b := base.Registry + "/" + base.Repository
		for i := 0; i < run.Scale(600, 10000); i++ {
			type form struct{ in, want string }
			mk := func(tag, dg string) form {
				return common.Pick(r, []form{{tag, tag}, {dg, dg}, {tag + "@" + dg, dg}, {b + ":" + tag, tag}, {b + "@" + dg, dg}, {b + ":" + tag + "@" + dg, dg}})
			}
			tags := []string{"v1", "latest", "A.b-c_d", strings.Repeat("x", 128)}
			srcDg := served
			if r.Chance(1, 4) {
				srcDg = randDigestValid(r)
			}
			src := mk(common.Pick(r, tags), srcDg)
			n := 1 + r.Intn(3)
			dsts, wants := make([]string, n), make([]string, n)
			known := true
			for k := range dsts {
				f := mk(common.Pick(r, tags), common.Pick(r, []string{served, randDigestValid(r)}))
				dsts[k], wants[k] = f.in, f.want
			}
			wantSrc := src.want
			switch r.Intn(6) {
			case 0: // an arbitrary / foreign / malformed source: correspondence + slot only
				src.in, wantSrc = common.Pick(r, []string{otherPath(r, base), randJunk(r), mutate(r, src.in), ""}), ""
			case 1: // a refused destination somewhere: everything after it must not be sent
				k := r.Intn(n)
				dsts[k] = common.Pick(r, []string{otherPath(r, base), "a b", "", "v1@", mutate(r, dsts[k])})
				known = false
			}
			if !known {
				wantSrc = ""
			}
			orasTagCase(base, r.Bool(), src.in, dsts, wantSrc, wants)
		}
	}

	// constructors and the Registry's own requests
	for i := 0; i < run.Scale(6000, 100000); i++ {
		s := randomValid(r)
		for k := r.Intn(3); k > 0; k-- {
			s = mutate(r, s)
		}
		newRepositoryCase(s)
		name := randRegistry(r)
		if r.Bool() {
			name = common.Pick(r, []string{"localhost:5000", "docker.io", "registry.example.com", "[::1]:5000", "UP.example"})
		}
		sub := common.Pick(r, []string{"a", "library/x", "a__b/c.d", "Up", "a//b", "", "a:b", "a@b", "x-y/z", "-a"})
		registryRepositoryCase(name, sub)
	}
	for _, name := range []string{"localhost:5000", "docker.io", "registry.example.com", "127.0.0.1:443", "[::1]:5000", "UP.example"} {
		for i := 0; i < run.Scale(300, 5000); i++ {
			regOpCase(name, common.Pick(r, []string{"rping", "rcatalog"}), r.Bool(), common.Pick(r, lasts), common.Pick(r, []int{0, 0, -1, 1, 50}))
		}
	}

	// URL builders on accepted references
	for i := 0; i < run.Scale(8000, 100000); i++ {
		ref, err := registry.ParseReference(randomValid(r))
		if err != nil {
			continue
		}
		kinds := []string{"manifest", "blob", "referrers", "taglist", "upload", "base", "catalog", "repobase"}
		urlCase(common.Pick(r, kinds), r.Bool(), ref)
	}
	queryURLCases(r)
	coverageFloors()
}

// coverageFloors: a run in which one of the input classes silently produced (almost) nothing is a
// broken run (layer R), not a pass.  The floors are far below what every seed produces.
func coverageFloors() {
	floors := map[string]int{
		"validate_ok": 300, "registry": 100000, "registry_ok": 3000, "registry_ok_bracket": 200, "constructed": 20000, "constructed_accept": 5000, "parse_ok": 2000, "parse_judged_accept": 1500, "parse_judged_reject": 50000, "repo_ok": 2000, "repo_err": 5000,
		"repo_other_path_rejected": 3000, "component_repo_ok": 5000, "component_digest_ok": 3000, "component_tag_ok": 500,
		"op_mresolve": 500, "op_mfetchref": 500, "op_tag": 500, "op_pushref": 500, "op_bresolve": 500, "op_bfetchref": 500,
		"oras_tag": 2000, "oras_tag_put": 1000, "oras_tag_ground_truth": 1000, "newrepo_ok": 500, "newregistry_ok": 1000, "registry_repository_ok": 300, "regop_rping": 300, "regop_rcatalog": 300, "descop_judged": 3000, "descop_dmfetch": 300, "descop_dmdelete": 300, "descop_dbfetch": 300, "descop_dbdelete": 300, "descop_dreferrers": 300, "descop_dmount": 300, "descop_dbpush": 300, "descop_dtags": 300, "op_sent": 3000, "op_refused": 3000, "op_ground_truth": 500,
		"url_manifest": 100, "url_blob": 100, "url_referrers": 100, "url_taglist": 100, "url_upload": 100, "url_base": 100, "url_catalog": 100, "url_repobase": 100,
		"url_query_referrers": 100, "url_query_mount": 100,
	}
	for v := 0; v < 8; v++ {
		floors[fmt.Sprintf("op_variant_%d", v)] = 500
	}
	var low []string
	for k, n := range floors {
		if run.Dist[k] < n {
			low = append(low, fmt.Sprintf("%s=%d<%d", k, run.Dist[k], n))
		}
	}
	if len(low) > 0 {
		sort.Strings(low)
		fmt.Fprintln(os.Stderr, "coverage floor not reached:", strings.Join(low, " "))
		run.Finish()
		os.Exit(3)
	}
}

func replay(path string) {
	availabilityCases()
	for _, c := range common.ReadReplay(path) {
		switch c["op"] {
		case "P":
			parseCase(c["input"])
		case "R":
			repoCase(registry.Reference{Registry: c["registry"], Repository: c["repository"], Reference: c["basereference"]}, c["input"])
		case "V":
			componentCase(c["kind"], c["input"])
		case "D":
			n, _ := strconv.Atoi(c["n"])
			for v := 0; v <= 4; v += 4 {
				forcedVariant = v
				descOpCase(registry.Reference{Registry: c["registry"], Repository: c["repository"]}, c["kind"], c["plain"] == "true", c["reference"], c["input"], n)
			}
			forcedVariant = -1
		case "T":
			orasTagCase(registry.Reference{Registry: c["registry"], Repository: c["repository"]}, c["plain"] == "true", c["input"], strings.Split(c["dsts"], "\x00"), "", nil)
		case "N":
			if c["kind"] == "repo" {
				newRepositoryCase(c["input"])
			} else {
				registryRepositoryCase(c["input"], c["reference"])
			}
		case "E":
			n, _ := strconv.Atoi(c["n"])
			regOpCase(c["registry"], c["kind"], c["plain"] == "true", c["input"], n)
		case "G":
			registryCase(c["input"])
		case "F":
			formatCase(registry.Reference{Registry: c["registry"], Repository: c["repository"], Reference: c["reference"]})
		case "Q":
			queryURLCase(c["kind"], c["plain"] == "true", registry.Reference{Registry: c["registry"], Repository: c["repository"], Reference: c["reference"]}, c["input"])
		case "O":
			// a replay without a variant (made from a model/implementation mismatch) runs all of them
			lo, hi := 0, 7
			if v, err := strconv.Atoi(c["variant"]); err == nil {
				lo, hi = v, v
			}
			for v := lo; v <= hi; v++ {
				forcedVariant = v
				opCase(registry.Reference{Registry: c["registry"], Repository: c["repository"]}, c["kind"], c["plain"] == "true", c["input"], c["want"])
			}
			forcedVariant = -1
		case "U":
			ref := registry.Reference{Registry: c["registry"], Repository: c["repository"], Reference: c["reference"]}
			checkURL(run.NewID(), c["kind"], c["plain"] == "true", ref)
			urlCase(c["kind"], c["plain"] == "true", ref)
		}
	}
}
