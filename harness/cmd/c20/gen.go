// C20 generator, recognisers and the ParseReference / component cases: everything that does not
// need registry/remote (and therefore net/http, which links every crypto hash).  Shared, through a
// symbolic link, with cmd/c20link, the build in which only crypto/sha256 is linked.
package main

import (
	"errors"
	"fmt"
	"net/netip"
	"os"
	"runtime"
	"runtime/debug"
	"strings"

	"github.com/opencontainers/go-digest"
	"oras.land/oras-go/v2/errdef"
	"oras.land/oras-go/v2/registry"
	"verifharness/common"
)

var run *common.Run

// urlOracle is set by the main harness (URL builders live in registry/remote)
var urlOracle func(id string, ref registry.Reference)

// linked: which hash implementations this binary links (crypto.Hash.Available), by construction
// of its import list; checked against go-digest at start-up (availabilityCases)
var linked = map[string]bool{"sha256": true, "sha384": true, "sha512": true}

// availabilityCases tells the model which algorithms are available ("A" lines configure the
// model runner) and fails the run (exit 3, layer R) when the binary does not link what it claims.
func availabilityCases() {
	// Model/NetURL.v is a model of net/url as of go1.26.8 (host parsing differs between Go releases)
	if runtime.Version() != "go1.26.8" {
		fmt.Fprintf(os.Stderr, "toolchain is %s, Model/NetURL.v models net/url of go1.26.8: review the model\n", runtime.Version())
		run.Finish()
		os.Exit(3)
	}
	// the model of Digest.Validate is of the pinned go-digest v1.0.0 (three algorithms, fixed
	// table): any other version must be reviewed, not silently accepted
	if bi, ok := debug.ReadBuildInfo(); ok {
		for _, m := range bi.Deps {
			if m.Path == "github.com/opencontainers/go-digest" {
				v := m.Version
				if m.Replace != nil {
					v = m.Replace.Version
				}
				if v != "v1.0.0" {
					fmt.Fprintf(os.Stderr, "go-digest is %s, the model (alg_table, Digest.Validate) is of v1.0.0: review Model/Reference.v\n", v)
					run.Finish()
					os.Exit(3)
				}
				run.Count("go_digest_v1.0.0")
			}
		}
	}
	for _, a := range []string{"sha256", "sha384", "sha512"} {
		got := digest.Algorithm(a).Available()
		if got != linked[a] {
			fmt.Fprintf(os.Stderr, "link set changed: %s available=%v, harness expects %v\n", a, got, linked[a])
			run.Finish()
			os.Exit(3)
		}
		run.Case(run.NewID(), fmt.Sprintf("A %s %v", common.Hex(a), got), fmt.Sprintf("AVAIL %v", got))
		run.Count(fmt.Sprintf("linked_%s_%v", a, got))
	}
}

// formatCase: Reference.String() of an arbitrary (also unvalidated) triple
func formatCase(ref registry.Reference) {
	id := run.NewID()
	run.Case(id, fmt.Sprintf("F %s %s %s", common.Hex(ref.Registry), common.Hex(ref.Repository), common.Hex(ref.Reference)), "FMT "+common.Hex(ref.String()))
	run.Count("format")
	// Reference.Validate on the same triple; a valid value must survive String()/ParseReference
	vid := run.NewID()
	valid := ref.Validate() == nil
	run.Case(vid, fmt.Sprintf("W %s %s %s", common.Hex(ref.Registry), common.Hex(ref.Repository), common.Hex(ref.Reference)), fmt.Sprintf("VALID %v", valid))
	if valid {
		run.Count("validate_ok")
		if back, err := registry.ParseReference(ref.String()); err != nil || back != ref {
			run.OracleFail(vid, "validate-roundtrip", fmt.Sprintf("%#v passes Validate but String()=%q parses to %+v, %v", ref, ref.String(), back, err),
				map[string]string{"op": "F", "registry": ref.Registry, "repository": ref.Repository, "reference": ref.Reference})
		}
	}
	// oracle: '@' exactly for a valid (and linked) digest, ':' otherwise
	if ref.Repository != "" && ref.Reference != "" {
		sep := ":"
		if okDigest(ref.Reference) {
			sep = "@"
		}
		if want := ref.Registry + "/" + ref.Repository + sep + ref.Reference; ref.String() != want {
			run.OracleFail(id, "format", fmt.Sprintf("%#v.String() = %q, want %q", ref, ref.String(), want),
				map[string]string{"op": "F", "registry": ref.Registry, "repository": ref.Repository, "reference": ref.Reference})
		}
	}
}
func hexDigest(alg string, n int, fill byte) string {
	return alg + ":" + strings.Repeat(string(fill), n)
}

var digestPool = []string{
	hexDigest("sha256", 64, 'a'),
	hexDigest("sha256", 64, '0'),
	hexDigest("sha384", 96, 'b'),
	hexDigest("sha512", 128, 'c'),
	hexDigest("sha256", 63, 'a'),  // short
	hexDigest("sha256", 65, 'a'),  // long
	hexDigest("sha256", 64, 'A'),  // upper-case hex
	hexDigest("sha256", 64, 'g'),  // not hex
	hexDigest("sha1", 40, 'a'),    // unregistered
	hexDigest("md5", 32, 'a'),     // unregistered
	hexDigest("sha512", 64, 'a'),  // wrong length for algorithm
	hexDigest("SHA256", 64, 'a'),  // upper-case algorithm
	"sha256:",                     // empty encoded
	":" + strings.Repeat("a", 64), // empty algorithm
	hexDigest("sha256+b64", 64, 'a'),
	"sha256:" + strings.Repeat("a", 32) + ":" + strings.Repeat("a", 31),
}

func isLowerAlnum(c byte) bool { return c >= 'a' && c <= 'z' || c >= '0' && c <= '9' }
func isWord(c byte) bool {
	return isLowerAlnum(c) || c >= 'A' && c <= 'Z' || c == '_'
}

// path component: alnum+ ( sep alnum+ )*, sep = '.' | '_' | '__' | '-'+
func okComponent(s string) bool {
	i, n := 0, len(s)
	eat := func() bool {
		j := i
		for i < n && isLowerAlnum(s[i]) {
			i++
		}
		return i > j
	}
	if !eat() {
		return false
	}
	for i < n {
		switch {
		case s[i] == '.':
			i++
		case s[i] == '_':
			i++
			if i < n && s[i] == '_' {
				i++
			}
		case s[i] == '-':
			for i < n && s[i] == '-' {
				i++
			}
		default:
			return false
		}
		if !eat() {
			return false
		}
	}
	return true
}
func okRepository(s string) bool {
	for _, c := range strings.Split(s, "/") {
		if !okComponent(c) {
			return false
		}
	}
	return true
}
func okTag(s string) bool {
	if len(s) < 1 || len(s) > 128 || !isWord(s[0]) {
		return false
	}
	for i := 1; i < len(s); i++ {
		if !isWord(s[i]) && s[i] != '.' && s[i] != '-' {
			return false
		}
	}
	return true
}
func okDigest(s string) bool {
	i := strings.IndexByte(s, ':')
	if i < 0 {
		return false
	}
	want := map[string]int{"sha256": 64, "sha384": 96, "sha512": 128}[s[:i]]
	enc := s[i+1:]
	if want == 0 || len(enc) != want || !linked[s[:i]] {
		return false
	}
	for j := 0; j < len(enc); j++ {
		if !(enc[j] >= '0' && enc[j] <= '9' || enc[j] >= 'a' && enc[j] <= 'f') {
			return false
		}
	}
	return true
}

// registryVerdict: 1 accept, 0 reject.  The complete grammar of accepted registries, written from
// the STATEMENTS of theorems C20_registry_regname_iff / C20_registry_bracket_iff (not from
// net/url's code): a non-empty string of host bytes -- alphanumerics, - _ . ~ ! $ & ' ( ) * + , ; =
// : < > " and bytes >= 0x80 -- in which only digits follow the last colon; or '[' host bytes ']'
// [':' digits] without further brackets whose inside net/netip parses as a non-IPv4 address.
// Every registry is judged (the return value -1 "not judged" of earlier rounds no longer occurs).
func registryVerdict(reg string) int {
	hostByte := func(c byte) bool {
		return c >= 0x80 || isWord(c) || strings.IndexByte("-.~!$&'()*+,;=:[]<>\"", c) >= 0
	}
	allHost := func(s string) bool {
		for i := 0; i < len(s); i++ {
			if !hostByte(s[i]) {
				return false
			}
		}
		return true
	}
	digits := func(s string) bool {
		for i := 0; i < len(s); i++ {
			if s[i] < '0' || s[i] > '9' {
				return false
			}
		}
		return true
	}
	if reg == "" {
		return 0
	}
	if !strings.Contains(reg, "[") {
		if !allHost(reg) {
			return 0
		}
		if i := strings.LastIndexByte(reg, ':'); i >= 0 && !digits(reg[i+1:]) {
			return 0
		}
		return 1
	}
	j := strings.LastIndexByte(reg, ']')
	if reg[0] != '[' || j < 0 {
		return 0
	}
	h, p := reg[1:j], reg[j+1:]
	if strings.Contains(h, "[") || strings.ContainsAny(p, "[]") || !allHost(h) {
		return 0
	}
	if p != "" && (p[0] != ':' || !digits(p[1:])) {
		return 0
	}
	if addr, err := netip.ParseAddr(h); err != nil || addr.Is4() {
		return 0
	}
	return 1
}

// grammar returns (judged, accepted, expected reference).  Strings ending in a
// bare ':' or '@' are not judged (documented leniency).
func grammar(s string) (bool, bool, registry.Reference) {
	var zero registry.Reference
	i := strings.IndexByte(s, '/')
	if i < 0 {
		return true, false, zero
	}
	reg, path := s[:i], s[i+1:]
	rv := registryVerdict(reg)
	if rv < 0 {
		return false, false, zero
	}
	if strings.HasSuffix(path, ":") || strings.HasSuffix(path, "@") {
		return false, false, zero
	}
	if rv == 0 {
		return true, false, zero
	}
	if j := strings.IndexByte(path, '@'); j >= 0 {
		repoTag, dg := path[:j], path[j+1:]
		repo := repoTag
		if k := strings.IndexByte(repoTag, ':'); k >= 0 {
			repo = repoTag[:k]
		}
		if okRepository(repo) && okDigest(dg) {
			return true, true, registry.Reference{Registry: reg, Repository: repo, Reference: dg}
		}
		return true, false, zero
	}
	if j := strings.IndexByte(path, ':'); j >= 0 {
		repo, tag := path[:j], path[j+1:]
		if okRepository(repo) && okTag(tag) {
			return true, true, registry.Reference{Registry: reg, Repository: repo, Reference: tag}
		}
		return true, false, zero
	}
	if okRepository(path) {
		return true, true, registry.Reference{Registry: reg, Repository: path}
	}
	return true, false, zero
}

// errObs maps an error to the observable: ERR = wraps errdef.ErrInvalidReference (the only
// error the parsers may return), ERRX = anything else (an oracle failure).
func errObs(id, fn, in string, err error, replay any) string {
	if err == nil {
		return ""
	}
	if errors.Is(err, errdef.ErrInvalidReference) {
		return "ERR"
	}
	run.OracleFail(id, "error-identity", fmt.Sprintf("%s(%q) failed with %v, which does not wrap errdef.ErrInvalidReference", fn, in, err), replay)
	return "ERRX"
}

// registryBadByte: bytes that no accepted registry may contain: controls and space, '#', '%',
// '/', '?', '@', '\\', DEL (they end the authority, introduce user-info or an escape).
func registryBadByte(reg string) (byte, bool) {
	for i := 0; i < len(reg); i++ {
		switch c := reg[i]; {
		case c <= ' ', c == '#', c == '%', c == '/', c == '?', c == '@', c == '\\', c == 0x7f:
			return c, true
		}
	}
	return 0, false
}
func showRef(r registry.Reference) string {
	return fmt.Sprintf("OK %s %s %s", common.Hex(r.Registry), common.Hex(r.Repository), common.Hex(r.Reference))
}
func parseCase(s string) {
	id := run.NewID()
	ref, err := registry.ParseReference(s)
	obs := errObs(id, "ParseReference", s, err, map[string]string{"op": "P", "input": s})
	if err == nil {
		obs = showRef(ref) + " FMT " + common.Hex(ref.String())
		run.Nontrivial("P:" + s)
		run.Count("parse_ok")
		// the registry of an accepted reference is a URL authority: none of the bytes that
		// end or restructure an authority (this is the hypothesis of theorem C20_url_exact)
		if c, bad := registryBadByte(ref.Registry); bad {
			run.OracleFail(id, "registry-charset", fmt.Sprintf("ParseReference(%q) accepted registry %q containing byte %#x", s, ref.Registry, c),
				map[string]string{"op": "P", "input": s})
		}
	} else {
		run.Count("parse_err")
	}
	run.Case(id, "P "+common.Hex(s), obs)
	run.Sample(map[string]string{"op": "ParseReference", "input": s, "result": obs})

	// oracle 1: grammar
	judged, acc, want := grammar(s)
	if judged {
		if acc {
			run.Count("parse_judged_accept")
		} else {
			run.Count("parse_judged_reject")
		}
		if acc != (err == nil) {
			run.OracleFail(id, "grammar-accept", fmt.Sprintf("ParseReference(%q): accepted=%v, grammar says %v", s, err == nil, acc),
				map[string]string{"op": "P", "input": s})
		} else if acc && ref != want {
			run.OracleFail(id, "grammar-parts", fmt.Sprintf("ParseReference(%q) = %+v, grammar says %+v", s, ref, want),
				map[string]string{"op": "P", "input": s})
		}
	} else {
		run.Count("parse_unjudged")
	}
	if err != nil {
		return
	}
	// oracle 2: round trip
	back, err2 := registry.ParseReference(ref.String())
	if err2 != nil || back != ref {
		run.OracleFail(id, "roundtrip", fmt.Sprintf("ParseReference(%q)=%+v; String()=%q re-parses to %+v, %v", s, ref, ref.String(), back, err2),
			map[string]string{"op": "P", "input": s})
	}
	// oracle 3: URL slot, as net/url sees it (main harness only: needs registry/remote)
	if urlOracle != nil && ref.Reference != "" {
		urlOracle(id, ref)
	}
}

// enumerate all strings over alphabet up to length n, digest slot 'D' expanded from the pool.
func enumerate(alphabet []string, n int, f func(string)) {
	var rec func(prefix string, depth int)
	rec = func(prefix string, depth int) {
		f(prefix)
		if depth == n {
			return
		}
		for _, a := range alphabet {
			rec(prefix+a, depth+1)
		}
	}
	rec("", 0)
}
func randomValid(r *common.Rand) string {
	comp := func() string {
		alnum := "abcxyz0189"
		n := 1 + r.Intn(4)
		var sb strings.Builder
		for i := 0; i < n; i++ {
			if i > 0 {
				sb.WriteString(common.Pick(r, []string{".", "_", "__", "-", "--", "---", ""}))
			}
			k := 1 + r.Intn(3)
			for j := 0; j < k; j++ {
				sb.WriteByte(alnum[r.Intn(len(alnum))])
			}
		}
		return sb.String()
	}
	reg := common.Pick(r, []string{"localhost", "localhost:5000", "docker.io", "registry.example.com", "127.0.0.1:443", "a-b.c_d", "reg:",
		"registry-1.docker.io", "host?x=y", "host?", "h:5000?q", "host#frag", "[::1]:5000", "ho st"})
	nc := 1 + r.Intn(3)
	parts := make([]string, nc)
	for i := range parts {
		parts[i] = comp()
	}
	s := reg + "/" + strings.Join(parts, "/")
	tagc := "abzAZ09_.-"
	tag := func() string {
		n := 1 + r.Intn(10)
		if r.Chance(1, 6) {
			n = 126 + r.Intn(5)
		}
		var sb strings.Builder
		sb.WriteByte("aZ0_"[r.Intn(4)])
		for i := 1; i < n; i++ {
			sb.WriteByte(tagc[r.Intn(len(tagc))])
		}
		return sb.String()
	}
	switch r.Intn(4) {
	case 0:
		return s
	case 1:
		return s + ":" + tag()
	case 2:
		if r.Bool() {
			return s + "@" + randDigest(r)
		}
		return s + "@" + common.Pick(r, digestPool)
	default:
		t := tag()
		if r.Chance(1, 3) {
			t = randJunk(r)
		}
		if r.Bool() {
			return s + ":" + t + "@" + randDigest(r)
		}
		return s + ":" + t + "@" + common.Pick(r, digestPool)
	}
}

// registryCase: Reference.ValidateRegistry on its own (any string, also ones ParseReference never
// produces because it splits at the first '/'): implementation vs Model/NetURL.v (correspondence)
// vs the conservative recogniser (oracle, where it decides).
func registryCase(reg string) {
	id := run.NewID()
	got := registry.Reference{Registry: reg}.ValidateRegistry() == nil
	run.Case(id, "G "+common.Hex(reg), fmt.Sprintf("REG %v", got))
	run.Count("registry")
	if got {
		run.Count("registry_ok")
		run.Nontrivial("G:" + reg)
		if strings.HasPrefix(reg, "[") {
			run.Count("registry_ok_bracket")
		}
		if c, bad := registryBadByte(reg); bad {
			run.OracleFail(id, "registry-charset", fmt.Sprintf("ValidateRegistry accepts %q containing byte %#x", reg, c), map[string]string{"op": "G", "input": reg})
		}
	}
	if v := registryVerdict(reg); v >= 0 && !strings.Contains(reg, "/") && (v == 1) != got {
		run.OracleFail(id, "registry-accept", fmt.Sprintf("ValidateRegistry(%q) accepted=%v, recogniser says %v", reg, got, v == 1), map[string]string{"op": "G", "input": reg})
	}
}

// randIP6: the inside of a bracketed IP literal: groups, ellipsis, embedded IPv4, zone -- valid
// and with the defects netip.ParseAddr distinguishes
func randIP6(r *common.Rand) string {
	group := func() string {
		n := 1 + r.Intn(4)
		if r.Chance(1, 12) {
			n = common.Pick(r, []int{0, 5, 6})
		}
		hexc := "0123456789abcdefABCDEF"
		var sb strings.Builder
		for i := 0; i < n; i++ {
			sb.WriteByte(hexc[r.Intn(len(hexc))])
		}
		if r.Chance(1, 25) {
			sb.WriteByte("gG.-_ "[r.Intn(6)])
		}
		return sb.String()
	}
	v4 := func() string {
		oct := func() string {
			return common.Pick(r, []string{"0", "1", "9", "10", "99", "127", "255", "256", "00", "01", "1000", "", "a", "1"})
		}
		n := common.Pick(r, []int{4, 4, 4, 4, 3, 5})
		parts := make([]string, n)
		for i := range parts {
			parts[i] = oct()
		}
		return strings.Join(parts, ".")
	}
	total := common.Pick(r, []int{8, 8, 7, 6, 5, 4, 3, 2, 1, 0, 9, 10})
	ell := -1
	if total < 8 || r.Chance(1, 6) {
		ell = r.Intn(total + 1)
	}
	if r.Chance(1, 8) {
		ell = -1
	}
	withV4 := r.Chance(1, 4)
	var sb strings.Builder
	for i := 0; i < total; i++ {
		if i == ell {
			if i == 0 {
				sb.WriteString("::")
			} else {
				sb.WriteString(":")
			}
		}
		if withV4 && i == total-1 {
			sb.WriteString(v4())
		} else {
			sb.WriteString(group())
		}
		if i < total-1 {
			sb.WriteString(":")
		}
	}
	if ell == total {
		sb.WriteString("::")
	}
	s := sb.String()
	switch r.Intn(10) {
	case 0:
		s += "%25" + common.Pick(r, []string{"en0", "eth0", "1", "", "a%20b", "a b", "%41", "e%zz", "x/y"})
	case 1:
		s += common.Pick(r, []string{"%en0", "%", "%2", ":", "::", ".", ":1.2.3.4", "x"})
	}
	return s
}

func randRegistry(r *common.Rand) string {
	if r.Chance(1, 3) {
		s := "[" + randIP6(r) + "]" + common.Pick(r, []string{"", "", ":5000", ":", ":a", "x"})
		if r.Chance(1, 10) {
			s = mutate(r, s)
		}
		return s
	}
	hosts := []string{"localhost", "a", "registry.example.com", "127.0.0.1", "a-b.c_d", "UP.Example", "xn--bcher-kva.example", "a~b", "a!b", "a$b&c", "(a)", "a*b", "a+b", "a,b;c=d", "a<b>", "a\"b", "\xc3\xa9.example",
		"[::1]", "[fe80::1]", "[2001:db8::1]", "[::ffff:1.2.3.4]", "[fe80::1%25en0]", "[fe80::1%25e%20n]", "[1.2.3.4]", "[::1", "::1]", "[]", "[:]", "[g::1]", "[fe80::1%en0]", "[::1%25]", "a[b]", "[a]b"}
	ports := []string{"", "", ":", ":5000", ":443", ":0", ":65536", ":99999999999999999999", ":a", ":5a", ":-1", "::5", ":5:6", ":5000:", ": 5"}
	s := common.Pick(r, hosts) + common.Pick(r, ports)
	switch r.Intn(8) {
	case 0:
		s = common.Pick(r, []string{"u@", "u:p@", "@", "%41@", "a@b@"}) + s
	case 1:
		s += common.Pick(r, []string{"?", "?x", "?x=1", "#f", "#", "/p", "/", "%41", "%C3%A9", "%c3%a9", "%", "%4", "%zz", "%25", "%2525", " ", "\\", "^", "`", "{}", "|", "\x7f", "\x00", "\t"})
	}
	for k := r.Intn(3); k > 0 && r.Chance(1, 3); k-- {
		s = mutate(r, s)
	}
	return s
}

// constructedCase: ground truth by construction, not by re-splitting the string: the reference is
// assembled from parts whose validity is known (valid registry from a fixed list, repository built
// from the documented rule or broken in a known way, tag / dropped part / digest), so the expected
// verdict and parts do not depend on any parser-like control flow in the oracle.
func constructedCase(r *common.Rand) {
	reg := common.Pick(r, []string{"localhost", "localhost:5000", "docker.io", "registry.example.com", "127.0.0.1:443", "a-b.c_d", "UP.example"})
	alnum := func() string {
		n := 1 + r.Intn(3)
		var sb strings.Builder
		for i := 0; i < n; i++ {
			sb.WriteByte("abcxyz0189"[r.Intn(10)])
		}
		return sb.String()
	}
	comp := func() string {
		s := alnum()
		for k := r.Intn(3); k > 0; k-- {
			s += common.Pick(r, []string{".", "_", "__", "-", "--", "-----"}) + alnum()
		}
		return s
	}
	repo := comp()
	for k := r.Intn(3); k > 0; k-- {
		repo += "/" + comp()
	}
	okRepo := true
	if r.Chance(1, 4) { // break the repository in a known way
		okRepo = false
		switch r.Intn(7) {
		case 0:
			repo = strings.ToUpper(repo[:1]) + repo[1:] + "X"
		case 1:
			repo += common.Pick(r, []string{".", "_", "-", "/"})
		case 2:
			repo = common.Pick(r, []string{".", "_", "-", "/"}) + repo
		case 3:
			repo += "/" + alnum() + common.Pick(r, []string{"..", "___", "._", "_.", "-.", "_-", "//"}) + alnum()
		case 4:
			repo += common.Pick(r, []string{" ", "%", "?", "#", "+", "\\", "\x00", "\xc3\xa9"}) + alnum()
		case 5:
			repo = ""
		case 6:
			repo += "/" + alnum() + "___" + alnum()
		}
	}
	tagc := "abzAZ09_.-"
	tag := string("aZ0_"[r.Intn(4)])
	for k := r.Intn(12); k > 0; k-- {
		tag += string(tagc[r.Intn(len(tagc))])
	}
	okT := true
	if r.Chance(1, 4) {
		okT = false
		tag = common.Pick(r, []string{"." + tag, "-" + tag, tag + "!", tag + " ", strings.Repeat("t", 129), tag + "\xc3\xa9", tag + "+"})
	}
	dg := randDigest(r)
	okD := okDigest(dg) // by the independent digest rule
	var s string
	var acc bool
	want := registry.Reference{Registry: reg, Repository: repo}
	switch r.Intn(4) {
	case 0:
		s, acc = reg+"/"+repo, okRepo
	case 1:
		s, acc = reg+"/"+repo+":"+tag, okRepo && okT
		want.Reference = tag
	case 2:
		s, acc = reg+"/"+repo+"@"+dg, okRepo && okD
		want.Reference = dg
	default:
		junk := tag
		if r.Bool() {
			junk = strings.ReplaceAll(randJunk(r), "@", "")
		}
		s, acc = reg+"/"+repo+":"+junk+"@"+dg, okRepo && okD
		want.Reference = dg
	}
	// a broken repository that contains ':' or '@' shifts the split: not a constructed ground truth
	if strings.ContainsAny(repo, ":@") {
		return
	}
	id := run.NewID()
	ref, err := registry.ParseReference(s)
	obs := errObs(id, "ParseReference", s, err, map[string]string{"op": "P", "input": s})
	if err == nil {
		obs = showRef(ref) + " FMT " + common.Hex(ref.String())
	}
	run.Case(id, "P "+common.Hex(s), obs)
	run.Count("constructed")
	if acc {
		run.Count("constructed_accept")
	}
	if acc != (err == nil) {
		run.OracleFail(id, "constructed-accept", fmt.Sprintf("ParseReference(%q): accepted=%v, but it was assembled from registry %q (valid), repository %q (valid=%v), reference part (valid=%v)", s, err == nil, reg, repo, okRepo, acc || !okRepo),
			map[string]string{"op": "P", "input": s})
	} else if acc && ref != want {
		run.OracleFail(id, "constructed-parts", fmt.Sprintf("ParseReference(%q) = %+v, assembled from %+v", s, ref, want), map[string]string{"op": "P", "input": s})
	}
}

// randDigest: a digest with random mixed hex (boundary characters '0' '9' 'a' 'f' over-represented),
// valid with probability ~1/2, otherwise with one realistic defect.
func randDigest(r *common.Rand) string {
	algs := []struct {
		name string
		n    int
	}{{"sha256", 64}, {"sha384", 96}, {"sha512", 128}}
	a := common.Pick(r, algs)
	hexc := "0123456789abcdef09af09af"
	bs := make([]byte, a.n)
	for i := range bs {
		bs[i] = hexc[r.Intn(len(hexc))]
	}
	name := a.name
	switch r.Intn(14) {
	case 0:
		bs[r.Intn(len(bs))] = "gG/:@FA`"[r.Intn(8)]
	case 1:
		bs = bs[:len(bs)-1]
	case 2:
		bs = append(bs, 'f')
	case 3:
		name = common.Pick(r, otherAlgs)
	case 4:
		name = common.Pick(r, algs).name // possibly wrong length for the algorithm
	case 5:
		bs = bs[:r.Intn(3)]
	case 6:
		name = strings.ToUpper(name[:1]) + name[1:]
	}
	return name + ":" + string(bs)
}

// algorithm names go-digest v1.0.0 does not register (or that other versions / callers might)
var otherAlgs = []string{"sha1", "md5", "sha224", "sha512-256", "sha512_256", "sha3-256", "blake3", "blake2b", "sha256+b64", "sha256.x", "multihash+base58", "sha", "", "SHA256", "sha-256"}

// junk: what may stand between ':' and '@' (a tag that is dropped unvalidated): valid tags, and
// strings with ':', '/', invalid tag characters, over-long ones
func randJunk(r *common.Rand) string {
	switch r.Intn(6) {
	case 0:
		return common.Pick(r, []string{"v1", "latest", "A.b-c_d", ""})
	case 1:
		return common.Pick(r, []string{"a:b", "a/b", "v1:", ":v1", "-x", ".x", "a b", "a%41", "a?b", "a#b", "\xc3\xa9", "../x", "//", "x/y:z"})
	case 2:
		return strings.Repeat("x", 120+r.Intn(20))
	default:
		n := 1 + r.Intn(6)
		cs := "abzAZ09_.-:/ ?#%+~!"
		var sb strings.Builder
		for i := 0; i < n; i++ {
			sb.WriteByte(cs[r.Intn(len(cs))])
		}
		return sb.String()
	}
}

// componentCase: one validator on one component ("repo", "tag", "digest"): implementation vs
// model (correspondence) vs the hand-written recogniser (oracle)
func componentCase(kind, s string) {
	id := run.NewID()
	var got, want bool
	switch kind {
	case "repo":
		got, want = registry.Reference{Repository: s}.ValidateRepository() == nil, okRepository(s)
	case "tag":
		got, want = registry.Reference{Reference: s}.ValidateReferenceAsTag() == nil, okTag(s)
	case "digest":
		got, want = digest.Digest(s).Validate() == nil, okDigest(s)
		if got2 := (registry.Reference{Reference: s}).ValidateReferenceAsDigest() == nil; got2 != got {
			run.OracleFail(id, "component-digest", fmt.Sprintf("ValidateReferenceAsDigest(%q)=%v but go-digest Validate=%v", s, got2, got), map[string]string{"op": "V", "kind": kind, "input": s})
		}
	}
	run.Case(id, "V "+kind+" "+common.Hex(s), fmt.Sprintf("VALID %v", got))
	run.Count("component_" + kind)
	if got {
		run.Nontrivial("V:" + kind + ":" + s)
		run.Count("component_" + kind + "_ok")
	}
	if got != want {
		run.OracleFail(id, "component-"+kind, fmt.Sprintf("%s validator accepts %q = %v, documented rule says %v", kind, s, got, want),
			map[string]string{"op": "V", "kind": kind, "input": s})
	}
}
func randDigestValid(r *common.Rand) string {
	for {
		if d := randDigest(r); okDigest(d) {
			return d
		}
	}
}
func mutate(r *common.Rand, s string) string {
	bs := []byte(s)
	special := []byte("/:@.-_ A%?#[]\\\x00\x7f\xc3\xa9+~")
	switch r.Intn(4) {
	case 0:
		if len(bs) > 0 {
			bs[r.Intn(len(bs))] = special[r.Intn(len(special))]
		}
	case 1:
		i := r.Intn(len(bs) + 1)
		bs = append(bs[:i], append([]byte{special[r.Intn(len(special))]}, bs[i:]...)...)
	case 2:
		if len(bs) > 0 {
			i := r.Intn(len(bs))
			bs = append(bs[:i], bs[i+1:]...)
		}
	case 3:
		if len(bs) > 1 {
			i, j := r.Intn(len(bs)), r.Intn(len(bs))
			bs[i], bs[j] = bs[j], bs[i]
		}
	}
	return string(bs)
}
