// Reference-taking Repository operations: which requests do they emit for a
// reference string given in any accepted form?  (Model: coq/Model/RefOps.v.)
package main

import (
	"bytes"
	"context"
	"fmt"
	"io"
	"net/http"
	"strconv"
	"strings"

	"github.com/opencontainers/go-digest"
	ocispec "github.com/opencontainers/image-spec/specs-go/v1"
	"oras.land/oras-go/v2/registry"
	"oras.land/oras-go/v2/registry/remote"
	"verifharness/common"
)

var opManifest = []byte(`{"schemaVersion":2,"mediaType":"application/vnd.oci.image.manifest.v1+json","config":{"mediaType":"application/vnd.oci.empty.v1+json","digest":"sha256:44136fa355b3678a1146ad16f7e8649e94fb4fc21fe77e8310c060f61caaff8a","size":2},"layers":[]}`)
var opManifestDesc = ocispec.Descriptor{MediaType: ocispec.MediaTypeImageManifest, Digest: digest.FromBytes(opManifest), Size: int64(len(opManifest))}

// recTransport records every request and answers like a registry that holds
// opManifest under every manifest reference and every blob digest.
type recTransport struct {
	reqs []*http.Request
}

func (t *recTransport) RoundTrip(req *http.Request) (*http.Response, error) {
	t.reqs = append(t.reqs, req)
	if req.Body != nil {
		io.Copy(io.Discard, req.Body)
		req.Body.Close()
	}
	h := http.Header{}
	resp := &http.Response{Proto: "HTTP/1.1", ProtoMajor: 1, ProtoMinor: 1, Header: h, Request: req, Body: http.NoBody}
	isManifest := strings.Contains(req.URL.Path, "/manifests/")
	switch req.Method {
	case http.MethodHead, http.MethodGet:
		resp.StatusCode = http.StatusOK
		if isManifest {
			h.Set("Content-Type", ocispec.MediaTypeImageManifest)
		} else {
			h.Set("Content-Type", "application/octet-stream")
		}
		h.Set("Docker-Content-Digest", opManifestDesc.Digest.String())
		h.Set("Content-Length", strconv.Itoa(len(opManifest)))
		resp.ContentLength = int64(len(opManifest))
		if req.Method == http.MethodGet {
			resp.Body = io.NopCloser(bytes.NewReader(opManifest))
		}
	case http.MethodPut:
		resp.StatusCode = http.StatusCreated
		h.Set("Docker-Content-Digest", opManifestDesc.Digest.String())
	default:
		resp.StatusCode = http.StatusMethodNotAllowed
	}
	resp.Status = strconv.Itoa(resp.StatusCode) + " " + http.StatusText(resp.StatusCode)
	return resp, nil
}

// replay: variant forced
var forcedVariant = -1

var opKinds = []string{"mresolve", "mfetchref", "tag", "pushref", "bresolve", "bfetchref"}

// runOp: variant bit 0-1 = referrers capability (0 supported, 1 unsupported, 2/3 unknown: the
// manifest has no subject, so every state must emit the same single PUT -- the unknown/unsupported
// states go through the second push call site of pushWithIndexing), bit 2 = call the Repository
// wrapper instead of the manifest store.
func runOp(base registry.Reference, op string, plain bool, in string, variant int) []*http.Request {
	t := &recTransport{}
	repo := &remote.Repository{Reference: base, PlainHTTP: plain, Client: &http.Client{Transport: t}}
	switch variant & 3 {
	case 0:
		repo.SetReferrersCapability(true)
	case 1:
		repo.SetReferrersCapability(false)
	}
	wrapper := variant&4 != 0
	run.Count(fmt.Sprintf("op_variant_%d", variant&7))
	ctx := context.Background()
	switch op {
	case "mresolve":
		if wrapper {
			repo.Resolve(ctx, in)
		} else {
			repo.Manifests().Resolve(ctx, in)
		}
	case "mfetchref":
		var rc io.ReadCloser
		var err error
		if wrapper {
			_, rc, err = repo.FetchReference(ctx, in)
		} else {
			_, rc, err = repo.Manifests().FetchReference(ctx, in)
		}
		if err == nil {
			rc.Close()
		}
	case "tag":
		if wrapper {
			repo.Tag(ctx, opManifestDesc, in)
		} else {
			repo.Manifests().Tag(ctx, opManifestDesc, in)
		}
	case "pushref":
		if wrapper {
			repo.PushReference(ctx, opManifestDesc, bytes.NewReader(opManifest), in)
		} else {
			repo.Manifests().PushReference(ctx, opManifestDesc, bytes.NewReader(opManifest), in)
		}
	case "bresolve":
		repo.Blobs().Resolve(ctx, in)
	case "bfetchref":
		if _, rc, err := repo.Blobs().FetchReference(ctx, in); err == nil {
			rc.Close()
		}
	default:
		panic("op " + op)
	}
	return t.reqs
}

// opCase runs one operation; want != "" is the generator's ground truth for the
// resolved reference (independent oracle), "" means correspondence only.
func opCase(base registry.Reference, op string, plain bool, in, want string) {
	id := run.NewID()
	variant := run.Rand.Intn(8)
	if forcedVariant >= 0 {
		variant = forcedVariant
	}
	reqs := runOp(base, op, plain, in, variant)
	var sb strings.Builder
	sb.WriteString("REQS")
	for _, q := range reqs {
		sb.WriteString(" " + common.Hex(q.Method) + ":" + common.Hex(q.URL.String()))
	}
	p := "0"
	if plain {
		p = "1"
	}
	run.Case(id, fmt.Sprintf("O %s %s %s %s %s %s", op, p, common.Hex(base.Registry), common.Hex(base.Repository), common.Hex(in),
		common.Hex(opManifestDesc.Digest.String())), sb.String())
	run.Count("op_" + op)
	if len(reqs) > 0 {
		run.Nontrivial("O:" + op + p + base.String() + "|" + in)
		run.Count("op_sent")
	} else {
		run.Count("op_refused")
	}
	if want != "" {
		run.Count("op_ground_truth")
	}
	rep := map[string]any{"op": "O", "kind": op, "plain": plain, "registry": base.Registry, "repository": base.Repository, "input": in, "want": want, "variant": strconv.Itoa(variant)}
	// a reference string naming another path must be refused before anything is sent
	if baseJudged(base) && namesOtherRepository(base, in) && len(reqs) > 0 {
		run.OracleFail(id, "repo-foreign-path", fmt.Sprintf("%s(%q) on %v sent %s %s: the input names a path that is not the base repository", op, in, base, reqs[0].Method, reqs[0].URL), rep)
	}
	// generic slot shape of every emitted request, whatever the input
	for _, q := range reqs {
		segs := strings.Split(q.URL.EscapedPath(), "/")
		repoSegs := strings.Split(base.Repository, "/")
		okShape := len(segs) == 2+len(repoSegs)+2 && segs[0] == "" && segs[1] == "v2" &&
			strings.Join(segs[2:2+len(repoSegs)], "/") == base.Repository &&
			(segs[len(segs)-2] == "manifests" || segs[len(segs)-2] == "blobs")
		if !okShape || q.URL.RawQuery != "" || q.URL.Fragment != "" || q.URL.User != nil {
			run.OracleFail(id, "op-url-slot", fmt.Sprintf("%s(%q) on %v sent %s %s: not /v2/<repository>/<kind>/<reference>", op, in, base, q.Method, q.URL),
				rep)
			return
		}
	}
	if want == "" {
		return
	}
	// ground truth: the reference-carrying request names exactly the resolved reference
	kind := "manifests"
	method := map[string]string{"mresolve": "HEAD", "mfetchref": "GET", "tag": "PUT", "pushref": "PUT", "bresolve": "HEAD", "bfetchref": "GET"}[op]
	if op == "bresolve" || op == "bfetchref" {
		kind = "blobs"
		if !okDigest(want) { // blob operations refuse tags before sending anything
			if len(reqs) != 0 {
				run.OracleFail(id, "op-blob-tag", fmt.Sprintf("%s(%q) sent %d requests for a tag reference", op, in, len(reqs)), rep)
			}
			return
		}
	}
	wantPath := "/v2/" + base.Repository + "/" + kind + "/" + want
	found := false
	for _, q := range reqs {
		last := q.URL.EscapedPath()[strings.LastIndex(q.URL.EscapedPath(), "/")+1:]
		if q.Method == method && q.URL.EscapedPath() == wantPath {
			found = true
		} else if last != want && last != opManifestDesc.Digest.String() {
			run.OracleFail(id, "op-url-reference", fmt.Sprintf("%s(%q) on %v sent %s %s: last segment is neither the resolved reference %q nor the descriptor digest", op, in, base, q.Method, q.URL, want), rep)
			return
		}
	}
	if !found {
		run.OracleFail(id, "op-url-reference", fmt.Sprintf("%s(%q) on %v: no %s %s among %d requests", op, in, base, method, wantPath, len(reqs)), rep)
	}
}

// opForms: every operation on every equivalent form of tag / digest.
func opForms(base registry.Reference, tag, dg string) {
	b := base.Registry + "/" + base.Repository
	type form struct{ in, want string }
	forms := []form{{tag, tag}, {dg, dg}, {tag + "@" + dg, dg}, {b + ":" + tag, tag}, {b + "@" + dg, dg}, {b + ":" + tag + "@" + dg, dg}}
	for _, f := range forms {
		for _, op := range opKinds {
			opCase(base, op, run.Rand.Bool(), f.in, f.want)
		}
	}
}
