// Reference-taking Repository operations: which requests do they emit for a
// reference string given in any accepted form?  (Model: coq/Model/RefOps.v.)
package main

import (
	"bytes"
	"context"
	"errors"
	"fmt"
	"io"
	"net/http"
	"net/url"
	"strconv"
	"strings"
	"sync"
	"time"

	"github.com/opencontainers/go-digest"
	ocispec "github.com/opencontainers/image-spec/specs-go/v1"
	oras "oras.land/oras-go/v2"
	"oras.land/oras-go/v2/registry"
	"oras.land/oras-go/v2/registry/remote"
	"verifharness/common"
)

var opManifest = []byte(`{"schemaVersion":2,"mediaType":"application/vnd.oci.image.manifest.v1+json","config":{"mediaType":"application/vnd.oci.empty.v1+json","digest":"sha256:44136fa355b3678a1146ad16f7e8649e94fb4fc21fe77e8310c060f61caaff8a","size":2},"layers":[]}`)
var opManifestDesc = ocispec.Descriptor{MediaType: ocispec.MediaTypeImageManifest, Digest: digest.FromBytes(opManifest), Size: int64(len(opManifest))}

// recTransport records every request and answers like a registry that holds
// opManifest under every manifest reference and every blob digest.
type recTransport struct {
	mu      sync.Mutex
	reqs    []*http.Request
	dead    bool // set by the watchdog: every further request fails
	runaway bool // more than maxRequests requests in one operation
}

// no operation of this harness needs more than a handful of requests: a pagination or retry loop
// that does not terminate is cut here (and reported) instead of wedging the run
const maxRequests = 40

// requests returns what was recorded so far (the operation may still be running if it wedged)
func (t *recTransport) requests() []*http.Request {
	t.mu.Lock()
	defer t.mu.Unlock()
	return append([]*http.Request(nil), t.reqs...)
}

// guard runs one operation under a watchdog: an operation that does not return within the limit
// is abandoned (its transport starts failing) and reported as an oracle failure by the caller.
func (t *recTransport) guard(op func(ctx context.Context)) (hung bool) {
	if !t.guardOnce(op, 5*time.Second) {
		return false
	}
	// a time-out is re-confirmed before it is reported: the same operation once more, from a
	// clean transport state, with a three times longer limit (a loaded machine is not a wedge)
	t.mu.Lock()
	t.reqs, t.dead, t.runaway = nil, false, false
	t.mu.Unlock()
	return t.guardOnce(op, 15*time.Second)
}

func (t *recTransport) guardOnce(op func(ctx context.Context), limit time.Duration) (hung bool) {
	ctx, cancel := context.WithCancel(context.Background())
	defer cancel()
	done := make(chan struct{})
	go func() {
		defer close(done)
		op(ctx)
	}()
	select {
	case <-done:
		return false
	case <-time.After(limit):
		t.mu.Lock()
		t.dead = true
		t.mu.Unlock()
		cancel()
		select {
		case <-done:
		case <-time.After(2 * time.Second):
		}
		return true
	}
}

func (t *recTransport) RoundTrip(req *http.Request) (*http.Response, error) {
	t.mu.Lock()
	if t.dead || len(t.reqs) >= maxRequests {
		if !t.dead {
			t.runaway = true
		}
		t.mu.Unlock()
		return nil, errors.New("verif: transport closed")
	}
	t.reqs = append(t.reqs, req)
	t.mu.Unlock()
	if req.Body != nil {
		io.Copy(io.Discard, req.Body)
		req.Body.Close()
	}
	h := http.Header{}
	resp := &http.Response{Proto: "HTTP/1.1", ProtoMajor: 1, ProtoMinor: 1, Header: h, Request: req, Body: http.NoBody}
	isManifest := strings.Contains(req.URL.Path, "/manifests/")
	switch req.Method {
	case http.MethodHead, http.MethodGet:
		resp.StatusCode = http.StatusOK
		if isManifest {
			h.Set("Content-Type", ocispec.MediaTypeImageManifest)
		} else {
			h.Set("Content-Type", "application/octet-stream")
		}
		h.Set("Docker-Content-Digest", opManifestDesc.Digest.String())
		h.Set("Content-Length", strconv.Itoa(len(opManifest)))
		resp.ContentLength = int64(len(opManifest))
		if req.Method == http.MethodGet {
			resp.Body = io.NopCloser(bytes.NewReader(opManifest))
		}
	case http.MethodPut:
		resp.StatusCode = http.StatusCreated
		h.Set("Docker-Content-Digest", opManifestDesc.Digest.String())
	default:
		resp.StatusCode = http.StatusMethodNotAllowed
	}
	resp.Status = strconv.Itoa(resp.StatusCode) + " " + http.StatusText(resp.StatusCode)
	return resp, nil
}

// replay: variant forced
var forcedVariant = -1

// wedges counts operations cut by the watchdog
var wedges int

var opKinds = []string{"mresolve", "mfetchref", "tag", "pushref", "bresolve", "bfetchref"}

// runOp: variant bit 0-1 = referrers capability (0 supported, 1 unsupported, 2/3 unknown: the
// manifest has no subject, so every state must emit the same single PUT -- the unknown/unsupported
// states go through the second push call site of pushWithIndexing), bit 2 = call the Repository
// wrapper instead of the manifest store.
func runOp(base registry.Reference, op string, plain bool, in string, variant int) ([]*http.Request, bool) {
	t := &recTransport{}
	repo := &remote.Repository{Reference: base, PlainHTTP: plain, Client: &http.Client{Transport: t}}
	switch variant & 3 {
	case 0:
		repo.SetReferrersCapability(true)
	case 1:
		repo.SetReferrersCapability(false)
	}
	wrapper := variant&4 != 0
	run.Count(fmt.Sprintf("op_variant_%d", variant&7))
	hung := t.guard(func(ctx context.Context) {
		switch op {
		case "mresolve":
			if wrapper {
				repo.Resolve(ctx, in)
			} else {
				repo.Manifests().Resolve(ctx, in)
			}
		case "mfetchref":
			var rc io.ReadCloser
			var err error
			if wrapper {
				_, rc, err = repo.FetchReference(ctx, in)
			} else {
				_, rc, err = repo.Manifests().FetchReference(ctx, in)
			}
			if err == nil {
				rc.Close()
			}
		case "tag":
			if wrapper {
				repo.Tag(ctx, opManifestDesc, in)
			} else {
				repo.Manifests().Tag(ctx, opManifestDesc, in)
			}
		case "pushref":
			if wrapper {
				repo.PushReference(ctx, opManifestDesc, bytes.NewReader(opManifest), in)
			} else {
				repo.Manifests().PushReference(ctx, opManifestDesc, bytes.NewReader(opManifest), in)
			}
		case "bresolve":
			repo.Blobs().Resolve(ctx, in)
		case "bfetchref":
			if _, rc, err := repo.Blobs().FetchReference(ctx, in); err == nil {
				rc.Close()
			}
		default:
			panic("op " + op)
		}
	})
	return t.requests(), hung || t.runaway
}

// opCase runs one operation; want != "" is the generator's ground truth for the
// resolved reference (independent oracle), "" means correspondence only.
func opCase(base registry.Reference, op string, plain bool, in, want string) {
	id := run.NewID()
	variant := run.Rand.Intn(8)
	if forcedVariant >= 0 {
		variant = forcedVariant
	}
	if wedges >= 3 { // the operations wedge systematically: reported three times, do not wait again
		run.Count("op_skipped_after_hangs")
		return
	}
	reqs, wedged := runOp(base, op, plain, in, variant)
	if wedged {
		wedges++
		run.OracleFail(id, "op-hang", fmt.Sprintf("%s(%q) on %v did not return within the watchdog limit (5 s, re-confirmed with 15 s) or sent more than %d requests (%d recorded)", op, in, base, maxRequests, len(reqs)),
			map[string]any{"op": "O", "kind": op, "plain": plain, "registry": base.Registry, "repository": base.Repository, "input": in, "want": want, "variant": strconv.Itoa(variant)})
		return
	}
	var sb strings.Builder
	sb.WriteString("REQS")
	for _, q := range reqs {
		sb.WriteString(" " + common.Hex(q.Method) + ":" + common.Hex(q.URL.String()))
	}
	p := "0"
	if plain {
		p = "1"
	}
	run.Case(id, fmt.Sprintf("O %s %s %s %s %s %s", op, p, common.Hex(base.Registry), common.Hex(base.Repository), common.Hex(in),
		common.Hex(opManifestDesc.Digest.String())), sb.String())
	run.Count("op_" + op)
	if len(reqs) > 0 {
		run.Nontrivial("O:" + op + p + base.String() + "|" + in)
		run.Count("op_sent")
	} else {
		run.Count("op_refused")
	}
	if want != "" {
		run.Count("op_ground_truth")
	}
	rep := map[string]any{"op": "O", "kind": op, "plain": plain, "registry": base.Registry, "repository": base.Repository, "input": in, "want": want, "variant": strconv.Itoa(variant)}
	// a reference string naming another path must be refused before anything is sent
	if baseJudged(base) && namesOtherRepository(base, in) && len(reqs) > 0 {
		run.OracleFail(id, "repo-foreign-path", fmt.Sprintf("%s(%q) on %v sent %s %s: the input names a path that is not the base repository", op, in, base, reqs[0].Method, reqs[0].URL), rep)
	}
	// generic slot shape of every emitted request, whatever the input
	for _, q := range reqs {
		segs := strings.Split(q.URL.EscapedPath(), "/")
		repoSegs := strings.Split(base.Repository, "/")
		okShape := len(segs) == 2+len(repoSegs)+2 && segs[0] == "" && segs[1] == "v2" &&
			strings.Join(segs[2:2+len(repoSegs)], "/") == base.Repository &&
			(segs[len(segs)-2] == "manifests" || segs[len(segs)-2] == "blobs")
		if !okShape || q.URL.RawQuery != "" || q.URL.Fragment != "" || q.URL.User != nil {
			run.OracleFail(id, "op-url-slot", fmt.Sprintf("%s(%q) on %v sent %s %s: not /v2/<repository>/<kind>/<reference>", op, in, base, q.Method, q.URL),
				rep)
			return
		}
	}
	if want == "" {
		return
	}
	// ground truth: the reference-carrying request names exactly the resolved reference
	kind := "manifests"
	method := map[string]string{"mresolve": "HEAD", "mfetchref": "GET", "tag": "PUT", "pushref": "PUT", "bresolve": "HEAD", "bfetchref": "GET"}[op]
	if op == "bresolve" || op == "bfetchref" {
		kind = "blobs"
		if !okDigest(want) { // blob operations refuse tags before sending anything
			if len(reqs) != 0 {
				run.OracleFail(id, "op-blob-tag", fmt.Sprintf("%s(%q) sent %d requests for a tag reference", op, in, len(reqs)), rep)
			}
			return
		}
	}
	wantPath := "/v2/" + base.Repository + "/" + kind + "/" + want
	found := false
	for _, q := range reqs {
		last := q.URL.EscapedPath()[strings.LastIndex(q.URL.EscapedPath(), "/")+1:]
		if q.Method == method && q.URL.EscapedPath() == wantPath {
			found = true
		} else if last != want && last != opManifestDesc.Digest.String() {
			run.OracleFail(id, "op-url-reference", fmt.Sprintf("%s(%q) on %v sent %s %s: last segment is neither the resolved reference %q nor the descriptor digest", op, in, base, q.Method, q.URL, want), rep)
			return
		}
	}
	if !found {
		run.OracleFail(id, "op-url-reference", fmt.Sprintf("%s(%q) on %v: no %s %s among %d requests", op, in, base, method, wantPath, len(reqs)), rep)
	}
}

// opForms: every operation on every equivalent form of tag / digest.
func opForms(base registry.Reference, tag, dg string) {
	b := base.Registry + "/" + base.Repository
	type form struct{ in, want string }
	forms := []form{{tag, tag}, {dg, dg}, {tag + "@" + dg, dg}, {b + ":" + tag, tag}, {b + "@" + dg, dg}, {b + ":" + tag + "@" + dg, dg}}
	for _, f := range forms {
		for _, op := range opKinds {
			opCase(base, op, run.Rand.Bool(), f.in, f.want)
		}
	}
}

// ---------- operations that build their URL from the base repository and a descriptor ----------

var descOpKinds = []string{"dmfetch", "dmdelete", "dbfetch", "dbdelete", "dreferrers", "dmount", "dbpush", "dtags"}

// cleanForURL: the request URL is observed through net/http (URL.String()), which re-encodes some
// bytes of a path; descriptor digests that are not valid digests are used only when made of
// characters URL.String() leaves alone
func cleanForURL(s string) bool {
	for i := 0; i < len(s); i++ {
		c := s[i]
		if !(isWord(c) || c == ':' || c == '+' || c == '.' || c == '-') {
			return false
		}
	}
	return s != ""
}

func runDescOp(base registry.Reference, op string, plain bool, d, a1 string, n int, wrapper bool) ([]*http.Request, bool) {
	t := &recTransport{}
	repo := &remote.Repository{Reference: base, PlainHTTP: plain, Client: &http.Client{Transport: t}}
	repo.SetReferrersCapability(true)
	repo.TagListPageSize, repo.ReferrerListPageSize = n, n
	mdesc := ocispec.Descriptor{MediaType: ocispec.MediaTypeImageManifest, Digest: digest.Digest(d), Size: int64(len(opManifest))}
	bdesc := ocispec.Descriptor{MediaType: "application/octet-stream", Digest: digest.Digest(d), Size: int64(len(opManifest))}
	hung := t.guard(func(ctx context.Context) {
		switch op {
		case "dmfetch":
			var rc io.ReadCloser
			var err error
			if wrapper {
				rc, err = repo.Fetch(ctx, mdesc)
			} else {
				rc, err = repo.Manifests().Fetch(ctx, mdesc)
			}
			if err == nil {
				rc.Close()
			}
		case "dmdelete":
			if wrapper {
				repo.Delete(ctx, mdesc)
			} else {
				repo.Manifests().Delete(ctx, mdesc)
			}
		case "dbfetch":
			var rc io.ReadCloser
			var err error
			if wrapper {
				rc, err = repo.Fetch(ctx, bdesc)
			} else {
				rc, err = repo.Blobs().Fetch(ctx, bdesc)
			}
			if err == nil {
				rc.Close()
			}
		case "dbdelete":
			if wrapper {
				repo.Delete(ctx, bdesc)
			} else {
				repo.Blobs().Delete(ctx, bdesc)
			}
		case "dreferrers":
			repo.Referrers(ctx, mdesc, a1, func([]ocispec.Descriptor) error { return nil })
		case "dmount":
			repo.Mount(ctx, bdesc, a1, nil)
		case "dbpush":
			if wrapper {
				repo.Push(ctx, bdesc, bytes.NewReader(opManifest))
			} else {
				repo.Blobs().Push(ctx, bdesc, bytes.NewReader(opManifest))
			}
		case "dtags":
			repo.Tags(ctx, a1, func([]string) error { return nil })
		default:
			panic("descop " + op)
		}
	})
	return t.requests(), hung || t.runaway
}

// descOpCase: d = descriptor digest, a1 = artifactType filter / source repository / last tag,
// n = page size (<= 0: not set).  Oracle (independent of the model): every request goes to the
// base repository's slot for the operation, and its query decodes (url.ParseQuery) to exactly the
// documented parameters.
func descOpCase(base registry.Reference, op string, plain bool, d, a1 string, n int) {
	id := run.NewID()
	wrapper := run.Rand.Bool()
	if forcedVariant >= 0 {
		wrapper = forcedVariant&4 != 0
	}
	if wedges >= 3 {
		run.Count("op_skipped_after_hangs")
		return
	}
	reqs, wedged := runDescOp(base, op, plain, d, a1, n, wrapper)
	if wedged {
		wedges++
		run.OracleFail(id, "op-hang", fmt.Sprintf("%s(%q,%q,%d) on %v did not return within the watchdog limit (5 s, re-confirmed with 15 s) or sent more than %d requests (%d recorded)", op, d, a1, n, base, maxRequests, len(reqs)),
			map[string]any{"op": "D", "kind": op, "plain": plain, "registry": base.Registry, "repository": base.Repository, "reference": d, "input": a1, "n": strconv.Itoa(n)})
		return
	}
	var sb strings.Builder
	sb.WriteString("REQS")
	for _, q := range reqs {
		sb.WriteString(" " + common.Hex(q.Method) + ":" + common.Hex(q.URL.String()))
	}
	p := "0"
	if plain {
		p = "1"
	}
	num := ""
	if n > 0 {
		num = strconv.Itoa(n)
	}
	run.Case(id, fmt.Sprintf("D %s %s %s %s %s %s %s", op, p, common.Hex(base.Registry), common.Hex(base.Repository), common.Hex(d), common.Hex(a1), common.Hex(num)), sb.String())
	run.Count("descop_" + op)
	if len(reqs) > 0 {
		run.Nontrivial("D:" + op + p + base.String() + "|" + d + "|" + a1 + "|" + num)
	}
	rep := map[string]any{"op": "D", "kind": op, "plain": plain, "registry": base.Registry, "repository": base.Repository, "reference": d, "input": a1, "n": strconv.Itoa(n)}
	if !okDigest(d) {
		run.Count("descop_invalid_digest_unjudged")
		return // a descriptor whose digest is not a digest: caller inconsistency, compared with the model only
	}
	method := map[string]string{"dmfetch": "GET", "dmdelete": "DELETE", "dbfetch": "GET", "dbdelete": "DELETE", "dreferrers": "GET", "dmount": "POST", "dbpush": "POST", "dtags": "GET"}[op]
	tail := map[string]string{"dmfetch": "manifests/" + d, "dmdelete": "manifests/" + d, "dbfetch": "blobs/" + d, "dbdelete": "blobs/" + d,
		"dreferrers": "referrers/" + d, "dmount": "blobs/uploads/", "dbpush": "blobs/uploads/", "dtags": "tags/list"}[op]
	want := url.Values{}
	switch op {
	case "dreferrers":
		if a1 != "" {
			want.Set("artifactType", a1)
		}
		if n > 0 {
			want.Set("n", strconv.Itoa(n))
		}
	case "dmount":
		if !okRepository(a1) {
			run.Count("descop_mount_from_invalid_unjudged")
			return
		}
		want.Set("mount", d)
		want.Set("from", a1)
	case "dtags":
		if a1 != "" {
			want.Set("last", a1)
		}
		if n > 0 {
			want.Set("n", strconv.Itoa(n))
		}
	}
	run.Count("descop_judged")
	if len(reqs) != 1 {
		run.OracleFail(id, "descop-requests", fmt.Sprintf("%s(%q,%q,%d) on %v sent %d requests, want 1", op, d, a1, n, base, len(reqs)), rep)
		return
	}
	q := reqs[0]
	got, qerr := url.ParseQuery(q.URL.RawQuery)
	okq := qerr == nil && len(got) == len(want)
	for k, v := range want {
		okq = okq && len(got[k]) == 1 && got[k][0] == v[0]
	}
	wantScheme := "https"
	if plain {
		wantScheme = "http"
	}
	if q.Method != method || q.URL.Scheme != wantScheme || q.URL.Host != base.Host() || q.URL.User != nil || q.URL.Fragment != "" ||
		q.URL.EscapedPath() != "/v2/"+base.Repository+"/"+tail || !okq {
		run.OracleFail(id, "descop-url", fmt.Sprintf("%s(%q,%q,%d) on %v sent %s %s; want %s %s://%s/v2/%s/%s with query exactly %v", op, d, a1, n, base, q.Method, q.URL, method, wantScheme, base.Host(), base.Repository, tail, want), rep)
	}
}

// ---------- constructors (how a base comes to exist) and the Registry's own requests ----------

// newRepositoryCase: remote.NewRepository(s) accepts exactly what ParseReference accepts and the
// base is the parsed reference; then one Resolve through the constructed value.
func newRepositoryCase(s string) {
	id := run.NewID()
	repo, err := remote.NewRepository(s)
	obs := "ERR"
	if err == nil {
		obs = showRef(repo.Reference)
		run.Count("newrepo_ok")
		run.Nontrivial("N:" + s)
	}
	run.Case(id, "N repo "+common.Hex(s)+" -", obs)
	run.Count("newrepo")
	ref, perr := registry.ParseReference(s)
	if (err == nil) != (perr == nil) || (err == nil && repo.Reference != ref) {
		run.OracleFail(id, "new-repository", fmt.Sprintf("NewRepository(%q) = %v, %v but ParseReference = %+v, %v", s, repo, err, ref, perr), map[string]string{"op": "N", "kind": "repo", "input": s})
	}
}

// registryRepositoryCase: NewRegistry(name) then Registry.Repository(ctx, sub)
func registryRepositoryCase(name, sub string) {
	id := run.NewID()
	obs := "ERR"
	reg, err := remote.NewRegistry(name)
	if (err == nil) != (registryVerdict(name) == 1) {
		run.OracleFail(id, "new-registry", fmt.Sprintf("NewRegistry(%q) accepted=%v, the registry grammar says %v", name, err == nil, registryVerdict(name) == 1), map[string]string{"op": "N", "kind": "reg", "input": name, "reference": sub})
	}
	if err == nil {
		obs = "REGOK"
		run.Count("newregistry_ok")
		r, err2 := reg.Repository(context.Background(), sub)
		if err2 == nil {
			rr := r.(*remote.Repository)
			obs = showRef(rr.Reference)
			run.Count("registry_repository_ok")
			if rr.Reference.Registry != name || rr.Reference.Repository != sub || rr.Reference.Reference != "" || !okRepository(sub) {
				run.OracleFail(id, "registry-repository", fmt.Sprintf("NewRegistry(%q).Repository(%q) = %+v", name, sub, rr.Reference), map[string]string{"op": "N", "kind": "reg", "input": name, "reference": sub})
			}
		} else if okRepository(sub) {
			run.OracleFail(id, "registry-repository", fmt.Sprintf("NewRegistry(%q).Repository(%q) refused: %v", name, sub, err2), map[string]string{"op": "N", "kind": "reg", "input": name, "reference": sub})
		}
	}
	run.Case(id, "N reg "+common.Hex(name)+" "+common.Hex(sub), obs)
	run.Count("newregistry")
}

// regOpCase: Ping / Repositories(last) with page size n on a Registry value
func regOpCase(name, op string, plain bool, last string, n int) {
	id := run.NewID()
	if wedges >= 3 {
		return
	}
	t := &recTransport{}
	reg := &remote.Registry{RepositoryOptions: remote.RepositoryOptions{Reference: registry.Reference{Registry: name}, PlainHTTP: plain, Client: &http.Client{Transport: t}}}
	reg.RepositoryListPageSize = n
	hung := t.guard(func(ctx context.Context) {
		if op == "rping" {
			reg.Ping(ctx)
		} else {
			reg.Repositories(ctx, last, func([]string) error { return nil })
		}
	})
	reqs := t.requests()
	rep := map[string]any{"op": "E", "kind": op, "plain": plain, "registry": name, "input": last, "n": strconv.Itoa(n)}
	if hung || t.runaway {
		wedges++
		run.OracleFail(id, "op-hang", fmt.Sprintf("%s on registry %q did not return (%d requests)", op, name, len(reqs)), rep)
		return
	}
	var sb strings.Builder
	sb.WriteString("REQS")
	for _, q := range reqs {
		sb.WriteString(" " + common.Hex(q.Method) + ":" + common.Hex(q.URL.String()))
	}
	p := "0"
	if plain {
		p = "1"
	}
	num := ""
	if n > 0 {
		num = strconv.Itoa(n)
	}
	run.Case(id, fmt.Sprintf("E %s %s %s %s %s", op, p, common.Hex(name), common.Hex(last), common.Hex(num)), sb.String())
	run.Count("regop_" + op)
	want := url.Values{}
	path := "/v2/"
	if op == "rcatalog" {
		path = "/v2/_catalog"
		if last != "" {
			want.Set("last", last)
		}
		if n > 0 {
			want.Set("n", num)
		}
	}
	if len(reqs) != 1 {
		run.OracleFail(id, "regop-url", fmt.Sprintf("%s on %q sent %d requests", op, name, len(reqs)), rep)
		return
	}
	q := reqs[0]
	got, qerr := url.ParseQuery(q.URL.RawQuery)
	okq := qerr == nil && len(got) == len(want)
	for k, v := range want {
		okq = okq && len(got[k]) == 1 && got[k][0] == v[0]
	}
	host := registry.Reference{Registry: name}.Host()
	if q.Method != "GET" || q.URL.Host != host || q.URL.User != nil || q.URL.Fragment != "" || q.URL.EscapedPath() != path || !okq {
		run.OracleFail(id, "regop-url", fmt.Sprintf("%s(%q,%d) on registry %q sent %s %s; want GET //%s%s with query exactly %v", op, last, n, name, q.Method, q.URL, host, path, want), rep)
	}
}

// ---------- top-level oras.Tag / oras.TagN on a remote Repository ----------

// orasTagCase: oras.Tag (one destination) / oras.TagN (Concurrency 1) from src to dsts.  Oracle:
// every request is in the base repository's manifest slot; when src and all destinations are
// given in forms whose resolved reference is known (wantSrc / wantDsts, "" = unknown), the GET names
// the resolved source and the PUTs name the resolved destinations, in order.
func orasTagCase(base registry.Reference, plain bool, src string, dsts []string, wantSrc string, wantDsts []string) {
	id := run.NewID()
	if wedges >= 3 {
		return
	}
	t := &recTransport{}
	repo := &remote.Repository{Reference: base, PlainHTTP: plain, Client: &http.Client{Transport: t}}
	if run.Rand.Bool() {
		repo.SetReferrersCapability(true)
	}
	hung := t.guard(func(ctx context.Context) {
		if len(dsts) == 1 && run.Rand.Bool() {
			oras.Tag(ctx, repo, src, dsts[0])
		} else {
			oras.TagN(ctx, repo, src, dsts, oras.TagNOptions{Concurrency: 1})
		}
	})
	reqs := t.requests()
	rep := map[string]any{"op": "T", "plain": plain, "registry": base.Registry, "repository": base.Repository, "input": src, "dsts": strings.Join(dsts, "\x00")}
	if hung || t.runaway {
		wedges++
		run.OracleFail(id, "op-hang", fmt.Sprintf("oras.TagN(%q -> %q) on %v did not return (%d requests)", src, dsts, base, len(reqs)), rep)
		return
	}
	var sb strings.Builder
	sb.WriteString("REQS")
	for _, q := range reqs {
		sb.WriteString(" " + common.Hex(q.Method) + ":" + common.Hex(q.URL.String()))
	}
	p := "0"
	if plain {
		p = "1"
	}
	in := fmt.Sprintf("T %s %s %s %s %s", p, common.Hex(base.Registry), common.Hex(base.Repository), common.Hex(src), common.Hex(opManifestDesc.Digest.String()))
	for _, d := range dsts {
		in += " " + common.Hex(d)
	}
	run.Case(id, in, sb.String())
	run.Count("oras_tag")
	if len(reqs) > 1 {
		run.Count("oras_tag_put")
		run.Nontrivial("T:" + base.String() + "|" + src + "|" + strings.Join(dsts, "|"))
	}
	prefix := "/v2/" + base.Repository + "/manifests/"
	for i, q := range reqs {
		wantMethod := "PUT"
		if i == 0 {
			wantMethod = "GET"
		}
		if q.Method != wantMethod || q.URL.Host != base.Host() || q.URL.User != nil || q.URL.RawQuery != "" || q.URL.Fragment != "" ||
			!strings.HasPrefix(q.URL.EscapedPath(), prefix) || strings.Contains(q.URL.EscapedPath()[len(prefix):], "/") {
			run.OracleFail(id, "op-url-slot", fmt.Sprintf("oras.TagN(%q -> %q) on %v sent %s %s as request %d", src, dsts, base, q.Method, q.URL, i), rep)
			return
		}
	}
	if namesOtherRepository(base, src) && len(reqs) > 0 {
		run.OracleFail(id, "repo-foreign-path", fmt.Sprintf("oras.TagN(%q) on %v sent %s %s: the source names a path that is not the base repository", src, base, reqs[0].Method, reqs[0].URL), rep)
	}
	if wantSrc == "" {
		return
	}
	run.Count("oras_tag_ground_truth")
	if len(reqs) == 0 || reqs[0].URL.EscapedPath() != prefix+wantSrc {
		run.OracleFail(id, "op-url-reference", fmt.Sprintf("oras.TagN(%q -> %q) on %v: first request is not GET %s%s (%d requests)", src, dsts, base, prefix, wantSrc, len(reqs)), rep)
		return
	}
	if okDigest(wantSrc) && wantSrc != opManifestDesc.Digest.String() {
		return // the registry serves another digest: the fetch fails, nothing is tagged
	}
	if len(reqs) != 1+len(wantDsts) {
		run.OracleFail(id, "op-url-reference", fmt.Sprintf("oras.TagN(%q -> %q) on %v sent %d requests, want 1 GET + %d PUT", src, dsts, base, len(reqs), len(wantDsts)), rep)
		return
	}
	for i, w := range wantDsts {
		if reqs[i+1].URL.EscapedPath() != prefix+w {
			run.OracleFail(id, "op-url-reference", fmt.Sprintf("oras.TagN(%q -> %q) on %v: PUT %d goes to %s, want %s%s", src, dsts, base, i, reqs[i+1].URL, prefix, w), rep)
			return
		}
	}
}
